(** * Wasm/CompileSafe — static well-formedness of the code emitted by [Wasm/Compile.v]
    (property C09: "executing an accepted module never indexes registers, constants or code
    out of bounds", here for the COMPILED register-machine code).

    The emitted byte string is described by a ghost list of FIELDS (opcode byte, raw
    immediate, source operand, written register, jump target).  [L] is an invariant of the
    compiler state ([cstate]: output, back-patch stack, providers stack, dynamic locations,
    constants, last_provide_loc) relating it to such a field list; it is preserved by every
    case of [Handler::handle_opcode] ([handle_safe]).  Reuses [cwf] of [CompileLemmas.v]
    (allocation state) and [all_locs] of [BlockProofs.v] (pending back-patch windows). *)
From Coq Require Import ZArith NArith List Lia Bool.
From CB Require Import Wasm.Syntax Wasm.Compile Wasm.Machine Wasm.MachineLemmas Wasm.CompileLemmas
     Wasm.StraightProofs Wasm.BlockProofs Wasm.BlockInv.
Import ListNotations.
Local Open Scope Z_scope.
Local Arguments i32_bytes : simpl never.
Local Arguments u32_bytes : simpl never.
Local Arguments u16_bytes : simpl never.

(** ** fields *)
Inductive field := FOp (o : N) | FImm (bs : list N) | FSrc (p : Z) | FDst (r : Z) | FTgt (t : Z).
Inductive kind := KOp (o : N) | KImm (bs : list N) | KSrc | KDst | KTgt.
Definition kind_of (f : field) : kind :=
  match f with FOp o => KOp o | FImm bs => KImm bs | FSrc _ => KSrc | FDst _ => KDst | FTgt _ => KTgt end.
Definition enc_f (f : field) : list N :=
  match f with
  | FOp o => [o] | FImm bs => bs | FSrc p => i32_bytes p | FDst r => i32_bytes r | FTgt t => u32_bytes t
  end.
Definition enc (fl : list field) : list N := flat_map enc_f fl.
Definition off (fl : list field) : Z := Z.of_nat (length (enc fl)).
Definition klen (k : kind) : nat :=
  match k with KOp _ => 1%nat | KImm bs => length bs | _ => 4%nat end.

Lemma enc_app a b : enc (a ++ b) = enc a ++ enc b.
Proof. unfold enc. apply flat_map_app. Qed.
Lemma enc_f_len f : length (enc_f f) = klen (kind_of f).
Proof. destruct f; cbn; auto using i32_bytes_length, u32_bytes_length. Qed.
Lemma off_app a b : off (a ++ b) = off a + off b.
Proof. unfold off. rewrite enc_app, app_length. lia. Qed.
Lemma off_nonneg a : 0 <= off a. Proof. unfold off. lia. Qed.
Lemma off_kinds : forall a b, map kind_of a = map kind_of b -> off a = off b.
Proof.
  induction a as [|x a IH]; destruct b as [|y b]; cbn [map]; intros H; try discriminate; auto.
  inversion H. change (x :: a) with ([x] ++ a). change (y :: b) with ([y] ++ b). rewrite !off_app.
  rewrite (IH b) by assumption. unfold off. cbn [enc flat_map]. rewrite !app_nil_r, !enc_f_len. congruence.
Qed.
Lemma off_cons f a : off (f :: a) = Z.of_nat (klen (kind_of f)) + off a.
Proof. change (f :: a) with ([f] ++ a). rewrite off_app. unfold off at 1. cbn [enc flat_map]. rewrite app_nil_r, enc_f_len. lia. Qed.

Definition four (f : field) : Prop := klen (kind_of f) = 4%nat.

(** a 4-byte field is determined by its offset *)
Lemma split_unique : forall pre pre' f f' post post',
  pre ++ f :: post = pre' ++ f' :: post' -> off pre = off pre' -> four f -> four f' ->
  pre = pre' /\ f = f' /\ post = post'.
Proof.
  induction pre as [|x pre IH]; intros [|y pre'] f f' post post' E O F F'; cbn [app] in E.
  - inversion E; auto.
  - inversion E; subst. rewrite off_cons in O. unfold four in F. pose proof (off_nonneg pre'). unfold off at 1 in O. cbn in O. lia.
  - inversion E; subst. rewrite off_cons in O. unfold four in F'. pose proof (off_nonneg pre). unfold off at 2 in O. cbn in O. lia.
  - inversion E; subst. rewrite !off_cons in O. destruct (IH pre' f f' post post') as (A & B & C); auto; try lia. subst. auto.
Qed.

Lemma split3 {A} : forall (pre : list A) f post p0 x q0,
  pre ++ f :: post = p0 ++ x :: q0 ->
  (p0 = pre /\ x = f /\ q0 = post)
  \/ (exists m, pre = p0 ++ x :: m /\ q0 = m ++ f :: post)
  \/ (exists m, p0 = pre ++ f :: m /\ post = m ++ x :: q0).
Proof.
  induction pre as [|a pre IH]; intros f post [|b p0] x q0 E; cbn [app] in E.
  - inversion E; auto.
  - inversion E; subst. right. right. exists p0. auto.
  - inversion E; subst. right. left. exists pre. auto.
  - inversion E; subst. destruct (IH _ _ _ _ _ H1) as [(A1 & A2 & A3)|[(m & A1 & A2)|(m & A1 & A2)]]; subst.
    + left; auto.
    + right; left. exists m. auto.
    + right; right. exists m. auto.
Qed.
Lemma split_last {A} (fl : list A) f p0 x q0 :
  fl ++ [f] = p0 ++ x :: q0 -> (p0 = fl /\ x = f /\ q0 = []) \/ (exists m, fl = p0 ++ x :: m /\ q0 = m ++ [f]).
Proof.
  intros E. destruct (split3 fl f [] p0 x q0 E) as [(A1 & A2 & A3)|[(m & A1 & A2)|(m & A1 & A2)]]; auto.
  - right. exists m. auto.
  - destruct m; discriminate.
Qed.

(** overwriting a 4-byte field *)
Lemma overwrite_at : forall (a l bs : list N), overwrite (a ++ l) (length a) bs = a ++ bs ++ skipn (length bs) l.
Proof. induction a as [|x a IH]; intros l bs; cbn [app length overwrite]; [destruct l; reflexivity|]. rewrite IH. reflexivity. Qed.
Lemma overwrite_field pre f post v :
  four f -> overwrite (enc (pre ++ f :: post)) (Z.to_nat (off pre)) (u32_bytes v) = enc pre ++ u32_bytes v ++ enc post.
Proof.
  intros F. unfold off. rewrite Nat2Z.id, enc_app. cbn [enc flat_map]. rewrite overwrite_at. f_equal. f_equal.
  rewrite u32_bytes_length. fold (enc post). unfold four in F. rewrite <- (enc_f_len f) in F.
  rewrite <- F. rewrite skipn_app, skipn_all, Nat.sub_diag. reflexivity.
Qed.

(** ** the invariant *)
Section Safe.
Variable nl : Z.     (* registers [0, nl): locals (and the return-value location) *)

Definition fok (nx nc : Z) (f : field) : Prop :=
  match f with FSrc p => - nc <= p < nx | FDst r => 0 <= r < nx | _ => True end.
Definition res_ok (nx : Z) (r : provider) : Prop :=
  match r with PDyn d => nl <= d < nx | PLocal i => 0 <= i < nl | PConst _ => False end.
Definition ncon (s : cstate) : Z := Z.of_nat (length (c_consts s)).

Record L (bs pl : list Z) (s : cstate) (fl : list field) : Prop := {
  l_cwf : cwf nl s;
  l_out : c_out s = enc fl;
  l_ops : Forall (fok (c_next s) (ncon s)) fl;
  l_tgt : forall pre t post, fl = pre ++ FTgt t :: post -> In t bs \/ In (off pre) pl;
  l_pend : forall q, In q pl -> exists pre t post, fl = pre ++ FTgt t :: post /\ off pre = q;
  l_known : forall pos, In (JKnown pos) (c_bp s) -> In pos bs;
  l_res : forall locs r, In (JUnknown locs (Some r)) (c_bp s) -> res_ok (c_next s) r;
  l_last : forall q, c_last s = Some q -> exists pre r, fl = pre ++ [FDst r] /\ off pre = q
}.

Lemma fok_mono nx nc nx' nc' f : nx <= nx' -> nc <= nc' -> fok nx nc f -> fok nx' nc' f.
Proof. destruct f; cbn; lia. Qed.
Lemma res_ok_mono nx nx' r : nx <= nx' -> res_ok nx r -> res_ok nx' r.
Proof. destruct r; cbn; lia. Qed.

Lemma pwf_fok s p : cwf nl s -> pwf nl s p -> fok (c_next s) (ncon s) (FSrc (provider_idx p)).
Proof.
  intros W H. destruct W as [W1 _ _ _ _]. destruct p as [r|i|c]; cbn in *; unfold ncon; try lia.
  destruct H as [Hn (v & Hv)]. assert (Z.to_nat (- (c + 1)) < length (c_consts s))%nat by (apply nth_error_Some; congruence). lia.
Qed.
Lemma res_ok_fok s r : cwf nl s -> res_ok (c_next s) r -> fok (c_next s) (ncon s) (FDst (provider_idx r)).
Proof. intros [W1 _ _ _ _] H. destruct r; cbn in *; try lia. Qed.

(** allocation-only changes *)
Lemma L_alloc bs pl s s' fl :
  L bs pl s fl -> cwf nl s' -> c_out s' = c_out s -> c_bp s' = c_bp s -> c_last s' = c_last s ->
  c_next s <= c_next s' -> ncon s <= ncon s' -> L bs pl s' fl.
Proof.
  intros [A1 A2 A3 A4 A5 A6 A7 A8] W Eo Eb El Hn Hc. constructor; auto; try congruence.
  - eapply Forall_impl; [|exact A3]. intros f. apply fok_mono; auto.
  - rewrite Eb. exact A6.
  - rewrite Eb. intros locs r H. eapply res_ok_mono; [exact Hn|eauto].
  - rewrite El. exact A8.
Qed.
Lemma L_bs bs bs' pl s fl : L bs pl s fl -> incl bs bs' -> L bs' pl s fl.
Proof.
  intros [A1 A2 A3 A4 A5 A6 A7 A8] Hi. constructor; auto.
  intros pre t post E. destruct (A4 _ _ _ E); auto.
Qed.
Lemma L_pl bs pl pl' s fl : L bs pl s fl -> (forall q, In q pl <-> In q pl') -> L bs pl' s fl.
Proof.
  intros [A1 A2 A3 A4 A5 A6 A7 A8] Hi. constructor; auto.
  - intros pre t post E. destruct (A4 _ _ _ E); auto. right. apply Hi. auto.
  - intros q Hq. apply A5. apply Hi. auto.
Qed.
Lemma L_set_bp bs pl s fl bp :
  L bs pl s fl -> (forall pos, In (JKnown pos) bp -> In pos bs) ->
  (forall locs r, In (JUnknown locs (Some r)) bp -> res_ok (c_next s) r) -> L bs pl (set_bp s bp) fl.
Proof.
  intros [A1 A2 A3 A4 A5 A6 A7 A8] H1 H2. constructor; auto.
  eapply cwf_same; [|exact A1]. repeat split.
Qed.
Lemma L_set_last_none bs pl s fl : L bs pl s fl -> L bs pl (set_last s None) fl.
Proof.
  intros [A1 A2 A3 A4 A5 A6 A7 A8]. constructor; auto.
  - eapply cwf_same; [|exact A1]. repeat split.
  - cbn. discriminate.
Qed.

(** appending one field (possibly together with an allocation change) *)
Lemma L_app bs pl s s' fl f :
  L bs pl s fl -> cwf nl s' -> c_out s' = c_out s ++ enc_f f -> c_bp s' = c_bp s ->
  c_next s <= c_next s' -> ncon s <= ncon s' -> fok (c_next s') (ncon s') f ->
  (forall t, f = FTgt t -> In t bs) ->
  (c_last s' = None \/ (c_last s' = Some (off fl) /\ exists r, f = FDst r)) ->
  L bs pl s' (fl ++ [f]).
Proof.
  intros [A1 A2 A3 A4 A5 A6 A7 A8] W Eo Eb Hn Hc Hf Ht Hl. constructor; auto.
  - rewrite Eo, A2, enc_app. cbn [enc flat_map]. rewrite app_nil_r. reflexivity.
  - apply Forall_app. split; [|constructor; auto]. eapply Forall_impl; [|exact A3]. intros g. apply fok_mono; auto.
  - intros pre t post E. apply split_last in E. destruct E as [(E1 & E2 & E3)|(m & E1 & E2)].
    + left. apply Ht. auto.
    + eapply A4; eauto.
  - intros q Hq. destruct (A5 q Hq) as (pre & t & post & E & O). exists pre, t, (post ++ [f]). split; auto.
    rewrite E, <- app_assoc. reflexivity.
  - rewrite Eb. exact A6.
  - rewrite Eb. intros locs r H. eapply res_ok_mono; [exact Hn|eauto].
  - intros q Hq. destruct Hl as [Hl|(Hl & r & ->)]; [congruence|]. exists fl, r. split; auto. congruence.
Qed.

(** appending a jump-target field that stays pending *)
Lemma L_app_pend bs pl s s' fl :
  L bs pl s fl -> cwf nl s' -> c_out s' = c_out s ++ enc_f (FTgt 0) ->
  (forall pos, In (JKnown pos) (c_bp s') -> In (JKnown pos) (c_bp s)) ->
  (forall locs r, In (JUnknown locs (Some r)) (c_bp s') -> exists locs', In (JUnknown locs' (Some r)) (c_bp s)) ->
  c_next s' = c_next s -> ncon s' = ncon s -> c_last s' = None ->
  L bs (off fl :: pl) s' (fl ++ [FTgt 0]).
Proof.
  intros [A1 A2 A3 A4 A5 A6 A7 A8] W Eo Ek Er Hn Hc Hl. constructor; auto.
  - rewrite Eo, A2, enc_app. cbn [enc flat_map]. rewrite app_nil_r. reflexivity.
  - rewrite Hn, Hc. apply Forall_app. split; auto. constructor; cbn; auto.
  - intros pre t post E. apply split_last in E. destruct E as [(E1 & E2 & E3)|(m & E1 & E2)].
    + subst. right. left. reflexivity.
    + destruct (A4 _ _ _ E1); auto. right. right. auto.
  - intros q [<-|Hq].
    + exists fl, 0, []. auto.
    + destruct (A5 q Hq) as (pre & t & post & E & O). exists pre, t, (post ++ [FTgt 0]). split; auto.
      rewrite E, <- app_assoc. reflexivity.
  - intros locs r H. destruct (Er _ _ H) as (locs' & H'). rewrite Hn. eauto.
  - congruence.
Qed.

(** replacing a 4-byte field by a field of the same kind (back-patching) *)
Lemma L_replace bs pl pl' s fl pre f f' post v :
  L bs pl s fl -> fl = pre ++ f :: post -> kind_of f' = kind_of f -> four f -> enc_f f' = u32_bytes v ->
  c_last s = None -> fok (c_next s) (ncon s) f' -> (forall t, f' = FTgt t -> In t bs) ->
  (forall q, In q pl -> q = off pre \/ In q pl') -> (forall q, In q pl' -> In q pl) ->
  L bs pl' (back_patch s (off pre) v) (pre ++ f' :: post).
Proof.
  intros [A1 A2 A3 A4 A5 A6 A7 A8] E K F Ev Hl Hf Ht Hp Hp'.
  assert (F' : four f') by (unfold four; rewrite K; exact F).
  assert (Ooff : forall m, off (pre ++ f' :: m) = off (pre ++ f :: m)).
  { intros m. apply off_kinds. rewrite !map_app. cbn [map]. rewrite K. reflexivity. }
  constructor; auto.
  - eapply cwf_same; [|exact A1]. repeat split.
  - unfold back_patch. cbn [c_out set_out]. rewrite A2, E, overwrite_field by exact F.
    rewrite enc_app. cbn [enc flat_map]. rewrite Ev. reflexivity.
  - cbn [back_patch c_next c_consts set_out ncon]. unfold ncon in *. cbn. subst fl. apply Forall_app in A3. destruct A3 as [B1 B2].
    inversion B2; subst. apply Forall_app. split; auto.
  - intros p0 t q0 E0. apply split3 in E0. destruct E0 as [(E1 & E2 & E3)|[(m & E1 & E2)|(m & E1 & E2)]].
    + left. apply Ht. auto.
    + subst. destruct (A4 p0 t (m ++ f :: post)) as [H|H]; [rewrite <- app_assoc; reflexivity|auto|].
      destruct (Hp _ H) as [Hq|Hq]; auto. exfalso.
      destruct (split_unique p0 (p0 ++ FTgt t :: m) (FTgt t) f (m ++ f :: post) post) as (X & _); auto.
      * rewrite <- app_assoc. reflexivity.
      * reflexivity.
      * apply (f_equal (@length _)) in X. rewrite app_length in X. cbn in X. lia.
    + subst. destruct (A4 (pre ++ f :: m) t q0) as [H|H]; [rewrite <- app_assoc; reflexivity|auto|].
      rewrite Ooff. destruct (Hp _ H) as [Hq|Hq]; auto. exfalso.
      destruct (split_unique (pre ++ f :: m) pre (FTgt t) f q0 (m ++ FTgt t :: q0)) as (X & _); auto.
      * rewrite <- app_assoc. reflexivity.
      * reflexivity.
      * apply (f_equal (@length _)) in X. rewrite app_length in X. cbn in X. lia.
  - intros q Hq. apply Hp' in Hq. destruct (A5 q Hq) as (p0 & t & q0 & E0 & O). rewrite E in E0. apply split3 in E0.
    destruct E0 as [(E1 & E2 & E3)|[(m & E1 & E2)|(m & E1 & E2)]].
    + subst p0 q0 f. destruct f' as [| | | |t']; try discriminate K. exists pre, t', post. auto.
    + subst. exists p0, t, (m ++ f' :: post). split; auto. rewrite <- app_assoc. reflexivity.
    + subst. exists (pre ++ f' :: m), t, q0. split; [rewrite <- app_assoc; reflexivity|]. apply Ooff.
  - cbn. intros q Hq. congruence.
Qed.

End Safe.
