(** * Stage B, closed form: a whole function body built from the accepted constructs
    ([blocks_ok]) is simulated by its compiled code, from the function entry to the position of
    the final [Return].  Accepted: straight-line instructions accepted by [straight_ok],
    [block] / [if] / [if-else] without result type, entered at an empty operand stack,
    [br l] (last instruction of its body) and [br_if l] to result-less labels (all labels of the
    fragment are result-less, so KF-C01-1 cannot occur; blocks are entered at an empty stack, so
    KF-C01-2 cannot occur).  Loops, calls, br_table, return, and values carried through [end]
    are NOT covered here. *)
From Coq Require Import ZArith NArith List Lia Bool FMapPositive.
From CB Require Import Common.IntN Common.IntNProofs Wasm.Syntax Wasm.Opcodes Wasm.Sem Wasm.Compile Wasm.Machine
     Wasm.MachineLemmas Wasm.CompileLemmas Wasm.NumOpsProofs Wasm.SemProofs Wasm.SyntaxProofs Wasm.StraightProofs
     Wasm.BlockProofs Wasm.BlockInv Wasm.BlockSim Wasm.BlockSim2.
Import ListNotations.
Local Open Scope Z_scope.

(** compiler state at function entry for a function without result *)
Definition init_fstate (next : Z) : cstate :=
  {| c_out := []; c_bp := [JUnknown [] None]; c_stack := []; c_next := next; c_reuse := []; c_consts := []; c_last := None |}.

(** the accepted constructs (see [ctl_ok]): checked on the flat opcode sequence while replaying the
    validator's operand-height computation *)
Definition blocks_ok (nl : Z) (cx : cctx) (is : list instr) : bool :=
  syn is && lvl nl cx (flatten is) (init_vstate None).

Lemma inv_init nl next : 0 <= nl <= next -> inv nl (init_fstate next) (init_vstate None).
Proof.
  intros H. constructor.
  - constructor; cbn; auto. intros k v idx Hk. destruct k; discriminate.
  - constructor; cbn; [intros loc []|intros a b []|constructor].
  - reflexivity.
  - cbn. constructor; [|constructor]. repeat split; cbn; auto. left. exists [], None. repeat split; try discriminate; exact Logic.I.
  - left. reflexivity.
Qed.

Theorem compile_block_correct :
  forall (art : artifact) (mhost : nat -> list Z -> option (option Z)) (cap : N)
         (host : nat -> list val -> option memory -> host_result) (m : module) (cx : cctx)
         (is : list instr) (nl next : Z) (v' : vstate) (sF : cstate) (rest_code : list N),
    blocks_ok nl cx is = true -> 0 <= nl <= next ->
    compile_ops cx (flatten_body is) (init_vstate None) (init_fstate next) = Some (v', sF) ->
    c_next sF < 2147483648 -> Z.of_nat (length (c_consts sF)) < 2147483648 ->
    Z.of_nat (length (c_out sF ++ rest_code)) < 4294967296 ->
    forall (codes : list (code_map * list Z)) (fidx : nat),
      nth_error codes fidx
        = Some (build_code (c_out sF ++ rest_code) xH (PositiveMap.empty N), map fst (c_consts sF)) ->
      forall (st : store) (locals : list val) (M : mstate) (fuel : nat),
        rel art fidx (map fst (c_consts sF)) nl (c_next sF) cap (init_fstate next) st locals [] M ->
        match exec_instr host cap m fuel st locals [] (Block None is) with
        | RNormal st' l' vs' =>
            vs' = [] /\ exists n M', nsteps art mhost codes n M = SNext M'
                       /\ rel art fidx (map fst (c_consts sF)) nl (c_next sF) cap sF st' l' [] M' /\ frame_eq M M'
        | RReturn st' vs' =>
            exists n M', nsteps art mhost codes n M = SNext M' /\ frame_eq M M' /\ ms_idx M' = fidx
              /\ code_at (build_code (c_out sF ++ rest_code) xH (PositiveMap.empty N)) (ms_pc M') [IReturn]
              /\ Forall2 repr (ms_globals M') (s_globals st') /\ mem_rel art cap (ms_mem M') (s_mem st')
              /\ match cx_return cx with
                 | Some _ => exists v vs0, vs' = v :: vs0 /\ repr (reg M' 0) v
                 | None => True
                 end
        | RTrap => exists n e, nsteps art mhost codes n M = STrap e
        | RBr _ _ _ _ => False
        | _ => True
        end.
Proof.
  intros art mhost cap host m cx is nl next v' sF rest_code Hok0 Hnl Hc Hn Hcs Hlen codes fidx Hcodes st locals M fuel R.
  unfold blocks_ok in Hok0. apply andb_true_iff in Hok0. destruct Hok0 as [Hsyn Hok].
  set (F := c_out sF ++ rest_code) in *. set (consts := map fst (c_consts sF)) in *. set (NR := c_next sF) in *.
  set (c := build_code F xH (PositiveMap.empty N)) in *.
  assert (HF : code_at c 0 F) by apply build_code_at.
  unfold flatten_body in Hc. destruct (compile_app_inv _ _ _ _ _ _ _ Hc) as (vf & sf & Hc1 & Hc2).
  pose proof (inv_init nl next Hnl) as I0.
  assert (P1 : pres nl (init_fstate next) sf vf).
  { eapply (pure_seq nl cx (lsize is) is (le_n _) Hsyn); eauto. left. reflexivity. }
  destruct (compile_cons _ _ _ _ _ _ _ Hc2) as (vc & sc & Evc & Ehc & Hcr). cbn in Hcr. inversion Hcr; subst vc sc; clear Hcr.
  assert (Hnr : match c_bp sf with j :: _ => no_res j | [] => True end) by (eapply bp_sub_head_nores; [apply (p_bp _ _ _ _ P1)|exact Logic.I]).
  destruct (op_end nl cx sf vf v' sF (p_inv _ _ _ _ P1) Hnr Evc Ehc) as (j & bp' & E1 & E2 & E3 & E4 & E5 & E6 & E7 & E8 & X3 & Rs & Ic & Huc).
  assert (Ebp' : bp' = []).
  { pose proof (p_bp _ _ _ _ P1) as Hb. rewrite E1 in Hb. cbn in Hb. inversion Hb as [|? ? ? ? _ Hb']; subst. inversion Hb'. reflexivity. }
  pose proof (p_bp _ _ _ _ P1) as Hb0. rewrite E1 in Hb0. cbn [init_fstate c_bp] in Hb0.
  destruct (bp_sub_head_u _ _ _ _ Hb0) as (add & ->). cbn [locs_of] in Rs. set (locs := [] ++ add) in *.
  assert (MF : matches F sF).
  { split; [unfold F; rewrite app_length; lia|]. intros p Hp _. unfold F. rewrite app_nth1 by lia. reflexivity. }
  assert (Mf : matches F sf) by (eapply matches_ext; eauto).
  assert (LF : lenv c sF []) by (unfold lenv; rewrite E2, Ebp'; constructor).
  assert (Ebp : c_bp sf = JUnknown locs None :: c_bp sF) by (rewrite E1, E2; reflexivity).
  assert (Lf : lenv c sf [(cur_off sf, 0, None)]) by (eapply (lenv_end c F HF Hlen); eauto).
  assert (Mo : mono sf sF) by (apply mono_eq; auto).
  assert (SmF : small NR sF) by (split; [unfold NR; lia|exact Hcs]).
  assert (CoF : consts_ok consts sF).
  { intros k v idx Hk. unfold consts. rewrite (nth_indep _ 0 (fst (v, idx))). 2:{ rewrite map_length. apply nth_error_Some. congruence. }
    rewrite map_nth. erewrite nth_error_nth; [|exact Hk]. reflexivity. }
  destruct fuel as [|f]; [cbn; exact I|].
  pose proof (sim_all art mhost codes fidx c consts Hcodes nl NR Hn cap host m cx F HF Hlen f f (le_n _)
                is (init_fstate next) (init_vstate None) vf sf [(cur_off sf, 0, None)] st locals [] M Hsyn Hc1 Hok I0 eq_refl
                (or_introl eq_refl) Mf Lf) as Hsim.
  assert (Hlo : lows [(cur_off sf, 0, None)] (init_fstate next)).
  { constructor; [|constructor]. split; [cbn; lia|]. cbn [fst]. apply (T_range F Hlen sf). exact Mf. }
  specialize (Hsim Hlo (small_of_mono NR sf sF SmF Mo) (consts_ok_of_mono consts sf sF CoF Mo) R).
  assert (Hbridge : forall st1 l1 M1, rel art fidx consts nl NR cap sf st1 l1 [] M1 ->
            exists n M2, nsteps art mhost codes n M1 = SNext M2 /\ frame_eq M1 M2 /\ rel art fidx consts nl NR cap sF st1 l1 [] M2).
  { intros st1 l1 M1 R1. exists O, M1. split; [reflexivity|]. split; [apply frame_eq_refl|].
    eapply rel_transfer; [exact R1|rewrite E3, E4; reflexivity|exact E8]. }
  assert (Hrest : forall st1 l1 M1, rel art fidx consts nl NR cap sF st1 l1 [] M1 ->
            sim_res art mhost codes fidx c consts nl NR cap cx [] M1 sF (exec_seq host cap m 1 st1 l1 [] [])).
  { intros st1 l1 M1 R1. cbn. exists O, M1. split; [reflexivity|]. split; [exact R1|apply frame_eq_refl]. }
  assert (Hab : sim_res art mhost codes fidx c consts nl NR cap cx [] M sF
                  (match blk (exec_seq host cap m f st locals [] is) with
                   | RNormal s1 l1 st1 => exec_seq host cap m 1 s1 l1 st1 [] | r => r end)).
  { eapply (sim_after_body art mhost codes fidx c consts nl NR cap host m cx F); [exact Hsim|exact E3|exact E4|exact E8|exact Hbridge|exact Hrest]. }
  rewrite E_block.
  destruct (exec_seq host cap m f st locals [] is) as [st1 l1 vs1|[|k] st1 l1 vs1| | | |]; cbn in Hab |- *; auto.
  - destruct Hab as (e & n & M' & Ee & _). destruct k; discriminate.
Qed.

(** * Functions with a result: the value reaches the final [end] by fall-through or by a [br] to the
    function's own label; it is moved to register 0 (RETURN_VALUE_LOCATION), where the final Return
    instruction expects it.  Local 0 is overwritten by that move, so only register 0, globals and memory are
    related at the end. *)
Definition init_fstate_r (next : Z) : cstate :=
  {| c_out := []; c_bp := [JUnknown [] (Some (PLocal 0))]; c_stack := []; c_next := next; c_reuse := []; c_consts := []; c_last := None |}.
Definition blocks_ok_r (nl : Z) (cx : cctx) (t : valtype) (is : list instr) : bool :=
  syn is && lvl nl cx (flatten_body is) (init_vstate (Some t)).

Lemma inv_init_r nl next t : 0 <= nl <= next -> 0 < next -> inv nl (init_fstate_r next) (init_vstate (Some t)).
Proof.
  intros H H1. constructor.
  - constructor; cbn; auto. intros k v idx Hk. destruct k; discriminate.
  - constructor; cbn; [intros loc []|intros a b []|constructor].
  - reflexivity.
  - cbn. constructor; [|constructor]. repeat split; cbn; auto. left. exists [], (Some (PLocal 0)). repeat split; try discriminate; cbn; lia.
  - left. reflexivity.
Qed.

Theorem compile_fn_result_correct :
  forall (art : artifact) (mhost : nat -> list Z -> option (option Z)) (cap : N)
         (host : nat -> list val -> option memory -> host_result) (m : module) (cx : cctx)
         (is : list instr) (t : valtype) (nl next : Z) (v' : vstate) (sF : cstate) (rest_code : list N),
    blocks_ok_r nl cx t is = true -> 0 <= nl <= next -> 0 < next ->
    compile_ops cx (flatten_body is) (init_vstate (Some t)) (init_fstate_r next) = Some (v', sF) ->
    c_next sF < 2147483648 -> Z.of_nat (length (c_consts sF)) < 2147483648 ->
    Z.of_nat (length (c_out sF ++ rest_code)) < 4294967296 ->
    forall (codes : list (code_map * list Z)) (fidx : nat),
      nth_error codes fidx
        = Some (build_code (c_out sF ++ rest_code) xH (PositiveMap.empty N), map fst (c_consts sF)) ->
      forall (st : store) (locals : list val) (M : mstate) (fuel : nat),
        rel art fidx (map fst (c_consts sF)) nl (c_next sF) cap (init_fstate_r next) st locals [] M ->
        match exec_instr host cap m fuel st locals [] (Block (Some t) is) with
        | RNormal st' l' vs' =>
            exists v, vs' = [v] /\ exists n M', nsteps art mhost codes n M = SNext M' /\ frame_eq M M'
              /\ ms_idx M' = fidx /\ ms_pc M' = cur_off sF
              /\ Forall2 repr (ms_globals M') (s_globals st') /\ mem_rel art cap (ms_mem M') (s_mem st')
              /\ repr (reg M' 0) v
        | RReturn st' vs' =>
            exists n M', nsteps art mhost codes n M = SNext M' /\ frame_eq M M' /\ ms_idx M' = fidx
              /\ code_at (build_code (c_out sF ++ rest_code) xH (PositiveMap.empty N)) (ms_pc M') [IReturn]
              /\ Forall2 repr (ms_globals M') (s_globals st') /\ mem_rel art cap (ms_mem M') (s_mem st')
              /\ match cx_return cx with
                 | Some _ => exists v vs0, vs' = v :: vs0 /\ repr (reg M' 0) v
                 | None => True
                 end
        | RTrap => exists n e, nsteps art mhost codes n M = STrap e
        | RBr _ _ _ _ => False
        | _ => True
        end.
Proof.
  intros art mhost cap host m cx is t nl next v' sF rest_code Hok0 Hnl Hnx Hc Hn Hcs Hlen codes fidx Hcodes st locals M fuel R.
  unfold blocks_ok_r in Hok0. apply andb_true_iff in Hok0. destruct Hok0 as [Hsyn Hlv].
  set (F := c_out sF ++ rest_code) in *. set (consts := map fst (c_consts sF)) in *. set (NR := c_next sF) in *.
  set (c := build_code F xH (PositiveMap.empty N)) in *.
  assert (HF : code_at c 0 F) by apply build_code_at.
  unfold flatten_body in Hc, Hlv. destruct (compile_app_inv _ _ _ _ _ _ _ Hc) as (vf & sf & Hc1 & Hc2).
  rewrite (lvl_app nl cx _ _ _ _ _ _ Hc1) in Hlv. apply andb_true_iff in Hlv. destruct Hlv as [Hok Hle].
  pose proof (inv_init_r nl next t Hnl Hnx) as I0.
  assert (P1 : pres nl (init_fstate_r next) sf vf).
  { eapply (pure_seq nl cx (lsize is) is (le_n _) Hsyn); eauto. left. reflexivity. }
  destruct (compile_cons _ _ _ _ _ _ _ Hc2) as (vc & sc & Evc & Ehc & Hcr). cbn in Hcr. inversion Hcr; subst vc sc; clear Hcr.
  pose proof (p_bp _ _ _ _ P1) as Hb0. cbn [init_fstate_r c_bp] in Hb0.
  destruct (bp_sub_head_val _ _ _ _ Hb0) as (add & b'' & Ebp & Hb'). inversion Hb'; subst b''. clear Hb'.
  assert (Cmn : c_bp sF = [] /\ c_next sF = c_next sf /\ c_consts sF = c_consts sf /\ ext sf sF
                /\ (forall loc, In loc ([] ++ add) -> resolved sF loc (cur_off sF))
                /\ ((exists p, c_stack sf = [p] /\ pwf nl sf p /\ cur_off sF = cur_off sf + Z.of_nat (length (copy_ret p))
                      /\ (forall j, (j < length (copy_ret p))%nat -> nth (length (c_out sf) + j) (c_out sF) 0%N = nth j (copy_ret p) 0%N
                                                                     /\ ~ pending sF (length (c_out sf) + j)))
                    \/ v_unreach vf <> None)).
  { destruct (v_unreach vf) as [u|] eqn:Huf.
    - destruct (op_end_ret_term nl cx sf vf v' sF _ [] (p_inv _ _ _ _ P1) ltac:(rewrite Huf; discriminate) Ebp Evc Ehc) as (E2 & E5 & E6 & X3 & Ecur & Rs).
      splits; auto. right. discriminate.
    - rewrite (reach_of_none vf Huf) in Ehc.
      destruct (op_end_ret nl cx sf vf v' sF _ [] (p_inv _ _ _ _ P1) Huf Ebp Evc Ehc) as (p & Esf & Pp & E2 & E5 & E6 & X3 & Ecur & Rs & Hnth).
      splits; auto. left. exists p. auto. }
  destruct Cmn as (E2 & E5 & E6 & X3 & Rs & Hfall).
  assert (MF : matches F sF).
  { split; [unfold F; rewrite app_length; lia|]. intros q Hq _. unfold F. rewrite app_nth1 by lia. reflexivity. }
  assert (Mf : matches F sf) by (eapply matches_ext; eauto).
  assert (HT : 0 <= cur_off sF < 4294967296) by (apply (T_range F Hlen sF); exact MF).
  assert (Lf : lenv c sf [(cur_off sF, 0, Some (PLocal 0))]).
  { unfold lenv. rewrite Ebp. constructor; [|constructor]. left. eexists. split; [reflexivity|]. intros loc Hin _. cbn [fst].
    apply (target_from_F c F HF sF loc (cur_off sF) (Rs loc Hin) MF HT). }
  assert (Mo : mono sf sF) by (apply mono_eq; auto).
  assert (SmF : small NR sF) by (split; [unfold NR; lia|exact Hcs]).
  assert (CoF : consts_ok consts sF).
  { intros k v idx Hk. unfold consts. rewrite (nth_indep _ 0 (fst (v, idx))). 2:{ rewrite map_length. apply nth_error_Some. congruence. }
    rewrite map_nth. erewrite nth_error_nth; [|exact Hk]. reflexivity. }
  assert (HNR : 0 < NR).
  { unfold NR. rewrite E5. destruct (p_mono _ _ _ _ P1) as [Hm _]. cbn in Hm. lia. }
  assert (Hlo : lows [(cur_off sF, 0, Some (PLocal 0))] (init_fstate_r next)).
  { constructor; [|constructor]. split; [cbn; lia|exact HT]. }
  destruct fuel as [|f]; [cbn; exact I|].
  pose proof (sim_all art mhost codes fidx c consts Hcodes nl NR Hn cap host m cx F HF Hlen f f (le_n _)
                is (init_fstate_r next) (init_vstate (Some t)) vf sf [(cur_off sF, 0, Some (PLocal 0))] st locals [] M Hsyn Hc1 Hok I0 eq_refl
                (or_introl eq_refl) Mf Lf Hlo (small_of_mono NR sf sF SmF Mo) (consts_ok_of_mono consts sf sF CoF Mo) R) as Hsim.
  rewrite E_block.
  destruct (exec_seq host cap m f st locals [] is) as [st1 l1 vs1|[|k] st1 l1 vs1| | | |] eqn:Eex; cbn [sim_res] in Hsim; auto.
  - destruct Hsim as (n & M1 & Hn1 & R1 & Fq).
    destruct Hfall as [(p & Esf & Pp & Ecur & Hnth)|Hterm].
    2:{ exfalso. eapply (term_no_normal nl cap host m cx is (init_fstate_r next) (init_vstate (Some t)) vf sf); eauto. }
    pose proof (r_stack _ _ _ _ _ _ _ _ _ _ _ R1) as Hst. rewrite Esf in Hst.
    inversion Hst as [|? v1 ? vs1' Hp1 Hr1]; subst. inversion Hr1; subst. clear Hst Hr1.
    exists v1. split; [reflexivity|].
    assert (Hcc : code_at c (cur_off sf) (copy_ret p)).
    { unfold cur_off. apply (code_from_F2 c F HF sF (length (c_out sf)) (copy_ret p) MF); [|exact Hnth].
      unfold cur_off in Ecur. lia. }
    destruct (sim_copy_ret art mhost codes fidx c consts Hcodes nl NR Hn cap F sf p [] st1 l1 v1 [] M1 R1 Esf Pp
                (i_cwf _ _ _ (p_inv _ _ _ _ P1)) (small_of_mono NR sf sF SmF Mo) HNR Hcc) as (k1 & M2 & Hn2 & Fq2 & W1 & W2 & W3 & W4 & W5).
    exists (n + k1)%nat, M2. rewrite (nsteps_app _ _ _ _ _ _ _ Hn1).
    split; [exact Hn2|]. split; [eapply frame_eq_trans; eauto|]. rewrite Ecur. auto.
  - destruct Hsim as (e & n & M1 & Ee & H0 & Hn1 & Arr & Fq). cbn in Ee. inversion Ee; subst e. unfold arrive in Arr. cbn [fst snd] in Arr.
    destruct Arr as (v1 & vs0 & -> & W1 & W2 & W3 & W4 & W5).
    exists v1. split; [reflexivity|]. exists n, M1. split; [exact Hn1|]. split; [exact Fq|]. split; [exact W1|]. split; [exact W2|]. split; [exact W3|]. split; [exact W4|exact W5].
  - destruct Hsim as (e & n & M' & Ee & _). destruct k; discriminate.
Qed.
