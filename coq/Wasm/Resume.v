(** * Wasm/Resume — interruptible execution: [RunConfig], [run_config] returning
    [Interrupted], [push_value] (machine.rs 78-150, 649-690, 784-877).

    Part 1 is a GENERIC interruptible machine: any deterministic step function that can stop at
    a host call, a host with its own state, a way to capture the machine state at the call
    ([gcapture], the [RunConfig]) and to resume from the captured configuration with the host's
    response ([gresume] = [push_value] then [run_config]).  [run_direct] lets the host answer
    in place; [run_config] returns [RCInterrupted] at the host calls selected by an arbitrary
    choice function and [drive] resumes until the execution ends.

    Part 2 instantiates it with the register machine of [Wasm/Machine.v]: [run_config_rec] is
    the Rust [RunConfig] field by field, [capture]/[restore] are the construction of the
    struct at the interrupt and its destructuring at the start of [run_config], [push_value]
    writes [locals_vec[locals_base + return_value_loc]].  The host of this model may change the
    caller's memory during the call and has its own state (the Rust [Host] trait object).

    Definitions only (proofs: [Wasm/ResumeProofs.v]); everything is executable. *)
From Coq Require Import ZArith NArith List Bool FMapPositive.
From CB Require Import Common.IntN Wasm.Syntax Wasm.Sem Wasm.Compile Wasm.Machine.
Import ListNotations.

(** ** Part 1: generic interruptible machine *)
Section Generic.
Variables St K Q L A R Out H Ev : Type.
(** [St] live machine state, [K] captured configuration, [Q] what the host sees of a call,
    [L] where the result of the call goes, [A] the host's immediate effect on the machine
    (memory written during the call), [R] the host's response, [Out] final outcomes of the
    machine, [H] host state, [Ev] events (energy ticks). *)
Inductive gres := GNext (s : St) | GHalt (o : Out) | GCall (q : Q) (s : St) (l : L).
Variable gstep : St -> gres.
Variable gev : St -> list Ev.                 (* events emitted by the step taken from a state *)
Variable gapply : St -> A -> St.
Variable gdirect : St -> L -> R -> St.        (* the host answered directly: [locals[return_value_loc] = stack.pop()] *)
Variable gcapture : St -> L -> K.             (* [ExecutionOutcome::Interrupted { config: RunConfig {..} }] *)
Variable gresume : K -> L -> R -> St.         (* [config.push_value(response); run_config(config)] *)
(** the host: state, index of the call in the dynamic sequence of host calls, query;
    [None] = the host function fails (trap) *)
Variable hcall : H -> nat -> Q -> H * option (A * R).

Inductive goutcome := OHalt (o : Out) | OHostFail | OOutOfFuel.
Record gresult := { r_out : goutcome; r_host : H; r_trace : list Ev; r_calls : nat }.

(** the host answers every call in place ([Host::call] returns [Ok(None)]) *)
Fixpoint run_direct (fuel : nat) (h : H) (n : nat) (tr : list Ev) (s : St) : gresult :=
  match fuel with
  | O => {| r_out := OOutOfFuel; r_host := h; r_trace := tr; r_calls := n |}
  | S f =>
      let tr' := tr ++ gev s in
      match gstep s with
      | GNext s' => run_direct f h n tr' s'
      | GHalt o => {| r_out := OHalt o; r_host := h; r_trace := tr'; r_calls := n |}
      | GCall q s' l =>
          match hcall h n q with
          | (h', Some (a, r)) => run_direct f h' (S n) tr' (gdirect (gapply s' a) l r)
          | (h', None) => {| r_out := OHostFail; r_host := h'; r_trace := tr'; r_calls := S n |}
          end
      end
  end.

(** [Artifact::run_config]: runs until the end or until a host call selected by [choose]
    interrupts; the interrupt carries the reason, the recorded response, the captured
    configuration and (model only) the host state, trace, call count and remaining fuel *)
Inductive rc_result :=
| RCDone (res : gresult)
| RCInterrupted (q : Q) (l : L) (r : R) (k : K) (h : H) (n : nat) (tr : list Ev) (fuel_left : nat).

Fixpoint run_config (choose : nat -> Q -> bool) (fuel : nat) (h : H) (n : nat) (tr : list Ev) (s : St)
  : rc_result :=
  match fuel with
  | O => RCDone {| r_out := OOutOfFuel; r_host := h; r_trace := tr; r_calls := n |}
  | S f =>
      let tr' := tr ++ gev s in
      match gstep s with
      | GNext s' => run_config choose f h n tr' s'
      | GHalt o => RCDone {| r_out := OHalt o; r_host := h; r_trace := tr'; r_calls := n |}
      | GCall q s' l =>
          match hcall h n q with
          | (h', Some (a, r)) =>
              if choose n q
              then RCInterrupted q l r (gcapture (gapply s' a) l) h' (S n) tr' f
              else run_config choose f h' (S n) tr' (gdirect (gapply s' a) l r)
          | (h', None) => RCDone {| r_out := OHostFail; r_host := h'; r_trace := tr'; r_calls := S n |}
          end
      end
  end.

(** the embedder's loop: on [Interrupted] push the response into the configuration and call
    [run_config] again.  [rounds] bounds the number of interrupts (every interrupt consumes at
    least one step, so [rounds >= fuel] never runs out before the fuel does). *)
Fixpoint drive (choose : nat -> Q -> bool) (rounds fuel : nat) (h : H) (n : nat) (tr : list Ev) (s : St)
  : gresult :=
  match run_config choose fuel h n tr s with
  | RCDone res => res
  | RCInterrupted q l r k h' n' tr' f' =>
      match rounds with
      | O => {| r_out := OOutOfFuel; r_host := h'; r_trace := tr'; r_calls := n' |}
      | S rd => drive choose rd f' h' n' tr' (gresume k l r)
      end
  end.

(** number of interrupts taken (for the correspondence runner) *)
Fixpoint drive_count (choose : nat -> Q -> bool) (rounds fuel : nat) (h : H) (n : nat) (tr : list Ev) (s : St)
  (acc : nat) : gresult * nat :=
  match run_config choose fuel h n tr s with
  | RCDone res => (res, acc)
  | RCInterrupted q l r k h' n' tr' f' =>
      match rounds with
      | O => ({| r_out := OOutOfFuel; r_host := h'; r_trace := tr'; r_calls := n' |}, acc)
      | S rd => drive_count choose rd f' h' n' tr' (gresume k l r) (S acc)
      end
  end.
End Generic.

Arguments GNext {St Q L Out}. Arguments GHalt {St Q L Out}. Arguments GCall {St Q L Out}.
Arguments OHalt {Out}. Arguments OHostFail {Out}. Arguments OOutOfFuel {Out}.
Arguments r_out {Out H Ev}. Arguments r_host {Out H Ev}. Arguments r_trace {Out H Ev}. Arguments r_calls {Out H Ev}.

(** ** Part 2: the register machine *)
Local Open Scope Z_scope.

(** machine.rs [RunConfig] (field order as in the struct).  [max_memory] is a constant of the
    artifact in this model ([a_memory]); [rc_energy] is the tick sum, which the Rust keeps in
    the host and the machine model of C01 keeps in the state. *)
Record run_config_rec := {
  rc_pc : Z;
  rc_instructions_idx : nat;
  rc_function_frames : list fstate;
  rc_return_type : option nat;
  rc_memory : option memory;
  rc_locals_vec : list Z;
  rc_locals_base : nat;
  rc_globals : list Z;
  rc_return_value_loc : nat;
  rc_energy : N
}.

(** the struct literal at the interrupt: [return_value_loc] is the target register read from the
    code when the imported function has a result, [0] otherwise *)
Definition capture (st : mstate) (loc : option Z) : run_config_rec :=
  {| rc_pc := ms_pc st; rc_instructions_idx := ms_idx st; rc_function_frames := ms_frames st;
     rc_return_type := ms_ret st; rc_memory := ms_mem st; rc_locals_vec := ms_regs st;
     rc_locals_base := ms_base st; rc_globals := ms_globals st;
     rc_return_value_loc := match loc with Some l => Z.to_nat l | None => O end;
     rc_energy := ms_energy st |}.
(** the destructuring at the start of [run_config] *)
Definition restore (c : run_config_rec) : mstate :=
  {| ms_pc := rc_pc c; ms_idx := rc_instructions_idx c; ms_frames := rc_function_frames c;
     ms_ret := rc_return_type c; ms_mem := rc_memory c; ms_regs := rc_locals_vec c;
     ms_base := rc_locals_base c; ms_globals := rc_globals c; ms_energy := rc_energy c |}.
(** [RunConfig::push_value]: [self.locals_vec[self.locals_base + self.return_value_loc] = v] *)
Definition push_value (c : run_config_rec) (v : Z) : run_config_rec :=
  {| rc_pc := rc_pc c; rc_instructions_idx := rc_instructions_idx c; rc_function_frames := rc_function_frames c;
     rc_return_type := rc_return_type c; rc_memory := rc_memory c;
     rc_locals_vec := list_set (rc_locals_vec c) (rc_locals_base c + rc_return_value_loc c) v;
     rc_locals_base := rc_locals_base c; rc_globals := rc_globals c;
     rc_return_value_loc := rc_return_value_loc c; rc_energy := rc_energy c |}.

(** what the host sees: import index, its type, the arguments (first parameter first), memory *)
Definition hquery := (nat * functype * list Z * option memory)%type.
(** host effect on the memory ([None] = untouched) and response value ([None] for a function
    without result) *)
Definition heffect := option memory.
Definition hresponse := option Z.

Definition apply_effect (st : mstate) (a : heffect) : mstate :=
  match a with Some mm => set_mmem st mm | None => st end.
Definition direct_answer (st : mstate) (l : option Z) (r : hresponse) : mstate :=
  match l, r with Some loc, Some v => set_reg st loc v | _, _ => st end.
(** the embedder pushes a value exactly when the imported function has a result *)
Definition resume_with (c : run_config_rec) (l : option Z) (r : hresponse) : mstate :=
  match l, r with Some _, Some v => restore (push_value c v) | _, _ => restore c end.

Section Instance.
Variable art : artifact.
Variable codes : list (code_map * list Z).

Definition no_host : nat -> list Z -> option (option Z) := fun _ _ => None.

(** the import branch of [call_function]: arguments, result location and the pc after the call *)
Definition import_call (c : code_map) (consts : list Z) (st : mstate) (pc : Z) (fidx : nat)
           (check : functype -> nat -> bool) : option (nat * functype * list Z * option Z * Z) :=
  let ni := length (a_imports art) in
  if (fidx <? ni)%nat then
    match nth_error (a_imports art) fidx with
    | Some ft =>
        if check ft O then
          let '(args, pc1) := read_args c consts st pc (length (ft_params ft)) [] in
          match ft_result ft with
          | Some _ => Some (fidx, ft, args, Some (get_i32 c pc1), pc1 + 4)
          | None => Some (fidx, ft, args, None, pc1)
          end
        else None
    | None => None
    end
  else None.

(** is the instruction at [pc] a call of an imported function?  (The dispatch repeats the
    order of the tests in [Machine.step].) *)
Definition host_call_at (st : mstate) : option (nat * functype * list Z * option Z * Z) :=
  match nth_error codes (ms_idx st) with
  | None => None
  | Some (c, consts) =>
      let pc := ms_pc st + 1 in
      let op := Z.to_N (byte_at c (ms_pc st)) in
      let gl := get_local consts st in
      if (op =? 0)%N then None
      else if (op =? 1)%N then None
      else if (op =? 2)%N then None
      else if (op =? 3)%N then None
      else if (op =? 4)%N then None
      else if (op =? 5)%N then None
      else if (op =? 100)%N then None
      else if (op =? 6)%N then None
      else if (op =? 8)%N then None
      else if (op =? 7)%N then
        import_call c consts st (pc + 4) (Z.to_nat (get_u32 c pc)) (fun _ _ => true)
      else if (op =? 9)%N then
        let ty_idx := Z.to_nat (get_u32 c pc) in
        match nth_error (a_types art) ty_idx with
        | None => None
        | Some ty =>
            let idx := as_u32 (gl (get_i32 c (pc + 4))) in
            match (if idx <? Z.of_nat (length (a_table art)) then nth_error (a_table art) (Z.to_nat idx) else None) with
            | Some (Some fidx) =>
                import_call c consts st (pc + 8) fidx
                  (fun ft tag =>
                     match tag with
                     | O => functype_eqb ft ty
                     | S ti => (ti =? ty_idx)%nat
                               || match nth_error (a_types art) ti with
                                  | Some ta => functype_eqb ta ty | None => false end
                     end)
            | _ => None
            end
        end
      else None
  end.

Definition ioutcome := sum trap_reason mstate.

Definition istep (st : mstate) : gres mstate hquery (option Z) ioutcome :=
  match host_call_at st with
  | Some (fidx, ft, args, loc, pc') => GCall (fidx, ft, args, ms_mem st) (set_pc st pc') loc
  | None =>
      match step art no_host codes st with
      | SNext s' => GNext s'
      | SDone s' => GHalt (inr s')
      | STrap r => GHalt (inl r)
      end
  end.

(** energy ticks: the amount a step adds to the tick sum *)
Definition tick_of (st : mstate) : list N :=
  match step art no_host codes st with
  | SNext s' => if (ms_energy s' =? ms_energy st)%N then [] else [(ms_energy s' - ms_energy st)%N]
  | _ => []
  end.
End Instance.

(** the three runs of the machine model, for a host [hc] with state [H] *)
Section Runs.
Variable H : Type.
Variable art : artifact.
Variable hc : H -> nat -> hquery -> H * option (heffect * hresponse).

Definition m_run_direct (fuel : nat) (h : H) (st : mstate) :=
  run_direct _ _ _ _ _ _ _ _ (istep art (decode_codes art)) (tick_of art (decode_codes art))
             apply_effect direct_answer hc fuel h O [] st.
Definition m_run_config (choose : nat -> hquery -> bool) (fuel : nat) (h : H) (n : nat) (tr : list N) (st : mstate) :=
  run_config _ _ _ _ _ _ _ _ _ (istep art (decode_codes art)) (tick_of art (decode_codes art))
             apply_effect direct_answer capture hc choose fuel h n tr st.
Definition m_drive (choose : nat -> hquery -> bool) (rounds fuel : nat) (h : H) (st : mstate) :=
  drive _ _ _ _ _ _ _ _ _ (istep art (decode_codes art)) (tick_of art (decode_codes art))
        apply_effect direct_answer capture resume_with hc choose rounds fuel h O [] st.
Definition m_drive_count (choose : nat -> hquery -> bool) (rounds fuel : nat) (h : H) (st : mstate) :=
  drive_count _ _ _ _ _ _ _ _ _ (istep art (decode_codes art)) (tick_of art (decode_codes art))
        apply_effect direct_answer capture resume_with hc choose rounds fuel h O [] st O.
End Runs.

(** [Artifact::run]: the initial configuration (as in [Machine.mrun]) *)
Definition init_state (art : artifact) (entry : nat) (args : list val) : option mstate :=
  match nth_error (a_code art) entry with
  | None => None
  | Some f =>
      let argregs := map (fun v => match v with VI32 z => from_i32 z | VI64 z => from_i64 z end) args in
      let regs := argregs ++ repeat 0 (Z.to_nat (cf_num_registers f) - length argregs) in
      let mem0 :=
        match a_memory art with
        | Some (init, mx, data) =>
            Some (fold_left (fun mm d => mem_write mm (fst d) (snd d)) data
                            {| mem_pages := init; mem_max := Some mx; mem_data := PositiveMap.empty Z |})
        | None => None
        end in
      Some {| ms_pc := 0; ms_idx := entry; ms_frames := [];
              ms_ret := match cf_return f with Some _ => Some O | None => None end;
              ms_mem := mem0; ms_regs := regs; ms_base := O; ms_globals := a_globals art;
              ms_energy := 0%N |}
  end.

(** the observable outcome of a finished run (as [Machine.mrun] builds it) *)
Definition finish (art : artifact) (entry : nat) (o : goutcome ioutcome) : moutcome :=
  match o with
  | OHalt (inr st) =>
      match nth_error (a_code art) entry with
      | Some f =>
          let r := match cf_return f, ms_ret st with
                   | Some T_i32, Some v => Some (VI32 (as_u32 (nth (ms_base st + v) (ms_regs st) 0)))
                   | Some T_i64, Some v => Some (VI64 (as_u64 (nth (ms_base st + v) (ms_regs st) 0)))
                   | _, _ => None
                   end in
          MDone r (ms_mem st) (ms_globals st) (ms_energy st)
      | None => MTrap TBadCode
      end
  | OHalt (inl r) => MTrap r
  | OHostFail => MTrap THost
  | OOutOfFuel => MOutOfFuel
  end.

(** a stateless host that does not touch the memory, as [Machine.step] takes it: a missing
    value for a function with a result is a host failure, a value for a function without result
    is ignored *)
Definition lift_host (mhost : nat -> list Z -> option (option Z)) : unit -> nat -> hquery -> unit * option (heffect * hresponse) :=
  fun _ _ q =>
    let '(fidx, ft, args, _) := q in
    (tt, match mhost fidx args, ft_result ft with
         | Some (Some r), Some _ => Some (None, Some r)
         | Some None, Some _ => None
         | Some _, None => Some (None, None)
         | None, _ => None
         end).

(** a host that charges energy for every call (the engine's [ReceiveHost]: host functions tick
    [host.energy] and fail with out-of-energy); the energy is part of the host state *)
Definition metered_host {H : Type} (cost : hquery -> N)
           (hc : H -> nat -> hquery -> H * option (heffect * hresponse))
  : (N * H) -> nat -> hquery -> (N * H) * option (heffect * hresponse) :=
  fun eh n q =>
    let (e, h) := eh in
    if (e <? cost q)%N then ((0%N, h), None)
    else let (h', r) := hc h n q in ((e - cost q)%N, h', r).
