(** * Wasm/MeterBound — a finite budget bounds execution.

    For annotated code in which every instruction that can close a control-flow cycle (br, taken
    br_if, br_table, call, call_indirect) carries work >= 1 ("well costed": true for the output of the
    metering transformation under a schedule with positive branch/call costs), for every run of the
    instrumented interpreter, whatever its outcome (also when it is cut off by lack of fuel):
    - [steps_bound]:  #events(T) <= size + 2 M work(T)          (every executed instruction emits an event)
    - [fuel_bound]:   if the run ran out of FUEL then  fuel <= size + 2 M work(T)
    where [M] bounds the size of every function body.  With [MeterSafe] (work <= ticks) this gives:
    with energy budget B the metered run stops - success, trap or out of energy - within
    M (1 + 2B) events, and fuel M (1 + 2B) + 1 is enough for it to do so. *)
From Coq Require Import ZArith NArith List Bool Lia.
From CB Require Import Common.IntN Wasm.Syntax Wasm.Sem Wasm.CostCtx Wasm.Meter Wasm.SemTrace
  Wasm.MeterProofs Wasm.SemTraceProofs Wasm.TraceEval Wasm.MeterSafe.
Import ListNotations.
Local Open Scope N_scope.
Local Arguments N.add : simpl never.
Local Arguments N.mul : simpl never.
Local Arguments N.leb : simpl never.
Local Arguments N.ltb : simpl never.

(** ** size and well-costedness of annotated code *)
Fixpoint sz_i (i : ainstr) : N :=
  let sz_in := fix sz_in (l : list ainstr) : N := match l with [] => 1 | x :: r => 1 + sz_i x + sz_in r end in
  match i with
  | ABasic _ _ => 2
  | ABlock _ _ body => 2 + sz_in body
  | ALoop _ _ body => 2 + sz_in body
  | AIf _ _ t e => 3 + sz_in t + sz_in e
  end.
Fixpoint sz_s (l : list ainstr) : N := match l with [] => 1 | x :: r => 1 + sz_i x + sz_s r end.

Definition taken_of (o : origin) : N := match o with OSrc _ t => t | OInj => 0 end.
Definition wc_b (o : origin) (b : binstr) : bool :=
  match b with
  | BBr _ | BBrTable _ _ | BCallIndirect _ => 1 <=? cost_of o
  | BCall fi => (1 <=? cost_of o) || Nat.eqb fi 0   (* function 0 of a metered module is an import *)
  | BBrIf _ => 1 <=? cost_of o + taken_of o
  | _ => true
  end.
Fixpoint wc_i (i : ainstr) : bool :=
  let wc_in := fix wc_in (l : list ainstr) : bool := match l with [] => true | x :: r => wc_i x && wc_in r end in
  match i with
  | ABasic o b => wc_b o b
  | ABlock _ _ body => wc_in body
  | ALoop _ _ body => wc_in body
  | AIf _ _ t e => wc_in t && wc_in e
  end.
Fixpoint wc_s (l : list ainstr) : bool := match l with [] => true | x :: r => wc_i x && wc_s r end.

Lemma sz_i_eq i :
  sz_i i = match i with
           | ABasic _ _ => 2
           | ABlock _ _ body => 2 + sz_s body
           | ALoop _ _ body => 2 + sz_s body
           | AIf _ _ t e => 3 + sz_s t + sz_s e
           end.
Proof.
  assert (E : forall l, (fix sz_in (l : list ainstr) : N := match l with [] => 1 | x :: r => 1 + sz_i x + sz_in r end) l = sz_s l).
  { induction l as [|x r IH]; [reflexivity|]. cbn [sz_s]. cbv beta iota fix. rewrite IH. reflexivity. }
  destruct i; cbn [sz_i]; rewrite ?E; reflexivity.
Qed.
Lemma wc_i_eq i :
  wc_i i = match i with
           | ABasic o b => wc_b o b
           | ABlock _ _ body => wc_s body
           | ALoop _ _ body => wc_s body
           | AIf _ _ t e => wc_s t && wc_s e
           end.
Proof.
  assert (E : forall l, (fix wc_in (l : list ainstr) : bool := match l with [] => true | x :: r => wc_i x && wc_in r end) l = wc_s l).
  { induction l as [|x r IH]; [reflexivity|]. cbn [wc_s]. cbv beta iota fix. rewrite IH. reflexivity. }
  destruct i; cbn [wc_i]; rewrite ?E; reflexivity.
Qed.
Lemma wc_s_app a b : wc_s (a ++ b) = wc_s a && wc_s b.
Proof. induction a as [|x a IH]; [reflexivity|]. cbn [app wc_s]. rewrite IH, andb_assoc. reflexivity. Qed.
Lemma sz_s_pos l : 1 <= sz_s l.
Proof. destruct l; cbn [sz_s]; lia. Qed.

Definition evs (T : list event) : N := N.of_nat (length T).
Lemma evs_app a b : evs (a ++ b) = evs a + evs b.
Proof. unfold evs. rewrite app_length. lia. Qed.
Lemma work_app a b : work (a ++ b) = work a + work b.
Proof. induction a as [|e a IH]; [cbn; lia|]. destruct e; cbn [app work]; rewrite ?IH; lia. Qed.
Lemma evs_ev_work o : evs (ev_work o) <= 1.
Proof. destruct o; cbn; lia. Qed.
Lemma work_ev_work o : work (ev_work o) = cost_of o.
Proof. destruct o; cbn; lia. Qed.
Lemma evs_ev_taken o : evs (ev_taken o) <= 1.
Proof. destruct o; cbn; lia. Qed.
Lemma work_ev_taken o : work (ev_taken o) = taken_of o.
Proof. destruct o; cbn; lia. Qed.

Section Bound.
Variable host : nat -> list val -> option memory -> host_result.
Variable cap : N.
Variable m : module.
Variable afs : list afunc.
Variable M : N.
Hypothesis HM1 : 1 <= M.
Hypothesis Himp : (0 < length (m_imports m))%nat.
Hypothesis Hfn : Forall (fun fn => wc_s (af_body fn) = true /\ sz_s (af_body fn) + 2 <= M) afs.

Notation tseq := (texec_seq host cap m afs).
Notation tinstr := (texec_instr host cap m afs).
Notation tinv := (tinvoke host cap m afs).

(** [W T] = 2 M work(T): the number of events the work in [T] pays for *)
Definition W (T : list event) : N := 2 * M * work T.
Lemma W_app a b : W (a ++ b) = W a + W b.
Proof. unfold W. rewrite work_app. lia. Qed.
Lemma W_ev_work o : W (ev_work o) = 2 * M * cost_of o.
Proof. unfold W. rewrite work_ev_work. reflexivity. Qed.
Lemma W_ge c : 1 <= c -> 2 * M <= 2 * M * c.
Proof. intro H. nia. Qed.

Definition brk (r : res) : N := match r with RBr _ _ _ _ => M | _ => 0 end.
Lemma brk_blk bt st r : brk (blk_res bt st r) <= brk r.
Proof. destruct r as [| [|k] | | | |]; cbn; lia. Qed.

Definition StepsSeq (f : nat) : Prop :=
  forall is s l st T r, tseq f s l st is = (T, r) -> wc_s is = true -> sz_s is <= M ->
  evs T + brk r <= sz_s is + W T.
Definition StepsInstr (f : nat) : Prop :=
  forall i s l st T r, tinstr f s l st i = (T, r) -> wc_i i = true -> sz_i i <= M ->
  evs T + brk r <= sz_i i + W T.
Definition StepsInv (f : nat) : Prop :=
  forall s fi args T r, tinv f s fi args = (T, r) -> evs T <= M + W T.

Lemma steps_seq_step f : StepsSeq f -> StepsInstr f -> StepsSeq (S f).
Proof.
  intros IHs IHi is s l st T r H Hwc Hsz. rewrite tseq_S in H. destruct is as [|i rest]; cbn [seq_body] in H.
  - inversion H; subst. cbn. lia.
  - cbn [wc_s] in Hwc. apply andb_prop in Hwc. destruct Hwc as [Hwi Hwr]. cbn [sz_s] in Hsz |- *.
    destruct (tinstr f s l st i) as [t1 r1] eqn:E1.
    pose proof (IHi _ _ _ _ _ _ E1 Hwi ltac:(lia)) as B1.
    destruct r1 as [s1 l1 st1| | | | |]; try (inversion H; subst; lia).
    destruct (tseq f s1 l1 st1 rest) as [t2 r2] eqn:E2. inversion H; subst.
    pose proof (IHs _ _ _ _ _ _ E2 Hwr ltac:(lia)) as B2. cbn [brk] in B1.
    rewrite evs_app, W_app. lia.
Qed.

Lemma call_steps f o s l fi args st T r :
  StepsInv f -> 1 <= cost_of o ->
  call_body m (tinv f) o s l fi args st = (T, r) -> evs T + brk r <= 2 + W T.
Proof.
  intros HI Hc H. unfold call_body in H. destruct (tinv f s fi args) as [t rv] eqn:E.
  pose proof (HI _ _ _ _ _ E) as B.
  assert (Hb : brk r = 0).
  { destruct rv as [r0|[s' v]]; inversion H; subst; [|reflexivity].
    destruct (tinv_inl_shape _ _ _ _ _ _ _ _ _ _ E) as [-> | [-> | ->]]; reflexivity. }
  assert (HT : T = ev_work o ++ ev_call m fi ++ t) by (destruct rv as [r0|[s' v]]; inversion H; reflexivity).
  subst T. rewrite Hb, !evs_app, !W_app, W_ev_work.
  assert (evs (ev_call m fi) <= 1) by (unfold ev_call; destruct (is_local m fi); cbn; lia).
  assert (W (ev_call m fi) = 0) by (unfold ev_call, W; destruct (is_local m fi); cbn; lia).
  pose proof (evs_ev_work o). pose proof (W_ge _ Hc). lia.
Qed.

Lemma import0_inv f s args t rv :
  tinv f s 0%nat args = (t, rv) ->
  evs t <= 1 /\ W t = 0 /\ (rv = inl RFuel -> f = 0%nat) /\ (forall r0, rv = inl r0 -> brk r0 = 0).
Proof.
  destruct f as [|f].
  - intro H; inversion H; subst. unfold evs, W. cbn. repeat split; try lia. intros r0 Hr; inversion Hr; reflexivity.
  - rewrite tinv_S. unfold inv_body.
    replace (0 <? length (m_imports m))%nat with true by (symmetry; apply Nat.ltb_lt; exact Himp).
    destruct (afunc_type m afs 0).
    + destruct (host 0%nat args (s_mem s)); intro H; inversion H; subst; unfold evs, W; cbn;
        (split; [lia|]); (split; [lia|]); (split; [discriminate|]); intros r0 Hr; inversion Hr; reflexivity.
    + intro H; inversion H; subst; unfold evs, W; cbn.
      (split; [lia|]); (split; [lia|]); (split; [discriminate|]); intros r0 Hr; inversion Hr; reflexivity.
Qed.

Lemma call0_steps f o s l args st T r :
  call_body m (tinv f) o s l 0%nat args st = (T, r) -> evs T + brk r <= 2 + W T.
Proof.
  intro H. unfold call_body in H. destruct (tinv f s 0%nat args) as [t rv] eqn:E.
  destruct (import0_inv _ _ _ _ _ E) as [He [Hw [_ Hb]]].
  assert (E0 : ev_call m 0 = []).
  { unfold ev_call, is_local. destruct (length (m_imports m)); [lia|reflexivity]. }
  pose proof (evs_ev_work o).
  destruct rv as [r0|[s' v]].
  - pose proof (Hb r0 eq_refl) as Hb0. inversion H; subst. rewrite E0. cbn [app]. rewrite evs_app, W_app, Hb0. lia.
  - inversion H; subst. rewrite E0. cbn [app brk]. rewrite evs_app, W_app. lia.
Qed.

Lemma call0_fuel f o s l args st T :
  call_body m (tinv f) o s l 0%nat args st = (T, RFuel) -> N.of_nat (S f) <= 2 + W T.
Proof.
  intro H. unfold call_body in H. destruct (tinv f s 0%nat args) as [t rv] eqn:E.
  destruct (import0_inv _ _ _ _ _ E) as [_ [_ [Hf _]]].
  destruct rv as [r0|[s' v]]; inversion H; subst. rewrite (Hf eq_refl). cbn. lia.
Qed.

Lemma steps_instr_step f : StepsSeq f -> StepsInstr f -> StepsInv f -> StepsInstr (S f).
Proof.
  intros IHs IHi IHv i s l st T r H Hwc Hsz. rewrite tinstr_S in H. rewrite wc_i_eq in Hwc. rewrite sz_i_eq in Hsz |- *.
  destruct i as [o b|o bt body|o bt body|o bt thn els].
  - (* basic *)
    pose proof (evs_ev_work o) as Ho. pose proof (evs_ev_taken o) as Hk.
    destruct (simple_b b) eqn:Esb.
    { rewrite instr_body_simple in H by exact Esb. inversion H; subst; clear H.
      assert (brk (res_of_step (exec_simple cap b s l st)) = 0)
        by (destruct (exec_simple cap b s l st) as [[|]|[[? ?] ?]]; reflexivity).
      assert (evs (simple_events o b) <= 2)
        by (unfold simple_events; destruct b; try exact (N.le_trans _ _ _ Ho ltac:(lia));
            unfold evs in *; cbn [length]; lia).
      lia. }
    destruct b; try discriminate Esb; cbn [instr_body wc_b] in H, Hwc.
    + (* br *) inversion H; subst. cbn [brk]. apply N.leb_le in Hwc. rewrite W_ev_work. pose proof (W_ge _ Hwc). lia.
    + (* br_if *)
      destruct st as [|[c|c] st0]; try (inversion H; subst; cbn [brk]; lia).
      destruct (c =? 0)%Z; inversion H; subst; cbn [brk]; [lia|].
      apply N.leb_le in Hwc. rewrite evs_app, W_app, W_ev_work. unfold W at 1. rewrite work_ev_taken.
      assert (2 * M <= 2 * M * cost_of o + 2 * M * taken_of o) by nia. lia.
    + (* br_table *)
      destruct st as [|[c|c] st0]; inversion H; subst; cbn [brk]; try lia.
      apply N.leb_le in Hwc. rewrite W_ev_work. pose proof (W_ge _ Hwc). lia.
    + (* return *) inversion H; subst. cbn [brk]. lia.
    + (* call *)
      destruct (afunc_type m afs f0) as [ft|]; [|inversion H; subst; cbn [brk]; lia].
      destruct (take_args (length (ft_params ft)) st []) as [[args st']|]; [|inversion H; subst; cbn [brk]; lia].
      apply orb_prop in Hwc. destruct Hwc as [Hwc|Hwc].
      * apply N.leb_le in Hwc. exact (call_steps f o s l f0 args st' T r IHv Hwc H).
      * apply Nat.eqb_eq in Hwc. subst f0. exact (call0_steps f o s l args st' T r H).
    + (* call_indirect *)
      apply N.leb_le in Hwc.
      destruct st as [|[c|c] st0]; try (inversion H; subst; cbn [brk]; lia).
      destruct (nth_opt (m_types m) ty) as [ft|]; [|inversion H; subst; cbn [brk]; lia].
      destruct (if (c <? Z.of_nat (length (s_table s)))%Z then nth_opt (s_table s) (Z.to_nat c) else None) as [[fi|]|];
        try (inversion H; subst; cbn [brk]; lia).
      destruct (afunc_type m afs fi) as [ft'|]; [|inversion H; subst; cbn [brk]; lia].
      destruct (functype_eqb ft ft').
      * destruct (take_args (length (ft_params ft)) st0 []) as [[args st']|]; [|inversion H; subst; cbn [brk]; lia].
        exact (call_steps f o s l fi args st' T r IHv Hwc H).
      * inversion H; subst; cbn [brk]. rewrite evs_app.
        assert (evs (ev_call m fi) <= 1) by (unfold ev_call; destruct (is_local m fi); cbn; lia). lia.
  - (* block *)
    cbn [instr_body] in H. destruct (tseq f s l [] body) as [t r0] eqn:E. inversion H; subst; clear H.
    pose proof (IHs _ _ _ _ _ _ E Hwc ltac:(lia)) as B. pose proof (brk_blk bt st r0). pose proof (evs_ev_work o).
    rewrite evs_app, W_app. change (match r0 with
      | RNormal s' l' vs | RBr 0 s' l' vs => RNormal s' l' (firstn (arity bt) vs ++ st)
      | RBr (S k) s' l' vs => RBr k s' l' vs | _ => r0 end) with (blk_res bt st r0). lia.
  - (* loop *)
    cbn [instr_body] in H. destruct (tseq f s l [] body) as [t r0] eqn:E.
    pose proof (IHs _ _ _ _ _ _ E Hwc ltac:(lia)) as B. pose proof (evs_ev_work o).
    destruct r0 as [s1 l1 vs|[|k] s1 l1 vs|s1 vs| | |]; try (inversion H; subst; cbn [brk] in *; rewrite evs_app, W_app; lia).
    destruct (tinstr f s1 l1 st (ALoop OInj bt body)) as [t2 r2] eqn:E2. inversion H; subst; clear H.
    assert (Hwl : wc_i (ALoop OInj bt body) = true) by (rewrite wc_i_eq; exact Hwc).
    assert (Hsl : sz_i (ALoop OInj bt body) <= M) by (rewrite sz_i_eq; exact Hsz).
    pose proof (IHi _ _ _ _ _ _ E2 Hwl Hsl) as B2. rewrite sz_i_eq in B2. cbn [brk] in B.
    rewrite !evs_app, !W_app. lia.
  - (* if *)
    apply andb_prop in Hwc. destruct Hwc as [Hwt Hwe]. cbn [instr_body] in H. pose proof (evs_ev_work o).
    destruct st as [|[c|c] st0]; try (inversion H; subst; cbn [brk]; lia).
    destruct (tinstr f s l st0 (ABlock OInj bt (if (c =? 0)%Z then els else thn))) as [t r0] eqn:E. inversion H; subst; clear H.
    assert (Hw : wc_i (ABlock OInj bt (if (c =? 0)%Z then els else thn)) = true)
      by (rewrite wc_i_eq; destruct (c =? 0)%Z; assumption).
    pose proof (sz_s_pos thn). pose proof (sz_s_pos els).
    assert (Hs : sz_i (ABlock OInj bt (if (c =? 0)%Z then els else thn)) <= M)
      by (rewrite sz_i_eq; destruct (c =? 0)%Z; lia).
    pose proof (IHi _ _ _ _ _ _ E Hw Hs) as B. rewrite sz_i_eq in B.
    rewrite evs_app, W_app. destruct (c =? 0)%Z; lia.
Qed.

Lemma steps_inv_step f : StepsSeq f -> StepsInv (S f).
Proof.
  intros IHs s fi args T r H. rewrite tinv_S in H. unfold inv_body in H.
  destruct (fi <? length (m_imports m))%nat.
  - destruct (afunc_type m afs fi); inversion H; subst; unfold evs; cbn [length]; lia.
  - destruct (nth_opt afs (fi - length (m_imports m))) as [fn|] eqn:Efn; [|inversion H; subst; unfold evs; cbn; lia].
    destruct (nth_opt (m_types m) (af_type fn)) as [ft|]; [|inversion H; subst; unfold evs; cbn; lia].
    assert (Hf : wc_s (af_body fn) = true /\ sz_s (af_body fn) + 2 <= M).
    { rewrite Forall_forall in Hfn. apply Hfn. eapply nth_error_In. exact Efn. }
    destruct Hf as [Hw Hs].
    destruct (tseq f s (args ++ map zero_of (af_locals fn)) [] (af_body fn)) as [t r1] eqn:E.
    pose proof (IHs _ _ _ _ _ _ E Hw ltac:(lia)) as B.
    assert (Hfin : forall s' vs, evs (fst (fin_result ft s' vs)) <= 1 /\ W (fst (fin_result ft s' vs)) = 0).
    { intros s' vs. unfold fin_result. destruct (ft_result ft); [destruct vs|]; cbn; unfold W; cbn; lia. }
    assert (HT : exists t2, T = EvWork (af_entry fn) :: t ++ t2 /\ evs t2 <= 1).
    { destruct r1 as [s' l' vs|[|k] s' l' vs|s' vs| | |];
        try (destruct (Hfin s' vs) as [F1 _]; destruct (fin_result ft s' vs) as [t2 r2]; inversion H; subst; exists t2; split; [reflexivity|exact F1]);
        inversion H; subst; exists []; split; try reflexivity; cbn; lia. }
    destruct HT as [t2 [-> Ht2]].
    change (EvWork (af_entry fn) :: t ++ t2) with ([EvWork (af_entry fn)] ++ t ++ t2).
    rewrite !evs_app, !W_app. unfold evs at 1. cbn [length]. lia.
Qed.

Theorem steps_all : forall f, StepsSeq f /\ StepsInstr f /\ StepsInv f.
Proof.
  induction f as [|f [IHs [IHi IHv]]].
  - repeat split; intro; intros.
    + inversion H; subst. pose proof (sz_s_pos is). cbn. lia.
    + inversion H; subst. rewrite sz_i_eq. destruct i; cbn; lia.
    + inversion H; subst. cbn. lia.
  - repeat split; [apply steps_seq_step|apply steps_instr_step|apply steps_inv_step]; assumption.
Qed.

(** ** running out of fuel takes work *)
Definition FuelSeq (f : nat) : Prop :=
  forall is s l st T, tseq f s l st is = (T, RFuel) -> wc_s is = true -> sz_s is <= M ->
  N.of_nat f <= sz_s is + W T.
Definition FuelInstr (f : nat) : Prop :=
  forall i s l st T, tinstr f s l st i = (T, RFuel) -> wc_i i = true -> sz_i i <= M ->
  N.of_nat f <= sz_i i + W T.
Definition FuelInv (f : nat) : Prop :=
  forall s fi args T, tinv f s fi args = (T, inl RFuel) -> N.of_nat f <= M + W T.

Lemma fuel_seq_step f : FuelSeq f -> FuelInstr f -> FuelSeq (S f).
Proof.
  intros IHs IHi is s l st T H Hwc Hsz. rewrite tseq_S in H. destruct is as [|i rest]; cbn [seq_body] in H.
  - inversion H.
  - cbn [wc_s] in Hwc. apply andb_prop in Hwc. destruct Hwc as [Hwi Hwr]. cbn [sz_s] in Hsz |- *.
    destruct (tinstr f s l st i) as [t1 r1] eqn:E1.
    destruct r1 as [s1 l1 st1| | | | |]; try (inversion H; fail).
    + destruct (tseq f s1 l1 st1 rest) as [t2 r2] eqn:E2. inversion H; subst.
      pose proof (IHs _ _ _ _ _ E2 Hwr ltac:(lia)). rewrite W_app. lia.
    + inversion H; subst. pose proof (IHi _ _ _ _ _ E1 Hwi ltac:(lia)). lia.
Qed.

Lemma call_fuel f o s l fi args st T :
  FuelInv f -> 1 <= cost_of o ->
  call_body m (tinv f) o s l fi args st = (T, RFuel) -> N.of_nat (S f) <= 2 + W T.
Proof.
  intros HI Hc H. unfold call_body in H. destruct (tinv f s fi args) as [t rv] eqn:E.
  destruct rv as [r0|[s' v]]; inversion H; subst; clear H.
  pose proof (HI _ _ _ _ E) as B. rewrite !W_app, W_ev_work. pose proof (W_ge _ Hc). lia.
Qed.

Lemma fuel_instr_step f : FuelSeq f -> FuelInstr f -> FuelInv f -> StepsSeq f -> FuelInstr (S f).
Proof.
  intros IHs IHi IHv HS i s l st T H Hwc Hsz. rewrite tinstr_S in H. rewrite wc_i_eq in Hwc. rewrite sz_i_eq in Hsz |- *.
  destruct i as [o b|o bt body|o bt body|o bt thn els].
  - destruct (simple_b b) eqn:Esb.
    { rewrite instr_body_simple in H by exact Esb. inversion H.
      destruct (exec_simple cap b s l st) as [[|]|[[? ?] ?]]; discriminate. }
    destruct b; try discriminate Esb; cbn [instr_body wc_b] in H, Hwc; try (inversion H; fail).
    + destruct st as [|[c|c] st0]; try (inversion H; fail). destruct (c =? 0)%Z; inversion H.
    + destruct st as [|[c|c] st0]; inversion H.
    + destruct (afunc_type m afs f0) as [ft|]; [|inversion H].
      destruct (take_args (length (ft_params ft)) st []) as [[args st']|]; [|inversion H].
      apply orb_prop in Hwc. destruct Hwc as [Hwc|Hwc].
      * apply N.leb_le in Hwc. exact (call_fuel f o s l f0 args st' T IHv Hwc H).
      * apply Nat.eqb_eq in Hwc. subst f0. exact (call0_fuel f o s l args st' T H).
    + apply N.leb_le in Hwc.
      destruct st as [|[c|c] st0]; try (inversion H; fail).
      destruct (nth_opt (m_types m) ty) as [ft|]; [|inversion H].
      destruct (if (c <? Z.of_nat (length (s_table s)))%Z then nth_opt (s_table s) (Z.to_nat c) else None) as [[fi|]|];
        try (inversion H; fail).
      destruct (afunc_type m afs fi) as [ft'|]; [|inversion H].
      destruct (functype_eqb ft ft'); [|inversion H].
      destruct (take_args (length (ft_params ft)) st0 []) as [[args st']|]; [|inversion H].
      exact (call_fuel f o s l fi args st' T IHv Hwc H).
  - cbn [instr_body] in H. destruct (tseq f s l [] body) as [t r0] eqn:E.
    destruct r0 as [|[|k]| | | |]; inversion H; subst.
    pose proof (IHs _ _ _ _ _ E Hwc ltac:(lia)). rewrite W_app. lia.
  - cbn [instr_body] in H. destruct (tseq f s l [] body) as [t r0] eqn:E.
    destruct r0 as [s1 l1 vs|[|k] s1 l1 vs|s1 vs| | |]; try (inversion H; fail).
    + (* next iteration runs out of fuel: this iteration did work *)
      destruct (tinstr f s1 l1 st (ALoop OInj bt body)) as [t2 r2] eqn:E2. inversion H; subst.
      assert (Hwl : wc_i (ALoop OInj bt body) = true) by (rewrite wc_i_eq; exact Hwc).
      assert (Hsl : sz_i (ALoop OInj bt body) <= M) by (rewrite sz_i_eq; exact Hsz).
      pose proof (IHi _ _ _ _ _ E2 Hwl Hsl) as B2. rewrite sz_i_eq in B2.
      pose proof (HS _ _ _ _ _ _ E Hwc ltac:(lia)) as B1. cbn [brk] in B1.
      rewrite !W_app. lia.
    + inversion H; subst. pose proof (IHs _ _ _ _ _ E Hwc ltac:(lia)). rewrite W_app. lia.
  - apply andb_prop in Hwc. destruct Hwc as [Hwt Hwe]. cbn [instr_body] in H.
    destruct st as [|[c|c] st0]; try (inversion H; fail).
    destruct (tinstr f s l st0 (ABlock OInj bt (if (c =? 0)%Z then els else thn))) as [t r0] eqn:E. inversion H; subst.
    assert (Hw : wc_i (ABlock OInj bt (if (c =? 0)%Z then els else thn)) = true)
      by (rewrite wc_i_eq; destruct (c =? 0)%Z; assumption).
    pose proof (sz_s_pos thn). pose proof (sz_s_pos els).
    assert (Hs : sz_i (ABlock OInj bt (if (c =? 0)%Z then els else thn)) <= M)
      by (rewrite sz_i_eq; destruct (c =? 0)%Z; lia).
    pose proof (IHi _ _ _ _ _ E Hw Hs) as B. rewrite sz_i_eq in B. rewrite W_app. destruct (c =? 0)%Z; lia.
Qed.

Lemma fuel_inv_step f : FuelSeq f -> FuelInv (S f).
Proof.
  intros IHs s fi args T H. rewrite tinv_S in H. unfold inv_body in H.
  destruct (fi <? length (m_imports m))%nat.
  - destruct (afunc_type m afs fi); [destruct (host fi args (s_mem s))|]; inversion H.
  - destruct (nth_opt afs (fi - length (m_imports m))) as [fn|] eqn:Efn; [|inversion H].
    destruct (nth_opt (m_types m) (af_type fn)) as [ft|]; [|inversion H].
    assert (Hf : wc_s (af_body fn) = true /\ sz_s (af_body fn) + 2 <= M).
    { rewrite Forall_forall in Hfn. apply Hfn. eapply nth_error_In. exact Efn. }
    destruct Hf as [Hw Hs].
    destruct (tseq f s (args ++ map zero_of (af_locals fn)) [] (af_body fn)) as [t r1] eqn:E.
    assert (F : forall s' vs t2, fin_result ft s' vs <> (t2, inl RFuel)).
    { intros s' vs t2. unfold fin_result. destruct (ft_result ft); [destruct vs|]; congruence. }
    destruct r1 as [s' l' vs|[|k] s' l' vs|s' vs| | |];
      try (destruct (fin_result ft s' vs) as [t2 r2] eqn:Ef; inversion H; subst; exfalso; eapply F; eassumption);
      try (inversion H; fail).
    inversion H; subst. pose proof (IHs _ _ _ _ _ E Hw ltac:(lia)) as B.
    change (EvWork (af_entry fn) :: t ++ []) with ([EvWork (af_entry fn)] ++ t ++ []). rewrite !W_app. lia.
Qed.

Theorem fuel_all : forall f, FuelSeq f /\ FuelInstr f /\ FuelInv f.
Proof.
  induction f as [|f [IHs [IHi IHv]]].
  - repeat split; intro; intros; cbn; lia.
  - destruct (steps_all f) as [HS _].
    repeat split; [apply fuel_seq_step|apply fuel_instr_step|apply fuel_inv_step]; assumption.
Qed.

End Bound.

(** ** the output of the metering transformation is well costed *)
Definition jumpy (b : binstr) : bool :=
  match b with BBr _ | BBrIf _ | BBrTable _ _ | BCall _ | BCallIndirect _ => true | _ => false end.

Ltac obind_inv H :=
  repeat match type of H with
         | obind ?o _ = Some _ => let E := fresh "E" in destruct o eqn:E; [cbn [obind] in H|discriminate H]
         | (let '(_, _) := ?p in _) = Some _ => destruct p
         | (if ?c then _ else _) = Some _ => let E := fresh "E" in destruct c eqn:E; [|discriminate H]
         end.

Section WellCosted.
Variable cfg : cost_cfg.
Variable cx : cost_ctx.
Hypothesis Hjump : forall b L c, c_cost cfg (OBasic b) L cx = Some c -> jumpy b = true -> 1 <= c.
Hypothesis Hbranch : forall a, 1 <= c_branch cfg a.

Lemma wc_tick_opt h : wc_s (tick_opt h) = true.
Proof. unfold tick_opt. destruct (0 <? h); reflexivity. Qed.

Lemma mseq_wc : forall is L h is', mseq cfg cx L is = Some (h, is') -> wc_s is' = true.
Proof.
  apply (instrs_ind2
           (fun i => forall L h pre fl, mi cfg cx L i = Some (h, pre, fl) -> wc_s pre = true)
           (fun is => forall L h is', mseq cfg cx L is = Some (h, is') -> wc_s is' = true)).
  - intros b L h pre fl H. rewrite mi_eq in H. obind_inv H.
    destruct (kind_of b) eqn:Ek.
    + inversion H; subst. cbn [wc_s]. rewrite wc_i_eq. destruct b; cbn [kind_of] in Ek; try discriminate Ek; reflexivity.
    + inversion H; subst. cbn [wc_s]. rewrite wc_i_eq, andb_true_r.
      destruct b; cbn [kind_of] in Ek; try discriminate Ek; try reflexivity; cbn [wc_b cost_of];
        apply N.leb_le; eapply Hjump; try eassumption; reflexivity.
    + inversion H; subst. cbn [wc_s]. rewrite wc_i_eq, andb_true_r. cbn [wc_b cost_of].
      destruct b; cbn [kind_of] in Ek; try discriminate Ek.
      apply orb_true_intro. left. apply N.leb_le. eapply Hjump; [eassumption|reflexivity].
    + obind_inv H. inversion H; subst. unfold brif_rewrite in E1. destruct (negb _); [discriminate|].
      destruct (n0 =? 0).
      * inversion E1; subst. cbn [wc_s]. rewrite !wc_i_eq. cbn [wc_s]. rewrite !wc_i_eq. cbn [wc_b cost_of andb].
        rewrite !andb_true_r. apply N.leb_le. apply Hbranch.
      * destruct (n0 =? 1); [|discriminate]. inversion E1; subst. cbn [wc_s]. rewrite !wc_i_eq. cbn [wc_s].
        rewrite !wc_i_eq. cbn [wc_b cost_of taken_of andb]. rewrite !andb_true_r. apply N.leb_le.
        pose proof (Hbranch n0). lia.
    + inversion H; subst. cbn [wc_s]. rewrite !wc_i_eq. cbn [wc_b]. rewrite orb_true_r.
      destruct b; cbn [kind_of] in Ek; try discriminate Ek. reflexivity.
    + discriminate H.
  - intros bt body IH L h pre fl H. rewrite mi_eq in H. obind_inv H. inversion H; subst.
    cbn [wc_s]. rewrite wc_i_eq, andb_true_r. eapply IH; eassumption.
  - intros bt body IH L h pre fl H. rewrite mi_eq in H. obind_inv H. inversion H; subst.
    cbn [wc_s]. rewrite wc_i_eq, andb_true_r, wc_s_app, wc_tick_opt. eapply IH; eassumption.
  - intros bt t e IHt IHe L h pre fl H. rewrite mi_eq in H. obind_inv H. inversion H; subst.
    cbn [wc_s]. rewrite wc_i_eq, andb_true_r, !wc_s_app, !wc_tick_opt. cbn [andb].
    rewrite (IHt _ _ _ E0), (IHe _ _ _ E1). reflexivity.
  - intros L h is' H. inversion H; reflexivity.
  - intros i r IHi IHr L h is' H. rewrite mseq_cons in H.
    destruct (mseq cfg cx L r) as [[hr r']|] eqn:Er; [|discriminate].
    destruct (mi cfg cx L i) as [[[hj pre] fl]|] eqn:Ei; [|discriminate].
    unfold mcombine in H. destruct fl; [destruct (seg_ok hr); [|discriminate]|]; inversion H; subst;
      rewrite !wc_s_app, ?wc_tick_opt, (IHi _ _ _ _ Ei), (IHr _ _ _ Er); reflexivity.
Qed.

Lemma ameter_body_wc nl result body b : ameter_body cfg cx nl result body = Some b -> wc_s b = true.
Proof.
  unfold ameter_body. destruct (mseq cfg cx [result] body) as [[h body']|] eqn:E; [|discriminate].
  cbn [obind]. destruct (seg_ok _); [|discriminate]. intro H; inversion H; subst.
  rewrite wc_s_app, (mseq_wc _ _ _ _ E), andb_true_r. destruct (0 <? _); reflexivity.
Qed.
End WellCosted.

(** ** the metered module *)
Definition module_bound (afs : list afunc) : N :=
  fold_right (fun fn acc => N.max (sz_s (af_body fn) + 2) acc) 1 afs.

Lemma module_bound_ge1 afs : 1 <= module_bound afs.
Proof. induction afs as [|fn r IH]; cbn [module_bound fold_right]; lia. Qed.
Lemma module_bound_fn afs fn : In fn afs -> sz_s (af_body fn) + 2 <= module_bound afs.
Proof.
  induction afs as [|x r IH]; [intros []|]. intros [->|Hin]; cbn [module_bound fold_right].
  - lia.
  - specialize (IH Hin). unfold module_bound in IH. lia.
Qed.

Definition positive_cfg (cfg : cost_cfg) (cx : cost_ctx) : Prop :=
  (forall b L c, c_cost cfg (OBasic b) L cx = Some c -> jumpy b = true -> 1 <= c) /\
  (forall a, 1 <= c_branch cfg a).

Lemma ameter_funcs_wc cfg m afs :
  positive_cfg cfg (ctx_of_module m) -> ameter_funcs cfg m = Some afs ->
  Forall (fun fn => wc_s (af_body fn) = true /\ sz_s (af_body fn) + 2 <= module_bound afs) afs.
Proof.
  intros [Hj Hb] H. apply Forall_forall. intros fn Hin. split; [|apply module_bound_fn; exact Hin].
  pose proof (omap_list_forall _ (fun fn => wc_s (af_body fn) = true) _ _ H) as F.
  rewrite Forall_forall in F. apply F; [|exact Hin]. intros f y Hy. unfold ameter_func in Hy.
  destruct (nth_error (m_types m) (f_type f)); [|discriminate].
  destruct (ameter_body cfg (ctx_of_module m) _ _ _) as [b|] eqn:Eb; [|discriminate]. inversion Hy; subst. cbn.
  eapply ameter_body_wc; eassumption.
Qed.

(** [meter_bounds_steps]: the number of events of a metered run (any fuel, any outcome) is bounded
    linearly by the energy ticked; [metered_run_terminates_within]: if the run was cut off by lack
    of fuel, then the fuel was at most M (1 + 2 ticks). *)
Theorem metered_run_bounds cfg m m' afs host cap fuel fi args T o :
  positive_cfg cfg (ctx_of_module m) ->
  inject cfg m = Some m' -> ameter_funcs cfg m = Some afs ->
  trun host cap m' afs fuel fi args = (T, o) ->
  let M := module_bound afs in
  evs T <= M * (1 + 2 * ticks T) /\ (o = OutOfFuel -> N.of_nat fuel <= M * (1 + 2 * ticks T)).
Proof.
  intros Hpos Hinj Hm H M.
  pose proof (module_bound_ge1 afs) as HM1. fold M in HM1.
  pose proof (inject_imports _ _ _ Hinj) as Himp.
  pose proof (ameter_funcs_wc _ _ _ Hpos Hm) as Hfn. fold M in Hfn.
  destruct (metered_run_prepaid_exact _ _ _ _ _ _ _ _ _ _ _ Hinj Hm H) as [Hp _].
  specialize (Hp T [] (eq_sym (app_nil_r T))).
  unfold trun in H. destruct (instantiate m') as [s|].
  - destruct (tinvoke host cap m' afs fuel s fi args) as [t rv] eqn:E.
    assert (T = t) by (destruct rv as [[]|[? ?]]; inversion H; reflexivity). subst t.
    destruct (steps_all host cap m' afs M HM1 Himp Hfn fuel) as [_ [_ HS]].
    destruct (fuel_all host cap m' afs M HM1 Himp Hfn fuel) as [_ [_ HF]].
    pose proof (HS _ _ _ _ _ E) as B. unfold W in B.
    split; [nia|]. intro Ho.
    assert (rv = inl RFuel).
    { destruct rv as [r0|[s' v]]; [|inversion H; subst; discriminate].
      destruct r0; inversion H; subst; try discriminate. reflexivity. }
    subst rv. pose proof (HF _ _ _ _ E) as B2. unfold W in B2. nia.
  - inversion H; subst. split; [cbn; nia|discriminate].
Qed.

Theorem terminates_within : forall cfg m m' afs host cap fuel fi args T B,
  positive_cfg cfg (ctx_of_module m) ->
  inject cfg m = Some m' -> ameter_funcs cfg m = Some afs ->
  module_bound afs * (1 + 2 * B) < N.of_nat fuel ->
  trun host cap m' afs fuel fi args = (T, OutOfFuel) -> B < ticks T.
Proof.
  intros cfg m m' afs host cap fuel fi args T B Hp Hi Hm Hf H.
  destruct (metered_run_bounds cfg m m' afs host cap fuel fi args T OutOfFuel Hp Hi Hm H) as [_ HF].
  specialize (HF eq_refl). pose proof (module_bound_ge1 afs).
  destruct (N.lt_ge_cases B (ticks T)) as [Hlt|Hge]; [exact Hlt|]. exfalso.
  assert (module_bound afs * (1 + 2 * ticks T) <= module_bound afs * (1 + 2 * B)) by (apply N.mul_le_mono_l; lia).
  lia.
Qed.

Theorem bounds_steps : forall cfg m m' afs host cap fuel fi args T o,
  positive_cfg cfg (ctx_of_module m) ->
  inject cfg m = Some m' -> ameter_funcs cfg m = Some afs ->
  trun host cap m' afs fuel fi args = (T, o) ->
  evs T <= module_bound afs * (1 + 2 * ticks T).
Proof.
  intros cfg m m' afs host cap fuel fi args T o Hp Hi Hm H.
  destruct (metered_run_bounds cfg m m' afs host cap fuel fi args T o Hp Hi Hm H) as [HA _]. exact HA.
Qed.
