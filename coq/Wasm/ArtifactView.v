(** * Wasm/ArtifactView — the two readings of a stored artifact.

    [ArtifactCodec.s_artifact] is the artifact as it is serialised ([Output] / [Parseable]):
    it carries names, the export map, the locals groups with multiplicity, signed constants.
    [Machine.artifact] is what the interpreter looks at.  [to_machine] is the projection
    (the accessor methods of [RunnableCode] + the fields [Artifact::run] reads);
    [s_artifact_of] is the record [Module::compile] builds (the part [Machine.build_artifact]
    does not already contain: import names, exports, locals groups).

    Definitions only. *)
From Coq Require Import ZArith NArith List Bool.
From CB Require Import Common.IntN Wasm.Syntax Wasm.Sem Wasm.Compile Wasm.Machine Wasm.ArtifactCodec.
Import ListNotations.
Local Open Scope Z_scope.

Definition ginit_reg (g : s_ginit) : Z :=
  match g with GI32 z => from_i32 z | GI64 z => from_i64 z end.

Definition func_view (f : s_func) : compiled_function :=
  {| cf_type_idx := N.to_nat (sf_type_idx f); cf_params := sf_params f;
     cf_num_locals := N.to_nat (sf_num_locals f); cf_return := sf_return f;
     cf_num_registers := Z.of_N (sf_num_registers f); cf_constants := sf_constants f;
     cf_code := sf_code f |}.

(** what [Artifact::run] / [run_config] read *)
Definition to_machine (a : s_artifact) : artifact :=
  {| a_imports := map si_ty (sa_imports a);
     a_types := sa_types a;
     a_table := map (fun o => match o with Some i => Some (N.to_nat i) | None => None end) (sa_table a);
     a_memory := match sa_memory a with
                 | Some m => Some (sm_init m, sm_max m,
                                   map (fun d => (Z.to_N (sd_offset d), map Z.of_N (sd_init d))) (sm_data m))
                 | None => None
                 end;
     a_globals := map ginit_reg (sa_globals a);
     a_code := map func_view (sa_code a) |}.

(** the entry point of a name: [get_entrypoint_index] then [start - imports.len()] *)
Fixpoint list_eqb_N (a b : list N) : bool :=
  match a, b with
  | [], [] => true
  | x :: a', y :: b' => (x =? y)%N && list_eqb_N a' b'
  | _, _ => false
  end.
Fixpoint lookup_export (name : list N) (l : list (list N * N)) : option N :=
  match l with
  | [] => None
  | (n, i) :: r => if list_eqb_N n name then Some i else lookup_export name r
  end.

(** signed views of the unsigned representatives used by [Wasm/Syntax.v] *)
Definition signed32 (z : Z) : Z := let u := z mod 4294967296 in if u <? 2147483648 then u else u - 4294967296.
Definition signed64 (z : Z) : Z :=
  let u := z mod 18446744073709551616 in if u <? 9223372036854775808 then u else u - 18446744073709551616.

(** run-length groups of the declared locals, as the binary format (and the harness's encoder)
    writes them and [Module::compile] copies them into [CompiledFunction.locals] *)
Fixpoint local_groups (ls : list valtype) : list s_local :=
  match ls with
  | [] => []
  | t :: r =>
      match local_groups r with
      | g :: gs => if valtype_eqb (sl_ty g) t then {| sl_mult := sl_mult g + 1; sl_ty := t |} :: gs
                   else {| sl_mult := 1; sl_ty := t |} :: g :: gs
      | [] => [{| sl_mult := 1; sl_ty := t |}]
      end
  end%N.

Definition s_func_of (locals : list valtype) (f : compiled_function) : s_func :=
  {| sf_type_idx := N.of_nat (cf_type_idx f); sf_return := cf_return f; sf_params := cf_params f;
     sf_num_locals := N.of_nat (cf_num_locals f); sf_locals := local_groups locals;
     sf_num_registers := Z.to_N (cf_num_registers f); sf_constants := cf_constants f;
     sf_code := cf_code f |}.

(** [Module::compile]: the serialisable artifact of a compiled module.  [names] are the
    (module, item) names of the imports, [exports] the exported functions sorted by name. *)
Definition s_artifact_of (cm : cmodule) (m : module) (elem_shift : nat)
           (names : list (list N * list N)) (exports : list (list N * N))
           (code : list compiled_function) : option s_artifact :=
  match build_artifact cm m elem_shift code with
  | None => None
  | Some art =>
      Some {| sa_imports := map (fun nt => {| si_mod := fst (fst nt); si_item := snd (fst nt); si_ty := snd nt |})
                                (combine names (a_imports art));
              sa_types := a_types art;
              sa_table := map (fun o => match o with Some i => Some (N.of_nat i) | None => None end) (a_table art);
              sa_memory := match a_memory art with
                           | Some (init, mx, data) =>
                               Some {| sm_init := init; sm_max := mx;
                                       sm_data := map (fun d => {| sd_offset := signed32 (Z.of_N (fst d));
                                                                   sd_init := map Z.to_N (snd d) |}) data |}
                           | None => None
                           end;
              sa_globals := map (fun g => match g_init g with VI32 z => GI32 (signed32 z) | VI64 z => GI64 (signed64 z) end)
                                (m_globals m);
              sa_exports := exports;
              sa_code := map (fun lf => s_func_of (fst lf) (snd lf))
                             (combine (map (fun fd => snd (fst fd)) (cm_funcs cm)) code) |}
  end.

(** side conditions under which the stored record and the machine artifact are the same object:
    one name per import, one compiled function per function, non-negative register counts,
    data offsets below 2^31 (they are written as signed [i32]) and data bytes that are bytes *)
Definition view_okb (cm : cmodule) (m : module) (names : list (list N * list N))
           (code : list compiled_function) : bool :=
  Nat.eqb (length names) (length (cm_imports cm))
  && Nat.eqb (length code) (length (cm_funcs cm))
  && forallb (fun f => 0 <=? cf_num_registers f) code
  && forallb (fun d => (fst d <? 2147483648)%N && forallb (fun b => 0 <=? b) (snd d)) (m_data m).
