(* GENERATED on every run by checks/c06_txcost.py from rust-src/concordium_base/src/transactions.rs
   (`mod cost`, `construct::TRANSACTION_HEADER_SIZE`, `TransactionBuilder::size`, `make_transaction`,
   and the energy expression of each `construct::*` builder).  Do not edit. *)
From Coq Require Import NArith List String.
Import ListNotations.
Local Open Scope N_scope.

Inductive credential_type : Set := Initial | Normal.

(* arithmetic at a Rust integer type narrower than u64: the value a release build computes *)
Definition wrap (w x : N) : N := x mod 2 ^ w.

Definition A : N := 100.
Definition B : N := 1.
Definition SIMPLE_TRANSFER : N := (300).
Definition PLT_OPERATIONS_TRANSACTIONS : N := (300).
Definition PLT_TRANSFER : N := (100).
Definition PLT_MINT : N := (50).
Definition PLT_BURN : N := (50).
Definition PLT_LIST_UPDATE : N := (50).
Definition PLT_PAUSE : N := (50).
Definition ENCRYPTED_TRANSFER : N := (27000).
Definition TRANSFER_TO_ENCRYPTED : N := (600).
Definition TRANSFER_TO_PUBLIC : N := (14850).
Definition ADD_BAKER : N := (4050).
Definition UPDATE_BAKER_KEYS : N := (4050).
Definition UPDATE_BAKER_STAKE : N := (300).
Definition UPDATE_BAKER_RESTAKE : N := (300).
Definition REMOVE_BAKER : N := (300).
Definition REGISTER_DATA : N := (300).
Definition CONFIGURE_BAKER_WITH_KEYS : N := (4050).
Definition CONFIGURE_BAKER_WITHOUT_KEYS : N := (300).
Definition CONFIGURE_DELEGATION : N := (300).
Definition UPDATE_CREDENTIALS_BASE : N := (500).
Definition base_cost (transaction_size : N) (num_signatures : N) : N := (B * transaction_size + A * (num_signatures)).
Definition scheduled_transfer (num_releases : N) : N := ((num_releases) * (300 + 64)).
Definition update_credential_keys (num_credentials_before : N) (num_keys : N) : N := (500 * (num_credentials_before) + 100 * (num_keys)).
Definition deploy_credential (ty : credential_type) (num_keys : N) : N := (match ty with | Initial => (1000 + 100 * (num_keys)) | Normal => (54000 + 100 * (num_keys)) end).
Definition update_credentials_variable (num_credentials_before : N) (num_keys : list N) : N := let energy := 500 * (num_credentials_before) + (fold_right N.add 0 (map (fun nk => ((deploy_credential Normal nk))) num_keys)) in (energy).
Definition update_credentials (num_credentials_before : N) (num_keys : list N) : N := UPDATE_CREDENTIALS_BASE + (update_credentials_variable num_credentials_before num_keys).
Definition deploy_module (module_size : N) : N := (module_size / 10).
Definition TRANSACTION_HEADER_SIZE : N := 32 + 8 + 8 + 4 + 8.
Definition builder_size (payload_size : N) : N := TRANSACTION_HEADER_SIZE + ((payload_size)).
Definition given_energy_add (size num_sigs energy : N) : N := (base_cost size num_sigs) + energy.
Definition token_op_cost (op : string) : N :=
  if String.eqb op "Transfer" then PLT_TRANSFER else
  if String.eqb op "Mint" then PLT_MINT else
  if String.eqb op "Burn" then PLT_BURN else
  if String.eqb op "AddAllowList" then PLT_LIST_UPDATE else
  if String.eqb op "RemoveAllowList" then PLT_LIST_UPDATE else
  if String.eqb op "AddDenyList" then PLT_LIST_UPDATE else
  if String.eqb op "RemoveDenyList" then PLT_LIST_UPDATE else
  if String.eqb op "Pause" then PLT_PAUSE else
  if String.eqb op "Unpause" then PLT_PAUSE else
  0.
Definition token_operations_energy (ops : list string) : N := PLT_OPERATIONS_TRANSACTIONS + fold_right N.add 0 (map token_op_cost ops).
Definition cost_transfer : N := SIMPLE_TRANSFER.
Definition cost_transfer_with_memo : N := SIMPLE_TRANSFER.
Definition cost_token_update_operations (ops : list string) : N := token_operations_energy ops.
Definition cost_encrypted_transfer : N := ENCRYPTED_TRANSFER.
Definition cost_encrypted_transfer_with_memo : N := ENCRYPTED_TRANSFER.
Definition cost_transfer_to_encrypted : N := TRANSFER_TO_ENCRYPTED.
Definition cost_transfer_to_public : N := TRANSFER_TO_PUBLIC.
Definition cost_transfer_with_schedule (num_releases : N) : N := (scheduled_transfer num_releases).
Definition cost_transfer_with_schedule_and_memo (num_releases : N) : N := (scheduled_transfer num_releases).
Definition cost_add_baker : N := ADD_BAKER.
Definition cost_update_baker_keys : N := UPDATE_BAKER_KEYS.
Definition cost_remove_baker : N := REMOVE_BAKER.
Definition cost_update_baker_stake : N := UPDATE_BAKER_STAKE.
Definition cost_update_baker_restake_earnings : N := UPDATE_BAKER_RESTAKE.
Definition cost_register_data : N := REGISTER_DATA.
Definition cost_deploy_module (module_size : N) : N := (deploy_module module_size).
Definition cost_init_contract (energy : N) : N := energy.
Definition cost_update_contract (energy : N) : N := energy.
Definition cost_configure_baker (with_keys : bool) : N := if with_keys then CONFIGURE_BAKER_WITH_KEYS else CONFIGURE_BAKER_WITHOUT_KEYS.
Definition cost_configure_delegation : N := CONFIGURE_DELEGATION.
Definition cost_update_credential_keys (num_existing_credentials : N) (num_cred_keys : N) : N := (update_credential_keys num_existing_credentials num_cred_keys).
Definition cost_update_credentials (num_existing_credentials : N) (num_cred_keys : list N) : N := (update_credentials num_existing_credentials num_cred_keys).

(* energy_amount a builder writes into the header *)
Definition builder_energy (type_cost payload_size num_sigs : N) : N :=
  given_energy_add (builder_size payload_size) num_sigs type_cost.
