(** C17 - token amounts: exact conversions preserve the denoted number, lossy ones are rejected,
    the JSON value string parses back. *)
From Coq Require Import NArith PeanoNat List Bool Lia.
From CB Require Import Cbor.TokenAmount.
Import ListNotations.
Local Open Scope N_scope.

Arguments N.pow : simpl never.
Arguments N.mul : simpl never.
Arguments N.div : simpl never.
Arguments N.modulo : simpl never.
Arguments N.ltb : simpl never.
Arguments N.leb : simpl never.
Arguments N.eqb : simpl never.

(** * Exact conversion from a parsed decimal *)
Lemma rescale_exact_sound : forall neg m sc d a, rescale_exact neg m sc d = Some a ->
  amt_decimals a = d /\ same_number m sc (amt_value a) d /\ (neg = false \/ m = 0).
Proof.
  intros neg m sc d a H. unfold rescale_exact in H. unfold same_number.
  destruct (28 <? d); [discriminate|].
  destruct (N.eqb_spec m 0) as [->|Hm].
  { inversion H; subst. cbn [amt_value amt_decimals]. rewrite !N.mul_0_l. auto. }
  destruct neg; [discriminate|].
  destruct (N.leb_spec sc d).
  - destruct ((M96 <=? m * 10 ^ (d - sc)) || (U64MAX <? m * 10 ^ (d - sc))); [discriminate|].
    inversion H; subst. cbn [amt_value amt_decimals]. split; [reflexivity|]. split; [|auto].
    replace d with ((d - sc) + sc) at 1 by lia. rewrite N.pow_add_r. lia.
  - destruct (N.eqb_spec (m mod 10 ^ (sc - d)) 0) as [E|]; [|discriminate]. cbn [negb] in H.
    destruct (U64MAX <? m / 10 ^ (sc - d)); [discriminate|].
    inversion H; subst. cbn [amt_value amt_decimals]. split; [reflexivity|]. split; [|auto].
    assert (K0 : 10 ^ (sc - d) <> 0) by (apply N.pow_nonzero; lia).
    pose proof (N.div_mod m (10 ^ (sc - d)) K0) as DM. rewrite E, N.add_0_r in DM.
    replace sc with ((sc - d) + d) at 2 by lia. rewrite N.pow_add_r. rewrite DM at 1. lia.
Qed.

Theorem from_str_exact_sound : forall s d a neg m sc,
  parse_decimal s = Some (neg, m, sc) -> from_str_exact s d = Some a ->
  amt_decimals a = d /\ same_number m sc (amt_value a) d /\ (neg = false \/ m = 0).
Proof.
  intros s d a neg m sc P H. unfold from_str_exact in H. rewrite P in H. apply rescale_exact_sound in H. exact H.
Qed.

Theorem from_str_exact_lossy : forall s d neg m sc,
  parse_decimal s = Some (neg, m, sc) -> d < sc -> m mod 10 ^ (sc - d) <> 0 -> from_str_exact s d = None.
Proof.
  intros s d neg m sc P Hd Hm. unfold from_str_exact. rewrite P. unfold rescale_exact.
  destruct (28 <? d); [reflexivity|].
  destruct (N.eqb_spec m 0) as [->|]. { exfalso. apply Hm. apply N.mod_0_l. apply N.pow_nonzero. lia. }
  destruct neg; [reflexivity|].
  destruct (N.leb_spec sc d); [lia|].
  destruct (N.eqb_spec (m mod 10 ^ (sc - d)) 0); [contradiction|]. reflexivity.
Qed.

(** * Decimal digits *)
Lemma of_digits_app : forall l1 l2 a, of_digits a (l1 ++ l2) = of_digits (of_digits a l1) l2.
Proof. induction l1; intros; cbn [app of_digits]; [reflexivity|]. apply IHl1. Qed.

Lemma all_digits_app : forall l1 l2, all_digits (l1 ++ l2) = all_digits l1 && all_digits l2.
Proof. induction l1; intros; cbn [app all_digits]; [reflexivity|]. rewrite IHl1, andb_assoc. reflexivity. Qed.

Lemma is_digit_48 : forall n, n < 10 -> is_digit (ch_0 + n) = true /\ ch_0 + n - ch_0 = n.
Proof.
  intros n H. unfold is_digit, ch_0. split; [|lia].
  apply andb_true_iff. split; apply N.leb_le; lia.
Qed.

Lemma to_digits_spec : forall f n acc, n < 10 ^ N.of_nat (S f) ->
  exists c r, to_digits (S f) n acc = (c :: r) ++ acc /\ all_digits (c :: r) = true /\
              forall a, of_digits a (c :: r) = a * 10 ^ N.of_nat (length (c :: r)) + n.
Proof.
  induction f as [|f IH]; intros n acc H.
  - change (10 ^ N.of_nat 1) with 10 in H. cbn [to_digits]. destruct (N.ltb_spec n 10); [|lia].
    destruct (is_digit_48 n H) as [D E]. exists (ch_0 + n), []. cbn [app all_digits of_digits length].
    rewrite D, E. split; [reflexivity|]. split; [reflexivity|]. intros. change (10 ^ N.of_nat 1) with 10. reflexivity.
  - remember (S f) as f1. cbn [to_digits]. destruct (N.ltb_spec n 10) as [Hn|Hn].
    + destruct (is_digit_48 n Hn) as [D E]. exists (ch_0 + n), []. cbn [app all_digits of_digits length].
      rewrite D, E. split; [reflexivity|]. split; [reflexivity|]. intros. change (10 ^ N.of_nat 1) with 10. reflexivity.
    + subst f1.
      assert (Hq : n / 10 < 10 ^ N.of_nat (S f)).
      { apply N.div_lt_upper_bound; [lia|]. replace (N.of_nat (S (S f))) with (N.succ (N.of_nat (S f))) in H by lia.
        rewrite N.pow_succ_r' in H. exact H. }
      destruct (IH (n / 10) ((ch_0 + n mod 10) :: acc) Hq) as (c & r & E & AD & V).
      assert (Hm : n mod 10 < 10) by (apply N.mod_lt; lia).
      destruct (is_digit_48 _ Hm) as [D E2].
      exists c, (r ++ [ch_0 + n mod 10]). split.
      * rewrite E. cbn [app]. rewrite <- app_assoc. reflexivity.
      * split.
        -- change (c :: r ++ [ch_0 + n mod 10]) with ((c :: r) ++ [ch_0 + n mod 10]).
           rewrite all_digits_app, AD. cbn [all_digits]. rewrite D. reflexivity.
        -- intros a. change (c :: r ++ [ch_0 + n mod 10]) with ((c :: r) ++ [ch_0 + n mod 10]).
           rewrite of_digits_app, V. cbn [of_digits]. rewrite E2, app_length. cbn [length].
           replace (N.of_nat (S (length r) + 1)) with (N.succ (N.of_nat (S (length r)))) by lia.
           rewrite N.pow_succ_r'. pose proof (N.div_mod n 10 ltac:(lia)). lia.
Qed.

Lemma digits_spec : forall n, exists c r, digits n = c :: r /\ all_digits (c :: r) = true /\ of_digits 0 (c :: r) = n.
Proof.
  intros n. unfold digits.
  assert (H : n < 10 ^ N.of_nat (S (N.to_nat (N.size n)))).
  { destruct (N.eq_dec n 0) as [->|Hn]; [apply N.neq_0_lt_0; apply N.pow_nonzero; lia|].
    pose proof (N.size_gt n) as G. eapply N.lt_le_trans; [exact G|].
    replace (N.of_nat (S (N.to_nat (N.size n)))) with (N.succ (N.size n)) by lia.
    etransitivity; [apply (N.pow_le_mono_l 2 10 (N.size n)); lia|].
    apply N.pow_le_mono_r; lia. }
  destruct (to_digits_spec _ n [] H) as (c & r & E & AD & V).
  exists c, r. rewrite E, app_nil_r. split; [reflexivity|]. split; [exact AD|]. rewrite V. lia.
Qed.

(** * JSON *)
Theorem json_roundtrip : forall a, amount_ok a = true -> from_json (json_value a) (amt_decimals a) = Some a.
Proof.
  intros [v d] H. unfold amount_ok in H. cbn [amt_value amt_decimals] in *.
  apply andb_true_iff in H. destruct H as [Hv Hd]. apply N.ltb_lt in Hd.
  unfold from_json, json_value. cbn [amt_value amt_decimals].
  destruct (N.leb_spec 256 d); [lia|].
  destruct (digits_spec v) as (c & r & E & AD & V). rewrite E. unfold parse_u64.
  assert (Hc : (c =? ch_plus) = false).
  { cbn [all_digits] in AD. apply andb_true_iff in AD. destruct AD as [Dc _]. unfold is_digit in Dc.
    apply andb_true_iff in Dc. destruct Dc as [Lo _]. apply N.leb_le in Lo. apply N.eqb_neq. unfold ch_plus. lia. }
  rewrite Hc, AD, V, Hv. reflexivity.
Qed.
