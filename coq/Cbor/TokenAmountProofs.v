(** C17 - token amounts: exact conversions preserve the denoted number, lossy ones are rejected,
    the JSON value string parses back. *)
From Coq Require Import NArith PeanoNat List Bool Lia.
From CB Require Import Cbor.TokenAmount.
Import ListNotations.
Local Open Scope N_scope.

Arguments N.pow : simpl never.
Arguments N.mul : simpl never.
Arguments N.div : simpl never.
Arguments N.modulo : simpl never.
Arguments N.ltb : simpl never.
Arguments N.leb : simpl never.
Arguments N.eqb : simpl never.

(** * Exact conversion from a parsed decimal *)
Lemma rescale_exact_sound : forall neg m sc d a, rescale_exact neg m sc d = Some a ->
  amt_decimals a = d /\ same_number m sc (amt_value a) d /\ (neg = false \/ m = 0).
Proof.
  intros neg m sc d a H. unfold rescale_exact in H. unfold same_number.
  destruct (28 <? d); [discriminate|].
  destruct (N.eqb_spec m 0) as [->|Hm].
  { inversion H; subst. cbn [amt_value amt_decimals]. rewrite !N.mul_0_l. auto. }
  destruct neg; [discriminate|].
  destruct (N.leb_spec sc d).
  - destruct ((M96 <=? m * 10 ^ (d - sc)) || (U64MAX <? m * 10 ^ (d - sc))); [discriminate|].
    inversion H; subst. cbn [amt_value amt_decimals]. split; [reflexivity|]. split; [|auto].
    replace d with ((d - sc) + sc) at 1 by lia. rewrite N.pow_add_r. lia.
  - destruct (N.eqb_spec (m mod 10 ^ (sc - d)) 0) as [E|]; [|discriminate]. cbn [negb] in H.
    destruct (U64MAX <? m / 10 ^ (sc - d)); [discriminate|].
    inversion H; subst. cbn [amt_value amt_decimals]. split; [reflexivity|]. split; [|auto].
    assert (K0 : 10 ^ (sc - d) <> 0) by (apply N.pow_nonzero; lia).
    pose proof (N.div_mod m (10 ^ (sc - d)) K0) as DM. rewrite E, N.add_0_r in DM.
    replace sc with ((sc - d) + d) at 2 by lia. rewrite N.pow_add_r. rewrite DM at 1. lia.
Qed.

Theorem from_str_exact_sound : forall s d a neg m sc,
  parse_decimal s = Some (neg, m, sc) -> from_str_exact s d = Some a ->
  amt_decimals a = d /\ same_number m sc (amt_value a) d /\ (neg = false \/ m = 0).
Proof.
  intros s d a neg m sc P H. unfold from_str_exact in H. rewrite P in H. apply rescale_exact_sound in H. exact H.
Qed.

Theorem from_str_exact_lossy : forall s d neg m sc,
  parse_decimal s = Some (neg, m, sc) -> d < sc -> m mod 10 ^ (sc - d) <> 0 -> from_str_exact s d = None.
Proof.
  intros s d neg m sc P Hd Hm. unfold from_str_exact. rewrite P. unfold rescale_exact.
  destruct (28 <? d); [reflexivity|].
  destruct (N.eqb_spec m 0) as [->|]. { exfalso. apply Hm. apply N.mod_0_l. apply N.pow_nonzero. lia. }
  destruct neg; [reflexivity|].
  destruct (N.leb_spec sc d); [lia|].
  destruct (N.eqb_spec (m mod 10 ^ (sc - d)) 0); [contradiction|]. reflexivity.
Qed.

(** * Decimal digits *)
Lemma of_digits_app : forall l1 l2 a, of_digits a (l1 ++ l2) = of_digits (of_digits a l1) l2.
Proof. induction l1; intros; cbn [app of_digits]; [reflexivity|]. apply IHl1. Qed.

Lemma all_digits_app : forall l1 l2, all_digits (l1 ++ l2) = all_digits l1 && all_digits l2.
Proof. induction l1; intros; cbn [app all_digits]; [reflexivity|]. rewrite IHl1, andb_assoc. reflexivity. Qed.

Lemma is_digit_48 : forall n, n < 10 -> is_digit (ch_0 + n) = true /\ ch_0 + n - ch_0 = n.
Proof.
  intros n H. unfold is_digit, ch_0. split; [|lia].
  apply andb_true_iff. split; apply N.leb_le; lia.
Qed.

Lemma to_digits_spec : forall f n acc, n < 10 ^ N.of_nat (S f) ->
  exists c r, to_digits (S f) n acc = (c :: r) ++ acc /\ all_digits (c :: r) = true /\
              forall a, of_digits a (c :: r) = a * 10 ^ N.of_nat (length (c :: r)) + n.
Proof.
  induction f as [|f IH]; intros n acc H.
  - change (10 ^ N.of_nat 1) with 10 in H. cbn [to_digits]. destruct (N.ltb_spec n 10); [|lia].
    destruct (is_digit_48 n H) as [D E]. exists (ch_0 + n), []. cbn [app all_digits of_digits length].
    rewrite D, E. split; [reflexivity|]. split; [reflexivity|]. intros. change (10 ^ N.of_nat 1) with 10. reflexivity.
  - remember (S f) as f1. cbn [to_digits]. destruct (N.ltb_spec n 10) as [Hn|Hn].
    + destruct (is_digit_48 n Hn) as [D E]. exists (ch_0 + n), []. cbn [app all_digits of_digits length].
      rewrite D, E. split; [reflexivity|]. split; [reflexivity|]. intros. change (10 ^ N.of_nat 1) with 10. reflexivity.
    + subst f1.
      assert (Hq : n / 10 < 10 ^ N.of_nat (S f)).
      { apply N.div_lt_upper_bound; [lia|]. replace (N.of_nat (S (S f))) with (N.succ (N.of_nat (S f))) in H by lia.
        rewrite N.pow_succ_r' in H. exact H. }
      destruct (IH (n / 10) ((ch_0 + n mod 10) :: acc) Hq) as (c & r & E & AD & V).
      assert (Hm : n mod 10 < 10) by (apply N.mod_lt; lia).
      destruct (is_digit_48 _ Hm) as [D E2].
      exists c, (r ++ [ch_0 + n mod 10]). split.
      * rewrite E. cbn [app]. rewrite <- app_assoc. reflexivity.
      * split.
        -- change (c :: r ++ [ch_0 + n mod 10]) with ((c :: r) ++ [ch_0 + n mod 10]).
           rewrite all_digits_app, AD. cbn [all_digits]. rewrite D. reflexivity.
        -- intros a. change (c :: r ++ [ch_0 + n mod 10]) with ((c :: r) ++ [ch_0 + n mod 10]).
           rewrite of_digits_app, V. cbn [of_digits]. rewrite E2, app_length. cbn [length].
           replace (N.of_nat (S (length r) + 1)) with (N.succ (N.of_nat (S (length r)))) by lia.
           rewrite N.pow_succ_r'. pose proof (N.div_mod n 10 ltac:(lia)). lia.
Qed.

Lemma digits_spec : forall n, exists c r, digits n = c :: r /\ all_digits (c :: r) = true /\ of_digits 0 (c :: r) = n.
Proof.
  intros n. unfold digits.
  assert (H : n < 10 ^ N.of_nat (S (N.to_nat (N.size n)))).
  { destruct (N.eq_dec n 0) as [->|Hn]; [apply N.neq_0_lt_0; apply N.pow_nonzero; lia|].
    pose proof (N.size_gt n) as G. eapply N.lt_le_trans; [exact G|].
    replace (N.of_nat (S (N.to_nat (N.size n)))) with (N.succ (N.size n)) by lia.
    etransitivity; [apply (N.pow_le_mono_l 2 10 (N.size n)); lia|].
    apply N.pow_le_mono_r; lia. }
  destruct (to_digits_spec _ n [] H) as (c & r & E & AD & V).
  exists c, r. rewrite E, app_nil_r. split; [reflexivity|]. split; [exact AD|]. rewrite V. lia.
Qed.

(** * JSON *)
Theorem json_roundtrip : forall a, amount_ok a = true -> from_json (json_value a) (amt_decimals a) = Some a.
Proof.
  intros [v d] H. unfold amount_ok in H. cbn [amt_value amt_decimals] in *.
  apply andb_true_iff in H. destruct H as [Hv Hd]. apply N.ltb_lt in Hd.
  unfold from_json, json_value. cbn [amt_value amt_decimals].
  destruct (N.leb_spec 256 d); [lia|].
  destruct (digits_spec v) as (c & r & E & AD & V). rewrite E. unfold parse_u64.
  assert (Hc : (c =? ch_plus) = false).
  { cbn [all_digits] in AD. apply andb_true_iff in AD. destruct AD as [Dc _]. unfold is_digit in Dc.
    apply andb_true_iff in Dc. destruct Dc as [Lo _]. apply N.leb_le in Lo. apply N.eqb_neq. unfold ch_plus. lia. }
  rewrite Hc, AD, V, Hv. reflexivity.
Qed.

(** * Display output parses back: from_str (to_string a) = a whenever decimals <= 28 *)
Lemma of_digits_ge : forall ds a, a <= of_digits a ds.
Proof.
  induction ds as [|d r IH]; intros a; cbn [of_digits]; [lia|].
  etransitivity; [|apply IH]. lia.
Qed.

Lemma is_digit_range : forall c, is_digit c = true -> 48 <= c <= 57.
Proof. intros c H. unfold is_digit in H. apply andb_true_iff in H. destruct H as [A B]. apply N.leb_le in A, B. lia. Qed.

(** digits before the point *)
Lemma parse_body_int : forall r c rest has m sc,
  all_digits (c :: r) = true -> of_digits m (c :: r) < M96 ->
  parse_body ((c :: r) ++ rest) has false m sc = parse_body rest true false (of_digits m (c :: r)) 0.
Proof.
  induction r as [|c' r IH]; intros c rest has m sc AD Hb.
  - cbn [all_digits] in AD. apply andb_true_iff in AD. destruct AD as [Dc _].
    cbn [app parse_body of_digits] in *. rewrite Dc.
    destruct (N.leb_spec M96 (m * 10 + (c - ch_0))); [lia|]. cbn [andb]. reflexivity.
  - cbn [all_digits] in AD. apply andb_true_iff in AD. destruct AD as [Dc AD'].
    change ((c :: c' :: r) ++ rest) with (c :: ((c' :: r) ++ rest)).
    cbn [parse_body]. rewrite Dc.
    assert (Hm : m * 10 + (c - ch_0) < M96).
    { eapply N.le_lt_trans; [|exact Hb]. cbn [of_digits]. apply (of_digits_ge (c' :: r)). }
    destruct (N.leb_spec M96 (m * 10 + (c - ch_0))); [lia|]. cbn [andb].
    rewrite (IH c' rest true (m * 10 + (c - ch_0)) 0 AD'); [reflexivity|]. exact Hb.
Qed.

(** digits after the point, up to the end of the string *)
Lemma parse_body_frac : forall ds m sc,
  all_digits ds = true -> of_digits m ds < M96 -> sc + N.of_nat (length ds) <= 28 ->
  parse_body ds true true m sc = Some (of_digits m ds, sc + N.of_nat (length ds)).
Proof.
  induction ds as [|c r IH]; intros m sc AD Hb Hs.
  - cbn [parse_body of_digits length]. rewrite N.add_0_r. reflexivity.
  - cbn [all_digits] in AD. apply andb_true_iff in AD. destruct AD as [Dc AD'].
    cbn [parse_body]. rewrite Dc.
    assert (Hm : m * 10 + (c - ch_0) < M96).
    { eapply N.le_lt_trans; [|exact Hb]. cbn [of_digits]. apply of_digits_ge. }
    destruct (N.leb_spec M96 (m * 10 + (c - ch_0))); [lia|].
    cbn [length] in Hs.
    assert (Chk : (true && (28 <=? sc + 1) && negb match r with [] => true | _ :: _ => false end) = false).
    { destruct r; [rewrite andb_false_r; reflexivity|]. cbn [length] in Hs.
      destruct (N.leb_spec 28 (sc + 1)); [lia|]. reflexivity. }
    rewrite Chk. rewrite (IH (m * 10 + (c - ch_0)) (sc + 1) AD'); [|exact Hb|lia].
    cbn [of_digits length]. f_equal. f_equal. lia.
Qed.

Lemma all_digits_repeat : forall n, all_digits (repeat ch_0 n) = true.
Proof. induction n; [reflexivity|]. cbn [repeat all_digits]. rewrite IHn. reflexivity. Qed.

Lemma of_digits_zeros : forall n a, a = 0 -> of_digits a (repeat ch_0 n) = 0.
Proof. induction n; intros a ->; [reflexivity|]. cbn [repeat of_digits]. apply IHn. reflexivity. Qed.

Lemma rescale_same : forall v d, v <= U64MAX -> d <= 28 -> rescale_exact false v d d = Some {| amt_value := v; amt_decimals := d |}.
Proof.
  intros v d Hv Hd. unfold rescale_exact.
  destruct (N.ltb_spec 28 d); [lia|].
  destruct (N.eqb_spec v 0) as [->|Hne]; [reflexivity|].
  destruct (N.leb_spec d d); [|lia]. rewrite N.sub_diag. change (10 ^ 0) with 1. rewrite N.mul_1_r.
  assert (E1 : (M96 <=? v) = false) by (apply N.leb_gt; unfold M96; unfold U64MAX in Hv; change (2 ^ 96) with 79228162514264337593543950336; lia).
  assert (E2 : (U64MAX <? v) = false) by (apply N.ltb_ge; exact Hv).
  rewrite E1, E2. reflexivity.
Qed.

Lemma parse_decimal_digit_first : forall c s, is_digit c = true ->
  parse_decimal (c :: s) =
  match parse_body (c :: s) false false 0 0 with Some (m, sc) => Some (false, m, sc) | None => None end.
Proof.
  intros c s D. apply is_digit_range in D. unfold parse_decimal.
  assert (Em : (c =? ch_minus) = false) by (apply N.eqb_neq; unfold ch_minus; lia).
  assert (Ep : (c =? ch_plus) = false) by (apply N.eqb_neq; unfold ch_plus; lia).
  rewrite Em, Ep. reflexivity.
Qed.

Theorem display_roundtrip : forall a, amount_ok a = true -> amt_decimals a <= 28 ->
  from_str_exact (to_string a) (amt_decimals a) = Some a.
Proof.
  intros [v dec] H Hd. unfold amount_ok in H. cbn [amt_value amt_decimals] in *.
  apply andb_true_iff in H. destruct H as [Hv _]. apply N.leb_le in Hv.
  assert (HvM : v < M96) by (unfold M96; unfold U64MAX in Hv; change (2 ^ 96) with 79228162514264337593543950336; lia).
  destruct (digits_spec v) as (c & r0 & E & AD & V).
  unfold from_str_exact, to_string. cbn [amt_value amt_decimals]. rewrite E.
  destruct (N.eqb_spec dec 0) as [->|Hne].
  - (* no point *)
    assert (Dc : is_digit c = true) by (cbn [all_digits] in AD; apply andb_true_iff in AD; tauto).
    rewrite (parse_decimal_digit_first c r0 Dc).
    pose proof (parse_body_int r0 c [] false 0 0 AD) as P. rewrite app_nil_r, V in P.
    rewrite (P HvM). cbn [parse_body]. apply rescale_same; [exact Hv|lia].
  - set (d := N.to_nat dec). set (ds := c :: r0) in *.
    set (padded := repeat ch_0 (S d - length ds) ++ ds).
    set (k := (length padded - d)%nat).
    assert (Lp : (S d <= length padded)%nat) by (unfold padded; rewrite app_length, repeat_length; lia).
    assert (ADp : all_digits padded = true) by (unfold padded; rewrite all_digits_app, all_digits_repeat, AD; reflexivity).
    assert (Vp : of_digits 0 padded = v).
    { unfold padded. rewrite of_digits_app, (of_digits_zeros _ 0 eq_refl). exact V. }
    assert (Split : firstn k padded ++ skipn k padded = padded) by apply firstn_skipn.
    assert (LI : length (firstn k padded) = k) by (apply firstn_length_le; unfold k; lia).
    assert (LF : length (skipn k padded) = d) by (rewrite skipn_length; unfold k; lia).
    remember (firstn k padded) as I eqn:EI. remember (skipn k padded) as F eqn:EF.
    assert (ADIF : all_digits I = true /\ all_digits F = true).
    { rewrite <- Split, all_digits_app in ADp. apply andb_true_iff in ADp. exact ADp. }
    destruct ADIF as [ADI ADF].
    destruct I as [|c1 I']; [cbn [length] in LI; unfold k in LI; lia|].
    assert (Dc : is_digit c1 = true) by (cbn [all_digits] in ADI; apply andb_true_iff in ADI; tauto).
    assert (VI : of_digits (of_digits 0 (c1 :: I')) F = v) by (rewrite <- of_digits_app, Split; exact Vp).
    assert (BI : of_digits 0 (c1 :: I') < M96).
    { eapply N.le_lt_trans; [apply (of_digits_ge F)|]. rewrite VI. exact HvM. }
    change ((c1 :: I') ++ ch_dot :: F) with (c1 :: (I' ++ ch_dot :: F)).
    rewrite (parse_decimal_digit_first c1 _ Dc).
    change (c1 :: I' ++ ch_dot :: F) with ((c1 :: I') ++ ch_dot :: F).
    rewrite (parse_body_int I' c1 (ch_dot :: F) false 0 0 ADI BI).
    cbn [parse_body]. change (is_digit ch_dot) with false. change ((ch_dot =? ch_dot) && negb false) with true. cbv iota.
    rewrite (parse_body_frac F (of_digits 0 (c1 :: I')) 0 ADF); [|rewrite VI; exact HvM|rewrite LF; unfold d; lia].
    rewrite VI, LF. unfold d. rewrite N2Nat.id, N.add_0_l. apply rescale_same; assumption.
Qed.

(** ... and for more than 28 decimals the string form cannot be parsed back at all (rust_decimal's
    maximal scale): a rejection, never a different amount *)
Theorem display_beyond_scale_rejected : forall s d, 28 < d -> from_str_exact s d = None.
Proof.
  intros s d H. unfold from_str_exact. destruct (parse_decimal s) as [[[neg m] sc]|]; [|reflexivity].
  unfold rescale_exact. destruct (N.ltb_spec 28 d); [reflexivity|lia].
Qed.
