(** C17 - nesting depth.  The code has NO explicit depth limit ([Value::deserialize] recurses once per
    array / map / tag level); what bounds the recursion is the input: every nesting level costs at least
    one head byte.  Proved here for the model decoder: the depth of a decoded value is at most the
    number of bytes consumed - so the theorems of Props/C17.v hold at every depth (not only <= 64), and the
    recursion depth of the decoder is linear in the input length. *)
From Coq Require Import NArith PeanoNat List Bool Lia.
From CB Require Import Cbor.CborCore Cbor.CborProofs Cbor.CborTotal.
Import ListNotations.
Local Open Scope N_scope.

Definition depth_elems (l : list value) : nat := fold_right (fun x d => Init.Nat.max (depth x) d) O l.
Definition depth_pairs (l : list (value * value)) : nat :=
  fold_right (fun kv d => let '(k, x) := kv in Init.Nat.max (Init.Nat.max (depth k) (depth x)) d) O l.

Definition d_item (bs : list N) (res : res value) : Prop :=
  match res with Ok v r _ => (depth v + length r <= length bs)%nat | _ => True end.
Definition d_elems (bs : list N) (res : res (list value)) : Prop :=
  match res with Ok l r _ => (depth_elems l + length r <= length bs)%nat | _ => True end.
Definition d_pairs (bs : list N) (res : res (list (value * value))) : Prop :=
  match res with Ok l r _ => (depth_pairs l + length r <= length bs)%nat | _ => True end.

Definition depth_spec (f : nat) : Prop :=
  (forall bs, d_item bs (dec f bs)) /\
  (forall n bs, d_elems bs (dec_elems f n bs)) /\
  (forall bs, d_elems bs (dec_elems_indef f bs)) /\
  (forall n bs, d_pairs bs (dec_pairs f n bs)) /\
  (forall bs, d_pairs bs (dec_pairs_indef f bs)).

Lemma progress : forall f bs v r a, dec f bs = Ok v r a -> (length r < length bs)%nat.
Proof.
  intros f bs v r a H. destruct (all_spec_holds f) as [Hd _]. specialize (Hd bs). rewrite H in Hd. cbn in Hd. tauto.
Qed.

Ltac mlia := cbn in *; unfold depth_elems, depth_pairs in *; change Init.Nat.max with Nat.max in *; lia.

Lemma depth_spec_holds : forall f, depth_spec f.
Proof.
  induction f as [|f (IHd & IHe & IHei & IHp & IHpi)].
  { repeat split; intros; cbn; auto; destruct (n =? 0); cbn; auto. }
  assert (Hdec : forall bs, d_item bs (dec (S f) bs)).
  { intros bs. pose proof (progress (S f) bs) as PR. rewrite dec_S in *.
    destruct (pull bs) as [[h r]|] eqn:P; [|exact I]. apply pull_shorter in P.
    destruct h as [n|n|[n|]|[n|]|[n|]|[n|]|t|n|w b|]; try exact I;
      try (cbn; specialize (PR _ _ _ eq_refl); lia).
    - destruct (read_seg false n r) as [d r' a|a|]; cbn in *; try exact I. specialize (PR _ _ _ eq_refl). lia.
    - destruct (segs f false 1 r) as [d r' a|a|]; cbn in *; try exact I. specialize (PR _ _ _ eq_refl). lia.
    - destruct (read_seg true n r) as [d r' a|a|]; cbn in *; try exact I. specialize (PR _ _ _ eq_refl). lia.
    - destruct (segs f true 1 r) as [d r' a|a|]; cbn in *; try exact I. specialize (PR _ _ _ eq_refl). lia.
    - specialize (IHe n r). destruct (dec_elems f n r) as [l r' a|a|]; cbn in *; try exact I. unfold depth_elems in *. lia.
    - specialize (IHei r). destruct (dec_elems_indef f r) as [l r' a|a|]; cbn in *; try exact I. unfold depth_elems in *. lia.
    - specialize (IHp n r). destruct (dec_pairs f n r) as [l r' a|a|]; cbn in *; try exact I. unfold depth_pairs in *. lia.
    - specialize (IHpi r). destruct (dec_pairs_indef f r) as [l r' a|a|]; cbn in *; try exact I. unfold depth_pairs in *. lia.
    - specialize (IHd r). destruct (dec f r) as [x r' a|a|]; cbn in *; try exact I; mlia.
    - unfold simple_value. destruct (n =? 20); [cbn; specialize (PR _ _ _ eq_refl); lia|].
      destruct (n =? 21); [cbn; specialize (PR _ _ _ eq_refl); lia|].
      destruct (n =? 22); cbn; specialize (PR _ _ _ eq_refl); lia. }
  split; [exact Hdec|]. repeat split.
  - intros n bs. rewrite dec_elems_S. destruct (n =? 0); [cbn; lia|].
    pose proof (IHd bs) as Hd. destruct (dec f bs) as [v r a|a|]; try exact I.
    specialize (IHe (n - 1) r). destruct (dec_elems f (n - 1) r); cbn in *; try exact I; mlia.
  - intros bs. rewrite dec_elems_indef_S.
    assert (Hgen : d_elems bs
      match dec f bs with
      | Ok v r a =>
        match dec_elems_indef f r with
        | Ok l r' a' => Ok (v :: l) r' (a + VALUE_SIZE + a')
        | Err a' => Err (a + VALUE_SIZE + a')
        | OutOfFuel => OutOfFuel
        end
      | Err a => Err a
      | OutOfFuel => OutOfFuel
      end).
    { pose proof (IHd bs) as Hd. destruct (dec f bs) as [v r a|a|]; try exact I.
      specialize (IHei r). destruct (dec_elems_indef f r); cbn in *; try exact I; mlia. }
    destruct (pull bs) as [[h r]|] eqn:P; [|exact Hgen].
    destruct h; try exact Hgen. apply pull_shorter in P. cbn. lia.
  - intros n bs. rewrite dec_pairs_S. destruct (n =? 0); [cbn; lia|].
    pose proof (IHd bs) as Hd. destruct (dec f bs) as [k r a|a|]; try exact I.
    pose proof (IHd r) as Hx. destruct (dec f r) as [x r1 a1|a1|]; try exact I.
    specialize (IHp (n - 1) r1). destruct (dec_pairs f (n - 1) r1); cbn in *; try exact I; mlia.
  - intros bs. rewrite dec_pairs_indef_S.
    assert (Hgen : d_pairs bs
      match dec f bs with
      | Ok k r a =>
        match dec f r with
        | Ok x r1 a1 =>
          match dec_pairs_indef f r1 with
          | Ok l r' a' => Ok ((k, x) :: l) r' (a + a1 + 2 * VALUE_SIZE + a')
          | Err a' => Err (a + a1 + 2 * VALUE_SIZE + a')
          | OutOfFuel => OutOfFuel
          end
        | Err a1 => Err (a + a1)
        | OutOfFuel => OutOfFuel
        end
      | Err a => Err a
      | OutOfFuel => OutOfFuel
      end).
    { pose proof (IHd bs) as Hd. destruct (dec f bs) as [k r a|a|]; try exact I.
      pose proof (IHd r) as Hx. destruct (dec f r) as [x r1 a1|a1|]; try exact I.
      specialize (IHpi r1). destruct (dec_pairs_indef f r1); cbn in *; try exact I; mlia. }
    destruct (pull bs) as [[h r]|] eqn:P; [|exact Hgen].
    destruct h; try exact Hgen. apply pull_shorter in P. cbn. lia.
Qed.

(** the depth of a decoded value is at most the number of bytes it occupies *)
Theorem decode_depth_bounded : forall bs v r a, decode_prefix bs = Ok v r a ->
  (depth v + length r <= length bs)%nat.
Proof.
  intros bs v r a H. unfold decode_prefix in H.
  destruct (depth_spec_holds (fuel_for bs)) as [Hd _]. specialize (Hd bs). rewrite H in Hd. exact Hd.
Qed.

(** a chain of [d] one-element arrays around 0: depth d from d+1 bytes - the bound is tight, there is no limit *)
Fixpoint chain (d : nat) : value := match d with O => VPos 0 | S k => VArray false [chain k] end.
Lemma chain_depth : forall d, depth (chain d) = d.
Proof. induction d; cbn; [reflexivity|]. rewrite IHd. f_equal. apply Nat.max_0_r. Qed.
Lemma chain_wf : forall d, value_wfb (chain d) = true.
Proof.
  induction d; [reflexivity|]. unfold value_wfb in *. apply andb_true_iff in IHd. destruct IHd as [A B].
  cbn. rewrite A, B. reflexivity.
Qed.
Lemma chain_length : forall d, length (encode (chain d)) = S d.
Proof.
  induction d; [reflexivity|].
  change (encode (chain (S d))) with (head 4 (len [chain d]) ++ concat (map encode [chain d])).
  cbn [map concat]. rewrite app_nil_r, app_length, IHd. reflexivity.
Qed.

Theorem no_depth_limit : forall d, exists a,
  decode_top (encode (chain d)) = Ok (chain d) [] a /\ depth (chain d) = d /\ length (encode (chain d)) = S d.
Proof.
  intros d. destruct (decode_encode_top (chain d) (chain_wf d)) as [a E]. exists a.
  split; [exact E|]. split; [apply chain_depth|apply chain_length].
Qed.
