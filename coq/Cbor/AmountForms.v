(** C17 - the CBOR decimal-fraction form of a token amount (tag 4 [exponent, mantissa]): the ranges of
    both components are enforced exactly, and the three forms (CBOR, rust_decimal, string) agree. *)
From Coq Require Import NArith ZArith List Bool Lia.
From CB Require Import Cbor.CborCore Cbor.CborSchema Cbor.TokenSchemas Cbor.TokenAmount Cbor.DecimalConv
  Cbor.DecimalConvProofs Cbor.SchemaProofs Cbor.TokenAmountProofs.
Import ListNotations.
Local Open Scope N_scope.

Arguments N.ltb : simpl never.
Arguments N.pow : simpl never.
Arguments N.sub : simpl never.
Arguments Z.leb : simpl never.
Arguments Z.sub : simpl never.
Arguments Z.opp : simpl never.
Arguments Z.of_N : simpl never.

(** negative exponent -1-k: accepted exactly when k <= 254 (decimals = k+1 is a u8) and the mantissa is a u64 *)
Theorem amount_cbor_neg_exponent : forall o mk k m,
  sdec o s_TokenAmount mk (VTag 4 (VArray false [VNeg k; VPos m])) =
  if (k <? 255) && (m <? 2 ^ 64) then Some (XList [XZ (- 1 - Z.of_N k); XN m]) else None.
Proof.
  intros o mk k m.
  cbn -[N.ltb N.pow Z.leb Z.sub Z.opp Z.of_N Z.add refine_ok N.eqb andb]. change (4 =? 4) with true. cbv iota.
  change (2 ^ (64 - 1)) with 9223372036854775808.
  destruct (N.ltb_spec k 255) as [Hk|Hk].
  - destruct (N.ltb_spec k 9223372036854775808); [|lia].
    destruct (m <? 2 ^ 64); cbn [andb option_map]; [|reflexivity]. cbn [refine_ok].
    assert (E : ((-255 <=? -1 - Z.of_N k) && (-1 - Z.of_N k <=? 0))%Z = true).
    { apply andb_true_iff. split; apply Z.leb_le; lia. }
    rewrite E. reflexivity.
  - cbn [andb]. destruct (N.ltb_spec k 9223372036854775808); cbn [option_map]; [|reflexivity].
    destruct (m <? 2 ^ 64); cbn [option_map]; [|reflexivity]. cbn [refine_ok].
    assert (E : ((-255 <=? -1 - Z.of_N k))%Z = false) by (apply Z.leb_gt; lia).
    rewrite E. reflexivity.
Qed.

(** non-negative exponent: only 0 is accepted *)
Theorem amount_cbor_pos_exponent : forall o mk n m,
  sdec o s_TokenAmount mk (VTag 4 (VArray false [VPos n; VPos m])) =
  if (n =? 0) && (m <? 2 ^ 64) then Some (XList [XZ 0; XN m]) else None.
Proof.
  intros o mk n m.
  cbn -[N.ltb N.pow Z.leb Z.sub Z.opp Z.of_N Z.add refine_ok N.eqb andb]. change (4 =? 4) with true. cbv iota.
  change (2 ^ (64 - 1)) with 9223372036854775808.
  destruct (N.eqb_spec n 0) as [->|Hn].
  - change (0 <? 9223372036854775808) with true. cbn [andb]. destruct (m <? 2 ^ 64); cbn [option_map]; reflexivity.
  - cbn [andb]. destruct (N.ltb_spec n 9223372036854775808); cbn [option_map]; [|reflexivity].
    destruct (m <? 2 ^ 64); cbn [option_map]; [|reflexivity]. cbn [refine_ok].
    assert (E : (Z.of_N n <=? 0)%Z = false) by (apply Z.leb_gt; lia).
    rewrite E, andb_false_r. reflexivity.
Qed.

(** The three forms of one amount [(v, d)], [v] a u64, [d <= 28]: CBOR bytes, rust_decimal, decimal string -
    each converts back to exactly [(v, d)], i.e. [v * 10^-d] is preserved by all of them. *)
Theorem amount_three_forms : forall o v d r, v <= U64MAX -> d <= 28 ->
  let a := {| amt_value := v; amt_decimals := d |} in
  decode_typed s_TokenAmount o (encode (VTag 4 (VArray false [amount_exponent d; VPos v])))
    = Some (XList [XZ (- Z.of_N d); XN v])
  /\ (exists x, try_to_decimal a = Some x /\ d_m x = v /\ d_scale x = d /\ d_neg x = false
                /\ try_from_decimal x d r = COk a)
  /\ from_str_exact (to_string a) d = Some a.
Proof.
  intros o v d r Hv Hd a. split; [|split].
  - apply amount_cbor_roundtrip; unfold U64MAX, W64 in *; lia.
  - destruct (to_decimal_roundtrip v d r Hv Hd) as (E1 & _ & E2).
    eexists. split; [exact E1|]. repeat split. exact E2.
  - apply (display_roundtrip a); [|exact Hd].
    unfold amount_ok, a. cbn. apply andb_true_iff. split; [apply N.leb_le; exact Hv|apply N.ltb_lt; lia].
Qed.
