(** C17 - schema language for the derive-generated CBOR codecs (proof-free, executable).

    Modelled code: rust-src/concordium_base_derive/src/cbor.rs (derive(CborSerialize, CborDeserialize)
    with cbor(key, tag, map, tagged, transparent, other) attributes), the primitive impls in
    common/cbor/primitives.rs (integers incl. the tag 2/3 bignum forms, bool, String, Bytes, [u8; N],
    MapKey), Option / Vec / CborMaybeKnown / CborUpward in common/cbor.rs and common/upward.rs.

    A type is a [schema] term; its values live in the untyped universe [sval].  The decoder of a type
    is [sdec] applied to the generic item produced by [CborCore.dec] (the derive-generated code reads
    the same stream through the same [Decoder]; it observes definite/indefinite lengths only through
    [decode_array_expect_size]/[decode_map_expect_size], which is what the [indef] flag carries).
    [transparent] is the identity and has no constructor. *)
From Coq Require Import NArith ZArith List Bool String Ascii.
From CB Require Import Cbor.CborCore.
Import ListNotations.
Local Open Scope N_scope.

Inductive key : Type := KText (s : string) | KPos (n : N).
Inductive okind : Type := OString | OMapKey.            (* key type of the #[cbor(other)] map *)
Inductive refinement : Type := RCoinInfo | RDecimals.   (* hand-written checks after decoding *)
Inductive unknown_keys : Type := Fail | Ignore.         (* UnknownMapKeys *)

Inductive schema : Type :=
| SUInt (bits : N)                 (* u8 .. u64, usize *)
| SInt (bits : N)                  (* i8 .. i64 *)
| SBool
| SText                            (* String *)
| SBytes                           (* Bytes, Memo *)
| SBytesN (n : N)                  (* [u8; n], AccountAddress, Hash *)
| SValue                           (* value::Value *)
| SOption (s : schema)
| SVec (s : schema)
| STuple (l : list schema)         (* tuple struct: array of exactly that many elements *)
| SStruct (fields : list (key * schema)) (other : option okind)
| STag (t : N) (s : schema)        (* #[cbor(tag = t)] on a struct *)
| SEnumMap (variants : list (string * schema)) (other : bool)
| SEnumTagged (variants : list (N * bool * schema)) (untagged : option schema) (other : bool)
                                   (* (tag, true = cbor(tag) / false = cbor(peek_tag), payload) *)
| SMaybeKnown (s : schema)         (* CborMaybeKnown<T> / CborUpward<T> *)
| SRefine (r : refinement) (s : schema).

Inductive sval : Type :=
| XN (n : N) | XZ (z : Z) | XBool (b : bool) | XText (b : list N) | XBytes (b : list N) | XVal (v : value)
| XNone | XSome (x : sval)
| XList (l : list sval)
| XStruct (fields : list sval) (other : list (value * value))
| XVariant (i : nat) (x : sval)    (* i-th declared (tagged) variant; i = #variants: the untagged one *)
| XOther (k : value) (v : value)   (* the #[cbor(other)] variant *)
| XKnown (x : sval) | XUnknown (v : value).

Definition bytes_of_string (s : string) : list N :=
  map (fun c => N_of_ascii c) (list_ascii_of_string s).

Definition key_value (k : key) : value :=
  match k with KText s => VText (bytes_of_string s) | KPos n => VPos n end.

Fixpoint list_eqb (a b : list N) : bool :=
  match a, b with
  | [], [] => true
  | x :: a', y :: b' => (x =? y) && list_eqb a' b'
  | _, _ => false
  end.

(** a decoded map key against a declared key ([MapKeyRef] patterns) *)
Definition key_matches (k : key) (v : value) : bool :=
  match k, v with
  | KText s, VText b => list_eqb (bytes_of_string s) b
  | KPos n, VPos m => n =? m
  | _, _ => false
  end.

(** [decode_ne_bytes_to_u64]: big-endian bignum restricted to u64 *)
Definition bignum_u64 (b : list N) : option N :=
  let n := List.length b in
  let hi := firstn (n - 8) b in
  let lo := skipn (n - 8) b in
  if forallb (fun x => x =? 0) hi then Some (be_val 0 lo) else None.

Definition dec_unsigned (v : value) : option N :=
  match v with
  | VPos n => Some n
  | VTag 2 (VBytes b) => bignum_u64 b
  | _ => None
  end.

Definition dec_uint (bits : N) (v : value) : option sval :=
  match dec_unsigned v with
  | Some n => if n <? 2 ^ bits then Some (XN n) else None
  | None => None
  end.

Definition dec_int (bits : N) (v : value) : option sval :=
  let lim := 2 ^ (bits - 1) in
  match v with
  | VPos _ | VTag 2 _ =>
    match dec_unsigned v with
    | Some n => if n <? lim then Some (XZ (Z.of_N n)) else None
    | None => None
    end
  | VNeg n => if n <? lim then Some (XZ (- 1 - Z.of_N n)) else None
  | VTag 3 (VBytes b) =>
    match bignum_u64 b with
    | Some n => if n <? lim then Some (XZ (- 1 - Z.of_N n)) else None
    | None => None
    end
  | _ => None
  end.

(** [CborDeserialize::null()]: the value of a field that is absent from the map *)
Definition null_of (s : schema) : option sval :=
  match s with
  | SOption _ => Some XNone
  | SValue => Some (XVal VNull)
  | _ => None
  end.

(** [CborSerialize::is_null]: such fields are omitted from the map *)
Definition is_null (x : sval) : bool :=
  match x with XNone => true | XVal VNull => true | _ => false end.

Fixpoint set_nth {A} (i : nat) (x : A) (l : list A) : list A :=
  match l, i with
  | [], _ => []
  | _ :: r, O => x :: r
  | y :: r, S i' => y :: set_nth i' x r
  end.

Fixpoint value_eqb (a b : value) : bool :=
  match a, b with
  | VPos n, VPos m | VNeg n, VNeg m | VSimple n, VSimple m => n =? m
  | VBytes x, VBytes y | VText x, VText y => list_eqb x y
  | _, _ => false
  end.

(** [HashMap::extend(Some((k, v)))]: an existing key keeps its place, its value is replaced *)
Fixpoint upsert (k x : value) (l : list (value * value)) : list (value * value) :=
  match l with
  | [] => [(k, x)]
  | (k', x') :: r => if value_eqb k k' then (k, x) :: r else (k', x') :: upsert k x r
  end.

Definition refine_ok (r : refinement) (x : sval) : bool :=
  match r, x with
  | RCoinInfo, XStruct [XN n] [] => n =? 919                  (* CONCORDIUM_SLIP_0044_CODE *)
  | RDecimals, XList [XZ e; XN _] => ((-255 <=? e) && (e <=? 0))%Z   (* exponent = -decimals, decimals: u8 *)
  | _, _ => false
  end.

Definition is_mapkey (v : value) : bool :=
  match v with VPos _ | VText _ => true | _ => false end.

Section Dec.
  Variable o : unknown_keys.

  (** [mk] = called through [deserialize_maybe_known]: an undeclared variant is returned as
      [XUnknown] instead of an error (enums only; ignored elsewhere, never passed to children). *)
  Fixpoint sdec (s : schema) (mk : bool) (v : value) {struct s} : option sval :=
    match s with
    | SUInt bits => dec_uint bits v
    | SInt bits => dec_int bits v
    | SBool => match v with VBool b => Some (XBool b) | _ => None end
    | SText => match v with VText b => Some (XText b) | _ => None end
    | SBytes => match v with VBytes b => Some (XBytes b) | _ => None end
    | SBytesN n => match v with VBytes b => if len b =? n then Some (XBytes b) else None | _ => None end
    | SValue => Some (XVal (strip v))
    | SOption s' => match v with VNull => Some XNone | _ => option_map XSome (sdec s' false v) end
    | SVec s' =>
      match v with
      | VArray _ l =>
        option_map XList
          ((fix go (l : list value) : option (list sval) :=
              match l with
              | [] => Some []
              | x :: r => match sdec s' false x, go r with Some y, Some ys => Some (y :: ys) | _, _ => None end
              end) l)
      | _ => None
      end
    | STuple ss =>
      match v with
      | VArray false l =>
        option_map XList
          ((fix go (ss : list schema) (l : list value) : option (list sval) :=
              match ss, l with
              | [], [] => Some []
              | s' :: ss', x :: r => match sdec s' false x, go ss' r with Some y, Some ys => Some (y :: ys) | _, _ => None end
              | _, _ => None
              end) ss l)
      | _ => None
      end
    | SStruct fields other =>
      match v with
      | VMap _ entries =>
        (* loop over the entries: slots of declared fields, the catch-all map *)
        let step (st : option (list (option sval) * list (value * value))) (kx : value * value) :=
          match st with
          | None => None
          | Some (slots, others) =>
            let '(k, x) := kx in
            if negb (is_mapkey k) then None else
            match (fix find (fs : list (key * schema)) (i : nat) : option (nat * option sval) :=
                     match fs with
                     | [] => None
                     | (fk, fs') :: r => if key_matches fk k then Some (i, sdec fs' false x) else find r (S i)
                     end) fields O with
            | Some (i, Some y) => Some (set_nth i (Some y) slots, others)
            | Some (_, None) => None
            | None =>
              match other with
              | Some OString => match k with VText _ => Some (slots, upsert k (strip x) others) | _ => None end
              | Some OMapKey => Some (slots, upsert k (strip x) others)
              | None => match o with Fail => None | Ignore => Some (slots, others) end
              end
            end
          end in
        match fold_left step entries (Some (map (fun _ => None) fields, [])) with
        | None => None
        | Some (slots, others) =>
          option_map (fun xs => XStruct xs others)
            ((fix fin (fs : list (key * schema)) (sl : list (option sval)) : option (list sval) :=
                match fs, sl with
                | [], _ => Some []
                | (_, fs') :: r, Some y :: sl' => option_map (cons y) (fin r sl')
                | (_, fs') :: r, None :: sl' => match null_of fs' with Some y => option_map (cons y) (fin r sl') | None => None end
                | _ :: _, [] => None
                end) fields slots)
        end
      | _ => None
      end
    | STag t s' => match v with VTag t' x => if t' =? t then sdec s' false x else None | _ => None end
    | SEnumMap variants other =>
      match v with
      | VMap false [(VText k, x)] =>
        match (fix find (vs : list (string * schema)) (i : nat) : option (nat * option sval) :=
                 match vs with
                 | [] => None
                 | (name, s') :: r => if list_eqb (bytes_of_string name) k then Some (i, sdec s' false x) else find r (S i)
                 end) variants O with
        | Some (i, Some y) => Some (XVariant i y)
        | Some (_, None) => None
        | None =>
          if other then Some (XOther (VText k) (strip x))
          else if mk then Some (XUnknown (VMap false [(VText k, strip x)])) else None
        end
      | _ => None
      end
    | SEnumTagged variants untagged other =>
      match v with
      | VTag t x =>
        match (fix find (vs : list (N * bool * schema)) (i : nat) : option (nat * option sval) :=
                 match vs with
                 | [] => None
                 | (t', consume, s') :: r =>
                   if t' =? t then Some (i, sdec s' false (if consume then x else v)) else find r (S i)
                 end) variants O with
        | Some (i, Some y) => Some (XVariant i y)
        | Some (_, None) => None
        | None =>
          if other then Some (XOther (VPos t) (strip x))
          else if mk then Some (XUnknown (VTag t (strip x))) else None
        end
      | _ =>
        match untagged with
        | Some s' => option_map (XVariant (List.length variants)) (sdec s' false v)
        | None => None
        end
      end
    | SMaybeKnown s' =>
      match sdec s' true v with
      | Some (XUnknown u) => Some (XUnknown u)
      | Some x => Some (XKnown x)
      | None => None
      end
    | SRefine r s' =>
      match sdec s' false v with
      | Some x => if refine_ok r x then Some x else None
      | None => None
      end
    end.
End Dec.

(** * Encoder: the generic item that the derive-generated [serialize] writes (the map encoder's
    sorting is part of [CborCore.encode]). *)
Fixpoint senc (s : schema) (x : sval) {struct s} : option value :=
  match s, x with
  | SUInt bits, XN n => if n <? 2 ^ bits then Some (VPos n) else None
  | SInt bits, XZ z =>
    if ((- 2 ^ (Z.of_N bits - 1) <=? z) && (z <? 2 ^ (Z.of_N bits - 1)))%Z
    then Some (if (0 <=? z)%Z then VPos (Z.to_N z) else VNeg (Z.to_N (- 1 - z))) else None
  | SBool, XBool b => Some (VBool b)
  | SText, XText b => Some (VText b)
  | SBytes, XBytes b => Some (VBytes b)
  | SBytesN n, XBytes b => if len b =? n then Some (VBytes b) else None
  | SValue, XVal v => Some v
  | SOption _, XNone => Some VNull
  | SOption s', XSome y => senc s' y
  | SVec s', XList l =>
    option_map (VArray false)
      ((fix go (l : list sval) : option (list value) :=
          match l with
          | [] => Some []
          | y :: r => match senc s' y, go r with Some v, Some vs => Some (v :: vs) | _, _ => None end
          end) l)
  | STuple ss, XList l =>
    option_map (VArray false)
      ((fix go (ss : list schema) (l : list sval) : option (list value) :=
          match ss, l with
          | [], [] => Some []
          | s' :: ss', y :: r => match senc s' y, go ss' r with Some v, Some vs => Some (v :: vs) | _, _ => None end
          | _, _ => None
          end) ss l)
  | SStruct fields other, XStruct xs others =>
    match (fix go (fs : list (key * schema)) (xs : list sval) : option (list (value * value)) :=
             match fs, xs with
             | [], [] => Some []
             | (k, s') :: fs', y :: r =>
               match senc s' y, go fs' r with
               | Some v, Some es => Some (if is_null y then es else (key_value k, v) :: es)
               | _, _ => None
               end
             | _, _ => None
             end) fields xs with
    | Some es =>
      match other, others with
      | None, _ :: _ => None
      | _, _ => Some (VMap false (es ++ others))
      end
    | None => None
    end
  | STag t s', _ => option_map (VTag t) (senc s' x)
  | SEnumMap variants _, XVariant i y =>
    (fix pick (vs : list (string * schema)) (i : nat) : option value :=
       match vs, i with
       | (name, s') :: _, O => option_map (fun v => VMap false [(VText (bytes_of_string name), v)]) (senc s' y)
       | _ :: r, S i' => pick r i'
       | [], _ => None
       end) variants i
  | SEnumMap _ true, XOther k v => Some (VMap false [(k, v)])
  | SEnumTagged variants untagged _, XVariant i y =>
    (fix pick (vs : list (N * bool * schema)) (i : nat) : option value :=
       match vs, i with
       | (t, consume, s') :: _, O => option_map (fun v => if consume then VTag t v else v) (senc s' y)
       | _ :: r, S i' => pick r i'
       | [], O => match untagged with Some s' => senc s' y | None => None end
       | [], S _ => None
       end) variants i
  | SEnumTagged _ _ true, XOther (VPos t) v => Some (VTag t v)
  | SMaybeKnown s', XKnown y => senc s' y
  | SMaybeKnown _, XUnknown v => Some v
  | SRefine r s', _ => if refine_ok r x then senc s' x else None
  | _, _ => None
  end.

(** * Typed entry points ([cbor_encode] / [cbor_decode_with_options] at a type) *)
Definition encode_typed (s : schema) (x : sval) : option (list N) := option_map encode (senc s x).

Definition decode_typed (s : schema) (o : unknown_keys) (bs : list N) : option sval :=
  match decode_top bs with
  | Ok v _ _ => sdec o s false v
  | _ => None
  end.
