(** C17 - executable model of the CBOR layer of concordium_base (proof-free).

    Modelled code:
      rust-src/concordium_base/src/common/cbor.rs           (cbor_encode / cbor_decode, cap_capacity)
      rust-src/concordium_base/src/common/cbor/encoder.rs   (Encoder, MapEncoder::end = sort entries bytewise)
      rust-src/concordium_base/src/common/cbor/decoder.rs   (Decoder, segments, pull_break, remaining data)
      rust-src/concordium_base/src/common/cbor/value.rs     (value::Value and its (de)serialiser)
      ciborium-ll 0.2.2 hdr.rs / dec.rs / seg.rs            (Title <-> Header, Segments::pull)   [modelled, diffed]

    Bytes are [N] below 256.  Floats are opaque payloads: [VFloat w bits] is a float whose
    encoding has [w] payload bytes ([w] = 2, 4, 8) with big-endian bit pattern [bits]. *)
From Coq Require Import NArith List Bool.
Import ListNotations.
Local Open Scope N_scope.

(** * The value universe ([value::Value]).
    The [indef] flag of arrays and maps is produced by the decoder only (the data item used
    the indefinite-length form); Rust's [Value] does not have it ([strip] forgets it) but the
    derive-generated decoders observe it ([decode_array_expect_size]/[decode_map_expect_size]). *)
Inductive value : Type :=
| VPos (n : N)
| VNeg (n : N)                      (* the integer -1-n *)
| VBytes (b : list N)
| VText (b : list N)                (* UTF-8 bytes *)
| VArray (indef : bool) (l : list value)
| VMap (indef : bool) (l : list (value * value))
| VTag (t : N) (v : value)
| VBool (b : bool)
| VNull
| VSimple (n : N)
| VFloat (w : N) (bits : N).

Definition len {A} (l : list A) : N := N.of_nat (length l).

(** * Heads *)
Fixpoint be_bytes (k : nat) (n : N) : list N :=
  match k with O => [] | S k' => be_bytes k' (n / 256) ++ [n mod 256] end.

Fixpoint be_val (acc : N) (bs : list N) : N :=
  match bs with [] => acc | b :: r => be_val (acc * 256 + b) r end.

(** [Title::from(Header)] + [Encoder::push]: always the shortest argument width. *)
Definition head (major arg : N) : list N :=
  if arg <? 24 then [major * 32 + arg]
  else if arg <? 256 then [major * 32 + 24; arg]
  else if arg <? 65536 then (major * 32 + 25) :: be_bytes 2 arg
  else if arg <? 4294967296 then (major * 32 + 26) :: be_bytes 4 arg
  else (major * 32 + 27) :: be_bytes 8 arg.

Definition float_head (w bits : N) : list N :=
  (if w =? 2 then 249 else if w =? 4 then 250 else 251) :: be_bytes (N.to_nat w) bits.

(** * Deterministic map order: entries sorted by their encoded bytes, lexicographically
    ([sort_by_key] on byte slices is stable; shorter prefix first). *)
Fixpoint lex_leb (a b : list N) : bool :=
  match a, b with
  | [], _ => true
  | _ :: _, [] => false
  | x :: a', y :: b' => if x <? y then true else if y <? x then false else lex_leb a' b'
  end.

Fixpoint insert_sorted (x : list N) (l : list (list N)) : list (list N) :=
  match l with
  | [] => [x]
  | y :: r => if lex_leb x y then x :: y :: r else y :: insert_sorted x r
  end.
Definition isort (l : list (list N)) : list (list N) := fold_right insert_sorted [] l.

Fixpoint sortedb (l : list (list N)) : bool :=
  match l with
  | [] => true
  | x :: r => match r with [] => true | y :: _ => lex_leb x y && sortedb r end
  end.

(** keyed variant (used by [norm]) *)
Fixpoint insert_sortedk {A} (x : list N * A) (l : list (list N * A)) : list (list N * A) :=
  match l with
  | [] => [x]
  | y :: r => if lex_leb (fst x) (fst y) then x :: y :: r else y :: insert_sortedk x r
  end.
Definition isortk {A} (l : list (list N * A)) : list (list N * A) := fold_right insert_sortedk [] l.

(** * Encoder ([cbor_encode] on [Value]): shortest heads, definite lengths, sorted maps. *)
Fixpoint encode (v : value) : list N :=
  match v with
  | VPos n => head 0 n
  | VNeg n => head 1 n
  | VBytes b => head 2 (len b) ++ b
  | VText b => head 3 (len b) ++ b
  | VArray _ l => head 4 (len l) ++ concat (map encode l)
  | VMap _ l => head 5 (len l) ++ concat (isort (map (fun kv => let '(k, x) := kv in encode k ++ encode x) l))
  | VTag t x => head 6 t ++ encode x
  | VBool b => [if b then 245 else 244]
  | VNull => [246]
  | VSimple n => head 7 n
  | VFloat w bits => float_head w bits
  end.

Definition entry_enc (kv : value * value) : list N := encode (fst kv) ++ encode (snd kv).

(** * UTF-8 well-formedness (Unicode table 3-7; what [core::str::from_utf8] accepts) *)
Definition in_range (lo hi b : N) : bool := (lo <=? b) && (b <=? hi).
Definition cont (b : N) : bool := in_range 128 191 b.

Fixpoint utf8_valid (bs : list N) : bool :=
  match bs with
  | [] => true
  | b0 :: r =>
    if b0 <? 128 then utf8_valid r
    else if in_range 194 223 b0 then
      match r with b1 :: r' => cont b1 && utf8_valid r' | _ => false end
    else if in_range 224 239 b0 then
      match r with
      | b1 :: b2 :: r' =>
        (if b0 =? 224 then in_range 160 191 b1 else if b0 =? 237 then in_range 128 159 b1 else cont b1)
        && cont b2 && utf8_valid r'
      | _ => false
      end
    else if in_range 240 244 b0 then
      match r with
      | b1 :: b2 :: b3 :: r' =>
        (if b0 =? 240 then in_range 144 191 b1 else if b0 =? 244 then in_range 128 143 b1 else cont b1)
        && cont b2 && cont b3 && utf8_valid r'
      | _ => false
      end
    else false
  end.

Definition bytes_ok (bs : list N) : bool := forallb (fun b => b <? 256) bs.

(** * Headers as ciborium-ll reads them ([Decoder::pull]). *)
Inductive hdr : Type :=
| HPos (n : N) | HNeg (n : N)
| HBytes (o : option N) | HText (o : option N)
| HArray (o : option N) | HMap (o : option N)
| HTag (n : N) | HSimple (n : N) | HFloat (w : N) (bits : N) | HBreak.

Fixpoint take_be (k : nat) (acc : N) (bs : list N) : option (N * list N) :=
  match k with
  | O => Some (acc, bs)
  | S k' => match bs with [] => None | b :: r => take_be k' (acc * 256 + b) r end
  end.

(** argument of a head: [Some (Some n)] = value, [Some None] = additional info 31 *)
Definition pull_arg (info : N) (r : list N) : option (option N * list N) :=
  if info <? 24 then Some (Some info, r)
  else if info =? 24 then match take_be 1 0 r with Some (n, r') => Some (Some n, r') | None => None end
  else if info =? 25 then match take_be 2 0 r with Some (n, r') => Some (Some n, r') | None => None end
  else if info =? 26 then match take_be 4 0 r with Some (n, r') => Some (Some n, r') | None => None end
  else if info =? 27 then match take_be 8 0 r with Some (n, r') => Some (Some n, r') | None => None end
  else if info =? 31 then Some (None, r)
  else None.

(** [Header::try_from(Title)]: which (major type, argument) pairs are headers *)
Definition classify (major info : N) (a : option N) : option hdr :=
  match major, a with
  | 0, Some n => Some (HPos n)
  | 1, Some n => Some (HNeg n)
  | 2, _ => Some (HBytes a)
  | 3, _ => Some (HText a)
  | 4, _ => Some (HArray a)
  | 5, _ => Some (HMap a)
  | 6, Some n => Some (HTag n)
  | 7, None => Some HBreak
  | 7, Some n =>
    if info <? 25 then Some (HSimple n)
    else if info =? 25 then Some (HFloat 2 n)
    else if info =? 26 then Some (HFloat 4 n)
    else Some (HFloat 8 n)
  | _, _ => None                     (* integer / tag with additional info 31; byte >= 256 *)
  end.

Definition pull (bs : list N) : option (hdr * list N) :=
  match bs with
  | [] => None
  | b :: r =>
    match pull_arg (b mod 32) r with
    | None => None
    | Some (a, r') =>
      match classify (b / 32) (b mod 32) a with
      | Some h => Some (h, r')
      | None => None
      end
    end
  end.

(** * Results.  [al] is the ghost allocation counter (bytes reserved by [with_capacity],
    cursor extension and [push]), kept on the error path as well. *)
Inductive res (A : Type) : Type :=
| Ok (a : A) (rest : list N) (al : N)
| Err (al : N)
| OutOfFuel.
Arguments Ok {A}. Arguments Err {A}. Arguments OutOfFuel {A}.

Definition rmap {A B} (f : A -> B) (r : res A) : res B :=
  match r with Ok a rest al => Ok (f a) rest al | Err al => Err al | OutOfFuel => OutOfFuel end.
Definition radd {A} (k : N) (r : res A) : res A :=
  match r with Ok a rest al => Ok a rest (k + al) | Err al => Err (k + al) | OutOfFuel => OutOfFuel end.
Definition alloc_of {A} (r : res A) : N :=
  match r with Ok _ _ al => al | Err al => al | OutOfFuel => 0 end.

Definition MAX_PRE : N := 4096.                 (* MAX_PRE_ALLOCATED_SIZE *)
Definition VALUE_SIZE : N := 32.                (* size_of::<Value>() *)
Definition cap_elems : N := MAX_PRE / VALUE_SIZE.   (* cap_capacity::<Value> = 128 *)

Definition take (n : N) (bs : list N) : option (list N * list N) :=
  if n <=? len bs then Some (firstn (N.to_nat n) bs, skipn (N.to_nat n) bs) else None.

(** One definite string segment of declared length [n]: data is read in chunks of at most
    [MAX_PRE] bytes, so a truncated input costs at most what is there plus one chunk. *)
Definition read_seg (txt : bool) (n : N) (r : list N) : res (list N) :=
  match take n r with
  | None => Err (N.min n (len r + MAX_PRE))
  | Some (d, r') => if txt && negb (utf8_valid d) then Err n else Ok d r' n
  end.

(** [Segments::pull] after an indefinite string head.  [nested] counts open indefinite
    string heads: ciborium-ll accepts nested indefinite strings (it only tracks the count);
    each definite segment of a text string must be valid UTF-8 on its own. *)
Fixpoint segs (fuel : nat) (txt : bool) (nested : N) (bs : list N) : res (list N) :=
  match fuel with
  | O => OutOfFuel
  | S f =>
    match pull bs with
    | None => Err 0
    | Some (h, r) =>
      let seg (o : option N) :=
        match o with
        | None => segs f txt (nested + 1) r
        | Some n =>
          match read_seg txt n r with
          | Ok d r' a =>
            match segs f txt nested r' with
            | Ok ds r'' a' => Ok (d ++ ds) r'' (a + a')
            | Err a' => Err (a + a')
            | OutOfFuel => OutOfFuel
            end
          | Err a => Err a
          | OutOfFuel => OutOfFuel
          end
        end in
      match h with
      | HBreak => if nested <=? 1 then Ok [] r 0 else segs f txt (nested - 1) r
      | HBytes o => if txt then Err 0 else seg o
      | HText o => if txt then seg o else Err 0
      | _ => Err 0
      end
    end
  end.

Definition simple_value (n : N) : value :=
  if n =? 20 then VBool false else if n =? 21 then VBool true else if n =? 22 then VNull else VSimple n.

(** * Decoder: [Value::deserialize] on a [Decoder] (indefinite flags kept). *)
Fixpoint dec (fuel : nat) (bs : list N) : res value :=
  match fuel with
  | O => OutOfFuel
  | S f =>
    match pull bs with
    | None => Err 0
    | Some (h, r) =>
      match h with
      | HPos n => Ok (VPos n) r 0
      | HNeg n => Ok (VNeg n) r 0
      | HBytes (Some n) => radd (N.min n MAX_PRE) (rmap VBytes (read_seg false n r))
      | HBytes None => rmap VBytes (segs f false 1 r)
      | HText (Some n) => radd (N.min n MAX_PRE) (rmap VText (read_seg true n r))
      | HText None => rmap VText (segs f true 1 r)
      | HArray (Some n) => radd (VALUE_SIZE * N.min n cap_elems) (rmap (VArray false) (dec_elems f n r))
      | HArray None => rmap (VArray true) (dec_elems_indef f r)
      | HMap (Some n) => radd (2 * VALUE_SIZE * N.min n cap_elems) (rmap (VMap false) (dec_pairs f n r))
      | HMap None => rmap (VMap true) (dec_pairs_indef f r)
      | HTag t => rmap (VTag t) (dec f r)
      | HSimple n => Ok (simple_value n) r 0
      | HFloat w b => Ok (VFloat w b) r 0
      | HBreak => Err 0
      end
    end
  end
with dec_elems (fuel : nat) (n : N) (bs : list N) : res (list value) :=
  if n =? 0 then Ok [] bs 0 else
  match fuel with
  | O => OutOfFuel
  | S f =>
    match dec f bs with
    | Ok v r a =>
      match dec_elems f (n - 1) r with
      | Ok l r' a' => Ok (v :: l) r' (a + VALUE_SIZE + a')
      | Err a' => Err (a + VALUE_SIZE + a')
      | OutOfFuel => OutOfFuel
      end
    | Err a => Err a
    | OutOfFuel => OutOfFuel
    end
  end
with dec_elems_indef (fuel : nat) (bs : list N) : res (list value) :=
  match fuel with
  | O => OutOfFuel
  | S f =>
    match pull bs with
    | Some (HBreak, r) => Ok [] r 0
    | _ =>
      match dec f bs with
      | Ok v r a =>
        match dec_elems_indef f r with
        | Ok l r' a' => Ok (v :: l) r' (a + VALUE_SIZE + a')
        | Err a' => Err (a + VALUE_SIZE + a')
        | OutOfFuel => OutOfFuel
        end
      | Err a => Err a
      | OutOfFuel => OutOfFuel
      end
    end
  end
with dec_pairs (fuel : nat) (n : N) (bs : list N) : res (list (value * value)) :=
  if n =? 0 then Ok [] bs 0 else
  match fuel with
  | O => OutOfFuel
  | S f =>
    match dec f bs with
    | Ok k r a =>
      match dec f r with
      | Ok x r1 a1 =>
        match dec_pairs f (n - 1) r1 with
        | Ok l r' a' => Ok ((k, x) :: l) r' (a + a1 + 2 * VALUE_SIZE + a')
        | Err a' => Err (a + a1 + 2 * VALUE_SIZE + a')
        | OutOfFuel => OutOfFuel
        end
      | Err a1 => Err (a + a1)
      | OutOfFuel => OutOfFuel
      end
    | Err a => Err a
    | OutOfFuel => OutOfFuel
    end
  end
with dec_pairs_indef (fuel : nat) (bs : list N) : res (list (value * value)) :=
  match fuel with
  | O => OutOfFuel
  | S f =>
    match pull bs with
    | Some (HBreak, r) => Ok [] r 0
    | _ =>
      match dec f bs with
      | Ok k r a =>
        match dec f r with
        | Ok x r1 a1 =>
          match dec_pairs_indef f r1 with
          | Ok l r' a' => Ok ((k, x) :: l) r' (a + a1 + 2 * VALUE_SIZE + a')
          | Err a' => Err (a + a1 + 2 * VALUE_SIZE + a')
          | OutOfFuel => OutOfFuel
          end
        | Err a1 => Err (a + a1)
        | OutOfFuel => OutOfFuel
        end
      | Err a => Err a
      | OutOfFuel => OutOfFuel
      end
    end
  end.

(** fuel is a function of the input length only *)
Definition fuel_for (bs : list N) : nat := S (2 * length bs).

(** one data item from the front of [bs] (what a [Decoder] does; [rest] gives the offset) *)
Definition decode_prefix (bs : list N) : res value := dec (fuel_for bs) bs.

(** [cbor_decode]: the whole input must be consumed *)
Definition decode_top (bs : list N) : res value :=
  match decode_prefix bs with
  | Ok v [] a => Ok v [] a
  | Ok _ (_ :: _) a => Err a
  | Err a => Err a
  | OutOfFuel => OutOfFuel
  end.

(** * What Rust's [Value] sees: no indefinite flags *)
Fixpoint strip (v : value) : value :=
  match v with
  | VArray _ l => VArray false (map strip l)
  | VMap _ l => VMap false (map (fun kv => let '(k, x) := kv in (strip k, strip x)) l)
  | VTag t x => VTag t (strip x)
  | _ => v
  end.

(** [decode (encode v)] for arbitrary [v]: maps come back in the deterministic order *)
Fixpoint norm (v : value) : value :=
  match v with
  | VArray _ l => VArray false (map norm l)
  | VMap _ l =>
    VMap false (map snd (isortk (map (fun kv => let '(k, x) := kv in (encode k ++ encode x, (norm k, norm x))) l)))
  | VTag t x => VTag t (norm x)
  | _ => v
  end.

(** * Well-formed values: what a Rust [Value] can be (u64 arguments, valid UTF-8, byte
    ranges, [Simple] distinct from bool/null, float payload width), in deterministic form
    (no indefinite flags, map entries sorted by encoding). *)
Definition W64 : N := 18446744073709551616.

Fixpoint value_okb (v : value) : bool :=
  match v with
  | VPos n | VNeg n => n <? W64
  | VBytes b => bytes_ok b && (len b <? W64)
  | VText b => bytes_ok b && utf8_valid b && (len b <? W64)
  | VArray i l => negb i && (len l <? W64) && forallb value_okb l
  | VMap i l => negb i && (len l <? W64)
                && forallb (fun kv => let '(k, x) := kv in value_okb k && value_okb x) l
  | VTag t x => (t <? W64) && value_okb x
  | VBool _ | VNull => true
  | VSimple n => (n <? 256) && negb (in_range 20 22 n)
  | VFloat w bits => ((w =? 2) || (w =? 4) || (w =? 8)) && (bits <? 2 ^ (8 * w))
  end.

Fixpoint value_sortedb (v : value) : bool :=
  match v with
  | VArray _ l => forallb value_sortedb l
  | VMap _ l => sortedb (map (fun kv => let '(k, x) := kv in encode k ++ encode x) l)
                && forallb (fun kv => let '(k, x) := kv in value_sortedb k && value_sortedb x) l
  | VTag _ x => value_sortedb x
  | _ => true
  end.

Definition value_wfb (v : value) : bool := value_okb v && value_sortedb v.

Fixpoint depth (v : value) : nat :=
  match v with
  | VArray _ l => S (fold_right (fun x d => Nat.max (depth x) d) O l)
  | VMap _ l => S (fold_right (fun kv d => let '(k, x) := kv in Nat.max (Nat.max (depth k) (depth x)) d) O l)
  | VTag _ x => S (depth x)
  | _ => O
  end.

(** results for the correspondence check: 0 = rejected, 1 = accepted (value, consumed bytes) *)
Definition run_prefix (bs : list N) : option (value * N * N) :=
  match decode_prefix bs with
  | Ok v r a => Some (v, len bs - len r, a)
  | _ => None
  end.
Definition run_top (bs : list N) : option (value * N) :=
  match decode_top bs with
  | Ok v _ a => Some (strip v, a)
  | _ => None
  end.
