(** C17 - the universal round-trip theorem of the schema language: for every well-formed schema and every
    well-typed value, the decoder applied to (the normal form of) what the encoder writes returns the value. *)
From Coq Require Import NArith ZArith PeanoNat List Bool String Lia.
From CB Require Import Cbor.CborCore Cbor.CborProofs Cbor.CborNorm Cbor.CborSchema Cbor.SchemaProofs Cbor.SchemaTyping.
Import ListNotations.
Local Open Scope N_scope.

Arguments N.pow : simpl never.
Arguments N.ltb : simpl never.
Arguments N.leb : simpl never.
Arguments N.eqb : simpl never.
Arguments Z.leb : simpl never.
Arguments Z.ltb : simpl never.
Arguments Z.of_N : simpl never.
Arguments Z.to_N : simpl never.

Ltac bsplit :=
  repeat match goal with
  | H : _ && _ = true |- _ => apply andb_true_iff in H; destruct H
  | H : negb _ = true |- _ => apply negb_true_iff in H
  end.

(** * Induction on schemas *)
Definition optP (P : schema -> Prop) (o : option schema) : Prop :=
  match o with Some u => P u | None => True end.

Section SchemaInd.
  Variable P : schema -> Prop.
  Hypothesis HUInt : forall b, P (SUInt b).
  Hypothesis HInt : forall b, P (SInt b).
  Hypothesis HBool : P SBool.
  Hypothesis HText : P SText.
  Hypothesis HBytes : P SBytes.
  Hypothesis HBytesN : forall n, P (SBytesN n).
  Hypothesis HValue : P SValue.
  Hypothesis HOption : forall s, P s -> P (SOption s).
  Hypothesis HVec : forall s, P s -> P (SVec s).
  Hypothesis HTuple : forall ss, Forall P ss -> P (STuple ss).
  Hypothesis HStruct : forall fields other, Forall (fun f => P (snd f)) fields -> P (SStruct fields other).
  Hypothesis HTag : forall t s, P s -> P (STag t s).
  Hypothesis HEnumMap : forall vs other, Forall (fun v => P (snd v)) vs -> P (SEnumMap vs other).
  Hypothesis HEnumTagged : forall vs untagged other, Forall (fun v => P (snd v)) vs ->
    optP P untagged -> P (SEnumTagged vs untagged other).
  Hypothesis HMaybe : forall s, P s -> P (SMaybeKnown s).
  Hypothesis HRefine : forall r s, P s -> P (SRefine r s).

  Fixpoint schema_ind' (s : schema) : P s :=
    match s with
    | SUInt b => HUInt b | SInt b => HInt b | SBool => HBool | SText => HText | SBytes => HBytes
    | SBytesN n => HBytesN n | SValue => HValue
    | SOption s' => HOption s' (schema_ind' s')
    | SVec s' => HVec s' (schema_ind' s')
    | STuple ss =>
      HTuple ss ((fix go (l : list schema) : Forall P l :=
                    match l return Forall P l with [] => Forall_nil _ | x :: r => Forall_cons _ (schema_ind' x) (go r) end) ss)
    | SStruct fields other =>
      HStruct fields other
        ((fix go (l : list (key * schema)) : Forall (fun f => P (snd f)) l :=
            match l return Forall (fun f => P (snd f)) l with
            | [] => Forall_nil _
            | (k, x) :: r => Forall_cons (k, x) (schema_ind' x) (go r)
            end) fields)
    | STag t s' => HTag t s' (schema_ind' s')
    | SEnumMap vs other =>
      HEnumMap vs other
        ((fix go (l : list (string * schema)) : Forall (fun v => P (snd v)) l :=
            match l return Forall (fun v => P (snd v)) l with
            | [] => Forall_nil _
            | (k, x) :: r => Forall_cons (k, x) (schema_ind' x) (go r)
            end) vs)
    | SEnumTagged vs untagged other =>
      HEnumTagged vs untagged other
        ((fix go (l : list (N * bool * schema)) : Forall (fun v => P (snd v)) l :=
            match l return Forall (fun v => P (snd v)) l with
            | [] => Forall_nil _
            | (k, x) :: r => Forall_cons (k, x) (schema_ind' x) (go r)
            end) vs)
        (match untagged as o return optP P o with
         | Some u0 => schema_ind' u0
         | None => I
         end)
    | SMaybeKnown s' => HMaybe s' (schema_ind' s')
    | SRefine r s' => HRefine r s' (schema_ind' s')
    end.
End SchemaInd.

(** * Helpers about values *)
Lemma strip_okb : forall v, value_okb v = true -> strip v = v.
Proof.
  induction v using value_ind'; intros Hok; try reflexivity.
  - cbn [value_okb] in Hok. bsplit. destruct i; [discriminate|]. cbn [strip]. f_equal.
    rewrite <- (map_id l) at 2. apply map_ext_Forall.
    rewrite forallb_Forall in H1. rewrite Forall_forall in *. intros x Hx. apply (H x Hx). apply (H1 x Hx).
  - cbn [value_okb] in Hok. bsplit. destruct i; [discriminate|]. cbn [strip]. f_equal.
    rewrite <- (map_id l) at 2. apply map_ext_Forall.
    rewrite forallb_Forall in H1. rewrite Forall_forall in *. intros [k x] Hx.
    specialize (H _ Hx). specialize (H1 _ Hx). cbn [fst snd] in *. bsplit. destruct H as [Hk Hv].
    rewrite Hk, Hv by assumption. reflexivity.
  - cbn [value_okb] in Hok. bsplit. cbn [strip]. rewrite IHv by assumption. reflexivity.
Qed.

Lemma wf_norm_strip : forall v, value_wfb v = true -> norm v = v /\ strip v = v /\ value_okb v = true.
Proof.
  intros v H. destruct (wfb_split v H) as [A B]. split; [apply norm_sorted_id; assumption|]. split; [apply strip_okb|]; assumption.
Qed.

Definition is_plainv (v : value) : bool :=
  match v with VPos _ | VNeg _ | VBool _ | VText _ | VBytes _ | VArray _ _ | VMap _ _ => true | _ => false end.

Lemma is_plainv_norm : forall v, is_plainv (norm v) = is_plainv v.
Proof. destruct v; reflexivity. Qed.

Lemma norm_null : forall v, norm v = VNull -> v = VNull.
Proof. destruct v; cbn [norm]; intros H; try discriminate; reflexivity. Qed.

Lemma norm_single : forall i k x, norm (VMap i [(k, x)]) = VMap false [(norm k, norm x)].
Proof. reflexivity. Qed.

Lemma text_ok_okb : forall b, text_ok b = true -> value_okb (VText b) = true.
Proof. intros b H. exact H. Qed.

Lemma list_eqb_refl : forall l, list_eqb l l = true.
Proof. induction l; [reflexivity|]. cbn [list_eqb]. rewrite N.eqb_refl, IHl. reflexivity. Qed.

Lemma key_matches_refl : forall k, key_matches k (key_value k) = true.
Proof. destruct k; cbn [key_matches key_value]; [apply list_eqb_refl|apply N.eqb_refl]. Qed.

(** * The statement proved for every schema *)
Definition is_tagv (v : value) : bool := match v with VTag _ _ => true | _ => false end.

(** what the encoding of a value of schema [s] looks like at the top *)
Definition out_kind (s : schema) (v : value) : Prop :=
  match s with
  | STag t _ | SRefine _ (STag t _) => exists w, v = VTag t w
  | SEnumTagged _ None _ => is_tagv v = true
  | SEnumTagged _ (Some u) _ => plain_out u = true -> is_tagv v || is_plainv v = true
  | _ => plain_out s = true -> is_plainv v = true
  end.

Definition RTS (s : schema) : Prop :=
  schema_wfb s = true -> forall x, typedb s x = true ->
  exists v, senc s x = Some v /\ value_okb v = true /\ out_kind s v /\ forall o mk, sdec o s mk (norm v) = Some x.

Lemma pow_le_64 : forall bits, bits <= 64 -> 2 ^ bits <= W64.
Proof. intros. change W64 with (2 ^ 64). apply N.pow_le_mono_r; lia. Qed.

Lemma rt_uint : forall bits, RTS (SUInt bits).
Proof.
  intros bits Hwf x Hty. cbn [schema_wfb] in Hwf. bsplit. apply N.leb_le in H, H0.
  destruct x; try discriminate. cbn [typedb] in Hty.
  exists (VPos n). cbn [senc]. rewrite Hty. split; [reflexivity|]. apply N.ltb_lt in Hty.
  pose proof (pow_le_64 bits H0). split; [|split; [intro; reflexivity|]].
  - cbn [value_okb]. apply N.ltb_lt. lia.
  - intros o mk. cbn [norm sdec]. unfold dec_uint, dec_unsigned.
    destruct (N.ltb_spec n (2 ^ bits)); [reflexivity|lia].
Qed.

Lemma rt_int : forall bits, RTS (SInt bits).
Proof.
  intros bits Hwf x Hty. cbn [schema_wfb] in Hwf. bsplit. apply N.leb_le in H, H0.
  destruct x; try discriminate. cbn [typedb] in Hty. bsplit. apply Z.leb_le in H1. apply Z.ltb_lt in H2.
  set (P := 2 ^ (bits - 1)) in *.
  assert (HP : P <= 2 ^ 63) by (unfold P; apply N.pow_le_mono_r; lia).
  assert (HP' : 2 ^ 63 < W64) by (change (2 ^ 63) with 9223372036854775808; unfold W64; lia).
  assert (EZ : (2 ^ (Z.of_N bits - 1))%Z = Z.of_N P).
  { unfold P. rewrite N2Z.inj_pow. f_equal. lia. }
  cbn [senc]. rewrite EZ.
  assert (R : ((- Z.of_N P <=? z) && (z <? Z.of_N P))%Z = true).
  { apply andb_true_iff. split; [apply Z.leb_le|apply Z.ltb_lt]; assumption. }
  rewrite R.
  destruct (Z.leb_spec 0 z) as [Hz|Hz].
  - exists (VPos (Z.to_N z)). split; [reflexivity|]. split; [|split; [intro; reflexivity|]].
    + cbn [value_okb]. apply N.ltb_lt. lia.
    + intros o mk. cbn [norm sdec]. unfold dec_int, dec_unsigned. fold P.
      destruct (N.ltb_spec (Z.to_N z) P); [|lia]. rewrite Z2N.id by lia. reflexivity.
  - exists (VNeg (Z.to_N (-1 - z))). split; [reflexivity|]. split; [|split; [intro; reflexivity|]].
    + cbn [value_okb]. apply N.ltb_lt. lia.
    + intros o mk. cbn [norm sdec]. unfold dec_int. fold P.
      destruct (N.ltb_spec (Z.to_N (-1 - z)) P); [|lia]. rewrite Z2N.id by lia. f_equal. f_equal. lia.
Qed.

Lemma rt_bool : RTS SBool.
Proof.
  intros _ x Hty. destruct x; try discriminate. exists (VBool b). split; [reflexivity|]. split; [reflexivity|].
  split; [intro; reflexivity|]. intros; reflexivity.
Qed.

Lemma rt_text : RTS SText.
Proof.
  intros _ x Hty. destruct x; try discriminate. cbn [typedb] in Hty. exists (VText b). split; [reflexivity|].
  split; [exact Hty|]. split; [intro; reflexivity|]. intros; reflexivity.
Qed.

Lemma rt_bytes : RTS SBytes.
Proof.
  intros _ x Hty. destruct x; try discriminate. cbn [typedb] in Hty. exists (VBytes b). split; [reflexivity|].
  split; [exact Hty|]. split; [intro; reflexivity|]. intros; reflexivity.
Qed.

Lemma rt_bytesn : forall n, RTS (SBytesN n).
Proof.
  intros n Hwf x Hty. cbn [schema_wfb] in Hwf. apply N.ltb_lt in Hwf.
  destruct x; try discriminate. cbn [typedb] in Hty. bsplit.
  exists (VBytes b). cbn [senc]. rewrite H0. split; [reflexivity|]. apply N.eqb_eq in H0.
  split; [|split; [intro; reflexivity|]].
  - cbn [value_okb]. rewrite H. apply N.ltb_lt. lia.
  - intros o mk. cbn [norm sdec]. destruct (N.eqb_spec (len b) n); [reflexivity|contradiction].
Qed.

Lemma rt_value : RTS SValue.
Proof.
  intros _ x Hty. destruct x; try discriminate. cbn [typedb] in Hty.
  destruct (wf_norm_strip v Hty) as (A & B & C). exists v. split; [reflexivity|]. split; [exact C|].
  split; [intro; discriminate|]. intros o mk. cbn [sdec]. rewrite A, B. reflexivity.
Qed.

(** * Option, tag, refinement *)
Lemma not_null_of_kind : forall s v, option_ok s = true -> out_kind s v -> v <> VNull.
Proof.
  intros s v Hok Hk E. subst v. unfold option_ok in Hok.
  destruct s; cbn [out_kind plain_out tag_out orb] in *;
    try (specialize (Hk eq_refl); discriminate); try discriminate;
    try (destruct Hk; discriminate).
  - (* SEnumTagged *) destruct untagged as [u|]; [|discriminate]. specialize (Hk Hok). discriminate.
  - (* SRefine *) destruct s; try discriminate. destruct Hk; discriminate.
Qed.

Lemma rt_option : forall s, RTS s -> RTS (SOption s).
Proof.
  intros s IH Hwf x Hty. cbn [schema_wfb] in Hwf. bsplit.
  destruct x; try discriminate.
  - exists VNull. split; [reflexivity|]. split; [reflexivity|]. split; [intro; discriminate|]. intros; reflexivity.
  - cbn [typedb] in Hty. destruct (IH H0 x Hty) as (v & E & Ok & Kd & D).
    exists v. split; [exact E|]. split; [exact Ok|]. split; [intro; discriminate|].
    intros o mk. pose proof (not_null_of_kind s v H Kd) as NN.
    assert (NN' : norm v <> VNull) by (intro F; apply NN; apply norm_null; exact F).
    specialize (D o false). cbn [sdec]. destruct (norm v); try (rewrite D; reflexivity). contradiction.
Qed.

Lemma rt_tag : forall t s, RTS s -> RTS (STag t s).
Proof.
  intros t s IH Hwf x Hty. cbn [schema_wfb] in Hwf. bsplit. cbn [typedb] in Hty.
  destruct (IH H0 x Hty) as (v & E & Ok & Kd & D).
  exists (VTag t v). split; [cbn [senc]; rewrite E; reflexivity|]. split; [cbn [value_okb]; rewrite H, Ok; reflexivity|].
  split; [exists v; reflexivity|]. intros o mk. cbn [norm sdec]. rewrite N.eqb_refl. apply D.
Qed.

Lemma senc_refine : forall r s x, senc (SRefine r s) x = if refine_ok r x then senc s x else None.
Proof. intros. destruct x; reflexivity. Qed.

Lemma rt_refine : forall r s, RTS s -> RTS (SRefine r s).
Proof.
  intros r s IH Hwf x Hty. cbn [schema_wfb] in Hwf. bsplit. cbn [typedb] in Hty. bsplit.
  destruct (IH H0 x H2) as (v & E & Ok & Kd & D).
  exists v. split; [rewrite senc_refine, H1; exact E|]. split; [exact Ok|]. split.
  - destruct s; try (intro; discriminate). exact Kd.
  - intros o mk. cbn [sdec]. rewrite (D o false), H1. reflexivity.
Qed.

(** * Sequences *)
Definition enc_list (s' : schema) : list sval -> option (list value) :=
  fix go (l : list sval) : option (list value) :=
    match l with
    | [] => Some []
    | y :: r => match senc s' y, go r with Some v, Some vs => Some (v :: vs) | _, _ => None end
    end.

Definition dec_list (o : unknown_keys) (s' : schema) : list value -> option (list sval) :=
  fix go (l : list value) : option (list sval) :=
    match l with
    | [] => Some []
    | x :: r => match sdec o s' false x, go r with Some y, Some ys => Some (y :: ys) | _, _ => None end
    end.

Definition typed_list (s' : schema) : list sval -> bool :=
  fix go (l : list sval) : bool := match l with [] => true | y :: r => typedb s' y && go r end.

Lemma senc_vec : forall s' l, senc (SVec s') (XList l) = option_map (VArray false) (enc_list s' l).
Proof. reflexivity. Qed.
Lemma sdec_vec : forall o s' mk i l, sdec o (SVec s') mk (VArray i l) = option_map XList (dec_list o s' l).
Proof. reflexivity. Qed.
Lemma typedb_vec : forall s' l, typedb (SVec s') (XList l) = (len l <? W64) && typed_list s' l.
Proof. reflexivity. Qed.

Lemma rt_vec : forall s, RTS s -> RTS (SVec s).
Proof.
  intros s IH Hwf x Hty. cbn [schema_wfb] in Hwf. destruct x; try discriminate.
  rewrite typedb_vec in Hty. bsplit.
  assert (A : exists vs, enc_list s l = Some vs /\ List.length vs = List.length l /\ forallb value_okb vs = true /\
                         forall o, dec_list o s (map norm vs) = Some l).
  { clear H. induction l as [|y l IHl]; [exists []; repeat split; reflexivity|].
    cbn [typed_list] in H0. bsplit. destruct (IH Hwf y H) as (v & E & Ok & _ & D).
    destruct (IHl H0) as (vs & Es & Ls & Oks & Ds).
    exists (v :: vs). cbn [enc_list]. fold (enc_list s). rewrite E, Es. split; [reflexivity|].
    split; [cbn [List.length]; lia|]. split; [cbn [forallb]; rewrite Ok, Oks; reflexivity|].
    intros o. cbn [map dec_list]. fold (dec_list o s). rewrite (D o false), (Ds o). reflexivity. }
  destruct A as (vs & Es & Ls & Oks & Ds).
  exists (VArray false vs). split; [rewrite senc_vec, Es; reflexivity|]. split.
  - cbn [value_okb negb andb]. unfold len in *. rewrite Ls, H, Oks. reflexivity.
  - split; [intro; reflexivity|]. intros o mk. rewrite norm_array, sdec_vec, Ds. reflexivity.
Qed.

Definition enc_tuple : list schema -> list sval -> option (list value) :=
  fix go (ss : list schema) (l : list sval) : option (list value) :=
    match ss, l with
    | [], [] => Some []
    | s' :: ss', y :: r => match senc s' y, go ss' r with Some v, Some vs => Some (v :: vs) | _, _ => None end
    | _, _ => None
    end.

Definition dec_tuple (o : unknown_keys) : list schema -> list value -> option (list sval) :=
  fix go (ss : list schema) (l : list value) : option (list sval) :=
    match ss, l with
    | [], [] => Some []
    | s' :: ss', x :: r => match sdec o s' false x, go ss' r with Some y, Some ys => Some (y :: ys) | _, _ => None end
    | _, _ => None
    end.

Definition typed_tuple : list schema -> list sval -> bool :=
  fix go (ss : list schema) (l : list sval) : bool :=
    match ss, l with
    | [], [] => true
    | s' :: ss', y :: r => typedb s' y && go ss' r
    | _, _ => false
    end.

Lemma senc_tuple : forall ss l, senc (STuple ss) (XList l) = option_map (VArray false) (enc_tuple ss l).
Proof. reflexivity. Qed.
Lemma sdec_tuple : forall o ss mk l, sdec o (STuple ss) mk (VArray false l) = option_map XList (dec_tuple o ss l).
Proof. reflexivity. Qed.
Lemma typedb_tuple : forall ss l, typedb (STuple ss) (XList l) = (len l <? W64) && typed_tuple ss l.
Proof. reflexivity. Qed.

Lemma rt_tuple : forall ss, Forall RTS ss -> RTS (STuple ss).
Proof.
  intros ss IH Hwf x Hty. cbn [schema_wfb] in Hwf. destruct x; try discriminate.
  rewrite typedb_tuple in Hty. bsplit.
  assert (A : exists vs, enc_tuple ss l = Some vs /\ List.length vs = List.length l /\ forallb value_okb vs = true /\
                         forall o, dec_tuple o ss (map norm vs) = Some l).
  { clear H. revert l H0. induction IH as [|s ss Hs Hss IHss]; intros l Ht.
    - destruct l; [|discriminate]. exists []. repeat split; reflexivity.
    - destruct l as [|y l]; [discriminate|]. cbn [typed_tuple] in Ht. fold typed_tuple in Ht. bsplit.
      cbn [forallb] in Hwf. bsplit.
      destruct (Hs H1 y H) as (v & E & Ok & _ & D).
      destruct (IHss H2 l H0) as (vs & Es & Ls & Oks & Ds).
      exists (v :: vs). cbn [enc_tuple]. fold enc_tuple. rewrite E, Es. split; [reflexivity|].
      split; [cbn [List.length]; lia|]. split; [cbn [forallb]; rewrite Ok, Oks; reflexivity|].
      intros o. cbn [map dec_tuple]. fold (dec_tuple o). rewrite (D o false), (Ds o). reflexivity. }
  destruct A as (vs & Es & Ls & Oks & Ds).
  exists (VArray false vs). split; [rewrite senc_tuple, Es; reflexivity|]. split.
  - cbn [value_okb negb andb]. unfold len in *. rewrite Ls, H, Oks. reflexivity.
  - split; [intro; reflexivity|]. intros o mk. rewrite norm_array, sdec_tuple, Ds. reflexivity.
Qed.

(** * Enums *)
Lemma okb_single_map : forall k x, value_okb k = true -> value_okb x = true -> value_okb (VMap false [(k, x)]) = true.
Proof. intros k x Hk Hx. cbn [value_okb forallb negb andb]. rewrite Hk, Hx. reflexivity. Qed.

Lemma existsb_false_In : forall {A} (f : A -> bool) l x, existsb f l = false -> In x l -> f x = false.
Proof.
  intros A f l x H Hin. destruct (f x) eqn:E; [|reflexivity].
  assert (existsb f l = true) by (apply existsb_exists; exists x; auto). congruence.
Qed.

Definition pick_map (y : sval) : list (string * schema) -> nat -> option value :=
  fix pick (vs : list (string * schema)) (i : nat) : option value :=
    match vs, i with
    | (name, s') :: _, O => option_map (fun v => VMap false [(VText (bytes_of_string name), v)]) (senc s' y)
    | _ :: r, S i' => pick r i'
    | [], _ => None
    end.

Definition typed_pick_map (y : sval) : list (string * schema) -> nat -> bool :=
  fix pick (vs : list (string * schema)) (i : nat) : bool :=
    match vs, i with
    | (_, s') :: _, O => typedb s' y
    | _ :: r, S i' => pick r i'
    | [], _ => false
    end.

Lemma senc_enum_map : forall vs other i y, senc (SEnumMap vs other) (XVariant i y) = pick_map y vs i.
Proof. intros. destruct other; reflexivity. Qed.
Lemma typedb_enum_map : forall vs other i y, typedb (SEnumMap vs other) (XVariant i y) = typed_pick_map y vs i.
Proof. reflexivity. Qed.

Lemma typed_pick_map_nth : forall y vs i, typed_pick_map y vs i = true ->
  exists name s', nth_error vs i = Some (name, s') /\ typedb s' y = true.
Proof.
  induction vs as [|[nm s0] vs IH]; intros i H; [destruct i; discriminate|].
  destruct i; cbn [typed_pick_map] in H.
  - exists nm, s0. auto.
  - apply IH in H. exact H.
Qed.

Lemma pick_map_nth : forall y vs i name s', nth_error vs i = Some (name, s') ->
  pick_map y vs i = option_map (fun v => VMap false [(VText (bytes_of_string name), v)]) (senc s' y).
Proof.
  induction vs as [|[nm s0] vs IH]; intros i name s' H; [destruct i; discriminate|].
  destruct i; cbn [nth_error] in H.
  - inversion H; subst. reflexivity.
  - apply IH in H. exact H.
Qed.

Lemma find_variant_nth : forall o x vs i n name s',
  distinctb list_eqb (map (fun v : string * schema => bytes_of_string (fst v)) vs) = true ->
  nth_error vs i = Some (name, s') ->
  find_variant o (bytes_of_string name) x vs n = Some ((n + i)%nat, sdec o s' false x).
Proof.
  induction vs as [|[nm s0] vs IH]; intros i n name s' Hd H; [destruct i; discriminate|].
  cbn [map distinctb fst] in Hd. bsplit. destruct i; cbn [nth_error] in H.
  - inversion H; subst. cbn [find_variant]. rewrite list_eqb_refl, Nat.add_0_r. reflexivity.
  - cbn [find_variant].
    assert (E : list_eqb (bytes_of_string nm) (bytes_of_string name) = false).
    { apply (existsb_false_In _ _ _ H0). apply nth_error_In in H.
      apply (in_map (fun v : string * schema => bytes_of_string (fst v))) in H. exact H. }
    rewrite E. rewrite (IH i (S n) name s' H1 H). f_equal. f_equal. lia.
Qed.

Lemma forallb_nth : forall {A} (f : A -> bool) l i x, forallb f l = true -> nth_error l i = Some x -> f x = true.
Proof. intros A f l i x H Hn. rewrite forallb_forall in H. apply H. eapply nth_error_In; eassumption. Qed.

Lemma Forall_nth : forall {A} (P : A -> Prop) l i x, Forall P l -> nth_error l i = Some x -> P x.
Proof. intros A P l i x H Hn. rewrite Forall_forall in H. apply H. eapply nth_error_In; eassumption. Qed.

Lemma names_not_in : forall (vs : list (string * schema)) k,
  existsb (fun nm => list_eqb nm k) (map (fun v => bytes_of_string (fst v)) vs) = false ->
  forall name s, In (name, s) vs -> list_eqb (bytes_of_string name) k = false.
Proof.
  intros vs k H name s Hin.
  apply (existsb_false_In (fun nm => list_eqb nm k) _ (bytes_of_string name) H).
  apply (in_map (fun v : string * schema => bytes_of_string (fst v))) in Hin. exact Hin.
Qed.

Lemma rt_enum_map : forall vs other, Forall (fun v => RTS (snd v)) vs -> RTS (SEnumMap vs other).
Proof.
  intros vs other IH Hwf x Hty. cbn [schema_wfb] in Hwf. bsplit.
  destruct x; try discriminate.
  - (* declared variant *)
    rewrite typedb_enum_map in Hty. apply typed_pick_map_nth in Hty. destruct Hty as (name & s' & Hn & Hty).
    pose proof (forallb_nth _ _ _ _ H Hn) as W. cbn in W. bsplit.
    pose proof (Forall_nth _ _ _ _ IH Hn) as R. cbn [snd] in R.
    destruct (R H2 x Hty) as (v & E & Ok & _ & D).
    exists (VMap false [(VText (bytes_of_string name), v)]).
    split; [rewrite senc_enum_map, (pick_map_nth _ _ _ _ _ Hn), E; reflexivity|].
    split; [apply okb_single_map; [apply text_ok_okb; assumption|assumption]|].
    split; [intro; reflexivity|].
    intros o mk. rewrite norm_single. cbn [norm]. rewrite sdec_enum_map.
    rewrite (find_variant_nth o (norm v) vs i 0 name s' H0 Hn), (D o false). reflexivity.
  - (* cbor(other) variant *)
    cbn [typedb] in Hty. destruct k; try discriminate. bsplit. destruct other; [|discriminate].
    unfold unknown_text_ok in H2. bsplit.
    destruct (wf_norm_strip v H4) as (A & B & C).
    exists (VMap false [(VText b, v)]). split; [reflexivity|].
    split; [apply okb_single_map; [apply text_ok_okb; assumption|assumption]|].
    split; [intro; reflexivity|].
    intros o mk. rewrite norm_single. cbn [norm]. rewrite A, sdec_enum_map.
    rewrite (find_variant_none o b v vs 0 (names_not_in vs b H3)), B. reflexivity.
Qed.

Definition pick_tagged (untagged : option schema) (y : sval) : list (N * bool * schema) -> nat -> option value :=
  fix pick (vs : list (N * bool * schema)) (i : nat) : option value :=
    match vs, i with
    | (t, consume, s') :: _, O => option_map (fun v => if consume then VTag t v else v) (senc s' y)
    | _ :: r, S i' => pick r i'
    | [], O => match untagged with Some s' => senc s' y | None => None end
    | [], S _ => None
    end.

Definition typed_pick_tagged (untagged : option schema) (y : sval) : list (N * bool * schema) -> nat -> bool :=
  fix pick (vs : list (N * bool * schema)) (i : nat) : bool :=
    match vs, i with
    | (_, _, s') :: _, O => typedb s' y
    | _ :: r, S i' => pick r i'
    | [], O => match untagged with Some u => typedb u y | None => false end
    | [], S _ => false
    end.

Lemma senc_enum_tagged : forall vs u other i y, senc (SEnumTagged vs u other) (XVariant i y) = pick_tagged u y vs i.
Proof. intros. destruct other; reflexivity. Qed.
Lemma typedb_enum_tagged : forall vs u other i y, typedb (SEnumTagged vs u other) (XVariant i y) = typed_pick_tagged u y vs i.
Proof. reflexivity. Qed.

Lemma typed_pick_tagged_cases : forall u y vs i, typed_pick_tagged u y vs i = true ->
  (exists t c s', nth_error vs i = Some (t, c, s') /\ typedb s' y = true) \/
  (i = List.length vs /\ exists u', u = Some u' /\ typedb u' y = true).
Proof.
  induction vs as [|[[t c] s0] vs IH]; intros i H.
  - destruct i; cbn [typed_pick_tagged] in H; [|discriminate]. right. split; [reflexivity|].
    destruct u as [u'|]; [|discriminate]. exists u'. auto.
  - destruct i; cbn [typed_pick_tagged] in H.
    + left. exists t, c, s0. auto.
    + apply IH in H. destruct H as [(t' & c' & s' & Hn & Ht)|(Hi & u' & Eu & Ht)].
      * left. exists t', c', s'. auto.
      * right. split; [cbn [List.length]; lia|]. exists u'. auto.
Qed.

Lemma pick_tagged_nth : forall u y vs i t c s', nth_error vs i = Some (t, c, s') ->
  pick_tagged u y vs i = option_map (fun v => if c then VTag t v else v) (senc s' y).
Proof.
  induction vs as [|[[t0 c0] s0] vs IH]; intros i t c s' H; [destruct i; discriminate|].
  destruct i; cbn [nth_error] in H.
  - inversion H; subst. reflexivity.
  - apply IH in H. exact H.
Qed.

Lemma pick_tagged_end : forall u y vs, pick_tagged u y vs (List.length vs) = match u with Some s' => senc s' y | None => None end.
Proof. induction vs as [|[[t0 c0] s0] vs IH]; [reflexivity|]. exact IH. Qed.

Lemma find_tagged_nth : forall o x v vs i n t c s',
  distinctb N.eqb (map (fun v : N * bool * schema => fst (fst v)) vs) = true ->
  nth_error vs i = Some (t, c, s') ->
  find_tagged o t x v vs n = Some ((n + i)%nat, sdec o s' false (if c then x else v)).
Proof.
  induction vs as [|[[t0 c0] s0] vs IH]; intros i n t c s' Hd H; [destruct i; discriminate|].
  cbn [map distinctb fst] in Hd. bsplit. destruct i; cbn [nth_error] in H.
  - inversion H; subst. cbn [find_tagged]. rewrite N.eqb_refl, Nat.add_0_r. reflexivity.
  - cbn [find_tagged].
    assert (E : (t0 =? t) = false).
    { apply (existsb_false_In _ _ _ H0). apply nth_error_In in H.
      apply (in_map (fun v : N * bool * schema => fst (fst v))) in H. exact H. }
    rewrite E. rewrite (IH i (S n) t c s' H1 H). f_equal. f_equal. lia.
Qed.

Lemma sdec_enum_tagged_untagged : forall o vs u other mk v, is_tagv v = false ->
  sdec o (SEnumTagged vs u other) mk v =
  match u with Some s' => option_map (XVariant (List.length vs)) (sdec o s' false v) | None => None end.
Proof. intros. destruct v; try reflexivity. discriminate. Qed.

Lemma tags_not_in : forall (vs : list (N * bool * schema)) t,
  existsb (fun t' => t' =? t) (map (fun v => fst (fst v)) vs) = false ->
  forall t' c s, In (t', c, s) vs -> (t' =? t) = false.
Proof.
  intros vs t H t' c s Hin.
  apply (existsb_false_In (fun t' => t' =? t) _ t' H).
  apply (in_map (fun v : N * bool * schema => fst (fst v))) in Hin. exact Hin.
Qed.

Lemma plain_kind : forall s v, plain_out s = true -> out_kind s v -> is_plainv v = true.
Proof. intros s v Hp Hk. destruct s; try discriminate; exact (Hk eq_refl). Qed.

Lemma rt_enum_tagged : forall vs u other, Forall (fun v => RTS (snd v)) vs -> optP RTS u -> RTS (SEnumTagged vs u other).
Proof.
  intros vs u other IH IHu Hwf x Hty. cbn [schema_wfb] in Hwf. bsplit.
  assert (KindOK : forall v, is_tagv v = true -> out_kind (SEnumTagged vs u other) v).
  { intros v Hv. cbn [out_kind]. destruct u as [u'|]; [intros _; rewrite Hv; reflexivity|exact Hv]. }
  destruct x; try discriminate.
  - rewrite typedb_enum_tagged in Hty. apply typed_pick_tagged_cases in Hty.
    destruct Hty as [(t & c & s' & Hn & Hty)|(Hi & u' & Eu & Hty)].
    + (* tagged variant *)
      pose proof (forallb_nth _ _ _ _ H Hn) as W. cbn in W. bsplit.
      pose proof (Forall_nth _ _ _ _ IH Hn) as R. cbn [snd] in R.
      destruct (R H3 x Hty) as (v & E & Ok & Kd & D).
      destruct c.
      * exists (VTag t v).
        split; [rewrite senc_enum_tagged, (pick_tagged_nth _ _ _ _ _ _ _ Hn), E; reflexivity|].
        split; [cbn [value_okb]; rewrite H2, Ok; reflexivity|].
        split; [apply KindOK; reflexivity|].
        intros o mk. cbn [norm]. rewrite sdec_enum_tagged.
        rewrite (find_tagged_nth o (norm v) (VTag t (norm v)) vs i 0 t true s' H1 Hn), (D o false). reflexivity.
      * (* peek_tag: the payload writes the tag itself *)
        cbn [orb] in H4. destruct s'; try discriminate. apply N.eqb_eq in H4. subst t0.
        cbn [out_kind] in Kd. destruct Kd as [w ->].
        exists (VTag t w).
        split; [rewrite senc_enum_tagged, (pick_tagged_nth _ _ _ _ _ _ _ Hn), E; reflexivity|].
        split; [exact Ok|]. split; [apply KindOK; reflexivity|].
        intros o mk. specialize (D o false). cbn [norm] in *. rewrite sdec_enum_tagged.
        rewrite (find_tagged_nth o (norm w) (VTag t (norm w)) vs i 0 t false (STag t s') H1 Hn), D. reflexivity.
    + (* untagged variant *)
      subst u i. bsplit. cbn [optP] in IHu.
      destruct (IHu H2 x Hty) as (v & E & Ok & Kd & D).
      pose proof (plain_kind _ _ H0 Kd) as Pl.
      exists v. split; [rewrite senc_enum_tagged, pick_tagged_end; exact E|]. split; [exact Ok|].
      split; [cbn [out_kind]; intros _; rewrite Pl; apply orb_true_r|].
      intros o mk. rewrite sdec_enum_tagged_untagged.
      * rewrite (D o false). reflexivity.
      * pose proof (is_plainv_norm v) as Pn. rewrite Pl in Pn. destruct (norm v); try reflexivity; discriminate.
  - (* cbor(other) variant *)
    cbn [typedb] in Hty. destruct k; try discriminate. bsplit. destruct other; [|discriminate].
    unfold unknown_tag_ok in H3. bsplit.
    destruct (wf_norm_strip v H5) as (A & B & C).
    exists (VTag n v). split; [reflexivity|]. split; [cbn [value_okb]; rewrite H3, C; reflexivity|].
    split; [apply KindOK; reflexivity|].
    intros o mk. cbn [norm]. rewrite A, sdec_enum_tagged.
    rewrite (find_tagged_none o n v (VTag n v) vs 0 (tags_not_in vs n H4)), B. reflexivity.
Qed.

(** * CborMaybeKnown / CborUpward *)
Lemma sdec_maybe : forall o s mk v,
  sdec o (SMaybeKnown s) mk v =
  match sdec o s true v with Some (XUnknown u) => Some (XUnknown u) | Some y => Some (XKnown y) | None => None end.
Proof. reflexivity. Qed.

Lemma rt_maybe : forall s, RTS s -> RTS (SMaybeKnown s).
Proof.
  intros s IH Hwf x Hty. cbn [schema_wfb] in Hwf. bsplit.
  destruct x; try discriminate.
  - (* known *)
    cbn [typedb] in Hty. destruct (IH H0 x Hty) as (v & E & Ok & _ & D).
    exists v. split; [exact E|]. split; [exact Ok|]. split; [intro; discriminate|].
    intros o mk. rewrite sdec_maybe, (D o true).
    destruct s; try discriminate; destruct x; try discriminate; reflexivity.
  - (* unknown *)
    cbn [typedb] in Hty. destruct s; try discriminate.
    + destruct other; [discriminate|]. destruct v; try discriminate. destruct indef; [discriminate|].
      destruct l as [|[k w] l']; try discriminate. destruct k; try discriminate. destruct l'; try discriminate.
      unfold unknown_text_ok in Hty. bsplit.
      match goal with Hw : value_wfb w = true |- _ => destruct (wf_norm_strip w Hw) as (A & B & C) end.
      exists (VMap false [(VText b, w)]). split; [reflexivity|].
      split; [apply okb_single_map; [apply text_ok_okb; assumption|assumption]|].
      split; [intro; discriminate|].
      intros o mk. rewrite norm_single. cbn [norm]. rewrite A, sdec_maybe, sdec_enum_map.
      rewrite (find_variant_none o b w variants 0 (names_not_in variants b ltac:(assumption))), B. reflexivity.
    + destruct other; [discriminate|]. destruct v; try discriminate.
      unfold unknown_tag_ok in Hty. bsplit.
      match goal with Hw : value_wfb v = true |- _ => destruct (wf_norm_strip v Hw) as (A & B & C) end.
      match goal with Ht : (t <? W64) = true |- _ => exists (VTag t v); split; [reflexivity|]; split; [cbn [value_okb]; rewrite Ht, C; reflexivity|] end.
      split; [intro; discriminate|].
      intros o mk. cbn [norm]. rewrite A, sdec_maybe, sdec_enum_tagged.
      rewrite (find_tagged_none o t v (VTag t v) variants 0 (tags_not_in variants t ltac:(assumption))), B. reflexivity.
Qed.

(** * Sorting: a stable insertion sort commutes with filtering, membership is preserved *)
Lemma lex_leb_trans : forall a b c, lex_leb a b = true -> lex_leb b c = true -> lex_leb a c = true.
Proof.
  induction a as [|x a IH]; intros [|y b] [|z c] H1 H2; cbn [lex_leb] in *; try reflexivity; try discriminate.
  destruct (N.ltb_spec x y).
  - destruct (N.ltb_spec y z).
    + destruct (N.ltb_spec x z); [reflexivity|lia].
    + destruct (N.ltb_spec z y); [discriminate|]. assert (y = z) by lia. subst.
      destruct (N.ltb_spec x z); [reflexivity|lia].
  - destruct (N.ltb_spec y x); [discriminate|]. assert (x = y) by lia. subst.
    destruct (N.ltb_spec y z); [reflexivity|].
    destruct (N.ltb_spec z y); [discriminate|]. eapply IH; eassumption.
Qed.

Section Sorting.
  Context {A : Type}.
  Implicit Types (l : list (list N * A)) (x : list N * A).

  Definition le_all x l : Prop := Forall (fun y => lex_leb (fst x) (fst y) = true) l.

  Lemma sorted_cons_inv : forall x l, sortedb (map fst (x :: l)) = true -> sortedb (map fst l) = true /\ le_all x l.
  Proof.
    intros x l. revert x. induction l as [|y r IH]; intros x H; [split; [reflexivity|constructor]|].
    cbn [map sortedb] in H. apply andb_true_iff in H. destruct H as [Hxy Hr].
    split; [exact Hr|]. destruct (IH y Hr) as [_ Hy]. constructor; [exact Hxy|].
    eapply Forall_impl; [|exact Hy]. intros z Hz. cbn in Hz. eapply lex_leb_trans; eassumption.
  Qed.

  Lemma insert_le_all : forall x l, le_all x l -> insert_sortedk x l = x :: l.
  Proof. intros x [|y r] H; [reflexivity|]. inversion H; subst. cbn [insert_sortedk]. rewrite H2. reflexivity. Qed.

  Variable p : list N * A -> bool.

  Lemma filter_insert : forall x l, sortedb (map fst l) = true ->
    filter p (insert_sortedk x l) = if p x then insert_sortedk x (filter p l) else filter p l.
  Proof.
    intros x l. induction l as [|y r IH]; intros Hs.
    - cbn [insert_sortedk filter]. destruct (p x); reflexivity.
    - destruct (sorted_cons_inv y r Hs) as [Hr Hy]. cbn [insert_sortedk].
      destruct (lex_leb (fst x) (fst y)) eqn:E.
      + (* x goes first *)
        cbn [filter]. destruct (p x) eqn:Px; [|reflexivity].
        assert (Hx : le_all x (filter p (y :: r))).
        { unfold le_all. rewrite Forall_forall. intros z Hz. apply filter_In in Hz. destruct Hz as [Hz _].
          destruct Hz as [<-|Hz]; [exact E|].
          unfold le_all in Hy. rewrite Forall_forall in Hy. eapply lex_leb_trans; [exact E|]. apply Hy. exact Hz. }
        cbn [filter] in Hx. rewrite (insert_le_all x _ Hx). reflexivity.
      + cbn [filter]. rewrite (IH Hr). destruct (p y) eqn:Py; destruct (p x) eqn:Px; try reflexivity.
        cbn [insert_sortedk]. rewrite E. reflexivity.
  Qed.

  Lemma isortk_sortedb : forall l, sortedb (map fst (isortk l)) = true.
  Proof. intros l. rewrite map_fst_isortk. apply isort_sortedb. Qed.

  Lemma filter_isortk : forall l, filter p (isortk l) = isortk (filter p l).
  Proof.
    induction l as [|x l IH]; [reflexivity|]. cbn [isortk fold_right]. fold (isortk l).
    rewrite filter_insert by apply isortk_sortedb. rewrite IH. cbn [filter].
    destruct (p x); reflexivity.
  Qed.

  Lemma In_insert : forall x y l, In y (insert_sortedk x l) <-> y = x \/ In y l.
  Proof.
    intros x y l. induction l as [|z r IH]; cbn [insert_sortedk].
    - cbn. intuition.
    - destruct (lex_leb (fst x) (fst z)); cbn [In]; [intuition|]. rewrite IH. intuition.
  Qed.

  Lemma In_isortk : forall y l, In y (isortk l) <-> In y l.
  Proof.
    intros y l. induction l as [|x l IH]; [reflexivity|]. cbn [isortk fold_right]. fold (isortk l).
    rewrite In_insert, IH. cbn [In]. intuition.
  Qed.
End Sorting.

(** * The field-assignment loop of the struct decoder *)
Lemma nth_set_nth_same : forall {A} (l : list A) i y, (i < List.length l)%nat -> nth_error (set_nth i y l) i = Some y.
Proof.
  induction l as [|a l IH]; intros i y H; [cbn in H; lia|].
  destruct i; cbn [set_nth nth_error]; [reflexivity|]. apply IH. cbn [List.length] in H. lia.
Qed.

Lemma set_nth_length : forall {A} (l : list A) i y, List.length (set_nth i y l) = List.length l.
Proof. induction l as [|a l IH]; intros [|i] y; cbn [set_nth List.length]; try reflexivity. rewrite IH. reflexivity. Qed.

Section Fold.
  Variable o : unknown_keys.
  Variable fields : list (key * schema).
  Variable other : option okind.

  Definition other_accepts (k : value) : Prop :=
    match other with
    | Some OString => exists b, k = VText b
    | Some OMapKey => True
    | None => False
    end.

  Definition entry_ok (e : value * value) : Prop :=
    is_mapkey (fst e) = true /\
    match find_field o (fst e) (snd e) fields 0 with
    | Some (_, Some _) => True
    | Some (_, None) => False
    | None => other_accepts (fst e)
    end.

  Definition is_unk (e : value * value) : bool :=
    match find_field o (fst e) (snd e) fields 0 with None => true | Some _ => false end.

  Definition hit (i : nat) (e : value * value) : option sval :=
    match find_field o (fst e) (snd e) fields 0 with
    | Some (j, Some y) => if Nat.eqb j i then Some y else None
    | _ => None
    end.

  Definition last_hit_from (i : nat) (P : list (value * value)) (acc : option sval) : option sval :=
    fold_left (fun acc e => match hit i e with Some y => Some y | None => acc end) P acc.

  Lemma last_hit_cons : forall i e P acc,
    last_hit_from i (e :: P) acc = last_hit_from i P (match hit i e with Some y => Some y | None => acc end).
  Proof. reflexivity. Qed.

  Lemma last_hit_acc : forall i P y,
    last_hit_from i P (Some y) = match last_hit_from i P None with Some y' => Some y' | None => Some y end.
  Proof.
    intros i P. induction P as [|e P IH]; intros y; [reflexivity|].
    rewrite !last_hit_cons. destruct (hit i e) as [y'|].
    - rewrite (IH y'). destruct (last_hit_from i P None); reflexivity.
    - apply IH.
  Qed.

  Definition ups (acc : list (value * value)) (e : value * value) := upsert (fst e) (strip (snd e)) acc.

  Lemma find_field_bound : forall k x fs n j r, find_field o k x fs n = Some (j, r) -> (n <= j < n + List.length fs)%nat.
  Proof.
    intros k x. induction fs as [|[fk fs'] fs IH]; intros n j r H; cbn [find_field] in H; [discriminate|].
    destruct (key_matches fk k).
    - inversion H; subst. cbn [List.length]. lia.
    - apply IH in H. cbn [List.length]. lia.
  Qed.

  Lemma fold_struct : forall P slots oth,
    List.length slots = List.length fields -> Forall entry_ok P ->
    exists slots', fold_left (struct_step o fields other) P (Some (slots, oth))
                   = Some (slots', fold_left ups (filter is_unk P) oth)
      /\ List.length slots' = List.length fields
      /\ forall i, nth_error slots' i =
                   match last_hit_from i P None with Some y => Some (Some y) | None => nth_error slots i end.
  Proof.
    induction P as [|[k x] P IH]; intros slots oth Hl HP.
    - exists slots. cbn. auto.
    - inversion HP as [|? ? He HP']; subst. destruct He as [Hmk Hf]. cbn [fst snd] in Hmk, Hf.
      cbn [fold_left filter]. unfold struct_step at 2. unfold is_unk at 1. cbn [fst snd]. rewrite Hmk. cbn [negb].
      destruct (find_field o k x fields 0) as [[j [y|]]|] eqn:F; [| contradiction |].
      + (* a declared field *)
        pose proof (find_field_bound _ _ _ _ _ _ F) as Hj.
        destruct (IH (set_nth j (Some y) slots) oth ltac:(rewrite set_nth_length; exact Hl) HP') as (slots' & E & L & Pt).
        exists slots'. split; [exact E|]. split; [exact L|].
        intros i. rewrite (Pt i), last_hit_cons. unfold hit at 1. cbn [fst snd]. rewrite F.
        destruct (Nat.eqb_spec j i) as [->|Hne].
        * rewrite last_hit_acc. destruct (last_hit_from i P None); [reflexivity|].
          apply nth_set_nth_same. lia.
        * destruct (last_hit_from i P None); [reflexivity|]. apply nth_set_nth_other. exact Hne.
      + (* an undeclared key *)
        assert (Step : (match other with
                        | Some OString => match k with VText _ => Some (slots, upsert k (strip x) oth) | _ => None end
                        | Some OMapKey => Some (slots, upsert k (strip x) oth)
                        | None => match o with Fail => None | Ignore => Some (slots, oth) end
                        end) = Some (slots, upsert k (strip x) oth)).
        { unfold other_accepts in Hf. destruct other as [[|]|]; [destruct Hf as [b ->]; reflexivity|reflexivity|contradiction]. }
        rewrite Step.
        destruct (IH slots (upsert k (strip x) oth) Hl HP') as (slots' & E & L & Pt).
        exists slots'. split; [exact E|]. split; [exact L|].
        intros i. rewrite (Pt i), last_hit_cons. unfold hit at 1. cbn [fst snd]. rewrite F. reflexivity.
  Qed.

  (** entries hitting slot [i] all carry the same value, and there is one: that value ends up in the slot *)
  Lemma last_hit_some : forall i P y,
    (forall e y', In e P -> hit i e = Some y' -> y' = y) -> (exists e, In e P /\ hit i e = Some y) ->
    last_hit_from i P None = Some y.
  Proof.
    intros i P y. induction P as [|e P IH]; intros Hall [e0 [Hin Hh]]; [destruct Hin|].
    rewrite last_hit_cons.
    destruct (hit i e) as [y'|] eqn:He.
    - assert (y' = y) by (eapply Hall; [left; reflexivity|exact He]). subst y'.
      rewrite last_hit_acc.
      destruct (last_hit_from i P None) as [y2|] eqn:L; [|reflexivity].
      (* a later hit carries y as well *)
      assert (G : forall Q acc z, last_hit_from i Q acc = Some z -> acc = Some z \/ exists e, In e Q /\ hit i e = Some z).
      { induction Q as [|q Q IHQ]; intros acc z Hq; [left; exact Hq|].
        rewrite last_hit_cons in Hq.
        apply IHQ in Hq. destruct Hq as [Hq|[e' [He' Hh']]].
        - destruct (hit i q) eqn:Hq'; [right; exists q; split; [left; reflexivity|congruence]|left; exact Hq].
        - right. exists e'. split; [right; exact He'|exact Hh']. }
      apply G in L. destruct L as [L|[e' [He' Hh']]]; [discriminate|].
      f_equal. eapply Hall; [right; exact He'|exact Hh'].
    - destruct Hin as [<-|Hin]; [congruence|].
      apply IH; [intros; eapply Hall; [right; eassumption|eassumption]|exists e0; auto].
  Qed.

  Lemma last_hit_none : forall i P, (forall e, In e P -> hit i e = None) -> last_hit_from i P None = None.
  Proof.
    intros i P. induction P as [|e P IH]; intros H; [reflexivity|].
    rewrite last_hit_cons, (H e (or_introl eq_refl)). apply IH.
    intros; apply H; right; assumption.
  Qed.
End Fold.

(** the catch-all map: fresh keys are appended *)
Lemma upsert_fresh : forall k x l, (forall e, In e l -> value_eqb k (fst e) = false) -> upsert k x l = l ++ [(k, x)].
Proof.
  induction l as [|[k' x'] l IH]; intros H; [reflexivity|].
  cbn [upsert]. pose proof (H (k', x') (or_introl eq_refl)) as E. cbn [fst] in E. rewrite E. cbn [app]. f_equal. apply IH. intros; apply H; right; assumption.
Qed.

Lemma distinctb_app_mid : forall {A} (eqb : A -> A -> bool) l1 x l2,
  distinctb eqb (l1 ++ x :: l2) = true -> forall a, In a l1 -> eqb a x = false.
Proof.
  induction l1 as [|y l1 IH]; intros x l2 H a Ha; [destruct Ha|].
  cbn [app distinctb] in H. apply andb_true_iff in H. destruct H as [Hy Hr]. apply negb_true_iff in Hy.
  destruct Ha as [<-|Ha].
  - apply (existsb_false_In _ _ _ Hy). apply in_or_app. right. left. reflexivity.
  - eapply IH; eassumption.
Qed.

Lemma fold_ups_fresh : forall others acc,
  distinctb (fun a b => value_eqb b a) (map fst (acc ++ others)) = true ->
  (forall e, In e others -> strip (snd e) = snd e) ->
  fold_left ups others acc = acc ++ others.
Proof.
  induction others as [|[k x] others IH]; intros acc Hd Hs; [rewrite app_nil_r; reflexivity|].
  cbn [fold_left]. unfold ups at 2. cbn [fst snd]. pose proof (Hs (k, x) (or_introl eq_refl)) as Es. cbn [snd] in Es. rewrite Es.
  rewrite upsert_fresh.
  - rewrite IH; [rewrite <- app_assoc; reflexivity| |intros; apply Hs; right; assumption].
    rewrite <- app_assoc. exact Hd.
  - intros e He. rewrite map_app in Hd. cbn [map fst] in Hd.
    apply (distinctb_app_mid _ _ _ _ Hd (fst e)). apply in_map. exact He.
Qed.

(** * Structs *)
Definition enc_fields : list (key * schema) -> list sval -> option (list (value * value)) :=
  fix go (fs : list (key * schema)) (xs : list sval) : option (list (value * value)) :=
    match fs, xs with
    | [], [] => Some []
    | (k, s') :: fs', y :: r =>
      match senc s' y, go fs' r with
      | Some v, Some es => Some (if is_null y then es else (key_value k, v) :: es)
      | _, _ => None
      end
    | _, _ => None
    end.

Definition typed_fields : list (key * schema) -> list sval -> bool :=
  fix go (fs : list (key * schema)) (xs : list sval) : bool :=
    match fs, xs with
    | [], [] => true
    | (_, s') :: fs', y :: r => typedb s' y && go fs' r
    | _, _ => false
    end.

Lemma senc_struct : forall fields other xs others,
  senc (SStruct fields other) (XStruct xs others) =
  match enc_fields fields xs with
  | Some es => match other, others with None, _ :: _ => None | _, _ => Some (VMap false (es ++ others)) end
  | None => None
  end.
Proof. reflexivity. Qed.

Lemma typedb_struct : forall fields other xs others,
  typedb (SStruct fields other) (XStruct xs others) =
  (len xs + len others <? W64) && typed_fields fields xs && others_okb fields other others.
Proof. reflexivity. Qed.

Lemma null_typed : forall s x, schema_wfb s = true -> typedb s x = true -> is_null x = true -> null_of s = Some x.
Proof.
  induction s; intros x Hwf Hty Hn; destruct x; try discriminate Hn; try discriminate Hty; try reflexivity.
  - (* SValue, XVal *) destruct v; try discriminate Hn. reflexivity.
  - (* STag, XVal *) cbn [schema_wfb] in Hwf. bsplit. cbn [typedb] in Hty.
    pose proof (IHs _ H0 Hty Hn) as E. destruct s; discriminate.
  - cbn [schema_wfb] in Hwf. bsplit. cbn [typedb] in Hty.
    pose proof (IHs _ H0 Hty Hn) as E. destruct s; discriminate.
  - (* SRefine *) cbn [schema_wfb] in Hwf. bsplit. cbn [typedb] in Hty. bsplit.
    pose proof (IHs _ H0 H2 Hn) as E. destruct s; discriminate.
  - cbn [schema_wfb] in Hwf. bsplit. cbn [typedb] in Hty. bsplit.
    pose proof (IHs _ H0 H2 Hn) as E. destruct s; discriminate.
Qed.

(** one row per declared field: key, schema, value, what the encoder writes for the value *)
Definition row : Type := key * schema * sval * value.
Definition rk (r : row) : key := fst (fst (fst r)).
Definition rs (r : row) : schema := snd (fst (fst r)).
Definition rx (r : row) : sval := snd (fst r).
Definition rv (r : row) : value := snd r.
Definition rf (r : row) : key * schema := (rk r, rs r).

Definition row_ok (r : row) : Prop :=
  key_ok (rk r) = true /\ senc (rs r) (rx r) = Some (rv r) /\ value_okb (rv r) = true /\
  (forall o mk, sdec o (rs r) mk (norm (rv r)) = Some (rx r)) /\
  (is_null (rx r) = true -> null_of (rs r) = Some (rx r)).

Definition present (norm_it : bool) (rows : list row) : list (value * value) :=
  flat_map (fun r => if is_null (rx r) then [] else [(key_value (rk r), if norm_it then norm (rv r) else rv r)]) rows.

Lemma rows_exist : forall fields, Forall (fun f => RTS (snd f)) fields ->
  forallb (fun f : key * schema => let '(k, s') := f in key_ok k && schema_wfb s') fields = true ->
  forall xs, typed_fields fields xs = true ->
  exists rows, map rf rows = fields /\ map rx rows = xs /\ Forall row_ok rows /\
               enc_fields fields xs = Some (present false rows).
Proof.
  induction 1 as [|[k s] fields Hs Hfs IH]; intros Hwf xs Hty.
  - destruct xs; [|discriminate]. exists []. repeat split; constructor.
  - destruct xs as [|x xs]; [discriminate|]. cbn [typed_fields] in Hty. fold typed_fields in Hty. bsplit.
    cbn [forallb] in Hwf. bsplit. cbn [snd] in Hs.
    destruct (Hs H3 x H) as (v & E & Ok & _ & D).
    destruct (IH H2 xs H0) as (rows & Ef & Ex & Hr & Ee).
    exists ((k, s, x, v) :: rows).
    split; [cbn [map]; rewrite Ef; reflexivity|]. split; [cbn [map]; rewrite Ex; reflexivity|]. split.
    + constructor; [|exact Hr]. unfold row_ok, rk, rs, rx, rv. cbn [fst snd].
      split; [exact H1|]. split; [exact E|]. split; [exact Ok|]. split; [exact D|].
      apply null_typed; assumption.
    + cbn [enc_fields]. fold enc_fields. rewrite E, Ee. cbn [present flat_map]. unfold rx, rk, rv. cbn [fst snd].
      destruct (is_null x); reflexivity.
Qed.

Lemma find_field_at : forall o w fs i n k s,
  distinctb (fun a b => key_matches a (key_value b)) (map fst fs) = true ->
  nth_error fs i = Some (k, s) ->
  find_field o (key_value k) w fs n = Some ((n + i)%nat, sdec o s false w).
Proof.
  induction fs as [|[k0 s0] fs IH]; intros i n k s Hd H; [destruct i; discriminate|].
  cbn [map distinctb fst] in Hd. bsplit. destruct i; cbn [nth_error] in H.
  - inversion H; subst. cbn [find_field]. rewrite key_matches_refl, Nat.add_0_r. reflexivity.
  - cbn [find_field].
    assert (E : key_matches k0 (key_value k) = false).
    { apply (existsb_false_In _ _ _ H0). apply nth_error_In in H. apply (in_map fst) in H. exact H. }
    rewrite E. rewrite (IH i (S n) k s H1 H). f_equal. f_equal. lia.
Qed.

Lemma fin_spec : forall rows fields slots,
  map rf rows = fields -> Forall row_ok rows ->
  (forall i r, nth_error rows i = Some r -> nth_error slots i = Some (if is_null (rx r) then None else Some (rx r))) ->
  struct_fin fields slots = Some (map rx rows).
Proof.
  induction rows as [|r rows IH]; intros fields slots Ef Hr Hs.
  - subst fields. reflexivity.
  - subst fields. inversion Hr as [|? ? Hr0 Hr']; subst. cbn [map]. unfold rf at 1.
    pose proof (Hs O r eq_refl) as H0. destruct slots as [|sl slots]; [discriminate|]. cbn [nth_error] in H0.
    inversion H0; subst sl. cbn [struct_fin].
    rewrite (IH (map rf rows) slots eq_refl Hr' (fun i r' H => Hs (S i) r' H)).
    destruct Hr0 as (_ & _ & _ & _ & Hnull).
    destruct (is_null (rx r)) eqn:En; [rewrite (Hnull eq_refl)|]; reflexivity.
Qed.

Definition gk (kv : value * value) : list N * (value * value) :=
  let '(k, x) := kv in (encode k ++ encode x, (norm k, norm x)).

Lemma keyed_gk : forall l, keyed l = map gk l.
Proof. reflexivity. Qed.

Lemma norm_key_value : forall k, norm (key_value k) = key_value k.
Proof. destruct k; reflexivity. Qed.

Lemma In_present : forall b rows e,
  In e (present b rows) <->
  exists r, In r rows /\ is_null (rx r) = false /\ e = (key_value (rk r), if b then norm (rv r) else rv r).
Proof.
  intros b rows e. unfold present. rewrite in_flat_map. split.
  - intros [r [Hr He]]. exists r. destruct (is_null (rx r)); [destruct He|].
    destruct He as [<-|[]]. auto.
  - intros [r [Hr [Hn ->]]]. exists r. split; [exact Hr|]. rewrite Hn. left. reflexivity.
Qed.

Lemma present_length : forall b rows, (List.length (present b rows) <= List.length rows)%nat.
Proof.
  induction rows as [|r rows IH]; [cbn; lia|]. cbn [present flat_map List.length]. rewrite app_length.
  fold (present b rows). destruct (is_null (rx r)); cbn [List.length]; lia.
Qed.

Lemma present_norm : forall rows, map (fun e => snd (gk e)) (present false rows) = present true rows.
Proof.
  induction rows as [|r rows IH]; [reflexivity|]. cbn [present flat_map]. rewrite map_app.
  fold (present false rows). fold (present true rows). rewrite IH. f_equal.
  destruct (is_null (rx r)); [reflexivity|]. cbn [map gk snd]. rewrite norm_key_value. reflexivity.
Qed.

Lemma filter_map_comm : forall {A B} (f : A -> B) (p : B -> bool) l, filter p (map f l) = map f (filter (fun a => p (f a)) l).
Proof. induction l as [|a l IH]; [reflexivity|]. cbn [map filter]. destruct (p (f a)); cbn [map]; rewrite IH; reflexivity. Qed.

Lemma filter_all_false : forall {A} (p : A -> bool) l, (forall a, In a l -> p a = false) -> filter p l = [].
Proof. induction l as [|a l IH]; intros H; [reflexivity|]. cbn [filter]. rewrite (H a (or_introl eq_refl)). apply IH. intros; apply H; right; assumption. Qed.

Lemma filter_all_true : forall {A} (p : A -> bool) l, (forall a, In a l -> p a = true) -> filter p l = l.
Proof. induction l as [|a l IH]; intros H; [reflexivity|]. cbn [filter]. rewrite (H a (or_introl eq_refl)). f_equal. apply IH. intros; apply H; right; assumption. Qed.

Definition other_entry_ok (fields : list (key * schema)) (other : option okind) (e : value * value) : Prop :=
  (exists kind, other = Some kind /\ other_key_ok kind (fst e) = true) /\ value_wfb (snd e) = true /\
  (forall fk fs', In (fk, fs') fields -> key_matches fk (fst e) = false).

Lemma others_facts : forall fields other others, others_okb fields other others = true ->
  Forall (other_entry_ok fields other) others /\
  distinctb (fun a b => value_eqb b a) (map fst others) = true /\
  sortedb (map enc_entry others) = true.
Proof.
  intros fields other others H. unfold others_okb in H. destruct other as [kind|].
  - bsplit. split; [|split; assumption].
    rewrite forallb_Forall in H. eapply Forall_impl; [|exact H]. intros [k v] Hkv. cbn in Hkv. bsplit.
    unfold other_entry_ok. cbn [fst snd]. split; [exists kind; auto|]. split; [assumption|].
    intros fk fs' Hin.
    match goal with Hf : forallb _ fields = true |- _ => rewrite forallb_forall in Hf; specialize (Hf _ Hin); cbn [fst] in Hf;
      apply negb_true_iff in Hf; exact Hf end.
  - destruct others; [|discriminate]. repeat split; constructor.
Qed.

Lemma other_entry_norm : forall fields other e, other_entry_ok fields other e -> snd (gk e) = e /\ strip (snd e) = snd e.
Proof.
  intros fields other [k v] ([kind [_ Hk]] & Hv & _). cbn [fst snd] in *.
  destruct (wf_norm_strip v Hv) as (A & B & _). cbn [gk snd]. rewrite A. split; [|exact B].
  destruct k; try discriminate Hk; reflexivity.
Qed.

Section StructFacts.
  Variable o : unknown_keys.
  Variable fields : list (key * schema).
  Variable other : option okind.
  Hypothesis Hdist : distinctb (fun a b => key_matches a (key_value b)) (map fst fields) = true.

  Lemma find_present : forall i k s w, nth_error fields i = Some (k, s) ->
    find_field o (key_value k) w fields 0 = Some (i, sdec o s false w).
  Proof. intros. rewrite (find_field_at o w fields i 0 k s Hdist H). reflexivity. Qed.

  Lemma find_other : forall e, other_entry_ok fields other e -> find_field o (fst e) (snd e) fields 0 = None.
  Proof. intros e (_ & _ & H). apply find_field_none. exact H. Qed.
End StructFacts.

Lemma key_value_okb : forall k, key_ok k = true -> value_okb (key_value k) = true.
Proof. destruct k; cbn [key_ok key_value]; intros H; exact H. Qed.

Lemma other_key_okb : forall kind k, other_key_ok kind k = true -> value_okb k = true /\ is_mapkey k = true.
Proof. intros kind k H. destruct k; try discriminate H; [destruct kind; try discriminate H|]; split; try reflexivity; exact H. Qed.

Lemma rt_struct : forall fields other, Forall (fun f => RTS (snd f)) fields -> RTS (SStruct fields other).
Proof.
  intros fields other IH Hwf x Hty. cbn [schema_wfb] in Hwf. apply andb_true_iff in Hwf. destruct Hwf as [Hwf Hdist].
  destruct x as [ | | | | | | | | |xs others| | | | ]; try discriminate.
  rewrite typedb_struct in Hty. apply andb_true_iff in Hty. destruct Hty as [Hty Hoth].
  apply andb_true_iff in Hty. destruct Hty as [Hlen Htf]. apply N.ltb_lt in Hlen.
  destruct (rows_exist fields IH Hwf xs Htf) as (rows & Ef & Ex & Hrows & Eenc).
  destruct (others_facts fields other others Hoth) as (OF1 & OF2 & OF3).
  set (es := present false rows ++ others).
  assert (Esenc : senc (SStruct fields other) (XStruct xs others) = Some (VMap false es)).
  { rewrite senc_struct, Eenc. destruct other; [reflexivity|]. destruct others; [reflexivity|discriminate Hoth]. }
  exists (VMap false es). split; [exact Esenc|].
  assert (RowsF : forall r, In r rows -> row_ok r) by (rewrite Forall_forall in Hrows; exact Hrows).
  assert (OthF : forall e, In e others -> other_entry_ok fields other e) by (rewrite Forall_forall in OF1; exact OF1).
  split.
  { (* the written map is a well-formed value *)
    cbn [value_okb negb andb]. apply andb_true_iff. split.
    - apply N.ltb_lt. unfold es, len in *. rewrite app_length. pose proof (present_length false rows).
      rewrite <- Ex, map_length in Hlen. lia.
    - rewrite forallb_forall. intros [k v] Hin. unfold es in Hin. apply in_app_or in Hin. destruct Hin as [Hin|Hin].
      + apply In_present in Hin. destruct Hin as (r & Hr & _ & E). inversion E; subst.
        destruct (RowsF r Hr) as (Kok & _ & Vok & _). rewrite (key_value_okb _ Kok), Vok. reflexivity.
      + destruct (OthF _ Hin) as ([kind [_ Hk]] & Hv & _). cbn [fst snd] in *.
        destruct (other_key_okb _ _ Hk) as [Kok _]. destruct (wf_norm_strip v Hv) as (_ & _ & Vok). rewrite Kok, Vok. reflexivity. }
  split; [intro; reflexivity|].
  intros o mk. rewrite norm_map, sdec_struct.
  set (N := map snd (isortk (keyed es))).
  set (es' := present true rows ++ others).
  assert (Ees' : map (fun e => snd (gk e)) es = es').
  { unfold es, es'. rewrite map_app, present_norm. f_equal.
    rewrite <- (map_id others) at 2. apply map_ext_in. intros e He. apply (other_entry_norm fields other e (OthF e He)). }
  assert (InN : forall y, In y N <-> In y es').
  { intros y. unfold N. rewrite <- Ees', keyed_gk, !in_map_iff. split.
    - intros [z [Hz Hin]]. destruct (In_isortk (fun _ => true) z (map gk es)) as [Hfw _]. apply Hfw in Hin. apply in_map_iff in Hin. destruct Hin as [e [He Hin]]. subst. exists e. auto.
    - intros [e [He Hin]]. exists (gk e). split; [exact He|]. destruct (In_isortk (fun _ => true) (gk e) (map gk es)) as [_ Hbw]. apply Hbw. apply in_map. exact Hin. }
  (* rows and their positions *)
  assert (RowAt : forall i r, nth_error rows i = Some r -> nth_error fields i = Some (rk r, rs r)).
  { intros i r Hn. rewrite <- Ef. apply (map_nth_error rf) in Hn. exact Hn. }
  assert (FindRow : forall i r w, nth_error rows i = Some r ->
            find_field o (key_value (rk r)) w fields 0 = Some (i, sdec o (rs r) false w)).
  { intros i r w Hn. apply (find_present o fields Hdist). apply RowAt. exact Hn. }
  (* every entry of the normalized map is acceptable to the loop *)
  assert (EntryOK : Forall (entry_ok o fields other) N).
  { rewrite Forall_forall. intros e He. apply InN in He. unfold es' in He. apply in_app_or in He. destruct He as [He|He].
    - apply In_present in He. destruct He as (r & Hr & _ & ->). unfold entry_ok. cbn [fst snd].
      split; [destruct (rk r); reflexivity|].
      apply In_nth_error in Hr. destruct Hr as [i Hn]. rewrite (FindRow i r _ Hn).
      destruct (RowsF r (nth_error_In _ _ Hn)) as (_ & _ & _ & D & _). rewrite (D o false). exact I.
    - pose proof (OthF e He) as Oe. unfold entry_ok. rewrite (find_other o fields other e Oe).
      destruct Oe as ([kind [Eo Hk]] & _ & _). destruct (other_key_okb _ _ Hk) as [_ Mk]. split; [exact Mk|].
      unfold other_accepts. rewrite Eo. destruct kind; [|exact I].
      destruct (fst e); try discriminate Hk. eexists; reflexivity. }
  destruct (fold_struct o fields other N (map (fun _ => None) fields) [] (map_length _ _) EntryOK) as (slots' & E & L & Pt).
  rewrite E.
  (* the catch-all map comes back as it was *)
  assert (Oth : fold_left ups (filter (is_unk o fields) N) [] = others).
  { assert (Ef' : filter (is_unk o fields) N = others).
    { unfold N. rewrite filter_map_comm, filter_isortk, keyed_gk, filter_map_comm. unfold es. rewrite filter_app.
      rewrite filter_all_false, filter_all_true, app_nil_l.
      - rewrite isortk_sorted.
        + rewrite map_map. rewrite <- (map_id others) at 2. apply map_ext_in. intros e He.
          apply (other_entry_norm fields other e (OthF e He)).
        + rewrite map_map. erewrite map_ext; [exact OF3|]. intros [k v]. reflexivity.
      - intros e He. pose proof (OthF e He) as Oe. destruct (other_entry_norm fields other e Oe) as [En _]. rewrite En.
        unfold is_unk. rewrite (find_other o fields other e Oe). reflexivity.
      - intros e He. apply In_present in He. destruct He as (r & Hr & _ & ->). cbn [gk snd]. rewrite norm_key_value.
        apply In_nth_error in Hr. destruct Hr as [i Hn]. unfold is_unk. cbn [fst snd]. rewrite (FindRow i r _ Hn). reflexivity. }
    rewrite Ef'. rewrite (fold_ups_fresh others []); [reflexivity|exact OF2|].
    intros e He. apply (other_entry_norm fields other e (OthF e He)). }
  rewrite Oth.
  (* every slot holds the field's value, or is empty for a null field *)
  assert (HitPresent : forall i i' r, nth_error rows i' = Some r ->
            hit o fields i (key_value (rk r), norm (rv r)) = if Nat.eqb i' i then Some (rx r) else None).
  { intros i i' r Hn. unfold hit. cbn [fst snd]. rewrite (FindRow i' r _ Hn).
    destruct (RowsF r (nth_error_In _ _ Hn)) as (_ & _ & _ & D & _). rewrite (D o false). reflexivity. }
  assert (HitOther : forall i e, In e others -> hit o fields i e = None).
  { intros i e He. unfold hit. rewrite (find_other o fields other e (OthF e He)). reflexivity. }
  assert (Fin : struct_fin fields slots' = Some (map rx rows)).
  { apply (fin_spec rows fields slots' Ef Hrows). intros i r Hn. rewrite (Pt i).
    destruct (is_null (rx r)) eqn:En.
    - rewrite last_hit_none.
      + eapply nth_map_none. apply RowAt. exact Hn.
      + intros e He. apply InN in He. unfold es' in He. apply in_app_or in He. destruct He as [He|He]; [|apply HitOther; exact He].
        apply In_present in He. destruct He as (r' & Hr' & Hn' & ->). apply In_nth_error in Hr'. destruct Hr' as [i' Hi'].
        rewrite (HitPresent i i' r' Hi'). destruct (Nat.eqb_spec i' i) as [->|]; [|reflexivity]. congruence.
    - rewrite (last_hit_some o fields i N (rx r)); [reflexivity| |].
      + intros e y' He Hh. apply InN in He. unfold es' in He. apply in_app_or in He. destruct He as [He|He];
          [|rewrite (HitOther i e He) in Hh; discriminate].
        apply In_present in He. destruct He as (r' & Hr' & Hn' & ->). apply In_nth_error in Hr'. destruct Hr' as [i' Hi'].
        rewrite (HitPresent i i' r' Hi') in Hh. destruct (Nat.eqb_spec i' i) as [->|]; [|discriminate]. congruence.
      + exists (key_value (rk r), norm (rv r)). split.
        * apply InN. unfold es'. apply in_or_app. left. apply In_present. exists r. split; [eapply nth_error_In; exact Hn|]. auto.
        * rewrite (HitPresent i i r Hn), Nat.eqb_refl. reflexivity. }
  rewrite Fin, Ex. reflexivity.
Qed.

(** * The theorem *)
Theorem schema_roundtrip_all : forall s, RTS s.
Proof.
  induction s using schema_ind'.
  - apply rt_uint. - apply rt_int. - apply rt_bool. - apply rt_text. - apply rt_bytes. - apply rt_bytesn. - apply rt_value.
  - apply rt_option; assumption. - apply rt_vec; assumption. - apply rt_tuple; assumption. - apply rt_struct; assumption.
  - apply rt_tag; assumption. - apply rt_enum_map; assumption. - apply rt_enum_tagged; assumption.
  - apply rt_maybe; assumption. - apply rt_refine; assumption.
Qed.

(** at the level of bytes: [cbor_decode (cbor_encode x) = x] at every type, under both decoding options *)
Theorem typed_roundtrip : forall s x o, schema_wfb s = true -> typedb s x = true ->
  exists bs, encode_typed s x = Some bs /\ decode_typed s o bs = Some x.
Proof.
  intros s x o Hwf Hty. destruct (schema_roundtrip_all s Hwf x Hty) as (v & E & Ok & _ & D).
  exists (encode v). unfold encode_typed, decode_typed. rewrite E. split; [reflexivity|].
  destruct (decode_encode_norm v Ok) as [a Ea]. rewrite Ea. apply D.
Qed.

(** the schema-level statement in the form "decode (encode x) = x on the normal form of the written item" *)
Theorem schema_roundtrip_norm : forall s x o mk, schema_wfb s = true -> typedb s x = true ->
  exists v, senc s x = Some v /\ value_okb v = true /\ sdec o s mk (norm v) = Some x.
Proof.
  intros s x o mk Hwf Hty. destruct (schema_roundtrip_all s Hwf x Hty) as (v & E & Ok & _ & D).
  exists v. auto.
Qed.
