(** C17 - hexadecimal input helper for the correspondence check (long byte strings are passed to
    [coqc] as string literals, which parse in linear time). *)
From Coq Require Import NArith ZArith List Bool String Ascii.
Import ListNotations.
Local Open Scope N_scope.

Definition hexval (c : ascii) : N :=
  let n := N_of_ascii c in if n <? 58 then n - 48 else n - 87.

Fixpoint unhex (s : string) : list N :=
  match s with
  | String a (String b r) => (hexval a * 16 + hexval b) :: unhex r
  | _ => []
  end.

From CB Require Import Cbor.CborCore.

Fixpoint bytes_eqb (a b : list N) : bool :=
  match a, b with
  | [], [] => true
  | x :: a', y :: b' => (x =? y) && bytes_eqb a' b'
  | _, _ => false
  end.

(** structural comparison used for large cases (printing a long list costs more than comparing it
    inside Coq): indefinite flags are ignored (Rust's [Value] has none) and floats only compare as
    "both floats" (their payloads are compared by the check on the small cases). *)
Fixpoint veqb (a b : value) : bool :=
  match a, b with
  | VPos n, VPos m | VNeg n, VNeg m | VSimple n, VSimple m => n =? m
  | VBytes x, VBytes y | VText x, VText y => bytes_eqb x y
  | VArray _ l, VArray _ l' =>
    (fix go (l : list value) (l' : list value) : bool :=
       match l, l' with
       | [], [] => true
       | x :: r, y :: r' => veqb x y && go r r'
       | _, _ => false
       end) l l'
  | VMap _ l, VMap _ l' =>
    (fix go (l : list (value * value)) (l' : list (value * value)) : bool :=
       match l, l' with
       | [], [] => true
       | (k, x) :: r, (k', y) :: r' => veqb k k' && veqb x y && go r r'
       | _, _ => false
       end) l l'
  | VTag t x, VTag t' y => (t =? t') && veqb x y
  | VBool x, VBool y => Bool.eqb x y
  | VNull, VNull => true
  | VFloat _ _, VFloat _ _ => true
  | _, _ => false
  end.

From CB Require Import Cbor.CborSchema.

(** structural comparison of schema values (catch-all maps in the given order) *)
Fixpoint xeqb (a b : sval) : bool :=
  match a, b with
  | XN n, XN m => n =? m
  | XZ n, XZ m => Z.eqb n m
  | XBool x, XBool y => Bool.eqb x y
  | XText x, XText y | XBytes x, XBytes y => bytes_eqb x y
  | XVal x, XVal y | XUnknown x, XUnknown y => veqb x y
  | XNone, XNone => true
  | XSome x, XSome y | XKnown x, XKnown y => xeqb x y
  | XList l, XList l' =>
    (fix go (l l' : list sval) : bool :=
       match l, l' with [], [] => true | x :: r, y :: r' => xeqb x y && go r r' | _, _ => false end) l l'
  | XStruct l o, XStruct l' o' =>
    (fix go (l l' : list sval) : bool :=
       match l, l' with [], [] => true | x :: r, y :: r' => xeqb x y && go r r' | _, _ => false end) l l'
    && (fix go (l l' : list (value * value)) : bool :=
          match l, l' with
          | [], [] => true
          | (k, x) :: r, (k', y) :: r' => veqb k k' && veqb x y && go r r'
          | _, _ => false
          end) o o'
  | XVariant i x, XVariant j y => Nat.eqb i j && xeqb x y
  | XOther k x, XOther k' y => veqb k k' && veqb x y
  | _, _ => false
  end.
