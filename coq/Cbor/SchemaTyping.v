(** C17 - well-formed schemas and well-typed schema values (proof-free, executable booleans).

    [schema_wfb s]: what the derive macro and the Rust type system guarantee about a declaration
    (integer widths, distinct keys / variant names / tags, valid UTF-8 names, a [peek_tag] variant's payload
    carries that tag itself, the untagged variant of a tagged enum never starts with a tag, the payload of
    an [Option] is never written as null, [CborMaybeKnown] wraps an enum).
    [typedb s x]: [x] is a value of the Rust type described by [s], in deterministic form (embedded
    [Value]s well-formed with sorted maps; the catch-all map as the key-sorted list of its entries, its
    keys distinct and different from the declared keys). *)
From Coq Require Import NArith ZArith List Bool String.
From CB Require Import Cbor.CborCore Cbor.CborSchema.
Import ListNotations.
Local Open Scope N_scope.

Definition text_ok (b : list N) : bool := bytes_ok b && utf8_valid b && (len b <? W64).

Definition key_ok (k : key) : bool :=
  match k with KText s => text_ok (bytes_of_string s) | KPos n => n <? W64 end.

(** [eqb x y] is asked for [x] before [y] in the list *)
Fixpoint distinctb {A} (eqb : A -> A -> bool) (l : list A) : bool :=
  match l with
  | [] => true
  | x :: r => negb (existsb (eqb x) r) && distinctb eqb r
  end.

Definition nullable (s : schema) : bool :=
  match s with SOption _ | SValue => true | _ => false end.

(** schemas whose encodings are never a tag and never null *)
Definition plain_out (s : schema) : bool :=
  match s with
  | SUInt _ | SInt _ | SBool | SText | SBytes | SBytesN _ | SVec _ | STuple _ | SStruct _ _ | SEnumMap _ _ => true
  | _ => false
  end.

Definition tag_out (s : schema) : bool :=
  match s with STag _ _ | SRefine _ (STag _ _) => true | _ => false end.

Definition option_ok (s : schema) : bool :=
  plain_out s || tag_out s ||
  match s with
  | SEnumTagged _ None _ => true
  | SEnumTagged _ (Some u) _ => plain_out u
  | _ => false
  end.

Definition is_enum (s : schema) : bool :=
  match s with SEnumMap _ _ | SEnumTagged _ _ _ => true | _ => false end.

Fixpoint schema_wfb (s : schema) : bool :=
  match s with
  | SUInt bits | SInt bits => (1 <=? bits) && (bits <=? 64)
  | SBool | SText | SBytes | SValue => true
  | SBytesN n => n <? W64
  | SOption s' => option_ok s' && schema_wfb s'
  | SVec s' => schema_wfb s'
  | STuple ss => forallb schema_wfb ss
  | SStruct fields _ =>
    forallb (fun f => let '(k, s') := f in key_ok k && schema_wfb s') fields
    && distinctb (fun a b => key_matches a (key_value b)) (map fst fields)
  | STag t s' => (t <? W64) && negb (nullable s') && schema_wfb s'
  | SEnumMap variants _ =>
    forallb (fun v => let '(name, s') := v in text_ok (bytes_of_string name) && schema_wfb s') variants
    && distinctb list_eqb (map (fun v => bytes_of_string (fst v)) variants)
  | SEnumTagged variants untagged _ =>
    forallb (fun v => let '(t, consume, s') := v in
                      (t <? W64) && (consume || match s' with STag t' _ => t' =? t | _ => false end) && schema_wfb s') variants
    && distinctb N.eqb (map (fun v => fst (fst v)) variants)
    && match untagged with Some u => plain_out u && schema_wfb u | None => true end
  | SMaybeKnown s' => is_enum s' && schema_wfb s'
  | SRefine _ s' => negb (nullable s') && schema_wfb s'
  end.

Definition other_key_ok (kind : okind) (k : value) : bool :=
  match k, kind with
  | VText b, _ => text_ok b
  | VPos n, OMapKey => n <? W64
  | _, _ => false
  end.

Definition others_okb (fields : list (key * schema)) (other : option okind) (others : list (value * value)) : bool :=
  match other with
  | None => match others with [] => true | _ :: _ => false end
  | Some kind =>
    forallb (fun kv => let '(k, v) := kv in
                       other_key_ok kind k && value_wfb v && forallb (fun f => negb (key_matches (fst f) k)) fields) others
    && distinctb (fun a b => value_eqb b a) (map fst others)
    && sortedb (map (fun kv => let '(k, x) := kv in encode k ++ encode x) others)
  end.

Definition unknown_text_ok (names : list (list N)) (k : list N) (v : value) : bool :=
  text_ok k && value_wfb v && negb (existsb (fun nm => list_eqb nm k) names).

Definition unknown_tag_ok (tags : list N) (t : N) (v : value) : bool :=
  (t <? W64) && value_wfb v && negb (existsb (fun t' => t' =? t) tags).

Fixpoint typedb (s : schema) (x : sval) {struct s} : bool :=
  match s with
  | SUInt bits => match x with XN n => n <? 2 ^ bits | _ => false end
  | SInt bits =>
    match x with
    | XZ z => ((- Z.of_N (2 ^ (bits - 1)) <=? z) && (z <? Z.of_N (2 ^ (bits - 1))))%Z
    | _ => false
    end
  | SBool => match x with XBool _ => true | _ => false end
  | SText => match x with XText b => text_ok b | _ => false end
  | SBytes => match x with XBytes b => bytes_ok b && (len b <? W64) | _ => false end
  | SBytesN n => match x with XBytes b => bytes_ok b && (len b =? n) | _ => false end
  | SValue => match x with XVal v => value_wfb v | _ => false end
  | SOption s' => match x with XNone => true | XSome y => typedb s' y | _ => false end
  | SVec s' =>
    match x with
    | XList l => (len l <? W64) &&
                 (fix go (l : list sval) : bool := match l with [] => true | y :: r => typedb s' y && go r end) l
    | _ => false
    end
  | STuple ss =>
    match x with
    | XList l => (len l <? W64) &&
                 (fix go (ss : list schema) (l : list sval) : bool :=
                    match ss, l with
                    | [], [] => true
                    | s' :: ss', y :: r => typedb s' y && go ss' r
                    | _, _ => false
                    end) ss l
    | _ => false
    end
  | SStruct fields other =>
    match x with
    | XStruct xs others =>
      (len xs + len others <? W64) &&
      (fix go (fs : list (key * schema)) (xs : list sval) : bool :=
         match fs, xs with
         | [], [] => true
         | (_, s') :: fs', y :: r => typedb s' y && go fs' r
         | _, _ => false
         end) fields xs
      && others_okb fields other others
    | _ => false
    end
  | STag _ s' => typedb s' x
  | SEnumMap variants other =>
    match x with
    | XVariant i y =>
      (fix pick (vs : list (string * schema)) (i : nat) : bool :=
         match vs, i with
         | (_, s') :: _, O => typedb s' y
         | _ :: r, S i' => pick r i'
         | [], _ => false
         end) variants i
    | XOther (VText k) v => other && unknown_text_ok (map (fun v => bytes_of_string (fst v)) variants) k v
    | _ => false
    end
  | SEnumTagged variants untagged other =>
    match x with
    | XVariant i y =>
      (fix pick (vs : list (N * bool * schema)) (i : nat) : bool :=
         match vs, i with
         | (_, _, s') :: _, O => typedb s' y
         | _ :: r, S i' => pick r i'
         | [], O => match untagged with Some u => typedb u y | None => false end
         | [], S _ => false
         end) variants i
    | XOther (VPos t) v => other && unknown_tag_ok (map (fun v => fst (fst v)) variants) t v
    | _ => false
    end
  | SMaybeKnown s' =>
    match x with
    | XKnown y => typedb s' y
    | XUnknown u =>
      match s', u with
      | SEnumMap variants false, VMap false [(VText k, v)] =>
        unknown_text_ok (map (fun v => bytes_of_string (fst v)) variants) k v
      | SEnumTagged variants _ false, VTag t v => unknown_tag_ok (map (fun v => fst (fst v)) variants) t v
      | _, _ => false
      end
    | _ => false
    end
  | SRefine r s' => refine_ok r x && typedb s' x
  end.
