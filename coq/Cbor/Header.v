(** C17 - the header writer of ciborium-ll 0.2.2 ([Title::from(Header)] + [Encoder::push]) as one function
    on the header type of [CborCore.hdr] (proof-free, executable).  The reader is [CborCore.pull]. *)
From Coq Require Import NArith List Bool.
From CB Require Import Cbor.CborCore.
Import ListNotations.
Local Open Scope N_scope.

Definition len_head (major : N) (o : option N) : list N :=
  match o with Some n => head major n | None => [major * 32 + 31] end.

Definition encode_hdr (h : hdr) : list N :=
  match h with
  | HPos n => head 0 n
  | HNeg n => head 1 n
  | HBytes o => len_head 2 o
  | HText o => len_head 3 o
  | HArray o => len_head 4 o
  | HMap o => len_head 5 o
  | HTag n => head 6 n
  | HSimple n => if n <? 24 then [224 + n] else [248; n]
  | HFloat w bits => float_head w bits
  | HBreak => [255]
  end.

(** headers a Rust [Header] can be: u64 arguments, [Simple(u8)], float payload of 2, 4 or 8 bytes *)
Definition opt_ok (o : option N) : bool := match o with Some n => n <? W64 | None => true end.
Definition hdr_okb (h : hdr) : bool :=
  match h with
  | HPos n | HNeg n | HTag n => n <? W64
  | HBytes o | HText o | HArray o | HMap o => opt_ok o
  | HSimple n => n <? 256
  | HFloat w bits => ((w =? 2) || (w =? 4) || (w =? 8)) && (bits <? 2 ^ (8 * w))
  | HBreak => true
  end.

(** number of bytes a head with additional information [info] occupies *)
Definition head_size (info : N) : nat :=
  if info <? 24 then 1%nat else if info =? 24 then 2%nat else if info =? 25 then 3%nat
  else if info =? 26 then 5%nat else if info =? 27 then 9%nat else 1%nat.

(** a head written with a chosen (possibly non-shortest) width: additional info 24..27 *)
Definition wide_head (major info arg : N) : list N :=
  (major * 32 + info) :: be_bytes (head_size info - 1) arg.

(** for the correspondence check *)
Definition show_pull (bs : list N) : option (hdr * N) :=
  match pull bs with Some (h, r) => Some (h, len bs - len r) | None => None end.
