(** C17 - IEEE 754 binary16 / binary32 / binary64 as explicit bit patterns (proof-free, executable):
    the width selection of ciborium-ll 0.2.2 [Title::from(Header::Float)] (hdr.rs:147-160)

        n16 = f16::from_f64(n64);  n32 = n64 as f32;
        if f64::from(n16).to_bits() == n64.to_bits() { 2 bytes }
        else if f64::from(n32).to_bits() == n64.to_bits() { 4 bytes } else { 8 bytes }

    and the widening of [Header::try_from(Title)] (hdr.rs:117-119).  No real numbers, no axioms.

    Widening is exact.  Of the narrowing conversions only this is used: a correctly rounded conversion
    returns the exact value when it is representable; [cand16]/[cand32] compute that candidate by
    truncation (exponent re-biased, mantissa shifted).  When the double is not representable the test
    fails for EVERY candidate, since a widened pattern is always representable.  NaN: both the x86
    conversions (cvtsd2ss/vcvtps2ph/cvtss2sd) and half's software fallback keep the top payload bits and
    set the quiet bit - so does the model. *)
From Coq Require Import NArith List Bool.
Import ListNotations.
Local Open Scope N_scope.

Definition P63 : N := 2 ^ 63.
Definition P52 : N := 2 ^ 52.
Definition P51 : N := 2 ^ 51.

(** fields of a binary64 pattern *)
Definition f64_sign (b : N) : N := N.shiftr b 63.
Definition f64_exp (b : N) : N := N.land (N.shiftr b 52) 2047.
Definition f64_man (b : N) : N := N.land b (N.ones 52).
Definition f64_make (s e m : N) : N := N.shiftl s 63 + N.shiftl e 52 + m.
Definition is_nan64 (b : N) : bool := (f64_exp b =? 2047) && negb (f64_man b =? 0).
Definition is_snan64 (b : N) : bool := is_nan64 b && (f64_man b <? P51).

(** generic widening: a pattern with [eb] exponent bits (all-ones [emax], the exponent field of 1.0 in
    binary64 minus the source bias = [rebias]) and [mb] mantissa bits *)
Definition widen (emax rebias mb : N) (s e m : N) : N :=
  if e =? emax then
    (if m =? 0 then f64_make s 2047 0 else f64_make s 2047 (N.lor P51 (N.shiftl m (52 - mb))))
  else if e =? 0 then
    (if m =? 0 then f64_make s 0 0
     else let k := N.log2 m in f64_make s (k + 1 + rebias - mb) (N.shiftl (m - N.shiftl 1 k) (52 - k)))
  else f64_make s (e + rebias) (N.shiftl m (52 - mb)).

(** binary16: 1 + 5 + 10 bits, bias 15;  binary32: 1 + 8 + 23 bits, bias 127 *)
Definition widen16 (h : N) : N := widen 31 1008 10 (N.shiftr h 15) (N.land (N.shiftr h 10) 31) (N.land h 1023).
Definition widen32 (x : N) : N := widen 255 896 23 (N.shiftr x 31) (N.land (N.shiftr x 23) 255) (N.land x 8388607).

(** the narrowing candidate (truncation) *)
Definition cand (emax rebias mb : N) (b : N) : N :=
  let s := f64_sign b in let e := f64_exp b in let m := f64_man b in
  let body :=
    if e =? 2047 then
      (if m =? 0 then N.shiftl emax mb else N.shiftl emax mb + N.lor (N.shiftl 1 (mb - 1)) (N.shiftr m (52 - mb)))
    else if emax + rebias <=? e then N.shiftl emax mb                      (* too large: infinity *)
    else if rebias <? e then N.shiftl (e - rebias) mb + N.shiftr m (52 - mb)  (* normal *)
    else N.shiftr (P52 + m) (52 - mb + (rebias + 1 - e))                   (* subnormal or zero *)
  in N.shiftl s (mb + (if mb =? 10 then 5 else 8)) + body.

Definition cand16 (b : N) : N := cand 31 1008 10 b.
Definition cand32 (b : N) : N := cand 255 896 23 b.

(** [Title::from(Header::Float(f))]: payload width and payload *)
Definition fencode (b : N) : N * N :=
  let h := cand16 b in
  if widen16 h =? b then (2, h)
  else let x := cand32 b in
       if widen32 x =? b then (4, x) else (8, b).

(** [Header::try_from(Title(Major::Other, Next2/4/8))] *)
Definition fdecode (w bits : N) : N :=
  if w =? 2 then widen16 bits else if w =? 4 then widen32 bits else bits.

Definition is_snan16 (h : N) : bool := (N.land (N.shiftr h 10) 31 =? 31) && negb (N.land h 1023 =? 0) && (N.land h 1023 <? 512).
Definition is_snan32 (x : N) : bool :=
  (N.land (N.shiftr x 23) 255 =? 255) && negb (N.land x 8388607 =? 0) && (N.land x 8388607 <? 4194304).
