(** C17 - the universal schema theorem instantiated at the protocol-level-token types. *)
From Coq Require Import NArith List Bool String.
From CB Require Import Cbor.CborCore Cbor.CborSchema Cbor.SchemaTyping Cbor.SchemaRoundtrip Cbor.TokenSchemas.
Import ListNotations.

Lemma token_schemas_wf : forallb (fun p => schema_wfb (snd p)) token_schemas = true.
Proof. vm_compute. reflexivity. Qed.

Lemma token_types_roundtrip : forall name s x o, In (name, s) token_schemas -> typedb s x = true ->
  exists bs, encode_typed s x = Some bs /\ decode_typed s o bs = Some x.
Proof.
  intros name s x o Hin Hty. apply typed_roundtrip; [|exact Hty].
  pose proof token_schemas_wf as W. rewrite forallb_forall in W. apply (W (name, s) Hin).
Qed.
