(** C17 - token amounts (protocol_level_tokens/token_amount.rs): [value * 10^(-decimals)] in its
    decimal-string form (Display / [TokenAmount::from_str]) and JSON form ([TokenAmountJson]).
    The CBOR form is the schema [TokenSchemas.s_TokenAmount].  Proof-free, executable.

    [from_str] goes through rust_decimal 1.37 (96-bit mantissa, scale <= 28); what is modelled here is
    the accepted language and the result of [Decimal::from_str_exact] / [from_str] followed by
    [try_from_rust_decimal] (str.rs, ops/array.rs rescale), diffed against the real code. *)
From Coq Require Import NArith List Bool.
Import ListNotations.
Local Open Scope N_scope.

Record amount : Type := { amt_value : N; amt_decimals : N }.
Definition U64MAX : N := 18446744073709551615.
Definition amount_ok (a : amount) : bool := (amt_value a <=? U64MAX) && (amt_decimals a <? 256).

(** characters are ASCII codes *)
Definition ch_0 : N := 48.
Definition ch_dot : N := 46.
Definition ch_plus : N := 43.
Definition ch_minus : N := 45.
Definition ch_us : N := 95.
Definition is_digit (c : N) : bool := (48 <=? c) && (c <=? 57).

(** decimal digits of [n], most significant first (at least one digit) *)
Fixpoint to_digits (fuel : nat) (n : N) (acc : list N) : list N :=
  match fuel with
  | O => acc
  | S f => if n <? 10 then (ch_0 + n) :: acc else to_digits f (n / 10) ((ch_0 + n mod 10) :: acc)
  end.
Definition digits (n : N) : list N := to_digits (S (N.to_nat (N.size n))) n [].

Fixpoint of_digits (acc : N) (ds : list N) : N :=
  match ds with [] => acc | d :: r => of_digits (acc * 10 + (d - ch_0)) r end.

(** [Display]: the value left-padded with zeros to at least decimals+1 digits, a point before the
    last [decimals] digits; no point when decimals = 0. *)
Definition to_string (a : amount) : list N :=
  let ds := digits (amt_value a) in
  let d := N.to_nat (amt_decimals a) in
  if amt_decimals a =? 0 then ds
  else
    let padded := repeat ch_0 (S d - length ds) ++ ds in
    let k := (length padded - d)%nat in
    firstn k padded ++ ch_dot :: skipn k padded.

(** * Parsing a decimal string as rust_decimal does (no rounding):
    optional sign first; digits, at most one point; '_' allowed once a digit has been seen;
    at least one digit; mantissa below 2^96; at most 28 fractional digits, and nothing may follow
    the 28th one.  Result: (negative, mantissa, scale). *)
Definition M96 : N := 2 ^ 96.

(* state: has a digit been seen, has the point been seen, mantissa, scale *)
Fixpoint parse_body (s : list N) (has point : bool) (m sc : N) : option (N * N) :=
  match s with
  | [] => if has then Some (m, sc) else None
  | c :: r =>
    if is_digit c then
      let m' := m * 10 + (c - ch_0) in
      let sc' := if point then sc + 1 else 0 in
      if M96 <=? m' then None
      else if point && (28 <=? sc') && negb (match r with [] => true | _ => false end) then None
      else parse_body r true point m' sc'
    else if (c =? ch_dot) && negb point then parse_body r has true m sc
    else if (c =? ch_us) && has then parse_body r has point m sc
    else None
  end.

Definition parse_decimal (s : list N) : option (bool * N * N) :=
  match s with
  | [] => None
  | c :: r =>
    let '(neg, body) := if c =? ch_minus then (true, r) else if c =? ch_plus then (false, r) else (false, s) in
    match parse_body body false false 0 0 with
    | Some (m, sc) => Some (neg, m, sc)
    | None => None
    end
  end.

(** the 28-digit check of rust_decimal only exists on its "big" path (strings of 18 bytes or more);
    shorter strings cannot have 28 fractional digits, so the model does not need the distinction. *)

(** [try_from_rust_decimal d decimals Exact] after an exact parse *)
Definition rescale_exact (neg : bool) (m sc d : N) : option amount :=
  if 28 <? d then None
  else if m =? 0 then Some {| amt_value := 0; amt_decimals := d |}
  else if neg then None
  else if sc <=? d then
    let m' := m * 10 ^ (d - sc) in
    if (M96 <=? m') || (U64MAX <? m') then None else Some {| amt_value := m'; amt_decimals := d |}
  else
    let k := 10 ^ (sc - d) in
    if negb (m mod k =? 0) then None
    else let q := m / k in if U64MAX <? q then None else Some {| amt_value := q; amt_decimals := d |}.

Definition from_str_exact (s : list N) (d : N) : option amount :=
  match parse_decimal s with
  | Some (neg, m, sc) => rescale_exact neg m sc d
  | None => None
  end.

(** [ConversionRule::AllowRounding], for strings that parse without rounding: half-up on the
    first dropped digit *)
Definition rescale_round (neg : bool) (m sc d : N) : option amount :=
  if 28 <? d then None
  else if m =? 0 then Some {| amt_value := 0; amt_decimals := d |}
  else if sc <=? d then rescale_exact neg m sc d
  else
    let k := 10 ^ (sc - d) in
    let q := m / k + (if 5 <=? (m / (k / 10)) mod 10 then 1 else 0) in
    if q =? 0 then Some {| amt_value := 0; amt_decimals := d |}
    else if neg then None
    else if U64MAX <? q then None else Some {| amt_value := q; amt_decimals := d |}.

Definition from_str_round (s : list N) (d : N) : option amount :=
  match parse_decimal s with
  | Some (neg, m, sc) => rescale_round neg m sc d
  | None => None
  end.

(** * JSON form {"value": "<digits>", "decimals": n}: [u64::from_str] on the value string
    (optional '+', at least one digit, no overflow), [u8] for decimals. *)
Definition json_value (a : amount) : list N := digits (amt_value a).

Fixpoint all_digits (s : list N) : bool :=
  match s with [] => true | c :: r => is_digit c && all_digits r end.

(** the overflow check is on the value: leading zeros are fine ("007" = 7) *)
Definition parse_u64 (s : list N) : option N :=
  let body := match s with c :: r => if c =? ch_plus then r else s | [] => s end in
  match body with
  | [] => None
  | _ => if all_digits body then let n := of_digits 0 body in if n <=? U64MAX then Some n else None else None
  end.

Definition from_json (v : list N) (d : N) : option amount :=
  if 256 <=? d then None
  else match parse_u64 v with Some n => Some {| amt_value := n; amt_decimals := d |} | None => None end.

(** * Denotation: two (mantissa, scale) pairs denote the same rational *)
Definition same_number (m1 sc1 m2 sc2 : N) : Prop := m1 * 10 ^ sc2 = m2 * 10 ^ sc1.

(** for printing results in the correspondence check *)
Definition show (o : option amount) : option (N * N) :=
  match o with Some a => Some (amt_value a, amt_decimals a) | None => None end.
