(** C17 - schema terms of the protocol-level-token types, written by hand from the Rust
    declarations (field order = declaration order; keys = camelCase field names unless cbor(key)).
    Sources: protocol_level_tokens/{token_amount,token_holder,token_operations,token_event,
    token_reject_reason,token_metadata_url,token_module_state,token_module_account_state,
    token_module_initialization_parameters}.rs, common/cbor/composites.rs, transactions.rs (Memo).
    The correspondence check encodes/decodes every one of these with the real code and this model. *)
From Coq Require Import NArith List String.
From CB Require Import Cbor.CborCore Cbor.CborSchema.
Import ListNotations.
Local Open Scope N_scope.
Local Open Scope string_scope.

Definition s_u64 := SUInt 64.
Definition s_usize := SUInt 64.
Definition s_i64 := SInt 64.
Definition s_opt_bool := SOption SBool.
Definition s_opt_text := SOption SText.

(** composites.rs *)
Definition s_DecimalFraction := STag 4 (STuple [s_i64; s_i64]).
Definition s_UnsignedDecimalFraction := STag 4 (STuple [s_i64; s_u64]).
(** token_amount.rs: an UnsignedDecimalFraction whose exponent is -decimals, decimals : u8 *)
Definition s_TokenAmount := SRefine RDecimals s_UnsignedDecimalFraction.

(** token_holder.rs *)
Definition s_CoinInfo := SRefine RCoinInfo (STag 40305 (SStruct [(KPos 1, s_u64)] None)).
Definition s_AccountAddress := SBytesN 32.
Definition s_Hash := SBytesN 32.
Definition s_CborHolderAccount :=
  STag 40307 (SStruct [(KPos 1, SOption s_CoinInfo); (KPos 3, s_AccountAddress)] None).

(** token_operations.rs *)
Definition s_Memo := SBytes.
Definition s_CborMemo := SEnumTagged [(24, true, s_Memo)] (Some s_Memo) false.   (* Cbor = 0, Raw = 1 (untagged) *)
Definition s_TokenTransfer :=
  SStruct [(KText "amount", s_TokenAmount); (KText "recipient", s_CborHolderAccount); (KText "memo", SOption s_CborMemo)] None.
Definition s_TokenSupplyUpdateDetails := SStruct [(KText "amount", s_TokenAmount)] None.
Definition s_TokenPauseDetails := SStruct [] None.
Definition s_TokenListUpdateDetails := SStruct [(KText "target", s_CborHolderAccount)] None.
Definition s_TokenOperation :=
  SEnumMap [("transfer", s_TokenTransfer); ("mint", s_TokenSupplyUpdateDetails); ("burn", s_TokenSupplyUpdateDetails);
            ("addAllowList", s_TokenListUpdateDetails); ("removeAllowList", s_TokenListUpdateDetails);
            ("addDenyList", s_TokenListUpdateDetails); ("removeDenyList", s_TokenListUpdateDetails);
            ("pause", s_TokenPauseDetails); ("unpause", s_TokenPauseDetails)] false.
Definition s_TokenOperations := SVec (SMaybeKnown s_TokenOperation).     (* transparent *)

(** token_event.rs *)
Definition s_TokenListUpdateEventDetails := SStruct [(KText "target", s_CborHolderAccount)] None.
Definition s_TokenPauseEventDetails := SStruct [] None.

(** token_reject_reason.rs *)
Definition s_AddressNotFoundRejectReason :=
  SStruct [(KText "index", s_usize); (KText "address", s_CborHolderAccount)] None.
Definition s_TokenBalanceInsufficientRejectReason :=
  SStruct [(KText "index", s_usize); (KText "availableBalance", s_TokenAmount); (KText "requiredBalance", s_TokenAmount)] None.
Definition s_DeserializationFailureRejectReason := SStruct [(KText "cause", s_opt_text)] None.
Definition s_UnsupportedOperationRejectReason :=
  SStruct [(KText "index", s_usize); (KText "operationType", SText); (KText "reason", s_opt_text)] None.
Definition s_OperationNotPermittedRejectReason :=
  SStruct [(KText "index", s_usize); (KText "address", SOption s_CborHolderAccount); (KText "reason", s_opt_text)] None.
Definition s_MintWouldOverflowRejectReason :=
  SStruct [(KText "index", s_usize); (KText "requestedAmount", s_TokenAmount); (KText "currentSupply", s_TokenAmount);
           (KText "maxRepresentableAmount", s_TokenAmount)] None.

(** metadata and module state *)
Definition s_MetadataUrl :=
  SStruct [(KText "url", SText); (KText "checksumSha256", SOption s_Hash)] (Some OString).
Definition s_TokenModuleAccountState :=
  SStruct [(KText "allowList", s_opt_bool); (KText "denyList", s_opt_bool)] (Some OString).
Definition s_TokenModuleState :=
  SStruct [(KText "name", s_opt_text); (KText "metadata", SOption s_MetadataUrl);
           (KText "governanceAccount", SOption s_CborHolderAccount); (KText "allowList", s_opt_bool);
           (KText "denyList", s_opt_bool); (KText "mintable", s_opt_bool); (KText "burnable", s_opt_bool);
           (KText "paused", s_opt_bool)] (Some OString).
Definition s_TokenModuleInitializationParameters :=
  SStruct [(KText "name", s_opt_text); (KText "metadata", SOption s_MetadataUrl);
           (KText "governanceAccount", SOption s_CborHolderAccount); (KText "allowList", s_opt_bool);
           (KText "denyList", s_opt_bool); (KText "initialSupply", SOption s_TokenAmount);
           (KText "mintable", s_opt_bool); (KText "burnable", s_opt_bool)] (Some OString).

(** the table used by the check: name of the Rust type -> schema *)
Definition token_schemas : list (string * schema) :=
  [("TokenAmount", s_TokenAmount); ("DecimalFraction", s_DecimalFraction);
   ("UnsignedDecimalFraction", s_UnsignedDecimalFraction); ("CoinInfo", s_CoinInfo);
   ("CborHolderAccount", s_CborHolderAccount); ("CborMemo", s_CborMemo); ("TokenTransfer", s_TokenTransfer);
   ("TokenSupplyUpdateDetails", s_TokenSupplyUpdateDetails); ("TokenPauseDetails", s_TokenPauseDetails);
   ("TokenListUpdateDetails", s_TokenListUpdateDetails); ("TokenOperation", s_TokenOperation);
   ("TokenOperations", s_TokenOperations); ("TokenListUpdateEventDetails", s_TokenListUpdateEventDetails);
   ("TokenPauseEventDetails", s_TokenPauseEventDetails);
   ("AddressNotFoundRejectReason", s_AddressNotFoundRejectReason);
   ("TokenBalanceInsufficientRejectReason", s_TokenBalanceInsufficientRejectReason);
   ("DeserializationFailureRejectReason", s_DeserializationFailureRejectReason);
   ("UnsupportedOperationRejectReason", s_UnsupportedOperationRejectReason);
   ("OperationNotPermittedRejectReason", s_OperationNotPermittedRejectReason);
   ("MintWouldOverflowRejectReason", s_MintWouldOverflowRejectReason); ("MetadataUrl", s_MetadataUrl);
   ("TokenModuleAccountState", s_TokenModuleAccountState); ("TokenModuleState", s_TokenModuleState);
   ("TokenModuleInitializationParameters", s_TokenModuleInitializationParameters)].

(** [TokenModuleEvent::decode_token_module_event] / [TokenModuleRejectReason::decode_reject_reason]:
    dispatch on the type string; an unknown type decodes the details as a generic value. *)
Definition event_schemas : list (string * schema) :=
  [("addAllowList", s_TokenListUpdateEventDetails); ("removeAllowList", s_TokenListUpdateEventDetails);
   ("addDenyList", s_TokenListUpdateEventDetails); ("removeDenyList", s_TokenListUpdateEventDetails);
   ("pause", s_TokenPauseEventDetails); ("unpause", s_TokenPauseEventDetails)].
Definition reject_schemas : list (string * schema) :=
  [("addressNotFound", s_AddressNotFoundRejectReason); ("tokenBalanceInsufficient", s_TokenBalanceInsufficientRejectReason);
   ("deserializationFailure", s_DeserializationFailureRejectReason); ("unsupportedOperation", s_UnsupportedOperationRejectReason);
   ("operationNotPermitted", s_OperationNotPermittedRejectReason); ("mintWouldOverflow", s_MintWouldOverflowRejectReason)].

Fixpoint lookup_idx {A} (name : string) (l : list (string * A)) (i : nat) : option (nat * A) :=
  match l with
  | [] => None
  | (n, a) :: r => if String.eqb n name then Some (i, a) else lookup_idx name r (S i)
  end.

(** result: [inl (i, x)] known variant i; [inr v] unknown (generic value).  Both entry points use
    [cbor_decode], i.e. the default options (UnknownMapKeys::Ignore). *)
Definition decode_dispatch (table : list (string * schema)) (ty : string) (bs : list N) : option (nat * sval + value) :=
  match lookup_idx ty table O with
  | Some (i, s) => match decode_typed s Ignore bs with Some x => Some (inl (i, x)) | None => None end
  | None => match run_top bs with Some (v, _) => Some (inr v) | None => None end
  end.

Definition schema_of (name : string) : schema :=
  match lookup_idx name token_schemas O with Some (_, s) => s | None => SBool end.
