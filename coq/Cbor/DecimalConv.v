(** C17 - token amounts <-> rust_decimal::Decimal, as coded (proof-free, executable).

    Modelled code:
      protocol_level_tokens/token_amount.rs   TokenAmount::try_from_rust_decimal / try_to_rust_decimal
      rust_decimal 1.37.1 ops/array.rs        rescale::<true>  (= Decimal::rescale)
      rust_decimal 1.37.1 decimal.rs          try_from_i128_with_scale, mantissa()

    A [Decimal] is (sign, 96-bit mantissa, scale 0..28) and denotes (-1)^sign * m * 10^(-scale).
    The CBOR form of an amount (tag 4 [-decimals, value]) is [TokenSchemas.s_TokenAmount]. *)
From Coq Require Import NArith List Bool.
From CB Require Import Cbor.TokenAmount.
Import ListNotations.
Local Open Scope N_scope.

Record decimal : Type := { d_neg : bool; d_m : N; d_scale : N }.
Definition MAX_SCALE : N := 28.
Definition decimal_ok (x : decimal) : bool := (d_m x <? M96) && (d_scale x <=? MAX_SCALE).

(** * [rescale::<true>] (ops/array.rs:11-64) *)

(** scale down: [diff] divisions by ten; only the LAST remainder is kept ("any remainder is discarded
    if diff > 0 still"); if the value becomes zero before a division the function returns at once
    (scale := new scale, no rounding) - modelled by the remainder 0 *)
Fixpoint down_loop (diff : nat) (v rem : N) : N * N :=
  match diff with
  | O => (v, rem)
  | S k => if v =? 0 then (0, 0) else down_loop k (v / 10) (v mod 10)
  end.

(** scale up: multiply by ten while the product still fits 96 bits; returns the value and the number of
    steps NOT done *)
Fixpoint up_loop (diff : nat) (v : N) : N * nat :=
  match diff with
  | O => (v, O)
  | S k => if v * 10 <? M96 then up_loop k (v * 10) else (v, S k)
  end.

(** result: (mantissa, scale).  The carry loop of the rounding step cannot leave the 96 bits: the value
    has been divided by ten at least once. *)
Definition rescale (m sc new : N) : N * N :=
  if sc =? new then (m, sc)
  else if m =? 0 then (0, N.min new MAX_SCALE)
  else if new <? sc then
    let '(v, rem) := down_loop (N.to_nat (sc - new)) m 0 in
    ((if 5 <=? rem then v + 1 else v), new)
  else
    let '(v, todo) := up_loop (N.to_nat (new - sc)) m in (v, new - N.of_nat todo).

(** * [TokenAmount::try_from_rust_decimal] (token_amount.rs:114-151) *)
Inductive conv_rule : Type := Exact | AllowRounding.
Inductive conv_err : Type := ERustDecimal | EValueOverflow | ELossOfPrecision.
Inductive conv_res : Type := COk (a : amount) | CErr (e : conv_err).

Definition is_exact (r : conv_rule) : bool := match r with Exact => true | AllowRounding => false end.

Definition try_from_decimal (x : decimal) (d : N) (r : conv_rule) : conv_res :=
  let '(m1, sc1) := rescale (d_m x) (d_scale x) d in           (* decimal_scaled.rescale(decimals) *)
  if MAX_SCALE <? d then CErr ERustDecimal
  else if negb (sc1 =? d) then CErr EValueOverflow              (* scale not reached: mantissa would overflow *)
  else if (d_neg x && negb (m1 =? 0)) || (U64MAX <? m1) then CErr EValueOverflow   (* i128 mantissa -> u64 *)
  else
    let '(m2, _) := rescale m1 sc1 (d_scale x) in               (* decimal_scaled.rescale(decimal.scale()) *)
    if negb (m2 =? d_m x) && is_exact r then CErr ELossOfPrecision
    else COk {| amt_value := m1; amt_decimals := d |}.

(** * [TokenAmount::try_to_rust_decimal] = [Decimal::try_from_i128_with_scale(value, decimals)] *)
Definition try_to_decimal (a : amount) : option decimal :=
  if MAX_SCALE <? amt_decimals a then None
  else if M96 <=? amt_value a then None
  else Some {| d_neg := false; d_m := amt_value a; d_scale := amt_decimals a |}.

(** * Specification-level rounding: the nearest multiple, ties away from zero (half-up on magnitudes) *)
Definition round_half_up (m k : N) : N := (m + k / 2) / k.     (* k = 10^j, j >= 1 *)

(** for the correspondence check: 0 v d = Ok, 1/2/3 = RustDecimal / ValueOverflow / LossOfPrecision *)
Definition show_conv (r : conv_res) : N * N * N :=
  match r with
  | COk a => (0, amt_value a, amt_decimals a)
  | CErr ERustDecimal => (1, 0, 0)
  | CErr EValueOverflow => (2, 0, 0)
  | CErr ELossOfPrecision => (3, 0, 0)
  end.
Definition show_dec (o : option decimal) : option (bool * N * N) :=
  match o with Some x => Some (d_neg x, d_m x, d_scale x) | None => None end.
Definition mk_dec (neg : bool) (m sc : N) : decimal := {| d_neg := neg; d_m := m; d_scale := sc |}.
Definition mk_amt (v d : N) : amount := {| amt_value := v; amt_decimals := d |}.
