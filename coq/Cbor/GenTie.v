(** C17 - tie of the hand-written schema terms (TokenSchemas.v) to the Rust declarations: the terms that
    translators/gen_cbor_schemas.py regenerates from the #[derive(CborSerialize, CborDeserialize)] types on every
    run (Gen/CborSchemas.v) are equal to them, and every hand-written table entry has a generated counterpart.
    A changed key / tag / attribute / field in the Rust source changes Gen/CborSchemas.v and breaks this lemma. *)
From Coq Require Import NArith List Bool String.
From CB Require Import Cbor.CborCore Cbor.CborSchema Cbor.TokenSchemas Gen.CborSchemas.
Import ListNotations.

Lemma gen_tie :
  map snd gen_schemas = map (fun p => schema_of (fst p)) gen_schemas
  /\ forallb (fun p => existsb (String.eqb (fst p)) (map fst gen_schemas)) token_schemas = true.
Proof. split; [reflexivity|vm_compute; reflexivity]. Qed.
