(** C17 - proofs about [DecimalConv.v]: TokenAmount <-> rust_decimal::Decimal for ALL decimals. *)
From Coq Require Import NArith PeanoNat List Bool Lia.
From CB Require Import Cbor.TokenAmount Cbor.DecimalConv.
Import ListNotations.
Local Open Scope N_scope.

Arguments N.add : simpl never.
Arguments N.sub : simpl never.
Arguments N.mul : simpl never.
Arguments N.div : simpl never.
Arguments N.modulo : simpl never.
Arguments N.eqb : simpl never.
Arguments N.ltb : simpl never.
Arguments N.leb : simpl never.
Arguments N.pow : simpl never.
Arguments N.min : simpl never.

Lemma pow10_pos : forall j, 0 < 10 ^ j.
Proof. intros. apply N.neq_0_lt_0. apply N.pow_nonzero. lia. Qed.

Lemma pow10_S : forall j : nat, 10 ^ N.of_nat (S j) = 10 * 10 ^ N.of_nat j.
Proof. intros. replace (N.of_nat (S j)) with (N.succ (N.of_nat j)) by lia. apply N.pow_succ_r'. Qed.

(** * The two loops in closed form *)
Lemma down_loop_spec : forall j v rem,
  down_loop (S j) v rem = (v / 10 ^ N.of_nat (S j), (v / 10 ^ N.of_nat j) mod 10).
Proof.
  induction j; intros v rem.
  - cbn [down_loop]. change (N.of_nat 1) with 1. change (N.of_nat 0) with 0.
    rewrite N.pow_1_r, N.pow_0_r, N.div_1_r.
    destruct (N.eqb_spec v 0) as [->|]; reflexivity.
  - change (down_loop (S (S j)) v rem) with (if v =? 0 then (0, 0) else down_loop (S j) (v / 10) (v mod 10)).
    destruct (N.eqb_spec v 0) as [->|Hv].
    + rewrite !N.div_0_l by (apply N.pow_nonzero; lia). reflexivity.
    + rewrite IHj. rewrite !N.div_div by (try apply N.pow_nonzero; lia).
      rewrite <- !pow10_S. reflexivity.
Qed.

Lemma up_loop_spec : forall j v, exists i : nat,
  (i <= j)%nat /\ up_loop j v = (v * 10 ^ N.of_nat i, (j - i)%nat) /\ ((i < j)%nat -> M96 <= v * 10 ^ N.of_nat (S i)).
Proof.
  induction j; intros v.
  - exists O. split; [lia|]. split; [|lia]. cbn [up_loop]. change (N.of_nat 0) with 0. rewrite N.pow_0_r, N.mul_1_r. reflexivity.
  - cbn [up_loop]. destruct (N.ltb_spec (v * 10) M96) as [Hlt|Hge].
    + destruct (IHj (v * 10)) as (i & Hi & E & Hstop). exists (S i). split; [lia|]. split.
      * rewrite E. rewrite pow10_S. f_equal; lia.
      * intros Hlt'. rewrite (pow10_S (S i)). specialize (Hstop ltac:(lia)). lia.
    + exists O. split; [lia|]. split.
      * change (N.of_nat 0) with 0. rewrite N.pow_0_r, N.mul_1_r. reflexivity.
      * intros _. change (N.of_nat 1) with 1. rewrite N.pow_1_r. exact Hge.
Qed.

Lemma up_loop_full : forall j v, v * 10 ^ N.of_nat j < M96 -> up_loop j v = (v * 10 ^ N.of_nat j, O).
Proof.
  intros j v H. destruct (up_loop_spec j v) as (i & Hi & E & Hstop).
  destruct (Nat.eq_dec i j) as [->|Hne].
  - rewrite E. f_equal. lia.
  - exfalso. specialize (Hstop ltac:(lia)).
    assert (10 ^ N.of_nat (S i) <= 10 ^ N.of_nat j) by (apply N.pow_le_mono_r; lia). nia.
Qed.

(** * Rounding: half-up on the first dropped digit = nearest, ties away from zero *)
Lemma half_up_digit : forall v k, 0 < k ->
  v / (10 * k) + (if 5 <=? (v / k) mod 10 then 1 else 0) = (v + 5 * k) / (10 * k).
Proof.
  intros v k Hk.
  pose proof (N.div_mod v (10 * k) ltac:(lia)) as D.
  pose proof (N.mod_lt v (10 * k) ltac:(lia)) as L.
  set (a := v / (10 * k)) in *. set (r := v mod (10 * k)) in *.
  pose proof (N.div_mod r k ltac:(lia)) as D2. pose proof (N.mod_lt r k ltac:(lia)) as L2.
  set (c := r / k) in *. set (s := r mod k) in *.
  assert (Hc : c < 10) by nia.
  assert (E1 : v / k = 10 * a + c).
  { symmetry. apply (N.div_unique v k (10 * a + c) s); [exact L2|]. lia. }
  assert (E2 : (v / k) mod 10 = c).
  { rewrite E1. symmetry. apply (N.mod_unique _ 10 a c); [exact Hc|]. lia. }
  rewrite E2. destruct (N.leb_spec 5 c).
  - apply (N.div_unique _ (10 * k) (a + 1) (r - 5 * k)); nia.
  - rewrite N.add_0_r. apply (N.div_unique _ (10 * k) a (r + 5 * k)); nia.
Qed.

Lemma round_digit : forall m (j : nat),
  m / 10 ^ N.of_nat (S j) + (if 5 <=? (m / 10 ^ N.of_nat j) mod 10 then 1 else 0) = round_half_up m (10 ^ N.of_nat (S j)).
Proof.
  intros. unfold round_half_up. rewrite pow10_S. rewrite half_up_digit by apply pow10_pos.
  f_equal. f_equal. apply (N.div_unique _ 2 _ 0); lia.
Qed.

(** the result is a nearest multiple: |q*k - m| <= k/2, and a tie goes up *)
Theorem round_half_up_nearest : forall m j, 0 < j -> let k := 10 ^ j in let q := round_half_up m k in
  2 * (q * k) <= 2 * m + k /\ 2 * m < 2 * (q * k) + k.
Proof.
  intros m j Hj k q. subst q. unfold round_half_up.
  assert (Hk : 0 < k) by apply pow10_pos.
  assert (Ev : k = 2 * (k / 2)).
  { subst k. replace j with (N.succ (N.pred j)) by lia. rewrite N.pow_succ_r'.
    replace (10 * 10 ^ N.pred j) with (2 * (5 * 10 ^ N.pred j)) by lia.
    rewrite (N.mul_comm 2), N.div_mul by lia. lia. }
  pose proof (N.div_mod (m + k / 2) k ltac:(lia)) as D.
  pose proof (N.mod_lt (m + k / 2) k ltac:(lia)) as L.
  clearbody k. set (h := k / 2) in *. set (q := (m + h) / k) in *. set (r := (m + h) mod k) in *.
  split; lia.
Qed.

Theorem round_half_up_exact : forall m k, 0 < k -> m mod k = 0 -> round_half_up m k * k = m.
Proof.
  intros m k Hk Hm. unfold round_half_up.
  pose proof (N.div_mod m k ltac:(lia)) as D. rewrite Hm, N.add_0_r in D.
  assert (E : (m + k / 2) / k = m / k).
  { symmetry. apply (N.div_unique _ k _ (k / 2)); [|lia].
    destruct (N.eq_dec k 1) as [->|]; [reflexivity|]. apply N.div_lt; lia. }
  rewrite E. lia.
Qed.

(** * [rescale] by cases *)
Lemma rescale_down : forall m sc new, m <> 0 -> new < sc ->
  rescale m sc new = (round_half_up m (10 ^ (sc - new)), new).
Proof.
  intros m sc new Hm Hlt. unfold rescale.
  destruct (N.eqb_spec sc new); [lia|]. destruct (N.eqb_spec m 0); [lia|].
  destruct (N.ltb_spec new sc); [|lia].
  destruct (N.to_nat (sc - new)) as [|j] eqn:Ej; [lia|].
  rewrite down_loop_spec. cbv beta iota. pose proof (round_digit m j) as RD.
  replace (sc - new) with (N.of_nat (S j)) by lia. rewrite <- RD.
  destruct (5 <=? (m / 10 ^ N.of_nat j) mod 10); f_equal; lia.
Qed.

Lemma rescale_zero : forall sc new, new <= MAX_SCALE -> sc <= MAX_SCALE -> rescale 0 sc new = (0, new).
Proof.
  intros sc new H H'. unfold rescale. destruct (N.eqb_spec sc new); [subst; reflexivity|].
  change (0 =? 0) with true. cbv iota. f_equal. lia.
Qed.

Lemma rescale_up : forall m sc new, m <> 0 -> sc < new -> exists i : nat,
  (N.of_nat i <= new - sc) /\ rescale m sc new = (m * 10 ^ N.of_nat i, sc + N.of_nat i)
  /\ (N.of_nat i < new - sc -> M96 <= m * 10 ^ N.of_nat (S i)).
Proof.
  intros m sc new Hm Hlt. unfold rescale.
  destruct (N.eqb_spec sc new); [lia|]. destruct (N.eqb_spec m 0); [lia|].
  destruct (N.ltb_spec new sc); [lia|].
  destruct (up_loop_spec (N.to_nat (new - sc)) m) as (i & Hi & E & Hstop).
  exists i. rewrite E. split; [lia|]. split; [f_equal; lia|]. intros. apply Hstop. lia.
Qed.

Lemma rescale_up_full : forall m sc new, sc <= new -> m * 10 ^ (new - sc) < M96 -> new <= MAX_SCALE ->
  rescale m sc new = (m * 10 ^ (new - sc), new).
Proof.
  intros m sc new Hle Hfit Hn. unfold rescale.
  destruct (N.eqb_spec sc new) as [->|Hne]. { rewrite N.sub_diag, N.pow_0_r, N.mul_1_r. reflexivity. }
  destruct (N.eqb_spec m 0) as [->|Hm]. { rewrite N.mul_0_l. f_equal. lia. }
  destruct (N.ltb_spec new sc); [lia|].
  rewrite up_loop_full by (rewrite N2Nat.id; exact Hfit). rewrite N2Nat.id. f_equal. lia.
Qed.

(** * [try_from_rust_decimal] *)

(** every accepted result is in range *)
Theorem conv_ok_range : forall x d r a, try_from_decimal x d r = COk a ->
  amt_decimals a = d /\ d <= MAX_SCALE /\ amt_value a <= U64MAX.
Proof.
  intros x d r a H. unfold try_from_decimal in H.
  destruct (rescale (d_m x) (d_scale x) d) as [m1 sc1].
  destruct (N.ltb_spec MAX_SCALE d); [discriminate|].
  destruct (negb (sc1 =? d)); [discriminate|].
  destruct (d_neg x && negb (m1 =? 0)); [discriminate|]. cbn [orb] in H.
  destruct (N.ltb_spec U64MAX m1); [discriminate|].
  destruct (rescale m1 sc1 (d_scale x)) as [m2 sc2].
  destruct (negb (m2 =? d_m x) && is_exact r); [discriminate|].
  inversion H; subst. cbn. lia.
Qed.

(** AllowRounding, target scale below the decimal's scale: the result is the nearest multiple, ties away
    from zero, or ValueOverflow when that does not fit u64 / is negative and non-zero *)
Theorem conv_round_spec : forall x d, decimal_ok x = true -> d < d_scale x ->
  try_from_decimal x d AllowRounding =
  let q := round_half_up (d_m x) (10 ^ (d_scale x - d)) in
  if (d_neg x && negb (q =? 0)) || (U64MAX <? q) then CErr EValueOverflow
  else COk {| amt_value := q; amt_decimals := d |}.
Proof.
  intros [neg m sc] d Hok Hlt. unfold decimal_ok in Hok. cbn [d_m d_scale d_neg] in *.
  apply andb_true_iff in Hok. destruct Hok as [Hm Hsc]. apply N.ltb_lt in Hm. apply N.leb_le in Hsc.
  assert (Hq0 : m = 0 -> round_half_up m (10 ^ (sc - d)) = 0).
  { intros ->. unfold round_half_up. rewrite N.add_0_l. apply N.div_small. apply N.div_lt; [apply pow10_pos|lia]. }
  unfold try_from_decimal. cbn [d_m d_scale d_neg].
  assert (R : rescale m sc d = (round_half_up m (10 ^ (sc - d)), d)).
  { destruct (N.eq_dec m 0) as [->|Hne]; [rewrite Hq0 by reflexivity; apply rescale_zero; unfold MAX_SCALE in *; lia|].
    apply rescale_down; assumption. }
  rewrite R. cbv zeta.
  destruct (N.ltb_spec MAX_SCALE d); [unfold MAX_SCALE in *; lia|].
  rewrite N.eqb_refl. cbn [negb].
  destruct ((neg && negb (round_half_up m (10 ^ (sc - d)) =? 0)) || (U64MAX <? round_half_up m (10 ^ (sc - d)))); [reflexivity|].
  destruct (rescale (round_half_up m (10 ^ (sc - d))) d sc) as [m2 sc2]. cbn [is_exact]. rewrite andb_false_r. reflexivity.
Qed.

(** Exact: an accepted conversion preserves the number exactly: m * 10^-scale = value * 10^-decimals,
    and the number is not negative *)
Theorem conv_exact_sound : forall x d a, decimal_ok x = true -> try_from_decimal x d Exact = COk a ->
  amt_decimals a = d /\ same_number (d_m x) (d_scale x) (amt_value a) d /\ (d_neg x = false \/ d_m x = 0).
Proof.
  intros [neg m sc] d a Hok H. unfold decimal_ok in Hok. cbn [d_m d_scale d_neg] in *.
  apply andb_true_iff in Hok. destruct Hok as [Hm Hsc]. apply N.ltb_lt in Hm. apply N.leb_le in Hsc.
  unfold try_from_decimal in H. cbn [d_m d_scale d_neg] in H.
  destruct (rescale m sc d) as [m1 sc1] eqn:R1.
  destruct (N.ltb_spec MAX_SCALE d) as [|Hd]; [discriminate|].
  destruct (N.eqb_spec sc1 d) as [->|]; [|discriminate]. cbn [negb] in H.
  destruct (neg && negb (m1 =? 0)) eqn:Hneg; [discriminate|]. cbn [orb] in H.
  destruct (N.ltb_spec U64MAX m1); [discriminate|].
  destruct (rescale m1 d sc) as [m2 sc2] eqn:R2. cbn [is_exact] in H. rewrite andb_true_r in H.
  destruct (N.eqb_spec m2 m) as [->|]; [|discriminate]. cbn [negb] in H. inversion H; subst a. cbn [amt_decimals amt_value].
  split; [reflexivity|].
  assert (SN : same_number m sc m1 d).
  { unfold same_number.
    destruct (N.eq_dec m 0) as [->|Hm0].
    { rewrite rescale_zero in R1 by (unfold MAX_SCALE in *; lia). inversion R1. reflexivity. }
    destruct (N.lt_trichotomy sc d) as [Hlt|[->|Hgt]].
    - (* scaled up *)
      destruct (rescale_up m sc d Hm0 Hlt) as (i & Hi & E & _). rewrite E in R1. inversion R1; subst m1.
      assert (Ei : N.of_nat i = d - sc) by lia. rewrite Ei.
      rewrite N.pow_add_r. ring.
    - unfold rescale in R1. rewrite N.eqb_refl in R1. inversion R1. reflexivity.
    - (* scaled down: the rounded value multiplied back must be the mantissa *)
      rewrite rescale_down in R1 by assumption. injection R1 as Eq.
      set (k := 10 ^ (sc - d)) in *.
      assert (Hk : 0 < k) by apply pow10_pos.
      pose proof (round_half_up_nearest m (sc - d) ltac:(lia)) as [Hhi Hlo]. fold k in Hhi, Hlo. rewrite Eq in Hhi, Hlo.
      assert (Hsplit : 10 ^ sc = k * 10 ^ d).
      { subst k. rewrite <- N.pow_add_r. f_equal. lia. }
      destruct (N.eq_dec m1 0) as [->|Hm1].
      { rewrite rescale_zero in R2 by (unfold MAX_SCALE in *; lia). inversion R2. lia. }
      destruct (rescale_up m1 d sc Hm1 Hgt) as (i & Hi & E & _). rewrite E in R2. injection R2 as Em Es.
      destruct (N.eq_dec (N.of_nat i) (sc - d)) as [Ei|Hne].
      + rewrite Hsplit. rewrite <- Em, Ei. fold k. ring.
      + exfalso.
        assert (Ht : k = 10 ^ N.of_nat i * 10 ^ (sc - d - N.of_nat i)).
        { subst k. rewrite <- N.pow_add_r. f_equal. lia. }
        assert (H10 : 10 <= 10 ^ (sc - d - N.of_nat i)).
        { replace (sc - d - N.of_nat i) with (N.succ (N.pred (sc - d - N.of_nat i))) by lia.
          rewrite N.pow_succ_r'. pose proof (pow10_pos (N.pred (sc - d - N.of_nat i))). lia. }
        pose proof (pow10_pos (N.of_nat i)).
        set (p := 10 ^ N.of_nat i) in *. set (t := 10 ^ (sc - d - N.of_nat i)) in *.
        (* m = m1*p, k = p*t, t >= 10: 2*m1*p*t <= 2*m1*p + p*t and m1 >= 1 *)
        subst m. rewrite Ht in Hhi. nia. }
  split; [exact SN|].
  destruct neg; [|left; reflexivity]. right. cbn [andb] in Hneg.
  destruct (N.eqb_spec m1 0) as [->|]; [|discriminate]. unfold same_number in SN.
  rewrite N.mul_0_l in SN. apply N.eq_mul_0 in SN. destruct SN as [|C]; [assumption|]. pose proof (pow10_pos d). lia.
Qed.

(** Exact: a decimal that needs rounding at the requested number of decimals is rejected *)
Theorem conv_exact_rejects_rounding : forall x d, decimal_ok x = true -> d < d_scale x ->
  d_m x mod 10 ^ (d_scale x - d) <> 0 -> exists e, try_from_decimal x d Exact = CErr e.
Proof.
  intros x d Hok Hlt Hmod. destruct (try_from_decimal x d Exact) as [a|e] eqn:E; [|eexists; reflexivity].
  exfalso. destruct (conv_exact_sound x d a Hok E) as (_ & SN & _). unfold same_number in SN.
  apply Hmod. assert (Hs : 10 ^ d_scale x = 10 ^ (d_scale x - d) * 10 ^ d).
  { rewrite <- N.pow_add_r. f_equal. lia. }
  rewrite Hs in SN. pose proof (pow10_pos d).
  assert (Em : d_m x = amt_value a * 10 ^ (d_scale x - d)) by nia.
  rewrite Em. apply N.mod_mul. apply N.pow_nonzero. lia.
Qed.

(** Exact is complete: every non-negative decimal whose number is [v * 10^-d] with [v] a u64 and
    [d <= 28] is converted to exactly [(v, d)] - under both rules *)
Theorem conv_exact_complete : forall x d v r, decimal_ok x = true -> d <= MAX_SCALE -> v <= U64MAX ->
  (d_neg x = false \/ d_m x = 0) -> same_number (d_m x) (d_scale x) v d ->
  try_from_decimal x d r = COk {| amt_value := v; amt_decimals := d |}.
Proof.
  intros [neg m sc] d v r Hok Hd Hv Hneg SN. unfold decimal_ok in Hok. cbn [d_m d_scale d_neg] in *.
  apply andb_true_iff in Hok. destruct Hok as [Hm Hsc]. apply N.ltb_lt in Hm. apply N.leb_le in Hsc.
  unfold same_number in SN.
  assert (HU : U64MAX < M96) by (vm_compute; reflexivity).
  assert (R1 : rescale m sc d = (v, d) /\ rescale v d sc = (m, sc)).
  { destruct (N.lt_trichotomy sc d) as [Hlt|[->|Hgt]].
    - assert (Hs : 10 ^ d = 10 ^ (d - sc) * 10 ^ sc) by (rewrite <- N.pow_add_r; f_equal; lia).
      pose proof (pow10_pos sc). assert (Ev : v = m * 10 ^ (d - sc)) by (rewrite Hs in SN; nia).
      split.
      + rewrite rescale_up_full by (try lia). rewrite <- Ev. reflexivity.
      + destruct (N.eq_dec v 0) as [Hv0|Hv0].
        { assert (m = 0). { pose proof (pow10_pos (d - sc)). nia. } subst. apply rescale_zero; unfold MAX_SCALE in *; lia. }
        rewrite rescale_down by assumption.
        f_equal. rewrite Ev. unfold round_half_up.
        symmetry. apply (N.div_unique _ _ _ (10 ^ (d - sc) / 2)); [|lia].
        apply N.div_lt; [apply pow10_pos|lia].
    - pose proof (pow10_pos d). assert (m = v) by nia. subst. unfold rescale. rewrite N.eqb_refl. split; reflexivity.
    - assert (Hs : 10 ^ sc = 10 ^ (sc - d) * 10 ^ d) by (rewrite <- N.pow_add_r; f_equal; lia).
      pose proof (pow10_pos d). assert (Em : m = v * 10 ^ (sc - d)) by (rewrite Hs in SN; nia).
      split.
      + destruct (N.eq_dec m 0) as [Hm0|Hm0].
        { assert (v = 0). { pose proof (pow10_pos (sc - d)). nia. } subst. apply rescale_zero; unfold MAX_SCALE in *; lia. }
        rewrite rescale_down by assumption. f_equal. rewrite Em. unfold round_half_up.
        symmetry. apply (N.div_unique _ _ _ (10 ^ (sc - d) / 2)); [|lia].
        apply N.div_lt; [apply pow10_pos|lia].
      + rewrite rescale_up_full by (try lia). rewrite <- Em. reflexivity. }
  destruct R1 as [R1 R2]. unfold try_from_decimal. cbn [d_m d_scale d_neg]. rewrite R1.
  destruct (N.ltb_spec MAX_SCALE d); [lia|]. rewrite N.eqb_refl. cbn [negb].
  assert (Hn : neg && negb (v =? 0) = false).
  { destruct Hneg as [-> | ->]; [reflexivity|]. pose proof (pow10_pos sc). pose proof (pow10_pos d).
    assert (v = 0) by nia. subst. rewrite andb_false_r. reflexivity. }
  rewrite Hn. cbn [orb]. destruct (N.ltb_spec U64MAX v); [lia|]. rewrite R2, N.eqb_refl. reflexivity.
Qed.

(** AllowRounding and Exact agree when the target has at least as many decimals *)
Theorem conv_round_is_exact_when_no_rounding : forall x d, decimal_ok x = true -> d_scale x <= d ->
  try_from_decimal x d AllowRounding = try_from_decimal x d Exact.
Proof.
  intros [neg m sc] d Hok Hle. unfold decimal_ok in Hok. cbn [d_m d_scale d_neg] in *.
  apply andb_true_iff in Hok. destruct Hok as [Hm Hsc]. apply N.ltb_lt in Hm. apply N.leb_le in Hsc.
  unfold try_from_decimal. cbn [d_m d_scale d_neg].
  destruct (rescale m sc d) as [m1 sc1] eqn:R1.
  destruct (MAX_SCALE <? d) eqn:Hd; [reflexivity|]. apply N.ltb_ge in Hd.
  destruct (N.eqb_spec sc1 d) as [->|]; [|reflexivity]. cbn [negb].
  destruct ((neg && negb (m1 =? 0)) || (U64MAX <? m1)); [reflexivity|].
  destruct (rescale m1 d sc) as [m2 sc2] eqn:R2. cbn [is_exact]. rewrite andb_false_r, andb_true_r.
  assert (E : m2 = m); [|rewrite E, N.eqb_refl; reflexivity].
  destruct (N.eq_dec sc d) as [->|Hne].
  { unfold rescale in R1, R2. rewrite N.eqb_refl in R1, R2. inversion R1; subst. inversion R2. reflexivity. }
  destruct (N.eq_dec m 0) as [->|Hm0].
  { rewrite rescale_zero in R1 by (unfold MAX_SCALE in *; lia). inversion R1; subst.
    rewrite rescale_zero in R2 by (unfold MAX_SCALE in *; lia). inversion R2. reflexivity. }
  destruct (rescale_up m sc d Hm0 ltac:(lia)) as (i & Hi & E & _). rewrite E in R1. injection R1 as Em Es.
  assert (Ei : N.of_nat i = d - sc) by lia.
  assert (Hm1 : m1 <> 0). { rewrite <- Em. pose proof (pow10_pos (N.of_nat i)). nia. }
  rewrite rescale_down in R2 by (try assumption; lia). injection R2 as E2 _.
  rewrite <- E2, <- Em, Ei. unfold round_half_up.
  symmetry. apply (N.div_unique _ _ _ (10 ^ (d - sc) / 2)); [|lia].
  apply N.div_lt; [apply pow10_pos|lia].
Qed.

(** more than 28 decimals: always RustDecimal(ScaleExceedsMaximumPrecision) *)
Theorem conv_beyond_scale : forall x d r, MAX_SCALE < d -> try_from_decimal x d r = CErr ERustDecimal.
Proof.
  intros x d r H. unfold try_from_decimal. destruct (rescale (d_m x) (d_scale x) d).
  destruct (N.ltb_spec MAX_SCALE d); [reflexivity|lia].
Qed.

(** * [try_to_rust_decimal] and back *)
Theorem to_decimal_roundtrip : forall v d r, v <= U64MAX -> d <= MAX_SCALE ->
  let x := {| d_neg := false; d_m := v; d_scale := d |} in
  try_to_decimal {| amt_value := v; amt_decimals := d |} = Some x /\ decimal_ok x = true
  /\ try_from_decimal x d r = COk {| amt_value := v; amt_decimals := d |}.
Proof.
  intros v d r Hv Hd x.
  assert (HU : U64MAX < M96) by (vm_compute; reflexivity).
  assert (Hok : decimal_ok x = true).
  { unfold decimal_ok, x. cbn. apply andb_true_iff. split; [apply N.ltb_lt; lia|apply N.leb_le; exact Hd]. }
  split; [|split; [exact Hok|]].
  - unfold try_to_decimal. cbn [amt_decimals amt_value].
    destruct (N.ltb_spec MAX_SCALE d); [lia|]. destruct (N.leb_spec M96 v); [lia|]. reflexivity.
  - apply conv_exact_complete; try assumption; [left; reflexivity|]. unfold same_number, x. cbn. reflexivity.
Qed.

Theorem to_decimal_beyond_scale : forall a, MAX_SCALE < amt_decimals a -> try_to_decimal a = None.
Proof. intros a H. unfold try_to_decimal. destruct (N.ltb_spec MAX_SCALE (amt_decimals a)); [reflexivity|lia]. Qed.

(** * At a fixed number of decimals the value is determined by the number: unique representation *)
Theorem amount_number_unique : forall v1 v2 d, same_number v1 d v2 d -> v1 = v2.
Proof. intros v1 v2 d H. unfold same_number in H. pose proof (pow10_pos d). nia. Qed.
