(** C17 - binary32: every NORMAL single pattern, zero and infinity is the 4-byte (or shorter) encoding of the
    double it widens to: [cand32 (widen32 x) = x], hence [fencode (widen32 x)] never uses 8 bytes. *)
From Coq Require Import NArith List Bool Lia.
From CB Require Import Cbor.FloatBits.
Local Open Scope N_scope.

Lemma make_fields : forall s e m, s < 2 -> e < 2048 -> m < 2 ^ 52 ->
  f64_sign (f64_make s e m) = s /\ f64_exp (f64_make s e m) = e /\ f64_man (f64_make s e m) = m.
Proof.
  intros s e m Hs He Hm. unfold f64_sign, f64_exp, f64_man, f64_make.
  rewrite !N.shiftl_mul_pow2. change 2047 with (N.ones 11). rewrite !N.land_ones, !N.shiftr_div_pow2.
  change (2 ^ 63) with 9223372036854775808 in *. change (2 ^ 52) with 4503599627370496 in *. change (2 ^ 11) with 2048.
  repeat split.
  - symmetry. apply (N.div_unique _ _ _ (e * 4503599627370496 + m)); lia.
  - assert (E : (s * 9223372036854775808 + e * 4503599627370496 + m) / 4503599627370496 = s * 2048 + e).
    { symmetry. apply (N.div_unique _ _ _ m); lia. }
    rewrite E. symmetry. apply (N.mod_unique _ _ s); lia.
  - symmetry. apply (N.mod_unique _ _ (s * 2048 + e)); lia.
Qed.

Theorem single_normal_candidate : forall x, x < 2 ^ 32 ->
  let e := N.land (N.shiftr x 23) 255 in 1 <= e <= 254 -> cand32 (widen32 x) = x.
Proof.
  intros x Hx e He. subst e.
  change 255 with (N.ones 8) in He. rewrite N.land_ones, N.shiftr_div_pow2 in He.
  change (2 ^ 32) with 4294967296 in Hx. change (2 ^ 23) with 8388608 in He. change (2 ^ 8) with 256 in He.
  set (s := x / 2147483648). set (e := (x / 8388608) mod 256) in *. set (m := x mod 8388608).
  assert (Hs : s < 2) by (apply N.div_lt_upper_bound; lia).
  assert (Hm : m < 8388608) by (apply N.mod_lt; lia).
  assert (Ex : x = s * 2147483648 + e * 8388608 + m).
  { subst s e m. pose proof (N.div_mod x 8388608 ltac:(lia)) as D1.
    pose proof (N.div_mod (x / 8388608) 256 ltac:(lia)) as D2.
    assert (E3 : x / 8388608 / 256 = x / 2147483648) by (rewrite N.div_div by lia; reflexivity).
    rewrite E3 in D2. lia. }
  unfold widen32, widen.
  change 255 with (N.ones 8). change 8388607 with (N.ones 23).
  rewrite !N.land_ones, !N.shiftr_div_pow2.
  change (2 ^ 31) with 2147483648. change (2 ^ 23) with 8388608. change (2 ^ 8) with 256.
  fold s e m. change (N.ones 8) with 255.
  destruct (N.eqb_spec e 255); [lia|]. destruct (N.eqb_spec e 0); [lia|].
  change (52 - 23) with 29. rewrite N.shiftl_mul_pow2. change (2 ^ 29) with 536870912.
  assert (Hm' : m * 536870912 < 2 ^ 52) by (change (2 ^ 52) with 4503599627370496; lia).
  destruct (make_fields s (e + 896) (m * 536870912) Hs ltac:(lia) Hm') as (F1 & F2 & F3).
  unfold cand32, cand. cbv zeta. rewrite F1, F2, F3.
  destruct (N.eqb_spec (e + 896) 2047); [lia|].
  destruct (N.leb_spec (255 + 896) (e + 896)); [lia|].
  destruct (N.ltb_spec 896 (e + 896)); [|lia].
  change (23 =? 10) with false. cbv iota. change (52 - 23) with 29. change (23 + 8) with 31.
  rewrite !N.shiftl_mul_pow2, N.shiftr_div_pow2.
  change (2 ^ 31) with 2147483648. change (2 ^ 23) with 8388608. change (2 ^ 29) with 536870912.
  rewrite N.div_mul by lia. replace (e + 896 - 896) with e by lia. lia.
Qed.

(** so the double a normal single widens to is never written in 8 bytes, and when it is written in 4 the payload is the single *)
Theorem single_normal_not_wide : forall x, x < 2 ^ 32 -> 1 <= N.land (N.shiftr x 23) 255 <= 254 ->
  fst (fencode (widen32 x)) = 2 \/ fencode (widen32 x) = (4, x).
Proof.
  intros x Hx He. pose proof (single_normal_candidate x Hx He) as C. unfold fencode.
  destruct (widen16 (cand16 (widen32 x)) =? widen32 x); [left; reflexivity|].
  rewrite C, N.eqb_refl. right. reflexivity.
Qed.
