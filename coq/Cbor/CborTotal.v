(** C17 - the decoder is total (fuel = a function of the input length never runs out), makes
    progress, and its ghost allocation counter is bounded linearly in the input length - on the
    success path and on every error path. *)
From Coq Require Import NArith PeanoNat List Bool Lia.
From CB Require Import Cbor.CborCore Cbor.CborProofs.
Import ListNotations.
Local Open Scope N_scope.

Arguments N.add : simpl never.
Arguments N.sub : simpl never.
Arguments N.mul : simpl never.
Arguments N.div : simpl never.
Arguments N.modulo : simpl never.
Arguments N.eqb : simpl never.
Arguments N.ltb : simpl never.
Arguments N.leb : simpl never.
Arguments N.min : simpl never.

Definition K : N := 8256.        (* 2 * MAX_PRE + 2 * VALUE_SIZE *)
Definition L (bs : list N) : N := N.of_nat (length bs).

(** ** reading headers makes progress *)
Lemma pull_arg_shorter : forall info r a r', pull_arg info r = Some (a, r') -> (length r' <= length r)%nat.
Proof.
  intros info r a r' H. unfold pull_arg in H.
  repeat match type of H with (if ?c then _ else _) = _ => destruct c end; try discriminate;
  try (inversion H; subst; lia);
  match type of H with
  | match take_be ?k 0 r with _ => _ end = _ =>
    destruct (take_be k 0 r) as [[n' r'']|] eqn:T; [|discriminate]; inversion H; subst;
    apply take_be_consumes in T; lia
  end.
Qed.

Lemma pull_shorter : forall bs h r, pull bs = Some (h, r) -> (length r < length bs)%nat.
Proof.
  intros bs h r H. unfold pull in H. destruct bs as [|b r0]; [discriminate|].
  destruct (pull_arg (b mod 32) r0) as [[a r']|] eqn:E; [|discriminate].
  destruct (classify (b / 32) (b mod 32) a); [|discriminate]. inversion H; subst.
  apply pull_arg_shorter in E. cbn [length]. lia.
Qed.

Lemma take_spec : forall n bs d r, take n bs = Some (d, r) -> bs = d ++ r /\ L d = n.
Proof.
  intros n bs d r H. unfold take in H. destruct (N.leb_spec n (len bs)); [|discriminate].
  inversion H; subst. split; [symmetry; apply firstn_skipn|].
  unfold L. rewrite firstn_length. unfold len in *. lia.
Qed.

(** ** one definite segment *)
Lemma read_seg_spec : forall txt n r,
  match read_seg txt n r with
  | Ok d r' a => r = d ++ r' /\ L d = n /\ a = n
  | Err a => a <= L r + 4096
  | OutOfFuel => False
  end.
Proof.
  intros. unfold read_seg. destruct (take n r) as [[d r']|] eqn:T.
  - apply take_spec in T. destruct T as [E Ld].
    destruct (txt && negb (utf8_valid d)).
    + subst r. unfold L in *. rewrite app_length. lia.
    + auto.
  - unfold MAX_PRE, L, len. lia.
Qed.

(** ** string segments *)
Definition seg_spec (f : nat) (bs : list N) (res : res (list N)) : Prop :=
  match res with
  | Ok _ r a => (length r < length bs)%nat /\ a <= L bs - L r
  | Err a => a <= L bs + 4096
  | OutOfFuel => (f <= length bs)%nat
  end.

Lemma segs_S : forall f txt nested bs, segs (S f) txt nested bs =
  match pull bs with
  | None => Err 0
  | Some (h, r) =>
    let seg (o : option N) :=
      match o with
      | None => segs f txt (nested + 1) r
      | Some n =>
        match read_seg txt n r with
        | Ok d r' a =>
          match segs f txt nested r' with
          | Ok ds r'' a' => Ok (d ++ ds) r'' (a + a')
          | Err a' => Err (a + a')
          | OutOfFuel => OutOfFuel
          end
        | Err a => Err a
        | OutOfFuel => OutOfFuel
        end
      end in
    match h with
    | HBreak => if nested <=? 1 then Ok [] r 0 else segs f txt (nested - 1) r
    | HBytes o => if txt then Err 0 else seg o
    | HText o => if txt then seg o else Err 0
    | _ => Err 0
    end
  end.
Proof. reflexivity. Qed.

Lemma segs_spec : forall f txt nested bs, seg_spec f bs (segs f txt nested bs).
Proof.
  induction f as [|f IH]; intros; [cbn; lia|].
  rewrite segs_S. destruct (pull bs) as [[h r]|] eqn:P; [|cbn; lia].
  apply pull_shorter in P.
  assert (Hseg : forall o, seg_spec (S f) bs
     match o with
     | None => segs f txt (nested + 1) r
     | Some n =>
       match read_seg txt n r with
       | Ok d r' a =>
         match segs f txt nested r' with
         | Ok ds r'' a' => Ok (d ++ ds) r'' (a + a')
         | Err a' => Err (a + a')
         | OutOfFuel => OutOfFuel
         end
       | Err a => Err a
       | OutOfFuel => OutOfFuel
       end
     end).
  { intros [n|].
    - pose proof (read_seg_spec txt n r) as RS. destruct (read_seg txt n r) as [d r' a| a |]; [| cbn; unfold L in *; lia | contradiction].
      destruct RS as (E & Ld & Ea). subst r a.
      specialize (IH txt nested r'). destruct (segs f txt nested r') as [ds r'' a'| a' |]; cbn in *;
        unfold L in *; rewrite app_length in *; lia.
    - specialize (IH txt (nested + 1) r). destruct (segs f txt (nested + 1) r); cbn in *; unfold L in *; lia. }
  destruct h; try (cbn; lia).
  - destruct txt; [cbn; lia|apply Hseg].
  - destruct txt; [apply Hseg|cbn; lia].
  - destruct (nested <=? 1).
    + cbn. unfold L. lia.
    + specialize (IH txt (nested - 1) r). destruct (segs f txt (nested - 1) r); cbn in *; unfold L in *; lia.
Qed.

(** ** data items *)
Definition item_spec (f : nat) (bs : list N) (res : res value) : Prop :=
  match res with
  | Ok _ r a => (length r < length bs)%nat /\ a + 32 <= K * (L bs - L r)
  | Err a => a <= K * L bs + 4096
  | OutOfFuel => (f <= 2 * length bs)%nat
  end.

(** sequences of items: [strict] = at least the break byte is consumed *)
Definition seq_spec {A} (strict : bool) (f : nat) (bs : list N) (res : res A) : Prop :=
  match res with
  | Ok _ r a => (if strict then length r < length bs else length r <= length bs)%nat /\ a <= K * (L bs - L r)
  | Err a => a <= K * L bs + 4096
  | OutOfFuel => (f <= 2 * length bs + 1)%nat
  end.

Lemma dec_elems_indef_S : forall f bs, dec_elems_indef (S f) bs =
  match pull bs with
  | Some (HBreak, r) => Ok [] r 0
  | _ =>
    match dec f bs with
    | Ok v r a =>
      match dec_elems_indef f r with
      | Ok l r' a' => Ok (v :: l) r' (a + VALUE_SIZE + a')
      | Err a' => Err (a + VALUE_SIZE + a')
      | OutOfFuel => OutOfFuel
      end
    | Err a => Err a
    | OutOfFuel => OutOfFuel
    end
  end.
Proof. reflexivity. Qed.

Lemma dec_pairs_indef_S : forall f bs, dec_pairs_indef (S f) bs =
  match pull bs with
  | Some (HBreak, r) => Ok [] r 0
  | _ =>
    match dec f bs with
    | Ok k r a =>
      match dec f r with
      | Ok x r1 a1 =>
        match dec_pairs_indef f r1 with
        | Ok l r' a' => Ok ((k, x) :: l) r' (a + a1 + 2 * VALUE_SIZE + a')
        | Err a' => Err (a + a1 + 2 * VALUE_SIZE + a')
        | OutOfFuel => OutOfFuel
        end
      | Err a1 => Err (a + a1)
      | OutOfFuel => OutOfFuel
      end
    | Err a => Err a
    | OutOfFuel => OutOfFuel
    end
  end.
Proof. reflexivity. Qed.

Definition all_spec (f : nat) : Prop :=
  (forall bs, item_spec f bs (dec f bs)) /\
  (forall n bs, seq_spec false f bs (dec_elems f n bs)) /\
  (forall bs, seq_spec true f bs (dec_elems_indef f bs)) /\
  (forall n bs, seq_spec false f bs (dec_pairs f n bs)) /\
  (forall bs, seq_spec true f bs (dec_pairs_indef f bs)).

Ltac consts := unfold K, L, VALUE_SIZE, MAX_PRE in *; change cap_elems with 128 in *.

Lemma all_spec_holds : forall f, all_spec f.
Proof.
  induction f as [|f (IHd & IHe & IHei & IHp & IHpi)].
  { repeat split; intros; cbn.
    - lia.
    - destruct (n =? 0); cbn; consts; lia.
    - lia.
    - destruct (n =? 0); cbn; consts; lia.
    - lia. }
  assert (Hdec : forall bs, item_spec (S f) bs (dec (S f) bs)).
  { intros bs. rewrite dec_S. destruct (pull bs) as [[h r]|] eqn:P; [|cbn; consts; lia].
    apply pull_shorter in P.
    destruct h as [n|n|[n|]|[n|]|[n|]|[n|]|t|n|w b|]; try (cbn; consts; lia).
    - pose proof (read_seg_spec false n r) as RS. destruct (read_seg false n r) as [d r' a|a|]; [| |contradiction].
      + destruct RS as (E & Ld & Ea). subst. cbn. consts. rewrite app_length in *. lia.
      + cbn. consts. lia.
    - pose proof (segs_spec f false 1 r) as SS. destruct (segs f false 1 r); cbn in *; consts; lia.
    - pose proof (read_seg_spec true n r) as RS. destruct (read_seg true n r) as [d r' a|a|]; [| |contradiction].
      + destruct RS as (E & Ld & Ea). subst. cbn. consts. rewrite app_length in *. lia.
      + cbn. consts. lia.
    - pose proof (segs_spec f true 1 r) as SS. destruct (segs f true 1 r); cbn in *; consts; lia.
    - specialize (IHe n r). destruct (dec_elems f n r); cbn in *; consts; lia.
    - specialize (IHei r). destruct (dec_elems_indef f r); cbn in *; consts; lia.
    - specialize (IHp n r). destruct (dec_pairs f n r); cbn in *; consts; lia.
    - specialize (IHpi r). destruct (dec_pairs_indef f r); cbn in *; consts; lia.
    - specialize (IHd r). destruct (dec f r); cbn in *; consts; lia. }
  split; [exact Hdec|]. repeat split.
  - intros n bs. rewrite dec_elems_S. destruct (n =? 0); [cbn; consts; lia|].
    pose proof (IHd bs) as Hd. destruct (dec f bs) as [v r a|a|]; [| cbn in *; consts; lia | cbn in *; lia].
    specialize (IHe (n - 1) r). destruct (dec_elems f (n - 1) r); cbn in *; consts; lia.
  - intros bs. rewrite dec_elems_indef_S.
    assert (Hgen : seq_spec true (S f) bs
      match dec f bs with
      | Ok v r a =>
        match dec_elems_indef f r with
        | Ok l r' a' => Ok (v :: l) r' (a + VALUE_SIZE + a')
        | Err a' => Err (a + VALUE_SIZE + a')
        | OutOfFuel => OutOfFuel
        end
      | Err a => Err a
      | OutOfFuel => OutOfFuel
      end).
    { pose proof (IHd bs) as Hd. destruct (dec f bs) as [v r a|a|]; [| cbn in *; consts; lia | cbn in *; lia].
      specialize (IHei r). destruct (dec_elems_indef f r); cbn in *; consts; lia. }
    destruct (pull bs) as [[h r]|] eqn:P; [|exact Hgen].
    destruct h; try exact Hgen. apply pull_shorter in P. cbn. consts. lia.
  - intros n bs. rewrite dec_pairs_S. destruct (n =? 0); [cbn; consts; lia|].
    pose proof (IHd bs) as Hd. destruct (dec f bs) as [k r a|a|]; [| cbn in *; consts; lia | cbn in *; lia].
    pose proof (IHd r) as Hx. destruct (dec f r) as [x r1 a1|a1|]; [| cbn in *; consts; lia | cbn in *; lia].
    specialize (IHp (n - 1) r1). destruct (dec_pairs f (n - 1) r1); cbn in *; consts; lia.
  - intros bs. rewrite dec_pairs_indef_S.
    assert (Hgen : seq_spec true (S f) bs
      match dec f bs with
      | Ok k r a =>
        match dec f r with
        | Ok x r1 a1 =>
          match dec_pairs_indef f r1 with
          | Ok l r' a' => Ok ((k, x) :: l) r' (a + a1 + 2 * VALUE_SIZE + a')
          | Err a' => Err (a + a1 + 2 * VALUE_SIZE + a')
          | OutOfFuel => OutOfFuel
          end
        | Err a1 => Err (a + a1)
        | OutOfFuel => OutOfFuel
        end
      | Err a => Err a
      | OutOfFuel => OutOfFuel
      end).
    { pose proof (IHd bs) as Hd. destruct (dec f bs) as [k r a|a|]; [| cbn in *; consts; lia | cbn in *; lia].
      pose proof (IHd r) as Hx. destruct (dec f r) as [x r1 a1|a1|]; [| cbn in *; consts; lia | cbn in *; lia].
      specialize (IHpi r1). destruct (dec_pairs_indef f r1); cbn in *; consts; lia. }
    destruct (pull bs) as [[h r]|] eqn:P; [|exact Hgen].
    destruct h; try exact Hgen. apply pull_shorter in P. cbn. consts. lia.
Qed.

(** * Theorems *)
Theorem dec_total : forall bs, decode_prefix bs <> OutOfFuel.
Proof.
  intros bs H. unfold decode_prefix, fuel_for in H.
  destruct (all_spec_holds (S (2 * length bs))) as [Hd _]. specialize (Hd bs). rewrite H in Hd. cbn in Hd. lia.
Qed.

Theorem decode_top_total : forall bs, decode_top bs <> OutOfFuel.
Proof.
  intros bs H. unfold decode_top in H. pose proof (dec_total bs).
  destruct (decode_prefix bs) as [v [|b r] a|a|]; try discriminate. contradiction.
Qed.

Theorem dec_progress : forall bs v r a, decode_prefix bs = Ok v r a -> (length r < length bs)%nat.
Proof.
  intros bs v r a H. unfold decode_prefix in H.
  destruct (all_spec_holds (fuel_for bs)) as [Hd _]. specialize (Hd bs). rewrite H in Hd. cbn in Hd. tauto.
Qed.

Theorem decode_alloc_bounded : forall bs, alloc_of (decode_top bs) <= K * L bs + 4096.
Proof.
  intros bs. unfold decode_top, decode_prefix.
  destruct (all_spec_holds (fuel_for bs)) as [Hd _]. specialize (Hd bs).
  destruct (dec (fuel_for bs) bs) as [v [|b r] a|a|]; cbn in *; consts; lia.
Qed.

(** on the success path the bound is in terms of the consumed bytes only *)
Theorem decode_alloc_consumed : forall bs v r a, decode_prefix bs = Ok v r a -> a + 32 <= K * (L bs - L r).
Proof.
  intros bs v r a H. unfold decode_prefix in H.
  destruct (all_spec_holds (fuel_for bs)) as [Hd _]. specialize (Hd bs). rewrite H in Hd. cbn in Hd. tauto.
Qed.
