(** C17 - floats as bit patterns: the width selection of the encoder round-trips bit for bit for EVERY
    64-bit pattern (NaNs included), and it picks the shortest width. *)
From Coq Require Import NArith List Bool Lia.
From CB Require Import Cbor.FloatBits.
Import ListNotations.
Local Open Scope N_scope.

(** decode (encode f) = f, bit for bit, for every pattern: the encoder only narrows when widening the
    narrowed pattern gives the same 64 bits back *)
Theorem float_roundtrip : forall b, fdecode (fst (fencode b)) (snd (fencode b)) = b.
Proof.
  intros b. unfold fencode.
  destruct (N.eqb_spec (widen16 (cand16 b)) b) as [E|_]; [exact E|].
  destruct (N.eqb_spec (widen32 (cand32 b)) b) as [E|_]; [exact E|]. reflexivity.
Qed.

Theorem fencode_width : forall b, let w := fst (fencode b) in w = 2 \/ w = 4 \/ w = 8.
Proof.
  intros b. unfold fencode. destruct (widen16 (cand16 b) =? b); [left; reflexivity|].
  destruct (widen32 (cand32 b) =? b); [right; left; reflexivity|right; right; reflexivity].
Qed.

(** whatever is written in 2 (4) bytes is a double that some half (single) pattern widens to, so a double
    that is NOT such a value is never narrowed *)
Theorem fencode_narrow_only_if_representable : forall b w p, fencode b = (w, p) ->
  (w = 2 -> widen16 p = b) /\ (w = 4 -> widen32 p = b) /\ (w = 8 -> p = b).
Proof.
  intros b w p H. unfold fencode in H.
  destruct (N.eqb_spec (widen16 (cand16 b)) b) as [E|_].
  { inversion H; subst. repeat split; intros; try discriminate; exact E. }
  destruct (N.eqb_spec (widen32 (cand32 b)) b) as [E|_]; inversion H; subst; repeat split; intros; try discriminate; auto.
Qed.

(** * binary16: finite sweep over all 65536 patterns.  Every half pattern that is not a signalling NaN is the
    2-byte encoding of the double it widens to (so: shortest width chosen, and decode . encode . decode = decode);
    a signalling NaN widens to the quiet NaN, whose encoding is the quiet half pattern. *)
Definition half_ok (h : N) : bool :=
  let '(w, p) := fencode (widen16 h) in
  (w =? 2) && (if is_snan16 h then p =? h + 512 else p =? h).

Fixpoint upto (n : nat) : list N := match n with O => [] | S k => N.of_nat k :: upto k end.

Lemma upto_in : forall n x, x < N.of_nat n -> In x (upto n).
Proof.
  induction n; intros x H; [lia|]. cbn [upto]. destruct (N.eq_dec x (N.of_nat n)); [left; auto|right; apply IHn; lia].
Qed.

Lemma half_sweep : forallb (fun hi => forallb (fun lo => half_ok (hi * 256 + lo)) (upto 256)) (upto 256) = true.
Proof. vm_compute. reflexivity. Qed.

Lemma half_swept : forall h, h < 65536 -> half_ok h = true.
Proof.
  intros h Hh. pose proof half_sweep as S. rewrite forallb_forall in S.
  assert (Hhi : h / 256 < N.of_nat 256) by (apply N.div_lt_upper_bound; [lia|]; change (N.of_nat 256) with 256; lia).
  specialize (S (h / 256) (upto_in 256 _ Hhi)). rewrite forallb_forall in S.
  assert (Hlo : h mod 256 < N.of_nat 256) by (apply N.mod_lt; lia).
  specialize (S (h mod 256) (upto_in 256 _ Hlo)).
  replace (h / 256 * 256 + h mod 256) with h in S; [exact S|].
  rewrite (N.div_mod h 256) at 1 by lia. lia.
Qed.

Theorem half_shortest : forall h, h < 65536 -> is_snan16 h = false -> fencode (widen16 h) = (2, h).
Proof.
  intros h Hh Hs. pose proof (half_swept h Hh) as S. unfold half_ok in S. rewrite Hs in S.
  destruct (fencode (widen16 h)) as [w p]. apply andb_true_iff in S. destruct S as [A B].
  apply N.eqb_eq in A, B. subst. reflexivity.
Qed.

Theorem half_snan_quieted : forall h, h < 65536 -> is_snan16 h = true -> fencode (widen16 h) = (2, h + 512).
Proof.
  intros h Hh Hs. pose proof (half_swept h Hh) as S. unfold half_ok in S. rewrite Hs in S.
  destruct (fencode (widen16 h)) as [w p]. apply andb_true_iff in S. destruct S as [A B].
  apply N.eqb_eq in A, B. subst. reflexivity.
Qed.
