(** C17 - the header reader [CborCore.pull] and writer [Header.encode_hdr] (ciborium-ll 0.2.2 dec.rs /
    hdr.rs / enc.rs): exact accept set, exact number of consumed bytes, round trip for every header,
    shortest form written, every non-shortest form accepted. *)
From Coq Require Import NArith PeanoNat List Bool Lia.
From CB Require Import Cbor.CborCore Cbor.CborProofs Cbor.Header.
Import ListNotations.
Local Open Scope N_scope.

Arguments N.add : simpl never.
Arguments N.sub : simpl never.
Arguments N.mul : simpl never.
Arguments N.div : simpl never.
Arguments N.modulo : simpl never.
Arguments N.eqb : simpl never.
Arguments N.ltb : simpl never.
Arguments N.leb : simpl never.
Arguments N.pow : simpl never.

Lemma take_be_none : forall k acc r, take_be k acc r = None <-> (length r < k)%nat.
Proof.
  induction k; intros acc r; cbn [take_be].
  - split; [discriminate|lia].
  - destruct r as [|b r']; cbn [length]; [split; [lia|reflexivity]|]. rewrite IHk. lia.
Qed.

(** number of argument bytes *)
Definition arg_width (info : N) : nat := (head_size info - 1)%nat.

Lemma pull_arg_cases : forall info r,
  pull_arg info r =
  if info <? 24 then Some (Some info, r)
  else if (24 <=? info) && (info <=? 27) then
    match take_be (arg_width info) 0 r with Some (n, r') => Some (Some n, r') | None => None end
  else if info =? 31 then Some (None, r) else None.
Proof.
  intros. unfold pull_arg, arg_width, head_size.
  destruct (N.ltb_spec info 24); [reflexivity|].
  destruct (N.eqb_spec info 24) as [->|]; [reflexivity|].
  destruct (N.eqb_spec info 25) as [->|]; [reflexivity|].
  destruct (N.eqb_spec info 26) as [->|]; [reflexivity|].
  destruct (N.eqb_spec info 27) as [->|]; [reflexivity|].
  destruct (N.leb_spec 24 info); [|lia]. destruct (N.leb_spec info 27); [lia|]. reflexivity.
Qed.

(** * Exact reject set of the argument reader: reserved additional information 28..30 (and anything above 31),
    or fewer argument bytes than announced *)
Theorem pull_arg_none_iff : forall info r,
  pull_arg info r = None <->
  (28 <= info /\ info <> 31) \/ (24 <= info <= 27 /\ (length r < arg_width info)%nat).
Proof.
  intros. rewrite pull_arg_cases.
  destruct (N.ltb_spec info 24). { split; [discriminate|lia]. }
  destruct (N.leb_spec 24 info); [|lia]. destruct (N.leb_spec info 27); cbn [andb].
  - destruct (take_be (arg_width info) 0 r) as [[n r']|] eqn:T.
    + split; [discriminate|]. intros [|[_ L]]; [lia|]. apply (proj2 (take_be_none _ 0 _)) in L. congruence.
    + apply (proj1 (take_be_none _ _ _)) in T. split; [intros _; right; lia|reflexivity].
  - destruct (N.eqb_spec info 31). { split; [discriminate|lia]. } split; [intros _; left; lia|reflexivity].
Qed.

(** * Exact number of bytes consumed: 1, 2, 3, 5 or 9, determined by the additional information *)
Theorem pull_consumes : forall bs h r, pull bs = Some (h, r) ->
  exists b tl, bs = b :: tl /\ length bs = (head_size (b mod 32) + length r)%nat
  /\ In (head_size (b mod 32)) [1; 2; 3; 5; 9]%nat.
Proof.
  intros bs h r H. destruct bs as [|b tl]; [discriminate|]. exists b, tl. split; [reflexivity|].
  unfold pull in H. destruct (pull_arg (b mod 32) tl) as [[a r']|] eqn:PA; [|discriminate].
  destruct (classify (b / 32) (b mod 32) a); [|discriminate]. inversion H; subst r'. clear H.
  rewrite pull_arg_cases in PA. cbn [length]. unfold head_size.
  destruct (N.ltb_spec (b mod 32) 24). { inversion PA; subst. split; [lia|cbn; auto]. }
  destruct (N.leb_spec 24 (b mod 32)); [|lia]. destruct (N.leb_spec (b mod 32) 27); cbn [andb] in PA.
  - destruct (take_be (arg_width (b mod 32)) 0 tl) as [[n r']|] eqn:T; [|discriminate]. inversion PA; subst.
    apply take_be_consumes in T. unfold arg_width, head_size in T.
    destruct (N.ltb_spec (b mod 32) 24); [lia|].
    destruct (N.eqb_spec (b mod 32) 24); [split; [lia|cbn; auto]|].
    destruct (N.eqb_spec (b mod 32) 25); [split; [lia|cbn; auto]|].
    destruct (N.eqb_spec (b mod 32) 26); [split; [lia|cbn; auto]|].
    destruct (N.eqb_spec (b mod 32) 27); [split; [lia|cbn; auto 6]|]. lia.
  - destruct (N.eqb_spec (b mod 32) 31); [|discriminate]. inversion PA; subst.
    destruct (N.eqb_spec (b mod 32) 24); [lia|]. destruct (N.eqb_spec (b mod 32) 25); [lia|].
    destruct (N.eqb_spec (b mod 32) 26); [lia|]. destruct (N.eqb_spec (b mod 32) 27); [lia|]. split; [lia|cbn; auto].
Qed.

(** * decode (encode h) = h for every header (all 64-bit arguments, every Simple, every float payload) *)
Lemma pull_indef : forall m rest h, classify m 31 None = Some h -> m < 8 -> pull ((m * 32 + 31) :: rest) = Some (h, rest).
Proof.
  intros m rest h C Hm. unfold pull. destruct (byte_split m 31 ltac:(lia)) as [D M]. rewrite D, M.
  change (pull_arg 31 rest) with (Some (@None N, rest)). cbv beta iota. rewrite C. reflexivity.
Qed.

Lemma pull_float : forall info k bits rest w, (info = 25 /\ k = 2%nat /\ w = 2) \/ (info = 26 /\ k = 4%nat /\ w = 4) \/ (info = 27 /\ k = 8%nat /\ w = 8) ->
  bits < 256 ^ N.of_nat k -> pull ((224 + info) :: be_bytes k bits ++ rest) = Some (HFloat w bits, rest).
Proof.
  intros info k bits rest w Hc Hb.
  destruct Hc as [(-> & -> & ->)|[(-> & -> & ->)|(-> & -> & ->)]]; unfold pull.
  - change ((224 + 25) mod 32) with 25. change ((224 + 25) / 32) with 7.
    change (pull_arg 25 (be_bytes 2 bits ++ rest)) with
      (match take_be 2 0 (be_bytes 2 bits ++ rest) with Some (n, r') => Some (Some n, r') | None => None end).
    rewrite take_be_be_bytes by exact Hb. reflexivity.
  - change ((224 + 26) mod 32) with 26. change ((224 + 26) / 32) with 7.
    change (pull_arg 26 (be_bytes 4 bits ++ rest)) with
      (match take_be 4 0 (be_bytes 4 bits ++ rest) with Some (n, r') => Some (Some n, r') | None => None end).
    rewrite take_be_be_bytes by exact Hb. reflexivity.
  - change ((224 + 27) mod 32) with 27. change ((224 + 27) / 32) with 7.
    change (pull_arg 27 (be_bytes 8 bits ++ rest)) with
      (match take_be 8 0 (be_bytes 8 bits ++ rest) with Some (n, r') => Some (Some n, r') | None => None end).
    rewrite take_be_be_bytes by exact Hb. reflexivity.
Qed.

Theorem pull_encode_hdr : forall h rest, hdr_okb h = true -> pull (encode_hdr h ++ rest) = Some (h, rest).
Proof.
  intros h rest Hok.
  assert (LH : forall m o h', opt_ok o = true -> m < 8 ->
             (forall n, hdr_of m n = Some (h' (Some n))) -> classify m 31 None = Some (h' None) ->
             pull (len_head m o ++ rest) = Some (h' o, rest)).
  { intros m o h' Ho Hm Hd Hc. destruct o as [n|]; cbn [len_head].
    - apply pull_head; [apply N.ltb_lt; exact Ho|apply Hd].
    - cbn [app]. apply pull_indef; assumption. }
  destruct h as [n|n|o|o|o|o|n|n|w bits|]; cbn [hdr_okb encode_hdr] in *.
  - apply pull_head; [apply N.ltb_lt; exact Hok|reflexivity].
  - apply pull_head; [apply N.ltb_lt; exact Hok|reflexivity].
  - apply (LH 2 o HBytes); try assumption; try reflexivity; lia.
  - apply (LH 3 o HText); try assumption; try reflexivity; lia.
  - apply (LH 4 o HArray); try assumption; try reflexivity; lia.
  - apply (LH 5 o HMap); try assumption; try reflexivity; lia.
  - apply pull_head; [apply N.ltb_lt; exact Hok|reflexivity].
  - apply N.ltb_lt in Hok. destruct (N.ltb_spec n 24).
    + cbn [app]. change 224 with (7 * 32). apply pull_simple_byte. assumption.
    + cbn [app]. unfold pull. change (248 mod 32) with 24. change (248 / 32) with 7.
      change (pull_arg 24 (n :: rest)) with (Some (Some (0 * 256 + n), rest)).
      replace (0 * 256 + n) with n by lia. reflexivity.
  - apply andb_true_iff in Hok. destruct Hok as [Hw Hb]. apply N.ltb_lt in Hb. unfold float_head.
    destruct (N.eqb_spec w 2) as [->|].
    { cbn [app]. change 249 with (224 + 25). change (N.to_nat 2) with 2%nat. apply pull_float; [auto|exact Hb]. }
    destruct (N.eqb_spec w 4) as [->|].
    { cbn [app]. change 250 with (224 + 26). change (N.to_nat 4) with 4%nat. apply pull_float; [auto|exact Hb]. }
    destruct (N.eqb_spec w 8) as [->|]; [|discriminate].
    cbn [app]. change 251 with (224 + 27). change (N.to_nat 8) with 8%nat. apply pull_float; [auto|exact Hb].
  - reflexivity.
Qed.

(** * The reader accepts EVERY width for every argument (no preferred-serialisation check):
    a head written with additional information 24..27 and any argument that fits is read back as that argument *)
Theorem pull_accepts_any_width : forall m info n rest h, 24 <= info <= 27 -> m < 7 ->
  n < 256 ^ N.of_nat (arg_width info) -> hdr_of m n = Some h ->
  pull (wide_head m info n ++ rest) = Some (h, rest).
Proof.
  intros m info n rest h Hi Hm Hn Hh. unfold wide_head. cbn [app]. unfold pull.
  destruct (byte_split m info ltac:(lia)) as [D M]. rewrite D, M.
  rewrite pull_arg_cases. destruct (N.ltb_spec info 24); [lia|].
  destruct (N.leb_spec 24 info); [|lia]. destruct (N.leb_spec info 27); [|lia]. cbn [andb].
  fold (arg_width info). rewrite take_be_be_bytes by exact Hn.
  unfold hdr_of in Hh.
  destruct m as [|p]; [inversion Hh; reflexivity|].
  destruct p as [[[p|p|]|[p|p|]|]|[[p|p|]|[p|p|]|]|]; cbn in Hh; try discriminate Hh; inversion Hh; reflexivity.
Qed.

(** * The writer emits the shortest form: no accepted head carrying the same (non-float) header is shorter *)
Lemma encode_hdr_length_simple : forall n, length (encode_hdr (HSimple n)) = if n <? 24 then 1%nat else 2%nat.
Proof. intros. cbn [encode_hdr]. destruct (n <? 24); reflexivity. Qed.

Theorem encode_hdr_shortest : forall bs h r, Forall (fun b => b < 256) bs -> pull bs = Some (h, r) ->
  (forall w b, h <> HFloat w b) -> (length (encode_hdr h) + length r <= length bs)%nat.
Proof.
  intros bs h r HB H NF. destruct bs as [|b tl]; [discriminate|].
  inversion HB as [|? ? Hb HB']; subst. cbn [length].
  unfold pull in H. destruct (pull_arg (b mod 32) tl) as [[a r']|] eqn:PA; [|discriminate].
  destruct (classify (b / 32) (b mod 32) a) as [h'|] eqn:C; [|discriminate]. inversion H; subst h' r'. clear H.
  assert (LR : (length r <= length tl)%nat).
  { rewrite pull_arg_cases in PA. destruct (b mod 32 <? 24); [inversion PA; lia|].
    destruct ((24 <=? b mod 32) && (b mod 32 <=? 27)).
    - destruct (take_be (arg_width (b mod 32)) 0 tl) as [[n r']|] eqn:T; [|discriminate]. inversion PA; subst.
      apply take_be_consumes in T. lia.
    - destruct (b mod 32 =? 31); [inversion PA; lia|discriminate]. }
  assert (SH : forall n m, a = Some n -> (length (head m n) + length r <= S (length tl))%nat).
  { intros n m ->. apply (head_shortest (b mod 32) tl n r m HB' PA). }
  unfold classify in C.
  destruct (b / 32) as [|p]; [destruct a as [n|]; [|discriminate]; inversion C; subst; cbn [encode_hdr]; apply SH; reflexivity|].
  destruct p as [[[p|p|]|[p|p|]|]|[[p|p|]|[p|p|]|]|]; try discriminate C;
    try (destruct a as [n|]; [|discriminate C]; inversion C; subst; cbn [encode_hdr]; apply SH; reflexivity);
    try (inversion C; subst; cbn [encode_hdr]; destruct a as [n|]; cbn [len_head]; [apply SH; reflexivity|cbn [length]; lia]).
  (* major 7 *)
  destruct a as [n|]; [|inversion C; subst; cbn [encode_hdr length]; lia].
  destruct (N.ltb_spec (b mod 32) 25) as [Hlt|].
  - inversion C; subst. rewrite encode_hdr_length_simple.
    destruct (N.ltb_spec n 24); [lia|].
    rewrite pull_arg_cases in PA. destruct (N.ltb_spec (b mod 32) 24). { inversion PA; subst. lia. }
    assert (E : b mod 32 = 24) by lia. rewrite E in PA. cbn in PA.
    destruct tl as [|x tl']; [discriminate|]. inversion PA; subst. cbn [length]. lia.
  - exfalso. destruct (b mod 32 =? 25); [inversion C; subst; eapply NF; reflexivity|].
    destruct (b mod 32 =? 26); inversion C; subst; eapply NF; reflexivity.
Qed.
