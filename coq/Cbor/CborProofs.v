(** C17 - proofs about the CBOR core model (CborCore.v): round trip for every well-formed value at
    any nesting depth, totality of the decoder, shortest heads, trailing data. *)
From Coq Require Import NArith List Bool Lia.
From CB Require Import Cbor.CborCore.
Import ListNotations.
Local Open Scope N_scope.

Arguments N.add : simpl never.
Arguments N.sub : simpl never.
Arguments N.mul : simpl never.
Arguments N.div : simpl never.
Arguments N.modulo : simpl never.
Arguments N.eqb : simpl never.
Arguments N.ltb : simpl never.
Arguments N.leb : simpl never.
Arguments N.pow : simpl never.
Arguments N.min : simpl never.

(** * Induction principle for the nested type *)
Section ValueInd.
  Variable P : value -> Prop.
  Hypothesis HPos : forall n, P (VPos n).
  Hypothesis HNeg : forall n, P (VNeg n).
  Hypothesis HBytes : forall b, P (VBytes b).
  Hypothesis HText : forall b, P (VText b).
  Hypothesis HArray : forall i l, Forall P l -> P (VArray i l).
  Hypothesis HMap : forall i l, Forall (fun kv => P (fst kv) /\ P (snd kv)) l -> P (VMap i l).
  Hypothesis HTag : forall t v, P v -> P (VTag t v).
  Hypothesis HBool : forall b, P (VBool b).
  Hypothesis HNull : P VNull.
  Hypothesis HSimple : forall n, P (VSimple n).
  Hypothesis HFloat : forall w b, P (VFloat w b).

  Fixpoint value_ind' (v : value) : P v :=
    match v with
    | VPos n => HPos n
    | VNeg n => HNeg n
    | VBytes b => HBytes b
    | VText b => HText b
    | VArray i l =>
      HArray i l ((fix go (l : list value) : Forall P l :=
                     match l with [] => Forall_nil _ | x :: r => Forall_cons _ (value_ind' x) (go r) end) l)
    | VMap i l =>
      HMap i l ((fix go (l : list (value * value)) : Forall (fun kv => P (fst kv) /\ P (snd kv)) l :=
                   match l with
                   | [] => Forall_nil _
                   | (k, x) :: r => Forall_cons _ (conj (value_ind' k) (value_ind' x)) (go r)
                   end) l)
    | VTag t x => HTag t x (value_ind' x)
    | VBool b => HBool b
    | VNull => HNull
    | VSimple n => HSimple n
    | VFloat w b => HFloat w b
    end.
End ValueInd.

(** * Big-endian arguments *)
Lemma be_bytes_length : forall k n, length (be_bytes k n) = k.
Proof. induction k; intros; cbn [be_bytes]; [reflexivity|]. rewrite app_length, IHk. cbn. lia. Qed.

Lemma take_be_app : forall l acc r, take_be (length l) acc (l ++ r) = Some (be_val acc l, r).
Proof. induction l; intros; cbn [length take_be be_val app]; [reflexivity|]. apply IHl. Qed.

Lemma be_val_snoc : forall l acc x, be_val acc (l ++ [x]) = be_val acc l * 256 + x.
Proof. induction l; intros; cbn [be_val app]; [reflexivity|]. apply IHl. Qed.

Lemma be_val_be_bytes : forall k n acc, n < 256 ^ N.of_nat k -> be_val acc (be_bytes k n) = acc * 256 ^ N.of_nat k + n.
Proof.
  induction k; intros n acc H.
  - cbn [be_bytes be_val]. change (N.of_nat 0) with 0 in *. rewrite N.pow_0_r in *. lia.
  - cbn [be_bytes]. rewrite be_val_snoc.
    assert (E : N.of_nat (S k) = N.succ (N.of_nat k)) by lia. rewrite E in *. rewrite N.pow_succ_r' in *.
    rewrite IHk.
    + pose proof (N.div_mod n 256 ltac:(lia)). lia.
    + apply N.div_lt_upper_bound; lia.
Qed.

Lemma take_be_be_bytes : forall k n r, n < 256 ^ N.of_nat k -> take_be k 0 (be_bytes k n ++ r) = Some (n, r).
Proof.
  intros. pose proof (take_be_app (be_bytes k n) 0 r) as T. rewrite be_bytes_length in T.
  rewrite T, be_val_be_bytes by assumption. f_equal. f_equal. lia.
Qed.

(** * Heads *)
Lemma byte_split : forall m i, i < 32 -> (m * 32 + i) / 32 = m /\ (m * 32 + i) mod 32 = i.
Proof.
  intros. split.
  - symmetry. apply (N.div_unique _ 32 m i); lia.
  - symmetry. apply (N.mod_unique _ 32 m i); lia.
Qed.

(** what [pull] returns for a definite head of major type [m] (0..6) with argument [n] *)
Definition hdr_of (m n : N) : option hdr :=
  match m with
  | 0 => Some (HPos n) | 1 => Some (HNeg n) | 2 => Some (HBytes (Some n)) | 3 => Some (HText (Some n))
  | 4 => Some (HArray (Some n)) | 5 => Some (HMap (Some n)) | 6 => Some (HTag n) | _ => None
  end.

Lemma head_shape : forall m n r, n < W64 ->
  exists info tl, head m n = (m * 32 + info) :: tl /\ info < 28 /\ pull_arg info (tl ++ r) = Some (Some n, r).
Proof.
  intros m n r Hn. unfold head.
  destruct (N.ltb_spec n 24).
  { exists n, []. split; [reflexivity|]. split; [lia|]. unfold pull_arg.
    destruct (N.ltb_spec n 24); [reflexivity|lia]. }
  destruct (N.ltb_spec n 256).
  { exists 24, [n]. split; [reflexivity|]. split; [lia|]. reflexivity. }
  destruct (N.ltb_spec n 65536).
  { exists 25, (be_bytes 2 n). split; [reflexivity|]. split; [lia|].
    unfold pull_arg. change (25 <? 24) with false. change (25 =? 24) with false. change (25 =? 25) with true.
    cbv iota. rewrite take_be_be_bytes; [reflexivity|]. change (256 ^ N.of_nat 2) with 65536. lia. }
  destruct (N.ltb_spec n 4294967296).
  { exists 26, (be_bytes 4 n). split; [reflexivity|]. split; [lia|].
    unfold pull_arg. change (26 <? 24) with false. change (26 =? 24) with false. change (26 =? 25) with false.
    change (26 =? 26) with true. cbv iota. rewrite take_be_be_bytes; [reflexivity|].
    change (256 ^ N.of_nat 4) with 4294967296. lia. }
  exists 27, (be_bytes 8 n). split; [reflexivity|]. split; [lia|].
  unfold pull_arg. change (27 <? 24) with false. change (27 =? 24) with false. change (27 =? 25) with false.
  change (27 =? 26) with false. change (27 =? 27) with true. cbv iota. rewrite take_be_be_bytes; [reflexivity|].
  change (256 ^ N.of_nat 8) with W64. lia.
Qed.

Lemma pull_head : forall m n r h, n < W64 -> hdr_of m n = Some h -> pull (head m n ++ r) = Some (h, r).
Proof.
  intros m n r h Hn Hh.
  destruct (head_shape m n r Hn) as (info & tl & E & Hi & PA).
  rewrite E. cbn [app]. unfold pull.
  destruct (byte_split m info ltac:(lia)) as [D M]. rewrite D, M, PA.
  unfold hdr_of in Hh.
  destruct m as [|p]; [inversion Hh; reflexivity|].
  do 3 (destruct p as [p|p|]; try discriminate); inversion Hh; reflexivity.
Qed.

Lemma head_nonempty : forall m n, (1 <= length (head m n))%nat.
Proof.
  intros. unfold head. repeat match goal with |- context [if ?c then _ else _] => destruct c end; cbn [length]; lia.
Qed.

(** * Strings *)
Lemma len_app : forall {A} (a b : list A), len (a ++ b) = len a + len b.
Proof. intros. unfold len. rewrite app_length. lia. Qed.

Lemma take_app : forall b r, take (len b) (b ++ r) = Some (b, r).
Proof.
  intros. unfold take. rewrite len_app.
  destruct (N.leb_spec (len b) (len b + len r)); [|lia].
  unfold len. rewrite Nat2N.id. rewrite firstn_app, Nat.sub_diag, firstn_all, skipn_app, Nat.sub_diag, skipn_all.
  cbn. rewrite app_nil_r. reflexivity.
Qed.

(** * Sorting *)
Lemma isort_sorted : forall l, sortedb l = true -> isort l = l.
Proof.
  induction l as [|x r IH]; intros H; [reflexivity|].
  cbn [isort fold_right]. fold (isort r).
  cbn [sortedb] in H. destruct r as [|y r'].
  - reflexivity.
  - apply andb_true_iff in H. destruct H as [Hxy Hr].
    rewrite (IH Hr). cbn [insert_sorted]. rewrite Hxy. reflexivity.
Qed.
