(** C17 - proofs about the CBOR core model (CborCore.v): round trip for every well-formed value at
    any nesting depth, totality of the decoder, shortest heads, trailing data. *)
From Coq Require Import NArith PeanoNat List Bool Lia.
From CB Require Import Cbor.CborCore.
Import ListNotations.
Local Open Scope N_scope.

Arguments N.add : simpl never.
Arguments N.sub : simpl never.
Arguments N.mul : simpl never.
Arguments N.div : simpl never.
Arguments N.modulo : simpl never.
Arguments N.eqb : simpl never.
Arguments N.ltb : simpl never.
Arguments N.leb : simpl never.
Arguments N.pow : simpl never.
Arguments N.min : simpl never.

(** * Induction principle for the nested type *)
Section ValueInd.
  Variable P : value -> Prop.
  Hypothesis HPos : forall n, P (VPos n).
  Hypothesis HNeg : forall n, P (VNeg n).
  Hypothesis HBytes : forall b, P (VBytes b).
  Hypothesis HText : forall b, P (VText b).
  Hypothesis HArray : forall i l, Forall P l -> P (VArray i l).
  Hypothesis HMap : forall i l, Forall (fun kv => P (fst kv) /\ P (snd kv)) l -> P (VMap i l).
  Hypothesis HTag : forall t v, P v -> P (VTag t v).
  Hypothesis HBool : forall b, P (VBool b).
  Hypothesis HNull : P VNull.
  Hypothesis HSimple : forall n, P (VSimple n).
  Hypothesis HFloat : forall w b, P (VFloat w b).

  Fixpoint value_ind' (v : value) : P v :=
    match v with
    | VPos n => HPos n
    | VNeg n => HNeg n
    | VBytes b => HBytes b
    | VText b => HText b
    | VArray i l =>
      HArray i l ((fix go (l : list value) : Forall P l :=
                     match l return Forall P l with [] => Forall_nil _ | x :: r => Forall_cons _ (value_ind' x) (go r) end) l)
    | VMap i l =>
      HMap i l ((fix go (l : list (value * value)) : Forall (fun kv => P (fst kv) /\ P (snd kv)) l :=
                   match l return Forall (fun kv => P (fst kv) /\ P (snd kv)) l with
                   | [] => Forall_nil _
                   | (k, x) :: r => Forall_cons (k, x) (conj (value_ind' k) (value_ind' x)) (go r)
                   end) l)
    | VTag t x => HTag t x (value_ind' x)
    | VBool b => HBool b
    | VNull => HNull
    | VSimple n => HSimple n
    | VFloat w b => HFloat w b
    end.
End ValueInd.

(** * Big-endian arguments *)
Lemma be_bytes_length : forall k n, length (be_bytes k n) = k.
Proof. induction k; intros; cbn [be_bytes]; [reflexivity|]. rewrite app_length, IHk. cbn. lia. Qed.

Lemma take_be_app : forall l acc r, take_be (length l) acc (l ++ r) = Some (be_val acc l, r).
Proof. induction l; intros; cbn [length take_be be_val app]; [reflexivity|]. apply IHl. Qed.

Lemma be_val_snoc : forall l acc x, be_val acc (l ++ [x]) = be_val acc l * 256 + x.
Proof. induction l; intros; cbn [be_val app]; [reflexivity|]. apply IHl. Qed.

Lemma be_val_be_bytes : forall k n acc, n < 256 ^ N.of_nat k -> be_val acc (be_bytes k n) = acc * 256 ^ N.of_nat k + n.
Proof.
  induction k; intros n acc H.
  - cbn [be_bytes be_val]. change (N.of_nat 0) with 0 in *. rewrite N.pow_0_r in *. lia.
  - cbn [be_bytes]. rewrite be_val_snoc.
    assert (E : N.of_nat (S k) = N.succ (N.of_nat k)) by lia. rewrite E in *. rewrite N.pow_succ_r' in *.
    rewrite IHk.
    + pose proof (N.div_mod n 256 ltac:(lia)). lia.
    + apply N.div_lt_upper_bound; lia.
Qed.

Lemma take_be_be_bytes : forall k n r, n < 256 ^ N.of_nat k -> take_be k 0 (be_bytes k n ++ r) = Some (n, r).
Proof.
  intros. pose proof (take_be_app (be_bytes k n) 0 r) as T. rewrite be_bytes_length in T.
  rewrite T, be_val_be_bytes by assumption. rewrite N.mul_0_l, N.add_0_l. reflexivity.
Qed.

(** * Heads *)
Lemma byte_split : forall m i, i < 32 -> (m * 32 + i) / 32 = m /\ (m * 32 + i) mod 32 = i.
Proof.
  intros. split.
  - symmetry. apply (N.div_unique _ 32 m i); lia.
  - symmetry. apply (N.mod_unique _ 32 m i); lia.
Qed.

(** what [pull] returns for a definite head of major type [m] (0..6) with argument [n] *)
Definition hdr_of (m n : N) : option hdr :=
  match m with
  | 0 => Some (HPos n) | 1 => Some (HNeg n) | 2 => Some (HBytes (Some n)) | 3 => Some (HText (Some n))
  | 4 => Some (HArray (Some n)) | 5 => Some (HMap (Some n)) | 6 => Some (HTag n) | _ => None
  end.

Lemma head_shape : forall m n r, n < W64 ->
  exists info tl, head m n = (m * 32 + info) :: tl /\ info < 28 /\ pull_arg info (tl ++ r) = Some (Some n, r).
Proof.
  intros m n r Hn. unfold head.
  destruct (N.ltb_spec n 24).
  { exists n, []. split; [reflexivity|]. split; [lia|]. unfold pull_arg.
    destruct (N.ltb_spec n 24); [reflexivity|lia]. }
  destruct (N.ltb_spec n 256).
  { exists 24, [n]. split; [reflexivity|]. split; [lia|]. reflexivity. }
  destruct (N.ltb_spec n 65536).
  { exists 25, (be_bytes 2 n). split; [reflexivity|]. split; [lia|].
    unfold pull_arg. change (25 <? 24) with false. change (25 =? 24) with false. change (25 =? 25) with true.
    cbv iota. rewrite take_be_be_bytes; [reflexivity|]. change (256 ^ N.of_nat 2) with 65536. lia. }
  destruct (N.ltb_spec n 4294967296).
  { exists 26, (be_bytes 4 n). split; [reflexivity|]. split; [lia|].
    unfold pull_arg. change (26 <? 24) with false. change (26 =? 24) with false. change (26 =? 25) with false.
    change (26 =? 26) with true. cbv iota. rewrite take_be_be_bytes; [reflexivity|].
    change (256 ^ N.of_nat 4) with 4294967296. lia. }
  exists 27, (be_bytes 8 n). split; [reflexivity|]. split; [lia|].
  unfold pull_arg. change (27 <? 24) with false. change (27 =? 24) with false. change (27 =? 25) with false.
  change (27 =? 26) with false. change (27 =? 27) with true. cbv iota. rewrite take_be_be_bytes; [reflexivity|].
  change (256 ^ N.of_nat 8) with W64. lia.
Qed.

Lemma pull_head : forall m n r h, n < W64 -> hdr_of m n = Some h -> pull (head m n ++ r) = Some (h, r).
Proof.
  intros m n r h Hn Hh.
  destruct (head_shape m n r Hn) as (info & tl & E & Hi & PA).
  rewrite E. cbn [app]. unfold pull.
  destruct (byte_split m info ltac:(lia)) as [D M]. rewrite D, M, PA.
  unfold hdr_of in Hh.
  destruct m as [|p]; [inversion Hh; reflexivity|].
  destruct p as [[[p|p|]|[p|p|]|]|[[p|p|]|[p|p|]|]|]; cbn in Hh; try discriminate Hh; inversion Hh; reflexivity.
Qed.

Lemma head_nonempty : forall m n, (1 <= length (head m n))%nat.
Proof.
  intros. unfold head. repeat match goal with |- context [if ?c then _ else _] => destruct c end; cbn [length]; lia.
Qed.

(** * Strings *)
Lemma len_app : forall {A} (a b : list A), len (a ++ b) = len a + len b.
Proof. intros. unfold len. rewrite app_length. lia. Qed.

Lemma take_app : forall b r, take (len b) (b ++ r) = Some (b, r).
Proof.
  intros. unfold take. rewrite len_app.
  destruct (N.leb_spec (len b) (len b + len r)); [|lia].
  unfold len. rewrite Nat2N.id. rewrite firstn_app, Nat.sub_diag, firstn_all, skipn_app, Nat.sub_diag, skipn_all.
  cbn. rewrite app_nil_r. reflexivity.
Qed.

(** * Sorting *)
Lemma isort_sorted : forall l, sortedb l = true -> isort l = l.
Proof.
  induction l as [|x r IH]; intros H; [reflexivity|].
  cbn [isort fold_right]. fold (isort r).
  cbn [sortedb] in H. destruct r as [|y r'].
  - reflexivity.
  - apply andb_true_iff in H. destruct H as [Hxy Hr].
    rewrite (IH Hr). cbn [insert_sorted]. rewrite Hxy. reflexivity.
Qed.

(** * Unfolding equations *)
Definition enc_entry (kv : value * value) : list N := let '(k, x) := kv in encode k ++ encode x.

Lemma encode_array : forall i l, encode (VArray i l) = head 4 (len l) ++ concat (map encode l).
Proof. reflexivity. Qed.
Lemma encode_map : forall i l, encode (VMap i l) = head 5 (len l) ++ concat (isort (map enc_entry l)).
Proof. reflexivity. Qed.
Lemma encode_tag : forall t v, encode (VTag t v) = head 6 t ++ encode v.
Proof. reflexivity. Qed.

Lemma dec_S : forall f bs, dec (S f) bs =
  match pull bs with
  | None => Err 0
  | Some (h, r) =>
    match h with
    | HPos n => Ok (VPos n) r 0
    | HNeg n => Ok (VNeg n) r 0
    | HBytes (Some n) => radd (N.min n MAX_PRE) (rmap VBytes (read_seg false n r))
    | HBytes None => rmap VBytes (segs f false 1 r)
    | HText (Some n) => radd (N.min n MAX_PRE) (rmap VText (read_seg true n r))
    | HText None => rmap VText (segs f true 1 r)
    | HArray (Some n) => radd (VALUE_SIZE * N.min n cap_elems) (rmap (VArray false) (dec_elems f n r))
    | HArray None => rmap (VArray true) (dec_elems_indef f r)
    | HMap (Some n) => radd (2 * VALUE_SIZE * N.min n cap_elems) (rmap (VMap false) (dec_pairs f n r))
    | HMap None => rmap (VMap true) (dec_pairs_indef f r)
    | HTag t => rmap (VTag t) (dec f r)
    | HSimple n => Ok (simple_value n) r 0
    | HFloat w b => Ok (VFloat w b) r 0
    | HBreak => Err 0
    end
  end.
Proof. reflexivity. Qed.

Lemma dec_elems_S : forall f n bs, dec_elems (S f) n bs =
  if n =? 0 then Ok [] bs 0 else
    match dec f bs with
    | Ok v r a =>
      match dec_elems f (n - 1) r with
      | Ok l r' a' => Ok (v :: l) r' (a + VALUE_SIZE + a')
      | Err a' => Err (a + VALUE_SIZE + a')
      | OutOfFuel => OutOfFuel
      end
    | Err a => Err a
    | OutOfFuel => OutOfFuel
    end.
Proof. reflexivity. Qed.

Lemma dec_elems_0 : forall f bs, dec_elems f 0 bs = Ok [] bs 0.
Proof. destruct f; reflexivity. Qed.

Lemma dec_pairs_S : forall f n bs, dec_pairs (S f) n bs =
  if n =? 0 then Ok [] bs 0 else
    match dec f bs with
    | Ok k r a =>
      match dec f r with
      | Ok x r1 a1 =>
        match dec_pairs f (n - 1) r1 with
        | Ok l r' a' => Ok ((k, x) :: l) r' (a + a1 + 2 * VALUE_SIZE + a')
        | Err a' => Err (a + a1 + 2 * VALUE_SIZE + a')
        | OutOfFuel => OutOfFuel
        end
      | Err a1 => Err (a + a1)
      | OutOfFuel => OutOfFuel
      end
    | Err a => Err a
    | OutOfFuel => OutOfFuel
    end.
Proof. reflexivity. Qed.

Lemma dec_pairs_0 : forall f bs, dec_pairs f 0 bs = Ok [] bs 0.
Proof. destruct f; reflexivity. Qed.

(** * Round trip *)
Lemma encode_nonempty : forall v, (1 <= length (encode v))%nat.
Proof.
  destruct v; try rewrite encode_array; try rewrite encode_map; try rewrite encode_tag;
    cbn [encode]; try rewrite app_length;
    try match goal with |- context [head ?m ?n] => pose proof (head_nonempty m n); lia end.
  - cbn; lia.
  - cbn; lia.
  - unfold float_head. cbn [length]. lia.
Qed.

Definition RT (v : value) : Prop :=
  value_okb v = true -> value_sortedb v = true ->
  forall f r, (2 * length (encode v) < f)%nat -> exists a, dec f (encode v ++ r) = Ok v r a.

Lemma len_cons_ne0 : forall {A} (x : A) l, (len (x :: l) =? 0) = false.
Proof. intros. unfold len. cbn [length]. destruct (N.eqb_spec (N.of_nat (S (length l))) 0); [lia|reflexivity]. Qed.
Lemma len_cons_pred : forall {A} (x : A) l, len (x :: l) - 1 = len l.
Proof. intros. unfold len. cbn [length]. lia. Qed.

Lemma rt_elems : forall l, Forall RT l -> forallb value_okb l = true -> forallb value_sortedb l = true ->
  forall f r, (2 * length (concat (map encode l)) + 1 < f)%nat ->
  exists a, dec_elems f (len l) (concat (map encode l) ++ r) = Ok l r a.
Proof.
  induction l as [|x l IH]; intros HF Hok Hso f r Hf.
  - exists 0. cbn [map concat app]. apply dec_elems_0.
  - inversion HF as [|? ? Hx Hl]; subst.
    cbn [forallb] in Hok, Hso. apply andb_true_iff in Hok, Hso. destruct Hok as [Hokx Hokl], Hso as [Hsox Hsol].
    cbn [map concat] in *. rewrite app_length in Hf. pose proof (encode_nonempty x) as Hne.
    destruct f as [|f]; [lia|].
    rewrite dec_elems_S, len_cons_ne0, len_cons_pred, <- app_assoc.
    destruct (Hx Hokx Hsox f (concat (map encode l) ++ r) ltac:(lia)) as [a Ea]. rewrite Ea.
    destruct (IH Hl Hokl Hsol f r ltac:(lia)) as [a' Ea']. rewrite Ea'. eexists; reflexivity.
Qed.

Lemma rt_pairs : forall l, Forall (fun kv => RT (fst kv) /\ RT (snd kv)) l ->
  forallb (fun kv => let '(k, x) := kv in value_okb k && value_okb x) l = true ->
  forallb (fun kv => let '(k, x) := kv in value_sortedb k && value_sortedb x) l = true ->
  forall f r, (2 * length (concat (map enc_entry l)) + 1 < f)%nat ->
  exists a, dec_pairs f (len l) (concat (map enc_entry l) ++ r) = Ok l r a.
Proof.
  induction l as [|[k x] l IH]; intros HF Hok Hso f r Hf.
  - exists 0. cbn [map concat app]. apply dec_pairs_0.
  - inversion HF as [|? ? [Hk Hx] Hl]; subst. cbn [fst snd] in Hk, Hx.
    cbn [forallb] in Hok, Hso. apply andb_true_iff in Hok, Hso. destruct Hok as [Hokx Hokl], Hso as [Hsox Hsol].
    apply andb_true_iff in Hokx, Hsox. destruct Hokx as [Hok1 Hok2], Hsox as [Hso1 Hso2].
    cbn [map concat enc_entry] in *. rewrite !app_length in Hf.
    pose proof (encode_nonempty k) as Hne1. pose proof (encode_nonempty x) as Hne2.
    destruct f as [|f]; [lia|].
    rewrite dec_pairs_S, len_cons_ne0, len_cons_pred, <- !app_assoc.
    destruct (Hk Hok1 Hso1 f (encode x ++ concat (map enc_entry l) ++ r) ltac:(lia)) as [a Ea]. rewrite Ea.
    destruct (Hx Hok2 Hso2 f (concat (map enc_entry l) ++ r) ltac:(lia)) as [a1 Ea1]. rewrite Ea1.
    destruct (IH Hl Hokl Hsol f r ltac:(lia)) as [a' Ea']. rewrite Ea'. eexists; reflexivity.
Qed.

Lemma pull_simple_byte : forall n r, n < 24 -> pull ((7 * 32 + n) :: r) = Some (HSimple n, r).
Proof.
  intros. unfold pull. destruct (byte_split 7 n ltac:(lia)) as [D M]. rewrite D, M.
  unfold pull_arg, classify. destruct (N.ltb_spec n 24); [|lia]. destruct (N.ltb_spec n 25); [reflexivity|lia].
Qed.

Lemma simple_value_other : forall n, in_range 20 22 n = false -> simple_value n = VSimple n.
Proof.
  intros n H. unfold in_range in H. unfold simple_value.
  destruct (N.eqb_spec n 20); [subst; discriminate|]. destruct (N.eqb_spec n 21); [subst; discriminate|].
  destruct (N.eqb_spec n 22); [subst; discriminate|]. reflexivity.
Qed.

Theorem roundtrip_all : forall v, RT v.
Proof.
  induction v using value_ind'; unfold RT; intros Hok Hso f r Hf; (destruct f as [|f]; [lia|]); rewrite dec_S.
  - (* VPos *) cbn [value_okb] in Hok. apply N.ltb_lt in Hok. cbn [encode].
    rewrite (pull_head 0 n r (HPos n) Hok eq_refl). eexists; reflexivity.
  - cbn [value_okb] in Hok. apply N.ltb_lt in Hok. cbn [encode].
    rewrite (pull_head 1 n r (HNeg n) Hok eq_refl). eexists; reflexivity.
  - (* VBytes *) cbn [value_okb] in Hok. apply andb_true_iff in Hok. destruct Hok as [_ Hl]. apply N.ltb_lt in Hl.
    cbn [encode]. rewrite <- app_assoc. rewrite (pull_head 2 (len b) (b ++ r) _ Hl eq_refl).
    unfold read_seg. rewrite take_app. cbn [andb rmap radd]. eexists; reflexivity.
  - (* VText *) cbn [value_okb] in Hok. apply andb_true_iff in Hok. destruct Hok as [Hok Hl]. apply N.ltb_lt in Hl.
    apply andb_true_iff in Hok. destruct Hok as [_ Hu].
    cbn [encode]. rewrite <- app_assoc. rewrite (pull_head 3 (len b) (b ++ r) _ Hl eq_refl).
    unfold read_seg. rewrite take_app, Hu. cbn [andb negb rmap radd]. eexists; reflexivity.
  - (* VArray *) cbn [value_okb] in Hok. apply andb_true_iff in Hok. destruct Hok as [Hok Hall].
    apply andb_true_iff in Hok. destruct Hok as [Hi Hl]. apply N.ltb_lt in Hl. destruct i; [discriminate|].
    cbn [value_sortedb] in Hso.
    rewrite encode_array in *. rewrite <- app_assoc. rewrite (pull_head 4 (len l) _ _ Hl eq_refl).
    rewrite app_length in Hf. pose proof (head_nonempty 4 (len l)).
    destruct (rt_elems l H Hall Hso f r ltac:(lia)) as [a Ea]. rewrite Ea. cbn [rmap radd]. eexists; reflexivity.
  - (* VMap *) cbn [value_okb] in Hok. apply andb_true_iff in Hok. destruct Hok as [Hok Hall].
    apply andb_true_iff in Hok. destruct Hok as [Hi Hl]. apply N.ltb_lt in Hl. destruct i; [discriminate|].
    cbn [value_sortedb] in Hso. apply andb_true_iff in Hso. destruct Hso as [Hsorted Hso].
    rewrite encode_map in *. fold enc_entry in Hsorted. rewrite (isort_sorted _ Hsorted) in *.
    rewrite <- app_assoc. rewrite (pull_head 5 (len l) _ _ Hl eq_refl).
    rewrite app_length in Hf. pose proof (head_nonempty 5 (len l)).
    destruct (rt_pairs l H Hall Hso f r ltac:(lia)) as [a Ea]. rewrite Ea. cbn [rmap radd]. eexists; reflexivity.
  - (* VTag *) cbn [value_okb] in Hok. apply andb_true_iff in Hok. destruct Hok as [Ht Hok]. apply N.ltb_lt in Ht.
    cbn [value_sortedb] in Hso. rewrite encode_tag in *. rewrite <- app_assoc.
    rewrite (pull_head 6 t _ _ Ht eq_refl). rewrite app_length in Hf. pose proof (head_nonempty 6 t).
    destruct (IHv Hok Hso f r ltac:(lia)) as [a Ea]. rewrite Ea. cbn [rmap]. eexists; reflexivity.
  - (* VBool *) destruct b; cbn [encode app]; eexists; reflexivity.
  - (* VNull *) cbn [encode app]. eexists; reflexivity.
  - (* VSimple *) cbn [value_okb] in Hok. apply andb_true_iff in Hok. destruct Hok as [Hn Hr]. apply N.ltb_lt in Hn.
    apply negb_true_iff in Hr. cbn [encode]. unfold head.
    destruct (N.ltb_spec n 24).
    + cbn [app]. rewrite pull_simple_byte by assumption. rewrite simple_value_other by assumption. eexists; reflexivity.
    + destruct (N.ltb_spec n 256); [|lia]. cbn [app].
      change (7 * 32 + 24) with 248.
      assert (E : pull (248 :: n :: r) = Some (HSimple n, r)).
      { unfold pull. change (248 / 32) with 7. change (248 mod 32) with 24. unfold pull_arg.
        change (24 <? 24) with false. change (24 =? 24) with true. cbv iota. cbn [take_be].
        rewrite N.mul_0_l, N.add_0_l. reflexivity. }
      rewrite E, simple_value_other by assumption. eexists; reflexivity.
  - (* VFloat *) cbn [value_okb] in Hok. apply andb_true_iff in Hok. destruct Hok as [Hw Hb]. apply N.ltb_lt in Hb.
    cbn [encode]. unfold float_head.
    apply orb_true_iff in Hw. destruct Hw as [Hw|Hw]; [apply orb_true_iff in Hw; destruct Hw as [Hw|Hw]|];
      apply N.eqb_eq in Hw; subst w.
    + change (2 =? 2) with true. cbv iota. change (N.to_nat 2) with 2%nat. cbn [app].
      unfold pull. change (249 / 32) with 7. change (249 mod 32) with 25. unfold pull_arg.
      change (25 <? 24) with false. change (25 =? 24) with false. change (25 =? 25) with true. cbv iota.
      rewrite take_be_be_bytes by (change (256 ^ N.of_nat 2) with (2 ^ (8 * 2)); assumption).
      eexists; reflexivity.
    + change (4 =? 2) with false. change (4 =? 4) with true. cbv iota. change (N.to_nat 4) with 4%nat. cbn [app].
      unfold pull. change (250 / 32) with 7. change (250 mod 32) with 26. unfold pull_arg.
      change (26 <? 24) with false. change (26 =? 24) with false. change (26 =? 25) with false.
      change (26 =? 26) with true. cbv iota.
      rewrite take_be_be_bytes by (change (256 ^ N.of_nat 4) with (2 ^ (8 * 4)); assumption).
      eexists; reflexivity.
    + change (8 =? 2) with false. change (8 =? 4) with false. cbv iota. change (N.to_nat 8) with 8%nat. cbn [app].
      unfold pull. change (251 / 32) with 7. change (251 mod 32) with 27. unfold pull_arg.
      change (27 <? 24) with false. change (27 =? 24) with false. change (27 =? 25) with false.
      change (27 =? 26) with false. change (27 =? 27) with true. cbv iota.
      rewrite take_be_be_bytes by (change (256 ^ N.of_nat 8) with (2 ^ (8 * 8)); assumption).
      eexists; reflexivity.
Qed.

(** * Top-level statements *)
Lemma wfb_split : forall v, value_wfb v = true -> value_okb v = true /\ value_sortedb v = true.
Proof. intros v H. unfold value_wfb in H. apply andb_true_iff in H. exact H. Qed.

Theorem decode_encode_prefix : forall v rest, value_wfb v = true ->
  exists a, decode_prefix (encode v ++ rest) = Ok v rest a.
Proof.
  intros v rest H. destruct (wfb_split v H) as [Hok Hso]. unfold decode_prefix, fuel_for.
  apply (roundtrip_all v Hok Hso). rewrite app_length. lia.
Qed.

Theorem decode_encode_top : forall v, value_wfb v = true -> exists a, decode_top (encode v) = Ok v [] a.
Proof.
  intros v H. destruct (decode_encode_prefix v [] H) as [a E]. rewrite app_nil_r in E.
  exists a. unfold decode_top. rewrite E. reflexivity.
Qed.

Theorem decode_trailing_rejected : forall v b rest, value_wfb v = true ->
  exists a, decode_top (encode v ++ b :: rest) = Err a.
Proof.
  intros v b rest H. destruct (decode_encode_prefix v (b :: rest) H) as [a E].
  exists a. unfold decode_top. rewrite E. reflexivity.
Qed.

(** [cbor_decode] accepts only if the decoder consumed the whole input *)
Theorem decode_top_consumes_all : forall bs v r a, decode_top bs = Ok v r a -> r = [] /\ decode_prefix bs = Ok v [] a.
Proof.
  intros bs v r a H. unfold decode_top in H. destruct (decode_prefix bs) as [v' r' a'| |]; try discriminate.
  destruct r'; inversion H; subst. split; reflexivity.
Qed.

(** the encoding is injective and prefix-free on well-formed values *)
Theorem encode_prefix_free : forall v1 v2 r1 r2, value_wfb v1 = true -> value_wfb v2 = true ->
  encode v1 ++ r1 = encode v2 ++ r2 -> v1 = v2 /\ r1 = r2.
Proof.
  intros v1 v2 r1 r2 H1 H2 E.
  destruct (decode_encode_prefix v1 r1 H1) as [a1 E1]. destruct (decode_encode_prefix v2 r2 H2) as [a2 E2].
  rewrite E in E1. rewrite E1 in E2. inversion E2. split; reflexivity.
Qed.

Corollary encode_injective : forall v1 v2, value_wfb v1 = true -> value_wfb v2 = true ->
  encode v1 = encode v2 -> v1 = v2.
Proof.
  intros v1 v2 H1 H2 E. apply (encode_prefix_free v1 v2 [] [] H1 H2). rewrite E. reflexivity.
Qed.

(** * Shortest heads: the head written by the encoder is never longer than any accepted head
    carrying the same header. *)
Lemma take_be_consumes : forall k acc bs n r, take_be k acc bs = Some (n, r) -> length bs = (k + length r)%nat.
Proof.
  induction k; intros acc bs n r H; cbn [take_be] in H.
  - inversion H; subst. reflexivity.
  - destruct bs as [|b bs']; [discriminate|]. apply IHk in H. cbn [length]. lia.
Qed.

Lemma take_be_bound : forall k acc bs n r, take_be k acc bs = Some (n, r) -> Forall (fun b => b < 256) bs ->
  n < (acc + 1) * 256 ^ N.of_nat k.
Proof.
  induction k; intros acc bs n r H HB; cbn [take_be] in H.
  - inversion H; subst. change (N.of_nat 0) with 0. rewrite N.pow_0_r. lia.
  - destruct bs as [|b bs']; [discriminate|]. inversion HB; subst.
    apply IHk in H; [|assumption].
    assert (E : N.of_nat (S k) = N.succ (N.of_nat k)) by lia. rewrite E, N.pow_succ_r'. nia.
Qed.

Lemma head_length : forall m n, length (head m n) =
  if n <? 24 then 1%nat else if n <? 256 then 2%nat else if n <? 65536 then 3%nat
  else if n <? 4294967296 then 5%nat else 9%nat.
Proof.
  intros. unfold head. repeat match goal with |- context [if ?c then _ else _] => destruct c end;
    cbn [length]; rewrite ?be_bytes_length; reflexivity.
Qed.

(** any accepted head with argument [n] is at least as long as the head the encoder writes *)
Theorem head_shortest : forall info r n r' m, Forall (fun b => b < 256) r ->
  pull_arg info r = Some (Some n, r') -> (length (head m n) + length r' <= 1 + length r)%nat.
Proof.
  intros info r n r' m HB H. rewrite head_length. unfold pull_arg in H.
  destruct (N.ltb_spec info 24).
  { inversion H; subst. destruct (N.ltb_spec n 24); lia. }
  repeat match type of H with
  | (if ?c then _ else _) = _ => destruct c
  end; try discriminate;
  match type of H with
  | match take_be ?k 0 r with _ => _ end = _ =>
    destruct (take_be k 0 r) as [[n' r'']|] eqn:T; [|discriminate]; inversion H; subst;
    pose proof (take_be_consumes _ _ _ _ _ T) as L; pose proof (take_be_bound _ _ _ _ _ T HB) as Bd
  end.
  - change (256 ^ N.of_nat 1) with 256 in Bd.
    destruct (N.ltb_spec n 24); [lia|]. destruct (N.ltb_spec n 256); lia.
  - change (256 ^ N.of_nat 2) with 65536 in Bd.
    destruct (N.ltb_spec n 24); [lia|]. destruct (N.ltb_spec n 256); [lia|]. destruct (N.ltb_spec n 65536); lia.
  - change (256 ^ N.of_nat 4) with 4294967296 in Bd.
    destruct (N.ltb_spec n 24); [lia|]. destruct (N.ltb_spec n 256); [lia|]. destruct (N.ltb_spec n 65536); [lia|].
    destruct (N.ltb_spec n 4294967296); lia.
  - repeat match goal with |- context [if ?c then _ else _] => destruct c end; lia.
Qed.
