(** C17 - laws of the schema interpretation (CborSchema.v) that hold for every schema:
    missing mandatory field, undeclared field under Fail / Ignore, unknown variants under
    CborMaybeKnown, ill-typed scalars; the CBOR form of token amounts. *)
From Coq Require Import NArith ZArith PeanoNat List Bool String Lia.
From CB Require Import Cbor.CborCore Cbor.CborProofs Cbor.CborSchema Cbor.TokenSchemas.
Import ListNotations.
Local Open Scope N_scope.

(** * The struct decoder, with its local loops named *)
Section Struct.
  Variable o : unknown_keys.

  Definition find_field (k x : value) : list (key * schema) -> nat -> option (nat * option sval) :=
    fix find (fs : list (key * schema)) (i : nat) : option (nat * option sval) :=
      match fs with
      | [] => None
      | (fk, fs') :: r => if key_matches fk k then Some (i, sdec o fs' false x) else find r (S i)
      end.

  Definition struct_step (fields : list (key * schema)) (other : option okind)
             (st : option (list (option sval) * list (value * value))) (kx : value * value) :=
    match st with
    | None => None
    | Some (slots, others) =>
      let '(k, x) := kx in
      if negb (is_mapkey k) then None else
      match find_field k x fields O with
      | Some (i, Some y) => Some (set_nth i (Some y) slots, others)
      | Some (_, None) => None
      | None =>
        match other with
        | Some OString => match k with VText _ => Some (slots, upsert k (strip x) others) | _ => None end
        | Some OMapKey => Some (slots, upsert k (strip x) others)
        | None => match o with Fail => None | Ignore => Some (slots, others) end
        end
      end
    end.

  Fixpoint struct_fin (fs : list (key * schema)) (sl : list (option sval)) : option (list sval) :=
    match fs, sl with
    | [], _ => Some []
    | (_, fs') :: r, Some y :: sl' => option_map (cons y) (struct_fin r sl')
    | (_, fs') :: r, None :: sl' => match null_of fs' with Some y => option_map (cons y) (struct_fin r sl') | None => None end
    | _ :: _, [] => None
    end.

  Lemma sdec_struct : forall fields other mk i entries,
    sdec o (SStruct fields other) mk (VMap i entries) =
    match fold_left (struct_step fields other) entries (Some (map (fun _ => None) fields, [])) with
    | None => None
    | Some (slots, others) => option_map (fun xs => XStruct xs others) (struct_fin fields slots)
    end.
  Proof. reflexivity. Qed.

  Lemma step_none : forall fields other l, fold_left (struct_step fields other) l None = None.
  Proof. induction l; [reflexivity|]. exact IHl. Qed.

  Lemma find_field_hit : forall k x fs i j r, find_field k x fs i = Some (j, r) ->
    exists fk fs', nth_error fs (j - i) = Some (fk, fs') /\ key_matches fk k = true /\ (i <= j)%nat.
  Proof.
    intros k x. induction fs as [|[fk fs'] fs IH]; intros i j r H; cbn [find_field] in H; [discriminate|].
    destruct (key_matches fk k) eqn:E.
    - inversion H; subst. exists fk, fs'. rewrite Nat.sub_diag. auto.
    - apply IH in H. destruct H as (fk' & fs'' & N1 & M & Hle). exists fk', fs''.
      replace (j - i)%nat with (S (j - S i)) by lia. cbn [nth_error]. split; [exact N1|]. split; [exact M|lia].
  Qed.

  Lemma find_field_none : forall k x fs i,
    (forall fk fs', In (fk, fs') fs -> key_matches fk k = false) -> find_field k x fs i = None.
  Proof.
    intros k x. induction fs as [|[fk fs'] fs IH]; intros i H; [reflexivity|].
    cbn [find_field]. rewrite (H fk fs' (or_introl eq_refl)). apply IH. intros. apply (H fk0 fs'0). right. assumption.
  Qed.

  Lemma nth_set_nth_other : forall {A} (l : list A) i j y, i <> j -> nth_error (set_nth i y l) j = nth_error l j.
  Proof.
    induction l as [|a l IH]; intros i j y Hne; [destruct i; reflexivity|].
    destruct i, j; cbn [set_nth nth_error]; try reflexivity; try lia. apply IH. lia.
  Qed.

  (** a slot whose key no entry matches stays empty *)
  Lemma slot_stays_empty : forall fields other j fk fs' entries slots others,
    nth_error fields j = Some (fk, fs') ->
    (forall kx, In kx entries -> key_matches fk (fst kx) = false) ->
    nth_error slots j = Some None ->
    match fold_left (struct_step fields other) entries (Some (slots, others)) with
    | None => True
    | Some (slots', _) => nth_error slots' j = Some None
    end.
  Proof.
    induction entries as [|[k x] entries IH]; intros slots others Hj Hno Hs; [exact Hs|].
    cbn [fold_left]. unfold struct_step at 2.
    destruct (negb (is_mapkey k)); [rewrite step_none; exact I|].
    assert (Hno' : forall kx, In kx entries -> key_matches fk (fst kx) = false) by (intros; apply Hno; right; assumption).
    destruct (find_field k x fields 0) as [[i [y|]]|] eqn:F.
    - apply IH; try assumption. rewrite nth_set_nth_other; [exact Hs|].
      intros ->. apply find_field_hit in F. destruct F as (fk' & fs'' & N1 & M & _).
      rewrite Nat.sub_0_r, Hj in N1. inversion N1; subst. specialize (Hno (k, x) (or_introl eq_refl)). cbn in Hno. congruence.
    - rewrite step_none. exact I.
    - destruct other as [[|]|].
      + destruct k; try (rewrite step_none; exact I). apply IH; assumption.
      + apply IH; assumption.
      + destruct o; [rewrite step_none; exact I|apply IH; assumption].
  Qed.

  Lemma fin_empty_mandatory : forall fields slots j fk fs',
    nth_error fields j = Some (fk, fs') -> nth_error slots j = Some None -> null_of fs' = None ->
    struct_fin fields slots = None.
  Proof.
    induction fields as [|[k s] fields IH]; intros slots j fk fs' Hj Hs Hn; [destruct j; discriminate|].
    destruct slots as [|sl slots]; [destruct j; discriminate|].
    destruct j.
    - cbn in Hj, Hs. inversion Hj; inversion Hs; subst. cbn [struct_fin]. rewrite Hn. reflexivity.
    - cbn [nth_error] in Hj, Hs. cbn [struct_fin]. rewrite (IH slots j fk fs' Hj Hs Hn).
      destruct sl; [reflexivity|]. destruct (null_of s); reflexivity.
  Qed.

  Lemma nth_map_none : forall {A} (l : list A) j a, nth_error l j = Some a ->
    nth_error (map (fun _ => @None sval) l) j = Some None.
  Proof. induction l; intros [|j] b H; try discriminate; cbn in *; [reflexivity|]. eapply IHl; eassumption. Qed.

  Theorem struct_missing_mandatory : forall fields other i entries mk k s,
    In (k, s) fields -> null_of s = None ->
    (forall kx, In kx entries -> key_matches k (fst kx) = false) ->
    sdec o (SStruct fields other) mk (VMap i entries) = None.
  Proof.
    intros fields other i entries mk k s Hin Hnull Hno. rewrite sdec_struct.
    apply In_nth_error in Hin. destruct Hin as [j Hj].
    pose proof (slot_stays_empty fields other j k s entries (map (fun _ => None) fields) [] Hj Hno
                  (nth_map_none fields j _ Hj)) as Inv.
    destruct (fold_left (struct_step fields other) entries (Some (map (fun _ => None) fields, []))) as [[slots others]|];
      [|reflexivity].
    rewrite (fin_empty_mandatory fields slots j k s Hj Inv Hnull). reflexivity.
  Qed.
End Struct.

Theorem struct_unknown_key_fail : forall fields i entries mk k x,
  In (k, x) entries -> (forall fk fs, In (fk, fs) fields -> key_matches fk k = false) ->
  sdec Fail (SStruct fields None) mk (VMap i entries) = None.
Proof.
  intros fields i entries mk k x Hin Hno. rewrite sdec_struct.
  apply in_split in Hin. destruct Hin as (pre & post & ->). rewrite fold_left_app. cbn [fold_left].
  destruct (fold_left (struct_step Fail fields None) pre (Some (map (fun _ => None) fields, []))) as [[slots others]|].
  - unfold struct_step at 2. destruct (negb (is_mapkey k)); [rewrite step_none; reflexivity|].
    rewrite (find_field_none Fail k x fields 0 Hno). rewrite step_none. reflexivity.
  - cbn. rewrite step_none. reflexivity.
Qed.

Theorem struct_unknown_key_ignored : forall fields i pre post mk k x,
  is_mapkey k = true -> (forall fk fs, In (fk, fs) fields -> key_matches fk k = false) ->
  sdec Ignore (SStruct fields None) mk (VMap i (pre ++ (k, x) :: post))
  = sdec Ignore (SStruct fields None) mk (VMap i (pre ++ post)).
Proof.
  intros fields i pre post mk k x Hk Hno. rewrite !sdec_struct, !fold_left_app. cbn [fold_left].
  destruct (fold_left (struct_step Ignore fields None) pre (Some (map (fun _ => None) fields, []))) as [[slots others]|].
  - unfold struct_step at 2. rewrite Hk. cbn [negb]. rewrite (find_field_none Ignore k x fields 0 Hno). reflexivity.
  - cbn. reflexivity.
Qed.

(** * Enums *)
Section Enum.
  Variable o : unknown_keys.

  Definition find_variant (k : list N) (x : value) : list (string * schema) -> nat -> option (nat * option sval) :=
    fix find (vs : list (string * schema)) (i : nat) : option (nat * option sval) :=
      match vs with
      | [] => None
      | (name, s') :: r => if list_eqb (bytes_of_string name) k then Some (i, sdec o s' false x) else find r (S i)
      end.

  Lemma sdec_enum_map : forall variants other mk k x,
    sdec o (SEnumMap variants other) mk (VMap false [(VText k, x)]) =
    match find_variant k x variants O with
    | Some (i, Some y) => Some (XVariant i y)
    | Some (_, None) => None
    | None =>
      if other then Some (XOther (VText k) (strip x))
      else if mk then Some (XUnknown (VMap false [(VText k, strip x)])) else None
    end.
  Proof. reflexivity. Qed.

  Lemma find_variant_none : forall k x vs i,
    (forall name s, In (name, s) vs -> list_eqb (bytes_of_string name) k = false) -> find_variant k x vs i = None.
  Proof.
    intros k x. induction vs as [|[name s] vs IH]; intros i H; [reflexivity|].
    cbn [find_variant]. rewrite (H name s (or_introl eq_refl)). apply IH. intros. apply (H name0 s0). right. assumption.
  Qed.

  Theorem maybe_known_map_unknown : forall variants k x,
    (forall name s, In (name, s) variants -> list_eqb (bytes_of_string name) k = false) ->
    sdec o (SMaybeKnown (SEnumMap variants false)) false (VMap false [(VText k, x)])
      = Some (XUnknown (VMap false [(VText k, strip x)]))
    /\ senc (SMaybeKnown (SEnumMap variants false)) (XUnknown (VMap false [(VText k, strip x)]))
      = Some (VMap false [(VText k, strip x)]).
  Proof.
    intros variants k x H. split; [|reflexivity].
    change (sdec o (SMaybeKnown (SEnumMap variants false)) false (VMap false [(VText k, x)]))
      with (match sdec o (SEnumMap variants false) true (VMap false [(VText k, x)]) with
            | Some (XUnknown u) => Some (XUnknown u) | Some y => Some (XKnown y) | None => None end).
    rewrite sdec_enum_map, (find_variant_none k x variants 0 H). reflexivity.
  Qed.

  Theorem enum_map_unknown_rejected : forall variants k x,
    (forall name s, In (name, s) variants -> list_eqb (bytes_of_string name) k = false) ->
    sdec o (SEnumMap variants false) false (VMap false [(VText k, x)]) = None.
  Proof. intros variants k x H. rewrite sdec_enum_map, (find_variant_none k x variants 0 H). reflexivity. Qed.

  Definition find_tagged (t : N) (x v : value) : list (N * bool * schema) -> nat -> option (nat * option sval) :=
    fix find (vs : list (N * bool * schema)) (i : nat) : option (nat * option sval) :=
      match vs with
      | [] => None
      | (t', consume, s') :: r =>
        if t' =? t then Some (i, sdec o s' false (if consume then x else v)) else find r (S i)
      end.

  Lemma sdec_enum_tagged : forall variants untagged other mk t x,
    sdec o (SEnumTagged variants untagged other) mk (VTag t x) =
    match find_tagged t x (VTag t x) variants O with
    | Some (i, Some y) => Some (XVariant i y)
    | Some (_, None) => None
    | None =>
      if other then Some (XOther (VPos t) (strip x))
      else if mk then Some (XUnknown (VTag t (strip x))) else None
    end.
  Proof. reflexivity. Qed.

  Lemma find_tagged_none : forall t x v vs i,
    (forall t' c s, In (t', c, s) vs -> (t' =? t) = false) -> find_tagged t x v vs i = None.
  Proof.
    intros t x v. induction vs as [|[[t' c] s] vs IH]; intros i H; [reflexivity|].
    cbn [find_tagged]. rewrite (H t' c s (or_introl eq_refl)). apply IH. intros. apply (H t'0 c0 s0). right. assumption.
  Qed.

  Theorem maybe_known_tag_unknown : forall variants untagged t x,
    (forall t' c s, In (t', c, s) variants -> (t' =? t) = false) ->
    sdec o (SMaybeKnown (SEnumTagged variants untagged false)) false (VTag t x)
      = Some (XUnknown (VTag t (strip x)))
    /\ senc (SMaybeKnown (SEnumTagged variants untagged false)) (XUnknown (VTag t (strip x)))
      = Some (VTag t (strip x)).
  Proof.
    intros variants untagged t x H. split; [|reflexivity].
    change (sdec o (SMaybeKnown (SEnumTagged variants untagged false)) false (VTag t x))
      with (match sdec o (SEnumTagged variants untagged false) true (VTag t x) with
            | Some (XUnknown u) => Some (XUnknown u) | Some y => Some (XKnown y) | None => None end).
    rewrite sdec_enum_tagged, (find_tagged_none t x _ variants 0 H). reflexivity.
  Qed.

  Theorem bool_ill_typed : forall mk v, (forall b, v <> VBool b) -> sdec o SBool mk v = None.
  Proof. intros mk v H. destruct v; try reflexivity. exfalso. apply (H b). reflexivity. Qed.
End Enum.

(** * Token amounts in CBOR: tag 4 [-decimals, value] *)
Definition amount_exponent (d : N) : value := if d =? 0 then VPos 0 else VNeg (d - 1).

Theorem amount_cbor_roundtrip : forall o v d, v < W64 -> d < 256 ->
  decode_typed s_TokenAmount o (encode (VTag 4 (VArray false [amount_exponent d; VPos v])))
  = Some (XList [XZ (- Z.of_N d); XN v]).
Proof.
  intros o v d Hv Hd.
  assert (Hv' : (v <? W64) = true) by (apply N.ltb_lt; exact Hv).
  assert (WF : value_wfb (VTag 4 (VArray false [amount_exponent d; VPos v])) = true).
  { unfold value_wfb, amount_exponent. destruct (N.eqb_spec d 0).
    - cbn. rewrite Hv'. reflexivity.
    - cbn. rewrite Hv'. assert (E : (d - 1 <? W64) = true) by (apply N.ltb_lt; unfold W64; lia). rewrite E. reflexivity. }
  destruct (decode_encode_top _ WF) as [a E]. unfold decode_typed. rewrite E. clear E WF.
  unfold amount_exponent. destruct (N.eqb_spec d 0) as [->|Hne].
  - cbn. change W64 with (2 ^ 64) in Hv'. rewrite Hv'. reflexivity.
  - change W64 with (2 ^ 64) in Hv'.
    assert (E1 : (d - 1 <? 2 ^ (64 - 1)) = true) by (apply N.ltb_lt; change (2 ^ (64 - 1)) with 9223372036854775808; lia).
    assert (E2 : ((-255 <=? -1 - Z.of_N (d - 1)) && (-1 - Z.of_N (d - 1) <=? 0))%Z = true).
    { apply andb_true_iff. split; apply Z.leb_le; lia. }
    cbn -[N.ltb N.pow Z.leb Z.sub Z.opp Z.of_N Z.add]. change (4 =? 4) with true. cbv iota.
    rewrite E1, Hv'. cbn -[N.ltb N.pow Z.leb Z.sub Z.opp Z.of_N Z.add]. rewrite E2.
    replace (-1 - Z.of_N (d - 1))%Z with (- Z.of_N d)%Z by lia. reflexivity.
Qed.

Theorem amount_exponent_rejected : forall o e m mk v,
  sdec o s_UnsignedDecimalFraction mk v = Some (XList [XZ e; XN m]) ->
  ((e < -255)%Z \/ (0 < e)%Z) -> sdec o s_TokenAmount mk v = None.
Proof.
  intros o e m mk v H Hr.
  change (sdec o s_TokenAmount mk v) with
    (match sdec o s_UnsignedDecimalFraction false v with
     | Some x => if refine_ok RDecimals x then Some x else None | None => None end).
  assert (E : sdec o s_UnsignedDecimalFraction false v = sdec o s_UnsignedDecimalFraction mk v) by (destruct v; reflexivity).
  rewrite E, H. cbn [refine_ok].
  assert (F : ((-255 <=? e) && (e <=? 0))%Z = false).
  { apply andb_false_iff. destruct Hr; [left; apply Z.leb_gt; lia|right; apply Z.leb_gt; lia]. }
  rewrite F. reflexivity.
Qed.
