(** C17 - deterministic map order: [norm] (what decode . encode yields for a value whose maps are in
    arbitrary order), stability of re-encoding, a witness that the decoder is not canonical. *)
From Coq Require Import NArith PeanoNat List Bool Lia.
From CB Require Import Cbor.CborCore Cbor.CborProofs.
Import ListNotations.
Local Open Scope N_scope.

Arguments N.ltb : simpl never.

Lemma lex_leb_total : forall a b, lex_leb a b = false -> lex_leb b a = true.
Proof.
  induction a as [|x a IH]; intros [|y b] H; cbn [lex_leb] in *; try discriminate; try reflexivity.
  destruct (N.ltb_spec x y); [discriminate|]. destruct (N.ltb_spec y x); [reflexivity|].
  destruct (N.ltb_spec y x); [lia|]. destruct (N.ltb_spec x y); [lia|]. apply IH; assumption.
Qed.

Lemma insert_sorted_sorted : forall x l, sortedb l = true -> sortedb (insert_sorted x l) = true.
Proof.
  induction l as [|y r IH]; intros H; [reflexivity|].
  cbn [insert_sorted]. destruct (lex_leb x y) eqn:E.
  - cbn [sortedb] in *. rewrite E, H. reflexivity.
  - apply lex_leb_total in E. cbn [sortedb] in H. destruct r as [|z r'].
    + cbn. rewrite E. reflexivity.
    + apply andb_true_iff in H. destruct H as [Hyz Hr]. specialize (IH Hr).
      cbn [insert_sorted] in *. destruct (lex_leb x z) eqn:Exz.
      * cbn [sortedb] in *. rewrite E. cbn [andb]. exact IH.
      * cbn [sortedb] in *. rewrite Hyz. cbn [andb]. exact IH.
Qed.

Lemma isort_sortedb : forall l, sortedb (isort l) = true.
Proof. induction l; [reflexivity|]. cbn [isort fold_right]. apply insert_sorted_sorted. exact IHl. Qed.

Lemma isort_idem : forall l, isort (isort l) = isort l.
Proof. intros. apply isort_sorted. apply isort_sortedb. Qed.

Lemma map_fst_insert : forall {A} (x : list N * A) l,
  map fst (insert_sortedk x l) = insert_sorted (fst x) (map fst l).
Proof.
  induction l as [|y r IH]; [reflexivity|]. cbn [insert_sortedk insert_sorted map].
  destruct (lex_leb (fst x) (fst y)); cbn [map]; [reflexivity|]. rewrite IH. reflexivity.
Qed.

Lemma map_fst_isortk : forall {A} (l : list (list N * A)), map fst (isortk l) = isort (map fst l).
Proof.
  induction l; [reflexivity|]. cbn [isortk isort fold_right map].
  fold (isortk l). fold (isort (map fst l)). rewrite map_fst_insert, IHl. reflexivity.
Qed.

Lemma Forall_insert : forall {A} (P : list N * A -> Prop) x l, P x -> Forall P l -> Forall P (insert_sortedk x l).
Proof.
  induction l as [|y r IH]; intros Hx Hl; cbn [insert_sortedk]; [auto|].
  inversion Hl; subst. destruct (lex_leb (fst x) (fst y)); auto.
Qed.

Lemma Forall_isortk : forall {A} (P : list N * A -> Prop) l, Forall P l -> Forall P (isortk l).
Proof.
  induction l; intros H; [constructor|]. inversion H; subst. cbn [isortk fold_right].
  apply Forall_insert; auto.
Qed.

Lemma insert_length : forall {A} (x : list N * A) l, length (insert_sortedk x l) = S (length l).
Proof.
  induction l as [|y r IH]; [reflexivity|]. cbn [insert_sortedk].
  destruct (lex_leb (fst x) (fst y)); cbn [length]; [reflexivity|]. rewrite IH. reflexivity.
Qed.

Lemma isortk_length : forall {A} (l : list (list N * A)), length (isortk l) = length l.
Proof. induction l; [reflexivity|]. cbn [isortk fold_right]. fold (isortk l). rewrite insert_length, IHl. reflexivity. Qed.

Lemma isortk_sorted : forall {A} (l : list (list N * A)), sortedb (map fst l) = true -> isortk l = l.
Proof.
  induction l as [|x r IH]; intros H; [reflexivity|].
  cbn [isortk fold_right]. fold (isortk r). cbn [map sortedb] in H. destruct r as [|y r'].
  - reflexivity.
  - cbn [map] in H. apply andb_true_iff in H. destruct H as [Hxy Hr].
    rewrite (IH Hr). cbn [insert_sortedk]. rewrite Hxy. reflexivity.
Qed.

(** the keyed list built by [norm] on a map *)
Definition keyed (l : list (value * value)) : list (list N * (value * value)) :=
  map (fun kv => let '(k, x) := kv in (encode k ++ encode x, (norm k, norm x))) l.

Lemma norm_map : forall i l, norm (VMap i l) = VMap false (map snd (isortk (keyed l))).
Proof. reflexivity. Qed.
Lemma norm_array : forall i l, norm (VArray i l) = VArray false (map norm l).
Proof. reflexivity. Qed.

Lemma map_fst_keyed : forall l, map fst (keyed l) = map enc_entry l.
Proof. induction l as [|[k x] l IH]; [reflexivity|]. unfold keyed in *. cbn [map fst enc_entry]. f_equal. exact IH. Qed.

(** ** encode (norm v) = encode v *)
Theorem encode_norm : forall v, encode (norm v) = encode v.
Proof.
  induction v using value_ind'; try reflexivity.
  - (* array *) rewrite norm_array, !encode_array. unfold len. rewrite map_length. f_equal. f_equal.
    rewrite map_map. apply map_ext_Forall. exact H.
  - (* map *) rewrite norm_map, !encode_map.
    assert (C : Forall (fun e : list N * (value * value) => enc_entry (snd e) = fst e) (keyed l)).
    { induction H as [|[k x] l [Hk Hx] Hl IH]; [constructor|]. constructor; [|exact IH].
      cbn [snd fst enc_entry] in *. rewrite Hk, Hx. reflexivity. }
    apply Forall_isortk in C.
    assert (E : map enc_entry (map snd (isortk (keyed l))) = map fst (isortk (keyed l))).
    { rewrite map_map. apply map_ext_Forall. exact C. }
    rewrite E, map_fst_isortk, map_fst_keyed, isort_idem.
    unfold len. rewrite map_length, isortk_length. unfold keyed. rewrite map_length. reflexivity.
  - (* tag *) cbn [norm]. rewrite !encode_tag, IHv. reflexivity.
Qed.

(** ** the normal form is well-formed *)
Lemma forallb_Forall : forall {A} (f : A -> bool) l, forallb f l = true <-> Forall (fun x => f x = true) l.
Proof.
  intros. rewrite forallb_forall, Forall_forall. tauto.
Qed.

Theorem norm_wf : forall v, value_okb v = true -> value_okb (norm v) = true /\ value_sortedb (norm v) = true.
Proof.
  induction v using value_ind'; intros Hok; try (split; [exact Hok|reflexivity]).
  - (* array *) rewrite norm_array. cbn [value_okb value_sortedb] in *.
    apply andb_true_iff in Hok. destruct Hok as [Hok Hall]. apply andb_true_iff in Hok. destruct Hok as [_ Hl].
    rewrite forallb_Forall in Hall.
    assert (A : Forall (fun x => value_okb (norm x) = true /\ value_sortedb (norm x) = true) l).
    { rewrite Forall_forall in *. intros x Hx. apply (H x Hx). apply (Hall x Hx). }
    split.
    + unfold len in *. rewrite map_length, Hl. cbn [negb andb]. rewrite forallb_Forall, Forall_map.
      eapply Forall_impl; [|exact A]. cbn. tauto.
    + rewrite forallb_Forall, Forall_map. eapply Forall_impl; [|exact A]. cbn. tauto.
  - (* map *) rewrite norm_map. cbn [value_okb value_sortedb] in *.
    apply andb_true_iff in Hok. destruct Hok as [Hok Hall]. apply andb_true_iff in Hok. destruct Hok as [_ Hl].
    rewrite forallb_Forall in Hall.
    set (Good := fun e : list N * (value * value) =>
                   enc_entry (snd e) = fst e /\
                   (value_okb (fst (snd e)) && value_okb (snd (snd e)) = true) /\
                   (value_sortedb (fst (snd e)) && value_sortedb (snd (snd e)) = true)).
    assert (G : Forall Good (keyed l)).
    { clear Hl. induction H as [|[k x] l [Hk Hx] Hl IH]; [constructor|].
      inversion Hall as [|? ? Hkx Hall']; subst. apply andb_true_iff in Hkx. destruct Hkx as [Ok1 Ok2].
      cbn [fst snd] in Hk, Hx. destruct (Hk Ok1) as [A1 A2]. destruct (Hx Ok2) as [B1 B2].
      constructor; [|apply IH; assumption]. unfold Good. cbn [snd fst enc_entry].
      rewrite !encode_norm, A1, A2, B1, B2. auto. }
    apply Forall_isortk in G.
    assert (E : map enc_entry (map snd (isortk (keyed l))) = map fst (isortk (keyed l))).
    { rewrite map_map. apply map_ext_Forall. eapply Forall_impl; [|exact G]. unfold Good. tauto. }
    split.
    + unfold len in *. rewrite map_length, isortk_length. unfold keyed at 1. rewrite map_length, Hl. cbn [negb andb].
      rewrite forallb_Forall, Forall_map. eapply Forall_impl; [|exact G]. unfold Good.
      intros [e [k x]]. cbn [snd fst]. tauto.
    + apply andb_true_iff. split.
      * fold enc_entry. rewrite E, map_fst_isortk. apply isort_sortedb.
      * rewrite forallb_Forall, Forall_map. eapply Forall_impl; [|exact G]. unfold Good.
        intros [e [k x]]. cbn [snd fst]. tauto.
  - (* tag *) cbn [norm value_okb value_sortedb] in *. apply andb_true_iff in Hok. destruct Hok as [Ht Hok].
    destruct (IHv Hok) as [A B]. rewrite Ht, A. auto.
Qed.

Theorem decode_encode_norm : forall v, value_okb v = true -> exists a, decode_top (encode v) = Ok (norm v) [] a.
Proof.
  intros v Hok. destruct (norm_wf v Hok) as [A B]. rewrite <- encode_norm.
  apply decode_encode_top. unfold value_wfb. rewrite A, B. reflexivity.
Qed.

Theorem norm_sorted_id : forall v, value_okb v = true -> value_sortedb v = true -> norm v = v.
Proof.
  induction v using value_ind'; intros Hok Hso; try reflexivity.
  - rewrite norm_array. cbn [value_okb value_sortedb] in *.
    apply andb_true_iff in Hok. destruct Hok as [Hok Hall]. apply andb_true_iff in Hok. destruct Hok as [Hi _].
    destruct i; [discriminate|]. f_equal.
    rewrite forallb_Forall in Hall, Hso. rewrite <- (map_id l) at 2. apply map_ext_Forall.
    rewrite Forall_forall in *. intros x Hx. apply (H x Hx); auto.
  - rewrite norm_map. cbn [value_okb value_sortedb] in *.
    apply andb_true_iff in Hok. destruct Hok as [Hok Hall]. apply andb_true_iff in Hok. destruct Hok as [Hi _].
    destruct i; [discriminate|]. apply andb_true_iff in Hso. destruct Hso as [Hsorted Hso]. f_equal.
    fold enc_entry in Hsorted. rewrite isortk_sorted by (rewrite map_fst_keyed; exact Hsorted).
    unfold keyed. rewrite map_map. rewrite <- (map_id l) at 2. apply map_ext_Forall.
    rewrite forallb_Forall in Hall, Hso. rewrite Forall_forall in *. intros [k x] Hx.
    specialize (H _ Hx). specialize (Hall _ Hx). specialize (Hso _ Hx). cbn [fst snd] in *.
    apply andb_true_iff in Hall, Hso. destruct H as [Hk Hv], Hall, Hso. rewrite Hk, Hv by assumption. reflexivity.
  - cbn [norm value_okb value_sortedb] in *. apply andb_true_iff in Hok. destruct Hok as [_ Hok].
    rewrite IHv by assumption. reflexivity.
Qed.

(** ** the decoder accepts encodings that the encoder never writes *)
Lemma noncanonical_witness :
  exists bs v, bs <> encode v /\ decode_top bs = Ok v [] 0 /\ decode_top (encode v) = Ok v [] 0.
Proof. exists [24; 5], (VPos 5). split; [discriminate|]. split; reflexivity. Qed.
