Require Extraction.
Require Import ExtrOcamlBasic.
From CB Require Import Chain.Auth.
Extraction "c06_model.ml" verify_bits verify_v1_bits update_verify_bits find_authorized_ids.
