(** Extraction of the codec model and the chain schema registry for the C05 runner
    (ocaml/driver_c05.ml).  ExtrOcamlBasic only: N/positive/nat stay the extracted datatypes. *)
Require Extraction.
Require Import ExtrOcamlBasic.
From Coq Require Import NArith.
From CB Require Import Common.Codec Chain.ChainSchemas Gen.ChainSchemas Chain.ChainSchemasFull Chain.ChainSchemasAll Gen.ManualImpls Chain.GenTie Chain.ManualTie.
Extraction "c05_model.ml" dec enc wt alloc cap used gcmp glt key_of eval_pred dec_le enc_le bytes_ok
  schema_wf min_size chain_schema_table gen_schema_table full_schema_table all_schema_table manual_schema_table payload_modelled_tags update_payload_alts
  N.add N.mul N.div N.modulo N.gcd N.compare N.eqb N.leb N.ltb N.of_nat N.to_nat N.pow.
