(** Extraction of the trie models for the C03 / C15 correspondence runs. *)
Require Extraction.
Require Import ExtrOcamlBasic.
From CB Require Import Trie.Radix.
From CB Require Import Trie.PrefixMap.
From CB Require Import Trie.Locks.
From CB Require Import Trie.Nibbles.
From CB Require Import Trie.InstanceState.
From CB Require Import Trie.Arena.
Extraction "trie_model.ml" m_step m_init s_step s_init m_wf
  pm_insert pm_delete pm_no_prefix pm_iohp pm_dump pm_wf pm_set pm_count
  ms_push ms_truncate ms_extend prepend_parts st_len it_next to_stem consumed_to_stem last_to_stem
  follow_iter iter_new stem_iter
  c_step c_init
  as_step as_init sizes cur_checkpoint root_tag_ok.
