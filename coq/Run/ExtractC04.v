(** Extraction of the C04 model (hash, freeze/collector, storage formats, the machine of the
    correspondence run).  The hash function stays an argument of the extracted functions. *)
Require Extraction.
Require Import ExtrOcamlBasic.
From CB Require Import Trie.Radix.
From CB Require Import Trie.MerkleHash.
From CB Require Import Trie.Persist.
Extraction "c04_model.ml" c_step c_init hash_root pre_root flatten deserialize load_node
  to_list_root unnib erase_root wfb_root read_at.
