(** Extraction of the executable C20 models (ExtrOcamlBasic only). *)
Require Extraction.
Require Import ExtrOcamlBasic.
From CB Require Import Crypto.Wnaf.
From CB Require Import Crypto.Shamir.
From CB Require Import Crypto.ScalarCodec.
From CB Require Import Crypto.Paths.
From CB Require Import Crypto.G1Decode.
Extraction "c20_model.ml" wnaf zr_multiexp zr_share zr_reveal zr_reveal_in_group zr_lagrange
  scalar_encode scalar_decode scalar_encode_le scalar_decode_le bls_scalar_from_bytes ed_scalar_from_bytes keygen_round bls_r ed_l path_of g1_decode g1_encode.
