(** Extraction of the Wasm models for the C01 correspondence runner (ExtrOcamlBasic only:
    nat/positive/N/Z stay inductive datatypes). *)
Require Extraction.
Require Import ExtrOcamlBasic.
From Coq Require Import ZArith NArith List FMapPositive.
From CB Require Import Common.IntN Wasm.Syntax Wasm.Opcodes Wasm.Sem Wasm.Compile Wasm.Machine Wasm.KnownClasses
     Wasm.BlockTheorem Wasm.BlockDead Wasm.BlockDeadTheorem.
Extraction Language OCaml.
Extraction "wasm_model.ml"
  plain_of_byte mem_of_byte mk_const mk_val structure_body flatten_body
  run no_host mem_get PositiveMap.elements
  compile_module classes_of_function build_artifact mrun metering_host
  as_u32 as_u64
  strip blocks_ok blocks_ok_r blocks_ok_dead blocks_ok_r_dead cm_func_type nth_error
  Z.of_N Z.to_N N.of_nat Nat.add.
