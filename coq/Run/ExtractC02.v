(** Extraction of the C02 model runner (ExtrOcamlBasic only: nat/positive/N/Z stay inductive). *)
Require Extraction.
Require Import ExtrOcamlBasic.
From Coq Require Import ZArith NArith List FMapPositive.
From CB Require Import Common.IntN Wasm.Syntax Wasm.Opcodes Wasm.Sem Wasm.CostCtx Wasm.Meter Wasm.SemTrace Wasm.MeterRun.
Extraction Language OCaml.
Extraction "c02_model.ml"
  plain_of_byte mem_of_byte mk_const mk_val structure_body flatten_body
  model_flat model_struct model_events model_src_events model_costs
  ticks work bal charges pay
  Z.of_N Z.to_N N.of_nat Nat.add N.add N.mul.
