(** Extraction of the Wasm models for the C13 correspondence runner (ExtrOcamlBasic only:
    nat/positive/N/Z stay inductive datatypes). *)
Require Extraction.
Require Import ExtrOcamlBasic.
From Coq Require Import ZArith NArith List FMapPositive.
From CB Require Import Common.IntN Wasm.Syntax Wasm.Opcodes Wasm.Sem Wasm.Compile Wasm.Machine
     Wasm.ArtifactCodec Wasm.ArtifactNormalForm Wasm.ArtifactView Wasm.Resume Contract.V1Resume Contract.V1Classify.
Extraction Language OCaml.
Extraction "c13_model.ml"
  plain_of_byte mem_of_byte mk_const mk_val structure_body flatten_body
  mem_get mem_write mem_len PositiveMap.elements
  compile_module build_artifact mrun
  as_u32 as_u64
  output_artifact parse_artifact parse_artifact_strict wf_artifactb view_okb s_artifact_of to_machine
  engine_scenario classify_scenario classify_init
  init_state finish m_run_direct m_drive_count lift_host
  Z.of_N Z.to_N N.of_nat Nat.add.
