(** Extraction of the host-function model for the C14 correspondence runner (ExtrOcamlBasic only). *)
Require Extraction.
Require Import ExtrOcamlBasic.
From Coq Require Import NArith List.
From CB Require Import Contract.HostBase Contract.HostV0 Contract.HostV1 Contract.HostRun.
Extraction Language OCaml.
Extraction "c14_model.ml" run_script run_depth.
