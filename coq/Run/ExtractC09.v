(** Extraction of the validation model for the C09 correspondence runner (ExtrOcamlBasic only). *)
Require Extraction.
Require Import ExtrOcamlBasic.
From Coq Require Import ZArith NArith List.
From CB Require Import Common.IntN Wasm.Syntax Wasm.Opcodes Wasm.Validate Wasm.ValidateLimits Wasm.Leb128 Wasm.Imports Wasm.Parse.
Extraction Language OCaml.
Extraction "c09_model.ml"
  plain_of_byte mem_of_byte mk_const
  validate_func ends_early validate_mfunc validate_module func_ctx make_locals artifact_memory
  decode_u32 decode_u64 decode_s32 decode_s64
  import_ok_v0 import_ok_v1 export_ok_v0 export_ok_v1
  parse_skeleton parse_module to_vmodule cfg_v0 cfg_v1
  Z.of_N Z.to_N N.of_nat N.to_nat Nat.add.
