(** Extraction of the C10 models (ExtrOcamlBasic only; N / Z / nat stay extracted datatypes). *)
Require Extraction.
Require Import ExtrOcamlBasic.
From Coq Require Import NArith ZArith.
From CB Require Import Contract.SchemaJson Contract.CcSchemaCodec.
Extraction "c10_model.ml" run_from run_to run_norm enc_ty dec_ty_top enc_f1 enc_f2 enc_versioned enc_module_body
  schema_new module_version show_N show_Z N.add N.mul Z.opp Z.of_N.
