
(** val negb : bool -> bool **)

let negb = function
| true -> false
| false -> true

type nat =
| O
| S of nat

(** val option_map : ('a1 -> 'a2) -> 'a1 option -> 'a2 option **)

let option_map f = function
| Some a -> Some (f a)
| None -> None

(** val fst : ('a1 * 'a2) -> 'a1 **)

let fst = function
| (x, _) -> x

(** val snd : ('a1 * 'a2) -> 'a2 **)

let snd = function
| (_, y) -> y

(** val length : 'a1 list -> nat **)

let rec length = function
| [] -> O
| _ :: l' -> S (length l')

(** val app : 'a1 list -> 'a1 list -> 'a1 list **)

let rec app l m =
  match l with
  | [] -> m
  | a :: l1 -> a :: (app l1 m)

type comparison =
| Eq
| Lt
| Gt

(** val sub : nat -> nat -> nat **)

let rec sub n0 m =
  match n0 with
  | O -> n0
  | S k -> (match m with
            | O -> n0
            | S l -> sub k l)

(** val leb : nat -> nat -> bool **)

let rec leb n0 m =
  match n0 with
  | O -> true
  | S n' -> (match m with
             | O -> false
             | S m' -> leb n' m')

type positive =
| XI of positive
| XO of positive
| XH

type n =
| N0
| Npos of positive

module Pos =
 struct
  type mask =
  | IsNul
  | IsPos of positive
  | IsNeg
 end

module Coq_Pos =
 struct
  (** val succ : positive -> positive **)

  let rec succ = function
  | XI p -> XO (succ p)
  | XO p -> XI p
  | XH -> XO XH

  (** val add : positive -> positive -> positive **)

  let rec add x y =
    match x with
    | XI p ->
      (match y with
       | XI q -> XO (add_carry p q)
       | XO q -> XI (add p q)
       | XH -> XO (succ p))
    | XO p ->
      (match y with
       | XI q -> XI (add p q)
       | XO q -> XO (add p q)
       | XH -> XI p)
    | XH -> (match y with
             | XI q -> XO (succ q)
             | XO q -> XI q
             | XH -> XO XH)

  (** val add_carry : positive -> positive -> positive **)

  and add_carry x y =
    match x with
    | XI p ->
      (match y with
       | XI q -> XI (add_carry p q)
       | XO q -> XO (add_carry p q)
       | XH -> XI (succ p))
    | XO p ->
      (match y with
       | XI q -> XO (add_carry p q)
       | XO q -> XI (add p q)
       | XH -> XO (succ p))
    | XH ->
      (match y with
       | XI q -> XI (succ q)
       | XO q -> XO (succ q)
       | XH -> XI XH)

  (** val pred_double : positive -> positive **)

  let rec pred_double = function
  | XI p -> XI (XO p)
  | XO p -> XI (pred_double p)
  | XH -> XH

  type mask = Pos.mask =
  | IsNul
  | IsPos of positive
  | IsNeg

  (** val succ_double_mask : mask -> mask **)

  let succ_double_mask = function
  | IsNul -> IsPos XH
  | IsPos p -> IsPos (XI p)
  | IsNeg -> IsNeg

  (** val double_mask : mask -> mask **)

  let double_mask = function
  | IsPos p -> IsPos (XO p)
  | x0 -> x0

  (** val double_pred_mask : positive -> mask **)

  let double_pred_mask = function
  | XI p -> IsPos (XO (XO p))
  | XO p -> IsPos (XO (pred_double p))
  | XH -> IsNul

  (** val sub_mask : positive -> positive -> mask **)

  let rec sub_mask x y =
    match x with
    | XI p ->
      (match y with
       | XI q -> double_mask (sub_mask p q)
       | XO q -> succ_double_mask (sub_mask p q)
       | XH -> IsPos (XO p))
    | XO p ->
      (match y with
       | XI q -> succ_double_mask (sub_mask_carry p q)
       | XO q -> double_mask (sub_mask p q)
       | XH -> IsPos (pred_double p))
    | XH -> (match y with
             | XH -> IsNul
             | _ -> IsNeg)

  (** val sub_mask_carry : positive -> positive -> mask **)

  and sub_mask_carry x y =
    match x with
    | XI p ->
      (match y with
       | XI q -> succ_double_mask (sub_mask_carry p q)
       | XO q -> double_mask (sub_mask p q)
       | XH -> IsPos (pred_double p))
    | XO p ->
      (match y with
       | XI q -> double_mask (sub_mask_carry p q)
       | XO q -> succ_double_mask (sub_mask_carry p q)
       | XH -> double_pred_mask p)
    | XH -> IsNeg

  (** val mul : positive -> positive -> positive **)

  let rec mul x y =
    match x with
    | XI p -> add y (XO (mul p y))
    | XO p -> XO (mul p y)
    | XH -> y

  (** val compare_cont : comparison -> positive -> positive -> comparison **)

  let rec compare_cont r x y =
    match x with
    | XI p ->
      (match y with
       | XI q -> compare_cont r p q
       | XO q -> compare_cont Gt p q
       | XH -> Gt)
    | XO p ->
      (match y with
       | XI q -> compare_cont Lt p q
       | XO q -> compare_cont r p q
       | XH -> Gt)
    | XH -> (match y with
             | XH -> r
             | _ -> Lt)

  (** val compare : positive -> positive -> comparison **)

  let compare =
    compare_cont Eq

  (** val eqb : positive -> positive -> bool **)

  let rec eqb p q =
    match p with
    | XI p0 -> (match q with
                | XI q0 -> eqb p0 q0
                | _ -> false)
    | XO p0 -> (match q with
                | XO q0 -> eqb p0 q0
                | _ -> false)
    | XH -> (match q with
             | XH -> true
             | _ -> false)

  (** val of_succ_nat : nat -> positive **)

  let rec of_succ_nat = function
  | O -> XH
  | S x -> succ (of_succ_nat x)
 end

module N =
 struct
  (** val succ_double : n -> n **)

  let succ_double = function
  | N0 -> Npos XH
  | Npos p -> Npos (XI p)

  (** val double : n -> n **)

  let double = function
  | N0 -> N0
  | Npos p -> Npos (XO p)

  (** val add : n -> n -> n **)

  let add n0 m =
    match n0 with
    | N0 -> m
    | Npos p -> (match m with
                 | N0 -> n0
                 | Npos q -> Npos (Coq_Pos.add p q))

  (** val sub : n -> n -> n **)

  let sub n0 m =
    match n0 with
    | N0 -> N0
    | Npos n' ->
      (match m with
       | N0 -> n0
       | Npos m' ->
         (match Coq_Pos.sub_mask n' m' with
          | Coq_Pos.IsPos p -> Npos p
          | _ -> N0))

  (** val mul : n -> n -> n **)

  let mul n0 m =
    match n0 with
    | N0 -> N0
    | Npos p -> (match m with
                 | N0 -> N0
                 | Npos q -> Npos (Coq_Pos.mul p q))

  (** val compare : n -> n -> comparison **)

  let compare n0 m =
    match n0 with
    | N0 -> (match m with
             | N0 -> Eq
             | Npos _ -> Lt)
    | Npos n' -> (match m with
                  | N0 -> Gt
                  | Npos m' -> Coq_Pos.compare n' m')

  (** val eqb : n -> n -> bool **)

  let eqb n0 m =
    match n0 with
    | N0 -> (match m with
             | N0 -> true
             | Npos _ -> false)
    | Npos p -> (match m with
                 | N0 -> false
                 | Npos q -> Coq_Pos.eqb p q)

  (** val leb : n -> n -> bool **)

  let leb x y =
    match compare x y with
    | Gt -> false
    | _ -> true

  (** val ltb : n -> n -> bool **)

  let ltb x y =
    match compare x y with
    | Lt -> true
    | _ -> false

  (** val pos_div_eucl : positive -> n -> n * n **)

  let rec pos_div_eucl a b =
    match a with
    | XI a' ->
      let (q, r) = pos_div_eucl a' b in
      let r' = succ_double r in
      if leb b r' then ((succ_double q), (sub r' b)) else ((double q), r')
    | XO a' ->
      let (q, r) = pos_div_eucl a' b in
      let r' = double r in
      if leb b r' then ((succ_double q), (sub r' b)) else ((double q), r')
    | XH ->
      (match b with
       | N0 -> (N0, (Npos XH))
       | Npos p -> (match p with
                    | XH -> ((Npos XH), N0)
                    | _ -> (N0, (Npos XH))))

  (** val div_eucl : n -> n -> n * n **)

  let div_eucl a b =
    match a with
    | N0 -> (N0, N0)
    | Npos na -> (match b with
                  | N0 -> (N0, a)
                  | Npos _ -> pos_div_eucl na b)

  (** val div : n -> n -> n **)

  let div a b =
    fst (div_eucl a b)

  (** val modulo : n -> n -> n **)

  let modulo a b =
    snd (div_eucl a b)

  (** val of_nat : nat -> n **)

  let of_nat = function
  | O -> N0
  | S n' -> Npos (Coq_Pos.of_succ_nat n')
 end

(** val nth_error : 'a1 list -> nat -> 'a1 option **)

let rec nth_error l = function
| O -> (match l with
        | [] -> None
        | x :: _ -> Some x)
| S n1 -> (match l with
           | [] -> None
           | _ :: l0 -> nth_error l0 n1)

(** val map : ('a1 -> 'a2) -> 'a1 list -> 'a2 list **)

let rec map f = function
| [] -> []
| a :: t -> (f a) :: (map f t)

(** val flat_map : ('a1 -> 'a2 list) -> 'a1 list -> 'a2 list **)

let rec flat_map f = function
| [] -> []
| x :: t -> app (f x) (flat_map f t)

(** val fold_left : ('a1 -> 'a2 -> 'a1) -> 'a2 list -> 'a1 -> 'a1 **)

let rec fold_left f l a0 =
  match l with
  | [] -> a0
  | b :: t -> fold_left f t (f a0 b)

(** val existsb : ('a1 -> bool) -> 'a1 list -> bool **)

let rec existsb f = function
| [] -> false
| a :: l0 -> (||) (f a) (existsb f l0)

(** val forallb : ('a1 -> bool) -> 'a1 list -> bool **)

let rec forallb f = function
| [] -> true
| a :: l0 -> (&&) (f a) (forallb f l0)

(** val filter : ('a1 -> bool) -> 'a1 list -> 'a1 list **)

let rec filter f = function
| [] -> []
| x :: l0 -> if f x then x :: (filter f l0) else filter f l0

(** val skipn : nat -> 'a1 list -> 'a1 list **)

let rec skipn n0 l =
  match n0 with
  | O -> l
  | S n1 -> (match l with
             | [] -> []
             | _ :: l0 -> skipn n1 l0)

(** val nib : n list -> n list **)

let rec nib = function
| [] -> []
| b :: r ->
  (N.div b (Npos (XO (XO (XO (XO XH)))))) :: ((N.modulo b (Npos (XO (XO (XO
                                                (XO XH)))))) :: (nib r))

(** val unnib : n list -> n list **)

let rec unnib = function
| [] -> []
| h :: l0 ->
  (match l0 with
   | [] -> []
   | l :: r -> (N.add (N.mul (Npos (XO (XO (XO (XO XH))))) h) l) :: (unnib r))

(** val list_eqb : n list -> n list -> bool **)

let rec list_eqb a b =
  match a with
  | [] -> (match b with
           | [] -> true
           | _ :: _ -> false)
  | x :: a' ->
    (match b with
     | [] -> false
     | y :: b' -> (&&) (N.eqb x y) (list_eqb a' b'))

(** val is_prefix : n list -> n list -> bool **)

let rec is_prefix p k =
  match p with
  | [] -> true
  | x :: p' ->
    (match k with
     | [] -> false
     | y :: k' -> (&&) (N.eqb x y) (is_prefix p' k'))

(** val lex_ltb : n list -> n list -> bool **)

let rec lex_ltb a b =
  match a with
  | [] -> (match b with
           | [] -> false
           | _ :: _ -> true)
  | x :: a' ->
    (match b with
     | [] -> false
     | y :: b' ->
       if N.ltb x y then true else if N.eqb x y then lex_ltb a' b' else false)

type follow =
| FEqual
| FKeyIsPrefix of n * n list
| FStemIsPrefix of n * n list
| FDiff of n list * n * n list * n * n list

(** val follow_stem : n list -> n list -> follow **)

let rec follow_stem k p =
  match k with
  | [] -> (match p with
           | [] -> FEqual
           | s :: ps -> FKeyIsPrefix (s, ps))
  | c :: ks ->
    (match p with
     | [] -> FStemIsPrefix (c, ks)
     | s :: ps ->
       if N.eqb c s
       then (match follow_stem ks ps with
             | FDiff (cm, a, b, c', d) -> FDiff ((c :: cm), a, b, c', d)
             | x -> x)
       else FDiff ([], c, ks, s, ps))

type 'v tree =
| Node of n list * 'v option * 'v forest
and 'v forest =
| FNil
| FCons of n * 'v tree * 'v forest

(** val flen : 'a1 forest -> nat **)

let rec flen = function
| FNil -> O
| FCons (_, _, r) -> S (flen r)

(** val lookup : n list -> 'a1 tree -> 'a1 option **)

let lookup =
  let rec lookup0 k = function
  | Node (p, v, cs) ->
    (match follow_stem k p with
     | FEqual -> v
     | FStemIsPrefix (c, k') -> lookup_f c k' cs
     | _ -> None)
  and lookup_f c k = function
  | FNil -> None
  | FCons (c', t, r) -> if N.eqb c c' then lookup0 k t else lookup_f c k r
  in lookup0

(** val insert : n list -> 'a1 -> 'a1 tree -> 'a1 tree **)

let insert =
  let rec insert0 k v = function
  | Node (p, ov, cs) ->
    (match follow_stem k p with
     | FEqual -> Node (p, (Some v), cs)
     | FKeyIsPrefix (s, ps) ->
       Node (k, (Some v), (FCons (s, (Node (ps, ov, cs)), FNil)))
     | FStemIsPrefix (c, k') -> Node (p, ov, (insert_f c k' v cs))
     | FDiff (cm, kc, kr, sc, sr) ->
       let nk = Node (kr, (Some v), FNil) in
       let old = Node (sr, ov, cs) in
       Node (cm, None,
       (if N.ltb kc sc
        then FCons (kc, nk, (FCons (sc, old, FNil)))
        else FCons (sc, old, (FCons (kc, nk, FNil))))))
  and insert_f c k v f = match f with
  | FNil -> FCons (c, (Node (k, (Some v), FNil)), FNil)
  | FCons (c', t, r) ->
    if N.eqb c c'
    then FCons (c', (insert0 k v t), r)
    else if N.ltb c c'
         then FCons (c, (Node (k, (Some v), FNil)), f)
         else FCons (c', t, (insert_f c k v r))
  in insert0

(** val lookup_root : n list -> 'a1 tree option -> 'a1 option **)

let lookup_root k = function
| Some t -> lookup k t
| None -> None

(** val insert_root : n list -> 'a1 -> 'a1 tree option -> 'a1 tree **)

let insert_root k v = function
| Some t -> insert k v t
| None -> Node (k, (Some v), FNil)

(** val collapse : n list -> 'a1 option -> 'a1 forest -> 'a1 tree option **)

let collapse p ov cs =
  match ov with
  | Some _ -> Some (Node (p, ov, cs))
  | None ->
    (match cs with
     | FNil -> None
     | FCons (c, t, f) ->
       let Node (cp, cv, ccs) = t in
       (match f with
        | FNil -> Some (Node ((app p (c :: cp)), cv, ccs))
        | FCons (_, _, _) -> Some (Node (p, ov, cs))))

(** val delete : n list -> 'a1 tree -> 'a1 tree option **)

let delete =
  let rec delete0 k t = match t with
  | Node (p, ov, cs) ->
    (match follow_stem k p with
     | FEqual -> (match ov with
                  | Some _ -> collapse p None cs
                  | None -> Some t)
     | FStemIsPrefix (c, k') -> collapse p ov (delete_f c k' cs)
     | _ -> Some t)
  and delete_f c k = function
  | FNil -> FNil
  | FCons (c', t, r) ->
    if N.eqb c c'
    then (match delete0 k t with
          | Some t' -> FCons (c', t', r)
          | None -> r)
    else FCons (c', t, (delete_f c k r))
  in delete0

(** val delete_prefix : n list -> 'a1 tree -> 'a1 tree option **)

let delete_prefix =
  let rec delete_prefix0 k t = match t with
  | Node (p, ov, cs) ->
    (match follow_stem k p with
     | FStemIsPrefix (c, k') -> collapse p ov (delete_prefix_f c k' cs)
     | FDiff (_, _, _, _, _) -> Some t
     | _ -> None)
  and delete_prefix_f c k = function
  | FNil -> FNil
  | FCons (c', t, r) ->
    if N.eqb c c'
    then (match delete_prefix0 k t with
          | Some t' -> FCons (c', t', r)
          | None -> r)
    else FCons (c', t, (delete_prefix_f c k r))
  in delete_prefix0

(** val has_prefix : n list -> 'a1 tree -> bool **)

let has_prefix =
  let rec has_prefix0 k = function
  | Node (p, _, cs) ->
    (match follow_stem k p with
     | FStemIsPrefix (c, k') -> has_prefix_f c k' cs
     | FDiff (_, _, _, _, _) -> false
     | _ -> true)
  and has_prefix_f c k = function
  | FNil -> false
  | FCons (c', t, r) ->
    if N.eqb c c' then has_prefix0 k t else has_prefix_f c k r
  in has_prefix0

(** val pre : n list -> (n list * 'a1) -> n list * 'a1 **)

let pre p kv =
  ((app p (fst kv)), (snd kv))

(** val to_list : 'a1 tree -> (n list * 'a1) list **)

let to_list =
  let rec to_list0 = function
  | Node (p, ov, cs) ->
    map (pre p)
      (app (match ov with
            | Some v -> ([], v) :: []
            | None -> []) (to_list_f cs))
  and to_list_f = function
  | FNil -> []
  | FCons (c, t, r) -> app (map (pre (c :: [])) (to_list0 t)) (to_list_f r)
  in to_list0

(** val to_list_root : 'a1 tree option -> (n list * 'a1) list **)

let to_list_root = function
| Some t -> to_list t
| None -> []

(** val iterate : n list -> 'a1 tree -> (n list * 'a1) list **)

let iterate =
  let rec iterate0 k t = match t with
  | Node (p, _, cs) ->
    (match follow_stem k p with
     | FStemIsPrefix (c, k') -> map (pre p) (iterate_f c k' cs)
     | FDiff (_, _, _, _, _) -> []
     | _ -> to_list t)
  and iterate_f c k = function
  | FNil -> []
  | FCons (c', t, r) ->
    if N.eqb c c'
    then map (pre (c' :: [])) (iterate0 k t)
    else iterate_f c k r
  in iterate0

(** val iterate_root : n list -> 'a1 tree option -> (n list * 'a1) list **)

let iterate_root k = function
| Some t -> iterate k t
| None -> []

(** val all_gt : n -> 'a1 forest -> bool **)

let rec all_gt c = function
| FNil -> true
| FCons (c', _, r) -> (&&) (N.ltb c c') (all_gt c r)

(** val sorted_f : 'a1 forest -> bool **)

let rec sorted_f = function
| FNil -> true
| FCons (c, _, r) -> (&&) (all_gt c r) (sorted_f r)

(** val wfb : 'a1 tree -> bool **)

let wfb =
  let rec wfb0 = function
  | Node (_, ov, cs) ->
    (&&) ((&&) (wfb_f cs) (sorted_f cs))
      (match ov with
       | Some _ -> true
       | None -> leb (S (S O)) (flen cs))
  and wfb_f = function
  | FNil -> true
  | FCons (_, t, r) -> (&&) (wfb0 t) (wfb_f r)
  in wfb0

(** val wfb_root : 'a1 tree option -> bool **)

let wfb_root = function
| Some t -> wfb t
| None -> true

type 'v amap = (n list * 'v) list

(** val a_lookup : n list -> 'a1 amap -> 'a1 option **)

let rec a_lookup k = function
| [] -> None
| p :: r -> let (k', v) = p in if list_eqb k k' then Some v else a_lookup k r

(** val a_insert : n list -> 'a1 -> 'a1 amap -> 'a1 amap **)

let rec a_insert k v m = match m with
| [] -> (k, v) :: []
| p :: r ->
  let (k', v') = p in
  if list_eqb k k'
  then (k, v) :: r
  else if lex_ltb k k' then (k, v) :: m else (k', v') :: (a_insert k v r)

(** val a_delete : n list -> 'a1 amap -> 'a1 amap **)

let a_delete k m =
  filter (fun kv -> negb (list_eqb k (fst kv))) m

(** val a_delete_prefix : n list -> 'a1 amap -> 'a1 amap **)

let a_delete_prefix p m =
  filter (fun kv -> negb (is_prefix p (fst kv))) m

(** val a_iterate : n list -> 'a1 amap -> 'a1 amap **)

let a_iterate p m =
  filter (fun kv -> is_prefix p (fst kv)) m

type pnode =
| PNode of n * pforest
and pforest =
| PNil
| PCons of n * pnode * pforest

type pmap = pnode option

(** val mAXC : n **)

let mAXC =
  Npos (XI (XI (XI (XI (XI (XI (XI (XI (XI (XI (XI (XI (XI (XI (XI (XI (XI
    (XI (XI (XI (XI (XI (XI (XI (XI (XI (XI (XI (XI (XI (XI
    XH)))))))))))))))))))))))))))))))

(** val pn_fresh : n list -> pnode **)

let rec pn_fresh = function
| [] -> PNode ((Npos XH), PNil)
| b :: k' -> PNode (N0, (PCons (b, (pn_fresh k'), PNil)))

(** val pn_insert : n list -> pnode -> pnode option **)

let rec pn_insert k = function
| PNode (c, ch) ->
  (match k with
   | [] ->
     if N.eqb c mAXC then None else Some (PNode ((N.add c (Npos XH)), ch))
   | b :: k' -> option_map (fun x -> PNode (c, x)) (pf_insert b k' ch))

(** val pf_insert : n -> n list -> pforest -> pforest option **)

and pf_insert b k f = match f with
| PNil -> Some (PCons (b, (pn_fresh k), PNil))
| PCons (b', n0, r) ->
  if N.eqb b b'
  then option_map (fun n' -> PCons (b', n', r)) (pn_insert k n0)
  else if N.ltb b b'
       then Some (PCons (b, (pn_fresh k), f))
       else option_map (fun x -> PCons (b', n0, x)) (pf_insert b k r)

(** val pm_insert : n list -> pmap -> pmap option **)

let pm_insert k = function
| Some n0 -> option_map (fun x -> Some x) (pn_insert k n0)
| None -> Some (Some (pn_fresh k))

(** val pn_mk : n -> pforest -> pnode option **)

let pn_mk c ch = match ch with
| PNil -> if N.eqb c N0 then None else Some (PNode (c, ch))
| PCons (_, _, _) -> Some (PNode (c, ch))

(** val pn_delete : n list -> pnode -> pnode option * bool **)

let rec pn_delete k = function
| PNode (c, ch) ->
  (match k with
   | [] ->
     if N.ltb (Npos XH) c
     then ((Some (PNode ((N.sub c (Npos XH)), ch))), true)
     else ((pn_mk N0 ch), (negb (N.eqb c N0)))
   | b :: k' -> let (ch', r) = pf_delete b k' ch in ((pn_mk c ch'), r))

(** val pf_delete : n -> n list -> pforest -> pforest * bool **)

and pf_delete b k = function
| PNil -> (PNil, false)
| PCons (b', n0, r) ->
  if N.eqb b b'
  then let (o, x) = pn_delete k n0 in
       (match o with
        | Some n' -> ((PCons (b', n', r)), x)
        | None -> (r, x))
  else let (r', x) = pf_delete b k r in ((PCons (b', n0, r')), x)

(** val pm_delete : n list -> pmap -> pmap * bool **)

let pm_delete k = function
| Some n0 -> pn_delete k n0
| None -> (None, false)

(** val pn_no_prefix : n list -> pnode -> bool **)

let rec pn_no_prefix k = function
| PNode (c, ch) ->
  (match k with
   | [] -> N.eqb c N0
   | b :: k' -> if N.eqb c N0 then pf_no_prefix b k' ch else false)

(** val pf_no_prefix : n -> n list -> pforest -> bool **)

and pf_no_prefix b k = function
| PNil -> true
| PCons (b', n0, r) ->
  if N.eqb b b' then pn_no_prefix k n0 else pf_no_prefix b k r

(** val pm_no_prefix : n list -> pmap -> bool **)

let pm_no_prefix k = function
| Some n0 -> pn_no_prefix k n0
| None -> true

(** val pn_iohp : n list -> pnode -> bool **)

let rec pn_iohp k = function
| PNode (c, ch) ->
  (match k with
   | [] -> true
   | b :: k' -> if N.eqb c N0 then pf_iohp b k' ch else true)

(** val pf_iohp : n -> n list -> pforest -> bool **)

and pf_iohp b k = function
| PNil -> false
| PCons (b', n0, r) -> if N.eqb b b' then pn_iohp k n0 else pf_iohp b k r

(** val pm_iohp : n list -> pmap -> bool **)

let pm_iohp k = function
| Some n0 -> pn_iohp k n0
| None -> false

(** val pn_set : n list -> n -> pnode -> pnode **)

let rec pn_set k x n0 = match n0 with
| PNode (c, ch) ->
  (match k with
   | [] -> if N.eqb c N0 then n0 else PNode (x, ch)
   | b :: k' -> PNode (c, (pf_set b k' x ch)))

(** val pf_set : n -> n list -> n -> pforest -> pforest **)

and pf_set b k x = function
| PNil -> PNil
| PCons (b', n0, r) ->
  if N.eqb b b'
  then PCons (b', (pn_set k x n0), r)
  else PCons (b', n0, (pf_set b k x r))

(** val pm_set : n list -> n -> pmap -> pmap **)

let pm_set k x = function
| Some n0 -> Some (pn_set k x n0)
| None -> None

(** val pn_count : n list -> pnode -> n **)

let rec pn_count k = function
| PNode (c, ch) -> (match k with
                    | [] -> c
                    | b :: k' -> pf_count b k' ch)

(** val pf_count : n -> n list -> pforest -> n **)

and pf_count b k = function
| PNil -> N0
| PCons (b', n0, r) -> if N.eqb b b' then pn_count k n0 else pf_count b k r

(** val pm_count : n list -> pmap -> n **)

let pm_count k = function
| Some n0 -> pn_count k n0
| None -> N0

(** val pn_dump : pnode -> (n list * n) list **)

let rec pn_dump = function
| PNode (c, ch) -> app (if N.eqb c N0 then [] else ([], c) :: []) (pf_dump ch)

(** val pf_dump : pforest -> (n list * n) list **)

and pf_dump = function
| PNil -> []
| PCons (b, n0, r) ->
  app (map (fun kc -> ((b :: (fst kc)), (snd kc))) (pn_dump n0)) (pf_dump r)

(** val pm_dump : pmap -> (n list * n) list **)

let pm_dump = function
| Some n0 -> pn_dump n0
| None -> []

(** val psorted : pforest -> bool **)

let rec psorted = function
| PNil -> true
| PCons (b, _, r) ->
  (&&) (match r with
        | PNil -> true
        | PCons (b', _, _) -> N.ltb b b') (psorted r)

(** val pn_wf : pnode -> bool **)

let rec pn_wf = function
| PNode (c, ch) ->
  (&&) ((&&) ((&&) (pf_wf ch) (psorted ch)) (N.leb c mAXC))
    (match ch with
     | PNil -> negb (N.eqb c N0)
     | PCons (_, _, _) -> true)

(** val pf_wf : pforest -> bool **)

and pf_wf = function
| PNil -> true
| PCons (_, n0, r) -> (&&) (pn_wf n0) (pf_wf r)

(** val pm_wf : pmap -> bool **)

let pm_wf = function
| Some n0 -> pn_wf n0
| None -> true

type value = n list

type op =
| OInsert of n list * value
| OGet of n list
| ORead of nat
| OSet of nat * value
| OMut of nat * value
| ODelete of n list
| ODeletePrefix of n list
| OIter of n list
| ONext of nat
| ODelIter of nat
| ONewGen
| ONormalize of nat
| OFreeze
| OThaw

type out =
| RSkip
| RLocked
| RTooMany
| RNone
| RBool of bool
| RHandle of nat * bool
| RFound of nat * value option
| RVal of value option
| RIter of nat
| RNext of n list * nat * value option
| RGens of nat
| RDump of (n list * value option) list

(** val set_nth : nat -> 'a1 -> 'a1 list -> 'a1 list **)

let rec set_nth n0 x = function
| [] -> []
| y :: r -> (match n0 with
             | O -> x :: r
             | S n' -> y :: (set_nth n' x r))

(** val ent_get : value option list -> nat -> value option **)

let ent_get ents e =
  match nth_error ents e with
  | Some o -> o
  | None -> None

(** val kill : value option list -> nat list -> value option list **)

let kill ents es =
  fold_left (fun acc e -> set_nth e None acc) es ents

type gen = { g_root : nat tree option; g_ents : value option list;
             g_locks : pmap; g_handles : nat list;
             g_iters : (n list * n list option) option list }

type state = gen list

(** val empty_gen : gen **)

let empty_gen =
  { g_root = None; g_ents = []; g_locks = None; g_handles = []; g_iters = [] }

(** val m_init : state **)

let m_init =
  empty_gen :: []

(** val with_handle : gen -> nat -> gen **)

let with_handle g e =
  { g_root = g.g_root; g_ents = g.g_ents; g_locks = g.g_locks; g_handles =
    (app g.g_handles (e :: [])); g_iters = g.g_iters }

(** val with_ents : gen -> value option list -> gen **)

let with_ents g ents =
  { g_root = g.g_root; g_ents = ents; g_locks = g.g_locks; g_handles =
    g.g_handles; g_iters = g.g_iters }

(** val with_root : gen -> nat tree option -> gen **)

let with_root g r =
  { g_root = r; g_ents = g.g_ents; g_locks = g.g_locks; g_handles =
    g.g_handles; g_iters = g.g_iters }

(** val with_locks_iters :
    gen -> pmap -> (n list * n list option) option list -> gen **)

let with_locks_iters g l its =
  { g_root = g.g_root; g_ents = g.g_ents; g_locks = l; g_handles =
    g.g_handles; g_iters = its }

(** val m_insert : n list -> value -> gen -> gen * out **)

let m_insert k v g =
  if negb (pm_no_prefix k g.g_locks)
  then (g, RLocked)
  else let h = length g.g_handles in
       (match lookup_root (nib k) g.g_root with
        | Some e ->
          ((with_handle (with_ents g (set_nth e (Some v) g.g_ents)) e),
            (RHandle (h, true)))
        | None ->
          let e = length g.g_ents in
          ((with_handle
             (with_ents (with_root g (Some (insert_root (nib k) e g.g_root)))
               (app g.g_ents ((Some v) :: []))) e), (RHandle (h, false))))

(** val m_get : n list -> gen -> gen * out **)

let m_get k g =
  match lookup_root (nib k) g.g_root with
  | Some e ->
    ((with_handle g e), (RFound ((length g.g_handles), (ent_get g.g_ents e))))
  | None -> (g, RNone)

(** val m_read : nat -> gen -> gen * out **)

let m_read h g =
  match nth_error g.g_handles h with
  | Some e -> (g, (RVal (ent_get g.g_ents e)))
  | None -> (g, RSkip)

(** val m_set : nat -> value -> gen -> gen * out **)

let m_set h v g =
  match nth_error g.g_handles h with
  | Some e ->
    (match ent_get g.g_ents e with
     | Some _ -> ((with_ents g (set_nth e (Some v) g.g_ents)), (RBool true))
     | None -> (g, (RBool false)))
  | None -> (g, RSkip)

(** val m_mut : nat -> value -> gen -> gen * out **)

let m_mut h v g =
  match nth_error g.g_handles h with
  | Some e ->
    (match ent_get g.g_ents e with
     | Some old ->
       ((with_ents g (set_nth e (Some v) g.g_ents)), (RVal (Some old)))
     | None -> (g, (RVal None)))
  | None -> (g, RSkip)

(** val m_delete : n list -> gen -> gen * out **)

let m_delete k g =
  match g.g_root with
  | Some t ->
    if negb (pm_no_prefix k g.g_locks)
    then (g, RLocked)
    else (match lookup (nib k) t with
          | Some e ->
            ((with_ents (with_root g (delete (nib k) t))
               (set_nth e None g.g_ents)), (RBool
              (match ent_get g.g_ents e with
               | Some _ -> true
               | None -> false)))
          | None -> (g, (RBool false)))
  | None -> (g, (RBool false))

(** val m_delete_prefix : n list -> gen -> gen * out **)

let m_delete_prefix k g =
  match g.g_root with
  | Some t ->
    if pm_iohp k g.g_locks
    then (g, RLocked)
    else if has_prefix (nib k) t
         then ((with_ents (with_root g (delete_prefix (nib k) t))
                 (kill g.g_ents (map snd (iterate (nib k) t)))), (RBool true))
         else (g, (RBool false))
  | None -> (g, (RBool false))

(** val m_iter : n list -> gen -> gen * out **)

let m_iter k g =
  match g.g_root with
  | Some t ->
    if has_prefix (nib k) t
    then (match pm_insert k g.g_locks with
          | Some l' ->
            ((with_locks_iters g l' (app g.g_iters ((Some (k, None)) :: []))),
              (RIter (length g.g_iters)))
          | None -> (g, RTooMany))
    else (g, RNone)
  | None -> (g, RNone)

(** val after :
    n list option -> (n list * 'a1) list -> (n list * 'a1) list **)

let after last l =
  match last with
  | Some k0 -> filter (fun kv -> lex_ltb (nib k0) (fst kv)) l
  | None -> l

(** val m_next : nat -> gen -> gen * out **)

let m_next i g =
  match nth_error g.g_iters i with
  | Some o ->
    (match o with
     | Some p0 ->
       let (p, last) = p0 in
       (match after last (iterate_root (nib p) g.g_root) with
        | [] -> (g, RNone)
        | p1 :: _ ->
          let (k, e) = p1 in
          ((with_handle
             (with_locks_iters g g.g_locks
               (set_nth i (Some (p, (Some (unnib k)))) g.g_iters)) e), (RNext
          ((unnib k), (length g.g_handles), (ent_get g.g_ents e)))))
     | None -> (g, RSkip))
  | None -> (g, RSkip)

(** val m_deliter : nat -> gen -> gen * out **)

let m_deliter i g =
  match nth_error g.g_iters i with
  | Some o ->
    (match o with
     | Some p0 ->
       let (p, _) = p0 in
       let (l', b) = pm_delete p g.g_locks in
       ((with_locks_iters g l' (set_nth i None g.g_iters)), (RBool b))
     | None -> (g, RSkip))
  | None -> (g, RSkip)

(** val m_dump : gen -> (n list * value option) list **)

let m_dump g =
  map (fun kv -> ((unnib (fst kv)), (ent_get g.g_ents (snd kv))))
    (to_list_root g.g_root)

(** val on_cur : (gen -> gen * out) -> state -> state * out **)

let on_cur f = function
| [] -> ([], RSkip)
| g :: rest -> let (g', o) = f g in ((g' :: rest), o)

(** val normalize : nat -> 'a1 list -> 'a1 list **)

let normalize r s =
  skipn (sub (length s) (S r)) s

(** val m_step : op -> state -> state * out **)

let m_step o s =
  match o with
  | OInsert (k, v) -> on_cur (m_insert k v) s
  | OGet k -> on_cur (m_get k) s
  | ORead h -> on_cur (m_read h) s
  | OSet (h, v) -> on_cur (m_set h v) s
  | OMut (h, v) -> on_cur (m_mut h v) s
  | ODelete k -> on_cur (m_delete k) s
  | ODeletePrefix k -> on_cur (m_delete_prefix k) s
  | OIter k -> on_cur (m_iter k) s
  | ONext i -> on_cur (m_next i) s
  | ODelIter i -> on_cur (m_deliter i) s
  | ONewGen ->
    (match s with
     | [] -> ([], RSkip)
     | g :: _ ->
       (({ g_root = g.g_root; g_ents = g.g_ents; g_locks = None; g_handles =
         []; g_iters = [] } :: s), (RGens (S (length s)))))
  | ONormalize r -> let s' = normalize r s in (s', (RGens (length s')))
  | OFreeze ->
    (match s with
     | [] -> ([], RSkip)
     | g :: _ -> (s, (RDump (m_dump g))))
  | OThaw ->
    (match s with
     | [] -> ([], RSkip)
     | g :: _ ->
       (({ g_root = g.g_root; g_ents = g.g_ents; g_locks = None; g_handles =
         []; g_iters = [] } :: []), (RDump (m_dump g))))

type sgen = { s_map : nat amap; s_ents : value option list;
              s_handles : nat list;
              s_iters : (n list * n list list) option list }

type sstate = sgen list

(** val empty_sgen : sgen **)

let empty_sgen =
  { s_map = []; s_ents = []; s_handles = []; s_iters = [] }

(** val s_init : sstate **)

let s_init =
  empty_sgen :: []

(** val live_roots : (n list * 'a1) option list -> n list list **)

let live_roots its =
  flat_map (fun o ->
    match o with
    | Some y -> let (p, _) = y in p :: []
    | None -> []) its

(** val s_locked : n list -> sgen -> bool **)

let s_locked k g =
  existsb (fun p -> is_prefix p k) (live_roots g.s_iters)

(** val s_locked2 : n list -> sgen -> bool **)

let s_locked2 k g =
  existsb (fun p -> (||) (is_prefix p k) (is_prefix k p))
    (live_roots g.s_iters)

(** val s_count : n list -> sgen -> n **)

let s_count p g =
  N.of_nat (length (filter (list_eqb p) (live_roots g.s_iters)))

(** val s_with_handle : sgen -> nat -> sgen **)

let s_with_handle g e =
  { s_map = g.s_map; s_ents = g.s_ents; s_handles =
    (app g.s_handles (e :: [])); s_iters = g.s_iters }

(** val s_with_ents : sgen -> value option list -> sgen **)

let s_with_ents g ents =
  { s_map = g.s_map; s_ents = ents; s_handles = g.s_handles; s_iters =
    g.s_iters }

(** val s_with_map : sgen -> nat amap -> sgen **)

let s_with_map g m =
  { s_map = m; s_ents = g.s_ents; s_handles = g.s_handles; s_iters =
    g.s_iters }

(** val s_with_iters : sgen -> (n list * n list list) option list -> sgen **)

let s_with_iters g its =
  { s_map = g.s_map; s_ents = g.s_ents; s_handles = g.s_handles; s_iters =
    its }

(** val s_insert : n list -> value -> sgen -> sgen * out **)

let s_insert k v g =
  if s_locked k g
  then (g, RLocked)
  else let h = length g.s_handles in
       (match a_lookup k g.s_map with
        | Some e ->
          ((s_with_handle (s_with_ents g (set_nth e (Some v) g.s_ents)) e),
            (RHandle (h, true)))
        | None ->
          let e = length g.s_ents in
          ((s_with_handle
             (s_with_ents (s_with_map g (a_insert k e g.s_map))
               (app g.s_ents ((Some v) :: []))) e), (RHandle (h, false))))

(** val s_get : n list -> sgen -> sgen * out **)

let s_get k g =
  match a_lookup k g.s_map with
  | Some e ->
    ((s_with_handle g e), (RFound ((length g.s_handles),
      (ent_get g.s_ents e))))
  | None -> (g, RNone)

(** val s_read : nat -> sgen -> sgen * out **)

let s_read h g =
  match nth_error g.s_handles h with
  | Some e -> (g, (RVal (ent_get g.s_ents e)))
  | None -> (g, RSkip)

(** val s_set : nat -> value -> sgen -> sgen * out **)

let s_set h v g =
  match nth_error g.s_handles h with
  | Some e ->
    (match ent_get g.s_ents e with
     | Some _ -> ((s_with_ents g (set_nth e (Some v) g.s_ents)), (RBool true))
     | None -> (g, (RBool false)))
  | None -> (g, RSkip)

(** val s_mut : nat -> value -> sgen -> sgen * out **)

let s_mut h v g =
  match nth_error g.s_handles h with
  | Some e ->
    (match ent_get g.s_ents e with
     | Some old ->
       ((s_with_ents g (set_nth e (Some v) g.s_ents)), (RVal (Some old)))
     | None -> (g, (RVal None)))
  | None -> (g, RSkip)

(** val s_delete : n list -> sgen -> sgen * out **)

let s_delete k g =
  match g.s_map with
  | [] -> (g, (RBool false))
  | _ :: _ ->
    if s_locked k g
    then (g, RLocked)
    else (match a_lookup k g.s_map with
          | Some e ->
            ((s_with_ents (s_with_map g (a_delete k g.s_map))
               (set_nth e None g.s_ents)), (RBool
              (match ent_get g.s_ents e with
               | Some _ -> true
               | None -> false)))
          | None -> (g, (RBool false)))

(** val s_delete_prefix : n list -> sgen -> sgen * out **)

let s_delete_prefix k g =
  match g.s_map with
  | [] -> (g, (RBool false))
  | _ :: _ ->
    if s_locked2 k g
    then (g, RLocked)
    else (match a_iterate k g.s_map with
          | [] -> (g, (RBool false))
          | p :: l ->
            ((s_with_ents (s_with_map g (a_delete_prefix k g.s_map))
               (kill g.s_ents (map snd (p :: l)))), (RBool true)))

(** val s_iter : n list -> sgen -> sgen * out **)

let s_iter k g =
  match a_iterate k g.s_map with
  | [] -> (g, RNone)
  | p :: l ->
    if N.eqb (s_count k g) mAXC
    then (g, RTooMany)
    else ((s_with_iters g
            (app g.s_iters ((Some (k, (map fst (p :: l)))) :: []))), (RIter
           (length g.s_iters)))

(** val s_next : nat -> sgen -> sgen * out **)

let s_next i g =
  match nth_error g.s_iters i with
  | Some o ->
    (match o with
     | Some p0 ->
       let (p, rem) = p0 in
       (match rem with
        | [] -> (g, RNone)
        | k :: rem' ->
          (match a_lookup k g.s_map with
           | Some e ->
             ((s_with_handle
                (s_with_iters g (set_nth i (Some (p, rem')) g.s_iters)) e),
               (RNext (k, (length g.s_handles), (ent_get g.s_ents e))))
           | None -> (g, RNone)))
     | None -> (g, RSkip))
  | None -> (g, RSkip)

(** val s_deliter : nat -> sgen -> sgen * out **)

let s_deliter i g =
  match nth_error g.s_iters i with
  | Some o ->
    (match o with
     | Some _ -> ((s_with_iters g (set_nth i None g.s_iters)), (RBool true))
     | None -> (g, RSkip))
  | None -> (g, RSkip)

(** val s_dump : sgen -> (n list * value option) list **)

let s_dump g =
  map (fun kv -> ((fst kv), (ent_get g.s_ents (snd kv)))) g.s_map

(** val s_on_cur : (sgen -> sgen * out) -> sstate -> sstate * out **)

let s_on_cur f = function
| [] -> ([], RSkip)
| g :: rest -> let (g', o) = f g in ((g' :: rest), o)

(** val s_step : op -> sstate -> sstate * out **)

let s_step o s =
  match o with
  | OInsert (k, v) -> s_on_cur (s_insert k v) s
  | OGet k -> s_on_cur (s_get k) s
  | ORead h -> s_on_cur (s_read h) s
  | OSet (h, v) -> s_on_cur (s_set h v) s
  | OMut (h, v) -> s_on_cur (s_mut h v) s
  | ODelete k -> s_on_cur (s_delete k) s
  | ODeletePrefix k -> s_on_cur (s_delete_prefix k) s
  | OIter k -> s_on_cur (s_iter k) s
  | ONext i -> s_on_cur (s_next i) s
  | ODelIter i -> s_on_cur (s_deliter i) s
  | ONewGen ->
    (match s with
     | [] -> ([], RSkip)
     | g :: _ ->
       (({ s_map = g.s_map; s_ents = g.s_ents; s_handles = []; s_iters =
         [] } :: s), (RGens (S (length s)))))
  | ONormalize r -> let s' = normalize r s in (s', (RGens (length s')))
  | OFreeze ->
    (match s with
     | [] -> ([], RSkip)
     | g :: _ -> (s, (RDump (s_dump g))))
  | OThaw ->
    (match s with
     | [] -> ([], RSkip)
     | g :: _ ->
       (({ s_map = g.s_map; s_ents = g.s_ents; s_handles = []; s_iters =
         [] } :: []), (RDump (s_dump g))))

(** val m_wf : state -> bool **)

let m_wf s =
  forallb (fun g -> (&&) (wfb_root g.g_root) (pm_wf g.g_locks)) s
