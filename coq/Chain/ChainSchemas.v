(** * Chain/ChainSchemas.v -- hand-written schema terms for the manual Serial/Deserial impls of
    concordium_base (transactions.rs, updates.rs, base.rs, common/types.rs, id/types.rs).

    Each term states in the schema language of [Common/Codec.v] what the Rust encoder/decoder pair
    does; the correspondence run of checks/C05.py ties them to the code byte for byte.  The
    registry [chain_schema_table] numbers them for the extracted runner (ocaml/driver_c05.ml);
    checks/C05.py maps the numbers to Rust types.

    Opaque leaves (abstract validity, see [valid] in Codec.v) -- kinds: *)
From Coq Require Import NArith List Bool.
From CB Require Import Common.Codec.
Import ListNotations.
Local Open Scope N_scope.

Definition K_ED25519_PK : N := 1.   (* 32 bytes: ed25519 verification key (point decompression) *)
Definition K_VRF_PK : N := 2.       (* 32 bytes: ecvrf public key *)
Definition K_BLS_PK : N := 3.       (* 96 bytes: BLS aggregation key (G2 point) *)
Definition K_DLOG_ED : N := 4.      (* 64 bytes: ed25519 dlog proof (two canonical scalars) *)
Definition K_BLS_PROOF : N := 5.    (* 64 bytes: aggregate_sig::Proof (two BLS12-381 scalars) *)
Definition K_UTF8 : N := 6.         (* any length: valid UTF-8 *)
Definition K_CRED_ID : N := 7.      (* 48 bytes: credential registration id (G1 point) *)
Definition K_G2 : N := 10.          (* 96 bytes: BLS12-381 G2 point, canonical encoding *)
Definition K_FR : N := 11.          (* 32 bytes: BLS12-381 scalar, canonical (below the group order) *)
Definition K_G1 : N := 9.           (* 48 bytes: point of the anonymity-revoker curve (BLS12-381 G1), canonical encoding *)
Definition K_ELGAMAL_PK : N := 8.   (* 96 bytes: elgamal public key of an anonymity revoker (generator and key, two G1 points) *)

(** constants.rs *)
Definition MAX_WASM_MODULE_SIZE : N := 8 * 65536.
Definition MAX_PAYLOAD_SIZE : N := MAX_WASM_MODULE_SIZE + 1 + 4 + 4.
Definition MAX_MEMO_SIZE : N := 256.
Definition MAX_REGISTERED_DATA_SIZE : N := 256.
Definition MAX_URL_TEXT_LENGTH : N := 2048.

(** ** common/types.rs, base.rs *)
Definition s_amount := SU64.
Definition s_account_address := SRaw 32.
Definition s_contract_address := STuple [SU64; SU64].
Definition s_address := SSum [(0, s_account_address); (1, s_contract_address)].
Definition s_memo := SBytes BE 2 MAX_MEMO_SIZE.
Definition s_registered_data := SBytes BE 2 MAX_REGISTERED_DATA_SIZE.
(** common::types::Ratio: denominator non-zero and coprime. *)
Definition s_ratio := SRefine PCoprime (STuple [SU64; SU64]).
(** ExchangeRate: both non-zero, coprime. *)
Definition s_exchange_rate := SRefine (PAnd (PField 0 (PGe 1)) PCoprime) (STuple [SU64; SU64]).
(** num::rational::Ratio<u64>: denominator non-zero only. *)
Definition s_num_ratio := SRefine (PField 1 (PGe 1)) (STuple [SU64; SU64]).
Definition s_payload_size := SRefine (PLe MAX_PAYLOAD_SIZE) SU32.
Definition s_signature := SBytes BE 2 65535.
Definition s_timestamp := SU64.
Definition s_transaction_time := SU64.
Definition s_threshold_u8 := SRefine (PGe 1) SU8.          (* NonZeroThresholdU8 *)
Definition s_update_keys_threshold := SRefine (PGe 1) SU16. (* NonZeroU16 *)
Definition s_amount_fraction := SRefine (PLe 100000) SU32.  (* PartsPerHundredThousands *)
Definition s_open_status := SEnum 3.
Definition s_delegation_target := SSum [(0, SUnit); (1, SU64)].
Definition s_url_text := SRefine (POpaque K_UTF8) (SBytes BE 2 MAX_URL_TEXT_LENGTH).
Definition s_mint_rate := STuple [SU32; SU8].
Definition s_leverage_factor :=
  SRefine (PAnd PCoprime (PFun (fun v => match v with VList [VNum a; VNum b] => b <=? a | _ => false end)))
          (STuple [SU64; SU64]).
Definition s_inclusive_range_fraction :=
  SRefine (PFun (fun v => match v with VList [VNum a; VNum b] => a <=? b | _ => false end))
          (STuple [s_amount_fraction; s_amount_fraction]).

(** ** Small hand-written impls used as leaves of derived types (id/types.rs, id/constants.rs, protocol_level_tokens) *)
(** YearMonth::new: 1000 <= year <= 9999, 1 <= month <= 12. *)
Definition s_year_month :=
  SRefine (PAnd (PField 0 (PAnd (PGe 1000) (PLe 9999))) (PField 1 (PAnd (PGe 1) (PLe 12)))) (STuple [SU16; SU8]).
(** AttributeKind: u8 length <= 31, UTF-8. *)
Definition s_attribute_kind := SRefine (POpaque K_UTF8) (SBytes BE 1 31).
(** TokenId: u8 length in 1..128, characters a-z A-Z 0-9 - . %% *)
Definition token_id_char (b : N) : bool :=
  ((97 <=? b) && (b <=? 122)) || ((65 <=? b) && (b <=? 90)) || ((48 <=? b) && (b <=? 57)) || (b =? 45) || (b =? 46) || (b =? 37).
Definition s_token_id :=
  SRefine (PAnd (PLenGe 1) (PFun (fun v => match v with VBytes bs => forallb token_id_char bs | _ => false end))) (SBytes BE 1 128).
(** chrono::DateTime<Utc>: i64 milliseconds (two's complement) inside chrono's representable range
    (-262143-01-01T00:00:00 .. +262142-12-31T23:59:59.999). *)
Definition s_datetime_utc :=
  SRefine (PFun (fun v => match v with
                          | VNum n => (n <=? 8210266876799999) || (18446744073709551616 - 8334601228800000 <=? n)
                          | _ => false
                          end)) SU64.

(** ** Transaction headers *)
Definition s_transaction_header :=
  STuple [s_account_address; SU64 (* nonce *); SU64 (* energy *); s_payload_size; s_transaction_time].
(** Index of [payload_size] inside the header value. *)
Definition header_size_path : list nat := [3%nat].

(** TransactionHeaderV1: u16 feature bitmap (only bit 0 defined), header v0, optional sponsor. *)
Definition s_transaction_header_v1 :=
  SBitmap BE 2 1 [(None, s_transaction_header); (Some 0, s_account_address)].

(** ** Signatures *)
Definition s_sig_map_inner :=       (* u8 count >= 1, strictly increasing KeyIndex -> Signature *)
  SRefine (PAnd (PLenGe 1) PSortedKeys) (SVec BE 1 (STuple [SU8; s_signature])).
Definition s_transaction_signature := (* u8 count >= 1, strictly increasing CredentialIndex *)
  SRefine (PAnd (PLenGe 1) PSortedKeys) (SVec BE 1 (STuple [SU8; s_sig_map_inner])).
(** TransactionSignaturesV1: the sponsor part is either a single 0 byte (None) or a
    TransactionSignature, i.e. the same vector format without the "at least one" condition. *)
Definition s_transaction_signature_or_none :=
  SRefine PSortedKeys (SVec BE 1 (STuple [SU8; s_sig_map_inner])).
Definition s_transaction_signatures_v1 := STuple [s_transaction_signature; s_transaction_signature_or_none].

(** ** Keys *)
Definition s_verify_key := SSum [(0, SOpaque 32 K_ED25519_PK)].
Definition s_credential_public_keys :=
  STuple [SRefine (PAnd (PLenGe 1) PSortedKeys) (SVec BE 1 (STuple [SU8; s_verify_key])); s_threshold_u8].
Definition s_account_access_structure :=
  STuple [SMap BE 1 SU8 s_credential_public_keys; s_threshold_u8].

(** BakerKeysPayload as serialised by its own impl (AddBaker / UpdateBakerKeys) ... *)
Definition s_baker_keys_payload :=
  STuple [SOpaque 32 K_VRF_PK; SOpaque 32 K_ED25519_PK; SOpaque 96 K_BLS_PK;
          SOpaque 64 K_DLOG_ED (* proof_sig *); SOpaque 64 K_DLOG_ED (* proof_election *);
          SOpaque 64 K_BLS_PROOF].
(** ... and in the Haskell-compatible order used inside ConfigureBaker. *)
Definition s_configure_baker_keys :=
  STuple [SOpaque 32 K_VRF_PK; SOpaque 64 K_DLOG_ED; SOpaque 32 K_ED25519_PK; SOpaque 64 K_DLOG_ED;
          SOpaque 96 K_BLS_PK; SOpaque 64 K_BLS_PROOF].

(** ** Payloads with bitmaps *)
Definition configure_baker_fields : list (option N * schema) :=
  [(Some 0, s_amount); (Some 1, SBool); (Some 2, s_open_status); (Some 3, s_configure_baker_keys);
   (Some 4, s_url_text); (Some 5, s_amount_fraction); (Some 6, s_amount_fraction);
   (Some 7, s_amount_fraction); (Some 8, SBool)].
(** The decoder after the fix of finding F4: bits 9..15 are rejected. *)
Definition s_configure_baker := SBitmap BE 2 511 configure_baker_fields.
(** The decoder as it was before the fix: every u16 accepted.  Not well-formed, not canonical
    (Props/C05.v: [configure_baker_prefix_noncanonical]). *)
Definition s_configure_baker_prefix := SBitmap BE 2 65535 configure_baker_fields.

Definition s_configure_delegation :=
  SBitmap BE 2 7 [(Some 0, s_amount); (Some 1, SBool); (Some 2, s_delegation_target)].

Definition s_schedule := SVec BE 1 (STuple [s_timestamp; s_amount]).
Definition s_add_baker_payload := STuple [s_baker_keys_payload; s_amount; SBool].

(** ** Payload (transactions.rs:1189-1582).  Modelled variants; the remaining tags
    (0,1,2: smart contracts; 16,18,23: encrypted transfers; 20: credentials; 27: token update) carry
    proofs / Wasm / CBOR and are covered by the direct oracles only. *)
Definition payload_alts : list (N * schema) :=
  [(3, STuple [s_account_address; s_amount]);
   (4, s_add_baker_payload);
   (5, SUnit);
   (6, s_amount);
   (7, SBool);
   (8, s_baker_keys_payload);
   (13, STuple [SOpaque 48 K_CRED_ID; s_credential_public_keys]);
   (17, s_amount);
   (19, STuple [s_account_address; s_schedule]);
   (21, s_registered_data);
   (22, STuple [s_account_address; s_memo; s_amount]);
   (24, STuple [s_account_address; s_memo; s_schedule]);
   (25, s_configure_baker);
   (26, s_configure_delegation)].
Definition s_payload := SSum payload_alts.
Definition payload_modelled_tags : list N := map fst payload_alts.

(** ** Account transactions: signature, header, then exactly [payload_size] bytes of payload. *)
Definition s_account_transaction :=            (* AccountTransaction<Payload> *)
  STuple [s_transaction_signature; SFramed s_transaction_header header_size_path s_payload].
Definition s_account_transaction_encoded :=    (* AccountTransaction<EncodedPayload> *)
  STuple [s_transaction_signature; SFramedRaw s_transaction_header header_size_path MAX_PAYLOAD_SIZE].
(** The V1 header is a bitmap format whose first component is the v0 header: path [0;3]. *)
Definition s_account_transaction_v1_encoded := (* AccountTransactionV1<EncodedPayload> *)
  STuple [s_transaction_signatures_v1; SFramedRaw s_transaction_header_v1 [0%nat; 3%nat] MAX_PAYLOAD_SIZE].

(** ** Updates *)
Definition s_update_header := STuple [SU64; s_transaction_time; s_transaction_time; s_payload_size].
Definition s_update_instruction_signature :=
  SRefine (PAnd (PLenGe 1) PSortedKeys) (SVec BE 2 (STuple [SU16; s_signature])).
Definition s_update_instruction :=
  STuple [SFramedRaw s_update_header [3%nat] MAX_PAYLOAD_SIZE; s_update_instruction_signature].

Definition sum_le_100000 (v : gval) : bool :=
  match v with
  | VList vs => (fold_right (fun x acc => match x with VNum n => n + acc | _ => acc end) 0 vs) <=? 100000
  | _ => false
  end.
Definition s_mint_distribution_v0 :=
  SRefine (PFun (fun v => match v with VList [_; a; b] => sum_le_100000 (VList [a; b]) | _ => false end))
          (STuple [s_mint_rate; s_amount_fraction; s_amount_fraction]).
Definition s_mint_distribution_v1 := SRefine (PFun sum_le_100000) (STuple [s_amount_fraction; s_amount_fraction]).
Definition s_transaction_fee_distribution := SRefine (PFun sum_le_100000) (STuple [s_amount_fraction; s_amount_fraction]).
Definition s_gas_rewards := STuple [s_amount_fraction; s_amount_fraction; s_amount_fraction; s_amount_fraction].
Definition s_gas_rewards_v1 := STuple [s_amount_fraction; s_amount_fraction; s_amount_fraction].
Definition s_cooldown_parameters := STuple [SU64; SU64].
Definition s_time_parameters := STuple [SU64; s_mint_rate].
Definition s_commission_ranges := STuple [s_inclusive_range_fraction; s_inclusive_range_fraction; s_inclusive_range_fraction].
Definition s_pool_parameters :=
  STuple [s_amount_fraction; s_amount_fraction; s_amount_fraction; s_commission_ranges; s_amount;
          s_amount_fraction (* CapitalBound *); s_leverage_factor].
(** TimeoutParameters::new: increase > 1, 0 < decrease < 1 (both reduced ratios). *)
Definition s_timeout_parameters :=
  SRefine (PFun (fun v => match v with
                          | VList [_; VList [VNum ni; VNum di]; VList [VNum nd; VNum dd]] =>
                              (di <? ni) && negb (nd =? 0) && (nd <? dd)
                          | _ => false
                          end))
          (STuple [SU64 (* Duration millis *); s_ratio; s_ratio]).
Definition s_finalization_committee_parameters := STuple [SU32; SU32; s_amount_fraction].

(** UpdatePayload (updates.rs): modelled variants.  Tags 1 (ProtocolUpdate: nested length frame
    whose last part is "the rest of the frame"), 13 (identity provider record), 24 (CreatePlt, CBOR)
    are covered by the direct oracles only; 10, 11, 12 are added below ([update_payload_alts_all]). *)
Definition update_payload_alts : list (N * schema) :=
  [(2, s_amount_fraction);
   (3, s_exchange_rate);
   (4, s_exchange_rate);
   (5, s_account_address);
   (6, s_mint_distribution_v0);
   (7, s_transaction_fee_distribution);
   (8, s_gas_rewards);
   (9, s_amount);
   (14, s_cooldown_parameters);
   (15, s_pool_parameters);
   (16, s_time_parameters);
   (17, s_mint_distribution_v1);
   (18, s_timeout_parameters);
   (19, SU64);
   (20, SU64);
   (21, s_gas_rewards_v1);
   (22, s_finalization_committee_parameters);
   (23, SU64)].
(** ** Governance key updates (updates.rs: RootUpdate, Level1Update, AuthorizationsV0/V1). *)
Definition thr_le_len (v : gval) : bool :=   (* threshold <= number of keys *)
  match v with VList [VList ks; VNum t] => t <=? len ks | _ => false end.
(** AccessStructure: u16-counted strictly increasing set of key indices, non-zero threshold <= count. *)
Definition s_access_structure :=
  SRefine (PFun thr_le_len) (STuple [SSet BE 2 SU16; s_update_keys_threshold]).
(** HigherLevelAccessStructure<Kind>: u16-counted list of keys, non-zero threshold <= count. *)
Definition s_higher_level_access_structure :=
  SRefine (PFun thr_le_len) (STuple [SVec BE 2 s_verify_key; s_update_keys_threshold]).
(** AuthorizationsV0: keys, then the twelve access structures in declaration order. *)
Definition s_authorizations_v0 := STuple (SVec BE 2 s_verify_key :: repeat s_access_structure 12).
(** AuthorizationsV1 without / with the create_plt access structure (deserial_v1 / deserial_v2). *)
Definition s_authorizations_v1 := STuple [s_authorizations_v0; s_access_structure; s_access_structure].
Definition s_authorizations_v2 :=
  STuple [s_authorizations_v0; s_access_structure; s_access_structure; s_access_structure].
Definition s_root_update :=
  SSum [(0, s_higher_level_access_structure); (1, s_higher_level_access_structure);
        (2, s_authorizations_v0); (3, s_authorizations_v1); (4, s_authorizations_v2)].
Definition s_level1_update :=
  SSum [(0, s_higher_level_access_structure); (1, s_authorizations_v0);
        (2, s_authorizations_v1); (3, s_authorizations_v2)].

(** ArInfo (id/types.rs): non-zero identity, three u32-length strings, elgamal key.  As update
    payload (tag 12) it is framed by a u32 byte length that must be consumed exactly. *)
Definition s_string_u32 := SRefine (POpaque K_UTF8) (SBytes BE 4 4294967295).
Definition s_description := STuple [s_string_u32; s_string_u32; s_string_u32].
Definition s_ar_info := STuple [SRefine (PGe 1) SU32; s_description; STuple [SOpaque 48 K_G1; SOpaque 48 K_G1]].
Definition s_add_anonymity_revoker := SFramed SU32 [] s_ar_info.

Definition update_payload_alts_all : list (N * schema) :=
  update_payload_alts ++ [(10, s_root_update); (11, s_level1_update); (12, s_add_anonymity_revoker)].
Definition s_update_payload := SSum update_payload_alts_all.

(** ** BlockItem<EncodedPayload>.  Tag 1 (credential deployment) is not modelled; tag 3
    (AccountTransactionV1) is written by the encoder and -- since the fix commit recorded in
    known_findings.json -- read by the decoder. *)
Definition s_block_item :=
  SSum [(0, s_account_transaction_encoded); (2, s_update_instruction); (3, s_account_transaction_v1_encoded)].

(** ** Registry (id, schema) for the extracted runner *)
Definition chain_schema_table : list (N * schema) :=
  [(1, s_amount); (2, s_account_address); (3, s_contract_address); (4, s_address); (5, s_memo);
   (6, s_registered_data); (7, s_ratio); (8, s_exchange_rate); (9, s_num_ratio); (10, s_payload_size);
   (11, s_signature); (12, s_transaction_header); (13, s_transaction_header_v1);
   (14, s_transaction_signature); (15, s_transaction_signatures_v1); (16, s_verify_key);
   (17, s_credential_public_keys); (18, s_account_access_structure); (19, s_open_status);
   (20, s_delegation_target); (21, s_amount_fraction); (22, s_url_text); (23, s_baker_keys_payload);
   (24, s_add_baker_payload); (25, s_configure_baker); (26, s_configure_delegation); (27, s_payload);
   (28, s_account_transaction); (29, s_account_transaction_encoded); (30, s_account_transaction_v1_encoded);
   (31, s_update_header); (32, s_update_instruction_signature); (33, s_update_instruction);
   (34, s_update_payload); (35, s_block_item); (36, s_leverage_factor); (37, s_mint_distribution_v0);
   (38, s_pool_parameters); (39, s_timeout_parameters); (40, s_threshold_u8);
   (41, s_transaction_fee_distribution); (42, s_gas_rewards); (43, s_update_keys_threshold); (44, s_access_structure); (45, s_higher_level_access_structure);
   (46, s_authorizations_v0); (47, s_root_update); (48, s_level1_update); (49, s_ar_info);
   (* the pre-fix ConfigureBaker decoder, used only to characterise finding F4 *)
   (100, s_configure_baker_prefix)].

Definition all_wf : bool :=
  forallb (fun a => if fst a =? 100 then true else schema_wf (snd a)) chain_schema_table.

(** ** Smart-contract names and parameters (common/types.rs; validity rules of concordium-contracts-common
    [ContractName::is_valid_contract_name], [ReceiveName::is_valid_receive_name]).  The decoders read a u16 length, the
    bytes, require UTF-8 and then: at most 100 bytes, only ASCII alphanumeric / punctuation characters (= bytes 33..126,
    which makes the UTF-8 check redundant), "init_" prefix and no '.' (contract names), at least one '.' (receive names). *)
Definition MAX_FUNC_NAME_SIZE : N := 100.
Definition name_char (b : N) : bool := (33 <=? b) && (b <=? 126).
Fixpoint has_prefix (p bs : list N) : bool :=
  match p, bs with
  | [], _ => true
  | a :: p', b :: bs' => (a =? b) && has_prefix p' bs'
  | _ :: _, [] => false
  end.
Definition contract_name_ok (v : gval) : bool :=
  match v with
  | VBytes bs => forallb name_char bs && has_prefix [105; 110; 105; 116; 95] bs && negb (existsb (N.eqb 46) bs)
  | _ => false
  end.
Definition receive_name_ok (v : gval) : bool :=
  match v with VBytes bs => forallb name_char bs && existsb (N.eqb 46) bs | _ => false end.
Definition s_contract_name := SRefine (PFun contract_name_ok) (SBytes BE 2 MAX_FUNC_NAME_SIZE).
Definition s_receive_name := SRefine (PFun receive_name_ok) (SBytes BE 2 MAX_FUNC_NAME_SIZE).
Definition s_parameter := SBytes BE 2 65535.
(** InitContractPayload / UpdateContractPayload (transactions.rs, hand-written straight-line impls; regenerated from the
    impl bodies by translators/gen_manual_impls.py and proved equal in Chain/ManualTie.v). *)
Definition s_init_contract_payload := STuple [s_amount; SRaw 32; s_contract_name; s_parameter].
Definition s_update_contract_payload := STuple [s_amount; s_contract_address; s_receive_name; s_parameter].
(** BakerKeysPayload / AddBakerPayload with the aggregation key under the kind the derive translator uses for a G2 point
    (same 96 bytes; [s_baker_keys_payload] names the kind K_BLS_PK): the terms the impl translator regenerates. *)
Definition s_baker_keys_payload_g2 :=
  STuple [SOpaque 32 K_VRF_PK; SOpaque 32 K_ED25519_PK; SOpaque 96 K_G2;
          SOpaque 64 K_DLOG_ED; SOpaque 64 K_DLOG_ED; SOpaque 64 K_BLS_PROOF].
Definition s_add_baker_payload_g2 := STuple [s_baker_keys_payload_g2; s_amount; SBool].
