(** C06 - proofs about [Chain/Digest.v]: the signed byte string determines header and payload; a
    verification that survives a change of header or payload exhibits a hash collision or a
    signature valid on two different digests. *)
From Coq Require Import NArith Arith List Bool Lia.
From CB Require Import Chain.Auth Chain.AuthProofs Chain.Digest.
Import ListNotations.
Local Open Scope N_scope.

Arguments N.add : simpl never.
Arguments N.sub : simpl never.
Arguments N.mul : simpl never.
Arguments N.div : simpl never.
Arguments N.modulo : simpl never.
Arguments N.pow : simpl never.

Lemma be_bytes_length : forall n x, length (be_bytes n x) = n.
Proof.
  induction n as [|n IH]; intros x; cbn [be_bytes]; [reflexivity|].
  rewrite app_length, IH. cbn [length]. lia.
Qed.

Lemma be_bytes_inj : forall n x y, x < 256 ^ N.of_nat n -> y < 256 ^ N.of_nat n ->
  be_bytes n x = be_bytes n y -> x = y.
Proof.
  induction n as [|n IH]; intros x y Hx Hy H.
  - cbn in Hx, Hy. lia.
  - cbn [be_bytes] in H. apply app_inj_tail in H as [H1 H2].
    replace (N.of_nat (S n)) with (N.succ (N.of_nat n)) in Hx, Hy by lia.
    rewrite N.pow_succ_r' in Hx, Hy.
    assert (x / 256 = y / 256).
    { apply IH; [apply N.div_lt_upper_bound; lia|apply N.div_lt_upper_bound; lia|exact H1]. }
    rewrite (N.div_mod x 256), (N.div_mod y 256) by lia. congruence.
Qed.

Lemma be_bytes_bytes : forall n x b, In b (be_bytes n x) -> b < 256.
Proof.
  induction n as [|n IH]; intros x b H; cbn [be_bytes] in H; [destruct H|].
  apply in_app_or in H as [H|[<-|[]]]; [eauto|apply N.mod_lt; lia].
Qed.

(** splitting equal concatenations whose heads have equal length *)
Lemma app_eq_len : forall {A} (a1 a2 b1 b2 : list A), length a1 = length a2 ->
  a1 ++ b1 = a2 ++ b2 -> a1 = a2 /\ b1 = b2.
Proof.
  intros A. induction a1 as [|x a1 IH]; intros [|y a2] b1 b2 Hl H; cbn in Hl; try discriminate.
  - auto.
  - cbn in H. inversion H; subst. destruct (IH a2 b1 b2) as [-> ->]; [lia|assumption|auto].
Qed.

Definition pfree {T} (wf : T -> Prop) (enc : T -> list N) : Prop :=
  forall h1 h2 r1 r2, wf h1 -> wf h2 -> enc h1 ++ r1 = enc h2 ++ r2 -> h1 = h2 /\ r1 = r2.

Lemma header_eta : forall h, h = mkHeader (h_sender h) (h_nonce h) (h_energy h) (h_payload_size h) (h_expiry h).
Proof. destruct h; reflexivity. Qed.

Lemma enc_header_length : forall h, header_wf h -> length (enc_header h) = 60%nat.
Proof.
  intros h [Hs _]. unfold enc_header. rewrite !app_length, !be_bytes_length, Hs. reflexivity.
Qed.

Lemma enc_header_pfree : pfree header_wf enc_header.
Proof.
  intros h1 h2 r1 r2 W1 W2 H.
  destruct W1 as [Hs1 [Hn1 [He1 [Hp1 Hx1]]]]. destruct W2 as [Hs2 [Hn2 [He2 [Hp2 Hx2]]]].
  unfold enc_header in H. rewrite <- !app_assoc in H.
  apply app_eq_len in H as [E1 H]; [|congruence].
  apply app_eq_len in H as [E2 H]; [|rewrite !be_bytes_length; reflexivity].
  apply app_eq_len in H as [E3 H]; [|rewrite !be_bytes_length; reflexivity].
  apply app_eq_len in H as [E4 H]; [|rewrite !be_bytes_length; reflexivity].
  apply app_eq_len in H as [E5 H]; [|rewrite !be_bytes_length; reflexivity].
  apply be_bytes_inj in E2; [|exact Hn1|exact Hn2].
  apply be_bytes_inj in E3; [|exact He1|exact He2].
  apply be_bytes_inj in E4; [|exact Hp1|exact Hp2].
  apply be_bytes_inj in E5; [|exact Hx1|exact Hx2].
  split; [|exact H]. rewrite (header_eta h1), (header_eta h2). congruence.
Qed.

Lemma enc_header_v1_pfree : pfree header_v1_wf enc_header_v1.
Proof.
  intros [b1 s1] [b2 s2] r1 r2 [W1 S1] [W2 S2] H. cbn [h1_base h1_sponsor] in *.
  unfold enc_header_v1 in H. cbn [h1_base h1_sponsor] in H. rewrite <- !app_assoc in H.
  apply app_eq_len in H as [E0 H]; [|rewrite !be_bytes_length; reflexivity].
  apply enc_header_pfree in H as [-> H]; [|assumption|assumption].
  destruct s1 as [s1|], s2 as [s2|]; try (apply be_bytes_inj in E0; [discriminate|cbn; lia|cbn; lia]).
  - apply app_eq_len in H as [-> ->]; [auto|congruence].
  - cbn [app] in H. subst. auto.
Qed.

Lemma update_header_eta : forall h, h = mkUpdateHeader (uh_seq h) (uh_effective h) (uh_timeout h) (uh_payload_size h).
Proof. destruct h; reflexivity. Qed.

Lemma enc_update_header_pfree : pfree update_header_wf enc_update_header.
Proof.
  intros h1 h2 r1 r2 [A1 [B1 [C1 D1]]] [A2 [B2 [C2 D2]]] H.
  unfold enc_update_header in H. rewrite <- !app_assoc in H.
  apply app_eq_len in H as [E1 H]; [|rewrite !be_bytes_length; reflexivity].
  apply app_eq_len in H as [E2 H]; [|rewrite !be_bytes_length; reflexivity].
  apply app_eq_len in H as [E3 H]; [|rewrite !be_bytes_length; reflexivity].
  apply app_eq_len in H as [E4 H]; [|rewrite !be_bytes_length; reflexivity].
  apply be_bytes_inj in E1; [|exact A1|exact A2].
  apply be_bytes_inj in E2; [|exact B1|exact B2].
  apply be_bytes_inj in E3; [|exact C1|exact C2].
  apply be_bytes_inj in E4; [|exact D1|exact D2].
  split; [|exact H]. rewrite (update_header_eta h1), (update_header_eta h2). congruence.
Qed.

(** ---- the generic binding argument: abstract hash, abstract prefix-free header encoder ---- *)
Section Binding.
  Variables HASH HDR : Type.
  Variable H : list N -> HASH.
  Variable hash_eq_dec : forall x y : HASH, {x = y} + {x <> y}.
  Variable wf : HDR -> Prop.
  Variable enc : HDR -> list N.
  Variable tag : list N.
  Hypothesis enc_pfree : pfree wf enc.

  Definition preimage (h : HDR) (p : list N) : list N := tag ++ enc h ++ p.
  Definition digest (h : HDR) (p : list N) : HASH := H (preimage h p).

  Lemma preimage_injective : forall h1 p1 h2 p2, wf h1 -> wf h2 ->
    preimage h1 p1 = preimage h2 p2 -> h1 = h2 /\ p1 = p2.
  Proof.
    intros h1 p1 h2 p2 W1 W2 E. unfold preimage in E. apply app_inv_head in E.
    apply enc_pfree in E; assumption.
  Qed.

  Lemma distinct_inputs_distinct_preimages : forall h1 p1 h2 p2, wf h1 -> wf h2 ->
    (h1, p1) <> (h2, p2) -> preimage h1 p1 <> preimage h2 p2.
  Proof.
    intros h1 p1 h2 p2 W1 W2 Hne E. apply preimage_injective in E as [-> ->]; [|assumption|assumption].
    apply Hne; reflexivity.
  Qed.

  Variables PK SIG : Type.
  Variable sig_valid : PK -> HASH -> SIG -> bool.

  (** thresholds are non-zero ([NonZeroThresholdU8]) *)
  Definition thresholds_positive (a : access PK) : Prop :=
    1 <= as_threshold a /\ forall ci ck, lookup ci (as_creds a) = Some ck -> 1 <= ck_threshold ck.

  Definition collision (h1 : HDR) (p1 : list N) (h2 : HDR) (p2 : list N) : Prop :=
    preimage h1 p1 <> preimage h2 p2 /\ H (preimage h1 p1) = H (preimage h2 p2).
  Definition signature_valid_on_two_digests (a : access PK) (sm : sig_map SIG) (d1 d2 : HASH) : Prop :=
    d1 <> d2 /\ exists ci cs ck ki s pk,
      In (ci, cs) sm /\ In (ki, s) cs /\ lookup ci (as_creds a) = Some ck /\ lookup ki (ck_keys ck) = Some pk /\
      sig_valid pk d1 s = true /\ sig_valid pk d2 s = true.

  Lemma len_pos_In : forall {A} (l : list A), 1 <= len l -> exists x, In x l.
  Proof. intros A [|x l] Hl; [unfold len in Hl; cbn in Hl; lia|exists x; left; reflexivity]. Qed.

  Lemma tamper_needs_collision_or_forgery : forall a sm h1 p1 h2 p2,
    wf h1 -> wf h2 -> thresholds_positive a -> (h1, p1) <> (h2, p2) ->
    verify_data_signature sig_valid a (digest h1 p1) sm = true ->
    verify_data_signature sig_valid a (digest h2 p2) sm = true ->
    collision h1 p1 h2 p2 \/ signature_valid_on_two_digests a sm (digest h1 p1) (digest h2 p2).
  Proof.
    intros a sm h1 p1 h2 p2 W1 W2 [Ta Tc] Hne V1 V2.
    destruct (hash_eq_dec (digest h1 p1) (digest h2 p2)) as [E|NE].
    - left. split; [apply distinct_inputs_distinct_preimages; assumption|exact E].
    - right. split; [exact NE|].
      apply verify_iff_policy_l in V1 as [L1 P1]. apply verify_iff_policy_l in V2 as [_ P2].
      destruct (len_pos_In sm) as [[ci cs] Hin]; [lia|].
      destruct (P1 ci cs Hin) as [ck [Hl [Ht K1]]]. destruct (P2 ci cs Hin) as [ck' [Hl' [_ K2]]].
      assert (ck' = ck) by congruence. subst ck'.
      specialize (Tc ci ck Hl). destruct (len_pos_In cs) as [[ki s] Hk]; [lia|].
      destruct (K1 ki s Hk) as [pk [Hp Hv1]]. destruct (K2 ki s Hk) as [pk' [Hp' Hv2]].
      assert (pk' = pk) by congruence. subst pk'.
      exists ci, cs, ck, ki, s, pk. repeat split; assumption.
  Qed.
End Binding.

(** the two transaction versions sign disjoint byte strings unless the sender address is the
    32-byte string 0..01 (which is the v1 domain-separation prefix) *)
Lemma cross_version_disjoint : forall h p h' p', header_wf h -> h_sender h <> prefix_v1 ->
  preimage_v0 h p <> preimage_v1 h' p'.
Proof.
  intros h p h' p' [Hs _] Hne E. unfold preimage_v0, preimage_v1, enc_header in E.
  rewrite <- !app_assoc in E. apply app_eq_len in E as [E _]; [contradiction|].
  rewrite Hs. reflexivity.
Qed.

(** declared size *)
Lemma construct_header_size : forall sender nonce expiry payload energy,
  h_payload_size (construct_header sender nonce expiry payload energy) = len payload.
Proof. reflexivity. Qed.

Lemma split_body_constructed : forall sender nonce expiry payload energy rest,
  split_body (construct_header sender nonce expiry payload energy) (payload ++ rest) = (payload, rest).
Proof.
  intros. unfold split_body, construct_header. cbn [h_payload_size]. unfold len. rewrite Nat2N.id.
  rewrite firstn_app, Nat.sub_diag, firstn_all, skipn_app, Nat.sub_diag, skipn_all. cbn [firstn skipn].
  rewrite app_nil_r. reflexivity.
Qed.

Lemma body_after_header : forall h payload rest, header_wf h ->
  skipn 60 (enc_header h ++ payload ++ rest) = payload ++ rest.
Proof.
  intros h payload rest W. rewrite skipn_app, (enc_header_length h W), Nat.sub_diag.
  rewrite skipn_all2 by (rewrite (enc_header_length h W); lia). reflexivity.
Qed.
