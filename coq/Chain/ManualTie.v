(** * Chain/ManualTie.v -- the tie between the schema terms regenerated from the hand-written straight-line
    `impl Serial` / `impl Deserial` bodies (translators/gen_manual_impls.py -> Gen/ManualImpls.v) and the hand-written
    terms.  A reordered, dropped or retyped line in either function body changes the regenerated term (or makes the
    translator fail because encoder and decoder orders differ) and breaks one of these obligations. *)
From Coq Require Import NArith List Bool.
From CB Require Import Common.Codec Common.CodecProofs Chain.ChainSchemas Gen.ChainSchemas Chain.GenTie Gen.ManualImpls.
Import ListNotations.
Local Open Scope N_scope.

Lemma manual_equal :
  m_InitContractPayload = s_init_contract_payload /\ m_UpdateContractPayload = s_update_contract_payload
  /\ m_BakerKeysPayload = s_baker_keys_payload_g2 /\ m_AddBakerPayload = s_add_baker_payload_g2
  /\ m_PreIdentityProof = t_PreIdentityProof.
Proof. repeat split; reflexivity. Qed.

(** The G2-kind variants have the byte layout of the registered hand-written terms (which only name the opaque kind of
    the aggregation key differently). *)
Lemma baker_keys_layout :
  layout_of s_baker_keys_payload_g2 = layout_of s_baker_keys_payload
  /\ layout_of s_add_baker_payload_g2 = layout_of s_add_baker_payload.
Proof. split; reflexivity. Qed.

Lemma manual_tie_size : length manual_tie_pairs = 5%nat.
Proof. reflexivity. Qed.

Lemma manual_all_wf : forallb schema_wf manual_impl_all = true.
Proof. vm_compute. reflexivity. Qed.

Lemma manual_laws : forall valid s, In s manual_impl_all ->
  RT valid s /\ Canon valid s /\ PFree valid s /\ AllocOK valid s.
Proof.
  intros valid s Hin. apply schema_codec_laws.
  pose proof manual_all_wf as H. rewrite forallb_forall in H. now apply H.
Qed.

(** Registry for the extracted runner: the regenerated terms are run against the code directly. *)
Definition manual_schema_table : list (N * schema) :=
  [(60, m_PreIdentityProof); (61, m_BakerKeysPayload); (62, m_AddBakerPayload); (63, m_InitContractPayload);
   (64, m_UpdateContractPayload)].
