(** * Chain/GenTie.v -- the tie between the schema terms regenerated from the Rust declarations on every
    run (translators/gen_chain_schemas.py -> Gen/ChainSchemas.v) and the hand-written terms of
    Chain/ChainSchemas.v.  A reordered / added / removed field or a changed size_length attribute in the
    Rust source changes the generated term and breaks one of these obligations. *)
From Coq Require Import NArith List Bool.
From CB Require Import Common.Codec Common.CodecProofs Chain.ChainSchemas Gen.ChainSchemas.
Import ListNotations.
Local Open Scope N_scope.

(** The byte layout of a schema: refinements and byte-string bounds erased (what a derived [Serial]
    determines when the [Deserial] is hand-written and adds checks). *)
Fixpoint layout_of (s : schema) : schema :=
  match s with
  | SUInt e w => SUInt e w
  | STuple ss => STuple ((fix go (l : list schema) : list schema :=
                            match l with [] => [] | x :: r => layout_of x :: go r end) ss)
  | SSum alts => SSum ((fix go (l : list (N * schema)) : list (N * schema) :=
                          match l with [] => [] | (t, x) :: r => (t, layout_of x) :: go r end) alts)
  | SBitmap e w m fs => SBitmap e w m ((fix go (l : list (option N * schema)) : list (option N * schema) :=
                                          match l with [] => [] | (t, x) :: r => (t, layout_of x) :: go r end) fs)
  | SVec e w s' => match layout_of s' with
                   | SUInt _ 1 => SBytes e w 0     (* a vector of bytes and a byte string have the same layout *)
                   | l => SVec e w l
                   end
  | SBytes e w _ => SBytes e w 0
  | SRaw n => SRaw n
  | SRefine _ s' => layout_of s'
  | SFramed h p b => SFramed (layout_of h) p (layout_of b)
  | SFramedRaw h p _ => SFramedRaw (layout_of h) p 0
  end.

(** Fully derived types that also have a hand-written term: the terms are equal. *)
Lemma generated_equal :
  g_TransactionHeader = s_transaction_header /\ g_UpdateHeader = s_update_header /\ g_GASRewards = s_gas_rewards
  /\ g_GASRewardsV1 = s_gas_rewards_v1 /\ g_CooldownParameters = s_cooldown_parameters /\ g_TimeParameters = s_time_parameters
  /\ g_PoolParameters = s_pool_parameters /\ g_CommissionRanges = s_commission_ranges /\ g_MintRate = s_mint_rate
  /\ g_FinalizationCommitteeParameters = s_finalization_committee_parameters /\ g_AuthorizationsV0 = s_authorizations_v0
  /\ g_AmountFraction = s_amount_fraction /\ g_UpdateKeysThreshold = s_update_keys_threshold
  /\ g_TransactionTime = s_transaction_time /\ g_UpdatePublicKey = s_verify_key
  /\ g_ArInfo_ArCurve = s_ar_info /\ g_Description = s_description.
Proof. repeat split; reflexivity. Qed.

(** Derived [Serial] with a hand-written [Deserial]: same layout (the hand-written term adds the decoder's checks). *)
Lemma generated_layout :
  layout_of g_Memo = layout_of s_memo /\ layout_of g_RegisteredData = layout_of s_registered_data
  /\ layout_of g_PayloadSize = layout_of s_payload_size /\ layout_of g_Ratio = layout_of s_ratio
  /\ layout_of g_LeverageFactor = layout_of s_leverage_factor
  /\ layout_of g_MintDistributionV0 = layout_of s_mint_distribution_v0
  /\ layout_of g_MintDistributionV1 = layout_of s_mint_distribution_v1
  /\ layout_of g_TransactionFeeDistribution = layout_of s_transaction_fee_distribution
  /\ layout_of g_AccessStructure = layout_of s_access_structure
  /\ layout_of g_UpdateInstructionSignature = layout_of s_update_instruction_signature
  /\ layout_of g_TimeoutParameters = layout_of s_timeout_parameters /\ layout_of g_UrlText = layout_of s_url_text
  /\ layout_of g_HigherLevelAccessStructure = layout_of s_higher_level_access_structure.
Proof. repeat split; reflexivity. Qed.

(** The pairs listed by the translator are exactly the ones proved above (so that a type added to the
    translator's tables without a lemma is noticed). *)
Lemma tie_tables_sizes : length gen_equal_pairs = 17%nat /\ length gen_layout_pairs = 13%nat.
Proof. split; reflexivity. Qed.

(** Every generated term is well formed ... *)
Lemma generated_all_wf : forallb schema_wf gen_all = true.
Proof. vm_compute. reflexivity. Qed.

(** ... hence has all the laws. *)
Lemma generated_laws : forall valid s, In s gen_all ->
  RT valid s /\ Canon valid s /\ PFree valid s /\ AllocOK valid s.
Proof.
  intros valid s Hin. apply schema_codec_laws.
  pose proof generated_all_wf as H. rewrite forallb_forall in H. now apply H.
Qed.


Lemma generated_table_wf : forallb (fun p => schema_wf (snd p)) gen_schema_table = true.
Proof. vm_compute. reflexivity. Qed.

Lemma generated_table_laws : forall valid id s, In (id, s) gen_schema_table ->
  RT valid s /\ Canon valid s /\ PFree valid s /\ AllocOK valid s.
Proof.
  intros valid id s Hin. apply schema_codec_laws.
  pose proof generated_table_wf as H. rewrite forallb_forall in H. now apply (H (id, s)).
Qed.
