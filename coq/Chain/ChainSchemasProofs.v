(** Chain/ChainSchemasProofs.v -- lemmas about the chain schema terms used by Props/C05.v. *)
From Coq Require Import NArith List Bool.
From CB Require Import Common.Codec Common.CodecProofs Chain.ChainSchemas.
Import ListNotations.
Local Open Scope N_scope.

Lemma all_wf_true : all_wf = true.
Proof. vm_compute. reflexivity. Qed.

Lemma table_laws : forall valid id s,
  In (id, s) chain_schema_table -> id <> 100 ->
  RT valid s /\ Canon valid s /\ PFree valid s /\ AllocOK valid s.
Proof.
  intros valid id s Hin Hid. apply schema_codec_laws.
  pose proof all_wf_true as H. unfold all_wf in H. rewrite forallb_forall in H.
  specialize (H _ Hin). cbn [fst snd] in H.
  destruct (N.eqb_spec id 100) as [->|_]; [contradiction|exact H].
Qed.

Lemma prefix_noncanonical : forall valid,
  exists bs1 bs2 v, bs1 <> bs2
    /\ dec valid s_configure_baker_prefix bs1 = Some (v, [])
    /\ dec valid s_configure_baker_prefix bs2 = Some (v, [])
    /\ enc s_configure_baker_prefix v = bs1.
Proof.
  intros valid. exists [0; 0], [2; 0], (VList (repeat VNone 9)).
  split; [discriminate|]. repeat split; vm_compute; reflexivity.
Qed.

Lemma prefix_not_wf : schema_wf s_configure_baker_prefix = false.
Proof. vm_compute. reflexivity. Qed.

Lemma fixed_rejects : forall valid rest, dec valid s_configure_baker ([2; 0] ++ rest) = None.
Proof. intros valid rest. reflexivity. Qed.

Lemma transfer_example : forall valid,
  let v := VTag 3 (VList [VBytes (repeat 7 32); VNum 1000000]) in
  wt valid s_payload v = true
  /\ enc s_payload v = 3 :: repeat 7 32 ++ [0; 0; 0; 0; 0; 15; 66; 64]
  /\ dec valid s_payload (enc s_payload v ++ [9]) = Some (v, [9]).
Proof. intros valid. repeat split; vm_compute; reflexivity. Qed.

Lemma delegation_example : forall valid,
  dec valid s_payload [26; 0; 5; 0; 0; 0; 0; 0; 0; 0; 1; 1; 0; 0; 0; 0; 0; 0; 0; 42]
  = Some (VTag 26 (VList [VSome (VNum 1); VNone; VSome (VTag 1 (VNum 42))]), []).
Proof. intros valid. vm_compute. reflexivity. Qed.

Lemma signature_example : forall valid,
  dec valid s_transaction_signature [1; 0; 2; 1; 0; 0; 0; 0; 0] = None
  /\ dec valid s_transaction_signature [1; 0; 2; 0; 0; 0; 1; 0; 0]
     = Some (VList [VList [VNum 0; VList [VList [VNum 0; VBytes []]; VList [VNum 1; VBytes []]]]], []).
Proof. intros valid. split; vm_compute; reflexivity. Qed.
