(** * Chain/GenericTie.v -- bare generic wrappers as schema functors (Gen/ChainSchemasParam.v, regenerated from the Rust
    declarations): for EVERY well-formed argument schema the wrapper is well formed, hence has all codec laws. *)
From Coq Require Import NArith List Bool.
From CB Require Import Common.Codec Common.CodecProofs Chain.ChainSchemas Gen.ChainSchemas Gen.ChainSchemasParam.
Import ListNotations.
Local Open Scope N_scope.

Definition LawsP (valid : N -> list N -> bool) (s : schema) : Prop :=
  RT valid s /\ Canon valid s /\ PFree valid s /\ AllocOK valid s.

Lemma sigma_proof_laws : forall valid R, schema_wf R = true -> LawsP valid (gp_SigmaProof R).
Proof. intros. apply schema_codec_laws. now apply gp_SigmaProof_wf. Qed.

Lemma and_response_laws : forall valid R1 R2, schema_wf R1 = true -> schema_wf R2 = true -> LawsP valid (gp_AndResponse R1 R2).
Proof. intros. apply schema_codec_laws. now apply gp_AndResponse_wf. Qed.

Lemma replicate_response_laws : forall valid R, schema_wf R = true -> (1 <=? min_size R) = true -> LawsP valid (gp_ReplicateResponse R).
Proof. intros. apply schema_codec_laws. now apply gp_ReplicateResponse_wf. Qed.

Lemma replicate_points_laws : forall valid P, schema_wf P = true -> (1 <=? min_size P) = true -> LawsP valid (gp_ReplicatePoints P).
Proof. intros. apply schema_codec_laws. now apply gp_ReplicatePoints_wf. Qed.

Lemma secret_laws : forall valid T, schema_wf T = true -> LawsP valid (gp_Secret T).
Proof. intros. apply schema_codec_laws. now apply gp_Secret_wf. Qed.

Lemma zk_proof_laws : forall valid T, schema_wf T = true -> LawsP valid (gp_ConcordiumZKProof T).
Proof. intros. apply schema_codec_laws. now apply gp_ConcordiumZKProof_wf. Qed.

Lemma reveal_attribute_statement_laws : forall valid T, schema_wf T = true -> LawsP valid (gp_RevealAttributeStatement T).
Proof. intros. apply schema_codec_laws. now apply gp_RevealAttributeStatement_wf. Qed.

(** The wrapper needs its hypothesis: a vector of a zero-size element is not well formed (the decoder could be made to
    loop over a huge declared count without consuming input). *)
Lemma replicate_response_needs_min_size : schema_wf (gp_ReplicateResponse SUnit) = false.
Proof. vm_compute. reflexivity. Qed.

(** Instances used on chain (non-vacuity of the hypotheses). *)
Lemma sigma_proof_instance :
  g_SigmaProof_DlogResponse_ArCurve = gp_SigmaProof g_Response__sigma_protocols_dlog_ArCurve
  /\ schema_wf g_Response__sigma_protocols_dlog_ArCurve = true.
Proof. split; [reflexivity | vm_compute; reflexivity]. Qed.

Lemma replicate_response_instance :
  g_ReplicateResponse_com_enc_eq_Response_ArCurve = gp_ReplicateResponse g_Response__sigma_protocols_com_enc_eq_ArCurve
  /\ schema_wf g_Response__sigma_protocols_com_enc_eq_ArCurve = true
  /\ (1 <=? min_size g_Response__sigma_protocols_com_enc_eq_ArCurve) = true.
Proof. repeat split; vm_compute; reflexivity. Qed.
