(** * Chain/ChainSchemasAll.v -- Payload with ALL its variants (the sum of Chain/ChainSchemasFull.v completed with
    InitContract / Update, tags 1 and 2), AccountTransaction<Payload> over it, and the statement that the tag table is
    exactly the list of transaction types.  Every term is shown to be in the class covered by the universal codec theorem
    ([schema_wf] by computation), so round trip, canonicity, prefix freeness and the allocation bound follow. *)
From Coq Require Import NArith List Bool.
From CB Require Import Common.Codec Common.CodecProofs Chain.ChainSchemas Gen.ChainSchemas Chain.ChainSchemasFull.
Import ListNotations.
Local Open Scope N_scope.

Definition payload_alts_all : list (N * schema) :=
  payload_alts_full ++ [(1, s_init_contract_payload); (2, s_update_contract_payload)].
Definition s_payload_all := SSum payload_alts_all.
(** AccountTransaction<Payload>: signature, header, then exactly [payload_size] bytes that decode as a Payload. *)
Definition s_account_transaction_all :=
  STuple [s_transaction_signature; SFramed s_transaction_header header_size_path s_payload_all].

(** The transaction types of transactions.rs ([TransactionType], tags written by [Payload::serial]). *)
Definition payload_type_tags : list N :=
  [0; 1; 2; 3; 4; 5; 6; 7; 8; 13; 16; 17; 18; 19; 20; 21; 22; 23; 24; 25; 26; 27].

Definition all_schema_table : list (N * schema) :=
  [(53, s_payload_all); (54, s_account_transaction_all); (55, s_init_contract_payload); (56, s_update_contract_payload);
   (57, s_contract_name); (58, s_receive_name); (59, s_parameter)].

Lemma all_wf : forallb (fun p => schema_wf (snd p)) all_schema_table = true.
Proof. vm_compute. reflexivity. Qed.

Lemma all_laws : forall valid id s, In (id, s) all_schema_table ->
  RT valid s /\ Canon valid s /\ PFree valid s /\ AllocOK valid s.
Proof.
  intros valid id s Hin. apply schema_codec_laws.
  pose proof all_wf as H. rewrite forallb_forall in H. now apply (H (id, s)).
Qed.

Lemma payload_all_wf : schema_wf s_payload_all = true.
Proof. vm_compute. reflexivity. Qed.

Lemma incl_dec : forall l1 l2 : list N,
  forallb (fun x => existsb (N.eqb x) l2) l1 = true -> forall t, In t l1 -> In t l2.
Proof.
  intros l1 l2 H t Hin. rewrite forallb_forall in H. specialize (H t Hin).
  apply existsb_exists in H. destruct H as [y [Hy He]]. apply N.eqb_eq in He. now subst.
Qed.

(** The tag table of [s_payload_all] has exactly the transaction types, each once. *)
Lemma payload_all_tags : (forall t, In t (map fst payload_alts_all) <-> In t payload_type_tags)
  /\ NoDup (map fst payload_alts_all) /\ length payload_alts_all = 22%nat.
Proof.
  split; [|split].
  - intro t; split; apply incl_dec; vm_compute; reflexivity.
  - assert (H : nodupb (map fst payload_alts_all) = true) by (vm_compute; reflexivity).
    revert H. generalize (map fst payload_alts_all). induction l as [|a l IH]; intro H; [constructor|].
    cbn in H. apply andb_true_iff in H. destruct H as [Ha Hl]. constructor; [|now apply IH].
    intro Hin. apply negb_true_iff in Ha.
    assert (existsb (N.eqb a) l = true) by (apply existsb_exists; exists a; split; [exact Hin|apply N.eqb_refl]).
    congruence.
  - reflexivity.
Qed.

(** Non-vacuity: an InitContract payload "init_a" with a one-byte parameter. *)
Lemma init_contract_example : forall valid,
  let v := VTag 1 (VList [VNum 5; VBytes (repeat 9 32); VBytes [105; 110; 105; 116; 95; 97]; VBytes [7]]) in
  wt valid s_payload_all v = true
  /\ dec valid s_payload_all (enc s_payload_all v ++ [1]) = Some (v, [1])
  /\ dec valid s_payload_all (1 :: repeat 0 8 ++ repeat 9 32 ++ [0; 5; 105; 110; 105; 116; 46; 0; 0]) = None.   (* "init." : '.' in a contract name *)
Proof. intro valid. repeat split; vm_compute; reflexivity. Qed.
