(** C06 - proofs about the authorisation model [Chain/Auth.v]. *)
From Coq Require Import NArith List Bool Lia.
From CB Require Import Chain.Auth.
Import ListNotations.
Local Open Scope N_scope.

Arguments N.add : simpl never.
Arguments N.sub : simpl never.
Arguments N.mul : simpl never.
Arguments N.eqb : simpl never.
Arguments N.ltb : simpl never.
Arguments N.leb : simpl never.

(** ---- association lists ---- *)
Lemma lookup_In : forall {V} k (m : amap V) v, lookup k m = Some v -> In (k, v) m.
Proof.
  induction m as [|[k' v'] m IH]; cbn [lookup]; intros v H; [discriminate|].
  destruct (N.eqb_spec k k') as [->|Hne].
  - inversion H; subst; left; reflexivity.
  - right; auto.
Qed.

Lemma increasing_from_lb : forall ks lo k, increasing_from (Some lo) ks = true -> In k ks -> lo < k.
Proof.
  induction ks as [|k0 ks IH]; intros lo k H Hin; [destruct Hin|].
  cbn [increasing_from] in H. apply andb_true_iff in H as [H1 H2].
  apply N.ltb_lt in H1. destruct Hin as [->|Hin]; [assumption|].
  specialize (IH k0 k H2 Hin). lia.
Qed.

Lemma increasing_from_weaken : forall ks lo, increasing_from (Some lo) ks = true -> increasing_from None ks = true.
Proof.
  destruct ks as [|k ks]; intros lo H; [reflexivity|].
  cbn [increasing_from] in *. apply andb_true_iff in H as [_ H]. exact H.
Qed.

Lemma wf_map_tail : forall {V} (p : N * V) m, wf_map (p :: m) = true -> wf_map m = true.
Proof.
  intros V [k v] m H. unfold wf_map, keys_of in *. cbn [map fst increasing_from] in H.
  cbn [andb] in H. eapply increasing_from_weaken; exact H.
Qed.

Lemma wf_map_In_lookup : forall {V} (m : amap V) k v, wf_map m = true -> In (k, v) m -> lookup k m = Some v.
Proof.
  induction m as [|[k' v'] m IH]; intros k v Hwf Hin; [destruct Hin|].
  cbn [lookup]. destruct Hin as [Heq|Hin].
  - inversion Heq; subst. rewrite N.eqb_refl. reflexivity.
  - destruct (N.eqb_spec k k') as [->|Hne].
    + exfalso. unfold wf_map, keys_of in Hwf. cbn [map fst increasing_from andb] in Hwf.
      assert (k' < k') by (eapply increasing_from_lb; [exact Hwf|]; apply in_map_iff; exists (k', v); auto).
      lia.
    + apply IH; [eapply wf_map_tail; exact Hwf|assumption].
Qed.

Lemma wf_map_NoDup : forall {V} (m : amap V), wf_map m = true -> NoDup (keys_of m).
Proof.
  induction m as [|[k v] m IH]; intros H; [constructor|].
  cbn [keys_of map fst]. constructor.
  - intros Hin. unfold wf_map, keys_of in H. cbn [map fst increasing_from andb] in H.
    assert (k < k) by (eapply increasing_from_lb; eauto). lia.
  - apply IH. eapply wf_map_tail; exact H.
Qed.

Lemma len_cons : forall {A} (x : A) l, len (x :: l) = len l + 1.
Proof. intros. unfold len. cbn [length]. lia. Qed.

Lemma len_map : forall {A B} (f : A -> B) l, len (map f l) = len l.
Proof. intros. unfold len. rewrite map_length. reflexivity. Qed.

Section Proofs.
  Variables PK SIG DATA : Type.
  Variable sig_valid : PK -> DATA -> SIG -> bool.

  Notation cred_keys := (cred_keys PK).
  Notation access := (access PK).
  Notation verify_keys := (verify_keys sig_valid).
  Notation verify_creds := (verify_creds sig_valid).
  Notation verify := (verify_data_signature sig_valid).

  (** every supplied signature belongs to a registered key and is valid *)
  Definition keys_policy (ck : cred_keys) (d : DATA) (cs : cred_sigs SIG) : Prop :=
    forall ki s, In (ki, s) cs -> exists pk, lookup ki (ck_keys ck) = Some pk /\ sig_valid pk d s = true.

  (** every supplied credential is registered, meets its threshold, and satisfies [keys_policy] *)
  Definition creds_policy (a : access) (d : DATA) (sm : sig_map SIG) : Prop :=
    forall ci cs, In (ci, cs) sm ->
      exists ck, lookup ci (as_creds a) = Some ck /\ ck_threshold ck <= len cs /\ keys_policy ck d cs.

  (** the threshold policy *)
  Definition policy (a : access) (d : DATA) (sm : sig_map SIG) : Prop :=
    as_threshold a <= len sm /\ creds_policy a d sm.

  Lemma verify_keys_iff : forall ck d cs, verify_keys ck d cs = true <-> keys_policy ck d cs.
  Proof.
    intros ck d. induction cs as [|[ki s] cs IH]; cbn [Auth.verify_keys].
    - split; [intros _ ki s []|reflexivity].
    - destruct (lookup ki (ck_keys ck)) as [pk|] eqn:Hl.
      + destruct (sig_valid pk d s) eqn:Hv.
        * rewrite IH. split.
          -- intros H ki' s' [Heq|Hin]; [inversion Heq; subst; eauto|auto].
          -- intros H ki' s' Hin. apply H. right; exact Hin.
        * split; [discriminate|]. intros H.
          destruct (H ki s (or_introl eq_refl)) as [pk' [Hl' Hv']]. congruence.
      + split; [discriminate|]. intros H.
        destruct (H ki s (or_introl eq_refl)) as [pk' [Hl' _]]. congruence.
  Qed.

  Lemma verify_creds_iff : forall a d sm, verify_creds a d sm = true <-> creds_policy a d sm.
  Proof.
    intros a d. induction sm as [|[ci cs] sm IH]; cbn [Auth.verify_creds].
    - split; [intros _ ci cs []|reflexivity].
    - destruct (lookup ci (as_creds a)) as [ck|] eqn:Hl.
      + destruct (N.ltb_spec (len cs) (ck_threshold ck)) as [Hlt|Hge].
        * split; [discriminate|]. intros H.
          destruct (H ci cs (or_introl eq_refl)) as [ck' [Hl' [Ht _]]].
          assert (ck' = ck) by congruence. subst. lia.
        * destruct (verify_keys ck d cs) eqn:Hk.
          -- rewrite IH. split.
             ++ intros H ci' cs' [Heq|Hin]; [|auto]. inversion Heq; subst.
                exists ck. repeat split; [assumption|assumption|]. apply verify_keys_iff; exact Hk.
             ++ intros H ci' cs' Hin. apply H. right; exact Hin.
          -- split; [discriminate|]. intros H.
             destruct (H ci cs (or_introl eq_refl)) as [ck' [Hl' [_ Hp]]].
             assert (ck' = ck) by congruence. subst.
             apply verify_keys_iff in Hp. congruence.
      + split; [discriminate|]. intros H.
        destruct (H ci cs (or_introl eq_refl)) as [ck' [Hl' _]]. congruence.
  Qed.

  Lemma verify_iff_policy_l : forall a d sm, verify a d sm = true <-> policy a d sm.
  Proof.
    intros a d sm. unfold Auth.verify_data_signature, policy.
    destruct (N.ltb_spec (len sm) (as_threshold a)) as [Hlt|Hge].
    - split; [discriminate|]. intros [H _]. lia.
    - rewrite verify_creds_iff. tauto.
  Qed.

  (** The same policy in "map" vocabulary for well-formed (BTreeMap) signature maps. *)
  Definition policy_map (a : access) (d : DATA) (sm : sig_map SIG) : Prop :=
    as_threshold a <= len sm /\
    forall ci cs, lookup ci sm = Some cs ->
      exists ck, lookup ci (as_creds a) = Some ck /\ ck_threshold ck <= len cs /\
        forall ki s, lookup ki cs = Some s -> exists pk, lookup ki (ck_keys ck) = Some pk /\ sig_valid pk d s = true.

  Lemma verify_iff_policy_map_l : forall a d sm,
    wf_map sm = true -> (forall ci cs, In (ci, cs) sm -> wf_map cs = true) ->
    (verify a d sm = true <-> policy_map a d sm).
  Proof.
    intros a d sm Hwf Hwfi. rewrite verify_iff_policy_l. unfold policy, policy_map, creds_policy, keys_policy.
    split; intros [Ht H]; split; try assumption.
    - intros ci cs Hl. apply lookup_In in Hl. destruct (H ci cs Hl) as [ck [H1 [H2 H3]]].
      exists ck. repeat split; try assumption. intros ki s Hk. apply H3. apply lookup_In; exact Hk.
    - intros ci cs Hin. destruct (H ci cs (wf_map_In_lookup _ _ _ Hwf Hin)) as [ck [H1 [H2 H3]]].
      exists ck. repeat split; try assumption. intros ki s Hk. apply H3.
      apply wf_map_In_lookup; [eapply Hwfi; exact Hin|exact Hk].
  Qed.

  (** ---- rejection corollaries ---- *)
  Lemma too_few_credentials_rejects_l : forall a d sm, len sm < as_threshold a -> verify a d sm = false.
  Proof.
    intros a d sm H. destruct (verify a d sm) eqn:E; [|reflexivity].
    apply verify_iff_policy_l in E. destruct E as [E _]. lia.
  Qed.

  Lemma extra_unknown_credential_rejects_l : forall a d sm ci cs,
    In (ci, cs) sm -> lookup ci (as_creds a) = None -> verify a d sm = false.
  Proof.
    intros a d sm ci cs Hin Hl. destruct (verify a d sm) eqn:E; [|reflexivity].
    apply verify_iff_policy_l in E. destruct E as [_ E].
    destruct (E ci cs Hin) as [ck [H _]]. congruence.
  Qed.

  Lemma too_few_signatures_rejects_l : forall a d sm ci cs ck,
    In (ci, cs) sm -> lookup ci (as_creds a) = Some ck -> len cs < ck_threshold ck -> verify a d sm = false.
  Proof.
    intros a d sm ci cs ck Hin Hl Hlt. destruct (verify a d sm) eqn:E; [|reflexivity].
    apply verify_iff_policy_l in E. destruct E as [_ E].
    destruct (E ci cs Hin) as [ck' [H [H2 _]]]. assert (ck' = ck) by congruence. subst. lia.
  Qed.

  Lemma unknown_key_index_rejects_l : forall a d sm ci cs ck ki s,
    In (ci, cs) sm -> lookup ci (as_creds a) = Some ck -> In (ki, s) cs -> lookup ki (ck_keys ck) = None ->
    verify a d sm = false.
  Proof.
    intros a d sm ci cs ck ki s Hin Hl Hk Hn. destruct (verify a d sm) eqn:E; [|reflexivity].
    apply verify_iff_policy_l in E. destruct E as [_ E].
    destruct (E ci cs Hin) as [ck' [H [_ H3]]]. assert (ck' = ck) by congruence. subst.
    destruct (H3 ki s Hk) as [pk [Hp _]]. congruence.
  Qed.

  Lemma one_invalid_signature_rejects_l : forall a d sm ci cs ck ki s pk,
    In (ci, cs) sm -> lookup ci (as_creds a) = Some ck -> In (ki, s) cs -> lookup ki (ck_keys ck) = Some pk ->
    sig_valid pk d s = false -> verify a d sm = false.
  Proof.
    intros a d sm ci cs ck ki s pk Hin Hl Hk Hp Hv. destruct (verify a d sm) eqn:E; [|reflexivity].
    apply verify_iff_policy_l in E. destruct E as [_ E].
    destruct (E ci cs Hin) as [ck' [H [_ H3]]]. assert (ck' = ck) by congruence. subst.
    destruct (H3 ki s Hk) as [pk' [Hp' Hv']]. congruence.
  Qed.

  (** ---- v1 (sender + optional sponsor) ---- *)
  Lemma verify_v1_iff_l : forall sender sponsor d ssig psig,
    verify_v1 sig_valid sender sponsor d ssig psig = true <->
    policy sender d ssig /\ (forall sg, psig = Some sg -> policy sponsor d sg).
  Proof.
    intros. unfold verify_v1. rewrite andb_true_iff, verify_iff_policy_l.
    destruct psig as [sg|].
    - rewrite verify_iff_policy_l. split; intros [H1 H2]; split; auto.
      intros sg' Heq; inversion Heq; subst; exact H2.
    - split; [intros [H1 _]; split; [exact H1|discriminate]|intros [H1 _]; auto].
  Qed.

  (** ---- signing ---- *)
  Variable SK : Type.
  Variable pub : SK -> PK.
  Variable sign : SK -> DATA -> SIG.
  Hypothesis sign_correct : forall sk d, sig_valid (pub sk) d (sign sk d) = true.

  (** a set of signing keys that meets the thresholds of [a] *)
  Definition signer_sufficient (a : access) (ks : amap (amap SK)) : Prop :=
    as_threshold a <= len ks /\
    forall ci kk, In (ci, kk) ks ->
      exists ck, lookup ci (as_creds a) = Some ck /\ ck_threshold ck <= len kk /\
        forall ki sk, In (ki, sk) kk -> lookup ki (ck_keys ck) = Some (pub sk).

  Lemma sign_sufficient_verifies_l : forall a ks d,
    signer_sufficient a ks -> verify a d (sign_map sign ks d) = true.
  Proof.
    intros a ks d [Ht H]. apply verify_iff_policy_l. split.
    - unfold sign_map. rewrite len_map. exact Ht.
    - intros ci cs Hin. unfold sign_map in Hin. apply in_map_iff in Hin as [[ci' kk] [Heq Hin]].
      cbn [fst snd] in Heq. inversion Heq; subst.
      destruct (H ci kk Hin) as [ck [H1 [H2 H3]]]. exists ck. split; [exact H1|]. split.
      + unfold sign_cred. rewrite len_map. exact H2.
      + intros ki s Hk. unfold sign_cred in Hk. apply in_map_iff in Hk as [[ki' sk] [Heq' Hk]].
        cbn [fst snd] in Heq'. inversion Heq'; subst. exists (pub sk). split; [eauto|apply sign_correct].
  Qed.

  (** The [AccountKeys] signer signs with the first [threshold] credentials and keys; it verifies
      against the access structure derived from the same keys whenever the thresholds are attainable. *)
  Definition account_keys_wf (ak : account_keys SK) : Prop :=
    wf_map (ak_keys ak) = true /\ ak_threshold ak <= len (ak_keys ak) /\
    forall ci cd, In (ci, cd) (ak_keys ak) -> wf_map (cd_keys cd) = true /\ cd_threshold cd <= len (cd_keys cd).

  Lemma len_firstn : forall {A} (l : list A) n, n <= len l -> len (firstn (N.to_nat n) l) = n.
  Proof. intros A l n H. unfold len in *. rewrite firstn_length. lia. Qed.

  Lemma In_firstn : forall {A} n (l : list A) x, In x (firstn n l) -> In x l.
  Proof.
    intros A n. induction n as [|n IH]; intros [|y l] x H; cbn [firstn] in H; try contradiction.
    destruct H as [->|H]; [left; reflexivity|right; auto].
  Qed.

  Lemma lookup_map_snd : forall {V W} (f : V -> W) k (m : amap V),
    lookup k (map (fun p => (fst p, f (snd p))) m) = option_map f (lookup k m).
  Proof.
    intros V W f k. induction m as [|[k' v] m IH]; [reflexivity|].
    cbn [map lookup fst snd]. destruct (N.eqb k k'); [reflexivity|exact IH].
  Qed.

  Lemma account_keys_sign_verifies_l : forall ak d,
    account_keys_wf ak -> verify (access_of_keys pub ak) d (account_keys_sign sign ak d) = true.
  Proof.
    intros ak d [Hwf [Ht Hc]]. apply verify_iff_policy_l. split.
    - unfold account_keys_sign, access_of_keys. cbn [as_threshold]. rewrite len_map, len_firstn; [lia|exact Ht].
    - intros ci cs Hin. unfold account_keys_sign in Hin. apply in_map_iff in Hin as [[ci' cd] [Heq Hin]].
      cbn [fst snd] in Heq. inversion Heq; subst. clear Heq. apply In_firstn in Hin.
      destruct (Hc ci cd Hin) as [Hwfc Htc].
      exists (mkCred (map (fun q => (fst q, pub (snd q))) (cd_keys cd)) (cd_threshold cd)). split.
      + unfold access_of_keys. cbn [as_creds].
        rewrite (lookup_map_snd (fun cd => mkCred (map (fun q => (fst q, pub (snd q))) (cd_keys cd)) (cd_threshold cd))).
        rewrite (wf_map_In_lookup _ _ _ Hwf Hin). reflexivity.
      + cbn [ck_threshold ck_keys]. split.
        * unfold sign_cred. rewrite len_map, len_firstn; [lia|exact Htc].
        * intros ki s Hk. unfold sign_cred in Hk. apply in_map_iff in Hk as [[ki' sk] [Heq' Hk]].
          cbn [fst snd] in Heq'. inversion Heq'; subst. apply In_firstn in Hk.
          exists (pub sk). split; [|apply sign_correct]. cbn [ck_keys].
          rewrite (lookup_map_snd pub). rewrite (wf_map_In_lookup _ _ _ Hwfc Hk). reflexivity.
  Qed.

  (** [num_keys] of the [AccountKeys] signer equals the number of signatures it produces (this is the
      figure that enters the energy formula through [send::*]). *)
  Lemma account_keys_num_keys_exact : forall ak d,
    account_keys_wf ak -> num_signatures (account_keys_sign sign ak d) = account_keys_num_keys ak.
  Proof.
    intros ak d [_ [_ Hc]]. unfold num_signatures, account_keys_sign, account_keys_num_keys.
    rewrite map_map. cbn [snd].
    assert (H : forall l, (forall ci cd, In (ci, cd) l -> cd_threshold cd <= len (cd_keys cd)) ->
      map (fun x : N * cred_data SK => len (sign_cred sign (firstn (N.to_nat (cd_threshold (snd x))) (cd_keys (snd x))) d)) l
      = map (fun p => cd_threshold (snd p)) l).
    { induction l as [|[ci cd] l IH]; intros Hl; [reflexivity|]. cbn [map snd]. f_equal.
      - unfold sign_cred. rewrite len_map. apply len_firstn. eapply Hl; left; reflexivity.
      - apply IH. intros ci' cd' Hin. eapply Hl; right; exact Hin. }
    rewrite H; [reflexivity|]. intros ci cd Hin. apply In_firstn in Hin. apply (Hc ci cd Hin).
  Qed.

  (** ---- updates ---- *)
  Variable pk_eqb : PK -> PK -> bool.
  Hypothesis pk_eqb_spec : forall x y, pk_eqb x y = true <-> x = y.

  Definition update_policy (keys : list PK) (acc : access_structure) (d : DATA) (sigs : amap SIG) : Prop :=
    au_threshold acc <= len sigs /\
    forall ki s, In (ki, s) sigs ->
      In ki (au_keys acc) /\ exists pk, nth_error keys (N.to_nat ki) = Some pk /\ sig_valid pk d s = true.

  Lemma mem_In : forall i s, mem i s = true <-> In i s.
  Proof.
    intros i s. unfold mem. rewrite existsb_exists. split.
    - intros [x [Hin Heq]]. apply N.eqb_eq in Heq. subst. exact Hin.
    - intros H. exists i. split; [exact H|apply N.eqb_refl].
  Qed.

  Lemma update_sigs_ok_iff : forall keys acc d sigs,
    update_sigs_ok sig_valid keys acc d sigs = true <->
    forall ki s, In (ki, s) sigs ->
      In ki (au_keys acc) /\ exists pk, nth_error keys (N.to_nat ki) = Some pk /\ sig_valid pk d s = true.
  Proof.
    intros keys acc d. induction sigs as [|[ki s] sigs IH]; cbn [Auth.update_sigs_ok].
    - split; [intros _ ki s []|reflexivity].
    - destruct (mem ki (au_keys acc)) eqn:Hm.
      + destruct (nth_error keys (N.to_nat ki)) as [pk|] eqn:Hn.
        * destruct (sig_valid pk d s) eqn:Hv.
          -- rewrite IH. split.
             ++ intros H ki' s' [Heq|Hin]; [|auto]. inversion Heq; subst.
                split; [apply mem_In; exact Hm|eauto].
             ++ intros H ki' s' Hin. apply H; right; exact Hin.
          -- split; [discriminate|]. intros H. destruct (H ki s (or_introl eq_refl)) as [_ [pk' [H1 H2]]]. congruence.
        * split; [discriminate|]. intros H. destruct (H ki s (or_introl eq_refl)) as [_ [pk' [H1 _]]]. congruence.
      + split; [discriminate|]. intros H. destruct (H ki s (or_introl eq_refl)) as [H1 _].
        apply mem_In in H1. congruence.
  Qed.

  Lemma update_verify_iff_policy_l : forall keys acc d sigs,
    update_verify sig_valid keys acc d sigs = true <-> update_policy keys acc d sigs.
  Proof.
    intros. unfold update_verify, update_policy.
    destruct (N.ltb_spec (len sigs) (au_threshold acc)) as [Hlt|Hge].
    - split; [discriminate|]. intros [H _]. lia.
    - rewrite update_sigs_ok_iff. tauto.
  Qed.

  (** [position] finds the first index holding an equal key. *)
  Lemma position_from_sound : forall keys i pk j,
    position_from pk_eqb i pk keys = Some j ->
    i <= j /\ nth_error keys (N.to_nat (j - i)) = Some pk.
  Proof.
    induction keys as [|k keys IH]; intros i pk j H; cbn [Auth.position_from] in H; [discriminate|].
    destruct (pk_eqb k pk) eqn:E.
    - inversion H; subst. apply pk_eqb_spec in E. subst. split; [lia|].
      replace (j - j) with 0 by lia. reflexivity.
    - apply IH in H as [H1 H2]. split; [lia|].
      replace (N.to_nat (j - i)) with (S (N.to_nat (j - (i + 1)))) by lia. exact H2.
  Qed.

  Lemma position_sound : forall keys pk j, position pk_eqb pk keys = Some j -> nth_error keys (N.to_nat j) = Some pk.
  Proof.
    intros keys pk j H. apply position_from_sound in H as [_ H]. replace (j - 0) with j in H by lia. exact H.
  Qed.

  (** invariants of [insert] *)
  Lemma insert_In : forall {V} k (v : V) m m' b, insert k v m = (m', b) ->
    forall k0 v0, In (k0, v0) m' -> (k0 = k /\ v0 = v) \/ In (k0, v0) m.
  Proof.
    intros V k v. induction m as [|[k' v'] m IH]; intros m' b H k0 v0 Hin; cbn [insert] in H.
    - inversion H; subst. destruct Hin as [Heq|[]]. inversion Heq; auto.
    - destruct (N.ltb k k').
      + inversion H; subst. destruct Hin as [Heq|Hin]; [inversion Heq; auto|right; exact Hin].
      + destruct (N.eqb k k').
        * inversion H; subst. destruct Hin as [Heq|Hin]; [inversion Heq; auto|right; right; exact Hin].
        * destruct (insert k v m) as [r b'] eqn:E. inversion H; subst.
          destruct Hin as [Heq|Hin]; [right; left; exact Heq|].
          destruct (IH _ _ eq_refl k0 v0 Hin) as [?|?]; [left; assumption|right; right; assumption].
  Qed.

  Lemma insert_len : forall {V} k (v : V) m m', insert k v m = (m', false) -> len m' = len m + 1.
  Proof.
    intros V k v. induction m as [|[k' v'] m IH]; intros m' H; cbn [insert] in H.
    - inversion H; subst. reflexivity.
    - destruct (N.ltb k k').
      + inversion H; subst. rewrite !len_cons. reflexivity.
      + destruct (N.eqb k k'); [inversion H|].
        destruct (insert k v m) as [r b'] eqn:E. inversion H; subst.
        rewrite !len_cons. rewrite (IH r eq_refl). reflexivity.
  Qed.

  Lemma find_authorized_from_sound : forall keys acc actual signer m,
    find_authorized_from pub pk_eqb keys acc actual signer = Some m ->
    len m = len signer + len actual /\
    forall ki sk, In (ki, sk) m ->
      In (ki, sk) signer \/
      (In sk actual /\ In ki (au_keys acc) /\ exists j, ki = j mod 65536 /\ nth_error keys (N.to_nat j) = Some (pub sk)).
  Proof.
    intros keys acc. induction actual as [|kp actual IH]; intros signer m H; cbn [Auth.find_authorized_from] in H.
    - inversion H; subst. split; [unfold len; cbn [length]; lia|]. intros; left; assumption.
    - destruct (position pk_eqb (pub kp) keys) as [j|] eqn:Hp; [|discriminate].
      destruct (mem (j mod 65536) (au_keys acc)) eqn:Hm; [|discriminate].
      destruct (insert (j mod 65536) kp signer) as [signer' replaced] eqn:Hi.
      destruct replaced; [discriminate|].
      apply IH in H as [Hlen H]. split.
      + rewrite Hlen, (insert_len _ _ _ _ Hi), len_cons. lia.
      + intros ki sk Hin. destruct (H ki sk Hin) as [Hs|[Ha Hr]].
        * destruct (insert_In _ _ _ _ _ Hi ki sk Hs) as [[-> ->]|Hold]; [|left; exact Hold].
          right. split; [left; reflexivity|]. split; [apply mem_In; exact Hm|].
          exists j. split; [reflexivity|apply position_sound; exact Hp].
        * right. split; [right; exact Ha|exact Hr].
  Qed.

  (** A signer built by [find_authorized_keys] from at least [threshold] keys produces signatures that
      satisfy the update policy (when the key list has at most 2^16 entries, as its u16 length prefix
      demands, so that [i as u16] is exact). *)
  Lemma update_sign_sufficient_verifies_l : forall keys acc actual m d,
    len keys <= 65536 ->
    find_authorized_keys pub pk_eqb keys acc actual = Some m ->
    au_threshold acc <= len actual ->
    update_verify sig_valid keys acc d (sign_update sign m d) = true.
  Proof.
    intros keys acc actual m d Hk H Ht. apply update_verify_iff_policy_l.
    unfold find_authorized_keys in H. apply find_authorized_from_sound in H as [Hlen H]. split.
    - unfold sign_update, sign_cred. rewrite len_map, Hlen. unfold len at 1. cbn [length]. lia.
    - intros ki s Hin. unfold sign_update, sign_cred in Hin. apply in_map_iff in Hin as [[ki' sk] [Heq Hin]].
      cbn [fst snd] in Heq. inversion Heq; subst.
      destruct (H ki sk Hin) as [[]|[_ [Hau [j [-> Hn]]]]].
      assert (Hj : j < 65536).
      { assert (Hlt : (N.to_nat j < length keys)%nat) by (apply nth_error_Some; congruence).
        unfold len in Hk. lia. }
      rewrite N.mod_small in * by exact Hj.
      split; [exact Hau|]. exists (pub sk). split; [exact Hn|apply sign_correct].
  Qed.
End Proofs.
