(** C06 - the energy written by the transaction builders is the documented function of the
    serialized size and the number of signatures.  [Gen/TxCost.v] is regenerated from
    transactions.rs on every run; these lemmas pin it to the documented constants, so a change of
    the source that alters the formula breaks them. *)
From Coq Require Import NArith List String Lia.
From CB Require Import Gen.TxCost Chain.Digest.
Import ListNotations.
Local Open Scope N_scope.

Lemma base_cost_formula_l : forall size nsigs, base_cost size nsigs = 1 * size + 100 * nsigs.
Proof. reflexivity. Qed.

Lemma base_cost_sigs_strict_l : forall size n1 n2, n1 < n2 -> base_cost size n1 < base_cost size n2.
Proof. intros. rewrite !base_cost_formula_l. lia. Qed.

Lemma base_cost_size_strict_l : forall s1 s2 n, s1 < s2 -> base_cost s1 n < base_cost s2 n.
Proof. intros. rewrite !base_cost_formula_l. lia. Qed.

(** no u64 overflow for any transaction that can exist (size <= 60 + 2^32, u32 signature count) *)
Lemma base_cost_no_overflow_l : forall size nsigs, size < 2 ^ 33 -> nsigs < 2 ^ 32 -> base_cost size nsigs < 2 ^ 64.
Proof.
  intros size nsigs Hs Hn. rewrite base_cost_formula_l.
  change (2 ^ 33) with 8589934592 in Hs. change (2 ^ 32) with 4294967296 in Hn.
  change (2 ^ 64) with 18446744073709551616. lia.
Qed.

Lemma header_size_l : TRANSACTION_HEADER_SIZE = 60.
Proof. reflexivity. Qed.

Lemma energy_formula_l : forall type_cost payload_size num_sigs,
  builder_energy type_cost payload_size num_sigs = 1 * (60 + payload_size) + 100 * num_sigs + type_cost.
Proof. reflexivity. Qed.

(** the documented per-type costs *)
Lemma documented_type_costs_l :
  cost_transfer = 300 /\ cost_transfer_with_memo = 300 /\
  cost_encrypted_transfer = 27000 /\ cost_encrypted_transfer_with_memo = 27000 /\
  cost_transfer_to_encrypted = 600 /\ cost_transfer_to_public = 14850 /\
  cost_add_baker = 4050 /\ cost_update_baker_keys = 4050 /\ cost_remove_baker = 300 /\
  cost_update_baker_stake = 300 /\ cost_update_baker_restake_earnings = 300 /\
  cost_register_data = 300 /\ cost_configure_delegation = 300 /\
  cost_configure_baker true = 4050 /\ cost_configure_baker false = 300 /\
  (forall e, cost_init_contract e = e) /\ (forall e, cost_update_contract e = e) /\
  (forall n, cost_transfer_with_schedule n = n * 364) /\
  (forall n, cost_transfer_with_schedule_and_memo n = n * 364) /\
  (forall s, cost_deploy_module s = s / 10) /\
  (forall c k, cost_update_credential_keys c k = 500 * c + 100 * k) /\
  (forall c ks, cost_update_credentials c ks = 500 + (500 * c + fold_right N.add 0 (map (fun k => 54000 + 100 * k) ks))) /\
  (forall ops, cost_token_update_operations ops = 300 + fold_right N.add 0 (map token_op_cost ops)) /\
  map token_op_cost ["Transfer"; "Mint"; "Burn"; "AddAllowList"; "RemoveAllowList"; "AddDenyList";
                     "RemoveDenyList"; "Pause"; "Unpause"; "SomethingElse"]%string
    = [100; 50; 50; 50; 50; 50; 50; 50; 50; 0].
Proof. repeat split; reflexivity. Qed.

(** sponsored transactions: [extend] adds 2 (the bitmap), [add_sponsor] adds 32 + A * sponsor sigs *)
Lemma sponsored_energy_l : forall h sponsor n h',
  add_sponsor A (extend_header h) sponsor n = Some h' ->
  h_energy (h1_base h') = h_energy h + 2 + (32 + 100 * n) /\ h1_sponsor h' = Some sponsor /\
  h_payload_size (h1_base h') = h_payload_size h /\ h_sender (h1_base h') = h_sender h /\
  h_nonce (h1_base h') = h_nonce h /\ h_expiry (h1_base h') = h_expiry h.
Proof.
  intros h sponsor n h' E. unfold add_sponsor, extend_header in E. cbn in E. inversion E; subst. cbn.
  repeat split; reflexivity.
Qed.
