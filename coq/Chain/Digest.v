(** C06 - what is signed and hashed.  Definitions only (no proofs), executable.

    Transcribed from rust-src/concordium_base/src/transactions.rs
      [TransactionHeader] (derived Serial: fields in order, big-endian), [TransactionHeaderV1::serial],
      [compute_transaction_sign_hash(_v1)], [TRANSACTION_HEADER_PREFIX_V1],
      [AccountTransaction(V1)::serial], [BlockItem::serial], [BlockItem::hash],
      [TransactionBuilder::new/size/construct], [PreAccountTransaction::extend], [add_sponsor],
    common/types.rs [TransactionSignature::serial], [TransactionSignaturesV1::serial], [Signature::serial]
    and updates.rs [UpdateHeader] (derived), [update::compute_sign_hash], [UpdateInstruction] (derived),
    [UpdateInstructionSignature] (map_size_length = 2).

    Bytes are [N] below 256; the hash function is abstract ([H]); the correspondence run applies
    SHA-256 (python hashlib, and independently the sha2 crate inside the harness) to the byte strings
    produced here. *)
From Coq Require Import NArith List Bool.
From CB Require Import Chain.Auth.
Import ListNotations.
Local Open Scope N_scope.

(** [n] bytes, big-endian (the [Serial] instances of u16/u32/u64) *)
Fixpoint be_bytes (n : nat) (x : N) : list N :=
  match n with
  | O => []
  | S n' => be_bytes n' (x / 256) ++ [x mod 256]
  end.

(** compact transport of byte strings to and from the check (32 bytes per number); used only by the
    correspondence run so that long lists need not be parsed / printed element by element *)
Definition N_of_bytes (l : list N) : N := fold_left (fun a b => a * 256 + b) l 0.
Fixpoint pack_words (fuel : nat) (l : list N) : list N :=
  match fuel with
  | O => []
  | S f => match l with [] => [] | _ => N_of_bytes (firstn 32 l) :: pack_words f (skipn 32 l) end
  end.
Definition pack (l : list N) : N * list N := (len l, pack_words (length l) l).
Fixpoint unpack (n : nat) (ws : list N) : list N :=
  match ws with
  | [] => []
  | w :: rest => be_bytes (Nat.min 32 n) w ++ unpack (n - 32) rest
  end.

(** [TransactionHeader] *)
Record header : Type := mkHeader {
  h_sender : list N;       (* AccountAddress, 32 bytes *)
  h_nonce : N;             (* u64 *)
  h_energy : N;            (* u64 *)
  h_payload_size : N;      (* u32 *)
  h_expiry : N             (* u64 *)
}.
Definition header_wf (h : header) : Prop :=
  length (h_sender h) = 32%nat /\ h_nonce h < 2 ^ 64 /\ h_energy h < 2 ^ 64 /\
  h_payload_size h < 2 ^ 32 /\ h_expiry h < 2 ^ 64.

Definition enc_header (h : header) : list N :=
  h_sender h ++ be_bytes 8 (h_nonce h) ++ be_bytes 8 (h_energy h) ++
  be_bytes 4 (h_payload_size h) ++ be_bytes 8 (h_expiry h).

(** [TransactionHeaderV1]: bitmap (u16, bit 0 = sponsor present), the v0 header, the sponsor. *)
Record header_v1 : Type := mkHeaderV1 { h1_base : header; h1_sponsor : option (list N) }.
Definition header_v1_wf (h : header_v1) : Prop :=
  header_wf (h1_base h) /\ match h1_sponsor h with Some s => length s = 32%nat | None => True end.
Definition enc_header_v1 (h : header_v1) : list N :=
  be_bytes 2 (match h1_sponsor h with Some _ => 1 | None => 0 end) ++ enc_header (h1_base h) ++
  match h1_sponsor h with Some s => s | None => [] end.

(** [TRANSACTION_HEADER_PREFIX_V1] *)
Definition prefix_v1 : list N := repeat 0 31 ++ [1].

(** [UpdateHeader] *)
Record update_header : Type := mkUpdateHeader {
  uh_seq : N; uh_effective : N; uh_timeout : N; uh_payload_size : N }.
Definition update_header_wf (h : update_header) : Prop :=
  uh_seq h < 2 ^ 64 /\ uh_effective h < 2 ^ 64 /\ uh_timeout h < 2 ^ 64 /\ uh_payload_size h < 2 ^ 32.
Definition enc_update_header (h : update_header) : list N :=
  be_bytes 8 (uh_seq h) ++ be_bytes 8 (uh_effective h) ++ be_bytes 8 (uh_timeout h) ++ be_bytes 4 (uh_payload_size h).

(** hash inputs *)
Definition preimage_v0 (h : header) (payload : list N) : list N := enc_header h ++ payload.
Definition preimage_v1 (h : header_v1) (payload : list N) : list N := prefix_v1 ++ enc_header_v1 h ++ payload.
Definition preimage_update (h : update_header) (payload : list N) : list N := enc_update_header h ++ payload.

(** signatures on the wire *)
Definition enc_signature (s : list N) : list N := be_bytes 2 (len s) ++ s.
Definition enc_cred_sigs (cs : amap (list N)) : list N :=
  [len cs mod 256] ++ flat_map (fun p => [fst p] ++ enc_signature (snd p)) cs.
Definition enc_tx_signature (sm : amap (amap (list N))) : list N :=
  [len sm mod 256] ++ flat_map (fun p => [fst p] ++ enc_cred_sigs (snd p)) sm.
Definition enc_tx_signatures_v1 (sender : amap (amap (list N))) (sponsor : option (amap (amap (list N)))) : list N :=
  enc_tx_signature sender ++ match sponsor with Some s => enc_tx_signature s | None => [0] end.
Definition enc_update_signatures (sigs : amap (list N)) : list N :=
  be_bytes 2 (len sigs) ++ flat_map (fun p => be_bytes 2 (fst p) ++ enc_signature (snd p)) sigs.

(** block items: tag 0 = account transaction, 2 = update instruction, 3 = account transaction v1 *)
Definition block_item_v0 (sm : amap (amap (list N))) (h : header) (payload : list N) : list N :=
  [0] ++ enc_tx_signature sm ++ enc_header h ++ payload.
Definition block_item_v1 (sender : amap (amap (list N))) (sponsor : option (amap (amap (list N))))
           (h : header_v1) (payload : list N) : list N :=
  [3] ++ enc_tx_signatures_v1 sender sponsor ++ enc_header_v1 h ++ payload.
Definition block_item_update (h : update_header) (payload : list N) (sigs : amap (list N)) : list N :=
  [2] ++ enc_update_header h ++ payload ++ enc_update_signatures sigs.

Section Hashes.
  Variable HASH : Type.
  Variable H : list N -> HASH.
  Definition sign_hash_v0 (h : header) (payload : list N) : HASH := H (preimage_v0 h payload).
  Definition sign_hash_v1 (h : header_v1) (payload : list N) : HASH := H (preimage_v1 h payload).
  Definition sign_hash_update (h : update_header) (payload : list N) : HASH := H (preimage_update h payload).
  Definition block_item_hash (bytes : list N) : HASH := H bytes.
End Hashes.

(** ---- builders ---- *)
(** [TransactionBuilder::new] + [construct]: the header a builder produces for an encoded payload
    and the energy it was given. *)
Definition construct_header (sender : list N) (nonce expiry : N) (payload : list N) (energy : N) : header :=
  mkHeader sender nonce energy (len payload) expiry.

(** [PreAccountTransaction::extend]: +2 energy for the bitmap, no sponsor. *)
Definition extend_header (h : header) : header_v1 :=
  mkHeaderV1 (mkHeader (h_sender h) (h_nonce h) (h_energy h + 2) (h_payload_size h) (h_expiry h)) None.

(** [PreAccountTransactionV1::add_sponsor]: +32 for the address and [A] per sponsor signature
    ([a_const] = [cost::A]); [None] = the error "a sponsor is already present". *)
Definition add_sponsor (a_const : N) (h : header_v1) (sponsor : list N) (num_sponsor_sigs : N) : option header_v1 :=
  match h1_sponsor h with
  | Some _ => None
  | None =>
      let b := h1_base h in
      Some (mkHeaderV1 (mkHeader (h_sender b) (h_nonce b) (h_energy b + (32 + a_const * num_sponsor_sigs))
                                 (h_payload_size b) (h_expiry b)) (Some sponsor))
  end.

(** Reading a transaction body back: the declared payload size delimits the payload
    ([get_encoded_payload(source, header.payload_size)] after the 60-byte header). *)
Definition split_body (h : header) (bytes_after_header : list N) : list N * list N :=
  (firstn (N.to_nat (h_payload_size h)) bytes_after_header, skipn (N.to_nat (h_payload_size h)) bytes_after_header).
