(** * Chain/ChainSchemasFull.v -- the hand-written sum types completed with the variants whose bodies are
    derive-generated types (credentials, encrypted transfers, Wasm modules, token payloads): the variant bodies
    are the terms regenerated from the Rust declarations (Gen/ChainSchemas.v). *)
From Coq Require Import NArith List Bool.
From CB Require Import Common.Codec Common.CodecProofs Chain.ChainSchemas Gen.ChainSchemas.
Import ListNotations.
Local Open Scope N_scope.

(** Payload: everything except InitContract / Update (tags 1, 2: contract and receive names have
    hand-written validity rules). *)
Definition payload_alts_full : list (N * schema) :=
  payload_alts ++
  [(0, g_WasmModule);
   (16, STuple [s_account_address; g_EncryptedAmountTransferData_ArCurve]);
   (18, g_SecToPubAmountTransferData_ArCurve);
   (20, STuple [SMap BE 1 SU8 g_CredentialDeploymentInfo_IpPairing_ArCurve_AttributeKind;
                SVec BE 1 (SOpaque 48 K_CRED_ID); s_threshold_u8]);
   (23, STuple [s_account_address; s_memo; g_EncryptedAmountTransferData_ArCurve]);
   (27, STuple [s_token_id; SBytes BE 4 4294967295])].
Definition s_payload_full := SSum payload_alts_full.

(** UpdatePayload: everything except ProtocolUpdate (tag 1). *)
Definition s_update_payload_full :=
  SSum (update_payload_alts_all ++ [(13, SFramed SU32 [] g_IpInfo_IpPairing); (24, g_CreatePlt)]).

(** BlockItem<EncodedPayload>: all four tags. *)
Definition s_block_item_full :=
  SSum [(0, s_account_transaction_encoded); (1, g_AccountCredentialMessage_IpPairing_ArCurve_AttributeKind);
        (2, s_update_instruction); (3, s_account_transaction_v1_encoded)].

Definition full_schema_table : list (N * schema) :=
  [(50, s_payload_full); (51, s_update_payload_full); (52, s_block_item_full)].

Lemma full_wf : forallb (fun p => schema_wf (snd p)) full_schema_table = true.
Proof. vm_compute. reflexivity. Qed.

Lemma full_laws : forall valid id s, In (id, s) full_schema_table ->
  RT valid s /\ Canon valid s /\ PFree valid s /\ AllocOK valid s.
Proof.
  intros valid id s Hin. apply schema_codec_laws.
  pose proof full_wf as H. rewrite forallb_forall in H. now apply (H (id, s)).
Qed.
