(** C06 - executable model of transaction / update authorisation.  Definitions only (no proofs).

    Transcribed from rust-src/concordium_base/src/transactions.rs
      [verify_data_signature], [verify_signature_transaction_sign_hash(_v1)],
      [AccountTransactionV1::verify_transaction_signature],
      [TransactionSigner for BTreeMap<..>], [TransactionSigner for AccountKeys],
      [From<&AccountKeys> for AccountAccessStructure]
    and rust-src/concordium_base/src/updates.rs
      [AccessStructure], [find_authorized_keys], [UpdateSigner::sign_update_hash].

    A [BTreeMap<u8, V>] / [BTreeMap<u16, V>] is an association list [list (N * V)] that the code
    only ever iterates in order and looks up by key; [lookup] returns the first binding, which for
    a well-formed map (keys strictly increasing, [wf_map]) is the only one.  Thresholds and lengths
    are [N]: the code compares [usize::from(u8::from(threshold)) > map.len()], which cannot wrap.

    Signature validity is abstract: [sig_valid pk data sig] stands for [VerifyKey::verify]
    (ed25519 via dalek, including the "signature has the wrong length" rejection). *)
From Coq Require Import NArith List Bool.
Import ListNotations.
Local Open Scope N_scope.

Definition amap (V : Type) : Type := list (N * V).

Fixpoint lookup {V : Type} (k : N) (m : amap V) : option V :=
  match m with
  | [] => None
  | (k', v) :: rest => if N.eqb k k' then Some v else lookup k rest
  end.

Definition len {A : Type} (l : list A) : N := N.of_nat (length l).

Definition keys_of {V : Type} (m : amap V) : list N := map fst m.

(** strictly increasing keys = the iteration order of a BTreeMap *)
Fixpoint increasing_from (lo : option N) (ks : list N) : bool :=
  match ks with
  | [] => true
  | k :: rest =>
      (match lo with None => true | Some l => N.ltb l k end) && increasing_from (Some k) rest
  end.
Definition wf_map {V : Type} (m : amap V) : bool := increasing_from None (keys_of m).

(** [BTreeMap::insert]: returns the new map and whether a binding was replaced. *)
Fixpoint insert {V : Type} (k : N) (v : V) (m : amap V) : amap V * bool :=
  match m with
  | [] => ([(k, v)], false)
  | (k', v') :: rest =>
      if N.ltb k k' then ((k, v) :: (k', v') :: rest, false)
      else if N.eqb k k' then ((k, v) :: rest, true)
      else let '(r, b) := insert k v rest in ((k', v') :: r, b)
  end.

Section Auth.
  Variables PK SIG DATA : Type.
  Variable sig_valid : PK -> DATA -> SIG -> bool.

  (** [CredentialPublicKeys] *)
  Record cred_keys : Type := mkCred { ck_keys : amap PK; ck_threshold : N }.
  (** [AccountAccessStructure] (and any [HasAccountAccessStructure]) *)
  Record access : Type := mkAccess { as_creds : amap cred_keys; as_threshold : N }.
  Definition cred_sigs : Type := amap SIG.
  (** [BTreeMap<CredentialIndex, BTreeMap<KeyIndex, Signature>>] *)
  Definition sig_map : Type := amap cred_sigs.

  (** inner loop of [verify_data_signature]: [for (&ki, sig) in cred_sigs] *)
  Fixpoint verify_keys (ck : cred_keys) (d : DATA) (cs : cred_sigs) : bool :=
    match cs with
    | [] => true
    | (ki, s) :: rest =>
        match lookup ki (ck_keys ck) with
        | Some pk => if sig_valid pk d s then verify_keys ck d rest else false
        | None => false
        end
    end.

  (** outer loop: [for (&ci, cred_sigs) in signatures.iter()] *)
  Fixpoint verify_creds (a : access) (d : DATA) (sm : sig_map) : bool :=
    match sm with
    | [] => true
    | (ci, cs) :: rest =>
        match lookup ci (as_creds a) with
        | Some ck =>
            if N.ltb (len cs) (ck_threshold ck) then false
            else if verify_keys ck d cs then verify_creds a d rest else false
        | None => false
        end
    end.

  (** [verify_data_signature] = [verify_signature_transaction_sign_hash] (which only unwraps) *)
  Definition verify_data_signature (a : access) (d : DATA) (sm : sig_map) : bool :=
    if N.ltb (len sm) (as_threshold a) then false else verify_creds a d sm.

  (** [verify_signature_transaction_sign_hash_v1]: both are evaluated, then [&&]. *)
  Definition verify_v1 (sender sponsor : access) (d : DATA) (ssig : sig_map) (psig : option sig_map) : bool :=
    let sender_ok := verify_data_signature sender d ssig in
    let sponsor_ok := match psig with None => true | Some sg => verify_data_signature sponsor d sg end in
    sender_ok && sponsor_ok.

  (** [AccountTransactionV1::verify_transaction_signature] (since /repo commit 12eb729ed): a transaction
      whose header names a sponsor ([header_sponsor <> None]) but that carries no sponsor signature is
      rejected before anything else; otherwise the decision is [verify_v1] on the sign hash [d].
      (A sponsor signature on a transaction whose header names NO sponsor is still checked against the
      sponsor access structure the caller passes.) *)
  Definition verify_tx_v1 (header_sponsor : option N) (sender sponsor : access) (d : DATA)
             (ssig : sig_map) (psig : option sig_map) : bool :=
    match header_sponsor, psig with
    | Some _, None => false
    | _, _ => verify_v1 sender sponsor d ssig psig
    end.

  (** the function as it was BEFORE commit 12eb729ed (no guard; the header's sponsor field took no part) -
      kept so that a regression is recognised: see [prefix_verify_tx_v1_refuted] *)
  Definition verify_tx_v1_prefix (header_sponsor : option N) (sender sponsor : access) (d : DATA)
             (ssig : sig_map) (psig : option sig_map) : bool :=
    verify_v1 sender sponsor d ssig psig.

  (** ---- signing ---- *)
  Variable SK : Type.
  Variable pub : SK -> PK.
  Variable sign : SK -> DATA -> SIG.

  (** [TransactionSigner for BTreeMap<CredentialIndex, BTreeMap<KeyIndex, KeyPair>>] *)
  Definition sign_cred (ks : amap SK) (d : DATA) : cred_sigs := map (fun p => (fst p, sign (snd p) d)) ks.
  Definition sign_map (ks : amap (amap SK)) (d : DATA) : sig_map := map (fun p => (fst p, sign_cred (snd p) d)) ks.

  (** [AccountKeys] / [CredentialData] *)
  Record cred_data : Type := mkCredData { cd_keys : amap SK; cd_threshold : N }.
  Record account_keys : Type := mkAccountKeys { ak_keys : amap cred_data; ak_threshold : N }.

  (** [TransactionSigner for AccountKeys]: the first [threshold] credentials, and of each the first
      [threshold] keys. *)
  Definition account_keys_sign (ak : account_keys) (d : DATA) : sig_map :=
    map (fun p => (fst p, sign_cred (firstn (N.to_nat (cd_threshold (snd p))) (cd_keys (snd p))) d))
        (firstn (N.to_nat (ak_threshold ak)) (ak_keys ak)).
  (** [ExactSizeTransactionSigner::num_keys] for [AccountKeys] (sums the thresholds, not the lengths). *)
  Definition account_keys_num_keys (ak : account_keys) : N :=
    fold_right N.add 0 (map (fun p => cd_threshold (snd p)) (firstn (N.to_nat (ak_threshold ak)) (ak_keys ak))).
  (** [num_keys] for the BTreeMap signer and [TransactionSignature::num_signatures]. *)
  Definition num_signatures {V : Type} (sm : amap (amap V)) : N :=
    fold_right N.add 0 (map (fun p => len (snd p)) sm).

  (** [From<&AccountKeys> for AccountAccessStructure] *)
  Definition access_of_keys (ak : account_keys) : access :=
    mkAccess (map (fun p => (fst p, mkCred (map (fun q => (fst q, pub (snd q))) (cd_keys (snd p)))
                                           (cd_threshold (snd p)))) (ak_keys ak))
             (ak_threshold ak).

  (** ---- chain updates (updates.rs) ---- *)
  (** [AccessStructure]: the authorised indices (a [BTreeSet<u16>]) and the threshold. *)
  Record access_structure : Type := mkAS { au_keys : list N; au_threshold : N }.

  Variable pk_eqb : PK -> PK -> bool.

  (** [keys.iter().position(|public| public == known_key)] *)
  Fixpoint position_from (i : N) (pk : PK) (keys : list PK) : option N :=
    match keys with
    | [] => None
    | k :: rest => if pk_eqb k pk then Some i else position_from (i + 1) pk rest
    end.
  Definition position (pk : PK) (keys : list PK) : option N := position_from 0 pk keys.

  Definition mem (i : N) (s : list N) : bool := existsb (N.eqb i) s.

  (** [find_authorized_keys]; the index is [i as u16]. *)
  Fixpoint find_authorized_from (keys : list PK) (acc : access_structure) (actual : list SK)
           (signer : amap SK) : option (amap SK) :=
    match actual with
    | [] => Some signer
    | kp :: rest =>
        match position (pub kp) keys with
        | Some i =>
            let idx := i mod 65536 in
            if mem idx (au_keys acc) then
              let '(signer', replaced) := insert idx kp signer in
              if replaced then None else find_authorized_from keys acc rest signer'
            else None
        | None => None
        end
    end.
  Definition find_authorized_keys (keys : list PK) (acc : access_structure) (actual : list SK) : option (amap SK) :=
    find_authorized_from keys acc actual [].

  (** [UpdateSigner for BTreeMap<UpdateKeysIndex, UpdateKeyPair>] *)
  Definition sign_update (signer : amap SK) (d : DATA) : amap SIG := sign_cred signer d.

  (** The acceptance rule for update instructions.  rust-src contains NO verifier for update
      instructions (only the signing side above); this is the reference rule of the node
      ([checkAuthorizedUpdate] / [checkEnoughKeys] in haskell-src/Concordium/Types/Updates.hs):
      every signing index is authorised, there are at least [threshold] of them, and every
      signature verifies under [keys[index]]. *)
  Fixpoint update_sigs_ok (keys : list PK) (acc : access_structure) (d : DATA) (sigs : amap SIG) : bool :=
    match sigs with
    | [] => true
    | (ki, s) :: rest =>
        if mem ki (au_keys acc) then
          match nth_error keys (N.to_nat ki) with
          | Some pk => if sig_valid pk d s then update_sigs_ok keys acc d rest else false
          | None => false
          end
        else false
    end.
  Definition update_verify (keys : list PK) (acc : access_structure) (d : DATA) (sigs : amap SIG) : bool :=
    if N.ltb (len sigs) (au_threshold acc) then false else update_sigs_ok keys acc d sigs.

  (** [Deserial for AccessStructure] / [HigherLevelAccessStructure]: [threshold <= number of keys]
      (and the threshold type is non-zero). *)
  Definition access_structure_wf (acc : access_structure) : bool :=
    (0 <? au_threshold acc) && (au_threshold acc <=? len (au_keys acc)).
End Auth.

Arguments mkCred {PK}.
Arguments ck_keys {PK}.
Arguments ck_threshold {PK}.
Arguments mkAccess {PK}.
Arguments as_creds {PK}.
Arguments as_threshold {PK}.
Arguments verify_keys {PK SIG DATA}.
Arguments verify_creds {PK SIG DATA}.
Arguments verify_data_signature {PK SIG DATA}.
Arguments verify_v1 {PK SIG DATA}.
Arguments verify_tx_v1 {PK SIG DATA}.
Arguments verify_tx_v1_prefix {PK SIG DATA}.
Arguments sign_cred {SIG DATA SK}.
Arguments sign_map {SIG DATA SK}.
Arguments mkCredData {SK}.
Arguments cd_keys {SK}.
Arguments cd_threshold {SK}.
Arguments mkAccountKeys {SK}.
Arguments ak_keys {SK}.
Arguments ak_threshold {SK}.
Arguments account_keys_sign {SIG DATA SK}.
Arguments account_keys_num_keys {SK}.
Arguments access_of_keys {PK SK}.
Arguments position_from {PK}.
Arguments position {PK}.
Arguments find_authorized_from {PK SK}.
Arguments find_authorized_keys {PK SK}.
Arguments sign_update {SIG DATA SK}.
Arguments update_sigs_ok {PK SIG DATA}.
Arguments update_verify {PK SIG DATA}.

(** Instance used by the correspondence run: a signature is represented by its validity bit (computed
    by the harness with the real [VerifyingKey::verify] under the key registered at that index), keys
    and data are trivial. *)
Definition verify_bits (a : access unit) (sm : amap (amap bool)) : bool :=
  verify_data_signature (fun _ _ (b : bool) => b) a tt sm.
Definition verify_v1_bits (sender sponsor : access unit) (ssig : amap (amap bool)) (psig : option (amap (amap bool))) : bool :=
  verify_v1 (fun _ _ (b : bool) => b) sender sponsor tt ssig psig.
Definition verify_tx_v1_bits (header_sponsor : bool) (sender sponsor : access unit) (ssig : amap (amap bool))
           (psig : option (amap (amap bool))) : bool :=
  verify_tx_v1 (fun _ _ (b : bool) => b) (if header_sponsor then Some 0 else None) sender sponsor tt ssig psig.
Definition update_verify_bits (nkeys : N) (acc : access_structure) (sigs : amap bool) : bool :=
  update_verify (fun _ _ (b : bool) => b) (repeat tt (N.to_nat nkeys)) acc tt sigs.
(** keys are represented by small identifiers ([N]); a key pair is its identifier *)
Definition find_authorized_ids (keys : list N) (acc : access_structure) (actual : list N) : option (amap N) :=
  find_authorized_keys (fun x : N => x) N.eqb keys acc actual.
