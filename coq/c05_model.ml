
(** val negb : bool -> bool **)

let negb = function
| true -> false
| false -> true

type nat =
| O
| S of nat

(** val fst : ('a1 * 'a2) -> 'a1 **)

let fst = function
| (x, _) -> x

(** val snd : ('a1 * 'a2) -> 'a2 **)

let snd = function
| (_, y) -> y

(** val length : 'a1 list -> nat **)

let rec length = function
| [] -> O
| _ :: l' -> S (length l')

(** val app : 'a1 list -> 'a1 list -> 'a1 list **)

let rec app l m =
  match l with
  | [] -> m
  | a :: l1 -> a :: (app l1 m)

type comparison =
| Eq
| Lt
| Gt

module Coq__1 = struct
 (** val add : nat -> nat -> nat **)
 let rec add n0 m =
   match n0 with
   | O -> m
   | S p -> S (add p m)
end
include Coq__1

type positive =
| XI of positive
| XO of positive
| XH

type n =
| N0
| Npos of positive

module Pos =
 struct
  type mask =
  | IsNul
  | IsPos of positive
  | IsNeg
 end

module Coq_Pos =
 struct
  (** val succ : positive -> positive **)

  let rec succ = function
  | XI p -> XO (succ p)
  | XO p -> XI p
  | XH -> XO XH

  (** val add : positive -> positive -> positive **)

  let rec add x y =
    match x with
    | XI p ->
      (match y with
       | XI q -> XO (add_carry p q)
       | XO q -> XI (add p q)
       | XH -> XO (succ p))
    | XO p ->
      (match y with
       | XI q -> XI (add p q)
       | XO q -> XO (add p q)
       | XH -> XI p)
    | XH -> (match y with
             | XI q -> XO (succ q)
             | XO q -> XI q
             | XH -> XO XH)

  (** val add_carry : positive -> positive -> positive **)

  and add_carry x y =
    match x with
    | XI p ->
      (match y with
       | XI q -> XI (add_carry p q)
       | XO q -> XO (add_carry p q)
       | XH -> XI (succ p))
    | XO p ->
      (match y with
       | XI q -> XO (add_carry p q)
       | XO q -> XI (add p q)
       | XH -> XO (succ p))
    | XH ->
      (match y with
       | XI q -> XI (succ q)
       | XO q -> XO (succ q)
       | XH -> XI XH)

  (** val pred_double : positive -> positive **)

  let rec pred_double = function
  | XI p -> XI (XO p)
  | XO p -> XI (pred_double p)
  | XH -> XH

  (** val pred_N : positive -> n **)

  let pred_N = function
  | XI p -> Npos (XO p)
  | XO p -> Npos (pred_double p)
  | XH -> N0

  type mask = Pos.mask =
  | IsNul
  | IsPos of positive
  | IsNeg

  (** val succ_double_mask : mask -> mask **)

  let succ_double_mask = function
  | IsNul -> IsPos XH
  | IsPos p -> IsPos (XI p)
  | IsNeg -> IsNeg

  (** val double_mask : mask -> mask **)

  let double_mask = function
  | IsPos p -> IsPos (XO p)
  | x0 -> x0

  (** val double_pred_mask : positive -> mask **)

  let double_pred_mask = function
  | XI p -> IsPos (XO (XO p))
  | XO p -> IsPos (XO (pred_double p))
  | XH -> IsNul

  (** val sub_mask : positive -> positive -> mask **)

  let rec sub_mask x y =
    match x with
    | XI p ->
      (match y with
       | XI q -> double_mask (sub_mask p q)
       | XO q -> succ_double_mask (sub_mask p q)
       | XH -> IsPos (XO p))
    | XO p ->
      (match y with
       | XI q -> succ_double_mask (sub_mask_carry p q)
       | XO q -> double_mask (sub_mask p q)
       | XH -> IsPos (pred_double p))
    | XH -> (match y with
             | XH -> IsNul
             | _ -> IsNeg)

  (** val sub_mask_carry : positive -> positive -> mask **)

  and sub_mask_carry x y =
    match x with
    | XI p ->
      (match y with
       | XI q -> succ_double_mask (sub_mask_carry p q)
       | XO q -> double_mask (sub_mask p q)
       | XH -> IsPos (pred_double p))
    | XO p ->
      (match y with
       | XI q -> double_mask (sub_mask_carry p q)
       | XO q -> succ_double_mask (sub_mask_carry p q)
       | XH -> double_pred_mask p)
    | XH -> IsNeg

  (** val sub : positive -> positive -> positive **)

  let sub x y =
    match sub_mask x y with
    | IsPos z -> z
    | _ -> XH

  (** val mul : positive -> positive -> positive **)

  let rec mul x y =
    match x with
    | XI p -> add y (XO (mul p y))
    | XO p -> XO (mul p y)
    | XH -> y

  (** val iter : ('a1 -> 'a1) -> 'a1 -> positive -> 'a1 **)

  let rec iter f x = function
  | XI n' -> f (iter f (iter f x n') n')
  | XO n' -> iter f (iter f x n') n'
  | XH -> f x

  (** val pow : positive -> positive -> positive **)

  let pow x =
    iter (mul x) XH

  (** val size_nat : positive -> nat **)

  let rec size_nat = function
  | XI p0 -> S (size_nat p0)
  | XO p0 -> S (size_nat p0)
  | XH -> S O

  (** val compare_cont : comparison -> positive -> positive -> comparison **)

  let rec compare_cont r x y =
    match x with
    | XI p ->
      (match y with
       | XI q -> compare_cont r p q
       | XO q -> compare_cont Gt p q
       | XH -> Gt)
    | XO p ->
      (match y with
       | XI q -> compare_cont Lt p q
       | XO q -> compare_cont r p q
       | XH -> Gt)
    | XH -> (match y with
             | XH -> r
             | _ -> Lt)

  (** val compare : positive -> positive -> comparison **)

  let compare =
    compare_cont Eq

  (** val eqb : positive -> positive -> bool **)

  let rec eqb p q =
    match p with
    | XI p0 -> (match q with
                | XI q0 -> eqb p0 q0
                | _ -> false)
    | XO p0 -> (match q with
                | XO q0 -> eqb p0 q0
                | _ -> false)
    | XH -> (match q with
             | XH -> true
             | _ -> false)

  (** val gcdn : nat -> positive -> positive -> positive **)

  let rec gcdn n0 a b =
    match n0 with
    | O -> XH
    | S n1 ->
      (match a with
       | XI a' ->
         (match b with
          | XI b' ->
            (match compare a' b' with
             | Eq -> a
             | Lt -> gcdn n1 (sub b' a') a
             | Gt -> gcdn n1 (sub a' b') b)
          | XO b0 -> gcdn n1 a b0
          | XH -> XH)
       | XO a0 ->
         (match b with
          | XI _ -> gcdn n1 a0 b
          | XO b0 -> XO (gcdn n1 a0 b0)
          | XH -> XH)
       | XH -> XH)

  (** val gcd : positive -> positive -> positive **)

  let gcd a b =
    gcdn (Coq__1.add (size_nat a) (size_nat b)) a b

  (** val coq_Nsucc_double : n -> n **)

  let coq_Nsucc_double = function
  | N0 -> Npos XH
  | Npos p -> Npos (XI p)

  (** val coq_Ndouble : n -> n **)

  let coq_Ndouble = function
  | N0 -> N0
  | Npos p -> Npos (XO p)

  (** val coq_lor : positive -> positive -> positive **)

  let rec coq_lor p q =
    match p with
    | XI p0 ->
      (match q with
       | XI q0 -> XI (coq_lor p0 q0)
       | XO q0 -> XI (coq_lor p0 q0)
       | XH -> p)
    | XO p0 ->
      (match q with
       | XI q0 -> XI (coq_lor p0 q0)
       | XO q0 -> XO (coq_lor p0 q0)
       | XH -> XI p0)
    | XH -> (match q with
             | XO q0 -> XI q0
             | _ -> q)

  (** val ldiff : positive -> positive -> n **)

  let rec ldiff p q =
    match p with
    | XI p0 ->
      (match q with
       | XI q0 -> coq_Ndouble (ldiff p0 q0)
       | XO q0 -> coq_Nsucc_double (ldiff p0 q0)
       | XH -> Npos (XO p0))
    | XO p0 ->
      (match q with
       | XI q0 -> coq_Ndouble (ldiff p0 q0)
       | XO q0 -> coq_Ndouble (ldiff p0 q0)
       | XH -> Npos p)
    | XH -> (match q with
             | XO _ -> Npos XH
             | _ -> N0)

  (** val testbit : positive -> n -> bool **)

  let rec testbit p n0 =
    match p with
    | XI p0 -> (match n0 with
                | N0 -> true
                | Npos n1 -> testbit p0 (pred_N n1))
    | XO p0 -> (match n0 with
                | N0 -> false
                | Npos n1 -> testbit p0 (pred_N n1))
    | XH -> (match n0 with
             | N0 -> true
             | Npos _ -> false)

  (** val iter_op : ('a1 -> 'a1 -> 'a1) -> positive -> 'a1 -> 'a1 **)

  let rec iter_op op p a =
    match p with
    | XI p0 -> op a (iter_op op p0 (op a a))
    | XO p0 -> iter_op op p0 (op a a)
    | XH -> a

  (** val to_nat : positive -> nat **)

  let to_nat x =
    iter_op Coq__1.add x (S O)

  (** val of_succ_nat : nat -> positive **)

  let rec of_succ_nat = function
  | O -> XH
  | S x -> succ (of_succ_nat x)
 end

module N =
 struct
  (** val succ_double : n -> n **)

  let succ_double = function
  | N0 -> Npos XH
  | Npos p -> Npos (XI p)

  (** val double : n -> n **)

  let double = function
  | N0 -> N0
  | Npos p -> Npos (XO p)

  (** val add : n -> n -> n **)

  let add n0 m =
    match n0 with
    | N0 -> m
    | Npos p -> (match m with
                 | N0 -> n0
                 | Npos q -> Npos (Coq_Pos.add p q))

  (** val sub : n -> n -> n **)

  let sub n0 m =
    match n0 with
    | N0 -> N0
    | Npos n' ->
      (match m with
       | N0 -> n0
       | Npos m' ->
         (match Coq_Pos.sub_mask n' m' with
          | Coq_Pos.IsPos p -> Npos p
          | _ -> N0))

  (** val mul : n -> n -> n **)

  let mul n0 m =
    match n0 with
    | N0 -> N0
    | Npos p -> (match m with
                 | N0 -> N0
                 | Npos q -> Npos (Coq_Pos.mul p q))

  (** val compare : n -> n -> comparison **)

  let compare n0 m =
    match n0 with
    | N0 -> (match m with
             | N0 -> Eq
             | Npos _ -> Lt)
    | Npos n' -> (match m with
                  | N0 -> Gt
                  | Npos m' -> Coq_Pos.compare n' m')

  (** val eqb : n -> n -> bool **)

  let eqb n0 m =
    match n0 with
    | N0 -> (match m with
             | N0 -> true
             | Npos _ -> false)
    | Npos p -> (match m with
                 | N0 -> false
                 | Npos q -> Coq_Pos.eqb p q)

  (** val leb : n -> n -> bool **)

  let leb x y =
    match compare x y with
    | Gt -> false
    | _ -> true

  (** val ltb : n -> n -> bool **)

  let ltb x y =
    match compare x y with
    | Lt -> true
    | _ -> false

  (** val min : n -> n -> n **)

  let min n0 n' =
    match compare n0 n' with
    | Gt -> n'
    | _ -> n0

  (** val max : n -> n -> n **)

  let max n0 n' =
    match compare n0 n' with
    | Gt -> n0
    | _ -> n'

  (** val pow : n -> n -> n **)

  let pow n0 = function
  | N0 -> Npos XH
  | Npos p0 -> (match n0 with
                | N0 -> N0
                | Npos q -> Npos (Coq_Pos.pow q p0))

  (** val pos_div_eucl : positive -> n -> n * n **)

  let rec pos_div_eucl a b =
    match a with
    | XI a' ->
      let (q, r) = pos_div_eucl a' b in
      let r' = succ_double r in
      if leb b r' then ((succ_double q), (sub r' b)) else ((double q), r')
    | XO a' ->
      let (q, r) = pos_div_eucl a' b in
      let r' = double r in
      if leb b r' then ((succ_double q), (sub r' b)) else ((double q), r')
    | XH ->
      (match b with
       | N0 -> (N0, (Npos XH))
       | Npos p -> (match p with
                    | XH -> ((Npos XH), N0)
                    | _ -> (N0, (Npos XH))))

  (** val div_eucl : n -> n -> n * n **)

  let div_eucl a b =
    match a with
    | N0 -> (N0, N0)
    | Npos na -> (match b with
                  | N0 -> (N0, a)
                  | Npos _ -> pos_div_eucl na b)

  (** val div : n -> n -> n **)

  let div a b =
    fst (div_eucl a b)

  (** val modulo : n -> n -> n **)

  let modulo a b =
    snd (div_eucl a b)

  (** val gcd : n -> n -> n **)

  let gcd a b =
    match a with
    | N0 -> b
    | Npos p -> (match b with
                 | N0 -> a
                 | Npos q -> Npos (Coq_Pos.gcd p q))

  (** val coq_lor : n -> n -> n **)

  let coq_lor n0 m =
    match n0 with
    | N0 -> m
    | Npos p -> (match m with
                 | N0 -> n0
                 | Npos q -> Npos (Coq_Pos.coq_lor p q))

  (** val ldiff : n -> n -> n **)

  let ldiff n0 m =
    match n0 with
    | N0 -> N0
    | Npos p -> (match m with
                 | N0 -> n0
                 | Npos q -> Coq_Pos.ldiff p q)

  (** val testbit : n -> n -> bool **)

  let testbit a n0 =
    match a with
    | N0 -> false
    | Npos p -> Coq_Pos.testbit p n0

  (** val to_nat : n -> nat **)

  let to_nat = function
  | N0 -> O
  | Npos p -> Coq_Pos.to_nat p

  (** val of_nat : nat -> n **)

  let of_nat = function
  | O -> N0
  | S n' -> Npos (Coq_Pos.of_succ_nat n')
 end

(** val nth_error : 'a1 list -> nat -> 'a1 option **)

let rec nth_error l = function
| O -> (match l with
        | [] -> None
        | x :: _ -> Some x)
| S n1 -> (match l with
           | [] -> None
           | _ :: l0 -> nth_error l0 n1)

(** val rev : 'a1 list -> 'a1 list **)

let rec rev = function
| [] -> []
| x :: l' -> app (rev l') (x :: [])

(** val concat : 'a1 list list -> 'a1 list **)

let rec concat = function
| [] -> []
| x :: l0 -> app x (concat l0)

(** val map : ('a1 -> 'a2) -> 'a1 list -> 'a2 list **)

let rec map f = function
| [] -> []
| a :: t -> (f a) :: (map f t)

(** val fold_right : ('a2 -> 'a1 -> 'a1) -> 'a1 -> 'a2 list -> 'a1 **)

let rec fold_right f a0 = function
| [] -> a0
| b :: t -> f b (fold_right f a0 t)

(** val existsb : ('a1 -> bool) -> 'a1 list -> bool **)

let rec existsb f = function
| [] -> false
| a :: l0 -> (||) (f a) (existsb f l0)

(** val forallb : ('a1 -> bool) -> 'a1 list -> bool **)

let rec forallb f = function
| [] -> true
| a :: l0 -> (&&) (f a) (forallb f l0)

(** val seq : nat -> nat -> nat list **)

let rec seq start = function
| O -> []
| S len1 -> start :: (seq (S start) len1)

type endian =
| BE
| LE

type gval =
| VNum of n
| VBytes of n list
| VList of gval list
| VTag of n * gval
| VNone
| VSome of gval

(** val lex_cmp : n list -> n list -> comparison **)

let rec lex_cmp xs ys =
  match xs with
  | [] -> (match ys with
           | [] -> Eq
           | _ :: _ -> Lt)
  | x :: xs' ->
    (match ys with
     | [] -> Gt
     | y :: ys' -> (match N.compare x y with
                    | Eq -> lex_cmp xs' ys'
                    | x0 -> x0))

(** val grank : gval -> n **)

let grank = function
| VNum _ -> N0
| VBytes _ -> Npos XH
| VList _ -> Npos (XO XH)
| VTag (_, _) -> Npos (XI XH)
| VNone -> Npos (XO (XO XH))
| VSome _ -> Npos (XI (XO XH))

(** val gcmp : gval -> gval -> comparison **)

let rec gcmp a b =
  match a with
  | VNum x ->
    (match b with
     | VNum y -> N.compare x y
     | _ -> N.compare (grank a) (grank b))
  | VBytes x ->
    (match b with
     | VBytes y -> lex_cmp x y
     | _ -> N.compare (grank a) (grank b))
  | VList xs ->
    (match b with
     | VList ys ->
       let rec go xs0 ys0 =
         match xs0 with
         | [] -> (match ys0 with
                  | [] -> Eq
                  | _ :: _ -> Lt)
         | x :: xs' ->
           (match ys0 with
            | [] -> Gt
            | y :: ys' -> (match gcmp x y with
                           | Eq -> go xs' ys'
                           | x0 -> x0))
       in go xs ys
     | _ -> N.compare (grank a) (grank b))
  | VTag (t, v) ->
    (match b with
     | VTag (u, w) -> (match N.compare t u with
                       | Eq -> gcmp v w
                       | x -> x)
     | _ -> N.compare (grank a) (grank b))
  | VNone -> (match b with
              | VNone -> Eq
              | _ -> N.compare (grank a) (grank b))
  | VSome v ->
    (match b with
     | VSome w -> gcmp v w
     | _ -> N.compare (grank a) (grank b))

(** val glt : gval -> gval -> bool **)

let glt a b =
  match gcmp a b with
  | Lt -> true
  | _ -> false

(** val strictly_sorted : gval list -> bool **)

let rec strictly_sorted = function
| [] -> true
| a :: rest ->
  (match rest with
   | [] -> true
   | b :: _ -> (&&) (glt a b) (strictly_sorted rest))

(** val key_of : gval -> gval **)

let key_of v = match v with
| VList vs -> (match vs with
               | [] -> v
               | k :: _ -> k)
| _ -> v

type pred =
| PLe of n
| PGe of n
| PLenLe of n
| PLenGe of n
| PSorted
| PSortedKeys
| PCoprime
| PField of nat * pred
| PAll of pred
| PAnd of pred * pred
| POpaque of n
| PFun of (gval -> bool)

type schema =
| SUInt of endian * nat
| STuple of schema list
| SSum of (n * schema) list
| SBitmap of endian * nat * n * (n option * schema) list
| SVec of endian * nat * schema
| SBytes of endian * nat * n
| SRaw of n
| SRefine of pred * schema
| SFramed of schema * nat list * schema
| SFramedRaw of schema * nat list * n

(** val sU8 : schema **)

let sU8 =
  SUInt (BE, (S O))

(** val sU16 : schema **)

let sU16 =
  SUInt (BE, (S (S O)))

(** val sU32 : schema **)

let sU32 =
  SUInt (BE, (S (S (S (S O)))))

(** val sU64 : schema **)

let sU64 =
  SUInt (BE, (S (S (S (S (S (S (S (S O)))))))))

(** val sUnit : schema **)

let sUnit =
  STuple []

(** val sBool : schema **)

let sBool =
  SRefine ((PLe (Npos XH)), sU8)

(** val sMap : endian -> nat -> schema -> schema -> schema **)

let sMap e w k v =
  SRefine (PSortedKeys, (SVec (e, w, (STuple (k :: (v :: []))))))

(** val sOpaque : n -> n -> schema **)

let sOpaque n0 kind =
  SRefine ((POpaque kind), (SRaw n0))

(** val sEnum : nat -> schema **)

let sEnum n0 =
  SSum (map (fun i -> ((N.of_nat i), sUnit)) (seq O n0))

(** val mAX_PREALLOC : n **)

let mAX_PREALLOC =
  Npos (XO (XO (XO (XO (XO (XO (XO (XO (XO (XO (XO (XO XH))))))))))))

(** val enc_le : nat -> n -> n list **)

let rec enc_le w n0 =
  match w with
  | O -> []
  | S w' ->
    (N.modulo n0 (Npos (XO (XO (XO (XO (XO (XO (XO (XO XH)))))))))) :: 
      (enc_le w' (N.div n0 (Npos (XO (XO (XO (XO (XO (XO (XO (XO XH)))))))))))

(** val dec_le : n list -> n **)

let rec dec_le = function
| [] -> N0
| b :: r ->
  N.add b (N.mul (Npos (XO (XO (XO (XO (XO (XO (XO (XO XH))))))))) (dec_le r))

(** val enc_uint : endian -> nat -> n -> n list **)

let enc_uint e w n0 =
  match e with
  | BE -> rev (enc_le w n0)
  | LE -> enc_le w n0

(** val take : nat -> n list -> (n list * n list) option **)

let rec take n0 bs =
  match n0 with
  | O -> Some ([], bs)
  | S n' ->
    (match bs with
     | [] -> None
     | b :: r ->
       (match take n' r with
        | Some p -> let (h, t) = p in Some ((b :: h), t)
        | None -> None))

(** val dec_uint : endian -> nat -> n list -> (n * n list) option **)

let dec_uint e w bs =
  match take w bs with
  | Some p ->
    let (h, r) = p in
    Some ((match e with
           | BE -> dec_le (rev h)
           | LE -> dec_le h), r)
  | None -> None

(** val pow256 : nat -> n **)

let pow256 w =
  N.pow (Npos (XO XH)) (N.mul (Npos (XO (XO (XO XH)))) (N.of_nat w))

(** val len : 'a1 list -> n **)

let len l =
  N.of_nat (length l)

(** val byte_ok : n -> bool **)

let byte_ok b =
  N.ltb b (Npos (XO (XO (XO (XO (XO (XO (XO (XO XH)))))))))

(** val bytes_ok : n list -> bool **)

let bytes_ok bs =
  forallb byte_ok bs

(** val take_n : n -> n list -> (n list * n list) option **)

let take_n n0 bs =
  if N.leb n0 (len bs) then take (N.to_nat n0) bs else None

(** val alt_apply :
    (schema -> 'a1) -> 'a1 -> n -> (n * schema) list -> 'a1 **)

let rec alt_apply f d t = function
| [] -> d
| p :: rest ->
  let (t', s) = p in if N.eqb t t' then f s else alt_apply f d t rest

(** val enc_tuple :
    (schema -> gval -> n list) -> schema list -> gval list -> n list **)

let rec enc_tuple f ss vs =
  match ss with
  | [] -> []
  | s :: ss' ->
    (match vs with
     | [] -> []
     | v :: vs' -> app (f s v) (enc_tuple f ss' vs'))

(** val wt_tuple :
    (schema -> gval -> bool) -> schema list -> gval list -> bool **)

let rec wt_tuple f ss vs =
  match ss with
  | [] -> (match vs with
           | [] -> true
           | _ :: _ -> false)
  | s :: ss' ->
    (match vs with
     | [] -> false
     | v :: vs' -> (&&) (f s v) (wt_tuple f ss' vs'))

(** val dec_tuple :
    (schema -> n list -> (gval * n list) option) -> schema list -> n list ->
    (gval list * n list) option **)

let rec dec_tuple f ss bs =
  match ss with
  | [] -> Some ([], bs)
  | s :: ss' ->
    (match f s bs with
     | Some p ->
       let (v, r) = p in
       (match dec_tuple f ss' r with
        | Some p0 -> let (vs, r') = p0 in Some ((v :: vs), r')
        | None -> None)
     | None -> None)

(** val enc_fields :
    (schema -> gval -> n list) -> (n option * schema) list -> gval list -> n
    list **)

let rec enc_fields f fs vs =
  match fs with
  | [] -> []
  | p :: fs' ->
    let (o, s) = p in
    (match o with
     | Some _ ->
       (match vs with
        | [] -> []
        | g :: vs' ->
          (match g with
           | VSome v -> app (f s v) (enc_fields f fs' vs')
           | _ -> enc_fields f fs' vs'))
     | None ->
       (match vs with
        | [] -> []
        | v :: vs' -> app (f s v) (enc_fields f fs' vs')))

(** val wt_fields :
    (schema -> gval -> bool) -> (n option * schema) list -> gval list -> bool **)

let rec wt_fields f fs vs =
  match fs with
  | [] -> (match vs with
           | [] -> true
           | _ :: _ -> false)
  | p :: fs' ->
    let (o, s) = p in
    (match o with
     | Some _ ->
       (match vs with
        | [] -> false
        | g :: vs' ->
          (match g with
           | VNone -> wt_fields f fs' vs'
           | VSome v -> (&&) (f s v) (wt_fields f fs' vs')
           | _ -> false))
     | None ->
       (match vs with
        | [] -> false
        | v :: vs' -> (&&) (f s v) (wt_fields f fs' vs')))

(** val dec_fields :
    (schema -> n list -> (gval * n list) option) -> n -> (n option * schema)
    list -> n list -> (gval list * n list) option **)

let rec dec_fields f b fs bs =
  match fs with
  | [] -> Some ([], bs)
  | p :: fs' ->
    let (oi, s) = p in
    let present = match oi with
                  | Some i -> N.testbit b i
                  | None -> true in
    if present
    then (match f s bs with
          | Some p0 ->
            let (v, r) = p0 in
            (match dec_fields f b fs' r with
             | Some p1 ->
               let (vs, r') = p1 in
               Some (((match oi with
                       | Some _ -> VSome v
                       | None -> v) :: vs), r')
             | None -> None)
          | None -> None)
    else (match dec_fields f b fs' bs with
          | Some p0 -> let (vs, r') = p0 in Some ((VNone :: vs), r')
          | None -> None)

(** val bitmap_of : n option list -> gval list -> n **)

let rec bitmap_of bits vs =
  match bits with
  | [] -> N0
  | o :: bits' ->
    (match o with
     | Some i ->
       (match vs with
        | [] -> N0
        | g :: vs' ->
          (match g with
           | VSome _ ->
             N.coq_lor (N.pow (Npos (XO XH)) i) (bitmap_of bits' vs')
           | _ -> bitmap_of bits' vs'))
     | None -> (match vs with
                | [] -> N0
                | _ :: vs' -> bitmap_of bits' vs'))

(** val all_bits : n option list -> n **)

let rec all_bits = function
| [] -> N0
| o :: bits' ->
  (match o with
   | Some i -> N.coq_lor (N.pow (Npos (XO XH)) i) (all_bits bits')
   | None -> all_bits bits')

(** val dec_n :
    (n list -> (gval * n list) option) -> nat -> n list -> (gval list * n
    list) option **)

let rec dec_n f k bs =
  match k with
  | O -> Some ([], bs)
  | S k' ->
    (match f bs with
     | Some p ->
       let (v, r) = p in
       (match dec_n f k' r with
        | Some p0 -> let (vs, r') = p0 in Some ((v :: vs), r')
        | None -> None)
     | None -> None)

(** val get_num : nat list -> gval -> n option **)

let rec get_num path v =
  match path with
  | [] -> (match v with
           | VNum n0 -> Some n0
           | _ -> None)
  | i :: path' ->
    (match v with
     | VList vs ->
       (match nth_error vs i with
        | Some v' -> get_num path' v'
        | None -> None)
     | _ -> None)

(** val glen : gval -> n option **)

let glen = function
| VBytes bs -> Some (len bs)
| VList vs -> Some (len vs)
| _ -> None

(** val eval_pred : (n -> n list -> bool) -> pred -> gval -> bool **)

let rec eval_pred valid p v =
  match p with
  | PLe m -> (match v with
              | VNum n0 -> N.leb n0 m
              | _ -> false)
  | PGe m -> (match v with
              | VNum n0 -> N.leb m n0
              | _ -> false)
  | PLenLe m -> (match glen v with
                 | Some l -> N.leb l m
                 | None -> false)
  | PLenGe m -> (match glen v with
                 | Some l -> N.leb m l
                 | None -> false)
  | PSorted -> (match v with
                | VList vs -> strictly_sorted vs
                | _ -> false)
  | PSortedKeys ->
    (match v with
     | VList vs -> strictly_sorted (map key_of vs)
     | _ -> false)
  | PCoprime ->
    (match v with
     | VList vs ->
       (match vs with
        | [] -> false
        | g :: l ->
          (match g with
           | VNum a ->
             (match l with
              | [] -> false
              | g0 :: l0 ->
                (match g0 with
                 | VNum b ->
                   (match l0 with
                    | [] ->
                      (&&) (negb (N.eqb b N0)) (N.eqb (N.gcd a b) (Npos XH))
                    | _ :: _ -> false)
                 | _ -> false))
           | _ -> false))
     | _ -> false)
  | PField (i, q) ->
    (match v with
     | VList vs ->
       (match nth_error vs i with
        | Some x -> eval_pred valid q x
        | None -> false)
     | _ -> false)
  | PAll q ->
    (match v with
     | VList vs -> forallb (eval_pred valid q) vs
     | _ -> false)
  | PAnd (q, r) -> (&&) (eval_pred valid q v) (eval_pred valid r v)
  | POpaque k -> (match v with
                  | VBytes bs -> valid k bs
                  | _ -> false)
  | PFun f -> f v

(** val enc : schema -> gval -> n list **)

let rec enc s v =
  match s with
  | SUInt (e, w) -> (match v with
                     | VNum n0 -> enc_uint e w n0
                     | _ -> [])
  | STuple ss -> (match v with
                  | VList vs -> enc_tuple enc ss vs
                  | _ -> [])
  | SSum alts ->
    (match v with
     | VTag (t, v') -> t :: (alt_apply (fun s' -> enc s' v') [] t alts)
     | _ -> [])
  | SBitmap (e, w, _, fs) ->
    (match v with
     | VList vs ->
       app (enc_uint e w (bitmap_of (map fst fs) vs)) (enc_fields enc fs vs)
     | _ -> [])
  | SVec (e, w, s') ->
    (match v with
     | VList vs -> app (enc_uint e w (len vs)) (concat (map (enc s') vs))
     | _ -> [])
  | SBytes (e, w, _) ->
    (match v with
     | VBytes bs -> app (enc_uint e w (len bs)) bs
     | _ -> [])
  | SRaw _ -> (match v with
               | VBytes bs -> bs
               | _ -> [])
  | SRefine (_, s') -> enc s' v
  | SFramed (h, _, b) ->
    (match v with
     | VList vs ->
       (match vs with
        | [] -> []
        | hv :: l ->
          (match l with
           | [] -> []
           | bv :: l0 ->
             (match l0 with
              | [] -> app (enc h hv) (enc b bv)
              | _ :: _ -> [])))
     | _ -> [])
  | SFramedRaw (h, _, _) ->
    (match v with
     | VList vs ->
       (match vs with
        | [] -> []
        | hv :: l ->
          (match l with
           | [] -> []
           | g :: l0 ->
             (match g with
              | VBytes bs ->
                (match l0 with
                 | [] -> app (enc h hv) bs
                 | _ :: _ -> [])
              | _ -> [])))
     | _ -> [])

(** val wt : (n -> n list -> bool) -> schema -> gval -> bool **)

let rec wt valid s v =
  match s with
  | SUInt (_, w) -> (match v with
                     | VNum n0 -> N.ltb n0 (pow256 w)
                     | _ -> false)
  | STuple ss ->
    (match v with
     | VList vs -> wt_tuple (wt valid) ss vs
     | _ -> false)
  | SSum alts ->
    (match v with
     | VTag (t, v') -> alt_apply (fun s' -> wt valid s' v') false t alts
     | _ -> false)
  | SBitmap (_, _, _, fs) ->
    (match v with
     | VList vs -> wt_fields (wt valid) fs vs
     | _ -> false)
  | SVec (_, w, s') ->
    (match v with
     | VList vs -> (&&) (N.ltb (len vs) (pow256 w)) (forallb (wt valid s') vs)
     | _ -> false)
  | SBytes (_, w, max0) ->
    (match v with
     | VBytes bs ->
       (&&) ((&&) (N.ltb (len bs) (pow256 w)) (N.leb (len bs) max0))
         (bytes_ok bs)
     | _ -> false)
  | SRaw n0 ->
    (match v with
     | VBytes bs -> (&&) (N.eqb (len bs) n0) (bytes_ok bs)
     | _ -> false)
  | SRefine (p, s') -> (&&) (wt valid s' v) (eval_pred valid p v)
  | SFramed (h, path, b) ->
    (match v with
     | VList vs ->
       (match vs with
        | [] -> false
        | hv :: l ->
          (match l with
           | [] -> false
           | bv :: l0 ->
             (match l0 with
              | [] ->
                (&&) ((&&) (wt valid h hv) (wt valid b bv))
                  (match get_num path hv with
                   | Some n0 -> N.eqb n0 (len (enc b bv))
                   | None -> false)
              | _ :: _ -> false)))
     | _ -> false)
  | SFramedRaw (h, path, max0) ->
    (match v with
     | VList vs ->
       (match vs with
        | [] -> false
        | hv :: l ->
          (match l with
           | [] -> false
           | g :: l0 ->
             (match g with
              | VBytes bs ->
                (match l0 with
                 | [] ->
                   (&&)
                     ((&&) ((&&) (wt valid h hv) (bytes_ok bs))
                       (N.leb (len bs) max0))
                     (match get_num path hv with
                      | Some n0 -> N.eqb n0 (len bs)
                      | None -> false)
                 | _ :: _ -> false)
              | _ -> false)))
     | _ -> false)

(** val dec :
    (n -> n list -> bool) -> schema -> n list -> (gval * n list) option **)

let rec dec valid s bs =
  match s with
  | SUInt (e, w) ->
    (match dec_uint e w bs with
     | Some p -> let (n0, r) = p in Some ((VNum n0), r)
     | None -> None)
  | STuple ss ->
    (match dec_tuple (dec valid) ss bs with
     | Some p -> let (vs, r) = p in Some ((VList vs), r)
     | None -> None)
  | SSum alts ->
    (match bs with
     | [] -> None
     | t :: r ->
       alt_apply (fun s' ->
         match dec valid s' r with
         | Some p -> let (v, r') = p in Some ((VTag (t, v)), r')
         | None -> None) None t alts)
  | SBitmap (e, w, mask0, fs) ->
    (match dec_uint e w bs with
     | Some p ->
       let (b, r) = p in
       if N.eqb (N.ldiff b mask0) N0
       then (match dec_fields (dec valid) b fs r with
             | Some p0 -> let (vs, r') = p0 in Some ((VList vs), r')
             | None -> None)
       else None
     | None -> None)
  | SVec (e, w, s') ->
    (match dec_uint e w bs with
     | Some p ->
       let (n0, r) = p in
       if N.leb n0 (len r)
       then (match dec_n (dec valid s') (N.to_nat n0) r with
             | Some p0 -> let (vs, r') = p0 in Some ((VList vs), r')
             | None -> None)
       else None
     | None -> None)
  | SBytes (e, w, max0) ->
    (match dec_uint e w bs with
     | Some p ->
       let (n0, r) = p in
       if N.leb n0 max0
       then (match take_n n0 r with
             | Some p0 -> let (h, t) = p0 in Some ((VBytes h), t)
             | None -> None)
       else None
     | None -> None)
  | SRaw n0 ->
    (match take_n n0 bs with
     | Some p -> let (h, t) = p in Some ((VBytes h), t)
     | None -> None)
  | SRefine (p, s') ->
    (match dec valid s' bs with
     | Some p0 ->
       let (v, r) = p0 in if eval_pred valid p v then Some (v, r) else None
     | None -> None)
  | SFramed (h, path, b) ->
    (match dec valid h bs with
     | Some p ->
       let (hv, r) = p in
       (match get_num path hv with
        | Some n0 ->
          (match take_n n0 r with
           | Some p0 ->
             let (pb, r') = p0 in
             (match dec valid b pb with
              | Some p1 ->
                let (bv, l) = p1 in
                (match l with
                 | [] -> Some ((VList (hv :: (bv :: []))), r')
                 | _ :: _ -> None)
              | None -> None)
           | None -> None)
        | None -> None)
     | None -> None)
  | SFramedRaw (h, path, max0) ->
    (match dec valid h bs with
     | Some p ->
       let (hv, r) = p in
       (match get_num path hv with
        | Some n0 ->
          if N.leb n0 max0
          then (match take_n n0 r with
                | Some p0 ->
                  let (pb, r') = p0 in
                  Some ((VList (hv :: ((VBytes pb) :: []))), r')
                | None -> None)
          else None
        | None -> None)
     | None -> None)

(** val alloc_tuple :
    (n -> n list -> bool) -> (schema -> n list -> n) -> schema list -> n list
    -> n **)

let rec alloc_tuple valid fa ss bs =
  match ss with
  | [] -> N0
  | s :: ss' ->
    N.add (fa s bs)
      (match dec valid s bs with
       | Some p -> let (_, r) = p in alloc_tuple valid fa ss' r
       | None -> N0)

(** val alloc_fields :
    (n -> n list -> bool) -> (schema -> n list -> n) -> n -> (n
    option * schema) list -> n list -> n **)

let rec alloc_fields valid fa b fs bs =
  match fs with
  | [] -> N0
  | p :: fs' ->
    let (oi, s) = p in
    let present = match oi with
                  | Some i -> N.testbit b i
                  | None -> true in
    if present
    then N.add (fa s bs)
           (match dec valid s bs with
            | Some p0 -> let (_, r) = p0 in alloc_fields valid fa b fs' r
            | None -> N0)
    else alloc_fields valid fa b fs' bs

(** val alloc_n :
    (n list -> n) -> (n list -> (gval * n list) option) -> nat -> n list -> n **)

let rec alloc_n fa fd k bs =
  match k with
  | O -> N0
  | S k' ->
    N.add (fa bs)
      (match fd bs with
       | Some p -> let (_, r) = p in alloc_n fa fd k' r
       | None -> N0)

(** val alloc : (n -> n list -> bool) -> schema -> n list -> n **)

let rec alloc valid s bs =
  match s with
  | STuple ss -> alloc_tuple valid (alloc valid) ss bs
  | SSum alts ->
    (match bs with
     | [] -> N0
     | t :: r -> alt_apply (fun s' -> alloc valid s' r) N0 t alts)
  | SBitmap (e, w, mask0, fs) ->
    (match dec_uint e w bs with
     | Some p ->
       let (b, r) = p in
       if N.eqb (N.ldiff b mask0) N0
       then alloc_fields valid (alloc valid) b fs r
       else N0
     | None -> N0)
  | SVec (e, w, s') ->
    (match dec_uint e w bs with
     | Some p ->
       let (n0, r) = p in
       N.add (N.min n0 mAX_PREALLOC)
         (alloc_n (alloc valid s') (dec valid s')
           (N.to_nat (N.min n0 (len r))) r)
     | None -> N0)
  | SBytes (e, w, max0) ->
    (match dec_uint e w bs with
     | Some p -> let (n0, _) = p in if N.leb n0 max0 then n0 else N0
     | None -> N0)
  | SRefine (_, s') -> alloc valid s' bs
  | SFramed (h, path, b) ->
    N.add (alloc valid h bs)
      (match dec valid h bs with
       | Some p ->
         let (hv, r) = p in
         (match get_num path hv with
          | Some n0 ->
            (match take_n n0 r with
             | Some p0 -> let (pb, _) = p0 in alloc valid b pb
             | None -> N0)
          | None -> N0)
       | None -> N0)
  | SFramedRaw (h, path, max0) ->
    N.add (alloc valid h bs)
      (match dec valid h bs with
       | Some p ->
         let (hv, _) = p in
         (match get_num path hv with
          | Some n0 -> if N.leb n0 max0 then n0 else N0
          | None -> N0)
       | None -> N0)
  | _ -> N0

(** val used : (n -> n list -> bool) -> schema -> n list -> n **)

let used valid s bs =
  match dec valid s bs with
  | Some p -> let (_, r) = p in N.sub (len bs) (len r)
  | None -> len bs

(** val min_size : schema -> n **)

let rec min_size = function
| SUInt (_, w) -> N.of_nat w
| STuple ss ->
  let rec go = function
  | [] -> N0
  | s0 :: ss' -> N.add (min_size s0) (go ss')
  in go ss
| SSum _ -> Npos XH
| SBitmap (_, w, _, _) -> N.of_nat w
| SVec (_, w, _) -> N.of_nat w
| SBytes (_, w, _) -> N.of_nat w
| SRaw n0 -> n0
| SRefine (_, s') -> min_size s'
| SFramed (h, _, _) -> min_size h
| SFramedRaw (h, _, _) -> min_size h

(** val cap : schema -> n **)

let rec cap = function
| STuple ss ->
  let rec go = function
  | [] -> N0
  | s0 :: ss' -> N.max (cap s0) (go ss')
  in go ss
| SSum alts ->
  let rec go = function
  | [] -> N0
  | p :: r -> let (_, s0) = p in N.max (cap s0) (go r)
  in go alts
| SBitmap (_, _, _, fs) ->
  let rec go = function
  | [] -> N0
  | p :: r -> let (_, s0) = p in N.max (cap s0) (go r)
  in go fs
| SVec (_, _, s') -> N.max mAX_PREALLOC (cap s')
| SBytes (_, _, max0) -> max0
| SRefine (_, s') -> cap s'
| SFramed (h, _, b) -> N.max (cap h) (cap b)
| SFramedRaw (h, _, max0) -> N.max (cap h) max0
| _ -> N0

(** val nodupb : n list -> bool **)

let rec nodupb = function
| [] -> true
| x :: r -> (&&) (negb (existsb (N.eqb x) r)) (nodupb r)

(** val opt_bits : n option list -> n list **)

let rec opt_bits = function
| [] -> []
| o :: r -> (match o with
             | Some i -> i :: (opt_bits r)
             | None -> opt_bits r)

(** val schema_wf : schema -> bool **)

let rec schema_wf = function
| STuple ss -> forallb schema_wf ss
| SSum alts ->
  (&&)
    ((&&)
      (forallb (fun a ->
        N.ltb (fst a) (Npos (XO (XO (XO (XO (XO (XO (XO (XO XH)))))))))) alts)
      (nodupb (map fst alts)))
    (let rec go = function
     | [] -> true
     | p :: r -> let (_, s0) = p in (&&) (schema_wf s0) (go r)
     in go alts)
| SBitmap (_, w, mask0, fs) ->
  (&&)
    ((&&)
      ((&&)
        ((&&) (N.leb (Npos XH) (N.of_nat w)) (nodupb (opt_bits (map fst fs))))
        (forallb (fun i ->
          N.ltb i (N.mul (Npos (XO (XO (XO XH)))) (N.of_nat w)))
          (opt_bits (map fst fs)))) (N.eqb mask0 (all_bits (map fst fs))))
    (let rec go = function
     | [] -> true
     | p :: r -> let (_, s0) = p in (&&) (schema_wf s0) (go r)
     in go fs)
| SVec (_, w, s') ->
  (&&) ((&&) (N.leb (Npos XH) (N.of_nat w)) (N.leb (Npos XH) (min_size s')))
    (schema_wf s')
| SBytes (_, w, _) -> N.leb (Npos XH) (N.of_nat w)
| SRefine (_, s') -> schema_wf s'
| SFramed (h, _, b) -> (&&) (schema_wf h) (schema_wf b)
| SFramedRaw (h, _, _) ->
  (&&) ((&&) (schema_wf h) (N.eqb (cap h) N0)) (N.leb (Npos XH) (min_size h))
| _ -> true

(** val k_ED25519_PK : n **)

let k_ED25519_PK =
  Npos XH

(** val k_VRF_PK : n **)

let k_VRF_PK =
  Npos (XO XH)

(** val k_BLS_PK : n **)

let k_BLS_PK =
  Npos (XI XH)

(** val k_DLOG_ED : n **)

let k_DLOG_ED =
  Npos (XO (XO XH))

(** val k_BLS_PROOF : n **)

let k_BLS_PROOF =
  Npos (XI (XO XH))

(** val k_UTF8 : n **)

let k_UTF8 =
  Npos (XO (XI XH))

(** val k_CRED_ID : n **)

let k_CRED_ID =
  Npos (XI (XI XH))

(** val mAX_WASM_MODULE_SIZE : n **)

let mAX_WASM_MODULE_SIZE =
  N.mul (Npos (XO (XO (XO XH)))) (Npos (XO (XO (XO (XO (XO (XO (XO (XO (XO
    (XO (XO (XO (XO (XO (XO (XO XH)))))))))))))))))

(** val mAX_PAYLOAD_SIZE : n **)

let mAX_PAYLOAD_SIZE =
  N.add (N.add (N.add mAX_WASM_MODULE_SIZE (Npos XH)) (Npos (XO (XO XH))))
    (Npos (XO (XO XH)))

(** val mAX_MEMO_SIZE : n **)

let mAX_MEMO_SIZE =
  Npos (XO (XO (XO (XO (XO (XO (XO (XO XH))))))))

(** val mAX_REGISTERED_DATA_SIZE : n **)

let mAX_REGISTERED_DATA_SIZE =
  Npos (XO (XO (XO (XO (XO (XO (XO (XO XH))))))))

(** val mAX_URL_TEXT_LENGTH : n **)

let mAX_URL_TEXT_LENGTH =
  Npos (XO (XO (XO (XO (XO (XO (XO (XO (XO (XO (XO XH)))))))))))

(** val s_amount : schema **)

let s_amount =
  sU64

(** val s_account_address : schema **)

let s_account_address =
  SRaw (Npos (XO (XO (XO (XO (XO XH))))))

(** val s_contract_address : schema **)

let s_contract_address =
  STuple (sU64 :: (sU64 :: []))

(** val s_address : schema **)

let s_address =
  SSum ((N0, s_account_address) :: (((Npos XH), s_contract_address) :: []))

(** val s_memo : schema **)

let s_memo =
  SBytes (BE, (S (S O)), mAX_MEMO_SIZE)

(** val s_registered_data : schema **)

let s_registered_data =
  SBytes (BE, (S (S O)), mAX_REGISTERED_DATA_SIZE)

(** val s_ratio : schema **)

let s_ratio =
  SRefine (PCoprime, (STuple (sU64 :: (sU64 :: []))))

(** val s_exchange_rate : schema **)

let s_exchange_rate =
  SRefine ((PAnd ((PField (O, (PGe (Npos XH)))), PCoprime)), (STuple
    (sU64 :: (sU64 :: []))))

(** val s_num_ratio : schema **)

let s_num_ratio =
  SRefine ((PField ((S O), (PGe (Npos XH)))), (STuple (sU64 :: (sU64 :: []))))

(** val s_payload_size : schema **)

let s_payload_size =
  SRefine ((PLe mAX_PAYLOAD_SIZE), sU32)

(** val s_signature : schema **)

let s_signature =
  SBytes (BE, (S (S O)), (Npos (XI (XI (XI (XI (XI (XI (XI (XI (XI (XI (XI
    (XI (XI (XI (XI XH)))))))))))))))))

(** val s_timestamp : schema **)

let s_timestamp =
  sU64

(** val s_transaction_time : schema **)

let s_transaction_time =
  sU64

(** val s_threshold_u8 : schema **)

let s_threshold_u8 =
  SRefine ((PGe (Npos XH)), sU8)

(** val s_update_keys_threshold : schema **)

let s_update_keys_threshold =
  SRefine ((PGe (Npos XH)), sU16)

(** val s_amount_fraction : schema **)

let s_amount_fraction =
  SRefine ((PLe (Npos (XO (XO (XO (XO (XO (XI (XO (XI (XO (XI (XI (XO (XO (XO
    (XO (XI XH)))))))))))))))))), sU32)

(** val s_open_status : schema **)

let s_open_status =
  sEnum (S (S (S O)))

(** val s_delegation_target : schema **)

let s_delegation_target =
  SSum ((N0, sUnit) :: (((Npos XH), sU64) :: []))

(** val s_url_text : schema **)

let s_url_text =
  SRefine ((POpaque k_UTF8), (SBytes (BE, (S (S O)), mAX_URL_TEXT_LENGTH)))

(** val s_mint_rate : schema **)

let s_mint_rate =
  STuple (sU32 :: (sU8 :: []))

(** val s_leverage_factor : schema **)

let s_leverage_factor =
  SRefine ((PAnd (PCoprime, (PFun (fun v ->
    match v with
    | VList vs ->
      (match vs with
       | [] -> false
       | g :: l ->
         (match g with
          | VNum a ->
            (match l with
             | [] -> false
             | g0 :: l0 ->
               (match g0 with
                | VNum b -> (match l0 with
                             | [] -> N.leb b a
                             | _ :: _ -> false)
                | _ -> false))
          | _ -> false))
    | _ -> false)))), (STuple (sU64 :: (sU64 :: []))))

(** val s_inclusive_range_fraction : schema **)

let s_inclusive_range_fraction =
  SRefine ((PFun (fun v ->
    match v with
    | VList vs ->
      (match vs with
       | [] -> false
       | g :: l ->
         (match g with
          | VNum a ->
            (match l with
             | [] -> false
             | g0 :: l0 ->
               (match g0 with
                | VNum b -> (match l0 with
                             | [] -> N.leb a b
                             | _ :: _ -> false)
                | _ -> false))
          | _ -> false))
    | _ -> false)), (STuple (s_amount_fraction :: (s_amount_fraction :: []))))

(** val s_transaction_header : schema **)

let s_transaction_header =
  STuple
    (s_account_address :: (sU64 :: (sU64 :: (s_payload_size :: (s_transaction_time :: [])))))

(** val header_size_path : nat list **)

let header_size_path =
  (S (S (S O))) :: []

(** val s_transaction_header_v1 : schema **)

let s_transaction_header_v1 =
  SBitmap (BE, (S (S O)), (Npos XH), ((None, s_transaction_header) :: (((Some
    N0), s_account_address) :: [])))

(** val s_sig_map_inner : schema **)

let s_sig_map_inner =
  SRefine ((PAnd ((PLenGe (Npos XH)), PSortedKeys)), (SVec (BE, (S O),
    (STuple (sU8 :: (s_signature :: []))))))

(** val s_transaction_signature : schema **)

let s_transaction_signature =
  SRefine ((PAnd ((PLenGe (Npos XH)), PSortedKeys)), (SVec (BE, (S O),
    (STuple (sU8 :: (s_sig_map_inner :: []))))))

(** val s_transaction_signature_or_none : schema **)

let s_transaction_signature_or_none =
  SRefine (PSortedKeys, (SVec (BE, (S O), (STuple
    (sU8 :: (s_sig_map_inner :: []))))))

(** val s_transaction_signatures_v1 : schema **)

let s_transaction_signatures_v1 =
  STuple (s_transaction_signature :: (s_transaction_signature_or_none :: []))

(** val s_verify_key : schema **)

let s_verify_key =
  SSum ((N0, (sOpaque (Npos (XO (XO (XO (XO (XO XH)))))) k_ED25519_PK)) :: [])

(** val s_credential_public_keys : schema **)

let s_credential_public_keys =
  STuple ((SRefine ((PAnd ((PLenGe (Npos XH)), PSortedKeys)), (SVec (BE, (S
    O), (STuple (sU8 :: (s_verify_key :: []))))))) :: (s_threshold_u8 :: []))

(** val s_account_access_structure : schema **)

let s_account_access_structure =
  STuple
    ((sMap BE (S O) sU8 s_credential_public_keys) :: (s_threshold_u8 :: []))

(** val s_baker_keys_payload : schema **)

let s_baker_keys_payload =
  STuple
    ((sOpaque (Npos (XO (XO (XO (XO (XO XH)))))) k_VRF_PK) :: ((sOpaque (Npos
                                                                 (XO (XO (XO
                                                                 (XO (XO
                                                                 XH))))))
                                                                 k_ED25519_PK) :: (
    (sOpaque (Npos (XO (XO (XO (XO (XO (XI XH))))))) k_BLS_PK) :: ((sOpaque
                                                                    (Npos (XO
                                                                    (XO (XO
                                                                    (XO (XO
                                                                    (XO
                                                                    XH)))))))
                                                                    k_DLOG_ED) :: (
    (sOpaque (Npos (XO (XO (XO (XO (XO (XO XH))))))) k_DLOG_ED) :: ((sOpaque
                                                                    (Npos (XO
                                                                    (XO (XO
                                                                    (XO (XO
                                                                    (XO
                                                                    XH)))))))
                                                                    k_BLS_PROOF) :: []))))))

(** val s_configure_baker_keys : schema **)

let s_configure_baker_keys =
  STuple
    ((sOpaque (Npos (XO (XO (XO (XO (XO XH)))))) k_VRF_PK) :: ((sOpaque (Npos
                                                                 (XO (XO (XO
                                                                 (XO (XO (XO
                                                                 XH)))))))
                                                                 k_DLOG_ED) :: (
    (sOpaque (Npos (XO (XO (XO (XO (XO XH)))))) k_ED25519_PK) :: ((sOpaque
                                                                    (Npos (XO
                                                                    (XO (XO
                                                                    (XO (XO
                                                                    (XO
                                                                    XH)))))))
                                                                    k_DLOG_ED) :: (
    (sOpaque (Npos (XO (XO (XO (XO (XO (XI XH))))))) k_BLS_PK) :: ((sOpaque
                                                                    (Npos (XO
                                                                    (XO (XO
                                                                    (XO (XO
                                                                    (XO
                                                                    XH)))))))
                                                                    k_BLS_PROOF) :: []))))))

(** val configure_baker_fields : (n option * schema) list **)

let configure_baker_fields =
  ((Some N0), s_amount) :: (((Some (Npos XH)), sBool) :: (((Some (Npos (XO
    XH))), s_open_status) :: (((Some (Npos (XI XH))),
    s_configure_baker_keys) :: (((Some (Npos (XO (XO XH)))),
    s_url_text) :: (((Some (Npos (XI (XO XH)))),
    s_amount_fraction) :: (((Some (Npos (XO (XI XH)))),
    s_amount_fraction) :: (((Some (Npos (XI (XI XH)))),
    s_amount_fraction) :: (((Some (Npos (XO (XO (XO XH))))),
    sBool) :: []))))))))

(** val s_configure_baker : schema **)

let s_configure_baker =
  SBitmap (BE, (S (S O)), (Npos (XI (XI (XI (XI (XI (XI (XI (XI XH))))))))),
    configure_baker_fields)

(** val s_configure_baker_prefix : schema **)

let s_configure_baker_prefix =
  SBitmap (BE, (S (S O)), (Npos (XI (XI (XI (XI (XI (XI (XI (XI (XI (XI (XI
    (XI (XI (XI (XI XH)))))))))))))))), configure_baker_fields)

(** val s_configure_delegation : schema **)

let s_configure_delegation =
  SBitmap (BE, (S (S O)), (Npos (XI (XI XH))), (((Some N0),
    s_amount) :: (((Some (Npos XH)), sBool) :: (((Some (Npos (XO XH))),
    s_delegation_target) :: []))))

(** val s_schedule : schema **)

let s_schedule =
  SVec (BE, (S O), (STuple (s_timestamp :: (s_amount :: []))))

(** val s_add_baker_payload : schema **)

let s_add_baker_payload =
  STuple (s_baker_keys_payload :: (s_amount :: (sBool :: [])))

(** val payload_alts : (n * schema) list **)

let payload_alts =
  ((Npos (XI XH)), (STuple
    (s_account_address :: (s_amount :: [])))) :: (((Npos (XO (XO XH))),
    s_add_baker_payload) :: (((Npos (XI (XO XH))), sUnit) :: (((Npos (XO (XI
    XH))), s_amount) :: (((Npos (XI (XI XH))), sBool) :: (((Npos (XO (XO (XO
    XH)))), s_baker_keys_payload) :: (((Npos (XI (XO (XI XH)))), (STuple
    ((sOpaque (Npos (XO (XO (XO (XO (XI XH)))))) k_CRED_ID) :: (s_credential_public_keys :: [])))) :: (((Npos
    (XI (XO (XO (XO XH))))), s_amount) :: (((Npos (XI (XI (XO (XO XH))))),
    (STuple (s_account_address :: (s_schedule :: [])))) :: (((Npos (XI (XO
    (XI (XO XH))))), s_registered_data) :: (((Npos (XO (XI (XI (XO XH))))),
    (STuple (s_account_address :: (s_memo :: (s_amount :: []))))) :: (((Npos
    (XO (XO (XO (XI XH))))), (STuple
    (s_account_address :: (s_memo :: (s_schedule :: []))))) :: (((Npos (XI
    (XO (XO (XI XH))))), s_configure_baker) :: (((Npos (XO (XI (XO (XI
    XH))))), s_configure_delegation) :: [])))))))))))))

(** val s_payload : schema **)

let s_payload =
  SSum payload_alts

(** val payload_modelled_tags : n list **)

let payload_modelled_tags =
  map fst payload_alts

(** val s_account_transaction : schema **)

let s_account_transaction =
  STuple (s_transaction_signature :: ((SFramed (s_transaction_header,
    header_size_path, s_payload)) :: []))

(** val s_account_transaction_encoded : schema **)

let s_account_transaction_encoded =
  STuple (s_transaction_signature :: ((SFramedRaw (s_transaction_header,
    header_size_path, mAX_PAYLOAD_SIZE)) :: []))

(** val s_account_transaction_v1_encoded : schema **)

let s_account_transaction_v1_encoded =
  STuple (s_transaction_signatures_v1 :: ((SFramedRaw
    (s_transaction_header_v1, (O :: ((S (S (S O))) :: [])),
    mAX_PAYLOAD_SIZE)) :: []))

(** val s_update_header : schema **)

let s_update_header =
  STuple
    (sU64 :: (s_transaction_time :: (s_transaction_time :: (s_payload_size :: []))))

(** val s_update_instruction_signature : schema **)

let s_update_instruction_signature =
  SRefine ((PAnd ((PLenGe (Npos XH)), PSortedKeys)), (SVec (BE, (S (S O)),
    (STuple (sU16 :: (s_signature :: []))))))

(** val s_update_instruction : schema **)

let s_update_instruction =
  STuple ((SFramedRaw (s_update_header, ((S (S (S O))) :: []),
    mAX_PAYLOAD_SIZE)) :: (s_update_instruction_signature :: []))

(** val sum_le_100000 : gval -> bool **)

let sum_le_100000 = function
| VList vs ->
  N.leb
    (fold_right (fun x acc ->
      match x with
      | VNum n0 -> N.add n0 acc
      | _ -> acc) N0 vs) (Npos (XO (XO (XO (XO (XO (XI (XO (XI (XO (XI (XI
    (XO (XO (XO (XO (XI XH)))))))))))))))))
| _ -> false

(** val s_mint_distribution_v0 : schema **)

let s_mint_distribution_v0 =
  SRefine ((PFun (fun v ->
    match v with
    | VList vs ->
      (match vs with
       | [] -> false
       | _ :: l ->
         (match l with
          | [] -> false
          | a :: l0 ->
            (match l0 with
             | [] -> false
             | b :: l1 ->
               (match l1 with
                | [] -> sum_le_100000 (VList (a :: (b :: [])))
                | _ :: _ -> false))))
    | _ -> false)), (STuple
    (s_mint_rate :: (s_amount_fraction :: (s_amount_fraction :: [])))))

(** val s_mint_distribution_v1 : schema **)

let s_mint_distribution_v1 =
  SRefine ((PFun sum_le_100000), (STuple
    (s_amount_fraction :: (s_amount_fraction :: []))))

(** val s_transaction_fee_distribution : schema **)

let s_transaction_fee_distribution =
  SRefine ((PFun sum_le_100000), (STuple
    (s_amount_fraction :: (s_amount_fraction :: []))))

(** val s_gas_rewards : schema **)

let s_gas_rewards =
  STuple
    (s_amount_fraction :: (s_amount_fraction :: (s_amount_fraction :: (s_amount_fraction :: []))))

(** val s_gas_rewards_v1 : schema **)

let s_gas_rewards_v1 =
  STuple
    (s_amount_fraction :: (s_amount_fraction :: (s_amount_fraction :: [])))

(** val s_cooldown_parameters : schema **)

let s_cooldown_parameters =
  STuple (sU64 :: (sU64 :: []))

(** val s_time_parameters : schema **)

let s_time_parameters =
  STuple (sU64 :: (s_mint_rate :: []))

(** val s_commission_ranges : schema **)

let s_commission_ranges =
  STuple
    (s_inclusive_range_fraction :: (s_inclusive_range_fraction :: (s_inclusive_range_fraction :: [])))

(** val s_pool_parameters : schema **)

let s_pool_parameters =
  STuple
    (s_amount_fraction :: (s_amount_fraction :: (s_amount_fraction :: (s_commission_ranges :: (s_amount :: (s_amount_fraction :: (s_leverage_factor :: [])))))))

(** val s_timeout_parameters : schema **)

let s_timeout_parameters =
  SRefine ((PFun (fun v ->
    match v with
    | VList vs ->
      (match vs with
       | [] -> false
       | _ :: l ->
         (match l with
          | [] -> false
          | g0 :: l0 ->
            (match g0 with
             | VList vs0 ->
               (match vs0 with
                | [] -> false
                | g1 :: l1 ->
                  (match g1 with
                   | VNum ni ->
                     (match l1 with
                      | [] -> false
                      | g2 :: l2 ->
                        (match g2 with
                         | VNum di ->
                           (match l2 with
                            | [] ->
                              (match l0 with
                               | [] -> false
                               | g3 :: l3 ->
                                 (match g3 with
                                  | VList vs1 ->
                                    (match vs1 with
                                     | [] -> false
                                     | g4 :: l4 ->
                                       (match g4 with
                                        | VNum nd ->
                                          (match l4 with
                                           | [] -> false
                                           | g5 :: l5 ->
                                             (match g5 with
                                              | VNum dd ->
                                                (match l5 with
                                                 | [] ->
                                                   (match l3 with
                                                    | [] ->
                                                      (&&)
                                                        ((&&) (N.ltb di ni)
                                                          (negb (N.eqb nd N0)))
                                                        (N.ltb nd dd)
                                                    | _ :: _ -> false)
                                                 | _ :: _ -> false)
                                              | _ -> false))
                                        | _ -> false))
                                  | _ -> false))
                            | _ :: _ -> false)
                         | _ -> false))
                   | _ -> false))
             | _ -> false)))
    | _ -> false)), (STuple (sU64 :: (s_ratio :: (s_ratio :: [])))))

(** val s_finalization_committee_parameters : schema **)

let s_finalization_committee_parameters =
  STuple (sU32 :: (sU32 :: (s_amount_fraction :: [])))

(** val update_payload_alts : (n * schema) list **)

let update_payload_alts =
  ((Npos (XO XH)), s_amount_fraction) :: (((Npos (XI XH)),
    s_exchange_rate) :: (((Npos (XO (XO XH))), s_exchange_rate) :: (((Npos
    (XI (XO XH))), s_account_address) :: (((Npos (XO (XI XH))),
    s_mint_distribution_v0) :: (((Npos (XI (XI XH))),
    s_transaction_fee_distribution) :: (((Npos (XO (XO (XO XH)))),
    s_gas_rewards) :: (((Npos (XI (XO (XO XH)))), s_amount) :: (((Npos (XO
    (XI (XI XH)))), s_cooldown_parameters) :: (((Npos (XI (XI (XI XH)))),
    s_pool_parameters) :: (((Npos (XO (XO (XO (XO XH))))),
    s_time_parameters) :: (((Npos (XI (XO (XO (XO XH))))),
    s_mint_distribution_v1) :: (((Npos (XO (XI (XO (XO XH))))),
    s_timeout_parameters) :: (((Npos (XI (XI (XO (XO XH))))),
    sU64) :: (((Npos (XO (XO (XI (XO XH))))), sU64) :: (((Npos (XI (XO (XI
    (XO XH))))), s_gas_rewards_v1) :: (((Npos (XO (XI (XI (XO XH))))),
    s_finalization_committee_parameters) :: (((Npos (XI (XI (XI (XO XH))))),
    sU64) :: [])))))))))))))))))

(** val s_update_payload : schema **)

let s_update_payload =
  SSum update_payload_alts

(** val s_block_item : schema **)

let s_block_item =
  SSum ((N0, s_account_transaction_encoded) :: (((Npos (XO XH)),
    s_update_instruction) :: (((Npos (XI XH)),
    s_account_transaction_v1_encoded) :: [])))

(** val chain_schema_table : (n * schema) list **)

let chain_schema_table =
  ((Npos XH), s_amount) :: (((Npos (XO XH)), s_account_address) :: (((Npos
    (XI XH)), s_contract_address) :: (((Npos (XO (XO XH))),
    s_address) :: (((Npos (XI (XO XH))), s_memo) :: (((Npos (XO (XI XH))),
    s_registered_data) :: (((Npos (XI (XI XH))), s_ratio) :: (((Npos (XO (XO
    (XO XH)))), s_exchange_rate) :: (((Npos (XI (XO (XO XH)))),
    s_num_ratio) :: (((Npos (XO (XI (XO XH)))), s_payload_size) :: (((Npos
    (XI (XI (XO XH)))), s_signature) :: (((Npos (XO (XO (XI XH)))),
    s_transaction_header) :: (((Npos (XI (XO (XI XH)))),
    s_transaction_header_v1) :: (((Npos (XO (XI (XI XH)))),
    s_transaction_signature) :: (((Npos (XI (XI (XI XH)))),
    s_transaction_signatures_v1) :: (((Npos (XO (XO (XO (XO XH))))),
    s_verify_key) :: (((Npos (XI (XO (XO (XO XH))))),
    s_credential_public_keys) :: (((Npos (XO (XI (XO (XO XH))))),
    s_account_access_structure) :: (((Npos (XI (XI (XO (XO XH))))),
    s_open_status) :: (((Npos (XO (XO (XI (XO XH))))),
    s_delegation_target) :: (((Npos (XI (XO (XI (XO XH))))),
    s_amount_fraction) :: (((Npos (XO (XI (XI (XO XH))))),
    s_url_text) :: (((Npos (XI (XI (XI (XO XH))))),
    s_baker_keys_payload) :: (((Npos (XO (XO (XO (XI XH))))),
    s_add_baker_payload) :: (((Npos (XI (XO (XO (XI XH))))),
    s_configure_baker) :: (((Npos (XO (XI (XO (XI XH))))),
    s_configure_delegation) :: (((Npos (XI (XI (XO (XI XH))))),
    s_payload) :: (((Npos (XO (XO (XI (XI XH))))),
    s_account_transaction) :: (((Npos (XI (XO (XI (XI XH))))),
    s_account_transaction_encoded) :: (((Npos (XO (XI (XI (XI XH))))),
    s_account_transaction_v1_encoded) :: (((Npos (XI (XI (XI (XI XH))))),
    s_update_header) :: (((Npos (XO (XO (XO (XO (XO XH)))))),
    s_update_instruction_signature) :: (((Npos (XI (XO (XO (XO (XO XH)))))),
    s_update_instruction) :: (((Npos (XO (XI (XO (XO (XO XH)))))),
    s_update_payload) :: (((Npos (XI (XI (XO (XO (XO XH)))))),
    s_block_item) :: (((Npos (XO (XO (XI (XO (XO XH)))))),
    s_leverage_factor) :: (((Npos (XI (XO (XI (XO (XO XH)))))),
    s_mint_distribution_v0) :: (((Npos (XO (XI (XI (XO (XO XH)))))),
    s_pool_parameters) :: (((Npos (XI (XI (XI (XO (XO XH)))))),
    s_timeout_parameters) :: (((Npos (XO (XO (XO (XI (XO XH)))))),
    s_threshold_u8) :: (((Npos (XI (XO (XO (XI (XO XH)))))),
    s_transaction_fee_distribution) :: (((Npos (XO (XI (XO (XI (XO XH)))))),
    s_gas_rewards) :: (((Npos (XI (XI (XO (XI (XO XH)))))),
    s_update_keys_threshold) :: (((Npos (XO (XO (XI (XO (XO (XI XH))))))),
    s_configure_baker_prefix) :: [])))))))))))))))))))))))))))))))))))))))))))
