(** The state machine of the mutable trie at the level of the operations of
    [MutableTrie] (low_level.rs): entries ([Entry::{ReadOnly,Mutable,Deleted}] become a
    table of optional values), the lock checks in [insert] / [delete] /
    [delete_prefix] / [iter] / [delete_iter] against the [PrefixesMap] of the current
    generation, lazily advancing iterators, generations and freeze / thaw.

    Two machines are defined over the same operations and outputs:
    - the *model* [m_step] (level B): radix tree of [Radix.v] + prefix map of
      [PrefixMap.v] + iterators that search the *current* tree for the successor of the
      key they returned last;
    - the *specification* [s_step] (level A): a sorted association list from byte-string
      keys to entry identifiers, iterators that are a *snapshot* of the keys under their
      prefix taken at creation, and "locked" defined from the live iterators.
    [LocksProofs.v] proves that the two produce the same outputs for every history.

    Handles and iterators are numbered per generation in the order they are given out
    (this is what [InstanceState::entry_mapping] / [iterators] do); an operation that
    names a handle or iterator that does not exist is skipped ([RSkip]) so that any
    list of operations is a history. *)
From Coq Require Import NArith List Bool.
From CB Require Import Trie.Radix.
From CB Require Import Trie.PrefixMap.
Import ListNotations.
Local Open Scope N_scope.

Definition value := list N.

Inductive op :=
| OInsert (k : list N) (v : value)
| OGet (k : list N)
| ORead (h : nat)
| OSet (h : nat) (v : value)
| OMut (h : nat) (v : value)
| ODelete (k : list N)
| ODeletePrefix (k : list N)
| OIter (k : list N)
| ONext (i : nat)
| ODelIter (i : nat)
| ONewGen
| ONormalize (r : nat)
| OFreeze
| OThaw.

Inductive out :=
| RSkip
| RLocked
| RTooMany
| RNone
| RBool (b : bool)
| RHandle (h : nat) (existed : bool)
| RFound (h : nat) (v : option value)
| RVal (v : option value)
| RIter (i : nat)
| RNext (k : list N) (h : nat) (v : option value)
| RGens (n : nat)
| RDump (l : list (list N * option value)).

Fixpoint set_nth {A} (n : nat) (x : A) (l : list A) : list A :=
  match l, n with
  | [], _ => []
  | _ :: r, O => x :: r
  | y :: r, S n' => y :: set_nth n' x r
  end.

Definition ent_get (ents : list (option value)) (e : nat) : option value :=
  match nth_error ents e with Some (Some v) => Some v | _ => None end.

Definition kill (ents : list (option value)) (es : list nat) : list (option value) :=
  fold_left (fun acc e => set_nth e None acc) es ents.

(** * Model (level B) *)

Record gen := mkGen {
  g_root : option (tree nat);
  g_ents : list (option value);
  g_locks : pmap;
  g_handles : list nat;
  g_iters : list (option (list N * option (list N)))
}.

Definition state := list gen.   (* head = current generation *)

Definition empty_gen : gen := mkGen None [] None [] [].
Definition m_init : state := [empty_gen].

Definition with_handle (g : gen) (e : nat) : gen :=
  mkGen (g_root g) (g_ents g) (g_locks g) (g_handles g ++ [e]) (g_iters g).
Definition with_ents (g : gen) (ents : list (option value)) : gen :=
  mkGen (g_root g) ents (g_locks g) (g_handles g) (g_iters g).
Definition with_root (g : gen) (r : option (tree nat)) : gen :=
  mkGen r (g_ents g) (g_locks g) (g_handles g) (g_iters g).
Definition with_locks_iters (g : gen) (l : pmap) (its : list (option (list N * option (list N)))) : gen :=
  mkGen (g_root g) (g_ents g) l (g_handles g) its.

Definition m_insert (k : list N) (v : value) (g : gen) : gen * out :=
  if negb (pm_no_prefix k (g_locks g)) then (g, RLocked) else
  let h := length (g_handles g) in
  match lookup_root (nib k) (g_root g) with
  | Some e => (with_handle (with_ents g (set_nth e (Some v) (g_ents g))) e, RHandle h true)
  | None =>
      let e := length (g_ents g) in
      (with_handle (with_ents (with_root g (Some (insert_root (nib k) e (g_root g))))
                              (g_ents g ++ [Some v])) e, RHandle h false)
  end.

Definition m_get (k : list N) (g : gen) : gen * out :=
  match lookup_root (nib k) (g_root g) with
  | None => (g, RNone)
  | Some e => (with_handle g e, RFound (length (g_handles g)) (ent_get (g_ents g) e))
  end.

Definition m_read (h : nat) (g : gen) : gen * out :=
  match nth_error (g_handles g) h with
  | None => (g, RSkip)
  | Some e => (g, RVal (ent_get (g_ents g) e))
  end.

Definition m_set (h : nat) (v : value) (g : gen) : gen * out :=
  match nth_error (g_handles g) h with
  | None => (g, RSkip)
  | Some e =>
      match ent_get (g_ents g) e with
      | None => (g, RBool false)
      | Some _ => (with_ents g (set_nth e (Some v) (g_ents g)), RBool true)
      end
  end.

Definition m_mut (h : nat) (v : value) (g : gen) : gen * out :=
  match nth_error (g_handles g) h with
  | None => (g, RSkip)
  | Some e =>
      match ent_get (g_ents g) e with
      | None => (g, RVal None)
      | Some old => (with_ents g (set_nth e (Some v) (g_ents g)), RVal (Some old))
      end
  end.

Definition m_delete (k : list N) (g : gen) : gen * out :=
  match g_root g with
  | None => (g, RBool false)
  | Some t =>
      if negb (pm_no_prefix k (g_locks g)) then (g, RLocked) else
      match lookup (nib k) t with
      | None => (g, RBool false)
      | Some e =>
          (with_ents (with_root g (delete (nib k) t)) (set_nth e None (g_ents g)),
           RBool (match ent_get (g_ents g) e with Some _ => true | None => false end))
      end
  end.

Definition m_delete_prefix (k : list N) (g : gen) : gen * out :=
  match g_root g with
  | None => (g, RBool false)
  | Some t =>
      if pm_iohp k (g_locks g) then (g, RLocked) else
      if has_prefix (nib k) t then
        (with_ents (with_root g (delete_prefix (nib k) t))
                   (kill (g_ents g) (map snd (iterate (nib k) t))), RBool true)
      else (g, RBool false)
  end.

Definition m_iter (k : list N) (g : gen) : gen * out :=
  match g_root g with
  | None => (g, RNone)
  | Some t =>
      if has_prefix (nib k) t then
        match pm_insert k (g_locks g) with
        | None => (g, RTooMany)
        | Some l' => (with_locks_iters g l' (g_iters g ++ [Some (k, None)]), RIter (length (g_iters g)))
        end
      else (g, RNone)
  end.

Definition after {V} (last : option (list N)) (l : list (list N * V)) : list (list N * V) :=
  match last with
  | None => l
  | Some k0 => filter (fun kv => lex_ltb (nib k0) (fst kv)) l
  end.

Definition m_next (i : nat) (g : gen) : gen * out :=
  match nth_error (g_iters g) i with
  | Some (Some (p, last)) =>
      match after last (iterate_root (nib p) (g_root g)) with
      | [] => (g, RNone)
      | (k, e) :: _ =>
          (with_handle (with_locks_iters g (g_locks g) (set_nth i (Some (p, Some (unnib k))) (g_iters g))) e,
           RNext (unnib k) (length (g_handles g)) (ent_get (g_ents g) e))
      end
  | _ => (g, RSkip)
  end.

Definition m_deliter (i : nat) (g : gen) : gen * out :=
  match nth_error (g_iters g) i with
  | Some (Some (p, _)) =>
      let (l', b) := pm_delete p (g_locks g) in
      (with_locks_iters g l' (set_nth i None (g_iters g)), RBool b)
  | _ => (g, RSkip)
  end.

Definition m_dump (g : gen) : list (list N * option value) :=
  map (fun kv => (unnib (fst kv), ent_get (g_ents g) (snd kv))) (to_list_root (g_root g)).

Definition on_cur (f : gen -> gen * out) (s : state) : state * out :=
  match s with
  | [] => ([], RSkip)
  | g :: rest => let (g', o) := f g in (g' :: rest, o)
  end.

Definition normalize {A} (r : nat) (s : list A) : list A := skipn (length s - S r) s.

Definition m_step (o : op) (s : state) : state * out :=
  match o with
  | OInsert k v => on_cur (m_insert k v) s
  | OGet k => on_cur (m_get k) s
  | ORead h => on_cur (m_read h) s
  | OSet h v => on_cur (m_set h v) s
  | OMut h v => on_cur (m_mut h v) s
  | ODelete k => on_cur (m_delete k) s
  | ODeletePrefix k => on_cur (m_delete_prefix k) s
  | OIter k => on_cur (m_iter k) s
  | ONext i => on_cur (m_next i) s
  | ODelIter i => on_cur (m_deliter i) s
  | ONewGen =>
      match s with
      | [] => ([], RSkip)
      | g :: _ => (mkGen (g_root g) (g_ents g) None [] [] :: s, RGens (S (length s)))
      end
  | ONormalize r => let s' := normalize r s in (s', RGens (length s'))
  | OFreeze => match s with [] => ([], RSkip) | g :: _ => (s, RDump (m_dump g)) end
  | OThaw =>
      match s with
      | [] => ([], RSkip)
      | g :: _ => ([mkGen (g_root g) (g_ents g) None [] []], RDump (m_dump g))
      end
  end.

Fixpoint m_run (ops : list op) (s : state) : list out :=
  match ops with
  | [] => []
  | o :: r => let (s', x) := m_step o s in x :: m_run r s'
  end.

(** * Specification (level A) *)

Record sgen := mkS {
  s_map : amap nat;                      (* byte-string key -> entry id, strictly sorted *)
  s_ents : list (option value);
  s_handles : list nat;
  s_iters : list (option (list N * list (list N)))   (* prefix, keys still to be yielded *)
}.

Definition sstate := list sgen.
Definition empty_sgen : sgen := mkS [] [] [] [].
Definition s_init : sstate := [empty_sgen].

Definition live_roots {A} (its : list (option (list N * A))) : list (list N) :=
  flat_map (fun o => match o with Some (p, _) => [p] | None => [] end) its.

(** A key is locked when a live iterator's prefix is a prefix of it. *)
Definition s_locked (k : list N) (g : sgen) : bool :=
  existsb (fun p => is_prefix p k) (live_roots (s_iters g)).
Definition s_locked2 (k : list N) (g : sgen) : bool :=
  existsb (fun p => is_prefix p k || is_prefix k p) (live_roots (s_iters g)).
Definition s_count (p : list N) (g : sgen) : N :=
  N.of_nat (length (filter (list_eqb p) (live_roots (s_iters g)))).

Definition s_with_handle (g : sgen) (e : nat) : sgen :=
  mkS (s_map g) (s_ents g) (s_handles g ++ [e]) (s_iters g).
Definition s_with_ents (g : sgen) (ents : list (option value)) : sgen :=
  mkS (s_map g) ents (s_handles g) (s_iters g).
Definition s_with_map (g : sgen) (m : amap nat) : sgen :=
  mkS m (s_ents g) (s_handles g) (s_iters g).
Definition s_with_iters (g : sgen) (its : list (option (list N * list (list N)))) : sgen :=
  mkS (s_map g) (s_ents g) (s_handles g) its.

Definition s_insert (k : list N) (v : value) (g : sgen) : sgen * out :=
  if s_locked k g then (g, RLocked) else
  let h := length (s_handles g) in
  match a_lookup k (s_map g) with
  | Some e => (s_with_handle (s_with_ents g (set_nth e (Some v) (s_ents g))) e, RHandle h true)
  | None =>
      let e := length (s_ents g) in
      (s_with_handle (s_with_ents (s_with_map g (a_insert k e (s_map g))) (s_ents g ++ [Some v])) e,
       RHandle h false)
  end.

Definition s_get (k : list N) (g : sgen) : sgen * out :=
  match a_lookup k (s_map g) with
  | None => (g, RNone)
  | Some e => (s_with_handle g e, RFound (length (s_handles g)) (ent_get (s_ents g) e))
  end.

Definition s_read (h : nat) (g : sgen) : sgen * out :=
  match nth_error (s_handles g) h with
  | None => (g, RSkip)
  | Some e => (g, RVal (ent_get (s_ents g) e))
  end.

Definition s_set (h : nat) (v : value) (g : sgen) : sgen * out :=
  match nth_error (s_handles g) h with
  | None => (g, RSkip)
  | Some e =>
      match ent_get (s_ents g) e with
      | None => (g, RBool false)
      | Some _ => (s_with_ents g (set_nth e (Some v) (s_ents g)), RBool true)
      end
  end.

Definition s_mut (h : nat) (v : value) (g : sgen) : sgen * out :=
  match nth_error (s_handles g) h with
  | None => (g, RSkip)
  | Some e =>
      match ent_get (s_ents g) e with
      | None => (g, RVal None)
      | Some old => (s_with_ents g (set_nth e (Some v) (s_ents g)), RVal (Some old))
      end
  end.

Definition s_delete (k : list N) (g : sgen) : sgen * out :=
  match s_map g with
  | [] => (g, RBool false)
  | _ =>
      if s_locked k g then (g, RLocked) else
      match a_lookup k (s_map g) with
      | None => (g, RBool false)
      | Some e =>
          (s_with_ents (s_with_map g (a_delete k (s_map g))) (set_nth e None (s_ents g)),
           RBool (match ent_get (s_ents g) e with Some _ => true | None => false end))
      end
  end.

Definition s_delete_prefix (k : list N) (g : sgen) : sgen * out :=
  match s_map g with
  | [] => (g, RBool false)
  | _ =>
      if s_locked2 k g then (g, RLocked) else
      match a_iterate k (s_map g) with
      | [] => (g, RBool false)
      | sub => (s_with_ents (s_with_map g (a_delete_prefix k (s_map g))) (kill (s_ents g) (map snd sub)),
                RBool true)
      end
  end.

Definition s_iter (k : list N) (g : sgen) : sgen * out :=
  match a_iterate k (s_map g) with
  | [] => (g, RNone)
  | sub =>
      if s_count k g =? MAXC then (g, RTooMany)
      else (s_with_iters g (s_iters g ++ [Some (k, map fst sub)]), RIter (length (s_iters g)))
  end.

Definition s_next (i : nat) (g : sgen) : sgen * out :=
  match nth_error (s_iters g) i with
  | Some (Some (p, rem)) =>
      match rem with
      | [] => (g, RNone)
      | k :: rem' =>
          match a_lookup k (s_map g) with
          | Some e =>
              (s_with_handle (s_with_iters g (set_nth i (Some (p, rem')) (s_iters g))) e,
               RNext k (length (s_handles g)) (ent_get (s_ents g) e))
          | None => (g, RNone)    (* unreachable: keys under a live iterator cannot be removed *)
          end
      end
  | _ => (g, RSkip)
  end.

Definition s_deliter (i : nat) (g : sgen) : sgen * out :=
  match nth_error (s_iters g) i with
  | Some (Some (p, _)) => (s_with_iters g (set_nth i None (s_iters g)), RBool true)
  | _ => (g, RSkip)
  end.

Definition s_dump (g : sgen) : list (list N * option value) :=
  map (fun kv => (fst kv, ent_get (s_ents g) (snd kv))) (s_map g).

Definition s_on_cur (f : sgen -> sgen * out) (s : sstate) : sstate * out :=
  match s with
  | [] => ([], RSkip)
  | g :: rest => let (g', o) := f g in (g' :: rest, o)
  end.

Definition s_step (o : op) (s : sstate) : sstate * out :=
  match o with
  | OInsert k v => s_on_cur (s_insert k v) s
  | OGet k => s_on_cur (s_get k) s
  | ORead h => s_on_cur (s_read h) s
  | OSet h v => s_on_cur (s_set h v) s
  | OMut h v => s_on_cur (s_mut h v) s
  | ODelete k => s_on_cur (s_delete k) s
  | ODeletePrefix k => s_on_cur (s_delete_prefix k) s
  | OIter k => s_on_cur (s_iter k) s
  | ONext i => s_on_cur (s_next i) s
  | ODelIter i => s_on_cur (s_deliter i) s
  | ONewGen =>
      match s with
      | [] => ([], RSkip)
      | g :: _ => (mkS (s_map g) (s_ents g) [] [] :: s, RGens (S (length s)))
      end
  | ONormalize r => let s' := normalize r s in (s', RGens (length s'))
  | OFreeze => match s with [] => ([], RSkip) | g :: _ => (s, RDump (s_dump g)) end
  | OThaw =>
      match s with
      | [] => ([], RSkip)
      | g :: _ => ([mkS (s_map g) (s_ents g) [] []], RDump (s_dump g))
      end
  end.

Fixpoint s_run (ops : list op) (s : sstate) : list out :=
  match ops with
  | [] => []
  | o :: r => let (s', x) := s_step o s in x :: s_run r s'
  end.

(** Executable invariant check used by the extracted runner after every operation. *)
Definition m_wf (s : state) : bool :=
  forallb (fun g => wfb_root (g_root g) && pm_wf (g_locks g)) s.
