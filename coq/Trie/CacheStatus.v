(** The storage status of the links of a persistent tree:
    [enum CachedRef<V> { Disk{reference}, Memory{value}, Cached{reference, value} }]
    (low_level.rs 388-576) as a small state machine.

    The annotated trees of [Persist.v] only record a LOCATION per node / long value
    ([Some None] = in memory, [Some (Some r)] = at reference [r]); there [cache] is the
    identity.  Here every node link and every indirect value carries one of the three
    statuses; [to_a] forgets the difference between Disk and Cached and gives the tree of
    [Persist.v], so every operation below is a refinement of the one in [Persist.v]
    ([CacheStatusProofs.v]).  The tree keeps the contents also below a Disk link (a ghost:
    what the store holds at that reference - this is what [consistent] says); the
    observable part is what [census] visits: it does not descend below a Disk link.

    Transitions (read from the code):
    - [load_and_cache] (456): Disk r -> Cached r; Memory / Cached unchanged.
      [Node::cache] (1443) / [PersistentState::cache] (api.rs 304): this for the root link,
      every indirect value and every node link below: [s_cache].
    - [store_and_uncache] (490) for the indirect value of a node that is written:
      Memory -> [store_raw], Disk r;  Cached r -> Disk r (nothing written);  Disk r stays.
    - [Node::store_update_buf] (1549-1661): a child link that is Memory
      ([get_mut_or_reference] = Ok) is written (children first, last to first, then its
      value, then the record) and [uncache]d: Disk key - its in-memory subtree is dropped
      ([forget]); a child link that is Disk or Cached is not descended into.
      [CachedRef<Hashed<Node>>::store_update_buf] (2001): a Memory root is written the same
      way but STAYS Memory; a Disk / Cached root writes nothing.
    - [load_and_store] (524) / [Node::migrate] (1668): everything is written to the new store,
      the result is Disk with the NEW references; the source is not changed.
    - [load_from_location] gives a Disk root; [deserialize] a state purely in memory. *)
From Coq Require Import NArith List Bool.
From CB Require Import Common.Codec.
From CB Require Import Trie.Radix.
From CB Require Import Trie.MerkleHash.
From CB Require Import Trie.Persist.
Import ListNotations.
Local Open Scope N_scope.

Inductive status := StDisk (r : N) | StMem | StCached (r : N).
Inductive vstatus := VsInline | VsDisk (r : N) | VsMem | VsCached (r : N).

Definition sval := (value * vstatus)%type.

Inductive stree :=
| SN (s : status) (p : list N) (v : option sval) (cs : sforest)
with sforest :=
| SNil
| SCons (c : N) (t : stree) (r : sforest).

(** * Abstraction to the located trees of [Persist.v] *)
Definition st_ann (s : status) : ann :=
  match s with StDisk r | StCached r => Some (Some r) | StMem => Some None end.
Definition vs_ann (s : vstatus) : ann :=
  match s with VsDisk r | VsCached r => Some (Some r) | VsInline | VsMem => Some None end.
Definition to_av (ov : option sval) : option aval :=
  match ov with Some (x, s) => Some (x, vs_ann s) | None => None end.

Fixpoint to_a (t : stree) : atree :=
  match t with SN s p v cs => AN (st_ann s) p (to_av v) (to_a_f cs) end
with to_a_f (f : sforest) : aforest :=
  match f with SNil => ANil | SCons c t r => ACons c (to_a t) (to_a_f r) end.

Definition to_a_root (r : option stree) : option atree := option_map to_a r.

(** * [cache] *)
Definition cache_st (s : status) : status :=
  match s with StDisk r => StCached r | _ => s end.
Definition cache_v (ov : option sval) : option sval :=
  match ov with Some (x, VsDisk r) => Some (x, VsCached r) | _ => ov end.

Fixpoint s_cache (t : stree) : stree :=
  match t with SN s p v cs => SN (cache_st s) p (cache_v v) (s_cache_f cs) end
with s_cache_f (f : sforest) : sforest :=
  match f with SNil => SNil | SCons c t r => SCons c (s_cache t) (s_cache_f r) end.

(** one [load_and_cache] of a link *)
Definition s_load1 (t : stree) : stree :=
  match t with SN s p v cs => SN (cache_st s) p v cs end.

(** * Dropping the in-memory copy: what is left of a subtree when its link is uncached *)
Definition forget_st (s : status) : status :=
  match s with StCached r => StDisk r | _ => s end.
Definition forget_v (ov : option sval) : option sval :=
  match ov with Some (x, VsCached r) => Some (x, VsDisk r) | _ => ov end.

Fixpoint forget (t : stree) : stree :=
  match t with SN s p v cs => SN (forget_st s) p (forget_v v) (forget_f cs) end
with forget_f (f : sforest) : sforest :=
  match f with SNil => SNil | SCons c t r => SCons c (forget t) (forget_f r) end.

(** * A state purely in memory (fresh freeze, [deserialize]) *)
Definition mem_v (ov : option value) : option sval :=
  match ov with
  | Some x => Some (x, if lenN x <=? INLINE_VALUE_LEN then VsInline else VsMem)
  | None => None
  end.

Fixpoint s_of_tree (t : tree value) : stree :=
  match t with Node p ov cs => SN StMem p (mem_v ov) (s_of_forest cs) end
with s_of_forest (f : forest value) : sforest :=
  match f with FNil => SNil | FCons c t r => SCons c (s_of_tree t) (s_of_forest r) end.

Section WithHash.
Variable sha256 : list N -> list N.

(** * [store_update] *)

(** [store_and_uncache] of the value of a node that is being written *)
Definition s_store_value (ov : option sval) (st : store) : store * option sval * option svalue :=
  match ov with
  | None => (st, None, None)
  | Some (x, s) =>
      if lenN x <=? INLINE_VALUE_LEN then (st, ov, Some (SInline x))
      else match s with
           | VsDisk r | VsCached r => (st, Some (x, VsDisk r), Some (SIndirect (hash_value sha256 x) r))
           | _ => let '(st1, r) := store_raw st x in
                  (st1, Some (x, VsDisk r), Some (SIndirect (hash_value sha256 x) r))
           end
  end.

Fixpoint s_store_node (t : stree) (st : store) : store * stree * N :=
  match t with
  | SN s p ov cs =>
      match s with
      | StDisk r | StCached r => (st, t, r)
      | StMem =>
          let '(st1, cs', refs) := s_store_children cs st in
          let '(st2, ov', sv) := s_store_value ov st1 in
          let body := enc_rec (mkRec (hash_node sha256 (erase (to_a t))) p sv
                                     (combine (labels (to_a_f cs)) refs)) in
          let '(st3, r) := store_raw st2 body in
          (st3, SN (StDisk r) p ov' (forget_f cs'), r)
      end
  end
with s_store_children (f : sforest) (st : store) : store * sforest * list N :=
  match f with
  | SNil => (st, SNil, [])
  | SCons c t r =>
      let '(st1, r', refs) := s_store_children r st in
      let '(st2, t', x) := s_store_node t st1 in
      (st2, SCons c t' r', x :: refs)
  end.

(** [PersistentState::store_update]: result = (store, the state kept in memory, the state
    [load_from_location] of the new root reference gives, top reference). *)
Definition s_store_update (r : option stree) (st : store) : store * option stree * option stree * N :=
  match r with
  | None => let '(st1, top) := store_raw st [0] in (st1, None, None, top)
  | Some (SN s p ov cs) =>
      match s with
      | StDisk x | StCached x =>
          let '(st2, top) := store_raw st (1 :: be64 x) in
          (st2, r, Some (SN (StDisk x) p (forget_v ov) (forget_f cs)), top)
      | StMem =>
          let '(st1, cs', refs) := s_store_children cs st in
          let '(st2, ov', sv) := s_store_value ov st1 in
          let body := enc_rec (mkRec (hash_node sha256 (erase (to_a (SN s p ov cs)))) p sv
                                     (combine (labels (to_a_f cs)) refs)) in
          let '(st3, x) := store_raw st2 body in
          let '(st4, top) := store_raw st3 (1 :: be64 x) in
          (st4, Some (SN StMem p ov' cs'), Some (SN (StDisk x) p ov' (forget_f cs')), top)
      end
  end.

(** * [migrate] ([load_and_store]): everything to the new store, all Disk *)
Definition s_migrate_value (ov : option sval) (st : store) : store * option sval * option svalue :=
  match ov with
  | None => (st, None, None)
  | Some (x, _) =>
      if lenN x <=? INLINE_VALUE_LEN then (st, Some (x, VsInline), Some (SInline x))
      else let '(st1, r) := store_raw st x in
           (st1, Some (x, VsDisk r), Some (SIndirect (hash_value sha256 x) r))
  end.

Fixpoint s_migrate_node (t : stree) (st : store) : store * stree * N :=
  match t with
  | SN s p ov cs =>
      let '(st1, cs', refs) := s_migrate_children cs st in
      let '(st2, ov', sv) := s_migrate_value ov st1 in
      let body := enc_rec (mkRec (hash_node sha256 (erase (to_a t))) p sv
                                 (combine (labels (to_a_f cs)) refs)) in
      let '(st3, r) := store_raw st2 body in
      (st3, SN (StDisk r) p ov' cs', r)
  end
with s_migrate_children (f : sforest) (st : store) : store * sforest * list N :=
  match f with
  | SNil => (st, SNil, [])
  | SCons c t r =>
      let '(st1, r', refs) := s_migrate_children r st in
      let '(st2, t', x) := s_migrate_node t st1 in
      (st2, SCons c t' r', x :: refs)
  end.

Definition s_migrate (r : option stree) (st : store) : store * option stree :=
  match r with
  | None => (st, None)
  | Some t => let '(st1, t', _) := s_migrate_node t st in (st1, Some t')
  end.

End WithHash.

(** * What can be observed of the statuses: the census of the materialised links *)
Record cens := mkCens { n_disk : N; n_mem : N; n_cached : N;
                        v_disk : N; v_mem : N; v_cached : N; v_inline : N }.

Definition cens0 : cens := mkCens 0 0 0 0 0 0 0.
Definition cens_add (a b : cens) : cens :=
  mkCens (n_disk a + n_disk b) (n_mem a + n_mem b) (n_cached a + n_cached b)
         (v_disk a + v_disk b) (v_mem a + v_mem b) (v_cached a + v_cached b) (v_inline a + v_inline b).

Definition cens_v (ov : option sval) : cens :=
  match ov with
  | None => cens0
  | Some (_, VsInline) => mkCens 0 0 0 0 0 0 1
  | Some (_, VsDisk _) => mkCens 0 0 0 1 0 0 0
  | Some (_, VsMem) => mkCens 0 0 0 0 1 0 0
  | Some (_, VsCached _) => mkCens 0 0 0 0 0 1 0
  end.

Fixpoint census (t : stree) : cens :=
  match t with
  | SN s p ov cs =>
      match s with
      | StDisk _ => mkCens 1 0 0 0 0 0 0
      | StMem => cens_add (mkCens 0 1 0 0 0 0 0) (cens_add (cens_v ov) (census_f cs))
      | StCached _ => cens_add (mkCens 0 0 1 0 0 0 0) (cens_add (cens_v ov) (census_f cs))
      end
  end
with census_f (f : sforest) : cens :=
  match f with SNil => cens0 | SCons _ t r => cens_add (census t) (census_f r) end.

Definition census_root (r : option stree) : cens :=
  match r with Some t => census t | None => cens0 end.

(** "Nothing here lives in memory only": every node link of the subtree has a reference
    (Disk or Cached) and no long value is Memory - storing it again writes nothing.
    [good]: the invariant of the code ("a cached (on disk) node has children and values
    that are cached or on disk", low_level.rs 1649-1652): below a link that has a reference
    everything is [located]. *)
Definition v_settled (ov : option sval) : bool :=
  match ov with
  | Some (x, VsMem) | Some (x, VsInline) => lenN x <=? INLINE_VALUE_LEN
  | _ => true
  end.

Fixpoint located (t : stree) : bool :=
  match t with
  | SN s p ov cs =>
      (match s with StMem => false | _ => true end) && v_settled ov && located_f cs
  end
with located_f (f : sforest) : bool :=
  match f with SNil => true | SCons _ t r => located t && located_f r end.

Fixpoint good (t : stree) : bool :=
  match t with
  | SN s p ov cs =>
      match s with StMem => good_f cs | _ => v_settled ov && located_f cs end
  end
with good_f (f : sforest) : bool :=
  match f with SNil => true | SCons _ t r => good t && good_f r end.

Definition located_below (t : stree) : bool :=
  match t with SN _ _ ov cs => v_settled ov && located_f cs end.

Definition good_root (r : option stree) : bool :=
  match r with Some t => good t | None => true end.

(** * The machine of the persistence operations on a frozen state *)
Inductive sop := SoStore | SoLoad | SoCache | SoMigrate | SoSerial.

Record sstate := mkS { ss_store : store; ss_root : option stree }.

Definition cop_of (o : sop) : cop :=
  match o with
  | SoStore => CStore | SoLoad => CLoad | SoCache => CCache | SoMigrate => CMigrate | SoSerial => CSerial
  end.

Definition s_step (sha256 : list N -> list N) (o : sop) (s : sstate) : sstate :=
  match o with
  | SoStore => let '(st, kept, _, _) := s_store_update sha256 (ss_root s) (ss_store s) in mkS st kept
  | SoLoad => let '(st, _, loaded, _) := s_store_update sha256 (ss_root s) (ss_store s) in mkS st loaded
  | SoCache => mkS (ss_store s) (option_map s_cache (ss_root s))
  | SoMigrate => let '(st, r) := s_migrate sha256 (ss_root s) empty_store in mkS st r
  | SoSerial => mkS (ss_store s) (option_map (fun t => s_of_tree (erase (to_a t))) (ss_root s))
  end.

Fixpoint s_run (sha256 : list N -> list N) (ops : list sop) (s : sstate) : list (cens * N) :=
  match ops with
  | [] => []
  | o :: rest =>
      let s' := s_step sha256 o s in
      (census_root (ss_root s'), s_next (ss_store s')) :: s_run sha256 rest s'
  end.
