(** Copy-on-write at arena level: every operation of the current generation leaves the
    node / entry / value vectors below the checkpoint of that generation unchanged.
    Invariant [AInv]: what lies above the checkpoint is owned by the current generation
    (indices reachable through children vectors that belong to the node's own generation
    are above the checkpoint; shared children vectors are copied by [make_owned] before
    the walk descends). *)
From Coq Require Import NArith PeanoNat List Bool Lia.
From CB Require Import Trie.Radix.
From CB Require Import Trie.Locks.
From CB Require Import Trie.Arena.
From CB Require Import Trie.ArenaProofs.
Import ListNotations.
Local Open Scope nat_scope.

Definition cpn (a : arena) : nat := fst (fst (cur_checkpoint a)).
Definition cpv (a : arena) : nat := snd (fst (cur_checkpoint a)).
Definition cpe (a : arena) : nat := snd (cur_checkpoint a).
Definition gnum (a : arena) : nat := length (a_gens a) - 1.

Record AInv (a : arena) : Prop := {
  AI_len : cpn a <= length (a_nodes a) /\ cpv a <= length (a_values a) /\ cpe a <= length (a_entries a);
  AI_old : forall i, i < cpn a -> an_cgen (node_at a i) < gnum a;
  AI_sh : forall i, cpn a <= i -> an_cgen (node_at a i) <> an_gen (node_at a i) -> an_gen (node_at a i) = gnum a;
  AI_ch : forall i, cpn a <= i -> an_cgen (node_at a i) = an_gen (node_at a i) ->
          forall kc, In kc (an_ch (node_at a i)) -> cpn a <= snd kc;
  AI_val : forall i e, cpn a <= i -> an_val (node_at a i) = Some e -> cpe a <= e;
  AI_ent : forall e v, cpe a <= e -> nth e (a_entries a) EDeleted = EMutable v -> cpv a <= v;
  AI_root : forall r, cur_root a = Some r -> cpn a <= r;
  AI_le : forall i, an_cgen (node_at a i) <= gnum a /\ an_gen (node_at a i) <= gnum a
}.

(** [a'] differs from [a] only above the checkpoint of the current generation (and possibly in
    the root of the current generation). *)
Record Below (a a' : arena) : Prop := {
  B_cp : cur_checkpoint a' = cur_checkpoint a;
  B_glen : length (a_gens a') = length (a_gens a);
  B_older : removelast (a_gens a') = removelast (a_gens a);
  B_nodes : firstn (cpn a) (a_nodes a') = firstn (cpn a) (a_nodes a);
  B_values : firstn (cpv a) (a_values a') = firstn (cpv a) (a_values a);
  B_entries : firstn (cpe a) (a_entries a') = firstn (cpe a) (a_entries a)
}.

Lemma Below_refl a : Below a a.
Proof. constructor; reflexivity. Qed.

Lemma Below_cp_eq a a' : Below a a' -> cpn a' = cpn a /\ cpv a' = cpv a /\ cpe a' = cpe a /\ gnum a' = gnum a.
Proof. intros [C L _ _ _ _]. unfold cpn, cpv, cpe, gnum. rewrite C, L. auto. Qed.

Lemma Below_trans a b c : Below a b -> Below b c -> Below a c.
Proof.
  intros H1 H2. destruct (Below_cp_eq a b H1) as (E1 & E2 & E3 & _).
  destruct H1 as [C1 L1 O1 N1 V1 X1], H2 as [C2 L2 O2 N2 V2 X2].
  rewrite E1 in N2. rewrite E2 in V2. rewrite E3 in X2.
  constructor; congruence.
Qed.

(** * Primitive updates *)

Lemma nth_set_nth {A} (d : A) i x l j :
  nth j (set_nth i x l) d = if Nat.eqb i j then (if Nat.ltb i (length l) then x else nth j l d) else nth j l d.
Proof.
  revert i j. induction l as [|y l IH]; intros i j.
  - destruct i, j; cbn; try reflexivity. destruct (Nat.eqb i j); reflexivity.
  - destruct i as [|i], j as [|j]; cbn [set_nth nth Nat.eqb length]; try reflexivity.
    rewrite IH. change (Nat.ltb (S i) (S (length l))) with (Nat.ltb i (length l)). reflexivity.
Qed.

Lemma node_at_set_node a i n j :
  node_at (set_node a i n) j =
  if Nat.eqb i j then (if Nat.ltb i (length (a_nodes a)) then n else node_at a j) else node_at a j.
Proof. unfold node_at, set_node. cbn [a_nodes]. apply nth_set_nth. Qed.

Definition NodeOK (a : arena) (n : anode) : Prop :=
  (an_cgen n <> an_gen n -> an_gen n = gnum a)
  /\ (an_cgen n = an_gen n -> forall kc, In kc (an_ch n) -> cpn a <= snd kc)
  /\ (forall e, an_val n = Some e -> cpe a <= e)
  /\ (an_cgen n <= gnum a /\ an_gen n <= gnum a).

Lemma AInv_node a i : AInv a -> cpn a <= i -> NodeOK a (node_at a i).
Proof.
  intros H Hi. repeat split.
  - apply (AI_sh a H i Hi).
  - apply (AI_ch a H i Hi).
  - intros e. apply (AI_val a H i e Hi).
  - apply (AI_le a H i).
  - apply (AI_le a H i).
Qed.

Lemma NodeOK_default a : NodeOK a anode_default.
Proof. repeat split; cbn; try lia; try congruence. intros _ kc []. Qed.

(** Re-assemble the invariant from its parts when generations (hence checkpoints) are the same. *)
Lemma AInv_intro a :
  (cpn a <= length (a_nodes a) /\ cpv a <= length (a_values a) /\ cpe a <= length (a_entries a)) ->
  (forall i, i < cpn a -> an_cgen (node_at a i) < gnum a /\ an_gen (node_at a i) <= gnum a) ->
  (forall i, cpn a <= i -> NodeOK a (node_at a i)) ->
  (forall e v, cpe a <= e -> nth e (a_entries a) EDeleted = EMutable v -> cpv a <= v) ->
  (forall r, cur_root a = Some r -> cpn a <= r) ->
  AInv a.
Proof.
  intros H1 H2 H3 H4 H5. constructor; auto.
  - intros i Hi. apply H2. assumption.
  - intros i Hi. apply (H3 i Hi).
  - intros i Hi. apply (H3 i Hi).
  - intros i e Hi. apply (H3 i Hi).
  - intros i. destruct (Nat.lt_ge_cases i (cpn a)) as [Hlt|Hge].
    + destruct (H2 i Hlt). lia.
    + apply (H3 i Hge).
Qed.

Lemma AInv_old2 a i : AInv a -> i < cpn a -> an_cgen (node_at a i) < gnum a /\ an_gen (node_at a i) <= gnum a.
Proof. intros H Hi. split; [apply (AI_old a H i Hi) | apply (AI_le a H i)]. Qed.

Lemma firstn_app_le {A} n (l1 l2 : list A) : n <= length l1 -> firstn n (l1 ++ l2) = firstn n l1.
Proof. intros H. rewrite firstn_app. replace (n - length l1) with 0 by lia. cbn. apply app_nil_r. Qed.

Lemma nth_app_single {A} (d : A) l x j :
  nth j (l ++ [x]) d = if Nat.eqb j (length l) then x else nth j l d.
Proof.
  destruct (Nat.eqb_spec j (length l)) as [->|Hne].
  - rewrite app_nth2 by lia. rewrite Nat.sub_diag. reflexivity.
  - destruct (Nat.lt_ge_cases j (length l)).
    + apply app_nth1. assumption.
    + rewrite !nth_overflow; [reflexivity | lia | rewrite app_length; cbn; lia].
Qed.

Theorem set_node_ok a i n :
  AInv a -> cpn a <= i -> NodeOK a n -> AInv (set_node a i n) /\ Below a (set_node a i n).
Proof.
  intros H Hi Hn. split.
  - apply AInv_intro.
    + cbn [set_node a_nodes a_values a_entries]. rewrite set_nth_length. apply (AI_len a H).
    + intros j Hj. rewrite node_at_set_node.
      destruct (Nat.eqb_spec i j); [change (cpn (set_node a i n)) with (cpn a) in Hj; lia|].
      apply (AInv_old2 a j H Hj).
    + intros j Hj. rewrite node_at_set_node.
      destruct (Nat.eqb i j); [destruct (Nat.ltb i (length (a_nodes a)))|]; try exact Hn;
        apply (AInv_node a j H Hj).
    + apply (AI_ent a H).
    + apply (AI_root a H).
  - constructor; try reflexivity. cbn [set_node a_nodes]. apply firstn_set_nth_ge. assumption.
Qed.

Theorem push_node_ok a n :
  AInv a -> NodeOK a n -> AInv (push_node a n) /\ Below a (push_node a n).
Proof.
  intros H Hn. pose proof (AI_len a H) as (L1 & L2 & L3). split.
  - apply AInv_intro.
    + cbn [push_node a_nodes a_values a_entries]. rewrite app_length. cbn.
      change (cpn (push_node a n)) with (cpn a). change (cpv (push_node a n)) with (cpv a).
      change (cpe (push_node a n)) with (cpe a). lia.
    + intros j Hj. change (cpn (push_node a n)) with (cpn a) in Hj.
      unfold node_at. cbn [push_node a_nodes]. rewrite nth_app_single.
      destruct (Nat.eqb_spec j (length (a_nodes a))); [lia|]. apply (AInv_old2 a j H Hj).
    + intros j Hj. unfold node_at. cbn [push_node a_nodes]. rewrite nth_app_single.
      destruct (Nat.eqb j (length (a_nodes a))); [exact Hn | apply (AInv_node a j H Hj)].
    + apply (AI_ent a H).
    + apply (AI_root a H).
  - constructor; try reflexivity. cbn [push_node a_nodes]. apply firstn_app_le. assumption.
Qed.

Theorem push_entry_ok a e :
  AInv a -> (forall v, e = EMutable v -> cpv a <= v) -> AInv (push_entry a e) /\ Below a (push_entry a e).
Proof.
  intros H He. pose proof (AI_len a H) as (L1 & L2 & L3). split.
  - apply AInv_intro.
    + cbn [push_entry a_nodes a_values a_entries]. rewrite app_length. cbn.
      change (cpn (push_entry a e)) with (cpn a). change (cpv (push_entry a e)) with (cpv a).
      change (cpe (push_entry a e)) with (cpe a). lia.
    + apply (AInv_old2 a). assumption.
    + apply (AInv_node a). assumption.
    + intros e' v Hge Hnth. cbn [push_entry a_entries] in Hnth. rewrite nth_app_single in Hnth.
      destruct (Nat.eqb e' (length (a_entries a))); [apply He; assumption | apply (AI_ent a H e' v Hge Hnth)].
    + apply (AI_root a H).
  - constructor; try reflexivity. cbn [push_entry a_entries]. apply firstn_app_le. assumption.
Qed.

Theorem set_entry_ok a i e :
  AInv a -> cpe a <= i -> (forall v, e = EMutable v -> cpv a <= v) ->
  AInv (set_entry a i e) /\ Below a (set_entry a i e).
Proof.
  intros H Hi He. split.
  - apply AInv_intro.
    + cbn [set_entry a_nodes a_values a_entries]. rewrite set_nth_length. apply (AI_len a H).
    + apply (AInv_old2 a). assumption.
    + apply (AInv_node a). assumption.
    + intros e' v Hge Hnth. cbn [set_entry a_entries] in Hnth. rewrite nth_set_nth in Hnth.
      destruct (Nat.eqb i e'); [destruct (Nat.ltb i (length (a_entries a)))|];
        try (apply He; assumption); apply (AI_ent a H e' v Hge Hnth).
    + apply (AI_root a H).
  - constructor; try reflexivity. cbn [set_entry a_entries]. apply firstn_set_nth_ge. assumption.
Qed.

Theorem push_value_ok a v : AInv a -> AInv (push_value a v) /\ Below a (push_value a v).
Proof.
  intros H. pose proof (AI_len a H) as (L1 & L2 & L3). split.
  - apply AInv_intro.
    + cbn [push_value a_nodes a_values a_entries]. rewrite app_length. cbn.
      change (cpn (push_value a v)) with (cpn a). change (cpv (push_value a v)) with (cpv a).
      change (cpe (push_value a v)) with (cpe a). lia.
    + apply (AInv_old2 a). assumption.
    + apply (AInv_node a). assumption.
    + apply (AI_ent a H).
    + apply (AI_root a H).
  - constructor; try reflexivity. cbn [push_value a_values]. apply firstn_app_le. assumption.
Qed.

Theorem set_value_ok a i v : AInv a -> cpv a <= i -> AInv (set_value a i v) /\ Below a (set_value a i v).
Proof.
  intros H Hi. split.
  - apply AInv_intro.
    + cbn [set_value a_nodes a_values a_entries]. rewrite set_nth_length. apply (AI_len a H).
    + apply (AInv_old2 a). assumption.
    + apply (AInv_node a). assumption.
    + apply (AI_ent a H).
    + apply (AI_root a H).
  - constructor; try reflexivity. cbn [set_value a_values]. apply firstn_set_nth_ge. assumption.
Qed.
