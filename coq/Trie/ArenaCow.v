(** Copy-on-write at arena level: every operation of the current generation leaves the
    node / entry / value vectors below the checkpoint of that generation unchanged.
    Invariant [AInv]: what lies above the checkpoint is owned by the current generation
    (indices reachable through children vectors that belong to the node's own generation
    are above the checkpoint; shared children vectors are copied by [make_owned] before
    the walk descends). *)
From Coq Require Import NArith PeanoNat List Bool Lia.
From CB Require Import Trie.Radix.
From CB Require Import Trie.RadixProofs.
From CB Require Import Trie.Locks.
From CB Require Import Trie.LocksProofs.
From CB Require Import Trie.Arena.
From CB Require Import Trie.ArenaProofs.
Import ListNotations.
Local Open Scope nat_scope.

Definition cpn (a : arena) : nat := fst (fst (cur_checkpoint a)).
Definition cpv (a : arena) : nat := snd (fst (cur_checkpoint a)).
Definition cpe (a : arena) : nat := snd (cur_checkpoint a).
Definition gnum (a : arena) : nat := length (a_gens a) - 1.

Record AInv (a : arena) : Prop := {
  AI_len : cpn a <= length (a_nodes a) /\ cpv a <= length (a_values a) /\ cpe a <= length (a_entries a);
  AI_old : forall i, i < cpn a -> an_cgen (node_at a i) < gnum a;
  AI_sh : forall i, cpn a <= i -> an_cgen (node_at a i) <> an_gen (node_at a i) -> an_gen (node_at a i) = gnum a;
  AI_ch : forall i, cpn a <= i -> an_cgen (node_at a i) = an_gen (node_at a i) ->
          forall kc, In kc (an_ch (node_at a i)) -> cpn a <= snd kc;
  AI_val : forall i e, cpn a <= i -> an_val (node_at a i) = Some e -> cpe a <= e;
  AI_ent : forall e v, cpe a <= e -> nth e (a_entries a) EDeleted = EMutable v -> cpv a <= v;
  AI_root : forall r, cur_root a = Some r -> cpn a <= r;
  AI_le : forall i, an_cgen (node_at a i) <= gnum a /\ an_gen (node_at a i) <= gnum a
}.

(** [a'] differs from [a] only above the checkpoint of the current generation (and possibly in
    the root of the current generation). *)
Record Below (a a' : arena) : Prop := {
  B_cp : cur_checkpoint a' = cur_checkpoint a;
  B_glen : length (a_gens a') = length (a_gens a);
  B_older : removelast (a_gens a') = removelast (a_gens a);
  B_nodes : firstn (cpn a) (a_nodes a') = firstn (cpn a) (a_nodes a);
  B_values : firstn (cpv a) (a_values a') = firstn (cpv a) (a_values a);
  B_entries : firstn (cpe a) (a_entries a') = firstn (cpe a) (a_entries a)
}.

Lemma Below_refl a : Below a a.
Proof. constructor; reflexivity. Qed.

Lemma Below_cp_eq a a' : Below a a' -> cpn a' = cpn a /\ cpv a' = cpv a /\ cpe a' = cpe a /\ gnum a' = gnum a.
Proof. intros [C L _ _ _ _]. unfold cpn, cpv, cpe, gnum. rewrite C, L. auto. Qed.

Lemma Below_trans a b c : Below a b -> Below b c -> Below a c.
Proof.
  intros H1 H2. destruct (Below_cp_eq a b H1) as (E1 & E2 & E3 & _).
  destruct H1 as [C1 L1 O1 N1 V1 X1], H2 as [C2 L2 O2 N2 V2 X2].
  rewrite E1 in N2. rewrite E2 in V2. rewrite E3 in X2.
  constructor; congruence.
Qed.

(** * Primitive updates *)

Lemma nth_set_nth {A} (d : A) i x l j :
  nth j (set_nth i x l) d = if Nat.eqb i j then (if Nat.ltb i (length l) then x else nth j l d) else nth j l d.
Proof.
  revert i j. induction l as [|y l IH]; intros i j.
  - destruct i, j; cbn; try reflexivity. destruct (Nat.eqb i j); reflexivity.
  - destruct i as [|i], j as [|j]; cbn [set_nth nth Nat.eqb length]; try reflexivity.
    rewrite IH. change (Nat.ltb (S i) (S (length l))) with (Nat.ltb i (length l)). reflexivity.
Qed.

Lemma node_at_set_node a i n j :
  node_at (set_node a i n) j =
  if Nat.eqb i j then (if Nat.ltb i (length (a_nodes a)) then n else node_at a j) else node_at a j.
Proof. unfold node_at, set_node. cbn [a_nodes]. apply nth_set_nth. Qed.

Definition NodeOK (a : arena) (n : anode) : Prop :=
  (an_cgen n <> an_gen n -> an_gen n = gnum a)
  /\ (an_cgen n = an_gen n -> forall kc, In kc (an_ch n) -> cpn a <= snd kc)
  /\ (forall e, an_val n = Some e -> cpe a <= e)
  /\ (an_cgen n <= gnum a /\ an_gen n <= gnum a).

Lemma AInv_node a i : AInv a -> cpn a <= i -> NodeOK a (node_at a i).
Proof.
  intros H Hi. repeat split.
  - apply (AI_sh a H i Hi).
  - apply (AI_ch a H i Hi).
  - intros e. apply (AI_val a H i e Hi).
  - apply (AI_le a H i).
  - apply (AI_le a H i).
Qed.

Lemma NodeOK_default a : NodeOK a anode_default.
Proof. repeat split; cbn; try lia; try congruence; intros _ kc []. Qed.

(** Re-assemble the invariant from its parts when generations (hence checkpoints) are the same. *)
Lemma AInv_intro a :
  (cpn a <= length (a_nodes a) /\ cpv a <= length (a_values a) /\ cpe a <= length (a_entries a)) ->
  (forall i, i < cpn a -> an_cgen (node_at a i) < gnum a /\ an_gen (node_at a i) <= gnum a) ->
  (forall i, cpn a <= i -> NodeOK a (node_at a i)) ->
  (forall e v, cpe a <= e -> nth e (a_entries a) EDeleted = EMutable v -> cpv a <= v) ->
  (forall r, cur_root a = Some r -> cpn a <= r) ->
  AInv a.
Proof.
  intros H1 H2 H3 H4 H5. constructor; auto.
  - intros i Hi. apply H2. assumption.
  - intros i Hi. apply (H3 i Hi).
  - intros i Hi. apply (H3 i Hi).
  - intros i e Hi. apply (H3 i Hi).
  - intros i. destruct (Nat.lt_ge_cases i (cpn a)) as [Hlt|Hge].
    + destruct (H2 i Hlt). lia.
    + apply (H3 i Hge).
Qed.

Lemma AInv_old2 a i : AInv a -> i < cpn a -> an_cgen (node_at a i) < gnum a /\ an_gen (node_at a i) <= gnum a.
Proof. intros H Hi. split; [apply (AI_old a H i Hi) | apply (AI_le a H i)]. Qed.

Lemma firstn_app_le {A} n (l1 l2 : list A) : n <= length l1 -> firstn n (l1 ++ l2) = firstn n l1.
Proof. intros H. rewrite firstn_app. replace (n - length l1) with 0 by lia. cbn. apply app_nil_r. Qed.

Lemma nth_app_single {A} (d : A) l x j :
  nth j (l ++ [x]) d = if Nat.eqb j (length l) then x else nth j l d.
Proof.
  destruct (Nat.eqb_spec j (length l)) as [->|Hne].
  - rewrite app_nth2 by lia. rewrite Nat.sub_diag. reflexivity.
  - destruct (Nat.lt_ge_cases j (length l)).
    + apply app_nth1. assumption.
    + rewrite !nth_overflow; [reflexivity | lia | rewrite app_length; cbn; lia].
Qed.

Theorem set_node_ok a i n :
  AInv a -> cpn a <= i -> NodeOK a n -> AInv (set_node a i n) /\ Below a (set_node a i n).
Proof.
  intros H Hi Hn. split.
  - apply AInv_intro.
    + cbn [set_node a_nodes a_values a_entries]. rewrite set_nth_length. apply (AI_len a H).
    + intros j Hj. rewrite node_at_set_node.
      destruct (Nat.eqb_spec i j); [change (cpn (set_node a i n)) with (cpn a) in Hj; lia|].
      apply (AInv_old2 a j H Hj).
    + intros j Hj. rewrite node_at_set_node.
      destruct (Nat.eqb i j); [destruct (Nat.ltb i (length (a_nodes a)))|]; try exact Hn;
        apply (AInv_node a j H Hj).
    + apply (AI_ent a H).
    + apply (AI_root a H).
  - constructor; try reflexivity. cbn [set_node a_nodes]. apply firstn_set_nth_ge. assumption.
Qed.

Theorem push_node_ok a n :
  AInv a -> NodeOK a n -> AInv (push_node a n) /\ Below a (push_node a n).
Proof.
  intros H Hn. pose proof (AI_len a H) as (L1 & L2 & L3). split.
  - apply AInv_intro.
    + cbn [push_node a_nodes a_values a_entries]. rewrite app_length. cbn.
      change (cpn (push_node a n)) with (cpn a). change (cpv (push_node a n)) with (cpv a).
      change (cpe (push_node a n)) with (cpe a). lia.
    + intros j Hj. change (cpn (push_node a n)) with (cpn a) in Hj.
      unfold node_at. cbn [push_node a_nodes]. rewrite nth_app_single.
      destruct (Nat.eqb_spec j (length (a_nodes a))); [lia|]. apply (AInv_old2 a j H Hj).
    + intros j Hj. unfold node_at. cbn [push_node a_nodes]. rewrite nth_app_single.
      destruct (Nat.eqb j (length (a_nodes a))); [exact Hn | apply (AInv_node a j H Hj)].
    + apply (AI_ent a H).
    + apply (AI_root a H).
  - constructor; try reflexivity. cbn [push_node a_nodes]. apply firstn_app_le. assumption.
Qed.

Theorem push_entry_ok a e :
  AInv a -> (forall v, e = EMutable v -> cpv a <= v) -> AInv (push_entry a e) /\ Below a (push_entry a e).
Proof.
  intros H He. pose proof (AI_len a H) as (L1 & L2 & L3). split.
  - apply AInv_intro.
    + cbn [push_entry a_nodes a_values a_entries]. rewrite app_length. cbn.
      change (cpn (push_entry a e)) with (cpn a). change (cpv (push_entry a e)) with (cpv a).
      change (cpe (push_entry a e)) with (cpe a). lia.
    + intros j Hj. apply (AInv_old2 a j H Hj).
    + intros j Hj. apply (AInv_node a j H Hj).
    + intros e' v Hge Hnth. cbn [push_entry a_entries] in Hnth. rewrite nth_app_single in Hnth.
      destruct (Nat.eqb e' (length (a_entries a))); [apply He; assumption | apply (AI_ent a H e' v Hge Hnth)].
    + apply (AI_root a H).
  - constructor; try reflexivity. cbn [push_entry a_entries]. apply firstn_app_le. assumption.
Qed.

Theorem set_entry_ok a i e :
  AInv a -> cpe a <= i -> (forall v, e = EMutable v -> cpv a <= v) ->
  AInv (set_entry a i e) /\ Below a (set_entry a i e).
Proof.
  intros H Hi He. split.
  - apply AInv_intro.
    + cbn [set_entry a_nodes a_values a_entries]. rewrite set_nth_length. apply (AI_len a H).
    + intros j Hj. apply (AInv_old2 a j H Hj).
    + intros j Hj. apply (AInv_node a j H Hj).
    + intros e' v Hge Hnth. cbn [set_entry a_entries] in Hnth. rewrite nth_set_nth in Hnth.
      destruct (Nat.eqb i e'); [destruct (Nat.ltb i (length (a_entries a)))|];
        try (apply He; assumption); apply (AI_ent a H e' v Hge Hnth).
    + apply (AI_root a H).
  - constructor; try reflexivity. cbn [set_entry a_entries]. apply firstn_set_nth_ge. assumption.
Qed.

Theorem push_value_ok a v : AInv a -> AInv (push_value a v) /\ Below a (push_value a v).
Proof.
  intros H. pose proof (AI_len a H) as (L1 & L2 & L3). split.
  - apply AInv_intro.
    + cbn [push_value a_nodes a_values a_entries]. rewrite app_length. cbn.
      change (cpn (push_value a v)) with (cpn a). change (cpv (push_value a v)) with (cpv a).
      change (cpe (push_value a v)) with (cpe a). lia.
    + intros j Hj. apply (AInv_old2 a j H Hj).
    + intros j Hj. apply (AInv_node a j H Hj).
    + apply (AI_ent a H).
    + apply (AI_root a H).
  - constructor; try reflexivity. cbn [push_value a_values]. apply firstn_app_le. assumption.
Qed.

Theorem set_value_ok a i v : AInv a -> cpv a <= i -> AInv (set_value a i v) /\ Below a (set_value a i v).
Proof.
  intros H Hi. split.
  - apply AInv_intro.
    + cbn [set_value a_nodes a_values a_entries]. rewrite set_nth_length. apply (AI_len a H).
    + intros j Hj. apply (AInv_old2 a j H Hj).
    + intros j Hj. apply (AInv_node a j H Hj).
    + apply (AI_ent a H).
    + apply (AI_root a H).
  - constructor; try reflexivity. cbn [set_value a_values]. apply firstn_set_nth_ge. assumption.
Qed.

(** * Chaining *)

Definition Ok (a a' : arena) : Prop :=
  AInv a' /\ Below a a' /\ length (a_nodes a) <= length (a_nodes a').

Lemma Ok_refl a : AInv a -> Ok a a.
Proof. intros H. split; [exact H|]. split; [apply Below_refl | lia]. Qed.

Lemma Ok_trans a b c : Ok a b -> Ok b c -> Ok a c.
Proof. intros (H1 & B1 & L1) (H2 & B2 & L2). split; [exact H2|]. split; [eapply Below_trans; eassumption | lia]. Qed.

Lemma NodeOK_below a a' n : Below a a' -> NodeOK a n -> NodeOK a' n.
Proof.
  intros B. destruct (Below_cp_eq a a' B) as (E1 & E2 & E3 & E4). unfold NodeOK. rewrite E1, E3, E4. auto.
Qed.

Lemma Ok_set_node a i n : AInv a -> cpn a <= i -> NodeOK a n -> Ok a (set_node a i n).
Proof.
  intros H Hi Hn. destruct (set_node_ok a i n H Hi Hn). split; [assumption|]. split; [assumption|].
  cbn [set_node a_nodes]. rewrite set_nth_length. lia.
Qed.

Lemma Ok_push_node a n : AInv a -> NodeOK a n -> Ok a (push_node a n).
Proof.
  intros H Hn. destruct (push_node_ok a n H Hn). split; [assumption|]. split; [assumption|].
  cbn [push_node a_nodes]. rewrite app_length. lia.
Qed.

Lemma Ok_push_entry a e : AInv a -> (forall v, e = EMutable v -> cpv a <= v) -> Ok a (push_entry a e).
Proof. intros H He. destruct (push_entry_ok a e H He). split; [assumption|]. split; [assumption | cbn; lia]. Qed.

Lemma Ok_set_entry a i e :
  AInv a -> cpe a <= i -> (forall v, e = EMutable v -> cpv a <= v) -> Ok a (set_entry a i e).
Proof. intros H Hi He. destruct (set_entry_ok a i e H Hi He). split; [assumption|]. split; [assumption | cbn; lia]. Qed.

Lemma Ok_push_value a v : AInv a -> Ok a (push_value a v).
Proof. intros H. destruct (push_value_ok a v H). split; [assumption|]. split; [assumption | cbn; lia]. Qed.

Lemma Ok_set_value a i v : AInv a -> cpv a <= i -> Ok a (set_value a i v).
Proof. intros H Hi. destruct (set_value_ok a i v H Hi). split; [assumption|]. split; [assumption | cbn; lia]. Qed.

(** * The root of the current generation *)

Lemma gens_last a : a_gens a <> [] -> exists older g, a_gens a = older ++ [g] /\ rev (a_gens a) = g :: rev older.
Proof.
  intros Hne. destruct (exists_last Hne) as (older & g & E). exists older, g. split; [exact E|].
  rewrite E, rev_app_distr. reflexivity.
Qed.

Lemma set_root_shape a r :
  a_gens a <> [] ->
  exists older g, a_gens a = older ++ [g]
    /\ a_gens (set_root a r) = older ++ [mkAG r (ag_nodes g) (ag_values g) (ag_entries g)]
    /\ a_nodes (set_root a r) = a_nodes a /\ a_values (set_root a r) = a_values a
    /\ a_entries (set_root a r) = a_entries a.
Proof.
  intros Hne. destruct (gens_last a Hne) as (older & g & E & Er). exists older, g.
  unfold set_root. rewrite Er. cbn [a_gens a_nodes a_values a_entries].
  split; [exact E|]. split; [|auto]. cbn [rev]. rewrite rev_involutive. reflexivity.
Qed.

Lemma removelast_app_single {A} (l : list A) x : removelast (l ++ [x]) = l.
Proof. rewrite removelast_app by discriminate. cbn. apply app_nil_r. Qed.

Theorem Ok_set_root a r :
  AInv a -> (forall r', r = Some r' -> cpn a <= r') -> Ok a (set_root a r).
Proof.
  intros H Hr. destruct (a_gens a) as [|g0 gs] eqn:Eg.
  - assert (E : set_root a r = a) by (unfold set_root; rewrite Eg; reflexivity). rewrite E. apply Ok_refl. exact H.
  - assert (Hne : a_gens a <> []) by (rewrite Eg; discriminate).
    destruct (set_root_shape a r Hne) as (older & g & E1 & E2 & En & Ev & Ee).
    assert (Ecp : cur_checkpoint (set_root a r) = cur_checkpoint a).
    { unfold cur_checkpoint. rewrite E1, E2, !rev_app_distr. reflexivity. }
    assert (Egl : length (a_gens (set_root a r)) = length (a_gens a)).
    { rewrite E1, E2, !app_length. reflexivity. }
    assert (Ecr : cur_root (set_root a r) = r).
    { unfold cur_root. rewrite E2, rev_app_distr. reflexivity. }
    assert (C1 : cpn (set_root a r) = cpn a) by (unfold cpn; rewrite Ecp; reflexivity).
    assert (C2 : cpv (set_root a r) = cpv a) by (unfold cpv; rewrite Ecp; reflexivity).
    assert (C3 : cpe (set_root a r) = cpe a) by (unfold cpe; rewrite Ecp; reflexivity).
    assert (C4 : gnum (set_root a r) = gnum a) by (unfold gnum; rewrite Egl; reflexivity).
    assert (Nd : forall i, node_at (set_root a r) i = node_at a i) by (intros i; unfold node_at; rewrite En; reflexivity).
    split; [|split].
    + apply AInv_intro; rewrite ?C1, ?C2, ?C3, ?C4, ?En, ?Ev, ?Ee.
      * apply (AI_len a H).
      * intros i Hi. rewrite Nd. apply (AInv_old2 a i H Hi).
      * intros i Hi. rewrite Nd. pose proof (AInv_node a i H Hi) as X. unfold NodeOK in *. rewrite C1, C3, C4. exact X.
      * apply (AI_ent a H).
      * intros r' Hr'. rewrite Ecr in Hr'. apply Hr. exact Hr'.
    + constructor; rewrite ?En, ?Ev, ?Ee; try reflexivity; try assumption.
      rewrite E1, E2, !removelast_app_single. reflexivity.
    + rewrite En. lia.
Qed.

(** * [migrate] and [make_owned] *)

Lemma src_ok a c kc : AInv a -> an_cgen (node_at a c) = gnum a -> In kc (an_ch (node_at a c)) -> cpn a <= snd kc.
Proof.
  intros H Hc Hin. destruct (Nat.lt_ge_cases c (cpn a)) as [Hlt|Hge].
  - pose proof (AI_old a H c Hlt). lia.
  - destruct (Nat.eq_dec (an_cgen (node_at a c)) (an_gen (node_at a c))) as [E|E].
    + apply (AI_ch a H c Hge E kc Hin).
    + pose proof (AI_sh a H c Hge E). congruence.
Qed.

Lemma migrate_ok a c :
  AInv a ->
  let '(a', n') := migrate a (node_at a c) (gnum a) in
  Ok a a' /\ NodeOK a n' /\ a_nodes a' = a_nodes a /\ an_gen n' = gnum a.
Proof.
  intros H. pose proof (AI_len a H) as (L1 & L2 & L3). unfold migrate.
  destruct (an_val (node_at a c)) as [idx|] eqn:Ev.
  - split; [|split; [|split; reflexivity]].
    + apply Ok_push_entry; [exact H|]. intros v E. destruct (nth idx (a_entries a) EDeleted); discriminate.
    + unfold NodeOK. cbn [an_gen an_cgen an_ch an_val]. split; [reflexivity|]. split; [|split].
      * intros E kc Hin. apply (src_ok a c kc H E Hin).
      * intros e E. inversion E. lia.
      * split; [apply (AI_le a H c) | lia].
  - split; [apply Ok_refl; exact H|]. split; [|split; reflexivity].
    unfold NodeOK. cbn [an_gen an_cgen an_ch an_val]. split; [reflexivity|]. split; [|split].
    + intros E kc Hin. apply (src_ok a c kc H E Hin).
    + discriminate.
    + split; [apply (AI_le a H c) | lia].
Qed.

Lemma node_at_same_nodes a a' i : a_nodes a' = a_nodes a -> node_at a' i = node_at a i.
Proof. intros E. unfold node_at. rewrite E. reflexivity. Qed.

Lemma migrate_children_ok : forall ch a next,
  AInv a ->
  let '(a', ns, cs) := migrate_children a (gnum a) next ch in
  Ok a a' /\ Forall (NodeOK a) ns /\ a_nodes a' = a_nodes a
  /\ (forall kc, In kc cs -> next <= snd kc).
Proof.
  induction ch as [|[k i] ch IH]; intros a next H; cbn [migrate_children].
  - split; [apply Ok_refl; exact H|]. split; [constructor|]. split; [reflexivity | intros kc []].
  - pose proof (migrate_ok a i H) as M. destruct (migrate a (node_at a i) (gnum a)) as [a1 n'].
    destruct M as (O1 & N1 & E1 & _). destruct O1 as (H1 & B1 & Ln1).
    destruct (Below_cp_eq a a1 B1) as (_ & _ & _ & Eg).
    specialize (IH a1 (S next) H1). rewrite Eg in IH.
    (* the remaining children are read from the same node vector *)
    assert (X : migrate_children a1 (gnum a) (S next) ch = migrate_children a1 (gnum a) (S next) ch) by reflexivity.
    destruct (migrate_children a1 (gnum a) (S next) ch) as [[a2 ns] cs].
    destruct IH as (O2 & N2 & E2 & C2). split; [|split; [|split]].
    + eapply Ok_trans; [|exact O2]. split; [exact H1|]. split; [exact B1 | exact Ln1].
    + constructor; [exact N1|]. eapply Forall_impl; [|exact N2]. intros n Hn.
      unfold NodeOK in *. destruct (Below_cp_eq a a1 B1) as (F1 & _ & F3 & F4). rewrite F1, F3, F4 in Hn. exact Hn.
    + congruence.
    + intros kc [<-|Hin]; [cbn; lia|]. specialize (C2 kc Hin). lia.
Qed.

Lemma Ok_push_nodes : forall ns a,
  AInv a -> Forall (NodeOK a) ns ->
  Ok a (mkA (a_gens a) (a_entries a) (a_values a) (a_nodes a ++ ns)).
Proof.
  induction ns as [|n ns IH]; intros a H Hns.
  - rewrite app_nil_r. destruct a. apply Ok_refl. exact H.
  - inversion Hns as [|? ? Hn Hns']; subst.
    pose proof (Ok_push_node a n H Hn) as O1. destruct O1 as (H1 & B1 & L1).
    assert (Hns1 : Forall (NodeOK (push_node a n)) ns).
    { eapply Forall_impl; [|exact Hns']. intros x. apply NodeOK_below. exact B1. }
    specialize (IH (push_node a n) H1 Hns1). cbn [push_node a_gens a_entries a_values a_nodes] in IH.
    rewrite <- app_assoc in IH. cbn [app] in IH.
    eapply Ok_trans; [|exact IH]. split; [exact H1|]. split; assumption.
Qed.

Theorem make_owned_ok a idx :
  AInv a -> cpn a <= idx ->
  Ok a (make_owned a idx)
  /\ an_cgen (node_at (make_owned a idx) idx) = an_gen (node_at (make_owned a idx) idx).
Proof.
  intros H Hi. unfold make_owned.
  destruct (Nat.eqb_spec (an_cgen (node_at a idx)) (an_gen (node_at a idx))) as [E|E].
  - split; [apply Ok_refl; exact H | exact E].
  - pose proof (AI_sh a H idx Hi E) as Hg.
    assert (Hlt : idx < length (a_nodes a)).
    { destruct (Nat.lt_ge_cases idx (length (a_nodes a))) as [X|X]; [exact X|].
      exfalso. apply E. unfold node_at. rewrite nth_overflow by exact X. reflexivity. }
    rewrite Hg.
    pose proof (migrate_children_ok (an_ch (node_at a idx)) a (length (a_nodes a)) H) as M.
    destruct (migrate_children a (gnum a) (length (a_nodes a)) (an_ch (node_at a idx))) as [[a1 ns] cs].
    destruct M as ((H1 & B1 & L1) & Nns & En & Ccs).
    destruct (Below_cp_eq a a1 B1) as (F1 & F2 & F3 & F4).
    assert (Nns1 : Forall (NodeOK a1) ns).
    { eapply Forall_impl; [|exact Nns]. intros x. apply NodeOK_below. exact B1. }
    pose proof (Ok_push_nodes ns a1 H1 Nns1) as (H2 & B2 & L2).
    set (a2 := mkA (a_gens a1) (a_entries a1) (a_values a1) (a_nodes a1 ++ ns)) in *.
    destruct (Below_cp_eq a1 a2 B2) as (G1 & G2 & G3 & G4).
    assert (Hn : NodeOK a2 (mkAN (gnum a) (an_val (node_at a idx)) (an_path (node_at a idx)) (gnum a) cs)).
    { unfold NodeOK. cbn [an_gen an_cgen an_ch an_val]. rewrite G1, G3, G4, F1, F3, F4.
      split; [congruence|]. split; [|split].
      - intros _ kc Hin. specialize (Ccs kc Hin). pose proof (AI_len a H). lia.
      - intros e Ee. apply (AI_val a H idx e Hi Ee).
      - lia. }
    assert (Hi2 : cpn a2 <= idx) by (rewrite G1, F1; exact Hi).
    pose proof (Ok_set_node a2 idx _ H2 Hi2 Hn) as O3.
    split.
    + eapply Ok_trans; [split; [exact H1|split; [exact B1|exact L1]]|].
      eapply Ok_trans; [split; [exact H2|split; [exact B2|exact L2]]|]. exact O3.
    + rewrite node_at_set_node, Nat.eqb_refl.
      assert (X : Nat.ltb idx (length (a_nodes a2)) = true).
      { apply Nat.ltb_lt. unfold a2. cbn [a_nodes]. rewrite app_length, En. lia. }
      rewrite X. reflexivity.
Qed.

(** After [make_owned] the children of the node are above the checkpoint. *)
Corollary make_owned_children a idx kc :
  AInv a -> cpn a <= idx -> In kc (an_ch (node_at (make_owned a idx) idx)) -> cpn a <= snd kc.
Proof.
  intros H Hi Hin. destruct (make_owned_ok a idx H Hi) as ((H1 & B1 & _) & E).
  destruct (Below_cp_eq _ _ B1) as (F1 & _). rewrite <- F1.
  apply (AI_ch _ H1 idx); [rewrite F1; exact Hi | exact E | exact Hin].
Qed.

Lemma find_child_in c ch pos p i : find_child c ch pos = Some (p, i) -> exists k, In (k, i) ch.
Proof.
  revert pos. induction ch as [|[k j] ch IH]; intros pos H; cbn in H; [discriminate|].
  destruct (N.eqb c k).
  - inversion H; subst. exists k. left. reflexivity.
  - destruct (IH _ H) as [k' Hk]. exists k'. right. exact Hk.
Qed.

(** * Helpers for the operations *)

Lemma Ok_cp a a' : Ok a a' -> cpn a' = cpn a /\ cpv a' = cpv a /\ cpe a' = cpe a /\ gnum a' = gnum a.
Proof. intros (_ & B & _). apply Below_cp_eq. exact B. Qed.

Lemma NodeOK_ok a a' n : Ok a a' -> NodeOK a n -> NodeOK a' n.
Proof. intros (_ & B & _). apply NodeOK_below. exact B. Qed.

Lemma NodeOK_with_children a n ch' :
  NodeOK a n -> (forall kc, In kc ch' -> In kc (an_ch n) \/ cpn a <= snd kc) -> NodeOK a (with_children n ch').
Proof.
  intros (N1 & N2 & N3 & N4) Hch. unfold NodeOK, with_children. cbn [an_gen an_cgen an_ch an_val].
  split; [exact N1|]. split; [|split; assumption].
  intros E kc Hin. destruct (Hch kc Hin) as [X|X]; [apply (N2 E kc X) | exact X].
Qed.

Lemma NodeOK_with_path a n p : NodeOK a n -> NodeOK a (with_path n p).
Proof. intros X. exact X. Qed.

Lemma NodeOK_with_val a n v : NodeOK a n -> (forall e, v = Some e -> cpe a <= e) -> NodeOK a (with_val n v).
Proof.
  intros (N1 & N2 & N3 & N4) Hv. unfold NodeOK, with_val. cbn [an_gen an_cgen an_ch an_val]. auto.
Qed.

Lemma In_set_child_index pos i ch kc : In kc (set_child_index pos i ch) -> In kc ch \/ snd kc = i.
Proof.
  revert pos. induction ch as [|[k j] ch IH]; intros pos H; [destruct pos; destruct H|].
  destruct pos as [|pos]; cbn in H.
  - destruct H as [<-|H]; [right; reflexivity | left; right; exact H].
  - destruct H as [<-|H]; [left; left; reflexivity|]. destruct (IH pos H); [left; right; assumption | right; assumption].
Qed.

Lemma In_insert_child c i ch kc : In kc (insert_child c i ch) -> In kc ch \/ snd kc = i.
Proof.
  induction ch as [|[k j] ch IH]; cbn; intros H.
  - destruct H as [<-|[]]. right. reflexivity.
  - destruct (N.ltb c k).
    + destruct H as [<-|H]; [right; reflexivity | left; exact H].
    + destruct H as [<-|H]; [left; left; reflexivity|]. destruct (IH H); [left; right; assumption | right; assumption].
Qed.

Lemma In_remove_nth {A} pos (l : list A) x : In x (remove_nth pos l) -> In x l.
Proof.
  revert pos. induction l as [|y l IH]; intros pos H; [destruct pos; destruct H|].
  destruct pos as [|pos]; cbn in H; [right; exact H|].
  destruct H as [<-|H]; [left; reflexivity | right; apply (IH pos H)].
Qed.

Lemma nth_error_nth' {A} (l : list A) n x d : nth_error l n = Some x -> nth n l d = x.
Proof. revert n. induction l as [|y l IH]; intros [|n] H; cbn in *; try discriminate; [congruence | auto]. Qed.

(** * Entries *)

Lemma new_entry_ok a v :
  AInv a ->
  Ok a (fst (new_entry a v)) /\ cpe a <= snd (new_entry a v)
  /\ a_nodes (fst (new_entry a v)) = a_nodes a.
Proof.
  intros H. unfold new_entry. cbn [fst snd]. pose proof (AI_len a H) as (L1 & L2 & L3).
  split; [|split; [exact L3 | reflexivity]].
  pose proof (Ok_push_value a v H) as O1.
  eapply Ok_trans; [exact O1|]. apply Ok_push_entry; [apply O1|].
  intros x E. inversion E. destruct (Ok_cp _ _ O1) as (_ & F2 & _). rewrite F2. exact L2.
Qed.

Lemma set_entry_value_ok a e v : AInv a -> cpe a <= e -> Ok a (a_set_entry_value a e v).
Proof.
  intros H He. unfold a_set_entry_value. pose proof (AI_len a H) as (L1 & L2 & L3).
  destruct (nth e (a_entries a) EDeleted) as [i|i|] eqn:E.
  - pose proof (Ok_push_value a v H) as O1. eapply Ok_trans; [exact O1|].
    destruct (Ok_cp _ _ O1) as (_ & F2 & F3 & _).
    apply Ok_set_entry; [apply O1 | rewrite F3; exact He|]. intros x X. inversion X. rewrite F2. exact L2.
  - apply Ok_set_value; [exact H | apply (AI_ent a H e i He E)].
  - pose proof (Ok_push_value a v H) as O1. eapply Ok_trans; [exact O1|].
    destruct (Ok_cp _ _ O1) as (_ & F2 & F3 & _).
    apply Ok_set_entry; [apply O1 | rewrite F3; exact He|]. intros x X. inversion X. rewrite F2. exact L2.
Qed.

Lemma a_set_ok a e v : AInv a -> cpe a <= e -> Ok a (fst (a_set a e v)).
Proof.
  intros H He. unfold a_set. pose proof (AI_len a H) as (L1 & L2 & L3).
  destruct (nth_error (a_entries a) e) as [[i|i|]|] eqn:E; cbn [fst]; try (apply Ok_refl; exact H).
  - pose proof (Ok_push_value a v H) as O1. eapply Ok_trans; [exact O1|].
    destruct (Ok_cp _ _ O1) as (_ & F2 & F3 & _).
    apply Ok_set_entry; [apply O1 | rewrite F3; exact He|]. intros x X. inversion X. rewrite F2. exact L2.
  - apply Ok_set_value; [exact H|]. apply (AI_ent a H e i He). apply nth_error_nth'. exact E.
Qed.

Lemma a_mut_ok a e v : AInv a -> cpe a <= e -> Ok a (fst (a_mut a e v)).
Proof.
  intros H He. unfold a_mut. pose proof (AI_len a H) as (L1 & L2 & L3).
  destruct (nth_error (a_entries a) e) as [[i|i|]|] eqn:E; cbn [fst]; try (apply Ok_refl; exact H).
  - pose proof (Ok_push_value a v H) as O1. eapply Ok_trans; [exact O1|].
    destruct (Ok_cp _ _ O1) as (_ & F2 & F3 & _).
    apply Ok_set_entry; [apply O1 | rewrite F3; exact He|]. intros x X. inversion X. rewrite F2. exact L2.
  - apply Ok_set_value; [exact H|]. apply (AI_ent a H e i He). apply nth_error_nth'. exact E.
Qed.

Lemma kill_entry_ok a e : AInv a -> cpe a <= e -> Ok a (fst (kill_entry a e)).
Proof.
  intros H He. unfold kill_entry.
  assert (O1 : Ok a (set_entry a e EDeleted)) by (apply Ok_set_entry; [exact H | exact He | discriminate]).
  destruct (nth e (a_entries a) EDeleted) as [i|i|] eqn:E; cbn [fst]; try exact O1.
  eapply Ok_trans; [exact O1|]. apply Ok_set_value; [apply O1|].
  destruct (Ok_cp _ _ O1) as (_ & F2 & _). rewrite F2. apply (AI_ent a H e i He E).
Qed.

(** * [get_entry] *)

Lemma get_entry_ok : forall fuel a idx k,
  AInv a -> cpn a <= idx ->
  Ok a (fst (a_get_entry fuel a idx k))
  /\ (forall e, snd (a_get_entry fuel a idx k) = Some e -> cpe a <= e).
Proof.
  induction fuel as [|fuel IH]; intros a idx k H Hi; cbn [a_get_entry].
  - split; [apply Ok_refl; exact H | discriminate].
  - destruct (follow_stem k (an_path (node_at a idx))) as [|s ps|c k'|cm kc kr sc sr]; cbn [fst snd];
      try (split; [apply Ok_refl; exact H | discriminate]).
    + split; [apply Ok_refl; exact H|]. intros e E. apply (AI_val a H idx e Hi E).
    + destruct (make_owned_ok a idx H Hi) as (O1 & Eown).
      destruct (find_child c (an_ch (node_at (make_owned a idx) idx)) 0) as [[pos i]|] eqn:F.
      * destruct (find_child_in _ _ _ _ _ F) as [kk Hin].
        pose proof (make_owned_children a idx (kk, i) H Hi Hin) as Hci. cbn [snd] in Hci.
        destruct (Ok_cp _ _ O1) as (F1 & _ & F3 & _).
        destruct (IH (make_owned a idx) i k' (proj1 O1) ltac:(rewrite F1; exact Hci)) as (O2 & He).
        split; [eapply Ok_trans; eassumption|]. intros e E. rewrite <- F3. apply He. exact E.
      * cbn [fst snd]. split; [exact O1 | discriminate].
Qed.

Lemma lookup_key_ok a key :
  AInv a ->
  Ok a (fst (a_lookup_key a key)) /\ (forall e, snd (a_lookup_key a key) = Some e -> cpe a <= e).
Proof.
  intros H. unfold a_lookup_key. destruct (cur_root a) as [r|] eqn:Er.
  - apply get_entry_ok; [exact H | apply (AI_root a H r Er)].
  - cbn. split; [apply Ok_refl; exact H | discriminate].
Qed.

(** * [insert] *)

Definition parent_ok (a : arena) (parent : option (nat * nat)) : Prop :=
  forall p pos, parent = Some (p, pos) -> cpn a <= p.

Lemma NodeOK_fresh a g val path ch :
  g <= gnum a -> (forall kc, In kc ch -> cpn a <= snd kc) -> (forall e, val = Some e -> cpe a <= e) ->
  NodeOK a (mkAN g val path g ch).
Proof.
  intros Hg Hch Hv. unfold NodeOK. cbn [an_gen an_cgen an_ch an_val].
  split; [congruence|]. split; [intros _; exact Hch|]. split; [exact Hv | lia].
Qed.

Lemma relink_ok a parent i : AInv a -> parent_ok a parent -> cpn a <= i -> Ok a (relink a parent i).
Proof.
  intros H Hp Hi. unfold relink. destruct parent as [[p pos]|].
  - specialize (Hp p pos eq_refl). apply Ok_set_node; [exact H | exact Hp|].
    apply NodeOK_with_children; [apply AInv_node; assumption|].
    intros kc Hin. destruct (In_set_child_index _ _ _ _ Hin) as [X|X]; [left; exact X | right; lia].
  - apply Ok_set_root; [exact H|]. intros r' E. inversion E. subst. exact Hi.
Qed.

Lemma follow_stem_shorter k p c k' : follow_stem k p = FStemIsPrefix c k' -> length k' < length k.
Proof.
  intros E. pose proof (follow_stem_spec k p) as S. rewrite E in S. subst k.
  rewrite app_length. cbn. lia.
Qed.

Lemma insert_loop_ok : forall fuel a gen idx parent k v,
  AInv a -> cpn a <= idx -> parent_ok a parent -> gen <= gnum a ->
  Ok a (fst (fst (ar_insert_loop fuel a gen idx parent k v)))
  /\ (length k < fuel -> cpe a <= snd (fst (ar_insert_loop fuel a gen idx parent k v))).
Proof.
  induction fuel as [|fuel IH]; intros a gen idx parent k v H Hi Hp Hg; cbn [ar_insert_loop].
  - cbn. split; [apply Ok_refl; exact H | lia].
  - pose proof (AInv_node a idx H Hi) as Hn.
    destruct (follow_stem k (an_path (node_at a idx))) as [|s ps|c k'|cm kc kr sc sr] eqn:EF.
    + (* Equal *)
      destruct (an_val (node_at a idx)) as [e0|] eqn:Ev; cbn [fst snd].
      * pose proof (AI_val a H idx e0 Hi Ev) as He0.
        split; [apply set_entry_value_ok; assumption | intros _; exact He0].
      * destruct (new_entry_ok a v H) as (O1 & He & En). destruct (new_entry a v) as [a1 e]. cbn [fst snd] in *.
        destruct (Ok_cp _ _ O1) as (F1 & F2 & F3 & F4).
        split; [|intros _; exact He].
        eapply Ok_trans; [exact O1|]. apply Ok_set_node; [apply O1 | lia|].
        apply NodeOK_with_val; [eapply NodeOK_ok; eassumption|]. intros x X. inversion X. lia.
    + (* KeyIsPrefix *)
      destruct (new_entry_ok a v H) as (O1 & He & En). destruct (new_entry a v) as [a1 e]. cbn [fst snd] in *.
      destruct (Ok_cp _ _ O1) as (F1 & F2 & F3 & F4).
      assert (O2 : Ok a1 (set_node a1 idx (with_path (node_at a idx) ps))).
      { apply Ok_set_node; [apply O1 | lia|]. apply NodeOK_with_path. eapply NodeOK_ok; eassumption. }
      set (a2 := set_node a1 idx (with_path (node_at a idx) ps)) in *.
      destruct (Ok_cp _ _ O2) as (G1 & G2 & G3 & G4).
      pose proof (AI_len a2 (proj1 O2)) as (L1 & _).
      assert (O3 : Ok a2 (relink a2 parent (length (a_nodes a2)))).
      { apply relink_ok; [apply O2 | | lia]. intros p pos E. specialize (Hp p pos E). lia. }
      set (a3 := relink a2 parent (length (a_nodes a2))) in *.
      destruct (Ok_cp _ _ O3) as (K1 & K2 & K3 & K4).
      split; [|intros _; exact He].
      eapply Ok_trans; [exact O1|]. eapply Ok_trans; [exact O2|]. eapply Ok_trans; [exact O3|].
      apply Ok_push_node; [apply O3|]. apply NodeOK_fresh; [lia | | ].
      * intros kc0 [<-|[]]. cbn. lia.
      * intros x X. inversion X. lia.
    + (* StemIsPrefix *)
      destruct (make_owned_ok a idx H Hi) as (O1 & Eown).
      destruct (Ok_cp _ _ O1) as (F1 & F2 & F3 & F4).
      destruct (find_child c (an_ch (node_at (make_owned a idx) idx)) 0) as [[pos i]|] eqn:F.
      * destruct (find_child_in _ _ _ _ _ F) as [kk Hin].
        pose proof (make_owned_children a idx (kk, i) H Hi Hin) as Hci. cbn [snd] in Hci.
        destruct (IH (make_owned a idx) gen i (Some (idx, pos)) k' v (proj1 O1)) as (O2 & He); try lia.
        { intros p pos' E. inversion E. subst. lia. }
        split; [eapply Ok_trans; eassumption|]. intros Hl. rewrite <- F3. apply He.
        pose proof (follow_stem_shorter _ _ _ _ EF). lia.
      * set (a1 := make_owned a idx) in *.
        pose proof (AI_len a1 (proj1 O1)) as (L1 & _).
        assert (O2 : Ok a1 (set_node a1 idx (with_children (node_at a1 idx)
                          (insert_child c (length (a_nodes a1)) (an_ch (node_at a1 idx)))))).
        { apply Ok_set_node; [apply O1 | lia|].
          apply NodeOK_with_children; [apply AInv_node; [apply O1 | lia]|].
          intros kc0 Hin. destruct (In_insert_child _ _ _ _ Hin) as [X|X]; [left; exact X | right; lia]. }
        set (a2 := set_node a1 idx _) in *.
        destruct (Ok_cp _ _ O2) as (G1 & G2 & G3 & G4).
        destruct (new_entry_ok a2 v (proj1 O2)) as (O3 & He & En). destruct (new_entry a2 v) as [a3 e]. cbn [fst snd] in *.
        destruct (Ok_cp _ _ O3) as (K1 & K2 & K3 & K4).
        split; [|intros _; lia].
        eapply Ok_trans; [exact O1|]. eapply Ok_trans; [exact O2|]. eapply Ok_trans; [exact O3|].
        apply Ok_push_node; [apply O3|]. apply NodeOK_fresh; [lia | intros kc0 [] |].
        intros x X. inversion X. lia.
    + (* Diff *)
      pose proof (AI_len a H) as (L1 & _).
      assert (O1 : Ok a (set_node a idx (with_path (node_at a idx) sr))).
      { apply Ok_set_node; [exact H | exact Hi|]. apply NodeOK_with_path. exact Hn. }
      set (a1 := set_node a idx (with_path (node_at a idx) sr)) in *.
      destruct (Ok_cp _ _ O1) as (F1 & F2 & F3 & F4).
      destruct (new_entry_ok a1 v (proj1 O1)) as (O2 & He & En). destruct (new_entry a1 v) as [a2 e]. cbn [fst snd] in *.
      destruct (Ok_cp _ _ O2) as (G1 & G2 & G3 & G4).
      assert (O3 : Ok a2 (push_node a2 (mkAN gen (Some e) kr gen []))).
      { apply Ok_push_node; [apply O2|]. apply NodeOK_fresh; [lia | intros kc0 [] |]. intros x X. inversion X. lia. }
      set (a3 := push_node a2 _) in *.
      destruct (Ok_cp _ _ O3) as (K1 & K2 & K3 & K4).
      set (chs := if (kc <? sc)%N then [(kc, length (a_nodes a)); (sc, idx)] else [(sc, idx); (kc, length (a_nodes a))]).
      assert (O4 : Ok a3 (push_node a3 (mkAN gen None cm gen chs))).
      { apply Ok_push_node; [apply O3|]. apply NodeOK_fresh; [lia | | discriminate].
        intros kc0 Hin. unfold chs in Hin. destruct (kc <? sc)%N; cbn in Hin;
          destruct Hin as [<-|[<-|[]]]; cbn; lia. }
      set (a4 := push_node a3 _) in *.
      destruct (Ok_cp _ _ O4) as (M1 & M2 & M3 & M4).
      cbn [fst snd]. split; [|intros _; lia].
      eapply Ok_trans; [exact O1|]. eapply Ok_trans; [exact O2|]. eapply Ok_trans; [exact O3|].
      eapply Ok_trans; [exact O4|]. apply relink_ok; [apply O4 | | lia].
      intros p pos E. specialize (Hp p pos E). lia.
Qed.

Theorem ar_insert_ok a key v :
  AInv a -> Ok a (fst (fst (ar_insert a key v))) /\ cpe a <= snd (fst (ar_insert a key v)).
Proof.
  intros H. unfold ar_insert. destruct (cur_root a) as [r|] eqn:Er.
  - pose proof (AI_root a H r Er) as Hr.
    destruct (insert_loop_ok (S (length (nib key))) a (an_gen (node_at a r)) r None (nib key) v H Hr) as (O & He).
    + intros p pos E. discriminate.
    + apply (AI_le a H r).
    + split; [exact O | apply He; lia].
  - destruct (new_entry_ok a v H) as (O1 & He & En). destruct (new_entry a v) as [a1 e]. cbn [fst snd] in *.
    destruct (Ok_cp _ _ O1) as (F1 & F2 & F3 & F4).
    pose proof (AI_len a H) as (L1 & _).
    assert (O2 : Ok a1 (push_node a1 (mkAN (length (a_gens a) - 1) (Some e) (nib key) (length (a_gens a) - 1) []))).
    { apply Ok_push_node; [apply O1|]. apply NodeOK_fresh; [unfold gnum in *; lia | intros kc [] |].
      intros x X. inversion X. lia. }
    set (a2 := push_node a1 _) in *. destruct (Ok_cp _ _ O2) as (G1 & G2 & G3 & G4).
    split; [|exact He].
    eapply Ok_trans; [exact O1|]. eapply Ok_trans; [exact O2|].
    apply Ok_set_root; [apply O2|]. intros r' E. inversion E. lia.
Qed.

(** * [delete] *)

Definition up_ok (a : arena) (up : option (nat * nat)) : Prop :=
  forall pos u, up = Some (pos, u) -> cpn a <= u.

Lemma collapse_ok a idx up :
  AInv a -> cpn a <= idx -> an_cgen (node_at a idx) = an_gen (node_at a idx) -> up_ok a up ->
  Ok a (collapse_into_child a idx up).
Proof.
  intros H Hi Eown Hup. unfold collapse_into_child.
  destruct (an_ch (node_at a idx)) as [|[ck ci] [|? ?]] eqn:Ech; try (apply Ok_refl; exact H).
  assert (Hci : cpn a <= ci).
  { apply (AI_ch a H idx Hi Eown (ck, ci)). rewrite Ech. left. reflexivity. }
  assert (O1 : Ok a (set_node a idx anode_default)) by (apply Ok_set_node; [exact H | exact Hi | apply NodeOK_default]).
  set (a1 := set_node a idx anode_default) in *. destruct (Ok_cp _ _ O1) as (F1 & F2 & F3 & F4).
  assert (O2 : Ok a1 (set_node a1 ci (with_path (node_at a1 ci) (an_path (node_at a idx) ++ ck :: an_path (node_at a1 ci))))).
  { apply Ok_set_node; [apply O1 | lia|]. apply NodeOK_with_path. apply AInv_node; [apply O1 | lia]. }
  set (a2 := set_node a1 ci _) in *. destruct (Ok_cp _ _ O2) as (G1 & G2 & G3 & G4).
  eapply Ok_trans; [exact O1|]. eapply Ok_trans; [exact O2|].
  destruct up as [[pos u]|].
  - specialize (Hup pos u eq_refl). apply Ok_set_node; [apply O2 | lia|].
    apply NodeOK_with_children; [apply AInv_node; [apply O2 | lia]|].
    intros kc Hin. destruct (In_set_child_index _ _ _ _ Hin) as [X|X]; [left; exact X | right; lia].
  - apply Ok_set_root; [apply O2|]. intros r' E. inversion E. lia.
Qed.

Lemma unshared_after_set a i n ch :
  an_cgen n = an_gen n ->
  an_cgen (node_at (set_node a i (with_children n ch)) i) = an_gen (node_at (set_node a i (with_children n ch)) i)
  \/ node_at (set_node a i (with_children n ch)) i = node_at a i.
Proof.
  intros E. rewrite node_at_set_node, Nat.eqb_refl.
  destruct (Nat.ltb i (length (a_nodes a))); [left; exact E | right; reflexivity].
Qed.

Lemma delete_loop_ok : forall fuel a idx father grandfather k,
  AInv a -> cpn a <= idx -> up_ok a father -> up_ok a grandfather ->
  Ok a (fst (ar_delete_loop fuel a idx father grandfather k)).
Proof.
  induction fuel as [|fuel IH]; intros a idx father grandfather k H Hi Hf Hgf; cbn [ar_delete_loop].
  - apply Ok_refl. exact H.
  - destruct (follow_stem k (an_path (node_at a idx))) as [|s ps|c k'|cm kc kr sc sr] eqn:EF;
      try (apply Ok_refl; exact H).
    + destruct (an_val (node_at a idx)) as [e|] eqn:Ev; [|apply Ok_refl; exact H].
      pose proof (AI_val a H idx e Hi Ev) as He.
      pose proof (kill_entry_ok a e H He) as O1. destruct (kill_entry a e) as [a1 rv]. cbn [fst] in *.
      destruct (Ok_cp _ _ O1) as (F1 & F2 & F3 & F4).
      assert (O2 : Ok a1 (set_node a1 idx (with_val (node_at a1 idx) None))).
      { apply Ok_set_node; [apply O1 | lia|]. apply NodeOK_with_val; [apply AInv_node; [apply O1 | lia] | discriminate]. }
      set (a2 := set_node a1 idx _) in *. destruct (Ok_cp _ _ O2) as (G1 & G2 & G3 & G4).
      destruct (make_owned_ok a2 idx (proj1 O2) ltac:(lia)) as (O3 & Eown).
      set (a3 := make_owned a2 idx) in *. destruct (Ok_cp _ _ O3) as (K1 & K2 & K3 & K4).
      assert (O13 : Ok a a3) by (eapply Ok_trans; [exact O1|]; eapply Ok_trans; eassumption).
      destruct (an_ch (node_at a3 idx)) as [|c0 [|c1 cr]] eqn:Ech; cbn [fst].
      * destruct father as [[child_pos fidx]|]; cbn [fst].
        -- specialize (Hf child_pos fidx eq_refl).
           destruct (make_owned_ok a3 fidx (proj1 O3) ltac:(lia)) as (O4 & Eown4).
           set (a4 := make_owned a3 fidx) in *. destruct (Ok_cp _ _ O4) as (M1 & M2 & M3 & M4).
           assert (O5 : Ok a4 (set_node a4 fidx (with_children (node_at a4 fidx) (remove_nth child_pos (an_ch (node_at a4 fidx)))))).
           { apply Ok_set_node; [apply O4 | lia|].
             apply NodeOK_with_children; [apply AInv_node; [apply O4 | lia]|].
             intros kc0 Hin. left. eapply In_remove_nth. exact Hin. }
           set (a5 := set_node a4 fidx _) in *. destruct (Ok_cp _ _ O5) as (P1 & P2 & P3 & P4).
           assert (O15 : Ok a a5) by (eapply Ok_trans; [exact O13|]; eapply Ok_trans; eassumption).
           destruct (negb (match an_val (node_at a4 fidx) with Some _ => true | None => false end)
                     && Nat.eqb (length (remove_nth child_pos (an_ch (node_at a4 fidx)))) 1); cbn [fst]; [|exact O15].
           eapply Ok_trans; [exact O15|]. apply collapse_ok; [apply O5 | lia | |].
           ++ destruct (unshared_after_set a4 fidx (node_at a4 fidx) (remove_nth child_pos (an_ch (node_at a4 fidx))) Eown4) as [X|X];
                [exact X | fold a5 in X; rewrite X; exact Eown4].
           ++ intros pos u E. specialize (Hgf pos u E). lia.
        -- eapply Ok_trans; [exact O13|]. apply Ok_set_root; [apply O3 | discriminate].
      * eapply Ok_trans; [exact O13|]. apply collapse_ok; [apply O3 | lia | exact Eown|].
        intros pos u E. specialize (Hf pos u E). lia.
      * exact O13.
    + destruct (make_owned_ok a idx H Hi) as (O1 & Eown).
      destruct (Ok_cp _ _ O1) as (F1 & F2 & F3 & F4).
      destruct (find_child c (an_ch (node_at (make_owned a idx) idx)) 0) as [[pos i]|] eqn:F; [|exact O1].
      destruct (find_child_in _ _ _ _ _ F) as [kk Hin].
      pose proof (make_owned_children a idx (kk, i) H Hi Hin) as Hci. cbn [snd] in Hci.
      eapply Ok_trans; [exact O1|]. apply IH; [apply O1 | lia | |].
      * intros p u E. inversion E. subst. lia.
      * intros p u E. specialize (Hf p u E). lia.
Qed.

Theorem ar_delete_ok a key : AInv a -> Ok a (fst (ar_delete a key)).
Proof.
  intros H. unfold ar_delete. destruct (cur_root a) as [r|] eqn:Er; [|apply Ok_refl; exact H].
  apply delete_loop_ok; [exact H | apply (AI_root a H r Er) | |]; intros p u E; discriminate.
Qed.

(** * [delete_prefix] *)

Lemma kill_entry_nodes a e : a_nodes (fst (kill_entry a e)) = a_nodes a.
Proof. unfold kill_entry. destruct (nth e (a_entries a) EDeleted); reflexivity. Qed.

Lemma invalidate_ok : forall fuel a stack,
  AInv a -> (forall i, In i stack -> cpn a <= i) -> Ok a (invalidate fuel a stack).
Proof.
  induction fuel as [|fuel IH]; intros a stack H Hs; cbn [invalidate].
  - apply Ok_refl. exact H.
  - destruct stack as [|i rest]; [apply Ok_refl; exact H|].
    pose proof (Hs i (or_introl eq_refl)) as Hi.
    assert (O1 : Ok a (match an_val (node_at a i) with Some e => fst (kill_entry a e) | None => a end)).
    { destruct (an_val (node_at a i)) as [e|] eqn:Ev; [|apply Ok_refl; exact H].
      apply kill_entry_ok; [exact H | apply (AI_val a H i e Hi Ev)]. }
    set (a1 := match an_val (node_at a i) with Some e => fst (kill_entry a e) | None => a end) in *.
    destruct (Ok_cp _ _ O1) as (F1 & F2 & F3 & F4).
    eapply Ok_trans; [exact O1|]. apply IH; [apply O1|].
    intros j Hj. rewrite F1. apply in_app_iff in Hj as [Hj|Hj]; [|apply Hs; right; exact Hj].
    destruct (Nat.eqb_spec (an_gen (node_at a i)) (an_cgen (node_at a i))) as [E|E]; [|destruct Hj].
    apply in_rev in Hj. apply in_map_iff in Hj as [kc [<- Hin]].
    apply (AI_ch a H i Hi (eq_sym E) kc Hin).
Qed.

Lemma delete_prefix_loop_ok : forall fuel a idx parent grandparent k,
  AInv a -> cpn a <= idx -> up_ok a parent -> up_ok a grandparent ->
  Ok a (fst (ar_delete_prefix_loop fuel a idx parent grandparent k)).
Proof.
  induction fuel as [|fuel IH]; intros a idx parent grandparent k H Hi Hp Hgp; cbn [ar_delete_prefix_loop].
  - apply Ok_refl. exact H.
  - assert (Found : Ok a (fst (
        let a1 := invalidate (S (length (a_nodes a))) a [idx] in
        match parent with
        | Some (child_pos, parent_idx) =>
            let a2 := make_owned a1 parent_idx in
            let pn := node_at a2 parent_idx in
            let has_value := match an_val pn with Some _ => true | None => false end in
            let ch' := remove_nth child_pos (an_ch pn) in
            let a3 := set_node a2 parent_idx (with_children pn ch') in
            if negb has_value && Nat.eqb (length ch') 1
            then (collapse_into_child a3 parent_idx grandparent, true)
            else (a3, true)
        | None => (set_root a1 None, true)
        end))).
    { cbv zeta.
      assert (O1 : Ok a (invalidate (S (length (a_nodes a))) a [idx])).
      { apply invalidate_ok; [exact H|]. intros j [<-|[]]. exact Hi. }
      set (a1 := invalidate (S (length (a_nodes a))) a [idx]) in *.
      destruct (Ok_cp _ _ O1) as (F1 & F2 & F3 & F4).
      destruct parent as [[child_pos pidx]|]; cbn [fst].
      - specialize (Hp child_pos pidx eq_refl).
        destruct (make_owned_ok a1 pidx (proj1 O1) ltac:(lia)) as (O2 & Eown).
        set (a2 := make_owned a1 pidx) in *. destruct (Ok_cp _ _ O2) as (G1 & G2 & G3 & G4).
        assert (O3 : Ok a2 (set_node a2 pidx (with_children (node_at a2 pidx) (remove_nth child_pos (an_ch (node_at a2 pidx)))))).
        { apply Ok_set_node; [apply O2 | lia|].
          apply NodeOK_with_children; [apply AInv_node; [apply O2 | lia]|].
          intros kc0 Hin. left. eapply In_remove_nth. exact Hin. }
        set (a3 := set_node a2 pidx _) in *. destruct (Ok_cp _ _ O3) as (K1 & K2 & K3 & K4).
        assert (O13 : Ok a a3) by (eapply Ok_trans; [exact O1|]; eapply Ok_trans; eassumption).
        destruct (negb (match an_val (node_at a2 pidx) with Some _ => true | None => false end)
                  && Nat.eqb (length (remove_nth child_pos (an_ch (node_at a2 pidx)))) 1); cbn [fst]; [|exact O13].
        eapply Ok_trans; [exact O13|]. apply collapse_ok; [apply O3 | lia | |].
        + destruct (unshared_after_set a2 pidx (node_at a2 pidx) (remove_nth child_pos (an_ch (node_at a2 pidx))) Eown) as [X|X];
            [exact X | fold a3 in X; rewrite X; exact Eown].
        + intros pos u E. specialize (Hgp pos u E). lia.
      - eapply Ok_trans; [exact O1|]. apply Ok_set_root; [apply O1 | discriminate]. }
    destruct (follow_stem k (an_path (node_at a idx))) as [|s ps|c k'|cm kc kr sc sr] eqn:EF;
      try exact Found; try (apply Ok_refl; exact H).
    destruct (make_owned_ok a idx H Hi) as (O1 & Eown).
    destruct (Ok_cp _ _ O1) as (F1 & F2 & F3 & F4).
    destruct (find_child c (an_ch (node_at (make_owned a idx) idx)) 0) as [[pos i]|] eqn:F; [|exact O1].
    destruct (find_child_in _ _ _ _ _ F) as [kk Hin].
    pose proof (make_owned_children a idx (kk, i) H Hi Hin) as Hci. cbn [snd] in Hci.
    eapply Ok_trans; [exact O1|]. apply IH; [apply O1 | lia | |].
    + intros p u E. inversion E. subst. lia.
    + intros p u E. specialize (Hp p u E). lia.
Qed.

Theorem ar_delete_prefix_ok a key : AInv a -> Ok a (fst (ar_delete_prefix a key)).
Proof.
  intros H. unfold ar_delete_prefix. destruct (cur_root a) as [r|] eqn:Er; [|apply Ok_refl; exact H].
  apply delete_prefix_loop_ok; [exact H | apply (AI_root a H r Er) | |]; intros p u E; discriminate.
Qed.

(** * The arena machine *)

Definition SInv (s : astate) : Prop :=
  AInv (as_arena s)
  /\ Forall (fun e => cpe (as_arena s) <= e) (cur_handles s)
  /\ a_gens (as_arena s) <> []
  /\ length (as_handles s) = length (a_gens (as_arena s)).

Definition gen_op (o : op) : bool :=
  match o with ONewGen | ONormalize _ => true | _ => false end.

Lemma Below_gens_ne a a' : Below a a' -> a_gens a <> [] -> a_gens a' <> [].
Proof. intros B Hne E. pose proof (B_glen a a' B) as L. rewrite E in L. destruct (a_gens a); [congruence | discriminate]. Qed.

Lemma SInv_with_arena s a' :
  SInv s -> Ok (as_arena s) a' -> SInv (with_arena s a').
Proof.
  intros (H & Hh & Hne & Hl) O. destruct (Ok_cp _ _ O) as (_ & _ & F3 & _).
  unfold SInv, with_arena, cur_handles. cbn [as_arena as_handles].
  split; [apply O|]. split; [rewrite F3; exact Hh|]. split; [eapply Below_gens_ne; [apply O | exact Hne]|].
  rewrite (B_glen _ _ (proj1 (proj2 O))). exact Hl.
Qed.

Lemma SInv_push_handle s a' e :
  SInv s -> Ok (as_arena s) a' -> cpe (as_arena s) <= e -> SInv (push_handle s a' e).
Proof.
  intros (H & Hh & Hne & Hl) O He. destruct (Ok_cp _ _ O) as (_ & _ & F3 & _).
  unfold SInv, push_handle, cur_handles in *. destruct (as_handles s) as [|h r] eqn:Eh; cbn [as_arena as_handles] in *.
  - exfalso. destruct (a_gens (as_arena s)); [congruence | discriminate].
  - split; [apply O|]. split; [|split].
    + rewrite F3. apply Forall_app. split; [exact Hh | repeat constructor; exact He].
    + eapply Below_gens_ne; [apply O | exact Hne].
    + rewrite (B_glen _ _ (proj1 (proj2 O))). exact Hl.
Qed.

Lemma arena_push_handle s a e : as_arena (push_handle s a e) = a.
Proof. unfold push_handle. destruct (as_handles s); reflexivity. Qed.

Lemma cur_handles_in s h e : SInv s -> nth_error (cur_handles s) h = Some e -> cpe (as_arena s) <= e.
Proof.
  intros (_ & Hh & _) E. rewrite Forall_forall in Hh. apply Hh. eapply nth_error_In. exact E.
Qed.

(** Every operation other than [new_generation] / [normalize] leaves the vectors below the
    checkpoint of the current generation unchanged, and preserves the invariant. *)
Theorem as_step_cow o s :
  SInv s -> gen_op o = false ->
  Ok (as_arena s) (as_arena (fst (as_step o s))) /\ SInv (fst (as_step o s))
  /\ tl (as_handles (fst (as_step o s))) = tl (as_handles s).
Proof.
  intros HS Hg. pose proof HS as (H & Hh & Hne & Hl).
  assert (Same : Ok (as_arena s) (as_arena s) /\ SInv s /\ tl (as_handles s) = tl (as_handles s))
    by (split; [apply Ok_refl; exact H | split; [exact HS | reflexivity]]).
  assert (TlP : forall a' e, tl (as_handles (push_handle s a' e)) = tl (as_handles s)).
  { intros a' e. unfold push_handle. destruct (as_handles s) eqn:Eh; [|reflexivity].
    exfalso. try rewrite Eh in Hl. destruct (a_gens (as_arena s)); [congruence | discriminate]. }
  destruct o; try discriminate Hg; cbn [as_step]; try exact Same.
  - (* insert *)
    destruct (ar_insert_ok (as_arena s) k v H) as (O & He).
    destruct (ar_insert (as_arena s) k v) as [[a1 e] existed]. cbn [fst snd] in *.
    rewrite arena_push_handle. split; [exact O|]. split; [apply SInv_push_handle; assumption | apply TlP].
  - (* get *)
    destruct (lookup_key_ok (as_arena s) k H) as (O & He).
    destruct (a_lookup_key (as_arena s) k) as [a1 [e|]]; cbn [fst snd] in *.
    + rewrite arena_push_handle. split; [exact O|]. split; [apply SInv_push_handle; [exact HS | exact O | apply He; reflexivity] | apply TlP].
    + split; [exact O|]. split; [apply SInv_with_arena; assumption | reflexivity].
  - (* read *)
    destruct (nth_error (cur_handles s) h); exact Same.
  - (* set *)
    destruct (nth_error (cur_handles s) h) as [e|] eqn:E; [|exact Same].
    pose proof (a_set_ok (as_arena s) e v H (cur_handles_in s h e HS E)) as O.
    destruct (a_set (as_arena s) e v) as [a1 b]. cbn [fst] in *.
    split; [exact O|]. split; [apply SInv_with_arena; assumption | reflexivity].
  - (* get_mut *)
    destruct (nth_error (cur_handles s) h) as [e|] eqn:E; [|exact Same].
    pose proof (a_mut_ok (as_arena s) e v H (cur_handles_in s h e HS E)) as O.
    destruct (a_mut (as_arena s) e v) as [a1 b]. cbn [fst] in *.
    split; [exact O|]. split; [apply SInv_with_arena; assumption | reflexivity].
  - (* delete *)
    pose proof (ar_delete_ok (as_arena s) k H) as O.
    destruct (ar_delete (as_arena s) k) as [a1 b]. cbn [fst] in *.
    split; [exact O|]. split; [apply SInv_with_arena; assumption | reflexivity].
  - (* delete_prefix *)
    pose proof (ar_delete_prefix_ok (as_arena s) k H) as O.
    destruct (ar_delete_prefix (as_arena s) k) as [a1 b]. cbn [fst] in *.
    split; [exact O|]. split; [apply SInv_with_arena; assumption | reflexivity].
Qed.

(** * [new_generation] establishes the invariant for the new generation *)

Definition tag_ok (a : arena) : bool :=
  match cur_root a with
  | Some r => Nat.eqb (an_gen (node_at a r)) (gnum a)
  | None => true
  end.

Lemma tag_ok_eq a : tag_ok a = root_tag_ok a.
Proof. reflexivity. Qed.

Lemma cur_checkpoint_app gs g e v n :
  cur_checkpoint (mkA (gs ++ [g]) e v n) = (ag_nodes g, ag_values g, ag_entries g).
Proof. unfold cur_checkpoint. cbn [a_gens]. rewrite rev_app_distr. reflexivity. Qed.

Lemma cur_root_app gs g e v n : cur_root (mkA (gs ++ [g]) e v n) = ag_root g.
Proof. unfold cur_root. cbn [a_gens]. rewrite rev_app_distr. reflexivity. Qed.

Theorem new_generation_inv a :
  AInv a -> a_gens a <> [] -> tag_ok a = true -> AInv (a_new_generation a).
Proof.
  intros H Hne Htag. pose proof (AI_len a H) as (L1 & L2 & L3).
  assert (Hg : forall gs g e v n, gs = a_gens a -> gnum (mkA (gs ++ [g]) e v n) = S (gnum a)).
  { intros gs g e v n ->. unfold gnum. cbn [a_gens]. rewrite app_length. cbn.
    destruct (a_gens a); [congruence | cbn; lia]. }
  unfold a_new_generation, tag_ok in *. destruct (cur_root a) as [r|] eqn:Er.
  - apply Nat.eqb_eq in Htag.
    unfold migrate. destruct (an_val (node_at a r)) as [idx|] eqn:Ev.
    + cbn [push_node push_entry a_gens a_entries a_values a_nodes].
      set (n' := mkAN (S (an_gen (node_at a r))) (Some (length (a_entries a))) (an_path (node_at a r))
                      (an_cgen (node_at a r)) (an_ch (node_at a r))).
      set (ent := match nth idx (a_entries a) EDeleted with EMutable i => EReadOnly i | x => x end).
      apply AInv_intro; unfold cpn, cpv, cpe; rewrite ?cur_checkpoint_app, ?(Hg _ _ _ _ _ eq_refl);
        cbn [fst snd ag_nodes ag_values ag_entries a_nodes a_values a_entries].
      * rewrite !app_length. cbn. lia.
      * intros i Hi. unfold node_at. cbn [a_nodes]. rewrite app_nth1 by exact Hi.
        pose proof (AI_le a H i) as (X & Y). unfold node_at in *. lia.
      * intros i Hi. unfold node_at. cbn [a_nodes]. rewrite nth_app_single.
        destruct (Nat.eqb_spec i (length (a_nodes a))) as [->|Hn].
        -- unfold NodeOK, n'. cbn [an_gen an_cgen an_ch an_val].
           unfold cpn, cpv, cpe, gnum. rewrite ?cur_checkpoint_app. cbn [fst snd ag_nodes ag_values ag_entries a_gens].
           rewrite app_length. cbn [length]. pose proof (AI_le a H r) as (X & Y). unfold gnum in *.
           destruct (a_gens a) as [|g0 gs0]; [congruence|]. cbn [length] in *.
           split; [intros _; lia|]. split; [intros E; lia|]. split; [intros e E; inversion E; lia | lia].
        -- rewrite nth_overflow by lia. apply NodeOK_default.
      * intros e v Hge Hnth. rewrite nth_app_single in Hnth.
        destruct (Nat.eqb_spec e (length (a_entries a))) as [->|Hn].
        -- unfold ent in Hnth. destruct (nth idx (a_entries a) EDeleted); discriminate.
        -- destruct (Nat.lt_ge_cases e (length (a_entries a))); [lia|]. rewrite nth_overflow in Hnth by lia. discriminate.
      * intros r'. rewrite cur_root_app. cbn. intros E. inversion E. lia.
    + cbn [push_node a_gens a_entries a_values a_nodes].
      set (n' := mkAN (S (an_gen (node_at a r))) None (an_path (node_at a r)) (an_cgen (node_at a r)) (an_ch (node_at a r))).
      apply AInv_intro; unfold cpn, cpv, cpe; rewrite ?cur_checkpoint_app, ?(Hg _ _ _ _ _ eq_refl);
        cbn [fst snd ag_nodes ag_values ag_entries a_nodes a_values a_entries].
      * rewrite !app_length. cbn. lia.
      * intros i Hi. unfold node_at. cbn [a_nodes]. rewrite app_nth1 by exact Hi.
        pose proof (AI_le a H i) as (X & Y). unfold node_at in *. lia.
      * intros i Hi. unfold node_at. cbn [a_nodes]. rewrite nth_app_single.
        destruct (Nat.eqb_spec i (length (a_nodes a))) as [->|Hn].
        -- unfold NodeOK, n'. cbn [an_gen an_cgen an_ch an_val].
           unfold cpn, cpv, cpe, gnum. rewrite ?cur_checkpoint_app. cbn [fst snd ag_nodes ag_values ag_entries a_gens].
           rewrite app_length. cbn [length]. pose proof (AI_le a H r) as (X & Y). unfold gnum in *.
           destruct (a_gens a) as [|g0 gs0]; [congruence|]. cbn [length] in *.
           split; [intros _; lia|]. split; [intros E; lia|]. split; [discriminate | lia].
        -- rewrite nth_overflow by lia. apply NodeOK_default.
      * intros e v Hge Hnth. destruct (Nat.lt_ge_cases e (length (a_entries a))); [lia|].
        rewrite nth_overflow in Hnth by lia. discriminate.
      * intros r'. rewrite cur_root_app. cbn. intros E. inversion E. lia.
  - assert (E : forall X : arena, match a_gens a with [] => a | _ :: _ => X end = X)
      by (intros X; destruct (a_gens a); [congruence | reflexivity]).
    rewrite E.
    apply AInv_intro; unfold cpn, cpv, cpe; rewrite ?cur_checkpoint_app, ?(Hg _ _ _ _ _ eq_refl);
      cbn [fst snd ag_nodes ag_values ag_entries a_nodes a_values a_entries].
    * lia.
    * intros i Hi. change (node_at (mkA _ (a_entries a) (a_values a) (a_nodes a)) i) with (node_at a i).
      pose proof (AI_le a H i). lia.
    * intros i Hi. change (node_at (mkA _ (a_entries a) (a_values a) (a_nodes a)) i) with (node_at a i).
      unfold node_at. rewrite nth_overflow by lia. apply NodeOK_default.
    * intros e v Hge Hnth. rewrite nth_overflow in Hnth by lia. discriminate.
    * intros r'. rewrite cur_root_app. cbn. discriminate.
Qed.

(** * Histories: saved generations *)

Definition cp_of (g : agen) : nat * nat * nat := (ag_nodes g, ag_values g, ag_entries g).
Definition lens (a : arena) : nat * nat * nat := (length (a_nodes a), length (a_values a), length (a_entries a)).

(** [c] is [b] plus exactly one newer generation whose checkpoint is the size of [b], and
    everything of [b] is still there. *)
Record Ext1 (b c : astate) : Prop := {
  E_gens : exists g, a_gens (as_arena c) = a_gens (as_arena b) ++ [g] /\ cp_of g = lens (as_arena b);
  E_nodes : firstn (length (a_nodes (as_arena b))) (a_nodes (as_arena c)) = a_nodes (as_arena b);
  E_values : firstn (length (a_values (as_arena b))) (a_values (as_arena c)) = a_values (as_arena b);
  E_entries : firstn (length (a_entries (as_arena b))) (a_entries (as_arena c)) = a_entries (as_arena b);
  E_handles : tl (as_handles c) = as_handles b
}.

Fixpoint Hist (c : astate) (saved : list astate) : Prop :=
  match saved with
  | [] => length (a_gens (as_arena c)) = 1
  | b :: rest => Ext1 b c /\ SInv b /\ Hist b rest
  end.

Lemma cur_checkpoint_last gs g e v n : cur_checkpoint (mkA (gs ++ [g]) e v n) = cp_of g.
Proof. apply cur_checkpoint_app. Qed.

Lemma checkpoint_of_gens a gs g : a_gens a = gs ++ [g] -> cur_checkpoint a = cp_of g.
Proof. intros E. unfold cur_checkpoint. rewrite E, rev_app_distr. reflexivity. Qed.

Lemma Ext1_below b c c' :
  Ext1 b c -> Below (as_arena c) (as_arena c') -> tl (as_handles c') = tl (as_handles c) -> Ext1 b c'.
Proof.
  intros [(g & Eg & Ecp) En Ev Ee Eh] B Htl.
  pose proof (checkpoint_of_gens _ _ _ Eg) as Cc.
  assert (Cn : cpn (as_arena c) = length (a_nodes (as_arena b))) by (unfold cpn; rewrite Cc, Ecp; reflexivity).
  assert (Cv : cpv (as_arena c) = length (a_values (as_arena b))) by (unfold cpv; rewrite Cc, Ecp; reflexivity).
  assert (Ce : cpe (as_arena c) = length (a_entries (as_arena b))) by (unfold cpe; rewrite Cc, Ecp; reflexivity).
  destruct B as [Bcp Bl Bo Bn Bv Be]. rewrite Cn in Bn. rewrite Cv in Bv. rewrite Ce in Be.
  constructor; try congruence.
  assert (Hne : a_gens (as_arena c') <> []).
  { intros X. rewrite X, Eg, app_length in Bl. cbn in Bl. lia. }
  assert (Eg' : a_gens (as_arena c') = a_gens (as_arena b) ++ [last (a_gens (as_arena c')) (mkAG None 0 0 0)]).
  { rewrite (app_removelast_last (mkAG None 0 0 0) Hne) at 1. rewrite Bo, Eg, removelast_app_single. reflexivity. }
  exists (last (a_gens (as_arena c')) (mkAG None 0 0 0)). split; [exact Eg'|].
  rewrite <- (checkpoint_of_gens _ _ _ Eg'), Bcp, Cc. exact Ecp.
Qed.

Lemma Hist_step o c saved :
  Hist c saved -> SInv c -> gen_op o = false -> Hist (fst (as_step o c)) saved.
Proof.
  intros HH HS Hg. destruct (as_step_cow o c HS Hg) as ((_ & B & _) & _ & Htl).
  destruct saved as [|b rest]; cbn [Hist] in *.
  - rewrite (B_glen _ _ B). exact HH.
  - destruct HH as (E & Sb & Hr). split; [|split; assumption]. eapply Ext1_below; eassumption.
Qed.

Lemma newgen_step c saved :
  Hist c saved -> SInv c -> tag_ok (as_arena c) = true ->
  Hist (fst (as_step ONewGen c)) (c :: saved) /\ SInv (fst (as_step ONewGen c)).
Proof.
  intros HH HS Htag. pose proof HS as (H & Hh & Hne & Hl). cbn [as_step fst].
  destruct (new_generation_appends (as_arena c) Hne) as (g & G & Cn & Cv & Ce & Pn & Pe & V).
  split.
  - cbn [Hist]. split; [|split; assumption]. constructor; cbn [as_arena as_handles tl]; try assumption; try reflexivity.
    + exists g. split; [exact G|]. unfold cp_of, lens. congruence.
    + rewrite V. apply firstn_all.
  - unfold SInv. cbn [as_arena as_handles cur_handles]. split; [apply new_generation_inv; assumption|].
    split; [constructor|]. split.
    + rewrite G. intros X. apply app_eq_nil in X as [_ X]. discriminate.
    + rewrite G, app_length. cbn. lia.
Qed.

(** * [normalize] returns to the saved generation *)

Definition le3 (x y : nat * nat * nat) : Prop :=
  fst (fst x) <= fst (fst y) /\ snd (fst x) <= snd (fst y) /\ snd x <= snd y.

Lemma hist_len c saved : Hist c saved -> length (a_gens (as_arena c)) = S (length saved).
Proof.
  revert c. induction saved as [|b rest IH]; intros c H; cbn [Hist] in H; [exact H|].
  destruct H as ([(g & Eg & _) _ _ _ _] & _ & Hr). rewrite Eg, app_length, (IH b Hr). cbn. lia.
Qed.

Lemma firstn_eq_le {A} n (l l' : list A) : firstn n l = l' -> length l' = n -> n <= length l.
Proof. intros E L. rewrite <- E, firstn_length in L. lia. Qed.

Lemma Ext1_lens b c : Ext1 b c -> le3 (lens (as_arena b)) (lens (as_arena c)).
Proof.
  intros [_ En Ev Ee _]. unfold le3, lens. cbn [fst snd].
  split; [|split]; eapply firstn_eq_le; try eassumption; reflexivity.
Qed.

Lemma hist_cp_bound : forall saved c,
  Hist c saved -> SInv c ->
  forall j g', nth_error (a_gens (as_arena c)) j = Some g' -> le3 (cp_of g') (lens (as_arena c)).
Proof.
  induction saved as [|b rest IH]; intros c HH HS j g' Hj; cbn [Hist] in HH.
  - destruct (a_gens (as_arena c)) as [|g0 [|? ?]] eqn:Eg; try discriminate.
    destruct j as [|j]; [|destruct j; discriminate]. inversion Hj; subst g'.
    pose proof (checkpoint_of_gens (as_arena c) [] g0 Eg) as C.
    destruct HS as (H & _). pose proof (AI_len _ H) as (L1 & L2 & L3).
    unfold cpn, cpv, cpe in *. rewrite C in *. unfold le3, lens. cbn [fst snd] in *. auto.
  - destruct HH as (E & Sb & Hr). pose proof (Ext1_lens b c E) as (X1 & X2 & X3).
    destruct E as [(g & Eg & Ecp) _ _ _ _]. rewrite Eg in Hj.
    destruct (Nat.lt_ge_cases j (length (a_gens (as_arena b)))) as [Hlt|Hge].
    + rewrite nth_error_app1 in Hj by exact Hlt. destruct (IH b Hr Sb j g' Hj) as (Y1 & Y2 & Y3).
      unfold le3 in *. lia.
    + rewrite nth_error_app2 in Hj by exact Hge.
      destruct (j - length (a_gens (as_arena b))) as [|m]; [|destruct m; discriminate].
      inversion Hj; subst g'. rewrite Ecp. unfold le3. auto.
Qed.

Lemma firstn_prefix {A} k n (l l' : list A) : firstn n l = l' -> k <= n -> firstn k l = firstn k l'.
Proof. intros E Hk. rewrite <- E, firstn_firstn. f_equal. lia. Qed.

Lemma normalize_ext b c rest r :
  Ext1 b c -> SInv b -> Hist b rest -> length (as_handles c) = length (a_gens (as_arena c)) ->
  S r <= length (a_gens (as_arena b)) ->
  fst (as_step (ONormalize r) c) =
  if Nat.eqb (S r) (length (a_gens (as_arena b))) then b else fst (as_step (ONormalize r) b).
Proof.
  intros E Sb Hb Hlc Hr. pose proof Sb as (Hbi & _ & Hbne & Hbl).
  pose proof E as [(g & Eg & Ecp) En Ev Ee Eh].
  cbn [as_step fst].
  assert (Hh : normalize r (as_handles c) = normalize r (as_handles b)).
  { destruct (as_handles c) as [|h hc] eqn:Ehc; [rewrite Eg, app_length in Hlc; cbn in Hlc; lia|].
    cbn [tl] in Eh. subst hc. unfold normalize. cbn [length].
    replace (S (length (as_handles b)) - S r) with (S (length (as_handles b) - S r)) by lia. reflexivity. }
  destruct (Nat.eqb_spec (S r) (length (a_gens (as_arena b)))) as [Er|Er].
  - assert (Ea : a_normalize r (as_arena c) = as_arena b).
    { replace r with (length (a_gens (as_arena b)) - 1) by lia.
      inversion Ecp. apply (normalize_restores_prefix (as_arena b) (as_arena c) g []); auto. }
    rewrite Ea, Hh. unfold normalize. rewrite Hbl. replace (length (a_gens (as_arena b)) - S r) with 0 by lia.
    cbn [skipn]. destruct b; reflexivity.
  - assert (Hlt : S r < length (a_gens (as_arena b))) by lia.
    destruct (nth_error (a_gens (as_arena b)) (S r)) as [g'|] eqn:Eg'; [|apply nth_error_None in Eg'; lia].
    destruct (hist_cp_bound rest b Hb Sb (S r) g' Eg') as (Y1 & Y2 & Y3). unfold cp_of, lens in *. cbn [fst snd] in *.
    assert (Ea : a_normalize r (as_arena c) = a_normalize r (as_arena b)).
    { unfold a_normalize. rewrite Eg, nth_error_app1 by exact Hlt. rewrite Eg'.
      rewrite firstn_app_le by lia.
      rewrite (firstn_prefix _ _ _ _ Ee Y3), (firstn_prefix _ _ _ _ Ev Y2), (firstn_prefix _ _ _ _ En Y1). reflexivity. }
    rewrite Ea, Hh. reflexivity.
Qed.

Lemma normalize_hist : forall saved c r,
  Hist c saved -> SInv c -> S r < length (a_gens (as_arena c)) ->
  exists b, nth_error saved (length (a_gens (as_arena c)) - S r - 1) = Some b
    /\ fst (as_step (ONormalize r) c) = b
    /\ Hist b (skipn (S (length (a_gens (as_arena c)) - S r - 1)) saved) /\ SInv b.
Proof.
  induction saved as [|b rest IH]; intros c r HH HS Hr.
  - cbn [Hist] in HH. lia.
  - pose proof (hist_len c (b :: rest) HH) as Lc. cbn [Hist] in HH. destruct HH as (E & Sb & Hb).
    pose proof (hist_len b rest Hb) as Lb. cbn [length] in Lc.
    pose proof HS as (_ & _ & _ & Hlc).
    rewrite (normalize_ext b c rest r E Sb Hb Hlc ltac:(lia)).
    destruct (Nat.eqb_spec (S r) (length (a_gens (as_arena b)))) as [Er|Er].
    + exists b. replace (length (a_gens (as_arena c)) - S r - 1) with 0 by lia.
      cbn [nth_error skipn]. auto.
    + destruct (IH b r Hb Sb ltac:(lia)) as (b' & Hn & Hs & Hh & Sb').
      exists b'. replace (length (a_gens (as_arena c)) - S r - 1) with (S (length (a_gens (as_arena b)) - S r - 1)) by lia.
      cbn [nth_error skipn]. auto.
Qed.

Lemma normalize_noop c r :
  length (as_handles c) = length (a_gens (as_arena c)) ->
  length (a_gens (as_arena c)) <= S r -> fst (as_step (ONormalize r) c) = c.
Proof.
  intros Hl Hr. cbn [as_step fst]. unfold a_normalize, normalize.
  rewrite (proj2 (nth_error_None _ _)) by lia. rewrite firstn_all2 by lia.
  replace (length (as_handles c) - S r) with 0 by lia. cbn [skipn]. destruct c as [[? ? ? ?] ?]. reflexivity.
Qed.

(** * Whole histories: no leak and rollback at arena level *)

(** Run a history; at every [new_generation] the generation tag of the root must be the
    number of the current generation (a run-time check: the invariant that would give it
    needs that taken nodes are unreachable, which is not proved here). *)
Fixpoint as_exec (ops : list op) (s : astate) : option astate :=
  match ops with
  | [] => Some s
  | o :: r =>
      if (match o with ONewGen => tag_ok (as_arena s) | _ => true end)
      then as_exec r (fst (as_step o s)) else None
  end.

Lemma as_exec_app a b s :
  as_exec (a ++ b) s = match as_exec a s with Some s' => as_exec b s' | None => None end.
Proof.
  revert s. induction a as [|o a IH]; intros s; cbn [app as_exec]; [reflexivity|].
  destruct (match o with ONewGen => tag_ok (as_arena s) | _ => true end); [apply IH | reflexivity].
Qed.

Lemma exec_keeps base saved : forall ops c sv c',
  Hist base saved ->
  Hist c (sv ++ base :: saved) -> SInv c ->
  Forall (keeps (length (a_gens (as_arena base)))) ops ->
  as_exec ops c = Some c' ->
  exists sv', Hist c' (sv' ++ base :: saved) /\ SInv c'.
Proof.
  intros ops c sv c' Hbase. revert c sv. induction ops as [|o ops IH]; intros c sv HH HS Hk Hex; cbn [as_exec] in Hex.
  - inversion Hex; subst. eauto.
  - inversion Hk as [|? ? Ho Hk']; subst.
    pose proof (hist_len base saved Hbase) as Ln.
    pose proof (hist_len c _ HH) as Lc. rewrite app_length in Lc. cbn [length] in Lc.
    destruct o; cbn [keeps] in Ho;
      try (match type of Hex with
           | as_exec ops (fst (as_step ?o c)) = _ =>
               apply (IH (fst (as_step o c)) sv);
               [apply Hist_step; [exact HH | exact HS | reflexivity]
               | apply (proj1 (proj2 (as_step_cow o c HS eq_refl))) | exact Hk' | exact Hex]
           end).
    + (* new generation *)
      destruct (tag_ok (as_arena c)) eqn:Et; [|discriminate].
      destruct (newgen_step c _ HH HS Et) as (H1 & S1).
      apply (IH (fst (as_step ONewGen c)) (c :: sv)); assumption.
    + (* normalize *)
      pose proof HS as (_ & _ & _ & Hlc).
      destruct (Nat.le_gt_cases (length (a_gens (as_arena c))) (S r)) as [Hle|Hgt].
      * rewrite (normalize_noop c r Hlc Hle) in Hex. apply (IH c sv); assumption.
      * destruct (normalize_hist _ c r HH HS Hgt) as (b & Hn & Hs & Hh & Sb). rewrite Hs in Hex.
        set (k := length (a_gens (as_arena c)) - S r - 1) in *.
        assert (Hkk : S k <= length sv) by (unfold k; lia).
        rewrite skipn_app in Hh. replace (S k - length sv) with 0 in Hh by lia. cbn [skipn] in Hh.
        apply (IH b (skipn (S k) sv)); assumption.
Qed.

(** Older generations are never touched: whatever the newer generations do, the vectors of
    the base state stay a prefix of the current ones. *)
Lemma hist_prefix base saved : forall sv c,
  Hist c (sv ++ base :: saved) ->
  firstn (length (a_nodes (as_arena base))) (a_nodes (as_arena c)) = a_nodes (as_arena base)
  /\ firstn (length (a_values (as_arena base))) (a_values (as_arena c)) = a_values (as_arena base)
  /\ firstn (length (a_entries (as_arena base))) (a_entries (as_arena c)) = a_entries (as_arena base)
  /\ firstn (length (a_gens (as_arena base))) (a_gens (as_arena c)) = a_gens (as_arena base).
Proof.
  induction sv as [|b sv IH]; intros c HH; cbn [app Hist] in HH.
  - destruct HH as ([(g & Eg & _) En Ev Ee _] & _ & _). repeat split; try assumption.
    rewrite Eg. apply firstn_app_len.
  - destruct HH as (E & _ & Hb). destruct (IH b Hb) as (P1 & P2 & P3 & P4).
    pose proof (Ext1_lens b c E) as _. destruct E as [(g & Eg & _) En Ev Ee _].
    pose proof (firstn_eq_le _ _ _ P1 eq_refl). pose proof (firstn_eq_le _ _ _ P2 eq_refl).
    pose proof (firstn_eq_le _ _ _ P3 eq_refl). pose proof (firstn_eq_le _ _ _ P4 eq_refl).
    repeat split.
    + rewrite (firstn_prefix _ _ _ _ En) by assumption. exact P1.
    + rewrite (firstn_prefix _ _ _ _ Ev) by assumption. exact P2.
    + rewrite (firstn_prefix _ _ _ _ Ee) by assumption. exact P3.
    + rewrite Eg, firstn_app_le by assumption. exact P4.
Qed.

Theorem arena_no_leak_hist base saved ops c :
  Hist base saved -> SInv base ->
  Forall (keeps (length (a_gens (as_arena base)))) ops ->
  as_exec (ONewGen :: ops) base = Some c ->
  firstn (length (a_nodes (as_arena base))) (a_nodes (as_arena c)) = a_nodes (as_arena base)
  /\ firstn (length (a_values (as_arena base))) (a_values (as_arena c)) = a_values (as_arena base)
  /\ firstn (length (a_entries (as_arena base))) (a_entries (as_arena c)) = a_entries (as_arena base)
  /\ firstn (length (a_gens (as_arena base))) (a_gens (as_arena c)) = a_gens (as_arena base).
Proof.
  intros Hb Sb Hk Hex. cbn [as_exec] in Hex. destruct (tag_ok (as_arena base)) eqn:Et; [|discriminate].
  destruct (newgen_step base saved Hb Sb Et) as (H1 & S1).
  destruct (exec_keeps base saved ops _ [] c Hb H1 S1 Hk Hex) as (sv' & H2 & _).
  eapply hist_prefix. exact H2.
Qed.

Theorem arena_rollback_hist base saved ops c :
  Hist base saved -> SInv base ->
  Forall (keeps (length (a_gens (as_arena base)))) ops ->
  as_exec (ONewGen :: ops ++ [ONormalize (length (a_gens (as_arena base)) - 1)]) base = Some c ->
  c = base.
Proof.
  intros Hb Sb Hk Hex.
  change (ONewGen :: ops ++ [ONormalize (length (a_gens (as_arena base)) - 1)])
    with ((ONewGen :: ops) ++ [ONormalize (length (a_gens (as_arena base)) - 1)]) in Hex.
  rewrite as_exec_app in Hex.
  destruct (as_exec (ONewGen :: ops) base) as [c1|] eqn:E1; [|discriminate].
  cbn [as_exec] in E1. destruct (tag_ok (as_arena base)) eqn:Et; [|discriminate].
  destruct (newgen_step base saved Hb Sb Et) as (H1 & S1).
  destruct (exec_keeps base saved ops _ [] c1 Hb H1 S1 Hk E1) as (sv' & H2 & S2).
  cbn [as_exec] in Hex. inversion Hex as [Hc]. clear Hex.
  pose proof (hist_len base saved Hb) as Ln.
  pose proof (hist_len c1 _ H2) as Lc. rewrite app_length in Lc. cbn [length] in Lc.
  destruct (normalize_hist _ c1 (length (a_gens (as_arena base)) - 1) H2 S2 ltac:(lia)) as (b & Hn & Hs & _).
  subst c. change (fst (as_step (ONormalize (length (a_gens (as_arena base)) - 1)) c1) = base). rewrite Hs.
  replace (length (a_gens (as_arena c1)) - S (length (a_gens (as_arena base)) - 1) - 1) with (length sv') in Hn by lia.
  rewrite nth_error_app2, Nat.sub_diag in Hn by lia. cbn in Hn. congruence.
Qed.

(** The initial state satisfies everything. *)
Lemma SInv_init : SInv as_init.
Proof.
  unfold SInv, as_init. cbn [as_arena as_handles cur_handles]. split; [|split; [constructor | split; [discriminate | reflexivity]]].
  assert (C1 : cpn a_empty = 0) by reflexivity. assert (C2 : cpv a_empty = 0) by reflexivity.
  assert (C3 : cpe a_empty = 0) by reflexivity.
  apply AInv_intro; rewrite ?C1, ?C2, ?C3.
  - cbn. lia.
  - intros i Hi. lia.
  - intros i _. unfold node_at. cbn [a_empty a_nodes]. destruct i; apply NodeOK_default.
  - intros e v _ Hnth. cbn [a_empty a_entries] in Hnth. destruct e; discriminate.
  - intros r Hr. discriminate.
Qed.

Lemma Hist_init : Hist as_init [].
Proof. reflexivity. Qed.

(** Every state reached by a (checked) history from the initial state satisfies the
    invariant and has its saved generations. *)
Lemma exec_inv : forall ops c saved c',
  Hist c saved -> SInv c -> as_exec ops c = Some c' -> exists saved', Hist c' saved' /\ SInv c'.
Proof.
  induction ops as [|o ops IH]; intros c saved c' HH HS Hex; cbn [as_exec] in Hex.
  - inversion Hex; subst. eauto.
  - destruct o;
      try (match type of Hex with
           | as_exec ops (fst (as_step ?o c)) = _ =>
               apply (IH (fst (as_step o c)) saved);
               [apply Hist_step; [exact HH | exact HS | reflexivity]
               | apply (proj1 (proj2 (as_step_cow o c HS eq_refl))) | exact Hex]
           end).
    + destruct (tag_ok (as_arena c)) eqn:Et; [|discriminate].
      destruct (newgen_step c _ HH HS Et) as (H1 & S1).
      apply (IH (fst (as_step ONewGen c)) (c :: saved)); assumption.
    + pose proof HS as (_ & _ & _ & Hlc).
      destruct (Nat.le_gt_cases (length (a_gens (as_arena c))) (S r)) as [Hle|Hgt].
      * rewrite (normalize_noop c r Hlc Hle) in Hex. apply (IH c saved); assumption.
      * destruct (normalize_hist _ c r HH HS Hgt) as (b & Hn & Hs & Hh & Sb). rewrite Hs in Hex.
        apply (IH b _ c' Hh Sb Hex).
Qed.

Theorem reachable_inv ops s :
  as_exec ops as_init = Some s -> SInv s /\ exists saved, Hist s saved.
Proof.
  intros H. destruct (exec_inv ops as_init [] s Hist_init SInv_init H) as (sv & H1 & H2). eauto.
Qed.
