(** Lemmas about [CacheStatus.v]: the status machine refines the located trees of
    [Persist.v] ([to_a]); caching / loading changes neither contents, locations nor hash;
    after [store_update] nothing below the root lives in memory only and all references are
    valid; a second [store_update] writes the root record and the top record only. *)
From Coq Require Import NArith ZArith PeanoNat List Bool Lia.
From CB Require Import Common.Codec.
From CB Require Import Common.CodecProofs.
From CB Require Import Trie.Radix.
From CB Require Import Trie.RadixProofs.
From CB Require Import Trie.MerkleHash.
From CB Require Import Trie.MerkleHashProofs.
From CB Require Import Trie.Persist.
From CB Require Import Trie.PersistProofs.
From CB Require Import Trie.PersistFreezeProofs.
From CB Require Import Trie.CacheStatus.
Import ListNotations.
Local Open Scope N_scope.

Scheme stree_ind2 := Induction for stree Sort Prop
  with sforest_ind2 := Induction for sforest Sort Prop.
Combined Scheme stree_sforest_ind from stree_ind2, sforest_ind2.

(** * [cache], one [load_and_cache], [forget] keep the located tree *)
Lemma to_av_cache ov : to_av (cache_v ov) = to_av ov.
Proof. destruct ov as [[x [|r| |r]]|]; reflexivity. Qed.
Lemma to_av_forget ov : to_av (forget_v ov) = to_av ov.
Proof. destruct ov as [[x [|r| |r]]|]; reflexivity. Qed.
Lemma st_ann_cache s : st_ann (cache_st s) = st_ann s.
Proof. destruct s; reflexivity. Qed.
Lemma st_ann_forget s : st_ann (forget_st s) = st_ann s.
Proof. destruct s; reflexivity. Qed.

Lemma to_a_cache_mut :
  (forall t, to_a (s_cache t) = to_a t) /\ (forall f, to_a_f (s_cache_f f) = to_a_f f).
Proof.
  apply stree_sforest_ind.
  - intros s p v cs IH. cbn [s_cache to_a]. rewrite st_ann_cache, to_av_cache, IH. reflexivity.
  - reflexivity.
  - intros c t IHt r IHr. cbn [s_cache_f to_a_f]. rewrite IHt, IHr. reflexivity.
Qed.

Lemma to_a_forget_mut :
  (forall t, to_a (forget t) = to_a t) /\ (forall f, to_a_f (forget_f f) = to_a_f f).
Proof.
  apply stree_sforest_ind.
  - intros s p v cs IH. cbn [forget to_a]. rewrite st_ann_forget, to_av_forget, IH. reflexivity.
  - reflexivity.
  - intros c t IHt r IHr. cbn [forget_f to_a_f]. rewrite IHt, IHr. reflexivity.
Qed.

Lemma to_a_load1 t : to_a (s_load1 t) = to_a t.
Proof. destruct t as [s p v cs]. cbn [s_load1 to_a]. rewrite st_ann_cache. reflexivity. Qed.

(** after [cache] nothing is Disk *)
Fixpoint no_disk (t : stree) : bool :=
  match t with
  | SN s p ov cs =>
      (match s with StDisk _ => false | _ => true end)
      && (match ov with Some (_, VsDisk _) => false | _ => true end) && no_disk_f cs
  end
with no_disk_f (f : sforest) : bool :=
  match f with SNil => true | SCons _ t r => no_disk t && no_disk_f r end.

Lemma cache_no_disk_mut :
  (forall t, no_disk (s_cache t) = true) /\ (forall f, no_disk_f (s_cache_f f) = true).
Proof.
  apply stree_sforest_ind.
  - intros s p v cs IH. cbn [s_cache no_disk]. rewrite IH.
    destruct s; destruct v as [[x [|r1| |r1]]|]; reflexivity.
  - reflexivity.
  - intros c t IHt r IHr. cbn [s_cache_f no_disk_f]. rewrite IHt, IHr. reflexivity.
Qed.

(** caching keeps contents, hash, every location, hence validity of the references *)
Theorem cache_preserves (sha256 : list N -> list N) st t :
  to_a (s_cache t) = to_a t
  /\ erase (to_a (s_cache t)) = erase (to_a t)
  /\ hash_node sha256 (erase (to_a (s_cache t))) = hash_node sha256 (erase (to_a t))
  /\ (consistent sha256 st (to_a t) -> consistent sha256 st (to_a (s_cache t)))
  /\ no_disk (s_cache t) = true.
Proof.
  rewrite (proj1 to_a_cache_mut t). repeat split; auto. apply (proj1 cache_no_disk_mut).
Qed.

Theorem load1_preserves (sha256 : list N -> list N) st t :
  to_a (s_load1 t) = to_a t
  /\ hash_node sha256 (erase (to_a (s_load1 t))) = hash_node sha256 (erase (to_a t))
  /\ (consistent sha256 st (to_a t) -> consistent sha256 st (to_a (s_load1 t))).
Proof. rewrite to_a_load1. repeat split; auto. Qed.

(** * [located] / [good] *)
Lemma v_settled_cache ov : v_settled (cache_v ov) = v_settled ov.
Proof. destruct ov as [[x [|r| |r]]|]; reflexivity. Qed.
Lemma v_settled_forget ov : v_settled (forget_v ov) = v_settled ov.
Proof. destruct ov as [[x [|r| |r]]|]; reflexivity. Qed.

Lemma located_cache_mut :
  (forall t, located (s_cache t) = located t) /\ (forall f, located_f (s_cache_f f) = located_f f).
Proof.
  apply stree_sforest_ind.
  - intros s p v cs IH. cbn [s_cache located]. rewrite v_settled_cache, IH. destruct s; reflexivity.
  - reflexivity.
  - intros c t IHt r IHr. cbn [s_cache_f located_f]. rewrite IHt, IHr. reflexivity.
Qed.

Lemma located_forget_mut :
  (forall t, located (forget t) = located t) /\ (forall f, located_f (forget_f f) = located_f f).
Proof.
  apply stree_sforest_ind.
  - intros s p v cs IH. cbn [forget located]. rewrite v_settled_forget, IH. destruct s; reflexivity.
  - reflexivity.
  - intros c t IHt r IHr. cbn [forget_f located_f]. rewrite IHt, IHr. reflexivity.
Qed.

Lemma good_cache_mut :
  (forall t, good (s_cache t) = good t) /\ (forall f, good_f (s_cache_f f) = good_f f).
Proof.
  apply stree_sforest_ind.
  - intros s p v cs IH. cbn [s_cache good]. rewrite v_settled_cache, IH, (proj2 located_cache_mut).
    destruct s; reflexivity.
  - reflexivity.
  - intros c t IHt r IHr. cbn [s_cache_f good_f]. rewrite IHt, IHr. reflexivity.
Qed.

Lemma located_good_mut :
  (forall t, located t = true -> good t = true) /\ (forall f, located_f f = true -> good_f f = true).
Proof.
  apply stree_sforest_ind.
  - intros s p v cs IH H. cbn [located] in H. apply andb_true_iff in H as [H Hc].
    apply andb_true_iff in H as [Hs Hv]. cbn [good]. destruct s; [|discriminate|]; rewrite Hv, Hc; reflexivity.
  - reflexivity.
  - intros c t IHt r IHr H. cbn [located_f] in H. apply andb_true_iff in H as [Ht Hr].
    cbn [good_f]. rewrite IHt, IHr by assumption. reflexivity.
Qed.

Lemma good_of_tree_mut :
  (forall t, good (s_of_tree t) = true) /\ (forall f, good_f (s_of_forest f) = true).
Proof.
  apply tree_forest_ind.
  - intros p ov cs IH. cbn [s_of_tree good]. exact IH.
  - reflexivity.
  - intros c t IHt r IHr. cbn [s_of_forest good_f]. rewrite IHt, IHr. reflexivity.
Qed.

(** the census of a located subtree shows no Memory node link *)
Lemma n_mem_add a b : n_mem (cens_add a b) = n_mem a + n_mem b.
Proof. reflexivity. Qed.

Lemma located_census_mut :
  (forall t, located t = true -> n_mem (census t) = 0)
  /\ (forall f, located_f f = true -> n_mem (census_f f) = 0).
Proof.
  apply stree_sforest_ind.
  - intros s p v cs IH H. cbn [located] in H. apply andb_true_iff in H as [H Hc].
    apply andb_true_iff in H as [Hs Hv]. cbn [census]. destruct s; [reflexivity | discriminate |].
    rewrite !n_mem_add, (IH Hc). destruct v as [[x [|r1| |r1]]|]; reflexivity.
  - reflexivity.
  - intros c t IHt r IHr H. cbn [located_f] in H. apply andb_true_iff in H as [Ht Hr].
    cbn [census_f]. rewrite n_mem_add, IHt, IHr by assumption. reflexivity.
Qed.

Section WithHash.
Variable sha256 : list N -> list N.

Lemma s_store_node_eq s p ov cs st :
  s_store_node sha256 (SN s p ov cs) st =
  match s with
  | StDisk r | StCached r => (st, SN s p ov cs, r)
  | StMem =>
      let '(st1, cs', refs) := s_store_children sha256 cs st in
      let '(st2, ov', sv) := s_store_value sha256 ov st1 in
      let body := enc_rec (mkRec (hash_node sha256 (erase (to_a (SN s p ov cs)))) p sv
                                 (combine (labels (to_a_f cs)) refs)) in
      let '(st3, r) := store_raw st2 body in
      (st3, SN (StDisk r) p ov' (forget_f cs'), r)
  end.
Proof. reflexivity. Qed.

Lemma s_store_children_cons c t r st :
  s_store_children sha256 (SCons c t r) st =
  let '(st1, r', refs) := s_store_children sha256 r st in
  let '(st2, t', x) := s_store_node sha256 t st1 in
  (st2, SCons c t' r', x :: refs).
Proof. reflexivity. Qed.

Lemma s_migrate_node_eq s p ov cs st :
  s_migrate_node sha256 (SN s p ov cs) st =
  let '(st1, cs', refs) := s_migrate_children sha256 cs st in
  let '(st2, ov', sv) := s_migrate_value sha256 ov st1 in
  let body := enc_rec (mkRec (hash_node sha256 (erase (to_a (SN s p ov cs)))) p sv
                             (combine (labels (to_a_f cs)) refs)) in
  let '(st3, r) := store_raw st2 body in
  (st3, SN (StDisk r) p ov' cs', r).
Proof. reflexivity. Qed.

Lemma s_migrate_children_cons c t r st :
  s_migrate_children sha256 (SCons c t r) st =
  let '(st1, r', refs) := s_migrate_children sha256 r st in
  let '(st2, t', x) := s_migrate_node sha256 t st1 in
  (st2, SCons c t' r', x :: refs).
Proof. reflexivity. Qed.

(** * Refinement: the status operations are the operations of [Persist.v] under [to_a] *)
Lemma s_store_value_sim ov st :
  store_value sha256 (to_av ov) st =
  let '(st', ov', sv) := s_store_value sha256 ov st in (st', to_av ov', sv).
Proof.
  unfold store_value, s_store_value. destruct ov as [[x s]|]; [|reflexivity]. cbn [to_av].
  destruct (lenN x <=? INLINE_VALUE_LEN); [reflexivity|].
  destruct s; cbn [vs_ann]; try reflexivity; destruct (store_raw st x); reflexivity.
Qed.

Lemma s_migrate_value_sim ov st :
  migrate_value sha256 (to_av ov) st =
  let '(st', ov', sv) := s_migrate_value sha256 ov st in (st', to_av ov', sv).
Proof.
  unfold migrate_value, s_migrate_value. destruct ov as [[x s]|]; [|reflexivity]. cbn [to_av].
  destruct (lenN x <=? INLINE_VALUE_LEN); [reflexivity|]. destruct (store_raw st x); reflexivity.
Qed.

Lemma s_store_sim_mut :
  (forall t st, store_node sha256 (to_a t) st =
                let '(st', t', r) := s_store_node sha256 t st in (st', to_a t', r))
  /\ (forall f st, store_children sha256 (to_a_f f) st =
                   let '(st', f', refs) := s_store_children sha256 f st in (st', to_a_f f', refs)).
Proof.
  apply stree_sforest_ind.
  - intros s p ov cs IH st. rewrite s_store_node_eq.
    change (to_a (SN s p ov cs)) with (AN (st_ann s) p (to_av ov) (to_a_f cs)).
    rewrite store_node_eq. destruct s; cbn [st_ann]; try reflexivity.
    rewrite IH. destruct (s_store_children sha256 cs st) as [[st1 cs'] refs].
    rewrite s_store_value_sim. destruct (s_store_value sha256 ov st1) as [[st2 ov'] sv]. cbv zeta.
    destruct (store_raw st2 _) as [st3 r]. cbn [to_a]. rewrite (proj2 to_a_forget_mut). reflexivity.
  - reflexivity.
  - intros c t IHt r IHr st. cbn [to_a_f]. rewrite store_children_cons, s_store_children_cons, IHr.
    destruct (s_store_children sha256 r st) as [[st1 r'] refs]. rewrite IHt.
    destruct (s_store_node sha256 t st1) as [[st2 t'] x]. reflexivity.
Qed.

Lemma s_migrate_sim_mut :
  (forall t st, migrate_node sha256 (to_a t) st =
                let '(st', t', r) := s_migrate_node sha256 t st in (st', to_a t', r))
  /\ (forall f st, migrate_children sha256 (to_a_f f) st =
                   let '(st', f', refs) := s_migrate_children sha256 f st in (st', to_a_f f', refs)).
Proof.
  apply stree_sforest_ind.
  - intros s p ov cs IH st. rewrite s_migrate_node_eq.
    change (to_a (SN s p ov cs)) with (AN (st_ann s) p (to_av ov) (to_a_f cs)).
    rewrite migrate_node_eq, IH. destruct (s_migrate_children sha256 cs st) as [[st1 cs'] refs].
    rewrite s_migrate_value_sim. destruct (s_migrate_value sha256 ov st1) as [[st2 ov'] sv]. cbv zeta.
    destruct (store_raw st2 _) as [st3 r]. reflexivity.
  - reflexivity.
  - intros c t IHt r IHr st. cbn [to_a_f]. rewrite migrate_children_cons, s_migrate_children_cons, IHr.
    destruct (s_migrate_children sha256 r st) as [[st1 r'] refs]. rewrite IHt.
    destruct (s_migrate_node sha256 t st1) as [[st2 t'] x]. reflexivity.
Qed.

Theorem s_store_update_sim r st :
  store_update sha256 (to_a_root r) st =
  let '(st', k, l, top) := s_store_update sha256 r st in (st', to_a_root k, to_a_root l, top).
Proof.
  destruct r as [[s p ov cs]|]; [|cbn [to_a_root option_map store_update s_store_update];
                                   destruct (store_raw st [0]); reflexivity].
  cbn [to_a_root option_map]. unfold store_update, s_store_update.
  change (to_a (SN s p ov cs)) with (AN (st_ann s) p (to_av ov) (to_a_f cs)).
  rewrite store_node_eq. destruct s; cbn [st_ann].
  - destruct (store_raw st (1 :: be64 r)) as [st2 top]. cbn [to_a_root option_map to_a st_ann].
    rewrite to_av_forget, (proj2 to_a_forget_mut). reflexivity.
  - rewrite (proj2 s_store_sim_mut). destruct (s_store_children sha256 cs st) as [[st1 cs'] refs].
    rewrite s_store_value_sim. destruct (s_store_value sha256 ov st1) as [[st2 ov'] sv]. cbv zeta.
    destruct (store_raw st2 _) as [st3 x]. destruct (store_raw st3 (1 :: be64 x)) as [st4 top].
    cbn [to_a_root option_map to_a st_ann]. rewrite (proj2 to_a_forget_mut). reflexivity.
  - destruct (store_raw st (1 :: be64 r)) as [st2 top]. cbn [to_a_root option_map to_a st_ann].
    rewrite to_av_forget, (proj2 to_a_forget_mut). reflexivity.
Qed.

Theorem s_migrate_sim r st :
  migrate sha256 (to_a_root r) st = let '(st', r') := s_migrate sha256 r st in (st', to_a_root r').
Proof.
  destruct r as [t|]; [|reflexivity]. cbn [to_a_root option_map migrate s_migrate].
  rewrite (proj1 s_migrate_sim_mut). destruct (s_migrate_node sha256 t st) as [[st1 t'] x]. reflexivity.
Qed.

Lemma of_tree_strip_mut :
  (forall a, to_a (s_of_tree (erase a)) = strip a) /\ (forall f, to_a_f (s_of_forest (erase_f f)) = strip_f f).
Proof.
  apply atree_aforest_ind.
  - intros o p ov cs IH. cbn [erase s_of_tree to_a strip st_ann]. rewrite IH. f_equal.
    destruct ov as [[v a]|]; [|reflexivity]. cbn [option_map fst mem_v to_av].
    destruct (lenN v <=? INLINE_VALUE_LEN); reflexivity.
  - reflexivity.
  - intros c t IHt r IHr. cbn [erase_f s_of_forest to_a_f strip_f]. rewrite IHt, IHr. reflexivity.
Qed.

(** Every step of the status machine is the step of the C04 machine [c_step] on the located
    trees (which is tied to the implementation by the correspondence run). *)
Theorem s_step_refines o s :
  fst (c_step sha256 (cop_of o) (mkC (ss_store s) (to_a_root (ss_root s)) None))
  = mkC (ss_store (s_step sha256 o s)) (to_a_root (ss_root (s_step sha256 o s))) None.
Proof.
  destruct s as [st r]. destruct o; cbn [cop_of c_step s_step ss_store ss_root]; unfold settle;
    cbn [c_mut c_pers c_store].
  - rewrite s_store_update_sim. destruct (s_store_update sha256 r st) as [[[st' k] l] top]. reflexivity.
  - rewrite s_store_update_sim. destruct (s_store_update sha256 r st) as [[[st' k] l] top]. reflexivity.
  - unfold cache. cbn [fst ss_store ss_root]. f_equal.
    destruct r as [t|]; [|reflexivity]. cbn [to_a_root option_map]. rewrite (proj1 to_a_cache_mut). reflexivity.
  - rewrite s_migrate_sim. destruct (s_migrate sha256 r empty_store) as [st' r']. reflexivity.
  - cbn [fst ss_store ss_root]. f_equal. destruct r as [t|]; [|reflexivity].
    cbn [to_a_root option_map]. rewrite (proj1 of_tree_strip_mut). reflexivity.
Qed.

(** * After [store_update] nothing below the root lives in memory only *)
Lemma s_store_value_settled ov st : v_settled (snd (fst (s_store_value sha256 ov st))) = true.
Proof.
  unfold s_store_value. destruct ov as [[x s]|]; [|reflexivity].
  destruct (lenN x <=? INLINE_VALUE_LEN) eqn:E.
  - cbn [fst snd v_settled]. destruct s; try reflexivity; exact E.
  - destruct s; try reflexivity; destruct (store_raw st x); reflexivity.
Qed.

Lemma s_store_located_mut :
  (forall t st, good t = true -> located (snd (fst (s_store_node sha256 t st))) = true)
  /\ (forall f st, good_f f = true -> located_f (snd (fst (s_store_children sha256 f st))) = true).
Proof.
  apply stree_sforest_ind.
  - intros s p ov cs IH st H. rewrite s_store_node_eq. cbn [good] in H. destruct s.
    + apply andb_true_iff in H as [Hv Hc]. cbn [fst snd located]. rewrite Hv, Hc. reflexivity.
    + specialize (IH st H). destruct (s_store_children sha256 cs st) as [[st1 cs'] refs]. cbn [fst snd] in IH.
      pose proof (s_store_value_settled ov st1) as Hv.
      destruct (s_store_value sha256 ov st1) as [[st2 ov'] sv]. cbn [fst snd] in Hv. cbv zeta.
      destruct (store_raw st2 _) as [st3 r]. cbn [fst snd located].
      rewrite Hv, (proj2 located_forget_mut), IH. reflexivity.
    + apply andb_true_iff in H as [Hv Hc]. cbn [fst snd located]. rewrite Hv, Hc. reflexivity.
  - reflexivity.
  - intros c t IHt r IHr st H. cbn [good_f] in H. apply andb_true_iff in H as [Ht Hr].
    rewrite s_store_children_cons. specialize (IHr st Hr).
    destruct (s_store_children sha256 r st) as [[st1 r'] refs]. cbn [fst snd] in IHr.
    specialize (IHt st1 Ht). destruct (s_store_node sha256 t st1) as [[st2 t'] x]. cbn [fst snd located_f] in *.
    rewrite IHt, IHr. reflexivity.
Qed.

(** (3) after [store_update] of a [good] state: below the root of the kept state every link
    has a reference and no long value is in memory only; the reloaded state is Disk at the
    root; both are [good] again; the census shows at most the root as Memory. *)
Theorem store_update_settles t st st' k l top :
  good t = true -> s_store_update sha256 (Some t) st = (st', k, l, top) ->
  exists k0 l0, k = Some k0 /\ l = Some l0
    /\ located_below k0 = true /\ located l0 = true /\ good k0 = true /\ good l0 = true
    /\ n_mem (census k0) <= 1 /\ census l0 = mkCens 1 0 0 0 0 0 0.
Proof.
  intros Hg E. destruct t as [s p ov cs]. unfold s_store_update in E. cbn [good] in Hg. destruct s.
  - destruct (store_raw st (1 :: be64 r)) as [st2 tp]. injection E as <- <- <- <-.
    apply andb_true_iff in Hg as [Hv Hc].
    exists (SN (StDisk r) p ov cs), (SN (StDisk r) p (forget_v ov) (forget_f cs)).
    cbn [located_below located good census]. rewrite v_settled_forget, (proj2 located_forget_mut), Hv, Hc.
    repeat split; try reflexivity. cbn. lia.
  - pose proof (proj2 s_store_located_mut cs st Hg) as Hc.
    destruct (s_store_children sha256 cs st) as [[st1 cs'] refs]. cbn [fst snd] in Hc.
    pose proof (s_store_value_settled ov st1) as Hv.
    destruct (s_store_value sha256 ov st1) as [[st2 ov'] sv]. cbn [fst snd] in Hv. cbv zeta in E.
    destruct (store_raw st2 _) as [st3 x]. destruct (store_raw st3 (1 :: be64 x)) as [st4 tp].
    injection E as <- <- <- <-.
    exists (SN StMem p ov' cs'), (SN (StDisk x) p ov' (forget_f cs')).
    cbn [located_below located good census]. rewrite (proj2 located_forget_mut), Hv, Hc.
    rewrite (proj2 located_good_mut cs' Hc).
    repeat split; try reflexivity. rewrite !n_mem_add, (proj2 located_census_mut cs' Hc).
    destruct ov' as [[x0 [|r1| |r1]]|]; cbn; lia.
  - destruct (store_raw st (1 :: be64 r)) as [st2 tp]. injection E as <- <- <- <-.
    apply andb_true_iff in Hg as [Hv Hc].
    exists (SN (StCached r) p ov cs), (SN (StDisk r) p (forget_v ov) (forget_f cs)).
    cbn [located_below located good census]. rewrite v_settled_forget, (proj2 located_forget_mut), Hv, Hc.
    repeat split; try reflexivity.
    rewrite !n_mem_add, (proj2 located_census_mut cs Hc). destruct ov as [[x0 [|r1| |r1]]|]; cbn; lia.
Qed.

(** * A second [store_update] writes nothing new *)
Lemma located_store_mut :
  (forall t st, located t = true -> exists r, s_store_node sha256 t st = (st, t, r))
  /\ (forall f st, located_f f = true -> exists refs, s_store_children sha256 f st = (st, f, refs)).
Proof.
  apply stree_sforest_ind.
  - intros s p ov cs IH st H. rewrite s_store_node_eq. cbn [located] in H. destruct s; [eauto | discriminate | eauto].
  - intros st _. exists []. reflexivity.
  - intros c t IHt r IHr st H. cbn [located_f] in H. apply andb_true_iff in H as [Ht Hr].
    rewrite s_store_children_cons. destruct (IHr st Hr) as [refs ->]. destruct (IHt st Ht) as [x ->]. eauto.
Qed.

Lemma settled_value_store ov st : v_settled ov = true -> fst (fst (s_store_value sha256 ov st)) = st.
Proof.
  unfold s_store_value, v_settled. destruct ov as [[x s]|]; [|reflexivity].
  destruct (lenN x <=? INLINE_VALUE_LEN); [reflexivity|]. destruct s; try discriminate; reflexivity.
Qed.

(** (4) [store_update] of a state with nothing in memory below the root (e.g. the state kept
    after a [store_update]) appends exactly the root record and the top record (root
    Memory), or the top record only (root Disk / Cached): no child record, no value. *)
Theorem second_store_writes_nothing t st st2 k2 l2 top2 :
  located_below t = true -> s_store_update sha256 (Some t) st = (st2, k2, l2, top2) ->
  (exists x body, s_recs st2 = (top2, 1 :: be64 x) :: (x, body) :: s_recs st)
  \/ (exists x, s_recs st2 = (top2, 1 :: be64 x) :: s_recs st).
Proof.
  intros Hl E. destruct t as [s p ov cs]. unfold s_store_update in E. cbn [located_below] in Hl.
  apply andb_true_iff in Hl as [Hv Hc]. destruct s.
  - right. unfold store_raw in E. injection E as <- _ _ <-. eexists. reflexivity.
  - left. destruct (proj2 located_store_mut cs st Hc) as [refs Ec]. rewrite Ec in E.
    pose proof (settled_value_store ov st Hv) as Ev.
    destruct (s_store_value sha256 ov st) as [[st2' ov'] sv]. cbn [fst] in Ev. subst st2'. cbv zeta in E.
    unfold store_raw in E. cbn [s_next s_recs] in E. injection E as <- _ _ <-. eexists. eexists. reflexivity.
  - right. unfold store_raw in E. injection E as <- _ _ <-. eexists. reflexivity.
Qed.

(** * [migrate]: everything Disk in the new store *)
Lemma s_migrate_located_mut :
  (forall t st, located (snd (fst (s_migrate_node sha256 t st))) = true)
  /\ (forall f st, located_f (snd (fst (s_migrate_children sha256 f st))) = true).
Proof.
  apply stree_sforest_ind.
  - intros s p ov cs IH st. rewrite s_migrate_node_eq. specialize (IH st).
    destruct (s_migrate_children sha256 cs st) as [[st1 cs'] refs]. cbn [fst snd] in IH.
    assert (Hv : v_settled (snd (fst (s_migrate_value sha256 ov st1))) = true).
    { unfold s_migrate_value. destruct ov as [[x s0]|]; [|reflexivity].
      destruct (lenN x <=? INLINE_VALUE_LEN) eqn:E; [exact E|]. destruct (store_raw st1 x); reflexivity. }
    destruct (s_migrate_value sha256 ov st1) as [[st2 ov'] sv]. cbn [fst snd] in Hv. cbv zeta.
    destruct (store_raw st2 _) as [st3 r]. cbn [fst snd located]. rewrite Hv, IH. reflexivity.
  - reflexivity.
  - intros c t IHt r IHr st. rewrite s_migrate_children_cons. specialize (IHr st).
    destruct (s_migrate_children sha256 r st) as [[st1 r'] refs]. cbn [fst snd] in IHr.
    specialize (IHt st1). destruct (s_migrate_node sha256 t st1) as [[st2 t'] x]. cbn [fst snd located_f] in *.
    rewrite IHt, IHr. reflexivity.
Qed.

(** [good] is an invariant of the status machine (it holds for every state in memory). *)
Theorem s_step_good o s : good_root (ss_root s) = true -> good_root (ss_root (s_step sha256 o s)) = true.
Proof.
  destruct s as [st r]. intros Hg. cbn [ss_root] in Hg. destruct o; cbn [s_step ss_store ss_root].
  - destruct r as [t|].
    + destruct (s_store_update sha256 (Some t) st) as [[[st' k] l] top] eqn:E.
      destruct (store_update_settles t st st' k l top Hg E) as (k0 & l0 & -> & -> & _ & _ & Gk & _). exact Gk.
    + cbn [s_store_update]. destruct (store_raw st [0]). reflexivity.
  - destruct r as [t|].
    + destruct (s_store_update sha256 (Some t) st) as [[[st' k] l] top] eqn:E.
      destruct (store_update_settles t st st' k l top Hg E) as (k0 & l0 & -> & -> & _ & _ & _ & Gl & _). exact Gl.
    + cbn [s_store_update]. destruct (store_raw st [0]). reflexivity.
  - destruct r as [t|]; [|reflexivity]. cbn [option_map good_root] in *. rewrite (proj1 good_cache_mut). exact Hg.
  - destruct r as [t|]; [|reflexivity]. cbn [s_migrate].
    pose proof (proj1 s_migrate_located_mut t empty_store) as H.
    destruct (s_migrate_node sha256 t empty_store) as [[st1 t'] x]. cbn [fst snd ss_root good_root] in *.
    apply (proj1 located_good_mut). exact H.
  - destruct r as [t|]; [|reflexivity]. cbn [option_map good_root]. apply (proj1 good_of_tree_mut).
Qed.

Hypothesis sha_len : forall x, length (sha256 x) = 32%nat.

(** (6) the references written by [store_update] are valid: both resulting states are
    [consistent] with the new store (every located node / long value IS at its reference)
    and have the contents of the stored state. *)
Theorem store_update_valid t st st' k l top :
  s_store_update sha256 (Some t) st = (st', Some k, Some l, top) ->
  tree_ok (to_a t) -> bounded st -> consistent sha256 st (to_a t) -> s_next st' < 2 ^ 64 ->
  consistent sha256 st' (to_a k) /\ consistent sha256 st' (to_a l)
  /\ erase (to_a k) = erase (to_a t) /\ erase (to_a l) = erase (to_a t) /\ bounded st'.
Proof.
  intros E Hok Hb Hc Hn.
  pose proof (s_store_update_sim (Some t) st) as S. rewrite E in S. cbn [to_a_root option_map] in S.
  destruct (store_update_incremental sha256 sha_len _ _ _ _ _ _ S Hok Hb Hc Hn) as (Ek & El & _ & Hb' & Ck & Cl).
  cbn [erase_root option_map] in Ek, El. injection Ek as Ek. injection El as El. auto.
Qed.

End WithHash.

(** * Non-vacuity: a run of the status machine (toy hash) *)
Definition toy_sha_c (l : list N) : list N := repeat (lenN l mod 251) 32.

Definition status_run_tree : tree value :=
  Node [1] None (FCons 2 (Node [3; 4] (Some (repeat 7 70)) FNil)
                (FCons 5 (Node [] (Some [1]) (FCons 0 (Node [9] (Some [2]) FNil) FNil)) FNil)).
Definition cens_list (c : cens) : list N :=
  [n_disk c; n_mem c; n_cached c; v_disk c; v_mem c; v_cached c; v_inline c].

(** store, store again (nothing new), cache, store+reload, cache, store (nothing), migrate,
    serialize+deserialize: (Disk, Memory, Cached node links; Disk, Memory, Cached, inline values) *)
Example status_run :
  map (fun x => cens_list (fst x))
      (s_run toy_sha_c [SoStore; SoStore; SoCache; SoLoad; SoCache; SoStore; SoMigrate; SoSerial]
             (mkS empty_store (Some (s_of_tree status_run_tree))))
  = [[2; 1; 0; 0; 0; 0; 0]; [2; 1; 0; 0; 0; 0; 0]; [0; 1; 3; 0; 0; 1; 2]; [1; 0; 0; 0; 0; 0; 0];
     [0; 0; 4; 0; 0; 1; 2]; [0; 0; 4; 0; 0; 1; 2]; [1; 0; 0; 0; 0; 0; 0]; [0; 4; 0; 0; 1; 0; 2]].
Proof. vm_compute. reflexivity. Qed.
