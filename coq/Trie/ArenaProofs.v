(** First lemmas about the arena model [Arena.v]: the generation bookkeeping.
    [new_generation] only appends; [normalize] to the previous generation undoes it exactly;
    the copying primitives ([migrate], [make_owned]) only append to the vectors and touch no
    node other than the one they are applied to.  (That every operation of a newer generation
    only touches indices above its checkpoint needs the ownership invariant of the walks; it
    is checked at run time by the extracted runner, not proved here.) *)
From Coq Require Import NArith PeanoNat List Bool Lia.
From CB Require Import Trie.Radix.
From CB Require Import Trie.Locks.
From CB Require Import Trie.Arena.
Import ListNotations.
Local Open Scope N_scope.

Lemma firstn_app_len {A} (a b : list A) : firstn (length a) (a ++ b) = a.
Proof. rewrite firstn_app, Nat.sub_diag, firstn_all. cbn. apply app_nil_r. Qed.

Lemma nth_error_app_len {A} (a : list A) x : nth_error (a ++ [x]) (length a) = Some x.
Proof. rewrite nth_error_app2 by lia. rewrite Nat.sub_diag. reflexivity. Qed.

(** [migrate] appends at most one entry and changes nothing else. *)
Lemma migrate_shape a n g :
  let '(a', n') := migrate a n g in
  a_gens a' = a_gens a /\ a_values a' = a_values a /\ a_nodes a' = a_nodes a
  /\ (exists es, a_entries a' = a_entries a ++ es)
  /\ an_gen n' = g /\ an_path n' = an_path n /\ an_ch n' = an_ch n /\ an_cgen n' = an_cgen n.
Proof.
  unfold migrate. destruct (an_val n); cbn; repeat split; eauto.
  exists []. rewrite app_nil_r. reflexivity.
Qed.

Lemma migrate_children_shape : forall ch a g next,
  let '(a', ns, cs) := migrate_children a g next ch in
  a_gens a' = a_gens a /\ a_values a' = a_values a /\ a_nodes a' = a_nodes a
  /\ (exists es, a_entries a' = a_entries a ++ es)
  /\ length ns = length ch /\ map fst cs = map fst ch.
Proof.
  induction ch as [|[k i] ch IH]; intros a g next; cbn [migrate_children].
  - repeat split; auto. exists []. rewrite app_nil_r. reflexivity.
  - pose proof (migrate_shape a (node_at a i) g) as M.
    destruct (migrate a (node_at a i) g) as [a1 n'].
    destruct M as (G1 & V1 & N1 & (es1 & E1) & _).
    specialize (IH a1 g (S next)).
    destruct (migrate_children a1 g (S next) ch) as [[a2 ns] cs].
    destruct IH as (G2 & V2 & N2 & (es2 & E2) & L & F).
    repeat split; try congruence.
    + exists (es1 ++ es2). rewrite E2, E1, app_assoc. reflexivity.
    + cbn. congruence.
    + cbn. congruence.
Qed.

Lemma set_nth_length {A} i (x : A) l : length (set_nth i x l) = length l.
Proof. revert i. induction l as [|a l IH]; intros [|i]; cbn; auto. Qed.

Lemma firstn_set_nth_ge {A} cp i (x : A) l : (cp <= i)%nat -> firstn cp (set_nth i x l) = firstn cp l.
Proof.
  revert cp i. induction l as [|a l IH]; intros [|cp] [|i] H; cbn; try reflexivity; try lia.
  f_equal. apply IH. lia.
Qed.

(** [make_owned idx]: generations and values unchanged, entries and nodes only grow, and
    below any bound [cp <= idx] the node vector is literally the same. *)
Theorem make_owned_shape a idx cp :
  (cp <= idx)%nat -> (cp <= length (a_nodes a))%nat ->
  let a' := make_owned a idx in
  a_gens a' = a_gens a /\ a_values a' = a_values a
  /\ (exists es, a_entries a' = a_entries a ++ es)
  /\ firstn cp (a_nodes a') = firstn cp (a_nodes a)
  /\ (length (a_nodes a) <= length (a_nodes a'))%nat.
Proof.
  intros Hi Hl. unfold make_owned.
  destruct (Nat.eqb (an_cgen (node_at a idx)) (an_gen (node_at a idx))).
  - cbn. repeat split; auto. exists []. rewrite app_nil_r. reflexivity.
  - pose proof (migrate_children_shape (an_ch (node_at a idx)) a (an_gen (node_at a idx)) (length (a_nodes a))) as M.
    destruct (migrate_children a (an_gen (node_at a idx)) (length (a_nodes a)) (an_ch (node_at a idx))) as [[a1 ns] cs].
    destruct M as (G & V & N & E & _). cbn [set_node a_gens a_values a_entries a_nodes].
    repeat split; auto.
    + rewrite firstn_set_nth_ge by assumption. rewrite N, firstn_app.
      replace (cp - length (a_nodes a))%nat with O by lia. cbn. apply app_nil_r.
    + rewrite set_nth_length, app_length, N. lia.
Qed.

(** [new_generation] only appends: the older generations and everything below the new
    checkpoint are unchanged. *)
Theorem new_generation_appends a :
  a_gens a <> [] ->
  let a' := a_new_generation a in
  exists g, a_gens a' = a_gens a ++ [g]
    /\ ag_nodes g = length (a_nodes a) /\ ag_values g = length (a_values a) /\ ag_entries g = length (a_entries a)
    /\ firstn (length (a_nodes a)) (a_nodes a') = a_nodes a
    /\ firstn (length (a_entries a)) (a_entries a') = a_entries a
    /\ a_values a' = a_values a.
Proof.
  intros Hne. unfold a_new_generation. destruct (cur_root a) as [r|].
  - pose proof (migrate_shape a (node_at a r) (S (an_gen (node_at a r)))) as M.
    destruct (migrate a (node_at a r) (S (an_gen (node_at a r)))) as [a1 n'].
    destruct M as (G & V & N & (es & E) & _).
    eexists. cbn [push_node a_gens a_values a_entries a_nodes]. rewrite G, V, N, E.
    repeat split; try reflexivity; apply firstn_app_len.
  - destruct (a_gens a) eqn:Eg; [congruence|]. eexists. cbn [a_gens a_values a_entries a_nodes].
    rewrite <- Eg. repeat split; try reflexivity; apply firstn_all.
Qed.

(** Rolling back to the generation a checkpoint was taken from restores the arena exactly. *)
Theorem normalize_undoes_new_generation a :
  a_gens a <> [] ->
  a_normalize (length (a_gens a) - 1) (a_new_generation a) = a.
Proof.
  intros Hne. destruct (new_generation_appends a Hne) as (g & G & Cn & Cv & Ce & Pn & Pe & V).
  unfold a_normalize.
  assert (L : S (length (a_gens a) - 1) = length (a_gens a)) by (destruct (a_gens a); [congruence | cbn; lia]).
  rewrite L, G, nth_error_app_len, firstn_app_len, Cn, Cv, Ce, Pn, Pe, V, firstn_all.
  destruct a; reflexivity.
Qed.

(** More generally: whatever a newer generation did, if it left everything below its
    checkpoint alone, rolling back restores the arena of the older generation exactly. *)
Theorem normalize_restores_prefix a b g newer :
  a_gens b = a_gens a ++ g :: newer -> a_gens a <> [] ->
  ag_nodes g = length (a_nodes a) -> ag_values g = length (a_values a) -> ag_entries g = length (a_entries a) ->
  firstn (length (a_nodes a)) (a_nodes b) = a_nodes a ->
  firstn (length (a_entries a)) (a_entries b) = a_entries a ->
  firstn (length (a_values a)) (a_values b) = a_values a ->
  a_normalize (length (a_gens a) - 1) b = a.
Proof.
  intros G Hne Cn Cv Ce Pn Pe Pv. unfold a_normalize.
  assert (L : S (length (a_gens a) - 1) = length (a_gens a)) by (destruct (a_gens a); [congruence | cbn; lia]).
  rewrite L, G. rewrite nth_error_app2 by lia. rewrite Nat.sub_diag. cbn [nth_error].
  rewrite firstn_app_len, Cn, Cv, Ce, Pn, Pe, Pv. destruct a; reflexivity.
Qed.
