(** Lemmas about [Persist.v]:
    - the annotated operations are the operations of [Radix.v] once the annotations are
      erased (so everything proved about contents and well-formedness carries over);
    - [freeze] keeps the contents, returns an all-original tree, and on an all-original
      tree returns it unchanged and charges nothing;
    - the node record codec and the path / value / children codecs round-trip;
    - storing a tree and following the references loads the same tree with the right hash
      at every node ([migrate]; [store_update] for trees consistent with the store). *)
From Coq Require Import NArith ZArith PeanoNat List Bool Lia.
From CB Require Import Common.Codec.
From CB Require Import Common.CodecProofs.
From CB Require Import Trie.Radix.
From CB Require Import Trie.RadixProofs.
From CB Require Import Trie.MerkleHash.
From CB Require Import Trie.MerkleHashProofs.
From CB Require Import Trie.Persist.
Import ListNotations.
Local Open Scope N_scope.

Scheme atree_ind2 := Induction for atree Sort Prop
  with aforest_ind2 := Induction for aforest Sort Prop.
Combined Scheme atree_aforest_ind from atree_ind2, aforest_ind2.

(** * Erasure: the annotated operations are the radix-tree operations *)

Lemma aflen_erase f : flen (erase_f f) = aflen f.
Proof. induction f as [|c t r IH]; cbn; congruence. Qed.

Lemma erase_insert_mut :
  (forall t k v, erase (a_insert k v t) = insert k v (erase t))
  /\ (forall f c k v, erase_f (a_insert_f c k v f) = insert_f c k v (erase_f f)).
Proof.
  apply atree_aforest_ind.
  - intros o p ov cs IH k v. cbn [a_insert erase]. rewrite insert_eq.
    destruct (follow_stem k p) as [|s ps|c k'|cm kc kr sc sr]; cbn [erase erase_f option_map fst].
    + reflexivity.
    + reflexivity.
    + rewrite IH. reflexivity.
    + destruct (kc <? sc); reflexivity.
  - reflexivity.
  - intros c' t IHt r IHr c k v. cbn [a_insert_f erase_f]. rewrite insert_f_cons.
    destruct (c =? c'); [cbn [erase_f]; rewrite IHt; reflexivity|].
    destruct (c <? c'); [reflexivity|]. cbn [erase_f]. rewrite IHr. reflexivity.
Qed.

Lemma erase_insert_root r k v :
  erase (a_insert_root k v r) = insert_root k v (erase_root r).
Proof. destruct r as [t|]; cbn; [apply erase_insert_mut | reflexivity]. Qed.

Lemma erase_collapse o p ov cs :
  option_map erase (a_collapse o p ov cs) = collapse p (option_map fst ov) (erase_f cs).
Proof.
  destruct ov as [[v a]|]; [reflexivity|].
  destruct cs as [|c [o' cp cv ccs] [|c2 t2 r2]]; reflexivity.
Qed.

Lemma erase_delete_mut :
  (forall t k, option_map erase (a_delete k t) = delete k (erase t))
  /\ (forall f c k, erase_f (a_delete_f c k f) = delete_f c k (erase_f f)).
Proof.
  apply atree_aforest_ind.
  - intros o p ov cs IH k. cbn [a_delete erase]. rewrite delete_eq.
    destruct (follow_stem k p) as [|s ps|c k'|cm kc kr sc sr]; try reflexivity.
    + destruct ov as [[v a]|]; [|reflexivity]. cbn [option_map fst]. apply (erase_collapse None p None cs).
    + rewrite erase_collapse, IH. reflexivity.
  - reflexivity.
  - intros c' t IHt r IHr c k. cbn [a_delete_f erase_f]. rewrite delete_f_cons.
    destruct (c =? c'); [|cbn [erase_f]; rewrite IHr; reflexivity].
    rewrite <- IHt. destruct (a_delete k t); reflexivity.
Qed.

Lemma erase_delete_prefix_mut :
  (forall t k, option_map erase (a_delete_prefix k t) = delete_prefix k (erase t))
  /\ (forall f c k, erase_f (a_delete_prefix_f c k f) = delete_prefix_f c k (erase_f f)).
Proof.
  apply atree_aforest_ind.
  - intros o p ov cs IH k. cbn [a_delete_prefix erase]. rewrite delete_prefix_eq.
    destruct (follow_stem k p) as [|s ps|c k'|cm kc kr sc sr]; try reflexivity.
    rewrite erase_collapse, IH. reflexivity.
  - reflexivity.
  - intros c' t IHt r IHr c k. cbn [a_delete_prefix_f erase_f]. rewrite delete_prefix_f_cons.
    destruct (c =? c'); [|cbn [erase_f]; rewrite IHr; reflexivity].
    rewrite <- IHt. destruct (a_delete_prefix k t); reflexivity.
Qed.

(** [get_mut] + write changes the value at an existing key and nothing else. *)
Lemma erase_setval_mut :
  (forall t k v, wfb (erase t) = true -> lookup k (erase t) <> None ->
        erase (a_setval k v t) = insert k v (erase t))
  /\ (forall f c k v, wfb_f (erase_f f) = true -> sorted_f (erase_f f) = true ->
        lookup_f c k (erase_f f) <> None ->
        erase_f (a_setval_f c k v f) = insert_f c k v (erase_f f)).
Proof.
  apply atree_aforest_ind.
  - intros o p ov cs IH k v Hwf. cbn [erase] in Hwf. apply wfb_node in Hwf as (Hwc & Hs & _).
    cbn [a_setval erase lookup]. rewrite insert_eq.
    destruct (follow_stem k p) as [|s ps|c k'|cm kc kr sc sr]; intros Hl; try congruence.
    + destruct ov as [[x a]|]; [reflexivity | cbn in Hl; congruence].
    + cbn [erase]. rewrite IH by assumption. reflexivity.
  - intros c k v _ _ Hl. cbn in Hl. congruence.
  - intros c' t IHt r IHr c k v Hwf Hs. cbn [erase_f] in Hwf, Hs.
    rewrite wfb_f_cons in Hwf. apply andb_true_iff in Hwf as [Hwt Hwr].
    rewrite sorted_f_cons in Hs. apply andb_true_iff in Hs as [Hgt Hsr].
    cbn [a_setval_f erase_f]. rewrite lookup_f_cons, insert_f_cons.
    destruct (N.eqb_spec c c') as [->|Hne]; intros Hl; cbn [erase_f].
    + rewrite IHt by assumption. reflexivity.
    + rewrite IHr by assumption.
      destruct (N.ltb_spec c c') as [Hlt|Hge]; [|reflexivity].
      exfalso. apply Hl. apply lookup_f_all_gt. eapply all_gt_trans; eassumption.
Qed.

(** * Freeze *)

Fixpoint all_orig (t : atree) : bool :=
  match t with
  | AN o _ ov cs =>
      (match o with Some _ => true | None => false end) && negb (value_owned ov) && all_orig_f cs
  end
with all_orig_f (f : aforest) : bool :=
  match f with
  | ANil => true
  | ACons _ t r => all_orig t && all_orig_f r
  end.

Lemma value_charge_borrowed ov : value_owned ov = false -> value_charge ov = 0.
Proof. destruct ov as [[v [l|]]|]; cbn; congruence. Qed.

Lemma freeze_val_borrowed ov : value_owned (freeze_val ov) = false.
Proof. destruct ov as [[v [l|]]|]; reflexivity. Qed.

Lemma freeze_val_erase ov : option_map fst (freeze_val ov) = option_map fst ov.
Proof. destruct ov as [[v [l|]]|]; reflexivity. Qed.

Lemma freeze_inv_mut :
  (forall t, all_orig (snd (fst (freeze t))) = true
             /\ erase (snd (fst (freeze t))) = erase t
             /\ (fst (fst (freeze t)) = false -> snd (fst (freeze t)) = t /\ snd (freeze t) = 0))
  /\ (forall f, all_orig_f (snd (fst (freeze_f f))) = true
             /\ erase_f (snd (fst (freeze_f f))) = erase_f f
             /\ (fst (fst (freeze_f f)) = false -> snd (fst (freeze_f f)) = f /\ snd (freeze_f f) = 0)).
Proof.
  apply atree_aforest_ind.
  - intros o p ov cs IH. cbn [freeze]. destruct (freeze_f cs) as [[chc cs'] nc]. cbn [fst snd] in IH.
    destruct IH as (A & B & C).
    destruct o as [l|]; destruct (value_owned ov) eqn:Ev; destruct chc; cbn [orb fst snd];
      try (split; [cbn [all_orig]; rewrite freeze_val_borrowed, A; reflexivity|];
           split; [cbn [erase]; rewrite freeze_val_erase, B; reflexivity | discriminate]).
    destruct (C eq_refl) as [-> ->]. split; [cbn [all_orig]; rewrite Ev, A; reflexivity|].
    split; [reflexivity|]. intros _. split; [reflexivity|]. rewrite (value_charge_borrowed _ Ev). reflexivity.
  - cbn. repeat split.
  - intros c t IHt r IHr. cbn [freeze_f]. destruct (freeze t) as [[ch1 t'] n1].
    destruct (freeze_f r) as [[ch2 r'] n2]. cbn [fst snd] in *.
    destruct IHt as (A1 & B1 & C1). destruct IHr as (A2 & B2 & C2).
    split; [cbn [all_orig_f]; rewrite A1, A2; reflexivity|].
    split; [cbn [erase_f]; rewrite B1, B2; reflexivity|].
    intros H. apply orb_false_iff in H as [-> ->].
    destruct (C1 eq_refl) as [-> ->]. destruct (C2 eq_refl) as [-> ->]. split; reflexivity.
Qed.

Lemma freeze_orig_mut :
  (forall t, all_orig t = true -> freeze t = (false, t, 0))
  /\ (forall f, all_orig_f f = true -> freeze_f f = (false, f, 0)).
Proof.
  apply atree_aforest_ind.
  - intros o p ov cs IH H. cbn [all_orig] in H. apply andb_true_iff in H as [H Hc].
    apply andb_true_iff in H as [Ho Hv]. apply negb_true_iff in Hv.
    cbn [freeze]. rewrite (IH Hc). destruct o as [l|]; [|discriminate].
    rewrite Hv. cbn [orb]. rewrite (value_charge_borrowed _ Hv). reflexivity.
  - reflexivity.
  - intros c t IHt r IHr H. cbn [all_orig_f] in H. apply andb_true_iff in H as [Ht Hr].
    cbn [freeze_f]. rewrite (IHt Ht), (IHr Hr). reflexivity.
Qed.

Definition all_orig_root (r : option atree) : bool :=
  match r with None => true | Some t => all_orig t end.

Theorem freeze_root_contents r : erase_root (fst (freeze_root r)) = erase_root r.
Proof.
  destruct r as [t|]; [|reflexivity]. cbn [freeze_root].
  pose proof (proj1 freeze_inv_mut t) as (_ & B & _). destruct (freeze t) as [[ch t'] n].
  cbn [fst snd erase_root option_map] in *. rewrite B. reflexivity.
Qed.

Theorem freeze_root_all_orig r : all_orig_root (fst (freeze_root r)) = true.
Proof.
  destruct r as [t|]; [|reflexivity]. cbn [freeze_root].
  pose proof (proj1 freeze_inv_mut t) as (A & _ & _). destruct (freeze t) as [[ch t'] n].
  cbn [fst snd all_orig_root] in *. exact A.
Qed.

Theorem freeze_root_of_orig r : all_orig_root r = true -> freeze_root r = (r, 0).
Proof.
  destruct r as [t|]; [|reflexivity]. cbn [all_orig_root freeze_root]. intros H.
  rewrite (proj1 freeze_orig_mut t H). reflexivity.
Qed.

(** freeze (thaw (freeze r)) returns the same tree and charges nothing. *)
Theorem refreeze_nothing r :
  freeze_root (thaw (fst (freeze_root r))) = (fst (freeze_root r), 0).
Proof. apply freeze_root_of_orig. apply freeze_root_all_orig. Qed.

(** * Codecs of the node record *)

Lemma tag_small n : n <= 63 ->
  (n + 64) mod 64 = n /\ (n + 0) mod 64 = n /\ (n + 64) / 64 = 1 /\ (n + 0) / 64 = 0.
Proof.
  intros H. replace (n + 64) with (n + 1 * 64) by lia. rewrite N.mod_add, N.div_add by lia.
  rewrite N.add_0_r, N.mod_small, N.div_small by lia. repeat split; reflexivity.
Qed.

Lemma lenN_app {A} (a b : list A) : lenN (a ++ b) = lenN a + lenN b.
Proof. unfold lenN. rewrite app_length. lia. Qed.

Lemma take_n_app h r : take_n (lenN h) (h ++ r) = Some (h, r).
Proof.
  unfold take_n, lenN, len. rewrite app_length.
  destruct (N.leb_spec (N.of_nat (length h)) (N.of_nat (length h + length r))) as [_|H]; [|lia].
  rewrite Nat2N.id. apply take_app. reflexivity.
Qed.

Lemma take_n_app_eq n h r : n = lenN h -> take_n n (h ++ r) = Some (h, r).
Proof. intros ->. apply take_n_app. Qed.

Lemma lenN_pack ns : lenN (pack ns) = (lenN ns + 1) / 2.
Proof.
  unfold lenN. rewrite pack_length.
  assert (H : forall m, N.of_nat (Nat.div2 (S m)) = (N.of_nat m + 1) / 2).
  { intros m. rewrite Nat.div2_div. rewrite Nat2N.inj_div. f_equal. lia. }
  apply H.
Qed.

Definition path_ok (p : list N) : Prop := nibbles_ok p = true /\ lenN p < 2 ^ 32.

Lemma dec_path_enc p hv rest : path_ok p -> dec_path (enc_path p hv ++ rest) = Some (p, hv, rest).
Proof.
  intros [Hn Hl]. unfold enc_path, path_tag, INLINE_STEM_LENGTH.
  destruct (N.leb_spec (lenN p) 63) as [Hs|Hs].
  - cbn [app]. unfold dec_path.
    assert (Ht : (lenN p + (if hv then 64 else 0) <? 128) = true) by (apply N.ltb_lt; destruct hv; lia).
    rewrite Ht.
    destruct (tag_small _ Hs) as (T1 & T2 & T3 & T4).
    assert (Hm : (lenN p + (if hv then 64 else 0)) mod 64 = lenN p) by (destruct hv; assumption).
    rewrite Hm.
    rewrite (take_n_app_eq _ (pack p) rest) by (symmetry; apply lenN_pack).
    unfold lenN at 1. rewrite Nat2N.id, (unpack_pack p Hn).
    assert (Hv : negb ((lenN p + (if hv then 64 else 0)) / 64 mod 2 =? 0) = hv).
    { destruct hv.
      - rewrite T3. reflexivity.
      - rewrite T4. reflexivity. }
    rewrite Hv. reflexivity.
  - cbn [app]. unfold dec_path.
    assert (Ht : (128 + (if hv then 64 else 0) <? 128) = false) by (apply N.ltb_ge; destruct hv; lia).
    rewrite Ht. rewrite <- app_assoc. unfold be32.
    rewrite dec_uint_enc by (unfold pow256; cbn; exact Hl).
    rewrite (take_n_app_eq _ (pack p) rest) by (symmetry; apply lenN_pack).
    unfold lenN at 1. rewrite Nat2N.id, (unpack_pack p Hn).
    destruct hv; reflexivity.
Qed.

Definition svalue_ok (sv : svalue) : Prop :=
  match sv with
  | SInline v => lenN v <= 64
  | SIndirect h r => length h = 32%nat /\ r < 2 ^ 64
  end.

Lemma dec_svalue_enc sv rest : svalue_ok sv -> dec_svalue (enc_svalue sv ++ rest) = Some (sv, rest).
Proof.
  destruct sv as [v|h r]; cbn [svalue_ok enc_svalue]; intros H.
  - cbn [app dec_svalue]. unfold INLINE_VALUE_LEN. apply N.leb_le in H. rewrite H.
    rewrite take_n_app. reflexivity.
  - destruct H as [Hh Hr]. cbn [app dec_svalue]. unfold INLINE_VALUE_LEN.
    replace (255 <=? 64) with false by reflexivity.
    rewrite <- app_assoc, (take_app h _ 32 Hh). unfold be64.
    rewrite dec_uint_enc by (unfold pow256; cbn; exact Hr). reflexivity.
Qed.

Definition kids_ok (l : list (N * N)) : Prop := Forall (fun cx => snd cx < 2 ^ 64) l.

Lemma dec_children_enc l rest : kids_ok l -> dec_children (length l) (enc_kids l ++ rest) = Some (l, rest).
Proof.
  induction 1 as [|[c x] l Hx _ IH]; [reflexivity|].
  cbn [length enc_kids flat_map fst snd dec_children app]. fold (enc_kids l).
  rewrite <- !app_assoc. unfold be64.
  rewrite dec_uint_enc by (unfold pow256; cbn; exact Hx).
  rewrite IH. reflexivity.
Qed.

Definition rec_ok (r : nrec) : Prop :=
  length (r_hash r) = 32%nat /\ path_ok (r_path r)
  /\ (match r_value r with Some sv => svalue_ok sv | None => True end)
  /\ kids_ok (r_children r).

(** What [store_update_buf] writes for a node, [Loadable for Hashed<Node>] reads back. *)
Theorem dec_rec_enc r rest : rec_ok r -> dec_rec (enc_rec r ++ rest) = Some (r, rest).
Proof.
  destruct r as [h p ov l]. unfold rec_ok, enc_rec. cbn [r_hash r_path r_value r_children].
  intros (Hh & Hp & Hv & Hk). unfold dec_rec. rewrite <- !app_assoc.
  rewrite (take_app h _ 32 Hh), dec_path_enc by assumption.
  destruct ov as [sv|].
  - rewrite dec_svalue_enc by assumption. cbn [app]. unfold lenN. rewrite Nat2N.id.
    rewrite dec_children_enc by assumption. reflexivity.
  - cbn [app]. unfold lenN. rewrite Nat2N.id.
    rewrite dec_children_enc by assumption. reflexivity.
Qed.

(** * Storing a tree and loading it back *)

Fixpoint theight (t : tree value) : nat :=
  match t with Node _ _ cs => S (fheight cs) end
with fheight (f : forest value) : nat :=
  match f with FNil => O | FCons _ t r => Nat.max (theight t) (fheight r) end.

Fixpoint tree_ok (t : atree) : Prop :=
  match t with AN _ p _ cs => path_ok p /\ forest_ok cs end
with forest_ok (f : aforest) : Prop :=
  match f with ANil => True | ACons _ t r => tree_ok t /\ forest_ok r end.

Definition bounded (st : store) : Prop := Forall (fun rd => fst rd < s_next st) (s_recs st).
Definition extends (st st' : store) : Prop :=
  forall r d, load_raw st r = Some d -> load_raw st' r = Some d.

Lemma extends_refl st : extends st st.
Proof. intros r d H. exact H. Qed.

Lemma extends_trans a b c : extends a b -> extends b c -> extends a c.
Proof. intros H1 H2 r d H. apply H2, H1, H. Qed.

Lemma assoc_ref_bound r l d n : Forall (fun rd => fst rd < n) l -> assoc_ref r l = Some d -> r < n.
Proof.
  induction 1 as [|[r' d'] l H _ IH]; cbn [assoc_ref]; [discriminate|].
  destruct (N.eqb_spec r r') as [->|_]; [intros _; exact H | exact IH].
Qed.

Lemma store_raw_props st d st' r : store_raw st d = (st', r) -> bounded st ->
  bounded st' /\ extends st st' /\ load_raw st' r = Some d /\ r = s_next st
  /\ s_next st' = s_next st + 8 + lenN d.
Proof.
  unfold store_raw. intros E Hb. injection E as <- <-. cbn [s_next s_recs].
  split; [|split; [|split; [|split; reflexivity]]].
  - constructor; [cbn [fst s_next]; lia|]. cbn [s_next s_recs].
    eapply Forall_impl; [|exact Hb]. cbn. intros; lia.
  - intros r0 d0 H. unfold load_raw in *. cbn [s_recs assoc_ref].
    destruct (N.eqb_spec r0 (s_next st)) as [->|_]; [|exact H].
    pose proof (assoc_ref_bound _ _ _ _ Hb H). lia.
  - unfold load_raw. cbn [s_recs assoc_ref]. rewrite N.eqb_refl. reflexivity.
Qed.

Section StoreLoad.
Variable sha256 : list N -> list N.
Hypothesis sha_len : forall x, length (sha256 x) = 32%nat.

Lemma migrate_value_props ov st st' ov' sv :
  migrate_value sha256 ov st = (st', ov', sv) -> bounded st -> s_next st' < 2 ^ 64 ->
  bounded st' /\ extends st st' /\ s_next st <= s_next st'
  /\ option_map fst ov' = option_map fst ov
  /\ (match sv with Some s => svalue_ok s | None => True end)
  /\ (forall st'', extends st' st'' -> load_value st'' sv = Some (option_map fst ov)).
Proof.
  unfold migrate_value. destruct ov as [[x a]|].
  - destruct (N.leb_spec (lenN x) INLINE_VALUE_LEN) as [Hs|Hs].
    + intros E Hb _. injection E as <- <- <-. repeat split; try assumption; try apply extends_refl; try lia; try exact Hs.
    + destruct (store_raw st x) as [st1 r] eqn:E1. intros E Hb Hn. injection E as <- <- <-.
      destruct (store_raw_props _ _ _ _ E1 Hb) as (B & X & L & Hr & Hnext).
      repeat split; try assumption; try lia.
      * unfold hash_value. apply sha_len.
      * intros st'' Hx. cbn [load_value]. rewrite (Hx _ _ L). reflexivity.
  - intros E Hb _. injection E as <- <- <-. repeat split; try assumption; try apply extends_refl; lia.
Qed.

Lemma height_fuel_kids (ld1 ld2 : N -> option (tree value * list N)) l :
  (forall x, In x (map snd l) -> ld1 x = ld2 x) -> load_kids_with ld1 l = load_kids_with ld2 l.
Proof.
  induction l as [|[c x] l IH]; intros H; [reflexivity|]. cbn [load_kids_with].
  rewrite (H x) by (left; reflexivity). rewrite IH by (intros y Hy; apply H; right; exact Hy). reflexivity.
Qed.

Lemma store_raw_mono st d : s_next st <= s_next (fst (store_raw st d)).
Proof. unfold store_raw. cbn [fst s_next]. lia. Qed.

Lemma migrate_value_mono ov st : s_next st <= s_next (fst (fst (migrate_value sha256 ov st))).
Proof.
  unfold migrate_value. destruct ov as [[x a]|]; [|cbn; lia].
  destruct (lenN x <=? INLINE_VALUE_LEN); [cbn; lia|].
  pose proof (store_raw_mono st x). destruct (store_raw st x) as [st1 r]. cbn [fst] in *. exact H.
Qed.

Lemma migrate_mono_mut :
  (forall t st, s_next st <= s_next (fst (fst (migrate_node sha256 t st))))
  /\ (forall f st, s_next st <= s_next (fst (fst (migrate_children sha256 f st)))).
Proof.
  apply atree_aforest_ind.
  - intros o p ov cs IH st. cbn [migrate_node]. specialize (IH st).
    destruct (migrate_children sha256 cs st) as [[st1 cs'] refs]. cbn [fst] in IH.
    pose proof (migrate_value_mono ov st1) as H2.
    destruct (migrate_value sha256 ov st1) as [[st2 ov'] sv]. cbn [fst] in H2.
    match goal with |- context [store_raw st2 ?b] => pose proof (store_raw_mono st2 b) as H3;
      destruct (store_raw st2 b) as [st3 r3] end.
    cbn [fst] in *. lia.
  - intros st. cbn. lia.
  - intros c t IHt r IHr st. cbn [migrate_children]. specialize (IHr st).
    destruct (migrate_children sha256 r st) as [[st1 r'] refs]. cbn [fst] in IHr.
    specialize (IHt st1). destruct (migrate_node sha256 t st1) as [[st2 t'] x]. cbn [fst] in *. lia.
Qed.

Lemma migrate_props_mut :
  (forall t st st' t' r, migrate_node sha256 t st = (st', t', r) -> bounded st -> tree_ok t ->
      s_next st' < 2 ^ 64 ->
      bounded st' /\ extends st st' /\ s_next st <= s_next st' /\ r < s_next st'
      /\ erase t' = erase t
      /\ forall st'' fuel, extends st' st'' -> (theight (erase t) <= fuel)%nat ->
           load_node fuel st'' r = Some (erase t, hash_node sha256 (erase t)))
  /\ (forall f st st' f' refs, migrate_children sha256 f st = (st', f', refs) -> bounded st -> forest_ok f ->
      s_next st' < 2 ^ 64 ->
      bounded st' /\ extends st st' /\ s_next st <= s_next st'
      /\ Forall (fun x => x < s_next st') refs /\ length refs = aflen f
      /\ erase_f f' = erase_f f
      /\ forall st'' fuel, extends st' st'' -> (fheight (erase_f f) <= fuel)%nat ->
           load_kids_with (load_node fuel st'') (combine (labels f) refs) = Some (erase_f f)).
Proof.
  apply atree_aforest_ind.
  - intros o p ov cs IH st st' t' r E Hb [Hp Hf] Hn. cbn [migrate_node] in E.
    destruct (migrate_children sha256 cs st) as [[st1 cs'] refs] eqn:E1.
    destruct (migrate_value sha256 ov st1) as [[st2 ov'] sv] eqn:E2.
    destruct (store_raw st2 _) as [st3 r3] eqn:E3 in E. injection E as <- <- <-.
    assert (S3 : exists body, store_raw st2 body = (st3, r3)) by (eexists; exact E3).
    destruct S3 as [body E3']. rewrite E3' in E3. injection E3 as <-.
    assert (N23 : s_next st2 <= s_next st3).
    { pose proof (store_raw_mono st2 body) as H. rewrite E3' in H. exact H. }
    assert (N12 : s_next st1 <= s_next st2).
    { pose proof (migrate_value_mono ov st1) as H. rewrite E2 in H. exact H. }
    destruct (IH st st1 cs' refs E1 Hb Hf ltac:(lia)) as (B1 & X1 & L1 & R1 & Len1 & Er1 & Ld1).
    destruct (migrate_value_props _ _ _ _ _ E2 B1 ltac:(lia)) as (B2 & X2 & L2 & Ev & Sv & Lv).
    destruct (store_raw_props _ _ _ _ E3' B2) as (B3 & X3 & L3 & Hr3 & Hnext3).
    split; [exact B3|]. split; [eapply extends_trans; [exact X1|]; eapply extends_trans; [exact X2 | exact X3]|].
    split; [lia|]. split; [lia|].
    split; [cbn [erase]; rewrite Ev, Er1; reflexivity|].
    intros st'' fuel Hx Hfuel. cbn [erase theight] in Hfuel.
    destruct fuel as [|fuel']; [lia|]. cbn [load_node].
    rewrite (Hx _ _ L3).
    rewrite <- (app_nil_r (enc_rec _)).
    rewrite dec_rec_enc.
    + cbn [r_value r_children r_path r_hash].
      rewrite (Lv st'') by (eapply extends_trans; [exact X3 | exact Hx]).
      rewrite (Ld1 st'' fuel') by
        (try (eapply extends_trans; [exact X2|]; eapply extends_trans; [exact X3 | exact Hx]); lia).
      reflexivity.
    + unfold rec_ok. cbn [r_value r_children r_path r_hash].
      split; [apply sha_len|]. split; [exact Hp|]. split; [exact Sv|].
      unfold kids_ok. clear - R1 Len1 L2 N23 Hn Hnext3.
      assert (Hlt : Forall (fun x => x < 2 ^ 64) refs) by (eapply Forall_impl; [|exact R1]; cbn; intros; lia).
      clear R1. revert refs Hlt Len1. generalize (labels cs). intros ls refs Hlt _.
      revert ls. induction Hlt as [|x refs Hx _ IHr]; intros [|c ls]; cbn [combine]; constructor; auto.
  - intros st st' f' refs E Hb _ Hn. cbn [migrate_children] in E. injection E as <- <- <-.
    repeat split; try assumption; try apply extends_refl; try lia; constructor.
  - intros c t IHt r IHr st st' f' refs E Hb [Ht Hr] Hn. cbn [migrate_children] in E.
    destruct (migrate_children sha256 r st) as [[st1 r'] refs1] eqn:E1.
    destruct (migrate_node sha256 t st1) as [[st2 t'] x] eqn:E2. injection E as <- <- <-.
    assert (N12 : s_next st1 <= s_next st2).
    { pose proof (proj1 migrate_mono_mut t st1) as H. rewrite E2 in H. exact H. }
    destruct (IHr st st1 r' refs1 E1 Hb Hr ltac:(lia)) as (B1 & X1 & L1 & R1 & Len1 & Er1 & Ld1).
    destruct (IHt st1 st2 t' x E2 B1 Ht Hn) as (B2 & X2 & L2 & R2 & Et & Ldt).
    split; [exact B2|]. split; [eapply extends_trans; eassumption|]. split; [lia|].
    split; [constructor; [exact R2|]; eapply Forall_impl; [|exact R1]; cbn; intros; lia|].
    split; [cbn [length aflen]; rewrite Len1; reflexivity|].
    split; [cbn [erase_f]; rewrite Et, Er1; reflexivity|].
    intros st'' fuel Hx Hfuel. cbn [erase_f fheight] in Hfuel.
    cbn [labels combine load_kids_with erase_f].
    rewrite (Ldt st'' fuel Hx) by lia.
    rewrite (Ld1 st'' fuel) by (try (eapply extends_trans; eassumption); lia).
    reflexivity.
Qed.

End StoreLoad.
