(** Lemmas about [Persist.v]:
    - the annotated operations are the operations of [Radix.v] once the annotations are
      erased (so everything proved about contents and well-formedness carries over);
    - [freeze] keeps the contents, returns an all-original tree, and on an all-original
      tree returns it unchanged and charges nothing;
    - the node record codec and the path / value / children codecs round-trip;
    - storing a tree and following the references loads the same tree with the right hash
      at every node ([migrate]; [store_update] for trees consistent with the store). *)
From Coq Require Import NArith ZArith PeanoNat List Bool Lia.
From CB Require Import Common.Codec.
From CB Require Import Common.CodecProofs.
From CB Require Import Trie.Radix.
From CB Require Import Trie.RadixProofs.
From CB Require Import Trie.MerkleHash.
From CB Require Import Trie.MerkleHashProofs.
From CB Require Import Trie.Persist.
Import ListNotations.
Local Open Scope N_scope.

Scheme atree_ind2 := Induction for atree Sort Prop
  with aforest_ind2 := Induction for aforest Sort Prop.
Combined Scheme atree_aforest_ind from atree_ind2, aforest_ind2.

(** * Erasure: the annotated operations are the radix-tree operations *)

Lemma aflen_erase f : flen (erase_f f) = aflen f.
Proof. induction f as [|c t r IH]; cbn; congruence. Qed.

Lemma erase_insert_mut :
  (forall t k v, erase (a_insert k v t) = insert k v (erase t))
  /\ (forall f c k v, erase_f (a_insert_f c k v f) = insert_f c k v (erase_f f)).
Proof.
  apply atree_aforest_ind.
  - intros o p ov cs IH k v. cbn [a_insert erase]. rewrite insert_eq.
    destruct (follow_stem k p) as [|s ps|c k'|cm kc kr sc sr]; cbn [erase erase_f option_map fst].
    + reflexivity.
    + reflexivity.
    + rewrite IH. reflexivity.
    + destruct (kc <? sc); reflexivity.
  - reflexivity.
  - intros c' t IHt r IHr c k v. cbn [a_insert_f erase_f]. rewrite insert_f_cons.
    destruct (c =? c'); [cbn [erase_f]; rewrite IHt; reflexivity|].
    destruct (c <? c'); [reflexivity|]. cbn [erase_f]. rewrite IHr. reflexivity.
Qed.

Lemma erase_insert_root r k v :
  erase (a_insert_root k v r) = insert_root k v (erase_root r).
Proof. destruct r as [t|]; cbn; [apply erase_insert_mut | reflexivity]. Qed.

Lemma erase_collapse o p ov cs :
  option_map erase (a_collapse o p ov cs) = collapse p (option_map fst ov) (erase_f cs).
Proof.
  destruct ov as [[v a]|]; [reflexivity|].
  destruct cs as [|c [o' cp cv ccs] [|c2 t2 r2]]; reflexivity.
Qed.

Lemma erase_delete_mut :
  (forall t k, option_map erase (a_delete k t) = delete k (erase t))
  /\ (forall f c k, erase_f (a_delete_f c k f) = delete_f c k (erase_f f)).
Proof.
  apply atree_aforest_ind.
  - intros o p ov cs IH k. cbn [a_delete erase]. rewrite delete_eq.
    destruct (follow_stem k p) as [|s ps|c k'|cm kc kr sc sr]; try reflexivity.
    + destruct ov as [[v a]|]; [|reflexivity]. cbn [option_map fst]. apply (erase_collapse None p None cs).
    + rewrite erase_collapse, IH. reflexivity.
  - reflexivity.
  - intros c' t IHt r IHr c k. cbn [a_delete_f erase_f]. rewrite delete_f_cons.
    destruct (c =? c'); [|cbn [erase_f]; rewrite IHr; reflexivity].
    rewrite <- IHt. destruct (a_delete k t); reflexivity.
Qed.

Lemma erase_delete_prefix_mut :
  (forall t k, option_map erase (a_delete_prefix k t) = delete_prefix k (erase t))
  /\ (forall f c k, erase_f (a_delete_prefix_f c k f) = delete_prefix_f c k (erase_f f)).
Proof.
  apply atree_aforest_ind.
  - intros o p ov cs IH k. cbn [a_delete_prefix erase]. rewrite delete_prefix_eq.
    destruct (follow_stem k p) as [|s ps|c k'|cm kc kr sc sr]; try reflexivity.
    rewrite erase_collapse, IH. reflexivity.
  - reflexivity.
  - intros c' t IHt r IHr c k. cbn [a_delete_prefix_f erase_f]. rewrite delete_prefix_f_cons.
    destruct (c =? c'); [|cbn [erase_f]; rewrite IHr; reflexivity].
    rewrite <- IHt. destruct (a_delete_prefix k t); reflexivity.
Qed.

(** [get_mut] + write changes the value at an existing key and nothing else. *)
Lemma erase_setval_mut :
  (forall t k v, wfb (erase t) = true -> lookup k (erase t) <> None ->
        erase (a_setval k v t) = insert k v (erase t))
  /\ (forall f c k v, wfb_f (erase_f f) = true -> sorted_f (erase_f f) = true ->
        lookup_f c k (erase_f f) <> None ->
        erase_f (a_setval_f c k v f) = insert_f c k v (erase_f f)).
Proof.
  apply atree_aforest_ind.
  - intros o p ov cs IH k v Hwf. cbn [erase] in Hwf. apply wfb_node in Hwf as (Hwc & Hs & _).
    cbn [a_setval erase lookup]. rewrite insert_eq.
    destruct (follow_stem k p) as [|s ps|c k'|cm kc kr sc sr]; intros Hl; try congruence.
    + destruct ov as [[x a]|]; [reflexivity | cbn in Hl; congruence].
    + cbn [erase]. rewrite IH by assumption. reflexivity.
  - intros c k v _ _ Hl. cbn in Hl. congruence.
  - intros c' t IHt r IHr c k v Hwf Hs. cbn [erase_f] in Hwf, Hs.
    rewrite wfb_f_cons in Hwf. apply andb_true_iff in Hwf as [Hwt Hwr].
    rewrite sorted_f_cons in Hs. apply andb_true_iff in Hs as [Hgt Hsr].
    cbn [a_setval_f erase_f]. rewrite lookup_f_cons, insert_f_cons.
    destruct (N.eqb_spec c c') as [->|Hne]; intros Hl; cbn [erase_f].
    + rewrite IHt by assumption. reflexivity.
    + rewrite IHr by assumption.
      destruct (N.ltb_spec c c') as [Hlt|Hge]; [|reflexivity].
      exfalso. apply Hl. apply lookup_f_all_gt. eapply all_gt_trans; eassumption.
Qed.

(** * Freeze *)

Fixpoint all_orig (t : atree) : bool :=
  match t with
  | AN o _ ov cs =>
      (match o with Some _ => true | None => false end) && negb (value_owned ov) && all_orig_f cs
  end
with all_orig_f (f : aforest) : bool :=
  match f with
  | ANil => true
  | ACons _ t r => all_orig t && all_orig_f r
  end.

Lemma value_charge_borrowed ov : value_owned ov = false -> value_charge ov = 0.
Proof. destruct ov as [[v [l|]]|]; cbn; congruence. Qed.

Lemma freeze_val_borrowed ov : value_owned (freeze_val ov) = false.
Proof. destruct ov as [[v [l|]]|]; reflexivity. Qed.

Lemma freeze_val_erase ov : option_map fst (freeze_val ov) = option_map fst ov.
Proof. destruct ov as [[v [l|]]|]; reflexivity. Qed.

Lemma freeze_inv_mut :
  (forall t, all_orig (snd (fst (freeze t))) = true
             /\ erase (snd (fst (freeze t))) = erase t
             /\ (fst (fst (freeze t)) = false -> snd (fst (freeze t)) = t /\ snd (freeze t) = 0))
  /\ (forall f, all_orig_f (snd (fst (freeze_f f))) = true
             /\ erase_f (snd (fst (freeze_f f))) = erase_f f
             /\ (fst (fst (freeze_f f)) = false -> snd (fst (freeze_f f)) = f /\ snd (freeze_f f) = 0)).
Proof.
  apply atree_aforest_ind.
  - intros o p ov cs IH. cbn [freeze]. destruct (freeze_f cs) as [[chc cs'] nc]. cbn [fst snd] in IH.
    destruct IH as (A & B & C).
    destruct o as [l|]; destruct (value_owned ov) eqn:Ev; destruct chc; cbn [orb fst snd];
      try (split; [cbn [all_orig]; rewrite freeze_val_borrowed, A; reflexivity|];
           split; [cbn [erase]; rewrite freeze_val_erase, B; reflexivity | discriminate]).
    destruct (C eq_refl) as [-> ->]. split; [cbn [all_orig]; rewrite Ev, A; reflexivity|].
    split; [reflexivity|]. intros _. split; [reflexivity|]. rewrite (value_charge_borrowed _ Ev). reflexivity.
  - cbn. repeat split.
  - intros c t IHt r IHr. cbn [freeze_f]. destruct (freeze t) as [[ch1 t'] n1].
    destruct (freeze_f r) as [[ch2 r'] n2]. cbn [fst snd] in *.
    destruct IHt as (A1 & B1 & C1). destruct IHr as (A2 & B2 & C2).
    split; [cbn [all_orig_f]; rewrite A1, A2; reflexivity|].
    split; [cbn [erase_f]; rewrite B1, B2; reflexivity|].
    intros H. apply orb_false_iff in H as [-> ->].
    destruct (C1 eq_refl) as [-> ->]. destruct (C2 eq_refl) as [-> ->]. split; reflexivity.
Qed.

Lemma freeze_orig_mut :
  (forall t, all_orig t = true -> freeze t = (false, t, 0))
  /\ (forall f, all_orig_f f = true -> freeze_f f = (false, f, 0)).
Proof.
  apply atree_aforest_ind.
  - intros o p ov cs IH H. cbn [all_orig] in H. apply andb_true_iff in H as [H Hc].
    apply andb_true_iff in H as [Ho Hv]. apply negb_true_iff in Hv.
    cbn [freeze]. rewrite (IH Hc). destruct o as [l|]; [|discriminate].
    rewrite Hv. cbn [orb]. rewrite (value_charge_borrowed _ Hv). reflexivity.
  - reflexivity.
  - intros c t IHt r IHr H. cbn [all_orig_f] in H. apply andb_true_iff in H as [Ht Hr].
    cbn [freeze_f]. rewrite (IHt Ht), (IHr Hr). reflexivity.
Qed.

Definition all_orig_root (r : option atree) : bool :=
  match r with None => true | Some t => all_orig t end.

Theorem freeze_root_contents r : erase_root (fst (freeze_root r)) = erase_root r.
Proof.
  destruct r as [t|]; [|reflexivity]. cbn [freeze_root].
  pose proof (proj1 freeze_inv_mut t) as (_ & B & _). destruct (freeze t) as [[ch t'] n].
  cbn [fst snd erase_root option_map] in *. rewrite B. reflexivity.
Qed.

Theorem freeze_root_all_orig r : all_orig_root (fst (freeze_root r)) = true.
Proof.
  destruct r as [t|]; [|reflexivity]. cbn [freeze_root].
  pose proof (proj1 freeze_inv_mut t) as (A & _ & _). destruct (freeze t) as [[ch t'] n].
  cbn [fst snd all_orig_root] in *. exact A.
Qed.

Theorem freeze_root_of_orig r : all_orig_root r = true -> freeze_root r = (r, 0).
Proof.
  destruct r as [t|]; [|reflexivity]. cbn [all_orig_root freeze_root]. intros H.
  rewrite (proj1 freeze_orig_mut t H). reflexivity.
Qed.

(** freeze (thaw (freeze r)) returns the same tree and charges nothing. *)
Theorem refreeze_nothing r :
  freeze_root (thaw (fst (freeze_root r))) = (fst (freeze_root r), 0).
Proof. apply freeze_root_of_orig. apply freeze_root_all_orig. Qed.

(** * Codecs of the node record *)

Lemma tag_small n : n <= 63 ->
  (n + 64) mod 64 = n /\ (n + 0) mod 64 = n /\ (n + 64) / 64 = 1 /\ (n + 0) / 64 = 0.
Proof.
  intros H. replace (n + 64) with (n + 1 * 64) by lia. rewrite N.mod_add, N.div_add by lia.
  rewrite N.add_0_r, N.mod_small, N.div_small by lia. repeat split; reflexivity.
Qed.

Lemma lenN_app {A} (a b : list A) : lenN (a ++ b) = lenN a + lenN b.
Proof. unfold lenN. rewrite app_length. lia. Qed.

Lemma take_n_app h r : take_n (lenN h) (h ++ r) = Some (h, r).
Proof.
  unfold take_n, lenN, len. rewrite app_length.
  destruct (N.leb_spec (N.of_nat (length h)) (N.of_nat (length h + length r))) as [_|H]; [|lia].
  rewrite Nat2N.id. apply take_app. reflexivity.
Qed.

Lemma take_n_app_eq n h r : n = lenN h -> take_n n (h ++ r) = Some (h, r).
Proof. intros ->. apply take_n_app. Qed.

Lemma lenN_pack ns : lenN (pack ns) = (lenN ns + 1) / 2.
Proof.
  unfold lenN. rewrite pack_length.
  assert (H : forall m, N.of_nat (Nat.div2 (S m)) = (N.of_nat m + 1) / 2).
  { intros m. rewrite Nat.div2_div. rewrite Nat2N.inj_div. f_equal. lia. }
  apply H.
Qed.

Definition path_ok (p : list N) : Prop := nibbles_ok p = true /\ lenN p < 2 ^ 32.

Lemma dec_path_enc p hv rest : path_ok p -> dec_path (enc_path p hv ++ rest) = Some (p, hv, rest).
Proof.
  intros [Hn Hl]. unfold enc_path, path_tag, INLINE_STEM_LENGTH.
  destruct (N.leb_spec (lenN p) 63) as [Hs|Hs].
  - cbn [app]. unfold dec_path.
    assert (Ht : (lenN p + (if hv then 64 else 0) <? 128) = true) by (apply N.ltb_lt; destruct hv; lia).
    rewrite Ht.
    destruct (tag_small _ Hs) as (T1 & T2 & T3 & T4).
    assert (Hm : (lenN p + (if hv then 64 else 0)) mod 64 = lenN p) by (destruct hv; assumption).
    rewrite Hm.
    rewrite (take_n_app_eq _ (pack p) rest) by (symmetry; apply lenN_pack).
    unfold lenN at 1. rewrite Nat2N.id, (unpack_pack p Hn).
    assert (Hv : negb ((lenN p + (if hv then 64 else 0)) / 64 mod 2 =? 0) = hv).
    { destruct hv.
      - rewrite T3. reflexivity.
      - rewrite T4. reflexivity. }
    rewrite Hv. reflexivity.
  - cbn [app]. unfold dec_path.
    assert (Ht : (128 + (if hv then 64 else 0) <? 128) = false) by (apply N.ltb_ge; destruct hv; lia).
    rewrite Ht. rewrite <- app_assoc. unfold be32.
    rewrite dec_uint_enc by (unfold pow256; cbn; exact Hl).
    rewrite (take_n_app_eq _ (pack p) rest) by (symmetry; apply lenN_pack).
    unfold lenN at 1. rewrite Nat2N.id, (unpack_pack p Hn).
    destruct hv; reflexivity.
Qed.

Definition svalue_ok (sv : svalue) : Prop :=
  match sv with
  | SInline v => lenN v <= 64
  | SIndirect h r => length h = 32%nat /\ r < 2 ^ 64
  end.

Lemma dec_svalue_enc sv rest : svalue_ok sv -> dec_svalue (enc_svalue sv ++ rest) = Some (sv, rest).
Proof.
  destruct sv as [v|h r]; cbn [svalue_ok enc_svalue]; intros H.
  - cbn [app dec_svalue]. unfold INLINE_VALUE_LEN. apply N.leb_le in H. rewrite H.
    rewrite take_n_app. reflexivity.
  - destruct H as [Hh Hr]. cbn [app dec_svalue]. unfold INLINE_VALUE_LEN.
    replace (255 <=? 64) with false by reflexivity.
    rewrite <- app_assoc, (take_app h _ 32 Hh). unfold be64.
    rewrite dec_uint_enc by (unfold pow256; cbn; exact Hr). reflexivity.
Qed.

Definition kids_ok (l : list (N * N)) : Prop := Forall (fun cx => snd cx < 2 ^ 64) l.

Lemma dec_children_enc l rest : kids_ok l -> dec_children (length l) (enc_kids l ++ rest) = Some (l, rest).
Proof.
  induction 1 as [|[c x] l Hx _ IH]; [reflexivity|].
  cbn [length enc_kids flat_map fst snd dec_children app]. fold (enc_kids l).
  rewrite <- !app_assoc. unfold be64.
  rewrite dec_uint_enc by (unfold pow256; cbn; exact Hx).
  rewrite IH. reflexivity.
Qed.

Definition rec_ok (r : nrec) : Prop :=
  length (r_hash r) = 32%nat /\ path_ok (r_path r)
  /\ (match r_value r with Some sv => svalue_ok sv | None => True end)
  /\ kids_ok (r_children r).

(** What [store_update_buf] writes for a node, [Loadable for Hashed<Node>] reads back. *)
Theorem dec_rec_enc r rest : rec_ok r -> dec_rec (enc_rec r ++ rest) = Some (r, rest).
Proof.
  destruct r as [h p ov l]. unfold rec_ok, enc_rec. cbn [r_hash r_path r_value r_children].
  intros (Hh & Hp & Hv & Hk). unfold dec_rec. rewrite <- !app_assoc.
  rewrite (take_app h _ 32 Hh), dec_path_enc by assumption.
  destruct ov as [sv|].
  - rewrite dec_svalue_enc by assumption. cbn [app]. unfold lenN. rewrite Nat2N.id.
    rewrite dec_children_enc by assumption. reflexivity.
  - cbn [app]. unfold lenN. rewrite Nat2N.id.
    rewrite dec_children_enc by assumption. reflexivity.
Qed.

(** * Storing a tree and loading it back *)

Fixpoint theight (t : tree value) : nat :=
  match t with Node _ _ cs => S (fheight cs) end
with fheight (f : forest value) : nat :=
  match f with FNil => O | FCons _ t r => Nat.max (theight t) (fheight r) end.

Fixpoint tree_ok (t : atree) : Prop :=
  match t with AN _ p _ cs => path_ok p /\ forest_ok cs end
with forest_ok (f : aforest) : Prop :=
  match f with ANil => True | ACons _ t r => tree_ok t /\ forest_ok r end.

Definition bounded (st : store) : Prop := Forall (fun rd => fst rd < s_next st) (s_recs st).
Definition extends (st st' : store) : Prop :=
  forall r d, load_raw st r = Some d -> load_raw st' r = Some d.

Lemma extends_refl st : extends st st.
Proof. intros r d H. exact H. Qed.

Lemma extends_trans a b c : extends a b -> extends b c -> extends a c.
Proof. intros H1 H2 r d H. apply H2, H1, H. Qed.

Lemma assoc_ref_bound r l d n : Forall (fun rd => fst rd < n) l -> assoc_ref r l = Some d -> r < n.
Proof.
  induction 1 as [|[r' d'] l H _ IH]; cbn [assoc_ref]; [discriminate|].
  destruct (N.eqb_spec r r') as [->|_]; [intros _; exact H | exact IH].
Qed.

Lemma store_raw_props st d st' r : store_raw st d = (st', r) -> bounded st ->
  bounded st' /\ extends st st' /\ load_raw st' r = Some d /\ r = s_next st
  /\ s_next st' = s_next st + 8 + lenN d.
Proof.
  unfold store_raw. intros E Hb. injection E as <- <-. cbn [s_next s_recs].
  split; [|split; [|split; [|split; reflexivity]]].
  - constructor; [cbn [fst s_next]; lia|]. cbn [s_next s_recs].
    eapply Forall_impl; [|exact Hb]. cbn. intros; lia.
  - intros r0 d0 H. unfold load_raw in *. cbn [s_recs assoc_ref].
    destruct (N.eqb_spec r0 (s_next st)) as [->|_]; [|exact H].
    pose proof (assoc_ref_bound _ _ _ _ Hb H). lia.
  - unfold load_raw. cbn [s_recs assoc_ref]. rewrite N.eqb_refl. reflexivity.
Qed.

Section StoreLoad.
Variable sha256 : list N -> list N.
Hypothesis sha_len : forall x, length (sha256 x) = 32%nat.

Lemma migrate_value_props ov st st' ov' sv :
  migrate_value sha256 ov st = (st', ov', sv) -> bounded st -> s_next st' < 2 ^ 64 ->
  bounded st' /\ extends st st' /\ s_next st <= s_next st'
  /\ option_map fst ov' = option_map fst ov
  /\ (match sv with Some s => svalue_ok s | None => True end)
  /\ (forall st'', extends st' st'' -> load_value st'' sv = Some (option_map fst ov)).
Proof.
  unfold migrate_value. destruct ov as [[x a]|].
  - destruct (N.leb_spec (lenN x) INLINE_VALUE_LEN) as [Hs|Hs].
    + intros E Hb _. injection E as <- <- <-. repeat split; try assumption; try apply extends_refl; try lia; try exact Hs.
    + destruct (store_raw st x) as [st1 r] eqn:E1. intros E Hb Hn. injection E as <- <- <-.
      destruct (store_raw_props _ _ _ _ E1 Hb) as (B & X & L & Hr & Hnext).
      repeat split; try assumption; try lia.
      * unfold hash_value. apply sha_len.
      * intros st'' Hx. cbn [load_value]. rewrite (Hx _ _ L). reflexivity.
  - intros E Hb _. injection E as <- <- <-. repeat split; try assumption; try apply extends_refl; lia.
Qed.

Lemma height_fuel_kids (ld1 ld2 : N -> option (tree value * list N)) l :
  (forall x, In x (map snd l) -> ld1 x = ld2 x) -> load_kids_with ld1 l = load_kids_with ld2 l.
Proof.
  induction l as [|[c x] l IH]; intros H; [reflexivity|]. cbn [load_kids_with].
  rewrite (H x) by (left; reflexivity). rewrite IH by (intros y Hy; apply H; right; exact Hy). reflexivity.
Qed.

Lemma migrate_node_eq o p ov cs st :
  migrate_node sha256 (AN o p ov cs) st =
  let '(st1, cs', refs) := migrate_children sha256 cs st in
  let '(st2, ov', sv) := migrate_value sha256 ov st1 in
  let body := enc_rec (mkRec (hash_node sha256 (erase (AN o p ov cs))) p sv (combine (labels cs) refs)) in
  let '(st3, r) := store_raw st2 body in
  (st3, AN (Some (Some r)) p ov' cs', r).
Proof. reflexivity. Qed.

Lemma migrate_children_cons c t r st :
  migrate_children sha256 (ACons c t r) st =
  let '(st1, r', refs) := migrate_children sha256 r st in
  let '(st2, t', x) := migrate_node sha256 t st1 in
  (st2, ACons c t' r', x :: refs).
Proof. reflexivity. Qed.

Lemma store_raw_mono st d : s_next st <= s_next (fst (store_raw st d)).
Proof. unfold store_raw. cbn [fst s_next]. lia. Qed.

Lemma migrate_value_mono ov st : s_next st <= s_next (fst (fst (migrate_value sha256 ov st))).
Proof.
  unfold migrate_value. destruct ov as [[x a]|]; [|cbn; lia].
  destruct (lenN x <=? INLINE_VALUE_LEN); [cbn; lia|].
  pose proof (store_raw_mono st x). destruct (store_raw st x) as [st1 r]. cbn [fst] in *. exact H.
Qed.

Lemma migrate_mono_mut :
  (forall t st, s_next st <= s_next (fst (fst (migrate_node sha256 t st))))
  /\ (forall f st, s_next st <= s_next (fst (fst (migrate_children sha256 f st)))).
Proof.
  apply atree_aforest_ind.
  - intros o p ov cs IH st. rewrite migrate_node_eq. specialize (IH st).
    destruct (migrate_children sha256 cs st) as [[st1 cs'] refs]. cbn [fst] in IH.
    pose proof (migrate_value_mono ov st1) as H2.
    destruct (migrate_value sha256 ov st1) as [[st2 ov'] sv]. cbn [fst] in H2.
    cbv zeta.
    match goal with |- context [store_raw st2 ?b] => pose proof (store_raw_mono st2 b) as H3;
      destruct (store_raw st2 b) as [st3 r3] end.
    cbn [fst] in *. lia.
  - intros st. cbn. lia.
  - intros c t IHt r IHr st. rewrite migrate_children_cons. specialize (IHr st).
    destruct (migrate_children sha256 r st) as [[st1 r'] refs]. cbn [fst] in IHr.
    specialize (IHt st1). destruct (migrate_node sha256 t st1) as [[st2 t'] x]. cbn [fst] in *. lia.
Qed.

Lemma migrate_props_mut :
  (forall t st st' t' r, migrate_node sha256 t st = (st', t', r) -> bounded st -> tree_ok t ->
      s_next st' < 2 ^ 64 ->
      bounded st' /\ extends st st' /\ s_next st <= s_next st' /\ r < s_next st'
      /\ erase t' = erase t
      /\ forall st'' fuel, extends st' st'' -> (theight (erase t) <= fuel)%nat ->
           load_node fuel st'' r = Some (erase t, hash_node sha256 (erase t)))
  /\ (forall f st st' f' refs, migrate_children sha256 f st = (st', f', refs) -> bounded st -> forest_ok f ->
      s_next st' < 2 ^ 64 ->
      bounded st' /\ extends st st' /\ s_next st <= s_next st'
      /\ Forall (fun x => x < s_next st') refs /\ length refs = aflen f
      /\ erase_f f' = erase_f f
      /\ forall st'' fuel, extends st' st'' -> (fheight (erase_f f) <= fuel)%nat ->
           load_kids_with (load_node fuel st'') (combine (labels f) refs) = Some (erase_f f)).
Proof.
  apply atree_aforest_ind.
  - intros o p ov cs IH st st' t' r E Hb [Hp Hf] Hn. rewrite migrate_node_eq in E.
    destruct (migrate_children sha256 cs st) as [[st1 cs'] refs] eqn:E1.
    destruct (migrate_value sha256 ov st1) as [[st2 ov'] sv] eqn:E2.
    cbv zeta in E. destruct (store_raw st2 _) as [st3 r3] eqn:E3 in E. injection E as <- <- <-.
    assert (N23 : s_next st2 <= s_next st3).
    { match type of E3 with store_raw st2 ?b = _ => pose proof (store_raw_mono st2 b) as H end.
      rewrite E3 in H. exact H. }
    assert (N12 : s_next st1 <= s_next st2).
    { pose proof (migrate_value_mono ov st1) as H. rewrite E2 in H. exact H. }
    destruct (IH st st1 cs' refs E1 Hb Hf ltac:(lia)) as (B1 & X1 & L1 & R1 & Len1 & Er1 & Ld1).
    destruct (migrate_value_props _ _ _ _ _ E2 B1 ltac:(lia)) as (B2 & X2 & L2 & Ev & Sv & Lv).
    destruct (store_raw_props _ _ _ _ E3 B2) as (B3 & X3 & L3 & Hr3 & Hnext3).
    split; [exact B3|]. split; [eapply extends_trans; [exact X1|]; eapply extends_trans; [exact X2 | exact X3]|].
    split; [lia|]. split; [lia|].
    split; [cbn [erase]; rewrite Ev, Er1; reflexivity|].
    intros st'' fuel Hx Hfuel. cbn [erase theight] in Hfuel.
    destruct fuel as [|fuel']; [lia|]. cbn [load_node].
    rewrite (Hx _ _ L3).
    rewrite <- (app_nil_r (enc_rec _)).
    rewrite dec_rec_enc.
    + cbn [r_value r_children r_path r_hash].
      rewrite (Lv st'') by (eapply extends_trans; [exact X3 | exact Hx]).
      rewrite (Ld1 st'' fuel') by
        (try (eapply extends_trans; [exact X2|]; eapply extends_trans; [exact X3 | exact Hx]); lia).
      reflexivity.
    + unfold rec_ok. cbn [r_value r_children r_path r_hash].
      split; [apply sha_len|]. split; [exact Hp|]. split; [exact Sv|].
      unfold kids_ok.
      assert (Hlt : Forall (fun x => x < 2 ^ 64) refs) by (eapply Forall_impl; [|exact R1]; cbn; intros; lia).
      clear - Hlt. generalize (labels cs). intros ls. revert ls.
      induction Hlt as [|x refs Hx _ IHr]; intros [|c ls]; cbn [combine]; constructor; auto.
  - intros st st' f' refs E Hb _ Hn. cbn [migrate_children] in E. injection E as <- <- <-.
    repeat split; try assumption; try apply extends_refl; try lia; constructor.
  - intros c t IHt r IHr st st' f' refs E Hb [Ht Hr] Hn. rewrite migrate_children_cons in E.
    destruct (migrate_children sha256 r st) as [[st1 r'] refs1] eqn:E1.
    destruct (migrate_node sha256 t st1) as [[st2 t'] x] eqn:E2. injection E as <- <- <-.
    assert (N12 : s_next st1 <= s_next st2).
    { pose proof (proj1 migrate_mono_mut t st1) as H. rewrite E2 in H. exact H. }
    destruct (IHr st st1 r' refs1 E1 Hb Hr ltac:(lia)) as (B1 & X1 & L1 & R1 & Len1 & Er1 & Ld1).
    destruct (IHt st1 st2 t' x E2 B1 Ht Hn) as (B2 & X2 & L2 & R2 & Et & Ldt).
    split; [exact B2|]. split; [eapply extends_trans; eassumption|]. split; [lia|].
    split; [constructor; [exact R2|]; eapply Forall_impl; [|exact R1]; cbn; intros; lia|].
    split; [cbn [length aflen]; rewrite Len1; reflexivity|].
    split; [cbn [erase_f]; rewrite Et, Er1; reflexivity|].
    intros st'' fuel Hx Hfuel. cbn [erase_f fheight] in Hfuel.
    cbn [labels combine load_kids_with erase_f].
    rewrite (Ldt st'' fuel Hx) by lia.
    rewrite (Ld1 st'' fuel) by (try (eapply extends_trans; eassumption); lia).
    reflexivity.
Qed.

End StoreLoad.

(** * Corollaries: [migrate] and the first [store_update] of an in-memory state *)

Definition root_ok (r : option atree) : Prop :=
  match r with Some t => tree_ok t | None => True end.

Section Corollaries.
Variable sha256 : list N -> list N.
Hypothesis sha_len : forall x, length (sha256 x) = 32%nat.

Lemma bounded_empty : bounded empty_store.
Proof. constructor. Qed.

(** Migrating writes the whole tree to the new store; the new state is the reference of
    the root; following the references from it loads the same tree, and the hash stored
    with every node is the hash of the subtree below it. *)
Theorem migrate_loads r st' r' :
  migrate sha256 r empty_store = (st', r') -> root_ok r -> s_next st' < 2 ^ 64 ->
  erase_root r' = erase_root r
  /\ match r' with
     | None => r = None
     | Some t' =>
         exists x, root_ref r' = Some x
         /\ forall fuel, (theight (erase t') <= fuel)%nat ->
              load_node fuel st' x = Some (erase t', hash_node sha256 (erase t'))
     end.
Proof.
  unfold migrate. destruct r as [t|]; [|intros E _ _; injection E as <- <-; split; reflexivity].
  destruct (migrate_node sha256 t empty_store) as [[st1 t1] x] eqn:E1. intros E Hok Hn. injection E as <- <-.
  destruct (proj1 (migrate_props_mut sha256 sha_len) t empty_store st1 t1 x E1 bounded_empty Hok Hn)
    as (_ & _ & _ & _ & Et & Ld).
  split; [cbn [erase_root option_map]; rewrite Et; reflexivity|].
  exists x. split.
  - destruct t as [o p ov cs]. rewrite migrate_node_eq in E1.
    destruct (migrate_children sha256 cs empty_store) as [[sa csa] rfa].
    destruct (migrate_value sha256 ov sa) as [[sb ovb] svb]. cbv zeta in E1.
    destruct (store_raw sb _) as [sc rc] in E1. injection E1 as _ <- <-. reflexivity.
  - intros fuel Hf. rewrite Et in *. apply Ld; [apply extends_refl | exact Hf].
Qed.

(** ** Records of [serialize] *)

Lemma lenN_flabels cs : lenN (flabels cs) = N.of_nat (flen cs).
Proof. unfold lenN. f_equal. induction cs as [|c t r IH]; cbn; congruence. Qed.

Definition ser_value_dec (ov : option value) : option (value * option (list N)) :=
  match ov with
  | None => None
  | Some v => Some (v, if lenN v <=? INLINE_VALUE_LEN then None else Some (hash_value sha256 v))
  end.

Lemma dec_ser_value_enc v rest : lenN v < 2 ^ 32 ->
  dec_ser_value (ser_value sha256 (Some v) ++ rest)
  = Some (v, if lenN v <=? INLINE_VALUE_LEN then None else Some (hash_value sha256 v), rest).
Proof.
  intros Hl. unfold ser_value, dec_ser_value. rewrite <- !app_assoc. unfold be32.
  rewrite dec_uint_enc by (unfold pow256; cbn; exact Hl).
  destruct (lenN v <=? INLINE_VALUE_LEN).
  - cbn [app]. rewrite take_n_app. reflexivity.
  - rewrite (take_app (hash_value sha256 v) _ 32) by (unfold hash_value; apply sha_len).
    rewrite take_n_app. reflexivity.
Qed.

(** Every record written by [serialize] is read back by [deserialize]'s record reader:
    distance to the parent, hash, path, value (with its hash when it is long), labels. *)
Theorem dec_ser_record_enc back p ov cs rest :
  back < 2 ^ 32 -> path_ok p -> (match ov with Some v => lenN v < 2 ^ 32 | None => True end) ->
  dec_ser_record (ser_record sha256 back (Node p ov cs) ++ rest)
  = Some (mkD back (hash_node sha256 (Node p ov cs)) p (ser_value_dec ov) (flabels cs), rest).
Proof.
  intros Hb Hp Hv. unfold ser_record, dec_ser_record. rewrite <- !app_assoc. unfold be32.
  rewrite dec_uint_enc by (unfold pow256; cbn; exact Hb).
  rewrite (take_app (hash_node sha256 (Node p ov cs)) _ 32) by (destruct cs; apply sha_len).
  rewrite dec_path_enc by exact Hp.
  destruct ov as [v|].
  - rewrite dec_ser_value_enc by exact Hv. cbn [app].
    rewrite (take_n_app_eq _ (flabels cs) rest) by (symmetry; apply lenN_flabels). reflexivity.
  - cbn [ser_value app].
    rewrite (take_n_app_eq _ (flabels cs) rest) by (symmetry; apply lenN_flabels). reflexivity.
Qed.

End Corollaries.

(** * [store_update] of a state that lives in memory only (fresh, or just deserialised) *)

Fixpoint in_memory (t : atree) : bool :=
  match t with
  | AN o _ ov cs =>
      (match o with Some (Some _) => false | _ => true end)
      && (match ov with Some (_, Some None) => true | None => true | _ => false end)
      && in_memory_f cs
  end
with in_memory_f (f : aforest) : bool :=
  match f with
  | ANil => true
  | ACons _ t r => in_memory t && in_memory_f r
  end.

Section StoreMemory.
Variable sha256 : list N -> list N.

Lemma store_node_eq o p ov cs st :
  store_node sha256 (AN o p ov cs) st =
  match o with
  | Some (Some r) => (st, AN o p ov cs, r)
  | _ =>
      let '(st1, cs', refs) := store_children sha256 cs st in
      let '(st2, ov', sv) := store_value sha256 ov st1 in
      let body := enc_rec (mkRec (hash_node sha256 (erase (AN o p ov cs))) p sv (combine (labels cs) refs)) in
      let '(st3, r) := store_raw st2 body in
      (st3, AN (Some (Some r)) p ov' cs', r)
  end.
Proof. reflexivity. Qed.

Lemma store_children_cons c t r st :
  store_children sha256 (ACons c t r) st =
  let '(st1, r', refs) := store_children sha256 r st in
  let '(st2, t', x) := store_node sha256 t st1 in
  (st2, ACons c t' r', x :: refs).
Proof. reflexivity. Qed.

Lemma store_value_memory ov st :
  (match ov with Some (_, Some None) => true | None => true | _ => false end) = true ->
  store_value sha256 ov st = migrate_value sha256 ov st.
Proof.
  unfold store_value, migrate_value. destruct ov as [[x [[r|]|]]|]; try discriminate; intros _; [|reflexivity].
  destruct (lenN x <=? INLINE_VALUE_LEN); reflexivity.
Qed.

Lemma store_is_migrate_mut :
  (forall t st, in_memory t = true -> store_node sha256 t st = migrate_node sha256 t st)
  /\ (forall f st, in_memory_f f = true -> store_children sha256 f st = migrate_children sha256 f st).
Proof.
  apply atree_aforest_ind.
  - intros o p ov cs IH st H. cbn [in_memory] in H. apply andb_true_iff in H as [H Hc].
    apply andb_true_iff in H as [Ho Hv].
    rewrite store_node_eq, migrate_node_eq, (IH st Hc).
    destruct (migrate_children sha256 cs st) as [[st1 cs'] refs].
    rewrite (store_value_memory ov st1 Hv).
    destruct o as [[r|]|]; [discriminate | reflexivity | reflexivity].
  - reflexivity.
  - intros c t IHt r IHr st H. cbn [in_memory_f] in H. apply andb_true_iff in H as [Ht Hr].
    rewrite store_children_cons, migrate_children_cons, (IHr st Hr).
    destruct (migrate_children sha256 r st) as [[st1 r'] refs]. rewrite (IHt st1 Ht). reflexivity.
Qed.

Hypothesis sha_len : forall x, length (sha256 x) = 32%nat.

(** [store_update] of an in-memory state into a store, then following the root reference
    (what [load_from_location] + lookups do) yields the same tree with the right hashes. *)
Theorem store_update_loads t st st' kept loaded top :
  store_update sha256 (Some t) st = (st', kept, loaded, top) ->
  in_memory t = true -> tree_ok t -> bounded st -> s_next st' < 2 ^ 64 ->
  erase_root kept = Some (erase t) /\ erase_root loaded = Some (erase t)
  /\ load_raw st' top = Some (1 :: be64 (match root_ref loaded with Some x => x | None => 0 end))
  /\ exists x, root_ref loaded = Some x
     /\ forall fuel, (theight (erase t) <= fuel)%nat ->
          load_node fuel st' x = Some (erase t, hash_node sha256 (erase t)).
Proof.
  unfold store_update. intros E Hm Hok Hb Hn.
  rewrite (proj1 store_is_migrate_mut t st Hm) in E.
  destruct (migrate_node sha256 t st) as [[st1 t1] x] eqn:E1.
  destruct (store_raw st1 (1 :: be64 x)) as [st2 tp] eqn:E2. injection E as <- <- <- <-.
  assert (N12 : s_next st1 <= s_next st2).
  { pose proof (store_raw_mono st1 (1 :: be64 x)) as H. rewrite E2 in H. exact H. }
  destruct (proj1 (migrate_props_mut sha256 sha_len) t st st1 t1 x E1 Hb Hok ltac:(lia))
    as (B1 & X1 & _ & _ & Et & Ld).
  destruct (store_raw_props _ _ _ _ E2 B1) as (B2 & X2 & L2 & _ & _).
  assert (Hroot : exists p ov cs, t1 = AN (Some (Some x)) p ov cs).
  { destruct t as [o p ov cs]. rewrite migrate_node_eq in E1.
    destruct (migrate_children sha256 cs st) as [[sa csa] rfa].
    destruct (migrate_value sha256 ov sa) as [[sb ovb] svb]. cbv zeta in E1.
    destruct (store_raw sb _) as [sc rc] in E1. injection E1 as _ <- <-. eauto. }
  destruct Hroot as (p1 & ov1 & cs1 & ->).
  assert (Hmem : match t with AN (Some (Some _)) _ _ _ => False | _ => True end).
  { destruct t as [[[r|]|] p ov cs]; cbn in Hm; [discriminate | exact I | exact I]. }
  split.
  - destruct t as [[[r|]|] p ov cs]; [destruct Hmem | |]; cbn [erase_root option_map]; f_equal;
      cbn [erase] in *; exact Et.
  - split; [cbn [erase_root option_map]; rewrite Et; reflexivity|].
    split; [cbn [root_ref]; exact L2|].
    exists x. split; [reflexivity|]. intros fuel Hf. apply Ld; [exact X2 | exact Hf].
Qed.

End StoreMemory.

(** * The byte-level store: [Loader::load_raw] on the flat [Vec<u8>] finds every record *)

Inductive built : store -> Prop :=
| built_empty : built empty_store
| built_raw st d : built st -> lenN d < 2 ^ 64 -> built (fst (store_raw st d)).

Lemma flatten_store_raw st d : flatten (fst (store_raw st d)) = flatten st ++ be64 (lenN d) ++ d.
Proof.
  unfold flatten, store_raw. cbn [fst s_recs rev]. rewrite flat_map_app. cbn [flat_map fst snd].
  rewrite app_nil_r. reflexivity.
Qed.

Lemma lenN_be64 n : lenN (be64 n) = 8.
Proof. unfold lenN, be64. rewrite enc_uint_length. reflexivity. Qed.

Lemma built_next st : built st -> s_next st = lenN (flatten st).
Proof.
  induction 1 as [|st d _ IH _]; [reflexivity|].
  rewrite flatten_store_raw, !lenN_app, lenN_be64, <- IH. unfold store_raw. cbn [fst s_next]. lia.
Qed.

Lemma take_more n X B h rest : take n X = Some (h, rest) -> take n (X ++ B) = Some (h, rest ++ B).
Proof.
  intros H. apply take_some in H as [-> Hl]. rewrite <- app_assoc. apply take_app. exact Hl.
Qed.

Lemma take_n_more n X B h rest : take_n n X = Some (h, rest) -> take_n n (X ++ B) = Some (h, rest ++ B).
Proof.
  unfold take_n. destruct (N.leb_spec n (len X)) as [Hle|]; [|discriminate]. intros H.
  assert (Hle2 : (n <=? len (X ++ B)) = true).
  { apply N.leb_le. unfold len in *. rewrite app_length. lia. }
  rewrite Hle2. apply take_more. exact H.
Qed.

Lemma read_at_app A B r d : read_at A r = Some d -> read_at (A ++ B) r = Some d.
Proof.
  unfold read_at. destruct (N.leb_spec r (lenN A)) as [Hle|]; [|discriminate].
  assert (Hle2 : (r <=? lenN (A ++ B)) = true) by (apply N.leb_le; rewrite lenN_app; lia).
  rewrite Hle2, skipn_app.
  assert (Hz : (N.to_nat r - length A = 0)%nat) by (unfold lenN in Hle; lia).
  rewrite Hz. cbn [skipn]. unfold dec_uint.
  destruct (take 8 (skipn (N.to_nat r) A)) as [[h rest]|] eqn:E; [|discriminate].
  rewrite (take_more _ _ B _ _ E).
  destruct (take_n (dec_le (rev h)) rest) as [[d' r2]|] eqn:E2; [|discriminate].
  rewrite (take_n_more _ _ B _ _ E2). exact (fun H => H).
Qed.

Lemma read_at_end A d : lenN d < 2 ^ 64 -> read_at (A ++ be64 (lenN d) ++ d) (lenN A) = Some d.
Proof.
  intros Hd. unfold read_at.
  assert (Hle : (lenN A <=? lenN (A ++ be64 (lenN d) ++ d)) = true) by (apply N.leb_le; rewrite lenN_app; lia).
  rewrite Hle, skipn_app. unfold lenN at 1 2. rewrite Nat2N.id, skipn_all, Nat.sub_diag. cbn [skipn app].
  unfold be64. rewrite dec_uint_enc by (unfold pow256; cbn; exact Hd).
  rewrite <- (app_nil_r d) at 2. rewrite take_n_app. reflexivity.
Qed.

(** Every record of a store built by [store_raw] is found at its reference in the bytes. *)
Theorem read_at_load st : built st -> forall r d, load_raw st r = Some d -> read_at (flatten st) r = Some d.
Proof.
  induction 1 as [|st d0 Hb IH Hd]; intros r d H; [discriminate|].
  rewrite flatten_store_raw. unfold load_raw, store_raw in H. cbn [fst s_recs assoc_ref] in H.
  destruct (N.eqb_spec r (s_next st)) as [->|_].
  - injection H as <-. rewrite (built_next st Hb). apply read_at_end. exact Hd.
  - apply read_at_app. apply IH. exact H.
Qed.

Section Built.
Variable sha256 : list N -> list N.

Lemma built_store_raw st d st' r :
  store_raw st d = (st', r) -> built st -> s_next st' < 2 ^ 64 -> built st'.
Proof.
  intros E Hb Hn. replace st' with (fst (store_raw st d)) by (rewrite E; reflexivity).
  constructor; [exact Hb|]. unfold store_raw in E. injection E as <- _. cbn [s_next] in Hn. lia.
Qed.

Lemma migrate_built_mut :
  (forall t st, built st -> s_next (fst (fst (migrate_node sha256 t st))) < 2 ^ 64 ->
                built (fst (fst (migrate_node sha256 t st))))
  /\ (forall f st, built st -> s_next (fst (fst (migrate_children sha256 f st))) < 2 ^ 64 ->
                built (fst (fst (migrate_children sha256 f st)))).
Proof.
  apply atree_aforest_ind.
  - intros o p ov cs IH st Hb. rewrite migrate_node_eq. specialize (IH st Hb).
    destruct (migrate_children sha256 cs st) as [[st1 cs'] refs]. cbn [fst] in IH.
    pose proof (migrate_value_mono sha256 ov st1) as M2.
    assert (V : s_next (fst (fst (migrate_value sha256 ov st1))) < 2 ^ 64 -> built st1 ->
                built (fst (fst (migrate_value sha256 ov st1)))).
    { unfold migrate_value. destruct ov as [[x a]|]; [|intros _ H; exact H].
      destruct (lenN x <=? INLINE_VALUE_LEN); [intros _ H; exact H|].
      destruct (store_raw st1 x) as [sx rx] eqn:Ex. cbn [fst]. intros Hn H.
      eapply built_store_raw; eassumption. }
    destruct (migrate_value sha256 ov st1) as [[st2 ov'] sv]. cbn [fst] in *. cbv zeta.
    match goal with |- context [store_raw st2 ?b] => pose proof (store_raw_mono st2 b) as M3;
      destruct (store_raw st2 b) as [st3 r3] eqn:E3 end.
    cbn [fst] in *. intros Hn. eapply built_store_raw; [exact E3| |exact Hn].
    apply V; [lia|]. apply IH. lia.
  - intros st Hb _. exact Hb.
  - intros c t IHt r IHr st Hb. rewrite migrate_children_cons. specialize (IHr st Hb).
    destruct (migrate_children sha256 r st) as [[st1 r'] refs]. cbn [fst] in IHr.
    specialize (IHt st1). pose proof (proj1 (migrate_mono_mut sha256) t st1) as M.
    destruct (migrate_node sha256 t st1) as [[st2 t'] x]. cbn [fst] in *.
    intros Hn. apply IHt; [|exact Hn]. apply IHr. lia.
Qed.

(** After [migrate] every record of the new store is found by the byte-level loader. *)
Theorem migrate_bytes_readable r st' r' :
  migrate sha256 r empty_store = (st', r') -> s_next st' < 2 ^ 64 ->
  forall x d, load_raw st' x = Some d -> read_at (flatten st') x = Some d.
Proof.
  unfold migrate. destruct r as [t|]; [|intros E _; injection E as <- _; intros x d H; discriminate].
  pose proof (proj1 migrate_built_mut t empty_store built_empty) as H.
  destruct (migrate_node sha256 t empty_store) as [[st1 t1] y]. cbn [fst] in H.
  intros E Hn. injection E as <- _. apply read_at_load. apply H. exact Hn.
Qed.

End Built.

(** * Incremental [store_update]: states with parts already in the backing store *)

Section Incremental.
Variable sha256 : list N -> list N.
Hypothesis sha_len : forall x, length (sha256 x) = 32%nat.

(** Following the reference [r] in [st] (or any extension of it) loads [t] with its hash. *)
Definition loads (st : store) (r : N) (t : tree value) : Prop :=
  forall st'' fuel, extends st st'' -> (theight t <= fuel)%nat ->
    load_node fuel st'' r = Some (t, hash_node sha256 t).

Definition value_consistent (st : store) (ov : option aval) : Prop :=
  match ov with
  | Some (x, Some (Some r)) => INLINE_VALUE_LEN < lenN x -> load_raw st r = Some x /\ r < s_next st
  | _ => True
  end.

(** Every located node really is at its location, every located long value too. *)
Fixpoint consistent (st : store) (t : atree) : Prop :=
  match t with
  | AN o p ov cs =>
      (match o with
       | Some (Some r) => loads st r (Node p (option_map fst ov) (erase_f cs)) /\ r < s_next st
       | _ => True
       end)
      /\ value_consistent st ov /\ consistent_f st cs
  end
with consistent_f (st : store) (f : aforest) : Prop :=
  match f with ANil => True | ACons _ t r => consistent st t /\ consistent_f st r end.

Lemma loads_ext st st' r t : extends st st' -> loads st r t -> loads st' r t.
Proof. intros X L st'' fuel Hx Hf. apply L; [eapply extends_trans; eassumption | exact Hf]. Qed.

Lemma value_consistent_ext st st' ov :
  extends st st' -> s_next st <= s_next st' -> value_consistent st ov -> value_consistent st' ov.
Proof.
  intros X Hn. destruct ov as [[x [[r|]|]]|]; cbn; auto. intros H Hl. destruct (H Hl) as [A B].
  split; [apply X; exact A | lia].
Qed.

Lemma consistent_ext_mut st st' : extends st st' -> s_next st <= s_next st' ->
  (forall t, consistent st t -> consistent st' t) /\ (forall f, consistent_f st f -> consistent_f st' f).
Proof.
  intros X Hn. apply atree_aforest_ind.
  - intros o p ov cs IH (A & B & C). cbn [consistent]. split; [|split; [eapply value_consistent_ext; eassumption | auto]].
    destruct o as [[r|]|]; auto. destruct A as [A1 A2]. split; [eapply loads_ext; eassumption | lia].
  - auto.
  - intros c t IHt r IHr [A B]. split; auto.
Qed.

Lemma store_value_mono ov st : s_next st <= s_next (fst (fst (store_value sha256 ov st))).
Proof.
  unfold store_value. destruct ov as [[x a]|]; [|cbn; lia].
  destruct (lenN x <=? INLINE_VALUE_LEN); [cbn; lia|].
  destruct a as [[r|]|]; [cbn; lia| |];
    (pose proof (store_raw_mono st x); destruct (store_raw st x) as [st1 r1]; cbn [fst] in *; assumption).
Qed.

Lemma store_mono_mut :
  (forall t st, s_next st <= s_next (fst (fst (store_node sha256 t st))))
  /\ (forall f st, s_next st <= s_next (fst (fst (store_children sha256 f st)))).
Proof.
  apply atree_aforest_ind.
  - intros o p ov cs IH st. rewrite store_node_eq. specialize (IH st).
    assert (G : s_next st <= s_next (fst (fst (
      let '(st1, cs', refs) := store_children sha256 cs st in
      let '(st2, ov', sv) := store_value sha256 ov st1 in
      let body := enc_rec (mkRec (hash_node sha256 (erase (AN o p ov cs))) p sv (combine (labels cs) refs)) in
      let '(st3, r) := store_raw st2 body in (st3, AN (Some (Some r)) p ov' cs', r))))).
    { destruct (store_children sha256 cs st) as [[st1 cs'] refs]. cbn [fst] in IH.
      pose proof (store_value_mono ov st1) as H2.
      destruct (store_value sha256 ov st1) as [[st2 ov'] sv]. cbn [fst] in H2. cbv zeta.
      match goal with |- context [store_raw st2 ?b] => pose proof (store_raw_mono st2 b) as H3;
        destruct (store_raw st2 b) as [st3 r3] end.
      cbn [fst] in *. lia. }
    destruct o as [[r|]|]; [cbn; lia | exact G | exact G].
  - intros st. cbn. lia.
  - intros c t IHt r IHr st. rewrite store_children_cons. specialize (IHr st).
    destruct (store_children sha256 r st) as [[st1 r'] refs]. cbn [fst] in IHr.
    specialize (IHt st1). destruct (store_node sha256 t st1) as [[st2 t'] x]. cbn [fst] in *. lia.
Qed.

Lemma store_value_props ov st st' ov' sv :
  store_value sha256 ov st = (st', ov', sv) -> bounded st -> s_next st' < 2 ^ 64 -> value_consistent st ov ->
  bounded st' /\ extends st st' /\ s_next st <= s_next st'
  /\ option_map fst ov' = option_map fst ov
  /\ (match sv with Some s => svalue_ok s | None => True end)
  /\ value_consistent st' ov'
  /\ (forall st'', extends st' st'' -> load_value st'' sv = Some (option_map fst ov)).
Proof.
  unfold store_value. destruct ov as [[x a]|].
  - destruct (N.leb_spec (lenN x) INLINE_VALUE_LEN) as [Hs|Hs].
    + intros E Hb _ Hc. injection E as <- <- <-.
      repeat split; try assumption; try apply extends_refl; try lia; try exact Hs.
    + assert (Fresh : forall st1 r, store_raw st x = (st1, r) -> bounded st -> s_next st1 < 2 ^ 64 ->
                bounded st1 /\ extends st st1 /\ s_next st <= s_next st1
                /\ svalue_ok (SIndirect (hash_value sha256 x) r)
                /\ value_consistent st1 (Some (x, Some (Some r)))
                /\ (forall st'', extends st1 st'' ->
                      load_value st'' (Some (SIndirect (hash_value sha256 x) r)) = Some (Some x))).
      { intros st1 r E1 Hb Hn. destruct (store_raw_props _ _ _ _ E1 Hb) as (B & X & L & Hr & Hnext).
        repeat split; try assumption; try lia.
        - unfold hash_value. apply sha_len.
        - intros st'' Hx. cbn [load_value]. rewrite (Hx _ _ L). reflexivity. }
      destruct a as [[r|]|].
      * intros E Hb Hn Hc. injection E as <- <- <-. destruct (Hc Hs) as [Hl Hr].
        repeat split; try assumption; try apply extends_refl; try lia.
        -- unfold hash_value. apply sha_len.
        -- intros st'' Hx. cbn [load_value]. rewrite (Hx _ _ Hl). reflexivity.
      * destruct (store_raw st x) as [st1 r] eqn:E1. intros E Hb Hn _. injection E as <- <- <-.
        destruct (Fresh st1 r eq_refl Hb Hn) as (A & B & C & D & F & G).
        split; [exact A|]. split; [exact B|]. split; [exact C|]. split; [reflexivity|].
        split; [exact D|]. split; [exact F | exact G].
      * destruct (store_raw st x) as [st1 r] eqn:E1. intros E Hb Hn _. injection E as <- <- <-.
        destruct (Fresh st1 r eq_refl Hb Hn) as (A & B & C & D & F & G).
        split; [exact A|]. split; [exact B|]. split; [exact C|]. split; [reflexivity|].
        split; [exact D|]. split; [exact F | exact G].
  - intros E Hb _ _. injection E as <- <- <-. repeat split; try assumption; try apply extends_refl; lia.
Qed.

Lemma store_props_mut :
  (forall t st st' t' r, store_node sha256 t st = (st', t', r) -> bounded st -> tree_ok t -> consistent st t ->
      s_next st' < 2 ^ 64 ->
      bounded st' /\ extends st st' /\ s_next st <= s_next st' /\ r < s_next st'
      /\ erase t' = erase t /\ consistent st' t' /\ loads st' r (erase t)
      /\ exists p ov cs, t' = AN (Some (Some r)) p ov cs)
  /\ (forall f st st' f' refs, store_children sha256 f st = (st', f', refs) -> bounded st -> forest_ok f ->
      consistent_f st f -> s_next st' < 2 ^ 64 ->
      bounded st' /\ extends st st' /\ s_next st <= s_next st'
      /\ Forall (fun x => x < s_next st') refs /\ length refs = aflen f
      /\ erase_f f' = erase_f f /\ consistent_f st' f'
      /\ forall st'' fuel, extends st' st'' -> (fheight (erase_f f) <= fuel)%nat ->
           load_kids_with (load_node fuel st'') (combine (labels f) refs) = Some (erase_f f)).
Proof.
  apply atree_aforest_ind.
  - intros o p ov cs IH st st' t' r E Hb [Hp Hf] (Co & Cv & Cc) Hn. rewrite store_node_eq in E.
    assert (Located : forall r0, o = Some (Some r0) ->
              bounded st' /\ extends st st' /\ s_next st <= s_next st' /\ r < s_next st'
              /\ erase t' = erase (AN o p ov cs) /\ consistent st' t' /\ loads st' r (erase (AN o p ov cs))
              /\ exists p1 ov1 cs1, t' = AN (Some (Some r)) p1 ov1 cs1).
    { intros r0 ->. injection E as <- <- <-. destruct Co as [L Hr].
      repeat split; try assumption; try apply extends_refl; try lia. eauto. }
    assert (Fresh : (forall r0, o <> Some (Some r0)) ->
              (let '(st1, cs', refs) := store_children sha256 cs st in
               let '(st2, ov', sv) := store_value sha256 ov st1 in
               let body := enc_rec (mkRec (hash_node sha256 (erase (AN o p ov cs))) p sv (combine (labels cs) refs)) in
               let '(st3, r) := store_raw st2 body in (st3, AN (Some (Some r)) p ov' cs', r)) = (st', t', r) ->
              bounded st' /\ extends st st' /\ s_next st <= s_next st' /\ r < s_next st'
              /\ erase t' = erase (AN o p ov cs) /\ consistent st' t' /\ loads st' r (erase (AN o p ov cs))
              /\ exists p1 ov1 cs1, t' = AN (Some (Some r)) p1 ov1 cs1).
    { intros _ E'. clear E Located.
      destruct (store_children sha256 cs st) as [[st1 cs'] refs] eqn:E1.
      destruct (store_value sha256 ov st1) as [[st2 ov'] sv] eqn:E2.
      cbv zeta in E'. destruct (store_raw st2 _) as [st3 r3] eqn:E3 in E'. injection E' as <- <- <-.
      assert (N23 : s_next st2 <= s_next st3).
      { match type of E3 with store_raw st2 ?b = _ => pose proof (store_raw_mono st2 b) as H end.
        rewrite E3 in H. exact H. }
      assert (N12 : s_next st1 <= s_next st2).
      { pose proof (store_value_mono ov st1) as H. rewrite E2 in H. exact H. }
      destruct (IH st st1 cs' refs E1 Hb Hf Cc ltac:(lia)) as (B1 & X1 & L1 & R1 & Len1 & Er1 & Cc1 & Ld1).
      assert (Cv1 : value_consistent st1 ov) by (eapply value_consistent_ext; eassumption).
      destruct (store_value_props _ _ _ _ _ E2 B1 ltac:(lia) Cv1) as (B2 & X2 & L2 & Ev & Sv & Cv2 & Lv).
      destruct (store_raw_props _ _ _ _ E3 B2) as (B3 & X3 & L3 & Hr3 & Hnext3).
      assert (X13 : extends st1 st3) by (eapply extends_trans; eassumption).
      assert (Ld : loads st3 r3 (erase (AN o p ov cs))).
      { intros st'' fuel Hx Hfuel. cbn [erase theight] in Hfuel.
        destruct fuel as [|fuel']; [lia|]. cbn [load_node].
        rewrite (Hx _ _ L3). rewrite <- (app_nil_r (enc_rec _)). rewrite dec_rec_enc.
        + cbn [r_value r_children r_path r_hash].
          rewrite (Lv st'') by (eapply extends_trans; [exact X3 | exact Hx]).
          rewrite (Ld1 st'' fuel') by (try (eapply extends_trans; [exact X13 | exact Hx]); lia).
          reflexivity.
        + unfold rec_ok. cbn [r_value r_children r_path r_hash].
          split; [apply sha_len|]. split; [exact Hp|]. split; [exact Sv|].
          unfold kids_ok.
          assert (Hlt : Forall (fun x => x < 2 ^ 64) refs) by (eapply Forall_impl; [|exact R1]; cbn; intros; lia).
          clear - Hlt. generalize (labels cs). intros ls. revert ls.
          induction Hlt as [|x refs Hx _ IHr]; intros [|c ls]; cbn [combine]; constructor; auto. }
      split; [exact B3|]. split; [eapply extends_trans; [exact X1 | exact X13]|].
      split; [lia|]. split; [lia|].
      split; [cbn [erase]; rewrite Ev, Er1; reflexivity|].
      split.
      - cbn [consistent]. split; [|split].
        + split; [|lia]. rewrite Ev, Er1. exact Ld.
        + eapply value_consistent_ext; [exact X3 | lia | exact Cv2].
        + apply (proj2 (consistent_ext_mut st1 st3 X13 ltac:(lia))). exact Cc1.
      - split; [exact Ld | eauto]. }
    destruct o as [[r0|]|].
    + apply (Located r0 eq_refl).
    + apply Fresh; [intros r0; discriminate | exact E].
    + apply Fresh; [intros r0; discriminate | exact E].
  - intros st st' f' refs E Hb _ _ Hn. cbn [store_children] in E. injection E as <- <- <-.
    repeat split; try assumption; try apply extends_refl; try lia; constructor.
  - intros c t IHt r IHr st st' f' refs E Hb [Ht Hr] [Ct Cr] Hn. rewrite store_children_cons in E.
    destruct (store_children sha256 r st) as [[st1 r'] refs1] eqn:E1.
    destruct (store_node sha256 t st1) as [[st2 t'] x] eqn:E2. injection E as <- <- <-.
    assert (N12 : s_next st1 <= s_next st2).
    { pose proof (proj1 store_mono_mut t st1) as H. rewrite E2 in H. exact H. }
    destruct (IHr st st1 r' refs1 E1 Hb Hr Cr ltac:(lia)) as (B1 & X1 & L1 & R1 & Len1 & Er1 & Cr1 & Ld1).
    assert (Ct1 : consistent st1 t) by (apply (proj1 (consistent_ext_mut st st1 X1 L1)); exact Ct).
    destruct (IHt st1 st2 t' x E2 B1 Ht Ct1 Hn) as (B2 & X2 & L2 & R2 & Et & Ct2 & Ldt & _).
    split; [exact B2|]. split; [eapply extends_trans; eassumption|]. split; [lia|].
    split; [constructor; [exact R2|]; eapply Forall_impl; [|exact R1]; cbn; intros; lia|].
    split; [cbn [length aflen]; rewrite Len1; reflexivity|].
    split; [cbn [erase_f]; rewrite Et, Er1; reflexivity|].
    split; [split; [exact Ct2 | apply (proj2 (consistent_ext_mut st1 st2 X2 L2)); exact Cr1]|].
    intros st'' fuel Hx Hfuel. cbn [erase_f fheight] in Hfuel.
    cbn [labels combine load_kids_with erase_f].
    rewrite (Ldt st'' fuel Hx) by lia.
    rewrite (Ld1 st'' fuel) by (try (eapply extends_trans; eassumption); lia).
    reflexivity.
Qed.

(** [store_update] of ANY state that is consistent with the store (fresh, loaded, or frozen
    after modifications of a stored state): the written top record names the root, following
    the references loads the same tree with the right hash, and both resulting states (the
    one kept in memory and the one [load_from_location] gives) are consistent again. *)
Theorem store_update_incremental t st st' kept loaded top :
  store_update sha256 (Some t) st = (st', kept, loaded, top) ->
  tree_ok t -> bounded st -> consistent st t -> s_next st' < 2 ^ 64 ->
  erase_root kept = Some (erase t) /\ erase_root loaded = Some (erase t)
  /\ (exists x, root_ref loaded = Some x /\ load_raw st' top = Some (1 :: be64 x)
                /\ loads st' x (erase t))
  /\ bounded st'
  /\ (match kept with Some k => consistent st' k | None => False end)
  /\ (match loaded with Some l => consistent st' l | None => False end).
Proof.
  unfold store_update. intros E Hok Hb Hc Hn.
  destruct (store_node sha256 t st) as [[st1 t1] x] eqn:E1.
  destruct (store_raw st1 (1 :: be64 x)) as [st2 tp] eqn:E2. injection E as <- <- <- <-.
  assert (N12 : s_next st1 <= s_next st2).
  { pose proof (store_raw_mono st1 (1 :: be64 x)) as H. rewrite E2 in H. exact H. }
  destruct (proj1 store_props_mut t st st1 t1 x E1 Hb Hok Hc ltac:(lia))
    as (B1 & X1 & L1 & Rx & Et & C1 & Ld & (p1 & ov1 & cs1 & ->)).
  destruct (store_raw_props _ _ _ _ E2 B1) as (B2 & X2 & L2 & _ & _).
  assert (C2 : consistent st2 (AN (Some (Some x)) p1 ov1 cs1))
    by (apply (proj1 (consistent_ext_mut st1 st2 X2 N12)); exact C1).
  split; [|split; [|split; [|split; [|split]]]].
  - destruct t as [[[r0|]|] p ov cs]; cbn [erase_root option_map]; f_equal; cbn [erase] in *; try exact Et; reflexivity.
  - cbn [erase_root option_map]. rewrite Et. reflexivity.
  - exists x. split; [reflexivity|]. split; [exact L2|]. eapply loads_ext; [exact X2 | exact Ld].
  - exact B2.
  - destruct t as [[[r0|]|] p ov cs].
    + apply (proj1 (consistent_ext_mut st st2 ltac:(eapply extends_trans; eassumption) ltac:(lia))). exact Hc.
    + destruct C2 as (_ & Cv & Cc). cbn [consistent]. auto.
    + destruct C2 as (_ & Cv & Cc). cbn [consistent]. auto.
  - exact C2.
Qed.

End Incremental.

(** A state that lives in memory only is consistent with every store. *)
Lemma in_memory_consistent_mut (sha256 : list N -> list N) st :
  (forall t, in_memory t = true -> consistent sha256 st t)
  /\ (forall f, in_memory_f f = true -> consistent_f sha256 st f).
Proof.
  apply atree_aforest_ind.
  - intros o p ov cs IH H. cbn [in_memory] in H. apply andb_true_iff in H as [H Hc].
    apply andb_true_iff in H as [Ho Hv]. cbn [consistent]. split; [|split; [|apply IH; exact Hc]].
    + destruct o as [[r|]|]; [discriminate | exact I | exact I].
    + destruct ov as [[x [[r|]|]]|]; cbn; try exact I; discriminate.
  - intros _. exact I.
  - intros c t IHt r IHr H. cbn [in_memory_f] in H. apply andb_true_iff in H as [Ht Hr].
    split; [apply IHt; exact Ht | apply IHr; exact Hr].
Qed.
