(** Model of the contract-visible handle layer: [InstanceState]
    (smart-contracts/wasm-chain-integration/src/v1/types.rs:771-1375) on top of the trie
    state machine of [Locks.v].

    [entry_mapping] and [iterators] of the code are the per-generation tables [g_handles]
    and [g_iters] of the trie machine (a deleted iterator is the [None] slot); this file
    adds [current_generation], the [changed] flag, the u64 / u32 result encodings
    ([InstanceStateEntryOption], [InstanceStateIteratorResultOption], ...), the
    generation checks of every operation, [entry_read / entry_write / entry_size /
    entry_resize], and interrupts: a re-entrant call runs on a fresh generation with a fresh
    [InstanceState]; on return the caller is resumed by [InstanceState::migrate] either on
    the new state with [state_updated = true] (the inner call succeeded and touched the
    state) or on its own state.  Definitions only; lemmas in [InstanceStateProofs.v]. *)
From Coq Require Import NArith PeanoNat List Bool.
From CB Require Import Trie.Radix.
From CB Require Import Trie.PrefixMap.
From CB Require Import Trie.Locks.
Import ListNotations.
Local Open Scope N_scope.

(** * Encodings *)
Definition TWO32 : N := 4294967296.
Definition ID_NONE : N := 18446744073709551615.            (* u64::MAX: None / Ok(None) *)
Definition ID_ERR : N := 13835058055282163711.             (* u64::MAX & !(1 << 62) *)
Definition INVALID32 : N := 4294967295.                    (* u32::MAX *)

Definition enc (gen : N) (idx : nat) : N := gen * TWO32 + N.of_nat idx.
Definition id_gen (id : N) : N := id / TWO32.
(** The index part of an id, if it is inside a table of [bound] elements (an index outside
    the table is never converted to a unary number). *)
Definition id_idx (id : N) (bound : nat) : option nat :=
  if N.of_nat bound <=? id mod TWO32 then None else Some (N.to_nat (id mod TWO32)).

(** * The instance state *)
Record istate := mkI {
  is_gen : N;            (* current_generation *)
  is_changed : bool;     (* [changed] of the current stretch of execution *)
  is_touched : bool      (* any stretch of this call changed the state, or a re-entrant call did *)
}.

Definition i_fresh : istate := mkI 0 false false.
Definition i_set_changed (i : istate) : istate := mkI (is_gen i) true (is_touched i).

(** Contract-level operations; [id]s are the u64 values handed out earlier. *)
Inductive cop :=
| CLookup (k : list N)
| CCreate (k : list N)
| CDelete (k : list N)
| CDeletePrefix (k : list N)
| CIter (k : list N)
| CNext (id : N)
| CIterDelete (id : N)
| CIterKey (id : N)
| CRead (id : N)
| CSize (id : N)
| CWrite (id : N) (off : N) (data : list N)
| CResize (id : N) (n : N)
| CInterrupt
| CEnd (commit : bool).

Inductive cout :=
| XId (id : N)                 (* an id or one of the u64 sentinels *)
| XNum (n : N)                 (* a u32 result *)
| XBytes (v : list N)          (* data read *)
| XInvalid                     (* the read / size / key functions answered u32::MAX *)
| XMark.                       (* interrupt / end markers *)

Definition frame := (istate * gen)%type.

Definition with_ents_of (g : gen) (e : nat) (v : value) : gen :=
  mkGen (g_root g) (set_nth e (Some v) (g_ents g)) (g_locks g) (g_handles g) (g_iters g).

(** The live entry a handle id denotes, if any: generation check, table lookup,
    tombstone check. *)
Definition entry_of (i : istate) (g : gen) (id : N) : option (nat * value) :=
  if negb (id_gen id =? is_gen i) then None else
  match id_idx id (length (g_handles g)) with
  | None => None
  | Some h =>
      match nth_error (g_handles g) h with
      | None => None
      | Some e => match ent_get (g_ents g) e with Some v => Some (e, v) | None => None end
      end
  end.

Definition write_at (v : value) (off : nat) (data : list N) : value :=
  firstn off v ++ data ++ skipn (off + length data) v.

Definition resize_to (v : value) (n : nat) : value :=
  firstn n v ++ repeat 0 (n - length v).

(** One contract-level operation on the running call. *)
Definition c_op (o : cop) (f : frame) : frame * cout :=
  let (i, g) := f in
  match o with
  | CLookup k =>
      match m_get k g with
      | (g', RFound h _) => ((i, g'), XId (enc (is_gen i) h))
      | (g', _) => ((i, g'), XId ID_NONE)
      end
  | CCreate k =>
      let i := i_set_changed i in
      match m_insert k [] g with
      | (g', RHandle h _) => ((i, g'), XId (enc (is_gen i) h))
      | (g', _) => ((i, g'), XId ID_NONE)
      end
  | CDelete k =>
      let i := i_set_changed i in
      match m_delete k g with
      | (g', RLocked) => ((i, g'), XNum 0)
      | (g', RBool true) => ((i, g'), XNum 2)
      | (g', _) => ((i, g'), XNum 1)
      end
  | CDeletePrefix k =>
      let i := i_set_changed i in
      match m_delete_prefix k g with
      | (g', RLocked) => ((i, g'), XNum 0)
      | (g', RBool true) => ((i, g'), XNum 2)
      | (g', _) => ((i, g'), XNum 1)
      end
  | CIter k =>
      match m_iter k g with
      | (g', RIter n) => ((i, g'), XId (enc (is_gen i) n))
      | (g', RTooMany) => ((i, g'), XId ID_ERR)
      | (g', _) => ((i, g'), XId ID_NONE)
      end
  | CNext id =>
      if negb (id_gen id =? is_gen i) then (f, XId ID_ERR) else
      match id_idx id (length (g_iters g)) with
      | None => (f, XId ID_ERR)
      | Some n =>
          match m_next n g with
          | (g', RNext _ h _) => ((i, g'), XId (enc (is_gen i) h))
          | (g', RNone) => ((i, g'), XId ID_NONE)
          | (g', _) => ((i, g'), XId ID_ERR)
          end
      end
  | CIterDelete id =>
      if negb (id_gen id =? is_gen i) then (f, XNum INVALID32) else
      match id_idx id (length (g_iters g)) with
      | None => (f, XNum INVALID32)
      | Some n =>
          match nth_error (g_iters g) n with
          | Some (Some _) => ((i, fst (m_deliter n g)), XNum 1)
          | Some None => (f, XNum 0)
          | None => (f, XNum INVALID32)
          end
      end
  | CIterKey id =>
      if negb (id_gen id =? is_gen i) then (f, XInvalid) else
      match id_idx id (length (g_iters g)) with
      | None => (f, XInvalid)
      | Some n =>
          match nth_error (g_iters g) n with
          | Some (Some (p, None)) => (f, XBytes p)
          | Some (Some (_, Some k)) => (f, XBytes k)
          | _ => (f, XInvalid)
          end
      end
  | CRead id =>
      match entry_of i g id with
      | Some (_, v) => (f, XBytes v)
      | None => (f, XInvalid)
      end
  | CSize id =>
      match entry_of i g id with
      | Some (_, v) => (f, XNum (N.of_nat (length v)))
      | None => (f, XInvalid)
      end
  | CWrite id off data =>
      let i' := i_set_changed i in
      match entry_of i g id with
      | Some (e, v) =>
          if Nat.leb (N.to_nat off) (length v)
          then ((i', with_ents_of g e (write_at v (N.to_nat off) data)), XNum (N.of_nat (length data)))
          else ((i', g), XNum 0)
      | None => ((i', g), XNum INVALID32)
      end
  | CResize id n =>
      let i' := i_set_changed i in
      match entry_of i g id with
      | Some (e, v) => ((i', with_ents_of g e (resize_to v (N.to_nat n))), XNum 1)
      | None => ((i', g), XNum INVALID32)
      end
  | CInterrupt | CEnd _ => (f, XMark)
  end.

(** A fresh call on a fresh generation of the caller's state. *)
Definition inner_frame (f : frame) : frame :=
  (i_fresh, mkGen (g_root (snd f)) (g_ents (snd f)) None [] []).

(** [InstanceState::migrate]: the caller [outer] is resumed after the re-entrant call
    [inner] returned. *)
Definition resume (commit : bool) (inner outer : frame) : frame :=
  let (ii, ig) := inner in
  let (oi, og) := outer in
  let touched := is_changed ii || is_touched ii in
  if commit && touched then
    (* state_updated = true: new generation counter, empty tables; the trie generation of the
       inner call (with whatever locks it left) is now the caller's *)
    (mkI (is_gen oi + 1) false true,
     mkGen (g_root ig) (g_ents ig) (g_locks ig) [] [])
  else
    (mkI (is_gen oi) false (is_changed oi || is_touched oi), og).

(** The stack of running calls, innermost first.  [None] = the outermost call ended. *)
Definition c_step (o : cop) (st : list frame) : option (list frame) * cout :=
  match o, st with
  | _, [] => (None, XMark)
  | CInterrupt, f :: rest => (Some (inner_frame f :: f :: rest), XMark)
  | CEnd commit, inner :: outer :: rest => (Some (resume commit inner outer :: rest), XMark)
  | CEnd _, [_] => (None, XMark)
  | _, f :: rest => let (f', x) := c_op o f in (Some (f' :: rest), x)
  end.

Fixpoint c_run (ops : list cop) (st : list frame) : list cout :=
  match ops with
  | [] => []
  | o :: r =>
      match c_step o st with
      | (Some st', x) => x :: c_run r st'
      | (None, x) => [x]
      end
  end.

Definition c_init : list frame := [(i_fresh, empty_gen)].
