(** The canonical radix tree of a finite map: inserting the entries of an association
    list (in any order) into the empty tree.  [CanonProofs.v] shows that a well-formed
    tree is determined by its contents ([to_list]), so [canon (to_list t) = Some t]
    and the result does not depend on the order of insertion.
    Also: the longest common prefix of a list of keys (a well-formed node's stem is the
    longest common prefix of the keys below it). *)
From Coq Require Import NArith List Bool.
From CB Require Import Trie.Radix.
Import ListNotations.
Local Open Scope N_scope.

Section Canon.
Context {V : Type}.

Definition canon (m : list (list N * V)) : option (tree V) :=
  fold_left (fun r kv => Some (insert_root (fst kv) (snd kv) r)) m None.

(** Contents as an unordered finite map: the lookup function. *)
Definition same_contents (r1 r2 : option (tree V)) : Prop :=
  forall k, lookup_root k r1 = lookup_root k r2.

End Canon.

Fixpoint lcp (a b : list N) : list N :=
  match a, b with
  | x :: a', y :: b' => if x =? y then x :: lcp a' b' else []
  | _, _ => []
  end.

Definition lcp_keys (l : list (list N)) : list N :=
  match l with
  | [] => []
  | k :: r => fold_left lcp r k
  end.
