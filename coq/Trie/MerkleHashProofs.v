(** Lemmas about [MerkleHash.v]: the hash is the fold of the preimage tree, for every
    hash function; stem packing is invertible on nibbles. *)
From Coq Require Import NArith PeanoNat List Bool Lia.
From CB Require Import Common.Codec.
From CB Require Import Trie.Radix.
From CB Require Import Trie.RadixProofs.
From CB Require Import Trie.MerkleHash.
Import ListNotations.
Local Open Scope N_scope.

Section Fold.
Variable sha256 : list N -> list N.

Lemma eval_pre_value v : eval sha256 (pre_value v) = hash_value sha256 v.
Proof. unfold pre_value, hash_value. cbn [eval flat_map]. rewrite app_nil_r. reflexivity. Qed.

Lemma eval_pre_value_part ov : flat_map (eval sha256) (pre_value_part ov) = value_part sha256 ov.
Proof.
  destruct ov as [v|]; cbn [pre_value_part flat_map value_part]; [|reflexivity].
  rewrite eval_pre_value, app_nil_r. reflexivity.
Qed.

Lemma eval_pre_mut :
  (forall t : tree value, eval sha256 (pre_node t) = hash_node sha256 t)
  /\ (forall f : forest value, flat_map (eval sha256) (pre_children f) = hash_children sha256 f).
Proof.
  apply tree_forest_ind.
  - intros p ov cs IH. cbn [pre_node eval hash_node].
    rewrite flat_map_app, eval_pre_value_part. cbn [flat_map eval]. rewrite IH, app_nil_r. reflexivity.
  - reflexivity.
  - intros c t IHt r IHr. cbn [pre_children flat_map hash_children eval]. rewrite IHt, IHr. reflexivity.
Qed.

Theorem eval_pre_node t : eval sha256 (pre_node t) = hash_node sha256 t.
Proof. apply eval_pre_mut. Qed.

Theorem eval_pre_root r : eval sha256 (pre_root r) = hash_root sha256 r.
Proof.
  destruct r as [t|]; cbn [pre_root hash_root]; [apply eval_pre_node|].
  cbn [eval flat_map]. rewrite app_nil_r. reflexivity.
Qed.

(** The documented construction, one unfolding step. *)
Theorem hash_node_unfold p ov cs :
  hash_node sha256 (Node p ov cs) =
  sha256 ((match ov with Some v => 1 :: sha256 (be64 (lenN v) ++ v) | None => [0] end)
          ++ le64 (lenN p) ++ pack p
          ++ sha256 (be16 (N.of_nat (flen cs)) ++ hash_children sha256 cs)).
Proof. reflexivity. Qed.

Theorem hash_children_unfold c t r :
  hash_children sha256 (FCons c t r) = c :: hash_node sha256 t ++ hash_children sha256 r.
Proof. reflexivity. Qed.

End Fold.

(** * Stem packing *)

Definition nibbles_ok (ns : list N) : bool := forallb (fun x => x <? 16) ns.

Lemma pack_nibble h l : h < 16 -> l < 16 -> (16 * h + l) / 16 = h /\ (16 * h + l) mod 16 = l.
Proof.
  intros Hh Hl. split.
  - rewrite N.mul_comm, N.div_add_l by lia. rewrite N.div_small by lia. lia.
  - rewrite N.add_comm, N.mul_comm, N.mod_add by lia. apply N.mod_small. lia.
Qed.

Lemma unpack_pack_aux n : forall ns, (length ns <= n)%nat -> nibbles_ok ns = true -> unpack (length ns) (pack ns) = ns.
Proof.
  induction n as [|n IH]; intros ns Hlen Hok.
  - destruct ns; [reflexivity | cbn in Hlen; lia].
  - destruct ns as [|h [|l r]]; [reflexivity | |].
    + cbn in Hok. rewrite andb_true_r in Hok. apply N.ltb_lt in Hok.
      cbn [length pack unpack]. f_equal.
      rewrite N.mul_comm, N.div_mul by lia. reflexivity.
    + cbn [nibbles_ok forallb] in Hok. apply andb_true_iff in Hok as [Hh Hok].
      apply andb_true_iff in Hok as [Hl Hok]. apply N.ltb_lt in Hh, Hl.
      cbn [length pack unpack]. destruct (pack_nibble h l Hh Hl) as [-> ->].
      f_equal. f_equal. apply IH; [cbn [length] in Hlen; lia | exact Hok].
Qed.

Lemma unpack_pack ns : nibbles_ok ns = true -> unpack (length ns) (pack ns) = ns.
Proof. apply (unpack_pack_aux (length ns)). lia. Qed.

Lemma pack_length ns : length (pack ns) = Nat.div2 (S (length ns)).
Proof.
  assert (H : forall n ns, (length ns <= n)%nat -> length (pack ns) = Nat.div2 (S (length ns))).
  { induction n as [|n IH]; intros l Hl.
    - destruct l; [reflexivity | cbn in Hl; lia].
    - destruct l as [|h [|x r]]; [reflexivity | reflexivity |].
      cbn [pack length]. rewrite IH by (cbn [length] in Hl; lia). reflexivity. }
  apply (H (length ns)). lia.
Qed.

Lemma nibbles_ok_nib bs : bytes_ok bs = true -> nibbles_ok (nib bs) = true.
Proof.
  induction bs as [|b r IH]; [reflexivity|]. cbn [bytes_ok forallb nib nibbles_ok].
  intros H. apply andb_true_iff in H as [Hb Hr]. unfold byte_ok in Hb. apply N.ltb_lt in Hb.
  fold (nibbles_ok (nib r)). rewrite (IH Hr), andb_true_r.
  apply andb_true_iff. split; apply N.ltb_lt.
  - apply N.div_lt_upper_bound; lia.
  - apply N.mod_lt. lia.
Qed.
