(** Limits and machine arithmetic of the contract-visible handle layer (v1/types.rs:790-1016,
    1020-1375; constants.rs MAX_KEY_SIZE / MAX_ENTRY_SIZE), with the wrap / overflow behaviour
    written out.  [InstanceState.v] uses unbounded numbers ([enc gen idx = gen * 2^32 + idx]); here
    the Rust expressions are modelled as they are evaluated on u32 / u64 / usize(64).

    - handle = [(u64::from(gen) << 32) | idx as u64]   ([h_enc]; NO mask on [idx])
    - [split]: [(index >> 32) as u32], [(index & 0xffff_ffff) as usize]   ([h_split])
    - sentinels [u64::MAX] (NEW_NONE / NEW_OK_NONE) and [u64::MAX & !(1 << 62)] (NEW_ERR)
    - [migrate]: [current_generation + 1] on u32: panics at u32::MAX when the crate is compiled with
      overflow checks, wraps to 0 without ([gen_next]); the crate's own release profile does not
      switch overflow checks on
    - the tables [entry_mapping] / [iterators] have NO explicit length limit: [idx] is the [Vec]
      length (usize); the comment "assumes idx <= 2^31" is not enforced by a check
    - [create_entry]: [key.len() <= MAX_KEY_SIZE] after [changed = true]; [entry_resize]:
      [new_size > MAX_ENTRY_SIZE => Ok(0)]; [entry_write]: [end = min(MAX_ENTRY_SIZE, offset + len)]
    Definitions only; lemmas in [InstLimitsProofs.v]. *)
From Coq Require Import NArith List Bool.
From CB Require Import Gen.HostCosts.
Import ListNotations.
Local Open Scope N_scope.

Definition P32 : N := 4294967296.
Definition P64 : N := 18446744073709551616.
Definition U32MAXv : N := 4294967295.

Definition h_enc (gen idx : N) : N := N.lor (N.shiftl gen 32) idx.
Definition h_split (h : N) : N * N := (N.shiftr h 32 mod P32, N.land h 4294967295).

Definition H_NONE : N := 18446744073709551615.                    (* u64::MAX *)
Definition H_ERR : N := 13835058055282163711.                     (* u64::MAX & !(1 << 62) *)

(** [current_generation + 1]: [None] = arithmetic-overflow panic. *)
Definition gen_next (checked : bool) (gen : N) : option N :=
  if gen =? U32MAXv then (if checked then None else Some 0) else Some (gen + 1).

(** The id counters of one [InstanceState]: generation, [entry_mapping.len()], [iterators.len()],
    and the log of ids handed out (newest first; entries and iterators live in separate tables). *)
Record ctr := mkCtr { c_gen : N; c_ents : N; c_its : N; c_eids : list N; c_iids : list N }.
Definition ctr0 : ctr := mkCtr 0 0 0 [] [].

Inductive cop :=
| KEntry                      (* a successful lookup_entry / create_entry / iterator_next *)
| KIter                       (* a successful iterator *)
| KMigrate (updated : bool).  (* resume after an interrupt *)

Definition c_step (checked : bool) (o : cop) (c : ctr) : option (ctr * option N) :=
  match o with
  | KEntry => let h := h_enc (c_gen c) (c_ents c) in
              Some (mkCtr (c_gen c) (c_ents c + 1) (c_its c) (h :: c_eids c) (c_iids c), Some h)
  | KIter => let h := h_enc (c_gen c) (c_its c) in
             Some (mkCtr (c_gen c) (c_ents c) (c_its c + 1) (c_eids c) (h :: c_iids c), Some h)
  | KMigrate false => Some (c, None)
  | KMigrate true =>
      match gen_next checked (c_gen c) with
      | None => None
      | Some g => Some (mkCtr g 0 0 [] [], None)
      end
  end.

Fixpoint c_run (checked : bool) (ops : list cop) (c : ctr) : option ctr :=
  match ops with
  | [] => Some c
  | o :: r => match c_step checked o c with None => None | Some (c', _) => c_run checked r c' end
  end.

(** Size limits.  [create_entry]: the flag [changed] is set before the length check. *)
Definition create_entry_guard (changed : bool) (key_len : N) : bool * bool (* changed', accepted *) :=
  (true, key_len <=? MAX_KEY_SIZE).

(** [entry_resize] on a live entry of length [vlen]: (result code, new length). *)
Definition resize_len (vlen new_size : N) : N * N :=
  if MAX_ENTRY_SIZE <? new_size then (0, vlen) else (1, new_size).

(** [entry_write] on a live entry of length [vlen]: (bytes written, new length); [offset] is a u32,
    [len] the length of the source slice, usize arithmetic ([checked_add] cannot fail below 2^64). *)
Definition write_len (vlen offset len : N) : option (N * N) :=
  if offset <=? vlen then
    if P64 <=? offset + len then None
    else let e := N.min MAX_ENTRY_SIZE (offset + len) in Some (e - offset, N.max vlen e)
  else Some (0, vlen).
