(** Persistence of the contract state: a model of
    - [MutableTrie::freeze] with the re-use of unchanged origins and the [Collector]
      accounting (low_level.rs 1314-1348, 2415-2526; [SizeCollector] in types.rs 161-195),
    - the node storage format of [store_update_buf] / [Loadable for Node] /
      [write_node_path_and_value_tag] / [read_node_path_and_value_tag]
      (low_level.rs 1408-1438, 1498-1661, 3146-3196) over the [Vec<u8>] backing store
      ([BackingStoreStore for Vec<u8>], [Loader::load_raw], types.rs 214-272),
    - [migrate] (low_level.rs 1668-1786, 2015-2024),
    - [serialize] / [deserialize] (low_level.rs 3205-3320; api.rs 134-160),
    - the state machine of the C04 correspondence run ([c_step]).

    Trees carry annotations that mirror the implementation's bookkeeping:
    a node annotation [None] means "origin dropped: the node is rebuilt (and paid for) by
    the next freeze", [Some l] means "unchanged since it was thawed", with [l] its
    location in the backing store ([None] = [CachedRef::Memory], [Some r] =
    [CachedRef::Disk]/[Cached] with reference [r]).  A value annotation [None] means the
    value is owned by the mutable trie ([Entry::Mutable] / non-borrowed [ReadOnly]),
    [Some l] that it is borrowed from the persistent tree (with the location of an
    indirect value).

    [sha256] is a section variable.  Definitions only; lemmas in [PersistProofs.v]. *)
From Coq Require Import NArith List Bool.
From CB Require Import Common.Codec.
From CB Require Import Trie.Radix.
From CB Require Import Trie.MerkleHash.
Import ListNotations.
Local Open Scope N_scope.

Definition ann := option (option N).
Definition aval := (value * ann)%type.

Inductive atree :=
| AN (o : ann) (p : list N) (v : option aval) (cs : aforest)
with aforest :=
| ANil
| ACons (c : N) (t : atree) (r : aforest).

Fixpoint erase (t : atree) : tree value :=
  match t with
  | AN _ p ov cs => Node p (option_map fst ov) (erase_f cs)
  end
with erase_f (f : aforest) : forest value :=
  match f with
  | ANil => FNil
  | ACons c t r => FCons c (erase t) (erase_f r)
  end.

Definition erase_root (r : option atree) : option (tree value) := option_map erase r.

Fixpoint aflen (f : aforest) : nat :=
  match f with ANil => O | ACons _ _ r => S (aflen r) end.

(** * The operations of the mutable trie with the origin / ownership bookkeeping *)

Definition new_leaf (k : list N) (v : value) : atree := AN None k (Some (v, None)) ANil.

(** [insert] clears the origin of every node it visits ("the node is on the modified
    path"); new nodes have no origin; the inserted value is owned. *)
Fixpoint a_insert (k : list N) (v : value) (t : atree) : atree :=
  match t with
  | AN o p ov cs =>
      match follow_stem k p with
      | FEqual => AN None p (Some (v, None)) cs
      | FKeyIsPrefix s ps => AN None k (Some (v, None)) (ACons s (AN None ps ov cs) ANil)
      | FStemIsPrefix c k' => AN None p ov (a_insert_f c k' v cs)
      | FDiff cm kc kr sc sr =>
          let nk := new_leaf kr v in
          let old := AN None sr ov cs in
          AN None cm None (if kc <? sc then ACons kc nk (ACons sc old ANil)
                           else ACons sc old (ACons kc nk ANil))
      end
  end
with a_insert_f (c : N) (k : list N) (v : value) (f : aforest) : aforest :=
  match f with
  | ANil => ACons c (new_leaf k v) ANil
  | ACons c' t r =>
      if c =? c' then ACons c' (a_insert k v t) r
      else if c <? c' then ACons c (new_leaf k v) f
      else ACons c' t (a_insert_f c k v r)
  end.

Definition a_insert_root (k : list N) (v : value) (r : option atree) : atree :=
  match r with
  | None => new_leaf k v
  | Some t => a_insert k v t
  end.

(** Path compression: the merged child loses its origin ([child_node.origin = None]). *)
Definition a_collapse (o : ann) (p : list N) (ov : option aval) (cs : aforest) : option atree :=
  match ov, cs with
  | None, ANil => None
  | None, ACons c (AN _ cp cv ccs) ANil => Some (AN None (p ++ c :: cp) cv ccs)
  | _, _ => Some (AN o p ov cs)
  end.

(** A node that loses a child loses its origin ([father_node.origin = None]); a node
    whose child is merely modified keeps it (the change is found through the child
    when freezing). *)
Definition shrunk (o : ann) (before after : aforest) : ann :=
  if Nat.ltb (aflen after) (aflen before) then None else o.

Fixpoint a_delete (k : list N) (t : atree) : option atree :=
  match t with
  | AN o p ov cs =>
      match follow_stem k p with
      | FEqual => match ov with Some _ => a_collapse None p None cs | None => Some t end
      | FStemIsPrefix c k' =>
          let cs' := a_delete_f c k' cs in a_collapse (shrunk o cs cs') p ov cs'
      | _ => Some t
      end
  end
with a_delete_f (c : N) (k : list N) (f : aforest) : aforest :=
  match f with
  | ANil => ANil
  | ACons c' t r =>
      if c =? c' then match a_delete k t with Some t' => ACons c' t' r | None => r end
      else ACons c' t (a_delete_f c k r)
  end.

Fixpoint a_delete_prefix (k : list N) (t : atree) : option atree :=
  match t with
  | AN o p ov cs =>
      match follow_stem k p with
      | FEqual => None
      | FKeyIsPrefix _ _ => None
      | FStemIsPrefix c k' =>
          let cs' := a_delete_prefix_f c k' cs in a_collapse (shrunk o cs cs') p ov cs'
      | FDiff _ _ _ _ _ => Some t
      end
  end
with a_delete_prefix_f (c : N) (k : list N) (f : aforest) : aforest :=
  match f with
  | ANil => ANil
  | ACons c' t r =>
      if c =? c' then match a_delete_prefix k t with Some t' => ACons c' t' r | None => r end
      else ACons c' t (a_delete_prefix_f c k r)
  end.

(** [get_mut] + overwrite: the entry becomes owned, the node keeps its origin. *)
Fixpoint a_setval (k : list N) (v : value) (t : atree) : atree :=
  match t with
  | AN o p ov cs =>
      match follow_stem k p with
      | FEqual => match ov with Some _ => AN o p (Some (v, None)) cs | None => t end
      | FStemIsPrefix c k' => AN o p ov (a_setval_f c k' v cs)
      | _ => t
      end
  end
with a_setval_f (c : N) (k : list N) (v : value) (f : aforest) : aforest :=
  match f with
  | ANil => ANil
  | ACons c' t r => if c =? c' then ACons c' (a_setval k v t) r else ACons c' t (a_setval_f c k v r)
  end.

(** * Freeze: re-use of unchanged origins and the collector *)

(** [SizeCollector]: [add_path] (length in nibbles; 1 tag byte, 4 more for a long stem),
    [add_children] (1 + 8 per child), [add_value] (length + 32 for the hash). *)
Definition path_charge (n : N) : N := if n <=? 63 then 1 + n else 1 + 4 + n.
Definition value_charge (ov : option aval) : N :=
  match ov with
  | Some (v, None) => lenN v + 32
  | _ => 0
  end.
Definition value_owned (ov : option aval) : bool :=
  match ov with Some (_, None) => true | _ => false end.
Definition freeze_val (ov : option aval) : option aval :=
  match ov with
  | Some (v, None) => Some (v, Some None)
  | _ => ov
  end.

(** Result: (changed, frozen tree, bytes charged).  A node whose origin is kept, whose
    value is borrowed and none of whose children changed is returned as it is. *)
Fixpoint freeze (t : atree) : bool * atree * N :=
  match t with
  | AN o p ov cs =>
      let '(chc, cs', nc) := freeze_f cs in
      let nv := value_charge ov in
      match o, value_owned ov || chc with
      | Some _, false => (false, t, nc + nv)
      | _, _ => (true, AN (Some None) p (freeze_val ov) cs',
                 nc + nv + path_charge (lenN p) + 9 * N.of_nat (aflen cs'))
      end
  end
with freeze_f (f : aforest) : bool * aforest * N :=
  match f with
  | ANil => (false, ANil, 0)
  | ACons c t r =>
      let '(ch1, t', n1) := freeze t in
      let '(ch2, r', n2) := freeze_f r in
      (ch1 || ch2, ACons c t' r', n1 + n2)
  end.

Definition freeze_root (r : option atree) : option atree * N :=
  match r with
  | None => (None, 0)
  | Some t => let '(_, t', n) := freeze t in (Some t', n)
  end.

(** [thaw] copies nothing in this model: after [freeze] every annotation is [Some _]. *)
Definition thaw (r : option atree) : option atree := r.

(** [cache] loads everything into memory and keeps the references: no annotation and
    no content changes. *)
Definition cache (r : option atree) : option atree := r.

(** * The backing store [Vec<u8>] *)

(** Records in reverse order, each with its reference (the offset of its 8-byte length
    prefix), and the current length. *)
Record store := mkStore { s_next : N; s_recs : list (N * list N) }.

Definition empty_store : store := mkStore 0 [].

Definition store_raw (st : store) (d : list N) : store * N :=
  (mkStore (s_next st + 8 + lenN d) ((s_next st, d) :: s_recs st), s_next st).

Definition flatten (st : store) : list N :=
  flat_map (fun rd => be64 (lenN (snd rd)) ++ snd rd) (rev (s_recs st)).

Fixpoint assoc_ref (r : N) (l : list (N * list N)) : option (list N) :=
  match l with
  | [] => None
  | (r', d) :: rest => if r =? r' then Some d else assoc_ref r rest
  end.

Definition load_raw (st : store) (r : N) : option (list N) := assoc_ref r (s_recs st).

(** [Loader::load_raw] on the flat bytes: seek, read the BE64 length, slice. *)
Definition read_at (bs : list N) (r : N) : option (list N) :=
  if r <=? lenN bs then
    match dec_uint BE 8 (skipn (N.to_nat r) bs) with
    | Some (n, rest) => match take_n n rest with Some (d, _) => Some d | None => None end
    | None => None
    end
  else None.

(** * Node format *)

Definition INLINE_STEM_LENGTH : N := 63.
Definition INLINE_VALUE_LEN : N := 64.

(** [write_node_path_and_value_tag]: bit 6 = has value; stems of at most 63 nibbles have
    their length in the low 6 bits, longer ones set bit 7 and add a BE32 length. *)
Definition path_tag (n : N) (has_value : bool) : list N :=
  let vm := if has_value then 64 else 0 in
  if n <=? INLINE_STEM_LENGTH then [n + vm] else (128 + vm) :: be32 n.

Definition enc_path (p : list N) (has_value : bool) : list N :=
  path_tag (lenN p) has_value ++ pack p.

(** [read_node_path_and_value_tag] *)
Definition dec_path (bs : list N) : option (list N * bool * list N) :=
  match bs with
  | [] => None
  | tag :: r =>
      let has_value := negb ((tag / 64) mod 2 =? 0) in
      match (if tag <? 128 then Some (tag mod 64, r) else dec_uint BE 4 r) with
      | None => None
      | Some (n, r1) =>
          match take_n ((n + 1) / 2) r1 with
          | None => None
          | Some (pb, r2) => Some (unpack (N.to_nat n) pb, has_value, r2)
          end
      end
  end.

Fixpoint enc_children (f : aforest) (refs : list N) : list N :=
  match f, refs with
  | ACons c _ r, x :: xs => c :: be64 x ++ enc_children r xs
  | _, _ => []
  end.

(** Stored value: what the node record keeps of it. *)
Inductive svalue :=
| SInline (v : value)
| SIndirect (h : list N) (r : N).

Definition enc_svalue (sv : svalue) : list N :=
  match sv with
  | SInline v => lenN v :: v
  | SIndirect h r => 255 :: h ++ be64 r
  end.

Definition dec_svalue (bs : list N) : option (svalue * list N) :=
  match bs with
  | [] => None
  | tag :: r =>
      if tag <=? INLINE_VALUE_LEN then
        match take_n tag r with Some (v, r1) => Some (SInline v, r1) | None => None end
      else
        match take 32 r with
        | None => None
        | Some (h, r1) =>
            match dec_uint BE 8 r1 with
            | Some (x, r2) => Some (SIndirect h x, r2)
            | None => None
            end
        end
  end.

Fixpoint dec_children (n : nat) (bs : list N) : option (list (N * N) * list N) :=
  match n with
  | O => Some ([], bs)
  | S n' =>
      match bs with
      | [] => None
      | c :: r =>
          match dec_uint BE 8 r with
          | None => None
          | Some (x, r1) =>
              match dec_children n' r1 with
              | Some (l, r2) => Some ((c, x) :: l, r2)
              | None => None
              end
          end
      end
  end.

(** The record of a node in the backing store ([Hashed<Node>]): hash, path, value,
    children as (nibble, reference). *)
Record nrec := mkRec { r_hash : list N; r_path : list N; r_value : option svalue; r_children : list (N * N) }.

Definition enc_kids (l : list (N * N)) : list N := flat_map (fun cx => fst cx :: be64 (snd cx)) l.

Definition enc_rec (r : nrec) : list N :=
  r_hash r
  ++ enc_path (r_path r) (match r_value r with Some _ => true | None => false end)
  ++ (match r_value r with Some sv => enc_svalue sv | None => [] end)
  ++ [lenN (r_children r)] ++ enc_kids (r_children r).

(** [Loadable for Hashed<Node>] *)
Definition dec_rec (bs : list N) : option (nrec * list N) :=
  match take 32 bs with
  | None => None
  | Some (h, r0) =>
      match dec_path r0 with
      | None => None
      | Some (p, hv, r1) =>
          match (if hv then match dec_svalue r1 with Some (sv, r2) => Some (Some sv, r2) | None => None end
                 else Some (None, r1)) with
          | None => None
          | Some (ov, r2) =>
              match r2 with
              | [] => None
              | n :: r3 =>
                  match dec_children (N.to_nat n) r3 with
                  | Some (l, r4) => Some (mkRec h p ov l, r4)
                  | None => None
                  end
              end
          end
      end
  end.

Fixpoint labels (f : aforest) : list N :=
  match f with ANil => [] | ACons c _ r => c :: labels r end.

Section WithHash.
Variable sha256 : list N -> list N.

(** ** [store_update] *)

(** Store an indirect value unless it already is in the store. *)
Definition store_value (ov : option aval) (st : store) : store * option aval * option svalue :=
  match ov with
  | None => (st, None, None)
  | Some (x, a) =>
      if lenN x <=? INLINE_VALUE_LEN then (st, ov, Some (SInline x))
      else match a with
           | Some (Some r) => (st, ov, Some (SIndirect (hash_value sha256 x) r))
           | _ => let '(st1, r) := store_raw st x in
                  (st1, Some (x, Some (Some r)), Some (SIndirect (hash_value sha256 x) r))
           end
  end.

(** Children are processed last to first (explicit stack of the implementation), the
    value of a node is stored after its children and before the node itself. *)
Fixpoint store_node (t : atree) (st : store) : store * atree * N :=
  match t with
  | AN o p ov cs =>
      match o with
      | Some (Some r) => (st, t, r)
      | _ =>
          let '(st1, cs', refs) := store_children cs st in
          let '(st2, ov', sv) := store_value ov st1 in
          let body := enc_rec (mkRec (hash_node sha256 (erase t)) p sv (combine (labels cs) refs)) in
          let '(st3, r) := store_raw st2 body in
          (st3, AN (Some (Some r)) p ov' cs', r)
      end
  end
with store_children (f : aforest) (st : store) : store * aforest * list N :=
  match f with
  | ANil => (st, ANil, [])
  | ACons c t r =>
      let '(st1, r', refs) := store_children r st in
      let '(st2, t', x) := store_node t st1 in
      (st2, ACons c t' r', x :: refs)
  end.

(** [PersistentState::store_update]: the root node record, then the top record
    ([0] for the empty state, [1; BE64 reference] otherwise).  A root that is in memory
    stays in memory (only its children and its value are replaced by references).
    Result: new store, new state, reference of the root node (if any), top reference. *)
Definition store_update (r : option atree) (st : store) : store * option atree * option atree * N :=
  match r with
  | None => let '(st1, top) := store_raw st [0] in (st1, None, None, top)
  | Some t =>
      let '(st1, t', x) := store_node t st in
      let '(st2, top) := store_raw st1 (1 :: be64 x) in
      let kept := match t, t' with
                  | AN (Some (Some _)) _ _ _, _ => t
                  | _, AN _ p ov cs => AN (Some None) p ov cs
                  end in
      (st2, Some kept, Some t', top)
  end.

(** ** [migrate]: everything is written to the new store *)
Definition migrate_value (ov : option aval) (st : store) : store * option aval * option svalue :=
  match ov with
  | None => (st, None, None)
  | Some (x, a) =>
      if lenN x <=? INLINE_VALUE_LEN then (st, Some (x, Some None), Some (SInline x))
      else let '(st1, r) := store_raw st x in
           (st1, Some (x, Some (Some r)), Some (SIndirect (hash_value sha256 x) r))
  end.

Fixpoint migrate_node (t : atree) (st : store) : store * atree * N :=
  match t with
  | AN o p ov cs =>
      let '(st1, cs', refs) := migrate_children cs st in
      let '(st2, ov', sv) := migrate_value ov st1 in
      let body := enc_rec (mkRec (hash_node sha256 (erase t)) p sv (combine (labels cs) refs)) in
      let '(st3, r) := store_raw st2 body in
      (st3, AN (Some (Some r)) p ov' cs', r)
  end
with migrate_children (f : aforest) (st : store) : store * aforest * list N :=
  match f with
  | ANil => (st, ANil, [])
  | ACons c t r =>
      let '(st1, r', refs) := migrate_children r st in
      let '(st2, t', x) := migrate_node t st1 in
      (st2, ACons c t' r', x :: refs)
  end.

Definition migrate (r : option atree) (st : store) : store * option atree :=
  match r with
  | None => (st, None)
  | Some t => let '(st1, t', _) := migrate_node t st in (st1, Some t')
  end.

(** ** Loading: follow the references ([Hashed<Node>::load_from_location], values through
    [CachedRef::get]).  Result: the tree below the reference and the hash stored with its
    root.  [fuel] bounds the depth. *)
Fixpoint load_kids_with (ld : N -> option (tree value * list N)) (l : list (N * N)) : option (forest value) :=
  match l with
  | [] => Some FNil
  | (c, x) :: rest =>
      match ld x, load_kids_with ld rest with
      | Some (t, _), Some f => Some (FCons c t f)
      | _, _ => None
      end
  end.

Definition load_value (st : store) (sv : option svalue) : option (option value) :=
  match sv with
  | None => Some None
  | Some (SInline v) => Some (Some v)
  | Some (SIndirect _ x) => match load_raw st x with Some v => Some (Some v) | None => None end
  end.

Fixpoint load_node (fuel : nat) (st : store) (r : N) : option (tree value * list N) :=
  match fuel with
  | O => None
  | S fuel' =>
      match load_raw st r with
      | None => None
      | Some bs =>
          match dec_rec bs with
          | Some (rc, []) =>
              match load_value st (r_value rc), load_kids_with (load_node fuel' st) (r_children rc) with
              | Some ov', Some cs => Some (Node (r_path rc) ov' cs, r_hash rc)
              | _, _ => None
              end
          | _ => None
          end
      end
  end.

(** ** [serialize]: breadth first; every record starts with the distance (in records)
    back to its parent. *)
Fixpoint kids_with (f : forest value) (parent : N) : list (tree value * N) :=
  match f with
  | FNil => []
  | FCons _ t r => (t, parent) :: kids_with r parent
  end.

Fixpoint flabels (f : forest value) : list N :=
  match f with FNil => [] | FCons c _ r => c :: flabels r end.

Definition ser_value (ov : option value) : list N :=
  match ov with
  | None => []
  | Some v => be32 (lenN v) ++ (if lenN v <=? INLINE_VALUE_LEN then [] else hash_value sha256 v) ++ v
  end.

Definition ser_record (back : N) (t : tree value) : list N :=
  match t with
  | Node p ov cs =>
      be32 back ++ hash_node sha256 t
      ++ enc_path p (match ov with Some _ => true | None => false end)
      ++ ser_value ov ++ [N.of_nat (flen cs)] ++ flabels cs
  end.

Fixpoint ser_loop (fuel : nat) (queue : list (tree value * N)) (counter : N) : list N :=
  match fuel with
  | O => []
  | S fuel' =>
      match queue with
      | [] => []
      | (t, idx) :: q =>
          ser_record (counter - idx) t
          ++ ser_loop fuel' (q ++ kids_with (match t with Node _ _ cs => cs end) counter) (counter + 1)
      end
  end.

Fixpoint tsize (t : tree value) : nat :=
  match t with Node _ _ cs => S (fsize cs) end
with fsize (f : forest value) : nat :=
  match f with FNil => O | FCons _ t r => (tsize t + fsize r)%nat end.

Definition serialize (r : option (tree value)) : list N :=
  match r with
  | None => [0]
  | Some t => 1 :: ser_loop (S (tsize t)) [(t, 0)] 0
  end.

End WithHash.

(** ** [deserialize] *)

(** One record: distance to the parent, stored hash, path, value (with the stored hash of
    a long value), the labels of the children. *)
Record drec := mkD { d_back : N; d_hash : list N; d_path : list N;
                     d_value : option (value * option (list N)); d_labels : list N }.

Definition dec_ser_value (bs : list N) : option (value * option (list N) * list N) :=
  match dec_uint BE 4 bs with
  | None => None
  | Some (n, r) =>
      if n <=? INLINE_VALUE_LEN then
        match take_n n r with Some (v, r1) => Some (v, None, r1) | None => None end
      else
        match take 32 r with
        | None => None
        | Some (h, r1) => match take_n n r1 with Some (v, r2) => Some (v, Some h, r2) | None => None end
        end
  end.

Definition dec_ser_record (bs : list N) : option (drec * list N) :=
  match dec_uint BE 4 bs with
  | None => None
  | Some (back, r0) =>
      match take 32 r0 with
      | None => None
      | Some (h, r1) =>
          match dec_path r1 with
          | None => None
          | Some (p, hv, r2) =>
              match (if hv then match dec_ser_value r2 with
                                | Some (v, vh, r3) => Some (Some (v, vh), r3)
                                | None => None end
                     else Some (None, r2)) with
              | None => None
              | Some (ov, r3) =>
                  match r3 with
                  | [] => None
                  | n :: r4 =>
                      match take_n n r4 with
                      | Some (ls, r5) => Some (mkD back h p ov ls, r5)
                      | None => None
                      end
                  end
              end
          end
      end
  end.

(** Read records as long as labels are waiting in the [todo] queue (the root is announced
    by a dummy label).  Every record is stored with the label it was announced with and
    the index of its parent. *)
Fixpoint deser_loop (fuel : nat) (todo : list N) (count : nat) (bs : list N)
  : option (list (N * nat * drec) * list N) :=
  match todo with
  | [] => Some ([], bs)
  | key :: todo' =>
      match fuel with
      | O => None
      | S fuel' =>
          match dec_ser_record bs with
          | None => None
          | Some (d, r) =>
              match deser_loop fuel' (todo' ++ d_labels d) (S count) r with
              | Some (l, r') => Some ((key, (count - N.to_nat (d_back d))%nat, d) :: l, r')
              | None => None
              end
          end
      end
  end.

(** Reassembly.  [Hashed<Node>::deserialize] pushes every record, as it is read, to the
    children of the record [d_back] places before it; so the children of record [i] are the
    later records whose parent is [i], in reading order.  Functionally: go through the
    records from the last to the first, keeping for every index the children collected so
    far ([pending]); when record [start] is reached all its children have been collected.
    A record that names itself as parent (the root: distance 0) is attached nowhere. *)
Fixpoint rebuild (start : nat) (recs : list (N * nat * drec)) : nat -> forest value :=
  match recs with
  | [] => fun _ => FNil
  | (key, parent, d) :: rest =>
      let pending := rebuild (S start) rest in
      let node := Node (d_path d) (option_map fst (d_value d)) (pending start) in
      if Nat.eqb parent start then pending
      else fun i => if Nat.eqb i parent then FCons key node (pending i) else pending i
  end.

(** Result: the tree and the hash stored with the root ([PersistentState::deserialize]). *)
Definition deserialize (bs : list N) : option (option (tree value * list N) * list N) :=
  match bs with
  | 0 :: r => Some (None, r)
  | 1 :: r =>
      match deser_loop (S (length r)) [0] O r with
      | Some ((_, _, d0) :: rest, r') =>
          Some (Some (Node (d_path d0) (option_map fst (d_value d0)) (rebuild 1 rest O), d_hash d0), r')
      | _ => None
      end
  | _ => None
  end.

(** * The state machine of the correspondence run *)

Inductive cop :=
| CInsert (k : list N) (v : value)
| CDelete (k : list N)
| CDelPrefix (k : list N)
| CGet (k : list N)
| CMut (k : list N) (v : value)
| CIter (k : list N)
| CNewGen
| CNormalize (r : nat)
| CFreeze
| CStore
| CLoad
| CCache
| CSerial
| CMigrate.

Inductive cout :=
| XBool (b : bool)
| XVal (v : option value)
| XCount (n : nat)
| XGens (n : nat)
| XFrozen (root : option (tree value)) (charge : N)
| XStored (root_ref : option N) (top : N) (st : store)
| XCached
| XSerial (bs : list N)
| XMigrated (root_ref : option N) (st : store).

Record cstate := mkC { c_store : store; c_pers : option atree; c_mut : option (list (option atree)) }.

Definition c_init : cstate := mkC empty_store None None.

Definition cur_root (s : cstate) : option atree :=
  match c_mut s with
  | Some (r :: _) => r
  | _ => c_pers s
  end.

Definition gens (s : cstate) : list (option atree) :=
  match c_mut s with
  | Some g => match g with [] => [c_pers s] | _ => g end
  | None => [thaw (c_pers s)]
  end.

Definition set_cur (s : cstate) (r : option atree) : cstate :=
  match gens s with
  | _ :: rest => mkC (c_store s) (c_pers s) (Some (r :: rest))
  | [] => mkC (c_store s) (c_pers s) (Some [r])
  end.

Definition root_ref (r : option atree) : option N :=
  match r with
  | Some (AN (Some (Some x)) _ _ _) => Some x
  | _ => None
  end.

Fixpoint strip (t : atree) : atree :=
  match t with
  | AN _ p ov cs => AN (Some None) p (match ov with Some (v, _) => Some (v, Some None) | None => None end) (strip_f cs)
  end
with strip_f (f : aforest) : aforest :=
  match f with
  | ANil => ANil
  | ACons c t r => ACons c (strip t) (strip_f r)
  end.

Section Machine.
Variable sha256 : list N -> list N.

(** Freeze the current generation (if a mutable trie exists); returns the charge. *)
Definition do_freeze (s : cstate) : cstate * N :=
  let '(r, n) := freeze_root (cur_root s) in
  (mkC (c_store s) r None, n).

Definition settle (s : cstate) : cstate :=
  match c_mut s with
  | None => s
  | Some _ => fst (do_freeze s)
  end.

Definition c_step (o : cop) (s : cstate) : cstate * cout :=
  match o with
  | CInsert k v =>
      let r := cur_root s in
      let existed := match lookup_root (nib k) (erase_root r) with Some _ => true | None => false end in
      (set_cur s (Some (a_insert_root (nib k) v r)), XBool existed)
  | CDelete k =>
      match cur_root s with
      | None => (set_cur s None, XBool false)
      | Some t =>
          let existed := match lookup (nib k) (erase t) with Some _ => true | None => false end in
          (set_cur s (a_delete (nib k) t), XBool existed)
      end
  | CDelPrefix k =>
      match cur_root s with
      | None => (set_cur s None, XBool false)
      | Some t => (set_cur s (a_delete_prefix (nib k) t), XBool (has_prefix (nib k) (erase t)))
      end
  | CGet k => (set_cur s (cur_root s), XVal (lookup_root (nib k) (erase_root (cur_root s))))
  | CMut k v =>
      match cur_root s with
      | None => (set_cur s None, XVal None)
      | Some t => (set_cur s (Some (a_setval (nib k) v t)), XVal (lookup (nib k) (erase t)))
      end
  | CIter k =>
      (set_cur s (cur_root s), XCount (length (iterate_root (nib k) (erase_root (cur_root s)))))
  | CNewGen =>
      let g := gens s in
      let g' := match g with [] => g | r :: _ => r :: g end in
      (mkC (c_store s) (c_pers s) (Some g'), XGens (length g'))
  | CNormalize r =>
      let g := gens s in
      let g' := skipn (length g - S r) g in
      (mkC (c_store s) (c_pers s) (Some g'), XGens (length g'))
  | CFreeze =>
      let '(s', n) := do_freeze s in (s', XFrozen (erase_root (c_pers s')) n)
  | CStore =>
      let s0 := settle s in
      let '(st, kept, _, top) := store_update sha256 (c_pers s0) (c_store s0) in
      (mkC st kept None, XStored (root_ref kept) top st)
  | CLoad =>
      let s0 := settle s in
      let '(st, _, loaded, top) := store_update sha256 (c_pers s0) (c_store s0) in
      (mkC st loaded None, XStored (root_ref loaded) top st)
  | CCache => let s0 := settle s in (mkC (c_store s0) (cache (c_pers s0)) None, XCached)
  | CSerial =>
      let s0 := settle s in
      (mkC (c_store s0) (option_map strip (c_pers s0)) None,
       XSerial (serialize sha256 (erase_root (c_pers s0))))
  | CMigrate =>
      let s0 := settle s in
      let '(st, r) := migrate sha256 (c_pers s0) empty_store in
      (mkC st r None, XMigrated (root_ref r) st)
  end.

End Machine.
