(** A well-formed radix tree (children strictly sorted, no value-less node with fewer
    than two children) is determined by its contents: [canonical_unique].  The stem of
    a well-formed node is the longest common prefix of the keys below it. *)
From Coq Require Import NArith PeanoNat List Bool Lia Sorted.
From CB Require Import Trie.Radix.
From CB Require Import Trie.RadixProofs.
From CB Require Import Trie.Canon.
Import ListNotations.
Local Open Scope N_scope.

(** * Longest common prefix *)

Lemma lcp_app p a b : lcp (p ++ a) (p ++ b) = p ++ lcp a b.
Proof. induction p as [|x p IH]; cbn; [reflexivity|]. rewrite N.eqb_refl, IH. reflexivity. Qed.

Lemma lcp_prefix_l a b : is_prefix (lcp a b) a = true.
Proof.
  revert b. induction a as [|x a IH]; intros [|y b]; cbn; try reflexivity.
  destruct (N.eqb_spec x y); cbn; [rewrite N.eqb_refl; apply IH | reflexivity].
Qed.

Lemma lcp_prefix_r a b : is_prefix (lcp a b) b = true.
Proof.
  revert b. induction a as [|x a IH]; intros [|y b]; cbn; try reflexivity.
  destruct (N.eqb_spec x y); cbn; [subst; rewrite N.eqb_refl; apply IH | reflexivity].
Qed.

Lemma fold_lcp_app p r : forall k, fold_left lcp (map (app p) r) (p ++ k) = p ++ fold_left lcp r k.
Proof. induction r as [|y r IH]; intros k; cbn [map fold_left]; [reflexivity|]. rewrite lcp_app. apply IH. Qed.

Lemma fold_lcp_prefix_init r : forall k, is_prefix (fold_left lcp r k) k = true.
Proof.
  induction r as [|y r IH]; intros k; cbn [fold_left]; [apply is_prefix_refl|].
  eapply is_prefix_trans; [apply IH | apply lcp_prefix_l].
Qed.

Lemma fold_lcp_prefix_in r : forall k x, In x r -> is_prefix (fold_left lcp r k) x = true.
Proof.
  induction r as [|y r IH]; intros k x Hin; [destruct Hin|]. cbn [fold_left]. destruct Hin as [->|Hin].
  - eapply is_prefix_trans; [apply fold_lcp_prefix_init | apply lcp_prefix_r].
  - apply IH. assumption.
Qed.

Lemma is_prefix_nil_r r : is_prefix r [] = true -> r = [].
Proof. destruct r; [reflexivity | discriminate]. Qed.

Lemma prefix_two_heads r c1 a c2 b :
  is_prefix r (c1 :: a) = true -> is_prefix r (c2 :: b) = true -> c1 <> c2 -> r = [].
Proof.
  destruct r as [|x r]; [reflexivity|]. cbn. intros H1 H2 Hne.
  apply andb_true_iff in H1 as [H1 _]. apply andb_true_iff in H2 as [H2 _].
  apply N.eqb_eq in H1, H2. congruence.
Qed.

(** * Generic list facts *)

Lemma app_split_pred {A} (P : A -> bool) l1 : forall l2 m1 m2,
  (forall x, In x l1 -> P x = true) -> (forall x, In x l2 -> P x = true) ->
  (forall x, In x m1 -> P x = false) -> (forall x, In x m2 -> P x = false) ->
  l1 ++ m1 = l2 ++ m2 -> l1 = l2 /\ m1 = m2.
Proof.
  induction l1 as [|a l1 IH]; intros [|b l2] m1 m2 H1 H2 H3 H4 E; cbn in E.
  - auto.
  - subst m1. specialize (H2 b (or_introl eq_refl)). specialize (H3 b (or_introl eq_refl)). congruence.
  - subst m2. specialize (H1 a (or_introl eq_refl)). specialize (H4 a (or_introl eq_refl)). congruence.
  - injection E as -> E'.
    destruct (IH l2 m1 m2 (fun x h => H1 x (or_intror h)) (fun x h => H2 x (or_intror h)) H3 H4 E') as [-> ->].
    auto.
Qed.

Section Unique.
Context {V : Type}.
Implicit Types (t : tree V) (f : forest V).

Lemma map_fst_pre p (l : list (list N * V)) : map fst (map (pre p) l) = map (app p) (map fst l).
Proof. rewrite !map_map. reflexivity. Qed.

Lemma map_pre_inj p (l1 l2 : list (list N * V)) : map (pre p) l1 = map (pre p) l2 -> l1 = l2.
Proof.
  revert l2. induction l1 as [|[k1 v1] l1 IH]; intros [|[k2 v2] l2] E; cbn in E; try discriminate; [reflexivity|].
  injection E as Ek Ev E. apply app_inv_head in Ek. subst. f_equal. apply IH. assumption.
Qed.

Lemma to_list_cons t : wfb t = true -> exists kv l, to_list t = kv :: l.
Proof.
  intros H. pose proof (proj1 to_list_nonempty_mut t H) as Hn.
  destruct (to_list t) as [|kv l]; [discriminate | eauto].
Qed.

(** The stem of a well-formed node is the longest common prefix of its keys. *)
Lemma lcp_keys_node p (ov : option V) cs :
  wfb (Node p ov cs) = true -> lcp_keys (map fst (to_list (Node p ov cs))) = p.
Proof.
  intros Hwf. pose proof (wfb_node _ _ _ Hwf) as (Hwc & Hs & Hlen).
  rewrite to_list_eq, map_fst_pre.
  assert (E : exists k0 rest,
             map fst ((match ov with Some v => [([], v)] | None => [] end) ++ to_list_f cs) = k0 :: rest
             /\ fold_left lcp rest k0 = []).
  { destruct ov as [v|].
    - exists [], (map fst (to_list_f cs)). split; [reflexivity|].
      apply is_prefix_nil_r. apply fold_lcp_prefix_init.
    - specialize (Hlen eq_refl).
      destruct cs as [|c1 t1 [|c2 t2 r]]; cbn [flen] in Hlen; try lia.
      rewrite !wfb_f_cons in Hwc. apply andb_true_iff in Hwc as [Hw1 Hwc]. apply andb_true_iff in Hwc as [Hw2 _].
      rewrite sorted_f_cons, all_gt_cons in Hs. apply andb_true_iff in Hs as [Hs _].
      apply andb_true_iff in Hs as [Hlt _]. apply N.ltb_lt in Hlt.
      destruct (to_list_cons t1 Hw1) as (kv1 & l1 & E1). destruct (to_list_cons t2 Hw2) as (kv2 & l2 & E2).
      cbn [app]. rewrite !to_list_f_cons, E1, E2.
      exists (c1 :: fst kv1),
        (map fst (map (pre [c1]) l1 ++ map (pre [c2]) (kv2 :: l2) ++ to_list_f r)).
      split; [reflexivity|].
      apply (prefix_two_heads _ c1 (fst kv1) c2 (fst kv2)).
      + apply fold_lcp_prefix_init.
      + apply fold_lcp_prefix_in. rewrite map_app. apply in_or_app. right. left. reflexivity.
      + lia. }
  destruct E as (k0 & rest & E & Hf). rewrite E. cbn [map lcp_keys]. rewrite fold_lcp_app, Hf. apply app_nil_r.
Qed.

Definition headb (c : N) (kv : list N * V) : bool :=
  match fst kv with x :: _ => x =? c | [] => false end.

Lemma headb_pre c (l : list (list N * V)) x : In x (map (pre [c]) l) -> headb c x = true.
Proof. intros H. apply in_map_iff in H as [y [<- _]]. unfold headb, pre. cbn. apply N.eqb_refl. Qed.

Lemma headb_gt c f x : all_gt c f = true -> In x (to_list_f f) -> headb c x = false.
Proof.
  intros Hgt Hin. destruct (to_list_f_heads_gt c f x Hgt Hin) as (c' & r & E & Hlt).
  unfold headb. rewrite E. apply N.eqb_neq. lia.
Qed.

Lemma canonical_unique_mut :
  (forall t1, wfb t1 = true -> forall t2, wfb t2 = true -> to_list t1 = to_list t2 -> t1 = t2)
  /\ (forall f1, wfb_f f1 = true -> sorted_f f1 = true ->
      forall f2, wfb_f f2 = true -> sorted_f f2 = true -> to_list_f f1 = to_list_f f2 -> f1 = f2).
Proof.
  apply tree_forest_ind.
  - intros p1 ov1 cs1 IHf Hw1 [p2 ov2 cs2] Hw2 E.
    assert (Hp : p1 = p2).
    { transitivity (lcp_keys (map fst (to_list (Node p1 ov1 cs1)))).
      - symmetry. apply lcp_keys_node. assumption.
      - rewrite E. apply lcp_keys_node. assumption. }
    subst p2. rewrite !to_list_eq in E. apply map_pre_inj in E.
    apply wfb_node in Hw1 as (Hwc1 & Hs1 & _). apply wfb_node in Hw2 as (Hwc2 & Hs2 & _).
    assert (X : ov1 = ov2 /\ to_list_f cs1 = to_list_f cs2).
    { destruct ov1 as [v1|], ov2 as [v2|]; cbn [app] in E.
      - injection E as -> E. auto.
      - exfalso. assert (Hin : In ([], v1) (to_list_f cs2)) by (rewrite <- E; left; reflexivity).
        apply to_list_f_heads in Hin as (c & r & Hc). discriminate.
      - exfalso. assert (Hin : In ([], v2) (to_list_f cs1)) by (rewrite E; left; reflexivity).
        apply to_list_f_heads in Hin as (c & r & Hc). discriminate.
      - auto. }
    destruct X as [-> Ef]. f_equal. apply IHf; assumption.
  - intros _ _ [|c t r] Hw2 Hs2 E; [reflexivity|]. exfalso.
    rewrite wfb_f_cons in Hw2. apply andb_true_iff in Hw2 as [Hwt _].
    destruct (to_list_cons t Hwt) as (kv & l & Et). rewrite to_list_f_cons, Et in E. discriminate.
  - intros c1 t1 IHt r1 IHr Hw1 Hs1 [|c2 t2 r2] Hw2 Hs2 E.
    + exfalso. rewrite wfb_f_cons in Hw1. apply andb_true_iff in Hw1 as [Hwt _].
      destruct (to_list_cons t1 Hwt) as (kv & l & Et). rewrite to_list_f_cons, Et in E. discriminate.
    + rewrite wfb_f_cons in Hw1, Hw2. apply andb_true_iff in Hw1 as [Hwt1 Hwr1].
      apply andb_true_iff in Hw2 as [Hwt2 Hwr2].
      rewrite sorted_f_cons in Hs1, Hs2. apply andb_true_iff in Hs1 as [Hgt1 Hsr1].
      apply andb_true_iff in Hs2 as [Hgt2 Hsr2].
      rewrite !to_list_f_cons in E.
      assert (Hc : c1 = c2).
      { destruct (to_list_cons t1 Hwt1) as (kv1 & l1 & E1). destruct (to_list_cons t2 Hwt2) as (kv2 & l2 & E2).
        rewrite E1, E2 in E. cbn in E. injection E as Hc _ _. exact Hc. }
      subst c2.
      destruct (app_split_pred (headb c1) _ _ _ _
                  (headb_pre c1 (to_list t1)) (headb_pre c1 (to_list t2))
                  (fun x => headb_gt c1 r1 x Hgt1) (fun x => headb_gt c1 r2 x Hgt2) E) as [Et Er].
      apply map_pre_inj in Et. f_equal; [apply IHt | apply IHr]; assumption.
Qed.

Theorem canonical_unique_tree t1 t2 :
  wfb t1 = true -> wfb t2 = true -> to_list t1 = to_list t2 -> t1 = t2.
Proof. intros H1 H2. apply (proj1 canonical_unique_mut); assumption. Qed.

Theorem canonical_unique_root (r1 r2 : option (tree V)) :
  wfb_root r1 = true -> wfb_root r2 = true -> to_list_root r1 = to_list_root r2 -> r1 = r2.
Proof.
  destruct r1 as [t1|], r2 as [t2|]; cbn [wfb_root to_list_root]; intros H1 H2 E.
  - f_equal. apply canonical_unique_tree; assumption.
  - destruct (to_list_cons t1 H1) as (kv & l & Et). rewrite Et in E. discriminate.
  - destruct (to_list_cons t2 H2) as (kv & l & Et). rewrite Et in E. discriminate.
  - reflexivity.
Qed.

(** Equal contents as finite maps (equal lookup functions) suffice. *)
Theorem canonical_unique_lookup (r1 r2 : option (tree V)) :
  wfb_root r1 = true -> wfb_root r2 = true -> same_contents r1 r2 -> r1 = r2.
Proof.
  intros H1 H2 Hs. apply canonical_unique_root; try assumption.
  apply ksorted_ext; try (apply ksorted_to_list_root; assumption).
  intros k. rewrite !a_lookup_to_list_root by assumption. apply Hs.
Qed.

(** [canon] rebuilds a well-formed tree from its contents, whatever the order of the
    entries (any permutation [m] of the contents with distinct keys). *)
Lemma wfb_canon_from (m : list (list N * V)) : forall r, wfb_root r = true ->
  wfb_root (fold_left (fun r kv => Some (insert_root (fst kv) (snd kv) r)) m r) = true.
Proof.
  induction m as [|[k v] m IH]; intros r Hr; cbn [fold_left]; [assumption|].
  apply IH. cbn [wfb_root fst snd]. apply wfb_insert_root. assumption.
Qed.

Lemma wfb_canon (m : list (list N * V)) : wfb_root (canon m) = true.
Proof. apply wfb_canon_from. reflexivity. Qed.

End Unique.
