(** Lemmas about [InstLimits.v]: decode after encode, injectivity, sentinels, uniqueness of the ids of a
    generation, refusal at the limits, and exactly what happens at the overflow boundaries. *)
From Coq Require Import NArith PeanoNat List Bool Lia.
From CB Require Import Gen.HostCosts Trie.InstLimits.
Import ListNotations.
Local Open Scope N_scope.

Lemma P32_pow : P32 = 2 ^ 32. Proof. reflexivity. Qed.

Lemma testbit_small_high j n : j < P32 -> 32 <= n -> N.testbit j n = false.
Proof.
  intros Hj Hn. rewrite <- (N.mod_small j P32 Hj), P32_pow. apply N.mod_pow2_bits_high. exact Hn.
Qed.

Lemma land_shiftl_small a j : j < P32 -> N.land (N.shiftl a 32) j = 0.
Proof.
  intros Hj. apply N.bits_inj. intros n. rewrite N.land_spec, N.bits_0.
  destruct (N.lt_ge_cases n 32) as [H|H].
  - rewrite N.shiftl_spec_low by exact H. reflexivity.
  - rewrite (testbit_small_high j n Hj H). apply andb_false_r.
Qed.

(** below 2^32 the index does not touch the generation bits: the handle is [gen * 2^32 + idx] *)
Lemma h_enc_add gen idx : idx < P32 -> h_enc gen idx = gen * P32 + idx.
Proof.
  intros H. unfold h_enc. rewrite <- N.lxor_lor by (apply land_shiftl_small; exact H).
  rewrite <- N.add_nocarry_lxor by (apply land_shiftl_small; exact H).
  rewrite N.shiftl_mul_pow2. reflexivity.
Qed.

Lemma h_split_enc gen idx : gen < P32 -> idx < P32 -> h_split (h_enc gen idx) = (gen, idx).
Proof.
  intros Hg Hi. unfold h_split. rewrite (h_enc_add gen idx Hi).
  change 4294967295 with (N.ones 32). rewrite N.land_ones, N.shiftr_div_pow2, <- P32_pow.
  assert (P32 <> 0) by discriminate.
  rewrite N.div_add_l, N.div_small, N.add_0_r by assumption.
  rewrite N.mod_small by exact Hg.
  rewrite N.add_comm, N.mod_add, N.mod_small by assumption. reflexivity.
Qed.

Lemma h_enc_injective g1 i1 g2 i2 :
  g1 < P32 -> i1 < P32 -> g2 < P32 -> i2 < P32 -> h_enc g1 i1 = h_enc g2 i2 -> g1 = g2 /\ i1 = i2.
Proof.
  intros A B C D E. apply (f_equal h_split) in E. rewrite !h_split_enc in E by assumption.
  inversion E. auto.
Qed.

(** The sentinels are the handles (0xffffffff, 0xffffffff) and (0xbfffffff, 0xffffffff). *)
Lemma H_NONE_is : H_NONE = h_enc 4294967295 4294967295. Proof. reflexivity. Qed.
Lemma H_ERR_is : H_ERR = h_enc 3221225471 4294967295. Proof. reflexivity. Qed.

Lemma h_enc_ne_sentinels gen idx :
  gen < P32 -> idx < P32 - 1 -> h_enc gen idx <> H_NONE /\ h_enc gen idx <> H_ERR.
Proof.
  intros Hg Hi. assert (Hi' : idx < P32) by (unfold P32 in *; lia).
  split; intros E; [rewrite H_NONE_is in E | rewrite H_ERR_is in E];
    apply h_enc_injective in E; try assumption; try reflexivity; unfold P32 in *; lia.
Qed.

(** The only generations in which an id can collide with a sentinel (index 2^32 - 1). *)
Lemma sentinel_collisions :
  h_enc 4294967295 4294967295 = H_NONE /\ h_enc 3221225471 4294967295 = H_ERR.
Proof. split; reflexivity. Qed.

(** Index overflow: the 2^32 + j-th id of a generation sets bit 32, i.e. the lowest generation bit. *)
Lemma h_enc_index_overflow gen j :
  j < P32 -> h_enc gen (P32 + j) = h_enc (N.lor gen 1) j.
Proof.
  intros Hj. unfold h_enc.
  assert (E : P32 + j = N.lor (N.shiftl 1 32) j).
  { rewrite <- N.lxor_lor by (apply land_shiftl_small; exact Hj).
    rewrite <- N.add_nocarry_lxor by (apply land_shiftl_small; exact Hj). reflexivity. }
  rewrite E, N.lor_assoc, <- N.shiftl_lor. reflexivity.
Qed.

(** ... so in an ODD generation it is a duplicate of the id of entry [j] of the same generation, in an
    EVEN generation it reads as an id of the next generation (answered as stale). *)
Lemma h_enc_index_overflow_odd gen j :
  j < P32 -> N.odd gen = true -> h_enc gen (P32 + j) = h_enc gen j.
Proof.
  intros Hj Ho. rewrite h_enc_index_overflow by exact Hj. f_equal.
  apply N.bits_inj. intros n. rewrite N.lor_spec.
  destruct (N.eq_dec n 0) as [->|Hn].
  - rewrite N.bit0_odd, Ho. reflexivity.
  - replace (N.testbit 1 n) with false; [apply orb_false_r|].
    symmetry. change 1 with (2 ^ 0). apply N.pow2_bits_false. lia.
Qed.

Lemma h_enc_index_overflow_even gen j :
  j < P32 -> N.even gen = true -> h_enc gen (P32 + j) = h_enc (gen + 1) j.
Proof.
  intros Hj He. rewrite h_enc_index_overflow by exact Hj. f_equal.
  apply N.even_spec in He as [m ->]. rewrite N.add_nocarry_lxor, N.lxor_lor; auto.
  all: apply N.bits_inj; intros n; rewrite N.land_spec, N.bits_0;
    destruct (N.eq_dec n 0) as [->|Hn];
    [ rewrite N.testbit_even_0; reflexivity
    | replace (N.testbit 1 n) with false; [apply andb_false_r|];
      symmetry; change 1 with (2 ^ 0); apply N.pow2_bits_false; lia ].
Qed.

(** * The id counters *)
Definition CInv (c : ctr) : Prop :=
  c_gen c < P32
  /\ c_eids c = map (fun i => h_enc (c_gen c) (N.of_nat i)) (rev (seq 0 (N.to_nat (c_ents c))))
  /\ c_iids c = map (fun i => h_enc (c_gen c) (N.of_nat i)) (rev (seq 0 (N.to_nat (c_its c)))).

Lemma CInv0 : CInv ctr0.
Proof. repeat split. Qed.

Lemma seq_rev_succ n : rev (seq 0 (S n)) = n :: rev (seq 0 n).
Proof. rewrite seq_S, rev_app_distr. reflexivity. Qed.

Lemma c_step_inv checked o c c' out : CInv c -> c_step checked o c = Some (c', out) -> CInv c'.
Proof.
  intros (Hg & He & Hi) H. destruct o as [| |[|]]; cbn [c_step] in H.
  - inversion H; subst; clear H. repeat split; cbn [c_gen c_ents c_its c_eids c_iids]; auto.
    rewrite N.add_1_r, N2Nat.inj_succ, seq_rev_succ. cbn [map]. rewrite N2Nat.id, He. reflexivity.
  - inversion H; subst; clear H. repeat split; cbn [c_gen c_ents c_its c_eids c_iids]; auto.
    rewrite N.add_1_r, N2Nat.inj_succ, seq_rev_succ. cbn [map]. rewrite N2Nat.id, Hi. reflexivity.
  - unfold gen_next in H. destruct (N.eqb_spec (c_gen c) U32MAXv) as [E|E].
    + destruct checked; [discriminate|]. inversion H; subst. split; [reflexivity | split; reflexivity].
    + inversion H; subst. split; [|split; reflexivity]. cbn [c_gen]. unfold U32MAXv, P32 in *. lia.
  - inversion H; subst. repeat split; auto.
Qed.

Lemma c_run_inv checked ops : forall c c', CInv c -> c_run checked ops c = Some c' -> CInv c'.
Proof.
  induction ops as [|o ops IH]; intros c c' Hc H; cbn [c_run] in H; [inversion H; subst; exact Hc|].
  destruct (c_step checked o c) as [[c1 out]|] eqn:E; [|discriminate].
  eapply IH; [eapply c_step_inv; eauto | exact H].
Qed.

Lemma NoDup_map_inj {A B} (f : A -> B) (l : list A) :
  (forall x y, In x l -> In y l -> f x = f y -> x = y) -> NoDup l -> NoDup (map f l).
Proof.
  induction l as [|a l IH]; intros Hinj Hnd; cbn; [constructor|]. inversion Hnd; subst. constructor.
  - intros Hin. apply in_map_iff in Hin as (y & Hy & Hyl).
    assert (y = a) by (apply Hinj; [right; exact Hyl | left; reflexivity | exact Hy]). subst. contradiction.
  - apply IH; auto. intros x y Hx Hy. apply Hinj; right; assumption.
Qed.

Lemma ids_nodup gen n :
  gen < P32 -> n <= P32 -> NoDup (map (fun i => h_enc gen (N.of_nat i)) (rev (seq 0 (N.to_nat n)))).
Proof.
  intros Hg Hn. apply NoDup_map_inj.
  - intros x y Hx Hy E. apply in_rev, in_seq in Hx. apply in_rev, in_seq in Hy.
    apply h_enc_injective in E; try assumption; try (unfold P32 in *; lia).
    all: try (destruct E as [_ E]; apply Nat2N.inj; exact E).
  - apply NoDup_rev, seq_NoDup.
Qed.

(** In every state reached by any history of successful lookups / creations / iterator creations and
    interrupts (in both build flavours), as long as a table holds at most 2^32 ids the ids handed out in
    the current generation are pairwise distinct, decode to (current generation, position) and are no
    sentinel (below 2^32 - 1 ids). *)
Theorem ids_unique_below_limit checked ops c :
  c_run checked ops ctr0 = Some c ->
  (c_ents c <= P32 -> NoDup (c_eids c)) /\ (c_its c <= P32 -> NoDup (c_iids c))
  /\ (c_ents c <= P32 -> forall h, In h (c_eids c) ->
        exists i, i < c_ents c /\ h = h_enc (c_gen c) i /\ h_split h = (c_gen c, i))
  /\ (c_ents c <= P32 - 1 -> forall h, In h (c_eids c) -> h <> H_NONE /\ h <> H_ERR).
Proof.
  intros H. destruct (c_run_inv checked ops ctr0 c CInv0 H) as (Hg & He & Hi).
  split; [intros Hn; rewrite He; apply ids_nodup; assumption|].
  split; [intros Hn; rewrite Hi; apply ids_nodup; assumption|].
  assert (Hdec : forall h, In h (c_eids c) -> exists i, i < c_ents c /\ h = h_enc (c_gen c) i).
  { intros h Hh. rewrite He in Hh. apply in_map_iff in Hh as (i & <- & Hin). apply in_rev, in_seq in Hin.
    exists (N.of_nat i). split; [lia | reflexivity]. }
  split.
  - intros Hn h Hh. destruct (Hdec h Hh) as (i & Hi1 & ->). exists i. repeat split; auto.
    apply h_split_enc; [exact Hg | unfold P32 in *; lia].
  - intros Hn h Hh. destruct (Hdec h Hh) as (i & Hi1 & ->). apply h_enc_ne_sentinels; [exact Hg | lia].
Qed.

(** At the index boundary the code hands out a duplicate: after 2^32 + j + 1 successful lookups in an
    odd generation the newest id equals the id handed out for entry [j]. *)
Theorem index_overflow_duplicates gen j eids iids :
  j < P32 -> N.odd gen = true ->
  exists h, c_step false KEntry (mkCtr gen (P32 + j) 0 eids iids)
            = Some (mkCtr gen (P32 + j + 1) 0 (h :: eids) iids, Some h)
            /\ h = h_enc gen j.
Proof.
  intros Hj Ho. eexists. split; [reflexivity|]. apply h_enc_index_overflow_odd; assumption.
Qed.

(** Generation counter: checked builds stop (panic) at u32::MAX; wrapping builds restart at 0, so ids of
    the first generation are accepted again. *)
Theorem gen_checked_panics c : c_gen c = U32MAXv -> c_step true (KMigrate true) c = None.
Proof. intros E. cbn. unfold gen_next. rewrite E. reflexivity. Qed.

Theorem gen_wrap_revives_handle c idx :
  c_gen c = U32MAXv -> idx < P32 ->
  exists c', c_step false (KMigrate true) c = Some (c', None) /\ c_gen c' = c_gen ctr0
             /\ h_split (h_enc (c_gen ctr0) idx) = (c_gen c', idx).
Proof.
  intros E Hi. eexists. cbn [c_step]. unfold gen_next. rewrite E. cbn [N.eqb Pos.eqb U32MAXv].
  split; [reflexivity|]. split; [reflexivity|]. cbn [c_gen ctr0]. apply h_split_enc; [reflexivity | exact Hi].
Qed.

(** * Size limits *)
Lemma MAX_ENTRY_SIZE_val : MAX_ENTRY_SIZE = 1073741824. Proof. reflexivity. Qed.
Lemma MAX_KEY_SIZE_val : MAX_KEY_SIZE = 1073741824. Proof. reflexivity. Qed.

Lemma create_guard_refuses changed key_len :
  MAX_KEY_SIZE < key_len -> create_entry_guard changed key_len = (true, false).
Proof. intros H. unfold create_entry_guard. f_equal. apply N.leb_gt. exact H. Qed.

Lemma create_guard_accepts changed key_len :
  key_len <= MAX_KEY_SIZE -> create_entry_guard changed key_len = (true, true).
Proof. intros H. unfold create_entry_guard. f_equal. apply N.leb_le. exact H. Qed.

Lemma resize_refused vlen n : MAX_ENTRY_SIZE < n -> resize_len vlen n = (0, vlen).
Proof. intros H. unfold resize_len. apply N.ltb_lt in H. rewrite H. reflexivity. Qed.

Lemma resize_bounded vlen n :
  vlen <= MAX_ENTRY_SIZE -> snd (resize_len vlen n) <= MAX_ENTRY_SIZE.
Proof. intros H. unfold resize_len. destruct (N.ltb_spec MAX_ENTRY_SIZE n); cbn [snd]; lia. Qed.

Lemma write_bounded vlen off len w v' :
  vlen <= MAX_ENTRY_SIZE -> write_len vlen off len = Some (w, v') ->
  v' <= MAX_ENTRY_SIZE /\ w <= len /\ vlen <= v' /\ (off <= vlen -> off + w <= v').
Proof.
  intros Hv H. unfold write_len in H. rewrite MAX_ENTRY_SIZE_val in *.
  destruct (N.leb_spec off vlen) as [Ho|Ho].
  - destruct (N.leb_spec P64 (off + len)); [discriminate|]. inversion H; subst; clear H. lia.
  - inversion H; subst; clear H. lia.
Qed.
