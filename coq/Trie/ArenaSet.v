(** * Trie/ArenaSet.v — [set] / [get_mut] on an entry of the current tree (PARTIAL)

    For an arena satisfying [Sep] and an entry [e] that occurs in the tree of the current
    root: [a_set] / [a_mut] (= [get_mut] followed by an overwrite) change the value denoted
    by [e] and by nothing else in the view, leave the tree of entry indices alone and keep
    [Sep]; [a_mut] returns the old value.

    PARTIAL: the entry must be an entry of the CURRENT tree.  The handles of the arena
    machine ([as_handles]) are not tied to the tree here: that a handle of the current
    generation is never renamed by a later [make_owned] (which only copies children of older
    generations, whose entries lie below the entry checkpoint, while handles lie above it)
    needs the generation invariants of [ArenaCow.v] and is not proved. *)
From Coq Require Import NArith PeanoNat List Bool Lia Permutation.
From CB Require Import Trie.Radix.
From CB Require Import Trie.RadixProofs.
From CB Require Import Trie.Locks.
From CB Require Import Trie.LocksProofs.
From CB Require Import Trie.Arena.
From CB Require Import Trie.ArenaProofs.
From CB Require Import Trie.ArenaCow.
From CB Require Import Trie.ArenaTree.
From CB Require Import Trie.ArenaView.
From CB Require Import Trie.ArenaSep.
From CB Require Import Trie.ArenaInsert.
Import ListNotations.
Local Open Scope nat_scope.

Lemma a_set_eq a e v :
  e < length (a_entries a) ->
  a_set a e v = match edat a e with EDeleted => (a, false) | _ => (a_set_entry_value a e v, true) end.
Proof.
  intros H. unfold a_set, a_set_entry_value, edat. destruct (nth_error (a_entries a) e) as [x|] eqn:E.
  - rewrite (nth_error_nth _ _ EDeleted E). destruct x; reflexivity.
  - apply nth_error_None in E. lia.
Qed.

Lemma a_mut_eq a e v :
  e < length (a_entries a) ->
  (forall i, eptr (edat a e) = Some i -> i < length (a_values a)) ->
  fst (a_mut a e v) = fst (a_set a e v) /\ snd (a_mut a e v) = a_with_entry a e.
Proof.
  intros H Hv. rewrite with_entry_edat. unfold a_mut, a_set, edat in *.
  destruct (nth_error (a_entries a) e) as [x|] eqn:E; [|apply nth_error_None in E; lia].
  rewrite (nth_error_nth _ _ EDeleted E) in *. destruct x as [i|i|]; cbn [fst snd eptr]; split; try reflexivity;
    symmetry; apply List.nth_error_nth'; apply Hv; reflexivity.
Qed.

Lemma Tr_fun a r t fp t' fp' : Tr a r t fp -> Tr a r t' fp' -> t = t'.
Proof.
  intros H H'. rewrite <- (Tr_abs a t r fp (Nat.max (theight t) (theight t')) H) by lia.
  apply (Tr_abs a t' r fp' _ H'). lia.
Qed.

Theorem set_refines_partial a e v r t fp :
  Sep a -> cur_root a = Some r -> Tr a r t fp -> In e (tentries t) ->
  let a' := fst (a_set a e v) in
  let alive := snd (a_set a e v) in
  Sep a' /\ cur_root a' = Some r /\ Tr a' r t fp
  /\ alive = is_some (a_with_entry a e)
  /\ tmap (a_with_entry a') t = tmap (fun x => if Nat.eqb x e && alive then Some v else a_with_entry a x) t
  /\ fst (a_mut a e v) = a' /\ snd (a_mut a e v) = a_with_entry a e.
Proof.
  intros (Hne & HS) Er HT Hin. rewrite Er in HS. destruct HS as (t0 & fp0 & HT0 & Hnd & Hb & Hwf & HE).
  pose proof (Tr_fun a r t fp t0 fp0 HT HT0) as <-.
  destruct (in_split _ _ Hin) as (l1 & l2 & El).
  assert (P : Permutation (tentries t) (e :: l1 ++ l2)) by (rewrite El; symmetry; apply Permutation_middle).
  pose proof (ESep_perm a _ _ P HE) as HE1. pose proof HE1 as (_ & HB & HV & _).
  pose proof (Forall_inv HB) as He. cbn beta in He.
  assert (Hvb : forall i, eptr (edat a e) = Some i -> i < length (a_values a)) by (intros i; apply HV; left; reflexivity).
  destruct (a_mut_eq a e v He Hvb) as (M1 & M2). cbn zeta. rewrite M1, M2, (a_set_eq a e v He).
  destruct (sev_spec a e v (l1 ++ l2) HE1) as (W0 & Wr & S' & En & Eg & _).
  assert (Alive : forall x, edat a e = x -> x <> EDeleted -> a_with_entry a e <> None).
  { intros x Ex Hx. rewrite with_entry_edat, Ex. destruct x as [i|i|]; [| |congruence]; cbn [eptr];
      intros X; apply nth_error_None in X; specialize (Hvb i); rewrite Ex in Hvb; specialize (Hvb eq_refl); lia. }
  assert (Live : edat a e <> EDeleted ->
            let a' := a_set_entry_value a e v in
            Sep a' /\ cur_root a' = Some r /\ Tr a' r t fp /\ true = is_some (a_with_entry a e)
            /\ tmap (a_with_entry a') t = tmap (fun x => if Nat.eqb x e && true then Some v else a_with_entry a x) t).
  { intros Hd. cbn zeta. set (a' := a_set_entry_value a e v) in *.
    assert (Nd : forall j, node_at a' j = node_at a j) by (intros j; apply node_at_same_nodes; exact En).
    assert (Er' : cur_root a' = Some r) by (rewrite (cur_root_same_gens a a' Eg); exact Er).
    split. { split; [rewrite Eg; exact Hne|]. rewrite Er'. exists t, fp0. split; [apply (Tr_frame a a'); [exact HT0 | intros; apply Nd]|].
             split; [exact Hnd|]. split; [rewrite En; exact Hb|]. split; [exact Hwf|].
             apply (ESep_perm a' _ _ (Permutation_sym P)). exact S'. }
    split; [exact Er'|]. split; [apply (Tr_frame a a'); [exact HT | intros; apply Nd]|].
    split. { destruct (a_with_entry a e) eqn:Q; [reflexivity|]. exfalso. exact (Alive _ eq_refl Hd eq_refl). }
    apply (proj1 (tmap_ext_mut _ _)). intros x Hx. rewrite andb_true_r. destruct (Nat.eqb_spec x e) as [->|Hn]; [exact W0|].
    apply Wr. apply (Permutation_in _ P) in Hx. destruct Hx as [->|Hx]; [congruence | exact Hx]. }
  destruct (edat a e) as [i|i|] eqn:Ed; cbn [fst snd].
  - destruct (Live ltac:(discriminate)) as (L1 & L2 & L3 & L4 & L5). auto 10.
  - destruct (Live ltac:(discriminate)) as (L1 & L2 & L3 & L4 & L5). auto 10.
  - split. { split; [exact Hne|]. rewrite Er. exists t, fp0. auto. }
    split; [exact Er|]. split; [exact HT|].
    split; [rewrite with_entry_edat, Ed; reflexivity|].
    split; [|auto]. apply (proj1 (tmap_ext_mut _ _)). intros x _. rewrite andb_false_r. reflexivity.
Qed.

(** Non-vacuity: set on the entry returned by an insert. *)
Example set_example :
  let a := fst (fst (ar_insert (fst (fst (ar_insert a_empty [18%N] [1%N]))) [19%N] [2%N])) in
  exists r, cur_root a = Some r
    /\ abs_t 3 a r = Node [1%N] None (FCons 2%N (Node [] (Some 0) FNil) (FCons 3%N (Node [] (Some 1) FNil) FNil))
    /\ a_set a 1 [7%N] = (fst (a_set a 1 [7%N]), true)
    /\ vview 3 (fst (a_set a 1 [7%N])) r
       = Node [1%N] None (FCons 2%N (Node [] (Some (Some [1%N])) FNil) (FCons 3%N (Node [] (Some (Some [7%N])) FNil) FNil)).
Proof. eexists. vm_compute. repeat split. Qed.
