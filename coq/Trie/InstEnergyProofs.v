From Coq Require Import NArith List Bool Lia.
From CB Require Import Gen.HostCosts Contract.HostBase Contract.HostV0 Contract.HostV1 Trie.InstEnergy.
Import ListNotations.
Local Open Scope N_scope.

Lemma bind_ok {X A B} (m : M X A) (f : A -> M X B) s s' a : m s = (s', Ok a) -> bind m f s = f a s'.
Proof. intros H. unfold bind. rewrite H. reflexivity. Qed.

Lemma key_arg_ok cf cost ks kl (s : st H1) key :
  ks + kl < W64 -> cost <= energy s -> ks + kl <= m_len (mem s) ->
  mem_slice (mem s) ks (ks + kl) = Some key ->
  key_arg cf cost ks kl s = (mkSt (energy s - cost) (mem s) (EvTick cost :: evs s) (hs s), Ok key).
Proof.
  intros H1 H2 H3 H4. apply N.ltb_lt in H1. apply N.leb_le in H2, H3.
  unfold key_arg, bind, uadd. rewrite H1. destruct cf; unfold tick, ensure_fits, mslice; cbn [energy mem evs hs];
    rewrite ?H2, ?H3; cbn [energy mem evs hs]; rewrite ?H2, ?H3, ?H4; cbn [energy mem evs hs]; rewrite ?H4; reflexivity.
Qed.

(** insufficient energy for the documented charge: out of energy, instance state untouched *)
Lemma key_arg_oog cf cost ks kl (s : st H1) :
  ks + kl < W64 -> energy s < cost -> ks + kl <= m_len (mem s) ->
  exists s', key_arg cf cost ks kl s = (s', OutOfEnergy) /\ hs s' = hs s /\ mem s' = mem s.
Proof.
  intros H1 H2 H3. apply N.ltb_lt in H1. apply N.leb_gt in H2. apply N.leb_le in H3.
  unfold key_arg, bind, uadd. rewrite H1. destruct cf; unfold tick, ensure_fits; cbn [energy mem evs hs];
    rewrite ?H2, ?H3; cbn [energy mem evs hs]; rewrite ?H2; eexists; (split; [reflexivity|]); split; reflexivity.
Qed.

Ltac run_rest :=
  cbv [bind get_is set_is get_x set_x get_hs set_hs ret ensure the_is get_exp set_exp];
  cbn [energy mem evs hs h_ext with_ext x_is with_is with_exp x_exp is_locks is_set_changed is_entries].

Lemma create_entry_locked_charge ks kl (s : st H1) key :
  ks + kl < W64 -> create_entry_cost kl <= energy s -> ks + kl <= m_len (mem s) ->
  mem_slice (mem s) ks (ks + kl) = Some key -> lenN key <= MAX_KEY_SIZE ->
  locked_key (is_locks (the_is s)) key = true ->
  exists s', run_lop LCreate ks kl s = (s', Ok (Some (refused_result LCreate)))
             /\ energy s' = energy s - refused_charge LCreate kl /\ mem s' = mem s
             /\ the_is s' = is_set_changed (the_is s).
Proof.
  intros H1 H2 H3 H4 H5 H6. apply N.leb_le in H5. unfold the_is in H6.
  cbn [run_lop]. unfold state_create_entry. erewrite bind_ok by (apply key_arg_ok; eassumption).
  run_rest. rewrite H5, H6. eexists. split; [reflexivity|]. repeat split.
Qed.

Lemma delete_entry_locked_charge ks kl (s : st H1) key :
  ks + kl < W64 -> delete_entry_cost kl <= energy s -> ks + kl <= m_len (mem s) ->
  mem_slice (mem s) ks (ks + kl) = Some key ->
  any_live (is_entries (the_is s)) = true ->
  locked_key (is_locks (the_is s)) key = true ->
  exists s', run_lop LDelete ks kl s = (s', Ok (Some (refused_result LDelete)))
             /\ energy s' = energy s - refused_charge LDelete kl /\ mem s' = mem s
             /\ the_is s' = is_set_changed (the_is s).
Proof.
  intros H1 H2 H3 H4 H5 H6. unfold the_is in H5, H6.
  cbn [run_lop]. unfold state_delete_entry. erewrite bind_ok by (apply key_arg_ok; eassumption).
  run_rest. rewrite H5, H6. cbn [negb]. eexists. split; [reflexivity|]. repeat split.
Qed.

Lemma delete_prefix_locked_charge ks kl (s : st H1) key :
  ks + kl < W64 -> delete_prefix_find_cost kl <= energy s -> ks + kl <= m_len (mem s) ->
  mem_slice (mem s) ks (ks + kl) = Some key ->
  any_live (is_entries (the_is s)) = true ->
  locked_prefix (is_locks (the_is s)) key = true ->
  exists s', run_lop LDeletePrefix ks kl s = (s', Ok (Some (refused_result LDeletePrefix)))
             /\ energy s' = energy s - refused_charge LDeletePrefix kl /\ mem s' = mem s
             /\ the_is s' = is_set_changed (the_is s)
             /\ x_lower (h_ext (hs s')) = x_lower (h_ext (hs s)).
Proof.
  intros H1 H2 H3 H4 H5 H6. unfold the_is in H5, H6.
  cbn [run_lop]. unfold state_delete_prefix. erewrite bind_ok by (apply key_arg_ok; eassumption).
  run_rest. rewrite H5, H6. cbn [negb]. eexists. split; [reflexivity|]. repeat split.
Qed.

Lemma iterate_too_many_charge ks kl (s : st H1) key :
  ks + kl < W64 -> new_iterator_cost kl <= energy s -> ks + kl <= m_len (mem s) ->
  mem_slice (mem s) ks (ks + kl) = Some key ->
  live_with_prefix key (is_entries (the_is s)) 0 <> [] ->
  lock_add key (is_locks (the_is s)) = None ->
  exists s', run_lop LIterate ks kl s = (s', Ok (Some (refused_result LIterate)))
             /\ energy s' = energy s - refused_charge LIterate kl /\ mem s' = mem s /\ the_is s' = the_is s.
Proof.
  intros H1 H2 H3 H4 H5 H6. unfold the_is in H5, H6.
  cbn [run_lop]. unfold state_iterator. erewrite bind_ok by (apply key_arg_ok; eassumption).
  run_rest. destruct (live_with_prefix key (is_entries (x_is (h_ext (hs s)))) 0) eqn:E; [congruence|].
  rewrite H6. eexists. split; [reflexivity|]. repeat split.
Qed.

(** charge before work: without the energy for the documented charge nothing happens to the state *)
Lemma refused_ops_charge_first o ks kl (s : st H1) :
  ks + kl < W64 -> energy s < refused_charge o kl -> ks + kl <= m_len (mem s) ->
  exists s', run_lop o ks kl s = (s', OutOfEnergy) /\ hs s' = hs s /\ mem s' = mem s.
Proof.
  intros H1 H2 H3. destruct o; cbn [run_lop refused_charge] in *;
    [unfold state_create_entry | unfold state_delete_entry | unfold state_delete_prefix | unfold state_iterator];
    match goal with |- context [key_arg ?cf ?c ks kl] =>
      destruct (key_arg_oog cf c ks kl s H1 H2 H3) as (s' & E & A & B) end;
    exists s'; unfold bind; rewrite E; auto.
Qed.

(** stale / forged / dead iterator ids: exactly the base charges, nothing else happens *)
Lemma iterator_next_invalid_charge it (s : st H1) :
  ITERATOR_NEXT_COST <= energy s ->
  (forall idx i, handle_iter (the_is s) it <> Some (idx, Some i)) ->
  exists s', state_iterator_next it s = (s', Ok (Some NEW_ERR))
             /\ energy s' = energy s - ITERATOR_NEXT_COST /\ mem s' = mem s /\ hs s' = hs s.
Proof.
  intros H1 H2. apply N.leb_le in H1. unfold the_is in H2.
  unfold state_iterator_next. cbv [bind tick]. rewrite H1. run_rest.
  destruct (handle_iter (x_is (h_ext (hs s))) it) as [[idx [i|]]|] eqn:E;
    [exfalso; eapply H2; reflexivity| |]; eexists; (split; [reflexivity|]); repeat split.
Qed.

Lemma iterator_delete_charge it (s : st H1) :
  DELETE_ITERATOR_BASE_COST <= energy s ->
  match handle_iter (the_is s) it with
  | Some (idx, Some i) =>
      DELETE_ITERATOR_BASE_COST + delete_iterator_cost (u32 (lenN (iter_key i))) <= energy s ->
      exists s', state_iterator_delete it s = (s', Ok (Some 1))
                 /\ energy s' = energy s - (DELETE_ITERATOR_BASE_COST + delete_iterator_cost (u32 (lenN (iter_key i))))
                 /\ is_locks (the_is s') = remove_one (it_root i) (is_locks (the_is s))
  | Some (_, None) =>
      exists s', state_iterator_delete it s = (s', Ok (Some 0))
                 /\ energy s' = energy s - DELETE_ITERATOR_BASE_COST /\ hs s' = hs s
  | None =>
      exists s', state_iterator_delete it s = (s', Ok (Some U32MAX))
                 /\ energy s' = energy s - DELETE_ITERATOR_BASE_COST /\ hs s' = hs s
  end.
Proof.
  intros H1. pose proof H1 as H1'. apply N.leb_le in H1. unfold the_is.
  unfold state_iterator_delete. cbv [bind tick]. rewrite H1. run_rest.
  destruct (handle_iter (x_is (h_ext (hs s))) it) as [[idx [i|]]|] eqn:E.
  - intros H2. cbv [bind tick]. cbn [energy mem evs hs].
    assert (H3 : (delete_iterator_cost (u32 (lenN (iter_key i))) <=? energy s - DELETE_ITERATOR_BASE_COST) = true)
      by (apply N.leb_le; lia).
    rewrite H3. run_rest. eexists. split; [reflexivity|]. split; [cbn [energy]; lia | reflexivity].
  - eexists. split; [reflexivity|]. repeat split.
  - eexists. split; [reflexivity|]. repeat split.
Qed.
