(** Tree shape of the arena: every node above the checkpoint that is referenced - as the root
    of the current generation or through a children vector owned by a node of the current
    generation - is referenced exactly once, lies inside the node vector and carries the
    number of the current generation.  Nodes emptied by [mem::take] are therefore
    unreachable, and the generation tag of the root is always right ([tag_ok] becomes a
    lemma). *)
From Coq Require Import NArith PeanoNat List Bool Lia.
From CB Require Import Trie.Radix.
From CB Require Import Trie.RadixProofs.
From CB Require Import Trie.Locks.
From CB Require Import Trie.LocksProofs.
From CB Require Import Trie.Arena.
From CB Require Import Trie.ArenaProofs.
From CB Require Import Trie.ArenaCow.
Import ListNotations.
Local Open Scope nat_scope.

Definition unsh (n : anode) : bool := Nat.eqb (an_cgen n) (an_gen n).
Definition chi (n : anode) : list nat := map snd (an_ch n).

(** The child indices a node contributes as *owned* edges, when it sits at index [i]. *)
Definition owned_of (a : arena) (i : nat) (n : anode) : list nat :=
  if (cpn a <=? i) && unsh n then chi n else [].
Definition owned (a : arena) (i : nat) : list nat := owned_of a i (node_at a i).

Definition cnt (x : nat) (l : list nat) : nat := count_occ Nat.eq_dec l x.

Definition rcn (a : arena) (x : nat) : nat :=
  list_sum (map (fun i => cnt x (owned a i)) (seq 0 (length (a_nodes a)))).
Definition rroot (a : arena) (x : nat) : nat :=
  match cur_root a with Some r => if Nat.eqb r x then 1 else 0 | None => 0 end.
(** Number of references to node [x]. *)
Definition rc (a : arena) (x : nat) : nat := rroot a x + rcn a x.

Record TInv (a : arena) : Prop := {
  T_u : forall x, rc a x <= 1;
  T_g : forall x, 1 <= rc a x -> x < length (a_nodes a) /\ an_gen (node_at a x) = gnum a;
  T_sh : forall i c, cpn a <= i -> an_cgen (node_at a i) <> an_gen (node_at a i) ->
         In c (chi (node_at a i)) -> c < cpn a;
  T_old : forall i c, i < cpn a -> In c (chi (node_at a i)) -> c < cpn a
}.

(** * Sums with one term changed *)

Lemma sum_update (f f' : nat -> nat) n i :
  i < n -> (forall j, j <> i -> f' j = f j) ->
  list_sum (map f' (seq 0 n)) + f i = list_sum (map f (seq 0 n)) + f' i.
Proof.
  intros Hi Hf. induction n as [|n IH]; [lia|].
  rewrite seq_S, !map_app, !list_sum_app. cbn [map Nat.add].
  replace (list_sum [f' n]) with (f' n) by (cbn; lia). replace (list_sum [f n]) with (f n) by (cbn; lia).
  destruct (Nat.eq_dec i n) as [->|Hn].
  - assert (E : map f' (seq 0 n) = map f (seq 0 n)).
    { apply map_ext_in. intros j Hj. apply in_seq in Hj. apply Hf. lia. }
    rewrite E. lia.
  - rewrite (Hf n) by lia. specialize (IH ltac:(lia)). lia.
Qed.

Lemma sum_same (f f' : nat -> nat) n :
  (forall j, j < n -> f' j = f j) -> list_sum (map f' (seq 0 n)) = list_sum (map f (seq 0 n)).
Proof. intros H. f_equal. apply map_ext_in. intros j Hj. apply in_seq in Hj. apply H. lia. Qed.

Lemma cnt_app x l1 l2 : cnt x (l1 ++ l2) = cnt x l1 + cnt x l2.
Proof. apply count_occ_app. Qed.

Lemma cnt_pos x l : 1 <= cnt x l <-> In x l.
Proof. unfold cnt. rewrite (count_occ_In Nat.eq_dec). lia. Qed.

Lemma cnt_zero x l : ~ In x l -> cnt x l = 0.
Proof. intros H. apply count_occ_not_In. exact H. Qed.

(** * How the primitive updates change the reference counts *)

Lemma cpn_gens a a' : a_gens a' = a_gens a -> cpn a' = cpn a /\ gnum a' = gnum a /\ cur_root a' = cur_root a.
Proof. intros E. unfold cpn, cur_checkpoint, gnum, cur_root. rewrite E. auto. Qed.

Lemma rc_nodes_eq a a' x : a_gens a' = a_gens a -> a_nodes a' = a_nodes a -> rc a' x = rc a x.
Proof.
  intros Eg En. destruct (cpn_gens a a' Eg) as (C & _ & R).
  unfold rc, rroot, rcn, owned, owned_of, node_at. rewrite R, En, C. reflexivity.
Qed.

Lemma set_nth_ge {A} i (x : A) l : length l <= i -> set_nth i x l = l.
Proof.
  revert i. induction l as [|y l IH]; intros i H; [destruct i; reflexivity|].
  destruct i as [|i]; cbn in *; [lia|]. f_equal. apply IH. lia.
Qed.

Lemma owned_set_node_other a i n j : j <> i -> owned (set_node a i n) j = owned a j.
Proof.
  intros H. unfold owned, owned_of. change (cpn (set_node a i n)) with (cpn a).
  rewrite node_at_set_node. destruct (Nat.eqb_spec i j); [congruence | reflexivity].
Qed.

Lemma rc_set_node a i n x :
  i < length (a_nodes a) ->
  rc (set_node a i n) x + cnt x (owned a i) = rc a x + cnt x (owned_of a i n).
Proof.
  intros Hi. unfold rc. change (rroot (set_node a i n) x) with (rroot a x).
  unfold rcn. cbn [set_node a_nodes]. rewrite set_nth_length.
  assert (S := sum_update (fun j => cnt x (owned a j)) (fun j => cnt x (owned (set_node a i n) j))
                         (length (a_nodes a)) i Hi).
  cbv beta in S.
  assert (Hoth : forall j, j <> i -> cnt x (owned (set_node a i n) j) = cnt x (owned a j))
    by (intros j Hj; rewrite owned_set_node_other by exact Hj; reflexivity).
  specialize (S Hoth).
  assert (E : owned (set_node a i n) i = owned_of a i n).
  { unfold owned, owned_of. change (cpn (set_node a i n)) with (cpn a).
    rewrite node_at_set_node, Nat.eqb_refl. apply Nat.ltb_lt in Hi. rewrite Hi. reflexivity. }
  rewrite E in S. lia.
Qed.

Lemma rc_set_node_ge a i n x : length (a_nodes a) <= i -> rc (set_node a i n) x = rc a x.
Proof.
  intros Hi. apply rc_nodes_eq; [reflexivity|]. cbn [set_node a_nodes]. apply set_nth_ge. exact Hi.
Qed.

Lemma rc_push_node a n x :
  rc (push_node a n) x = rc a x + cnt x (owned_of a (length (a_nodes a)) n).
Proof.
  unfold rc. change (rroot (push_node a n) x) with (rroot a x).
  unfold rcn. cbn [push_node a_nodes]. rewrite app_length. cbn [length].
  replace (length (a_nodes a) + 1) with (S (length (a_nodes a))) by lia.
  rewrite seq_S, map_app, list_sum_app. cbn [map Nat.add].
  replace (list_sum [cnt x (owned (push_node a n) (length (a_nodes a)))])
    with (cnt x (owned (push_node a n) (length (a_nodes a)))) by (cbn; lia).
  assert (E1 : list_sum (map (fun i => cnt x (owned (push_node a n) i)) (seq 0 (length (a_nodes a))))
               = list_sum (map (fun i => cnt x (owned a i)) (seq 0 (length (a_nodes a))))).
  { apply sum_same. intros j Hj. unfold owned, owned_of, node_at. change (cpn (push_node a n)) with (cpn a).
    cbn [push_node a_nodes]. rewrite app_nth1 by exact Hj. reflexivity. }
  assert (E2 : owned (push_node a n) (length (a_nodes a)) = owned_of a (length (a_nodes a)) n).
  { unfold owned, owned_of, node_at. change (cpn (push_node a n)) with (cpn a).
    cbn [push_node a_nodes]. rewrite app_nth2, Nat.sub_diag by lia. reflexivity. }
  rewrite E1, E2. lia.
Qed.

Definition rr (r : option nat) (x : nat) : nat :=
  match r with Some r' => if Nat.eqb r' x then 1 else 0 | None => 0 end.

Lemma rc_set_root a r x :
  a_gens a <> [] -> rc (set_root a r) x + rroot a x = rc a x + rr r x.
Proof.
  intros Hne. destruct (set_root_shape a r Hne) as (older & g & E1 & E2 & En & Ev & Ee).
  assert (Ecr : cur_root (set_root a r) = r) by (unfold cur_root; rewrite E2, rev_app_distr; reflexivity).
  assert (Ecp : cpn (set_root a r) = cpn a).
  { unfold cpn, cur_checkpoint. rewrite E1, E2, !rev_app_distr. reflexivity. }
  unfold rc, rroot. rewrite Ecr. fold (rr r x).
  assert (E : rcn (set_root a r) x = rcn a x).
  { unfold rcn, owned, owned_of, node_at. rewrite En, Ecp. reflexivity. }
  rewrite E. lia.
Qed.

(** * Updates that do not change the shape *)

Lemma TInv_same_nodes a a' : a_gens a' = a_gens a -> a_nodes a' = a_nodes a -> TInv a -> TInv a'.
Proof.
  intros Eg En [U G S O]. destruct (cpn_gens a a' Eg) as (C & Gn & _).
  assert (Nd : forall i, node_at a' i = node_at a i) by (intros i; unfold node_at; rewrite En; reflexivity).
  constructor.
  - intros x. rewrite (rc_nodes_eq a a' x Eg En). apply U.
  - intros x Hx. rewrite (rc_nodes_eq a a' x Eg En) in Hx. rewrite En, Nd, Gn. apply G. exact Hx.
  - intros i c. rewrite C, Nd. apply S.
  - intros i c. rewrite C, Nd. apply O.
Qed.

Lemma chi_with_path n p : chi (with_path n p) = chi n. Proof. reflexivity. Qed.
Lemma chi_with_val n v : chi (with_val n v) = chi n. Proof. reflexivity. Qed.

Lemma TInv_set_node_same a i n' :
  TInv a -> an_gen n' = an_gen (node_at a i) -> an_cgen n' = an_cgen (node_at a i) ->
  an_ch n' = an_ch (node_at a i) -> TInv (set_node a i n').
Proof.
  intros [U G S O] E1 E2 E3.
  assert (Eo : owned_of a i n' = owned a i).
  { unfold owned, owned_of, unsh, chi. rewrite E1, E2, E3. reflexivity. }
  assert (Rc : forall x, rc (set_node a i n') x = rc a x).
  { intros x. destruct (Nat.lt_ge_cases i (length (a_nodes a))) as [Hi|Hi].
    - pose proof (rc_set_node a i n' x Hi) as X. rewrite Eo in X. lia.
    - apply rc_set_node_ge. exact Hi. }
  assert (Nd : forall j, an_gen (node_at (set_node a i n') j) = an_gen (node_at a j)
                         /\ an_cgen (node_at (set_node a i n') j) = an_cgen (node_at a j)
                         /\ chi (node_at (set_node a i n') j) = chi (node_at a j)).
  { intros j. rewrite node_at_set_node. destruct (Nat.eqb_spec i j) as [->|]; [|auto].
    destruct (Nat.ltb j (length (a_nodes a))); [|auto]. unfold chi. rewrite E1, E2, E3. auto. }
  constructor; change (cpn (set_node a i n')) with (cpn a); change (gnum (set_node a i n')) with (gnum a).
  - intros x. rewrite Rc. apply U.
  - intros x Hx. rewrite Rc in Hx. cbn [set_node a_nodes]. rewrite set_nth_length.
    destruct (Nd x) as (N1 & _). rewrite N1. apply G. exact Hx.
  - intros j c Hj. destruct (Nd j) as (N1 & N2 & N3). rewrite N1, N2, N3. apply S. exact Hj.
  - intros j c Hj. destruct (Nd j) as (N1 & N2 & N3). rewrite N3. apply O. exact Hj.
Qed.

Lemma new_entry_shape a v : a_gens (fst (new_entry a v)) = a_gens a /\ a_nodes (fst (new_entry a v)) = a_nodes a.
Proof. split; reflexivity. Qed.

Lemma kill_entry_shape a e : a_gens (fst (kill_entry a e)) = a_gens a /\ a_nodes (fst (kill_entry a e)) = a_nodes a.
Proof. unfold kill_entry. destruct (nth e (a_entries a) EDeleted); split; reflexivity. Qed.

Lemma set_entry_value_shape a e v :
  a_gens (a_set_entry_value a e v) = a_gens a /\ a_nodes (a_set_entry_value a e v) = a_nodes a.
Proof. unfold a_set_entry_value. destruct (nth e (a_entries a) EDeleted); split; reflexivity. Qed.

Lemma a_set_shape a e v : a_gens (fst (a_set a e v)) = a_gens a /\ a_nodes (fst (a_set a e v)) = a_nodes a.
Proof. unfold a_set. destruct (nth_error (a_entries a) e) as [[?|?|]|]; split; reflexivity. Qed.

Lemma a_mut_shape a e v : a_gens (fst (a_mut a e v)) = a_gens a /\ a_nodes (fst (a_mut a e v)) = a_nodes a.
Proof. unfold a_mut. destruct (nth_error (a_entries a) e) as [[?|?|]|]; split; reflexivity. Qed.

(** * [make_owned] *)

Definition copy_of (a : arena) (g : nat) (ch : list (N * nat)) (n' : anode) : Prop :=
  an_gen n' = g /\ exists kc, In kc ch /\ an_cgen n' = an_cgen (node_at a (snd kc))
                              /\ an_ch n' = an_ch (node_at a (snd kc)).

Lemma migrate_children_spec : forall ch a g next,
  let '(a', ns, cs) := migrate_children a g next ch in
  a_gens a' = a_gens a /\ a_nodes a' = a_nodes a
  /\ map snd cs = seq next (length ch) /\ length ns = length ch
  /\ Forall (copy_of a g ch) ns.
Proof.
  induction ch as [|[k i] ch IH]; intros a g next; cbn [migrate_children].
  - repeat split; auto.
  - assert (M : a_gens (fst (migrate a (node_at a i) g)) = a_gens a
                /\ a_nodes (fst (migrate a (node_at a i) g)) = a_nodes a
                /\ an_gen (snd (migrate a (node_at a i) g)) = g
                /\ an_cgen (snd (migrate a (node_at a i) g)) = an_cgen (node_at a i)
                /\ an_ch (snd (migrate a (node_at a i) g)) = an_ch (node_at a i)).
    { unfold migrate. destruct (an_val (node_at a i)); cbn; auto. }
    destruct (migrate a (node_at a i) g) as [a1 n']. cbn [fst snd] in M. destruct M as (G1 & N1 & M1 & M2 & M3).
    specialize (IH a1 g (S next)). destruct (migrate_children a1 g (S next) ch) as [[a2 ns] cs].
    destruct IH as (G2 & N2 & C2 & L2 & F2).
    split; [congruence|]. split; [congruence|]. split; [cbn; rewrite C2; reflexivity|]. split; [cbn; lia|].
    constructor.
    + split; [exact M1|]. exists (k, i). split; [left; reflexivity | auto].
    + eapply Forall_impl; [|exact F2]. intros n (E1 & kc & Hin & E2 & E3). split; [exact E1|].
      exists kc. split; [right; exact Hin|]. unfold node_at in *. rewrite N1 in *. auto.
Qed.

Lemma rc_push_nodes_unowned : forall ns a x,
  (forall n i, In n ns -> owned_of a i n = []) ->
  rc (mkA (a_gens a) (a_entries a) (a_values a) (a_nodes a ++ ns)) x = rc a x.
Proof.
  induction ns as [|n ns IH]; intros a x H.
  - rewrite app_nil_r. destruct a. reflexivity.
  - specialize (IH (push_node a n) x). cbn [push_node a_gens a_entries a_values a_nodes] in IH.
    rewrite <- app_assoc in IH. cbn [app] in IH. rewrite IH.
    + rewrite rc_push_node. rewrite (H n _ (or_introl eq_refl)). cbn. lia.
    + intros m i Hm. change (owned_of (push_node a n) i m) with (owned_of a i m). apply H. right. exact Hm.
Qed.

Lemma cnt_seq_le x s n : cnt x (seq s n) <= 1.
Proof. unfold cnt. apply NoDup_count_occ. apply seq_NoDup. Qed.

Lemma cnt_seq_pos x s n : 1 <= cnt x (seq s n) <-> s <= x < s + n.
Proof. rewrite cnt_pos. apply in_seq. Qed.

Lemma make_owned_unshared a idx : an_cgen (node_at a idx) = an_gen (node_at a idx) -> make_owned a idx = a.
Proof. intros E. unfold make_owned. rewrite E, Nat.eqb_refl. reflexivity. Qed.

Lemma make_owned_node_other a idx u :
  u <> idx -> u < length (a_nodes a) -> node_at (make_owned a idx) u = node_at a u.
Proof.
  intros Hne Hu. unfold make_owned. destruct (Nat.eqb (an_cgen (node_at a idx)) (an_gen (node_at a idx))); [reflexivity|].
  pose proof (migrate_children_spec (an_ch (node_at a idx)) a (an_gen (node_at a idx)) (length (a_nodes a))) as M.
  destruct (migrate_children a (an_gen (node_at a idx)) (length (a_nodes a)) (an_ch (node_at a idx))) as [[a1 ns] cs].
  destruct M as (_ & N1 & _). rewrite node_at_set_node. destruct (Nat.eqb_spec idx u); [congruence|].
  unfold node_at. cbn [a_nodes]. rewrite N1, app_nth1 by exact Hu. reflexivity.
Qed.

Theorem make_owned_t a idx :
  AInv a -> TInv a -> cpn a <= idx ->
  TInv (make_owned a idx) /\ (forall x, rc a x <= rc (make_owned a idx) x).
Proof.
  intros H T Hi. destruct (Nat.eq_dec (an_cgen (node_at a idx)) (an_gen (node_at a idx))) as [E|E].
  - rewrite make_owned_unshared by exact E. split; [exact T | intros; lia].
  - pose proof (AI_sh a H idx Hi E) as Hg. pose proof (AI_len a H) as (L1 & _).
    assert (Hlt : idx < length (a_nodes a)).
    { destruct (Nat.lt_ge_cases idx (length (a_nodes a))) as [X|X]; [exact X|].
      exfalso. apply E. unfold node_at. rewrite nth_overflow by exact X. reflexivity. }
    unfold make_owned. destruct (Nat.eqb_spec (an_cgen (node_at a idx)) (an_gen (node_at a idx))) as [|_]; [contradiction|].
    rewrite Hg.
    pose proof (migrate_children_spec (an_ch (node_at a idx)) a (gnum a) (length (a_nodes a))) as M.
    destruct (migrate_children a (gnum a) (length (a_nodes a)) (an_ch (node_at a idx))) as [[a1 ns] cs].
    destruct M as (G1 & N1 & C1 & Ln & Fns).
    set (a2 := mkA (a_gens a1) (a_entries a1) (a_values a1) (a_nodes a1 ++ ns)).
    set (nn := mkAN (gnum a) (an_val (node_at a idx)) (an_path (node_at a idx)) (gnum a) cs).
    destruct (cpn_gens a a1 G1) as (Cp1 & Gn1 & _).
    assert (Cp2 : cpn a2 = cpn a) by (unfold a2, cpn, cur_checkpoint; cbn [a_gens]; rewrite G1; reflexivity).
    assert (Gn2 : gnum a2 = gnum a) by (unfold a2, gnum; cbn [a_gens]; rewrite G1; reflexivity).
    (* the copies are shared: they contribute no owned edges *)
    assert (Hcopy : forall n, In n ns -> an_cgen n < gnum a /\ an_gen n = gnum a /\ (forall c, In c (chi n) -> c < cpn a)).
    { intros n Hn. rewrite Forall_forall in Fns. destruct (Fns n Hn) as (E1 & kc & Hin & E2 & E3).
      assert (Hc : snd kc < cpn a).
      { apply (T_sh a T idx (snd kc) Hi E). unfold chi. apply in_map. exact Hin. }
      split; [rewrite E2; apply (AI_old a H _ Hc)|]. split; [exact E1|].
      intros c Hc'. unfold chi in Hc'. rewrite E3 in Hc'. apply (T_old a T (snd kc) c Hc Hc'). }
    assert (R1 : forall x, rc a1 x = rc a x) by (intros x; apply rc_nodes_eq; assumption).
    assert (R2 : forall x, rc a2 x = rc a x).
    { intros x. unfold a2. rewrite rc_push_nodes_unowned; [apply R1|].
      intros n i Hn. destruct (Hcopy n Hn) as (X & Y & _). unfold owned_of, unsh.
      destruct (Nat.eqb_spec (an_cgen n) (an_gen n)); [lia|]. rewrite andb_false_r. reflexivity. }
    assert (Hlt2 : idx < length (a_nodes a2)) by (unfold a2; cbn [a_nodes]; rewrite app_length, N1; lia).
    assert (Ow : owned a2 idx = []).
    { unfold owned, owned_of, node_at, a2. cbn [a_nodes]. rewrite N1, app_nth1 by exact Hlt.
      fold (node_at a idx). unfold unsh. destruct (Nat.eqb_spec (an_cgen (node_at a idx)) (an_gen (node_at a idx))); [contradiction|].
      rewrite andb_false_r. reflexivity. }
    assert (On : owned_of a2 idx nn = seq (length (a_nodes a)) (length (an_ch (node_at a idx)))).
    { unfold owned_of, nn, unsh, chi. cbn [an_gen an_cgen an_ch]. rewrite Cp2, Nat.eqb_refl.
      destruct (Nat.leb_spec (cpn a) idx); [|lia]. cbn [andb]. exact C1. }
    assert (R3 : forall x, rc (set_node a2 idx nn) x = rc a x + cnt x (seq (length (a_nodes a)) (length (an_ch (node_at a idx))))).
    { intros x. pose proof (rc_set_node a2 idx nn x Hlt2) as X. rewrite Ow, On, R2 in X. cbn in X. lia. }
    assert (Len3 : length (a_nodes (set_node a2 idx nn)) = length (a_nodes a) + length (an_ch (node_at a idx))).
    { cbn [set_node a_nodes]. rewrite set_nth_length. unfold a2. cbn [a_nodes]. rewrite app_length, N1, Ln. reflexivity. }
    assert (Nd3 : forall j, node_at (set_node a2 idx nn) j =
                            if Nat.eqb idx j then nn
                            else if Nat.ltb j (length (a_nodes a)) then node_at a j
                            else nth (j - length (a_nodes a)) ns anode_default).
    { intros j. rewrite node_at_set_node. destruct (Nat.eqb_spec idx j) as [->|Hne].
      - apply Nat.ltb_lt in Hlt2. rewrite Hlt2. reflexivity.
      - unfold node_at, a2. cbn [a_nodes]. rewrite N1. destruct (Nat.ltb_spec j (length (a_nodes a))).
        + apply app_nth1. assumption.
        + apply app_nth2. lia. }
    split; [|intros x; rewrite R3; lia].
    constructor; change (cpn (set_node a2 idx nn)) with (cpn a2); change (gnum (set_node a2 idx nn)) with (gnum a2);
      rewrite ?Cp2, ?Gn2.
    + intros x. rewrite R3. pose proof (T_u a T x) as U. pose proof (cnt_seq_le x (length (a_nodes a)) (length (an_ch (node_at a idx)))) as V.
      destruct (Nat.eq_dec (cnt x (seq (length (a_nodes a)) (length (an_ch (node_at a idx))))) 0) as [Z|Z]; [lia|].
      assert (P : 1 <= cnt x (seq (length (a_nodes a)) (length (an_ch (node_at a idx))))) by lia.
      apply cnt_seq_pos in P.
      assert (rc a x = 0).
      { destruct (Nat.eq_dec (rc a x) 0) as [|Q]; [assumption|]. destruct (T_g a T x ltac:(lia)). lia. }
      lia.
    + intros x Hx. rewrite R3 in Hx. rewrite Len3, Nd3.
      destruct (Nat.eqb_spec idx x) as [->|Hne]; [split; [lia | reflexivity]|].
      destruct (Nat.eq_dec (rc a x) 0) as [Z|Z].
      * assert (P : 1 <= cnt x (seq (length (a_nodes a)) (length (an_ch (node_at a idx))))) by lia.
        apply cnt_seq_pos in P. split; [lia|].
        destruct (Nat.ltb_spec x (length (a_nodes a))); [lia|].
        assert (Hin : In (nth (x - length (a_nodes a)) ns anode_default) ns) by (apply nth_In; lia).
        apply (Hcopy _ Hin).
      * destruct (T_g a T x ltac:(lia)) as (X1 & X2). split; [lia|].
        apply Nat.ltb_lt in X1. rewrite X1. exact X2.
    + intros j c Hj Hsh Hin. rewrite Nd3 in Hsh, Hin.
      destruct (Nat.eqb_spec idx j) as [->|Hne]; [exfalso; apply Hsh; reflexivity|].
      destruct (Nat.ltb_spec j (length (a_nodes a))).
      * apply (T_sh a T j c Hj Hsh Hin).
      * destruct (Nat.lt_ge_cases (j - length (a_nodes a)) (length ns)) as [Q|Q].
        -- assert (Hin' : In (nth (j - length (a_nodes a)) ns anode_default) ns) by (apply nth_In; exact Q).
           apply (Hcopy _ Hin'). exact Hin.
        -- rewrite nth_overflow in Hin by exact Q. destruct Hin.
    + intros j c Hj Hin. rewrite Nd3 in Hin.
      destruct (Nat.eqb_spec idx j); [lia|].
      destruct (Nat.ltb_spec j (length (a_nodes a))); [|lia]. apply (T_old a T j c Hj Hin).
Qed.

(** * Slots *)

Lemma rc_set_node_same a i n' x :
  an_gen n' = an_gen (node_at a i) -> an_cgen n' = an_cgen (node_at a i) -> an_ch n' = an_ch (node_at a i) ->
  rc (set_node a i n') x = rc a x.
Proof.
  intros E1 E2 E3.
  assert (Eo : owned_of a i n' = owned a i) by (unfold owned, owned_of, unsh, chi; rewrite E1, E2, E3; reflexivity).
  destruct (Nat.lt_ge_cases i (length (a_nodes a))) as [Hi|Hi].
  - pose proof (rc_set_node a i n' x Hi) as X. rewrite Eo in X. lia.
  - apply rc_set_node_ge. exact Hi.
Qed.

Lemma term_le_sum (f : nat -> nat) n u : u < n -> f u <= list_sum (map f (seq 0 n)).
Proof.
  intros Hu. induction n as [|n IH]; [lia|]. rewrite seq_S, map_app, list_sum_app. cbn [map Nat.add].
  replace (list_sum [f n]) with (f n) by (cbn; lia).
  destruct (Nat.eq_dec u n) as [->|]; [lia|]. specialize (IH ltac:(lia)). lia.
Qed.

Lemma owned_le_rc a u x : u < length (a_nodes a) -> cnt x (owned a u) <= rc a x.
Proof.
  intros Hu. unfold rc, rcn. pose proof (term_le_sum (fun i => cnt x (owned a i)) _ u Hu). cbv beta in H. lia.
Qed.

Definition one (b : bool) : nat := if b then 1 else 0.

Lemma cnt_cons x y l : cnt x (y :: l) = one (Nat.eqb y x) + cnt x l.
Proof. unfold cnt. cbn [count_occ]. destruct (Nat.eq_dec y x) as [->|H]; [rewrite Nat.eqb_refl | apply Nat.eqb_neq in H; rewrite H]; reflexivity. Qed.

Lemma cnt_set_child_index x pos i ch old :
  nth_error (map snd ch) pos = Some old ->
  cnt x (map snd (set_child_index pos i ch)) + one (Nat.eqb old x) = cnt x (map snd ch) + one (Nat.eqb i x).
Proof.
  revert pos. induction ch as [|[k j] ch IH]; intros pos H; [destruct pos; discriminate|].
  destruct pos as [|pos]; cbn [set_child_index map snd nth_error] in *.
  - inversion H; subst. rewrite !cnt_cons. lia.
  - rewrite !cnt_cons. specialize (IH pos H). lia.
Qed.

Lemma cnt_remove_nth x pos (ch : list (N * nat)) old :
  nth_error (map snd ch) pos = Some old ->
  cnt x (map snd (remove_nth pos ch)) + one (Nat.eqb old x) = cnt x (map snd ch).
Proof.
  revert pos. induction ch as [|[k j] ch IH]; intros pos H; [destruct pos; discriminate|].
  destruct pos as [|pos]; cbn [remove_nth map snd nth_error] in *.
  - inversion H; subst. rewrite cnt_cons. lia.
  - rewrite !cnt_cons. specialize (IH pos H). lia.
Qed.

(** The place from which node [idx] is referenced: a child slot of an unshared node above
    the checkpoint, or the root. *)
Definition slot (a : arena) (up : option (nat * nat)) (idx : nat) : Prop :=
  match up with
  | Some (pos, u) => cpn a <= u /\ u < length (a_nodes a)
                     /\ an_cgen (node_at a u) = an_gen (node_at a u)
                     /\ nth_error (chi (node_at a u)) pos = Some idx
  | None => cur_root a = Some idx
  end.

Lemma owned_unshared a u :
  cpn a <= u -> an_cgen (node_at a u) = an_gen (node_at a u) -> owned a u = chi (node_at a u).
Proof.
  intros H E. unfold owned, owned_of, unsh. rewrite E, Nat.eqb_refl.
  destruct (Nat.leb_spec (cpn a) u); [reflexivity | lia].
Qed.

Lemma slot_rc a up idx : slot a up idx -> 1 <= rc a idx.
Proof.
  destruct up as [[pos u]|]; cbn [slot].
  - intros (H1 & H2 & H3 & H4). pose proof (owned_le_rc a u idx H2) as X.
    rewrite owned_unshared in X by assumption.
    assert (1 <= cnt idx (chi (node_at a u))) by (apply cnt_pos; eapply nth_error_In; exact H4). lia.
  - intros E. unfold rc, rroot. rewrite E, Nat.eqb_refl. lia.
Qed.

Lemma find_child_nth c ch pos0 pos i :
  find_child c ch pos0 = Some (pos, i) -> pos0 <= pos /\ nth_error (map snd ch) (pos - pos0) = Some i.
Proof.
  revert pos0. induction ch as [|[k j] ch IH]; intros pos0 H; cbn in H; [discriminate|].
  destruct (N.eqb c k).
  - inversion H; subst. rewrite Nat.sub_diag. split; [lia | reflexivity].
  - destruct (IH _ H) as (X & Y). split; [lia|].
    replace (pos - pos0) with (S (pos - S pos0)) by lia. exact Y.
Qed.

Definition reslot (a : arena) (up : option (nat * nat)) (i : nat) : arena :=
  match up with
  | Some (pos, u) => set_node a u (with_children (node_at a u) (set_child_index pos i (an_ch (node_at a u))))
  | None => set_root a (Some i)
  end.

Definition unslot (a : arena) (up : option (nat * nat)) : arena :=
  match up with
  | Some (pos, u) => set_node a u (with_children (node_at a u) (remove_nth pos (an_ch (node_at a u))))
  | None => set_root a None
  end.

Lemma rr_some r x : rr (Some r) x = one (Nat.eqb r x). Proof. reflexivity. Qed.

Lemma rc_reslot a up idx i x :
  a_gens a <> [] -> slot a up idx ->
  rc (reslot a up i) x + one (Nat.eqb idx x) = rc a x + one (Nat.eqb i x).
Proof.
  intros Hne Hs. destruct up as [[pos u]|]; cbn [slot reslot] in *.
  - destruct Hs as (H1 & H2 & H3 & H4).
    pose proof (rc_set_node a u (with_children (node_at a u) (set_child_index pos i (an_ch (node_at a u)))) x H2) as X.
    rewrite owned_unshared in X by assumption.
    assert (E : owned_of a u (with_children (node_at a u) (set_child_index pos i (an_ch (node_at a u))))
                = map snd (set_child_index pos i (an_ch (node_at a u)))).
    { unfold owned_of, unsh, with_children, chi. cbn [an_gen an_cgen an_ch]. rewrite H3, Nat.eqb_refl.
      destruct (Nat.leb_spec (cpn a) u); [reflexivity | lia]. }
    rewrite E in X. pose proof (cnt_set_child_index x pos i (an_ch (node_at a u)) idx H4) as Y.
    unfold chi in X. lia.
  - pose proof (rc_set_root a (Some i) x Hne) as X. rewrite rr_some in X.
    unfold rroot in X. rewrite Hs in X. unfold one in *. destruct (Nat.eqb idx x), (Nat.eqb i x); lia.
Qed.

Lemma rc_unslot a up idx x :
  a_gens a <> [] -> slot a up idx -> rc (unslot a up) x + one (Nat.eqb idx x) = rc a x.
Proof.
  intros Hne Hs. destruct up as [[pos u]|]; cbn [slot unslot] in *.
  - destruct Hs as (H1 & H2 & H3 & H4).
    pose proof (rc_set_node a u (with_children (node_at a u) (remove_nth pos (an_ch (node_at a u)))) x H2) as X.
    rewrite owned_unshared in X by assumption.
    assert (E : owned_of a u (with_children (node_at a u) (remove_nth pos (an_ch (node_at a u))))
                = map snd (remove_nth pos (an_ch (node_at a u)))).
    { unfold owned_of, unsh, with_children, chi. cbn [an_gen an_cgen an_ch]. rewrite H3, Nat.eqb_refl.
      destruct (Nat.leb_spec (cpn a) u); [reflexivity | lia]. }
    rewrite E in X. pose proof (cnt_remove_nth x pos (an_ch (node_at a u)) idx H4) as Y.
    unfold chi in X. lia.
  - pose proof (rc_set_root a None x Hne) as X. cbn [rr] in X.
    unfold rroot in X. rewrite Hs in X. unfold one in *. destruct (Nat.eqb idx x); lia.
Qed.

(** Nodes of [reslot] / [unslot]: tags are never changed. *)
Lemma reslot_tags a up i j :
  a_gens a <> [] ->
  an_gen (node_at (reslot a up i) j) = an_gen (node_at a j)
  /\ an_cgen (node_at (reslot a up i) j) = an_cgen (node_at a j)
  /\ length (a_nodes (reslot a up i)) = length (a_nodes a)
  /\ cpn (reslot a up i) = cpn a /\ gnum (reslot a up i) = gnum a.
Proof.
  intros Hne. destruct up as [[pos u]|]; cbn [reslot].
  - rewrite node_at_set_node. cbn [set_node a_nodes]. rewrite set_nth_length.
    destruct (Nat.eqb_spec u j) as [->|]; [destruct (Nat.ltb j (length (a_nodes a)))|]; auto.
  - destruct (set_root_shape a (Some i) Hne) as (older & g & E1 & E2 & En & _).
    unfold node_at, cpn, gnum, cur_checkpoint. rewrite En, E1, E2, !rev_app_distr, !app_length. cbn. auto.
Qed.

Lemma unslot_tags a up j :
  a_gens a <> [] ->
  an_gen (node_at (unslot a up) j) = an_gen (node_at a j)
  /\ an_cgen (node_at (unslot a up) j) = an_cgen (node_at a j)
  /\ length (a_nodes (unslot a up)) = length (a_nodes a)
  /\ cpn (unslot a up) = cpn a /\ gnum (unslot a up) = gnum a.
Proof.
  intros Hne. destruct up as [[pos u]|]; cbn [unslot].
  - rewrite node_at_set_node. cbn [set_node a_nodes]. rewrite set_nth_length.
    destruct (Nat.eqb_spec u j) as [->|]; [destruct (Nat.ltb j (length (a_nodes a)))|]; auto.
  - destruct (set_root_shape a None Hne) as (older & g & E1 & E2 & En & _).
    unfold node_at, cpn, gnum, cur_checkpoint. rewrite En, E1, E2, !rev_app_distr, !app_length. cbn. auto.
Qed.

(** Re-establishing the invariant from a comparison with an earlier state. *)
Lemma TInv_of a a' :
  TInv a -> cpn a' = cpn a -> gnum a' = gnum a ->
  (forall x, rc a' x <= 1) ->
  (forall x, 1 <= rc a' x -> x < length (a_nodes a') /\ an_gen (node_at a' x) = gnum a) ->
  (forall j, (an_cgen (node_at a' j) = an_cgen (node_at a j) /\ an_gen (node_at a' j) = an_gen (node_at a j)
              /\ chi (node_at a' j) = chi (node_at a j))
             \/ (cpn a <= j /\ an_cgen (node_at a' j) = an_gen (node_at a' j))) ->
  TInv a'.
Proof.
  intros T C G U Gg Nd. constructor; rewrite ?C, ?G; auto.
  - intros j c Hj Hsh Hin. destruct (Nd j) as [(E1 & E2 & E3)|(_ & E)]; [|contradiction].
    rewrite E1, E2 in Hsh. rewrite E3 in Hin. apply (T_sh a T j c Hj Hsh Hin).
  - intros j c Hj Hin. destruct (Nd j) as [(E1 & E2 & E3)|(X & _)]; [|lia].
    rewrite E3 in Hin. apply (T_old a T j c Hj Hin).
Qed.

(** * Bookkeeping relations between two arenas *)

Definition nd_ok (a a' : arena) : Prop :=
  forall j, (an_cgen (node_at a' j) = an_cgen (node_at a j) /\ an_gen (node_at a' j) = an_gen (node_at a j)
             /\ chi (node_at a' j) = chi (node_at a j))
            \/ (cpn a <= j /\ an_cgen (node_at a' j) = an_gen (node_at a' j)).

Lemma nd_refl a : nd_ok a a.
Proof. intros j. left. auto. Qed.

Lemma nd_trans a b c : nd_ok a b -> nd_ok b c -> cpn b = cpn a -> nd_ok a c.
Proof.
  intros H1 H2 C j. destruct (H2 j) as [(E1 & E2 & E3)|(X & Y)].
  - destruct (H1 j) as [(F1 & F2 & F3)|(X & Y)]; [left; repeat split; congruence|].
    right. split; [exact X | congruence].
  - right. split; [lia | exact Y].
Qed.

Lemma nd_same_nodes a a' : a_nodes a' = a_nodes a -> nd_ok a a'.
Proof. intros E j. left. unfold node_at. rewrite E. auto. Qed.

Lemma nd_set_node a i n : cpn a <= i -> an_cgen n = an_gen n -> nd_ok a (set_node a i n).
Proof.
  intros Hi E j. rewrite node_at_set_node. destruct (Nat.eqb_spec i j) as [->|]; [|left; auto].
  destruct (Nat.ltb j (length (a_nodes a))); [right; auto | left; auto].
Qed.

Lemma nd_set_node_same a i n :
  an_gen n = an_gen (node_at a i) -> an_cgen n = an_cgen (node_at a i) -> an_ch n = an_ch (node_at a i) ->
  nd_ok a (set_node a i n).
Proof.
  intros E1 E2 E3 j. left. rewrite node_at_set_node. destruct (Nat.eqb_spec i j) as [->|]; [|auto].
  destruct (Nat.ltb j (length (a_nodes a))); [|auto]. unfold chi. rewrite E1, E2, E3. auto.
Qed.

Lemma node_at_push a n j :
  node_at (push_node a n) j = if Nat.eqb j (length (a_nodes a)) then n else node_at a j.
Proof. unfold node_at. cbn [push_node a_nodes]. apply nth_app_single. Qed.

Lemma nd_push_node a n : cpn a <= length (a_nodes a) -> an_cgen n = an_gen n -> nd_ok a (push_node a n).
Proof.
  intros Hl E j. rewrite node_at_push. destruct (Nat.eqb_spec j (length (a_nodes a))) as [->|]; [right; auto | left; auto].
Qed.

Lemma nd_reslot a up idx i : a_gens a <> [] -> slot a up idx -> nd_ok a (reslot a up i).
Proof.
  intros Hne Hs. destruct up as [[pos u]|]; cbn [slot reslot] in *.
  - destruct Hs as (H1 & H2 & H3 & H4). apply nd_set_node; [exact H1 | exact H3].
  - destruct (set_root_shape a (Some i) Hne) as (_ & _ & _ & _ & En & _). apply nd_same_nodes. exact En.
Qed.

Lemma nd_unslot a up idx : a_gens a <> [] -> slot a up idx -> nd_ok a (unslot a up).
Proof.
  intros Hne Hs. destruct up as [[pos u]|]; cbn [slot unslot] in *.
  - destruct Hs as (H1 & H2 & H3 & H4). apply nd_set_node; [exact H1 | exact H3].
  - destruct (set_root_shape a None Hne) as (_ & _ & _ & _ & En & _). apply nd_same_nodes. exact En.
Qed.

(** Slots survive updates of other nodes and shape-preserving updates. *)
Lemma slot_same_nodes a a' up idx :
  a_gens a' = a_gens a -> a_nodes a' = a_nodes a -> slot a up idx -> slot a' up idx.
Proof.
  intros Eg En. destruct (cpn_gens a a' Eg) as (C & _ & R). destruct up as [[pos u]|]; cbn [slot].
  - unfold node_at. rewrite C, En. auto.
  - rewrite R. auto.
Qed.

Lemma slot_set_node_same a i n up idx :
  an_gen n = an_gen (node_at a i) -> an_cgen n = an_cgen (node_at a i) -> an_ch n = an_ch (node_at a i) ->
  slot a up idx -> slot (set_node a i n) up idx.
Proof.
  intros E1 E2 E3. destruct up as [[pos u]|]; cbn [slot]; [|auto].
  change (cpn (set_node a i n)) with (cpn a). cbn [set_node a_nodes]. rewrite set_nth_length, node_at_set_node.
  destruct (Nat.eqb_spec i u) as [->|]; [|auto]. destruct (Nat.ltb u (length (a_nodes a))); [|auto].
  unfold chi. rewrite E1, E2, E3. auto.
Qed.

Lemma relink_reslot a parent i :
  relink a parent i = reslot a (match parent with Some (p, pos) => Some (pos, p) | None => None end) i.
Proof. destruct parent as [[p pos]|]; reflexivity. Qed.

(** * Two ways the reference counts change: fresh nodes get referenced, one node loses its
    reference *)

Lemma TInv_fresh a a' fresh :
  TInv a -> cpn a' = cpn a -> gnum a' = gnum a -> length (a_nodes a) <= length (a_nodes a') ->
  NoDup fresh ->
  (forall f, In f fresh -> length (a_nodes a) <= f < length (a_nodes a') /\ an_gen (node_at a' f) = gnum a) ->
  (forall x, rc a' x = rc a x + cnt x fresh) ->
  (forall j, j < length (a_nodes a) -> an_gen (node_at a' j) = an_gen (node_at a j)) ->
  nd_ok a a' -> TInv a'.
Proof.
  intros T C G L ND Hf Hrc Hg Nd. apply (TInv_of a a' T C G); [| |exact Nd].
  - intros x. rewrite Hrc. pose proof (T_u a T x). pose proof (NoDup_count_occ Nat.eq_dec fresh) as (X & _).
    specialize (X ND x). fold (cnt x fresh) in X.
    destruct (Nat.eq_dec (cnt x fresh) 0) as [Z|Z]; [lia|].
    assert (Hin : In x fresh) by (apply cnt_pos; lia). destruct (Hf x Hin) as ((Y & _) & _).
    assert (rc a x = 0).
    { destruct (Nat.eq_dec (rc a x) 0) as [|Q]; [assumption|]. destruct (T_g a T x ltac:(lia)). lia. }
    lia.
  - intros x Hx. rewrite Hrc in Hx. destruct (Nat.eq_dec (rc a x) 0) as [Z|Z].
    + assert (Hin : In x fresh) by (apply cnt_pos; lia). destruct (Hf x Hin) as ((_ & Y) & Y2). auto.
    + destruct (T_g a T x ltac:(lia)) as (X1 & X2). split; [lia|]. rewrite Hg by exact X1. exact X2.
Qed.

Lemma TInv_dead a a' d :
  TInv a -> cpn a' = cpn a -> gnum a' = gnum a -> length (a_nodes a') = length (a_nodes a) ->
  (forall x, rc a' x + one (Nat.eqb d x) = rc a x) ->
  (forall j, j <> d -> an_gen (node_at a' j) = an_gen (node_at a j)) ->
  nd_ok a a' -> TInv a'.
Proof.
  intros T C G L Hrc Hg Nd. apply (TInv_of a a' T C G); [| |exact Nd].
  - intros x. specialize (Hrc x). pose proof (T_u a T x). lia.
  - intros x Hx. pose proof (Hrc x) as X. pose proof (T_u a T x) as U.
    assert (Hne : x <> d).
    { intros ->. rewrite Nat.eqb_refl in X. cbn in X. lia. }
    destruct (T_g a T x ltac:(lia)) as (X1 & X2). rewrite L, Hg by exact Hne. auto.
Qed.

Lemma cnt_insert_child x c i ch : cnt x (map snd (insert_child c i ch)) = cnt x (map snd ch) + one (Nat.eqb i x).
Proof.
  induction ch as [|[k j] ch IH]; cbn [insert_child].
  - cbn [map snd]. rewrite cnt_cons. cbn. lia.
  - destruct (N.ltb c k).
    + change (map snd ((c, i) :: (k, j) :: ch)) with (i :: map snd ((k, j) :: ch)). rewrite cnt_cons. lia.
    + change (map snd ((k, j) :: insert_child c i ch)) with (j :: map snd (insert_child c i ch)).
      change (map snd ((k, j) :: ch)) with (j :: map snd ch). rewrite !cnt_cons, IH. lia.
Qed.

Lemma slot_push_node a n up idx : slot a up idx -> slot (push_node a n) up idx.
Proof.
  destruct up as [[pos u]|]; cbn [slot]; [|auto].
  intros (H1 & H2 & H3 & H4). change (cpn (push_node a n)) with (cpn a).
  rewrite node_at_push. cbn [push_node a_nodes]. rewrite app_length. cbn.
  destruct (Nat.eqb_spec u (length (a_nodes a))); [lia|]. repeat split; auto; lia.
Qed.

Lemma owned_of_unshared a i n : cpn a <= i -> an_cgen n = an_gen n -> owned_of a i n = chi n.
Proof.
  intros H E. unfold owned_of, unsh. rewrite E, Nat.eqb_refl. destruct (Nat.leb_spec (cpn a) i); [reflexivity | lia].
Qed.

(** * The shape changes of [insert] *)

Lemma cnt_single x y : cnt x [y] = one (Nat.eqb y x).
Proof. rewrite cnt_cons. cbn. lia. Qed.

(** A new node is put above [idx]: it takes over the slot of [idx] and owns [idx]. *)
Lemma attach_t a up idx nn :
  TInv a -> a_gens a <> [] -> cpn a <= length (a_nodes a) -> slot a up idx ->
  an_cgen nn = an_gen nn -> an_gen nn = gnum a -> chi nn = [idx] ->
  TInv (push_node (reslot a up (length (a_nodes a))) nn).
Proof.
  intros T Hne Hl Hs Eu Eg Ec.
  set (L := length (a_nodes a)). set (a1 := reslot a up L).
  destruct (reslot_tags a up L 0 Hne) as (_ & _ & L1 & C1 & G1). fold a1 in L1, C1, G1.
  apply (TInv_fresh a (push_node a1 nn) [L] T); try assumption.
  - cbn [push_node a_nodes]. rewrite app_length, L1. lia.
  - repeat constructor. intros [].
  - intros f [<-|[]]. split.
    + cbn [push_node a_nodes]. rewrite app_length, L1. cbn. fold L. lia.
    + rewrite node_at_push, L1. fold L. rewrite Nat.eqb_refl. exact Eg.
  - intros x. rewrite rc_push_node, L1. fold L.
    rewrite owned_of_unshared by (try assumption; rewrite C1; exact Hl). rewrite Ec.
    pose proof (rc_reslot a up idx L x Hne Hs) as X. fold a1 in X. rewrite !cnt_single. lia.
  - intros j Hj. rewrite node_at_push, L1. destruct (Nat.eqb_spec j (length (a_nodes a))); [lia|].
    apply (reslot_tags a up L j Hne).
  - eapply nd_trans; [apply (nd_reslot a up idx L Hne Hs)| |exact C1].
    apply nd_push_node; [rewrite C1, L1; exact Hl | exact Eu].
Qed.

(** A stem is split: a new leaf and a new branch node (owning the leaf and [idx]) are pushed,
    the branch takes over the slot of [idx]. *)
Lemma split_t a up idx leaf br :
  TInv a -> a_gens a <> [] -> cpn a <= length (a_nodes a) -> slot a up idx ->
  an_cgen leaf = an_gen leaf -> an_gen leaf = gnum a -> chi leaf = [] ->
  an_cgen br = an_gen br -> an_gen br = gnum a ->
  (chi br = [length (a_nodes a); idx] \/ chi br = [idx; length (a_nodes a)]) ->
  TInv (reslot (push_node (push_node a leaf) br) up (S (length (a_nodes a)))).
Proof.
  intros T Hne Hl Hs El Egl Ecl Eb Egb Ecb.
  set (L := length (a_nodes a)). set (a1 := push_node a leaf). set (a2 := push_node a1 br).
  assert (Len1 : length (a_nodes a1) = S L) by (unfold a1; cbn [push_node a_nodes]; rewrite app_length; cbn; fold L; lia).
  assert (Len2 : length (a_nodes a2) = S (S L)) by (unfold a2; cbn [push_node a_nodes]; rewrite app_length, Len1; cbn; lia).
  assert (Hne2 : a_gens a2 <> []) by exact Hne.
  assert (Hs2 : slot a2 up idx) by (apply slot_push_node, slot_push_node; exact Hs).
  destruct (reslot_tags a2 up (S L) 0 Hne2) as (_ & _ & L3 & C3 & G3).
  change (cpn a2) with (cpn a) in C3. change (gnum a2) with (gnum a) in G3.
  assert (R2 : forall x, rc a2 x = rc a x + cnt x (chi br)).
  { intros x. unfold a2. rewrite rc_push_node.
    assert (Ra1 : rc a1 x = rc a x + cnt x (owned_of a (length (a_nodes a)) leaf)) by (unfold a1; apply rc_push_node).
    rewrite Ra1. rewrite (owned_of_unshared a) by assumption. rewrite Ecl.
    rewrite owned_of_unshared; [|change (cpn a1) with (cpn a); rewrite Len1; fold L in Hl; lia | exact Eb]. cbn. lia. }
  apply (TInv_fresh a (reslot a2 up (S L)) [L; S L] T); try assumption.
  - rewrite L3, Len2. fold L. lia.
  - constructor; [intros [X|[]]; lia | repeat constructor; intros []].
  - intros f Hf. rewrite L3, Len2. fold L.
    destruct (reslot_tags a2 up (S L) f Hne2) as (Tg & _). rewrite Tg.
    destruct Hf as [<-|[<-|[]]].
    + split; [lia|]. unfold a2. rewrite node_at_push, Len1. destruct (Nat.eqb_spec L (S L)); [lia|].
      unfold a1. rewrite node_at_push. fold L. rewrite Nat.eqb_refl. exact Egl.
    + split; [lia|]. unfold a2. rewrite node_at_push, Len1, Nat.eqb_refl. exact Egb.
  - intros x. pose proof (rc_reslot a2 up idx (S L) x Hne2 Hs2) as X. rewrite R2 in X.
    fold L in Ecb. destruct Ecb as [E|E]; rewrite E in X; rewrite !cnt_cons in *; cbn in *; lia.
  - intros j Hj. destruct (reslot_tags a2 up (S L) j Hne2) as (Tg & _). rewrite Tg.
    unfold a2. rewrite node_at_push, Len1. destruct (Nat.eqb_spec j (S L)); [fold L in Hj; lia|].
    unfold a1. rewrite node_at_push. fold L. destruct (Nat.eqb_spec j L); [fold L in Hj; lia | reflexivity].
  - eapply nd_trans; [|apply (nd_reslot a2 up idx (S L) Hne2 Hs2) | reflexivity].
    eapply nd_trans; [apply (nd_push_node a leaf Hl El) | | reflexivity].
    apply nd_push_node; [change (cpn a1) with (cpn a); rewrite Len1; fold L in Hl; lia | exact Eb].
Qed.

(** A new leaf is added under [idx]. *)
Lemma addleaf_t a idx c leaf :
  TInv a -> cpn a <= idx -> idx < length (a_nodes a) -> an_cgen (node_at a idx) = an_gen (node_at a idx) ->
  an_cgen leaf = an_gen leaf -> an_gen leaf = gnum a -> chi leaf = [] ->
  TInv (push_node (set_node a idx (with_children (node_at a idx)
          (insert_child c (length (a_nodes a)) (an_ch (node_at a idx))))) leaf).
Proof.
  intros T Hi Hlt Eown El Egl Ecl. set (L := length (a_nodes a)).
  set (n1 := with_children (node_at a idx) (insert_child c L (an_ch (node_at a idx)))).
  set (a1 := set_node a idx n1).
  assert (Len1 : length (a_nodes a1) = L) by (unfold a1; cbn [set_node a_nodes]; rewrite set_nth_length; reflexivity).
  assert (R1 : forall x, rc a1 x = rc a x + one (Nat.eqb L x)).
  { intros x. pose proof (rc_set_node a idx n1 x Hlt) as X. rewrite owned_unshared in X by assumption.
    rewrite owned_of_unshared in X; [|exact Hi | exact Eown].
    assert (Ec : chi n1 = map snd (insert_child c L (an_ch (node_at a idx)))) by reflexivity.
    rewrite Ec, cnt_insert_child in X. fold a1 in X. unfold chi in X. lia. }
  apply (TInv_fresh a (push_node a1 leaf) [L] T); try reflexivity.
  - cbn [push_node a_nodes]. rewrite app_length, Len1. fold L. lia.
  - repeat constructor. intros [].
  - intros f [<-|[]]. split.
    + cbn [push_node a_nodes]. rewrite app_length, Len1. cbn. fold L. lia.
    + rewrite node_at_push, Len1, Nat.eqb_refl. exact Egl.
  - intros x. rewrite rc_push_node, Len1. rewrite owned_of_unshared; [|change (cpn a1) with (cpn a); fold L; lia | exact El].
    rewrite Ecl, R1, cnt_single. cbn. lia.
  - intros j Hj. rewrite node_at_push, Len1. destruct (Nat.eqb_spec j L); [fold L in Hj; lia|].
    unfold a1. rewrite node_at_set_node. destruct (Nat.eqb_spec idx j) as [->|]; [|reflexivity].
    destruct (Nat.ltb j (length (a_nodes a))); reflexivity.
  - eapply nd_trans; [apply (nd_set_node a idx n1 Hi); exact Eown | | reflexivity].
    apply nd_push_node; [change (cpn a1) with (cpn a); rewrite Len1; fold L; lia | exact El].
Qed.

Definition swap_up (parent : option (nat * nat)) : option (nat * nat) :=
  match parent with Some (p, pos) => Some (pos, p) | None => None end.

Lemma slot_lt a up idx : TInv a -> slot a up idx -> idx < length (a_nodes a) /\ an_gen (node_at a idx) = gnum a.
Proof. intros T Hs. apply (T_g a T). eapply slot_rc. exact Hs. Qed.

Lemma insert_loop_t : forall fuel a gen idx parent k v,
  AInv a -> TInv a -> a_gens a <> [] -> cpn a <= idx -> slot a (swap_up parent) idx -> gen = gnum a ->
  TInv (fst (fst (ar_insert_loop fuel a gen idx parent k v))).
Proof.
  induction fuel as [|fuel IH]; intros a gen idx parent k v H T Hne Hi Hs Hgen; cbn [ar_insert_loop]; [exact T|].
  pose proof (AI_len a H) as (L1 & _). destruct (slot_lt a _ idx T Hs) as (Hlt & Hgi).
  destruct (follow_stem k (an_path (node_at a idx))) as [|s ps|c k'|cm kc kr sc sr] eqn:EF.
  - (* Equal *)
    destruct (an_val (node_at a idx)) as [e0|]; cbn [fst].
    + destruct (set_entry_value_shape a e0 v) as (Eg & En). eapply TInv_same_nodes; eassumption.
    + destruct (new_entry_shape a v) as (Eg & En). destruct (new_entry a v) as [a1 e]. cbn [fst] in *.
      apply TInv_set_node_same; [eapply TInv_same_nodes; eassumption | | |];
        rewrite (node_at_same_nodes a a1 idx En); reflexivity.
  - (* KeyIsPrefix *)
    destruct (new_entry_shape a v) as (Eg & En). destruct (new_entry a v) as [a1 e]. cbn [fst] in *.
    assert (T1 : TInv a1) by (eapply TInv_same_nodes; eassumption).
    assert (Nd : node_at a1 idx = node_at a idx) by (apply node_at_same_nodes; exact En).
    set (a2 := set_node a1 idx (with_path (node_at a idx) ps)).
    assert (T2 : TInv a2) by (apply TInv_set_node_same; [exact T1 | | |]; rewrite Nd; reflexivity).
    assert (S2 : slot a2 (swap_up parent) idx).
    { apply slot_set_node_same; try (rewrite Nd; reflexivity). eapply slot_same_nodes; eassumption. }
    destruct (cpn_gens a a1 Eg) as (C1 & G1 & _).
    rewrite relink_reslot. fold (swap_up parent).
    apply (attach_t a2 (swap_up parent) idx); try assumption; try reflexivity.
    + change (a_gens a2) with (a_gens a1). rewrite Eg. exact Hne.
    + change (cpn a2) with (cpn a1). unfold a2. cbn [set_node a_nodes]. rewrite set_nth_length, C1, En. exact L1.
    + cbn [an_gen]. change (gnum a2) with (gnum a1). congruence.
  - (* StemIsPrefix *)
    destruct (make_owned_ok a idx H Hi) as (O1 & Eown). destruct (make_owned_t a idx H T Hi) as (T1 & Rm).
    set (a1 := make_owned a idx) in *. destruct (Ok_cp _ _ O1) as (F1 & _ & _ & F4).
    assert (Hne1 : a_gens a1 <> []) by (eapply Below_gens_ne; [apply O1 | exact Hne]).
    assert (Hlt1 : idx < length (a_nodes a1)) by (destruct O1 as (_ & _ & X); lia).
    destruct (find_child c (an_ch (node_at a1 idx)) 0) as [[pos i]|] eqn:F.
    + destruct (find_child_nth _ _ _ _ _ F) as (_ & Hn). rewrite Nat.sub_0_r in Hn.
      destruct (find_child_in _ _ _ _ _ F) as [kk Hin].
      pose proof (make_owned_children a idx (kk, i) H Hi Hin) as Hci. cbn [snd] in Hci.
      apply IH; try assumption; try lia; try congruence; [apply O1|].
      cbn [swap_up slot]. repeat split; try assumption; lia.
    + set (leaf := mkAN gen (Some (length (a_entries a1))) k' gen []).
      set (a2 := set_node a1 idx (with_children (node_at a1 idx)
                   (insert_child c (length (a_nodes a1)) (an_ch (node_at a1 idx))))).
      destruct (new_entry_shape a2 v) as (Eg & En). destruct (new_entry a2 v) as [a3 e]. cbn [fst] in *.
      apply (TInv_same_nodes (push_node a2 (mkAN gen (Some e) k' gen []))).
      * cbn [push_node a_gens]. exact Eg.
      * cbn [push_node a_nodes]. rewrite En. reflexivity.
      * apply addleaf_t; try assumption; try reflexivity; try lia. cbn [an_gen]. congruence.
  - (* Diff *)
    set (a1 := set_node a idx (with_path (node_at a idx) sr)).
    assert (T1 : TInv a1) by (apply TInv_set_node_same; [exact T | | |]; reflexivity).
    assert (S1 : slot a1 (swap_up parent) idx) by (apply slot_set_node_same; try reflexivity; exact Hs).
    destruct (new_entry_shape a1 v) as (Eg & En). destruct (new_entry a1 v) as [a2 e]. cbn [fst] in *.
    assert (T2 : TInv a2) by (eapply TInv_same_nodes; eassumption).
    assert (S2 : slot a2 (swap_up parent) idx) by (eapply slot_same_nodes; eassumption).
    assert (Len2 : length (a_nodes a2) = length (a_nodes a)).
    { rewrite En. unfold a1. cbn [set_node a_nodes]. apply set_nth_length. }
    destruct (cpn_gens a1 a2 Eg) as (C2 & G2 & _).
    change (cpn a1) with (cpn a) in C2. change (gnum a1) with (gnum a) in G2.
    cbn [fst]. rewrite relink_reslot. fold (swap_up parent). rewrite <- Len2.
    apply (split_t a2 (swap_up parent) idx); try assumption; try reflexivity.
    + rewrite Eg. exact Hne.
    + rewrite C2, Len2. exact L1.
    + cbn [an_gen]. congruence.
    + cbn [an_gen]. congruence.
    + unfold chi. cbn [an_ch]. destruct (kc <? sc)%N; cbn [map snd]; [left | right]; reflexivity.
Qed.

Theorem ar_insert_t a key v :
  AInv a -> TInv a -> a_gens a <> [] -> TInv (fst (fst (ar_insert a key v))).
Proof.
  intros H T Hne. unfold ar_insert. destruct (cur_root a) as [r|] eqn:Er.
  - assert (Hs : slot a (swap_up None) r) by exact Er.
    apply insert_loop_t; try assumption.
    + apply (AI_root a H r Er).
    + apply (slot_lt a None r T Er).
  - pose proof (AI_len a H) as (L1 & _).
    destruct (new_entry_shape a v) as (Eg & En). destruct (new_entry a v) as [a1 e]. cbn [fst] in *.
    set (L := length (a_nodes a)). set (nn := mkAN (length (a_gens a) - 1) (Some e) (nib key) (length (a_gens a) - 1) []).
    set (a2 := push_node a1 nn).
    assert (Hne2 : a_gens a2 <> []) by (change (a_gens a2) with (a_gens a1); rewrite Eg; exact Hne).
    destruct (cpn_gens a a1 Eg) as (C1 & G1 & R1).
    destruct (reslot_tags a2 None L 0 Hne2) as (_ & _ & L3 & C3 & G3). cbn [reslot] in L3, C3, G3.
    change (cpn a2) with (cpn a1) in C3. change (gnum a2) with (gnum a1) in G3.
    assert (Len2 : length (a_nodes a2) = S L) by (unfold a2; cbn [push_node a_nodes]; rewrite app_length, En; cbn; fold L; lia).
    cbn [fst]. apply (TInv_fresh a (set_root a2 (Some L)) [L] T); try congruence.
    + rewrite L3, Len2. fold L. lia.
    + repeat constructor. intros [].
    + intros f [<-|[]]. rewrite L3, Len2. split; [fold L; lia|].
      destruct (reslot_tags a2 None L L Hne2) as (Tg & _). cbn [reslot] in Tg. rewrite Tg.
      unfold a2. rewrite node_at_push, En. fold L. rewrite Nat.eqb_refl. reflexivity.
    + intros x. pose proof (rc_set_root a2 (Some L) x Hne2) as X. rewrite rr_some in X.
      assert (Z : rroot a2 x = 0) by (unfold rroot; change (cur_root a2) with (cur_root a1); rewrite R1, Er; reflexivity).
      assert (Y : rc a2 x = rc a x).
      { unfold a2. rewrite rc_push_node. rewrite owned_of_unshared; [|rewrite C1, En; exact L1 | reflexivity].
        rewrite (rc_nodes_eq a a1 x Eg En). cbn. lia. }
      rewrite cnt_single. lia.
    + intros j Hj. destruct (reslot_tags a2 None L j Hne2) as (Tg & _). cbn [reslot] in Tg. rewrite Tg.
      unfold a2. rewrite node_at_push, En. destruct (Nat.eqb_spec j (length (a_nodes a))); [lia|].
      rewrite (node_at_same_nodes a a1 j En). reflexivity.
    + eapply nd_trans; [apply (nd_same_nodes a a1 En)| |exact C1].
      eapply nd_trans; [apply (nd_push_node a1 nn); [rewrite C1, En; exact L1 | reflexivity]| |reflexivity].
      destruct (set_root_shape a2 (Some L) Hne2) as (_ & _ & _ & _ & En2 & _). apply nd_same_nodes. exact En2.
Qed.

(** * No node references itself; slots of other nodes survive *)

Lemma two_terms_le_sum (f : nat -> nat) n u w : u <> w -> u < n -> w < n -> f u + f w <= list_sum (map f (seq 0 n)).
Proof.
  intros Hne Hu Hw. induction n as [|n IH]; [lia|]. rewrite seq_S, map_app, list_sum_app. cbn [map Nat.add].
  replace (list_sum [f n]) with (f n) by (cbn; lia).
  destruct (Nat.eq_dec u n) as [->|Hun]; destruct (Nat.eq_dec w n) as [->|Hwn]; try lia;
    try (pose proof (term_le_sum f n w ltac:(lia)); lia);
    try (pose proof (term_le_sum f n u ltac:(lia)); lia).
  all: try (specialize (IH ltac:(lia) ltac:(lia)); lia).
Qed.

Definition up_ne (up : option (nat * nat)) (idx : nat) : Prop :=
  forall pos u, up = Some (pos, u) -> u <> idx.

(** A node that is referenced from its slot cannot also be its own child. *)
Lemma child_ne a up idx i :
  TInv a -> slot a up idx -> up_ne up idx -> cpn a <= idx -> idx < length (a_nodes a) ->
  an_cgen (node_at a idx) = an_gen (node_at a idx) -> In i (chi (node_at a idx)) -> i <> idx.
Proof.
  intros T Hs Hne Hi Hlt Eown Hin ->.
  assert (Hself : 1 <= cnt idx (owned a idx)) by (rewrite owned_unshared by assumption; apply cnt_pos; exact Hin).
  pose proof (T_u a T idx) as U. destruct up as [[pos u]|]; cbn [slot] in Hs.
  - destruct Hs as (H1 & H2 & H3 & H4). specialize (Hne pos u eq_refl).
    assert (Hu : 1 <= cnt idx (owned a u)) by (rewrite owned_unshared by assumption; apply cnt_pos; eapply nth_error_In; exact H4).
    pose proof (two_terms_le_sum (fun j => cnt idx (owned a j)) _ u idx Hne H2 Hlt) as X. cbv beta in X.
    unfold rc, rcn in U. lia.
  - pose proof (owned_le_rc a idx idx Hlt) as X. unfold rc, rroot in *. rewrite Hs, Nat.eqb_refl in *.
    unfold rcn in *. pose proof (term_le_sum (fun j => cnt idx (owned a j)) _ idx Hlt) as Y. cbv beta in Y. lia.
Qed.

Lemma slot_set_node_other a i n up idx :
  (forall pos u, up = Some (pos, u) -> u <> i) -> slot a up idx -> slot (set_node a i n) up idx.
Proof.
  intros Hne. destruct up as [[pos u]|]; cbn [slot]; [|auto].
  specialize (Hne pos u eq_refl). change (cpn (set_node a i n)) with (cpn a).
  cbn [set_node a_nodes]. rewrite set_nth_length, node_at_set_node.
  destruct (Nat.eqb_spec i u); [congruence | auto].
Qed.

Lemma slot_make_owned_other a i up idx :
  AInv a -> cpn a <= i -> (forall pos u, up = Some (pos, u) -> u <> i) -> slot a up idx -> slot (make_owned a i) up idx.
Proof.
  intros H Hi Hne Hs. destruct (make_owned_ok a i H Hi) as (O1 & _).
  destruct (Ok_cp _ _ O1) as (F1 & _). destruct O1 as (_ & B1 & Ln).
  destruct up as [[pos u]|]; cbn [slot] in *.
  - destruct Hs as (H1 & H2 & H3 & H4). specialize (Hne pos u eq_refl).
    rewrite (make_owned_node_other a i u Hne H2). repeat split; auto; lia.
  - unfold cur_root in *. rewrite <- Hs. f_equal.
    pose proof (B_cp _ _ B1) as Cp. pose proof (B_older _ _ B1) as Bo. pose proof (B_glen _ _ B1) as Bl.
    (* the root of the current generation is not touched by make_owned *)
    unfold make_owned. destruct (Nat.eqb (an_cgen (node_at a i)) (an_gen (node_at a i))); [reflexivity|].
    pose proof (migrate_children_spec (an_ch (node_at a i)) a (an_gen (node_at a i)) (length (a_nodes a))) as M.
    destruct (migrate_children a (an_gen (node_at a i)) (length (a_nodes a)) (an_ch (node_at a i))) as [[a1 ns] cs].
    destruct M as (G1 & _). cbn [set_node a_gens]. rewrite G1. reflexivity.
Qed.

(** * Deletion compounds *)

(** The node [idx] (owned, exactly one child [ci]) is taken ([mem::take] leaves the default
    node), its stem is merged into the child, and the child takes over the slot. *)
Lemma collapse_t a idx up ck ci :
  TInv a -> a_gens a <> [] -> cpn a <= idx -> idx < length (a_nodes a) ->
  an_cgen (node_at a idx) = an_gen (node_at a idx) -> an_ch (node_at a idx) = [(ck, ci)] ->
  slot a up idx -> up_ne up idx ->
  TInv (collapse_into_child a idx up).
Proof.
  intros T Hne Hi Hlt Eown Ech Hs Hup. unfold collapse_into_child. rewrite Ech.
  assert (Hci : ci <> idx).
  { apply (child_ne a up idx ci T Hs Hup Hi Hlt Eown). unfold chi. rewrite Ech. left. reflexivity. }
  set (a1 := set_node a idx anode_default).
  assert (R1 : forall x, rc a1 x + one (Nat.eqb ci x) = rc a x).
  { intros x. pose proof (rc_set_node a idx anode_default x Hlt) as X. fold a1 in X.
    rewrite owned_unshared in X by assumption. unfold chi at 1 in X. rewrite Ech in X. cbn [map snd] in X.
    rewrite cnt_single in X.
    assert (Z : owned_of a idx anode_default = []) by (unfold owned_of; destruct (_ && _); reflexivity).
    rewrite Z in X. cbn in X. lia. }
  assert (N1 : node_at a1 ci = node_at a ci).
  { unfold a1. rewrite node_at_set_node. destruct (Nat.eqb_spec idx ci); [congruence | reflexivity]. }
  set (a2 := set_node a1 ci (with_path (node_at a1 ci) (an_path (node_at a idx) ++ ck :: an_path (node_at a1 ci)))).
  assert (R2 : forall x, rc a2 x = rc a1 x) by (intros x; apply rc_set_node_same; reflexivity).
  assert (S1 : slot a1 up idx) by (apply slot_set_node_other; assumption).
  assert (S2 : slot a2 up idx) by (apply slot_set_node_same; try reflexivity; exact S1).
  assert (Hne2 : a_gens a2 <> []) by exact Hne.
  change (TInv (reslot a2 up ci)).
  destruct (reslot_tags a2 up ci 0 Hne2) as (_ & _ & L3 & C3 & G3).
  assert (Len2 : length (a_nodes a2) = length (a_nodes a)).
  { unfold a2, a1. cbn [set_node a_nodes]. rewrite !set_nth_length. reflexivity. }
  change (cpn a2) with (cpn a) in C3. change (gnum a2) with (gnum a) in G3.
  apply (TInv_dead a (reslot a2 up ci) idx T); try assumption.
  - congruence.
  - intros x. pose proof (rc_reslot a2 up idx ci x Hne2 S2) as X. rewrite R2 in X. specialize (R1 x). lia.
  - intros j Hj. destruct (reslot_tags a2 up ci j Hne2) as (Tg & _). rewrite Tg.
    unfold a2. rewrite node_at_set_node. destruct (Nat.eqb_spec ci j) as [->|].
    + destruct (Nat.ltb j (length (a_nodes a1))); cbn [with_path an_gen]; rewrite ?N1; reflexivity.
    + unfold a1. rewrite node_at_set_node. destruct (Nat.eqb_spec idx j); [congruence | reflexivity].
  - eapply nd_trans; [|apply (nd_reslot a2 up idx ci Hne2 S2) | reflexivity].
    eapply nd_trans; [apply (nd_set_node a idx anode_default Hi eq_refl) | | reflexivity].
    apply nd_set_node_same; reflexivity.
Qed.

(** The (childless or invalidated) node [idx] is unhooked from its slot. *)
Lemma unslot_t a up idx :
  TInv a -> a_gens a <> [] -> slot a up idx -> TInv (unslot a up).
Proof.
  intros T Hne Hs. destruct (unslot_tags a up 0 Hne) as (_ & _ & L & C & G).
  apply (TInv_dead a (unslot a up) idx T); try assumption.
  - intros x. apply rc_unslot; assumption.
  - intros j _. apply (unslot_tags a up j Hne).
  - apply (nd_unslot a up idx Hne Hs).
Qed.

Lemma slot_make_owned a i up idx :
  AInv a -> cpn a <= i -> slot a up idx -> slot (make_owned a i) up idx.
Proof.
  intros H Hi Hs. destruct up as [[pos u]|] eqn:Eu.
  - destruct (Nat.eq_dec u i) as [->|Hne].
    + rewrite make_owned_unshared; [exact Hs | apply Hs].
    + apply slot_make_owned_other; try assumption. intros p u' E. inversion E. subst. exact Hne.
  - apply slot_make_owned_other; try assumption. intros p u' E. discriminate.
Qed.

(** The child at [pos] of the (owned) father [f] is removed; the father is merged into its
    remaining child if the flag says so and exactly one child is left. *)
Lemma remove_child_t a pos f gf idx (b : bool) :
  TInv a -> a_gens a <> [] -> slot a (Some (pos, f)) idx -> slot a gf f -> up_ne gf f ->
  TInv (if b && Nat.eqb (length (remove_nth pos (an_ch (node_at a f)))) 1
        then collapse_into_child (unslot a (Some (pos, f))) f gf
        else unslot a (Some (pos, f))).
Proof.
  intros T Hne Hs Hg Hgn.
  pose proof (unslot_t a _ idx T Hne Hs) as T5. set (a5 := unslot a (Some (pos, f))) in *.
  destruct (b && Nat.eqb (length (remove_nth pos (an_ch (node_at a f)))) 1) eqn:Ec; [|exact T5].
  apply andb_prop in Ec as (_ & Ec). apply Nat.eqb_eq in Ec.
  destruct (remove_nth pos (an_ch (node_at a f))) as [|[k ci] [|? ?]] eqn:Er; try discriminate.
  destruct Hs as (H1 & H2 & H3 & H4).
  assert (N5 : node_at a5 f = with_children (node_at a f) [(k, ci)]).
  { unfold a5. cbn [unslot]. rewrite node_at_set_node, Nat.eqb_refl, Er.
    destruct (Nat.ltb_spec f (length (a_nodes a))); [reflexivity | lia]. }
  apply (collapse_t a5 f gf k ci); try assumption.
  - unfold a5. cbn [unslot set_node a_nodes]. rewrite set_nth_length. exact H2.
  - rewrite N5. exact H3.
  - rewrite N5. reflexivity.
  - unfold a5. cbn [unslot]. apply slot_set_node_other; assumption.
Qed.

Lemma delete_loop_t : forall fuel a idx father gf k,
  AInv a -> TInv a -> a_gens a <> [] -> cpn a <= idx -> slot a father idx -> up_ne father idx ->
  (forall pos f, father = Some (pos, f) -> slot a gf f /\ up_ne gf f) ->
  TInv (fst (ar_delete_loop fuel a idx father gf k)).
Proof.
  induction fuel as [|fuel IH]; intros a idx father gf k H T Hne Hi Hs Hup Hgf; cbn [ar_delete_loop]; [exact T|].
  destruct (slot_lt a _ idx T Hs) as (Hlt & Hgi).
  destruct (follow_stem k (an_path (node_at a idx))) as [|s ps|c k'|cm kc kr sc sr] eqn:EF; try exact T.
  - destruct (an_val (node_at a idx)) as [e|] eqn:Ev; [|exact T].
    pose proof (AI_val a H idx e Hi Ev) as He.
    pose proof (kill_entry_ok a e H He) as O1. destruct (kill_entry_shape a e) as (Eg1 & En1).
    destruct (kill_entry a e) as [a1 rv]. cbn [fst] in *.
    destruct (Ok_cp _ _ O1) as (F1 & F2 & F3 & F4).
    assert (T1 : TInv a1) by (eapply TInv_same_nodes; eassumption).
    assert (O2 : Ok a1 (set_node a1 idx (with_val (node_at a1 idx) None))).
    { apply Ok_set_node; [apply O1 | lia|]. apply NodeOK_with_val; [apply AInv_node; [apply O1 | lia] | discriminate]. }
    set (a2 := set_node a1 idx (with_val (node_at a1 idx) None)) in *. destruct (Ok_cp _ _ O2) as (G1 & G2 & G3 & G4).
    assert (T2 : TInv a2) by (apply TInv_set_node_same; [exact T1 | | |]; reflexivity).
    assert (Tr2 : forall up x, slot a up x -> slot a2 up x).
    { intros up x S. apply slot_set_node_same; try reflexivity. eapply slot_same_nodes; eassumption. }
    destruct (make_owned_ok a2 idx (proj1 O2) ltac:(lia)) as (O3 & Eown).
    destruct (make_owned_t a2 idx (proj1 O2) T2 ltac:(lia)) as (T3 & _).
    assert (Tr3 : forall up x, slot a up x -> slot (make_owned a2 idx) up x).
    { intros up x S. apply slot_make_owned; [apply O2 | lia | apply Tr2; exact S]. }
    set (a3 := make_owned a2 idx) in *. destruct (Ok_cp _ _ O3) as (K1 & K2 & K3 & K4).
    assert (Hne3 : a_gens a3 <> []).
    { eapply Below_gens_ne; [apply O3|]. change (a_gens a2) with (a_gens a1). rewrite Eg1. exact Hne. }
    assert (Hlt3 : idx < length (a_nodes a3)).
    { destruct O3 as (_ & _ & X). unfold a2 in X. cbn [set_node a_nodes] in X. rewrite set_nth_length, En1 in X. lia. }
    destruct (an_ch (node_at a3 idx)) as [|[ck ci] [|c1 cr]] eqn:Ech; cbn [fst].
    + destruct father as [[child_pos fidx]|]; cbn [fst].
      * destruct (Hgf child_pos fidx eq_refl) as (Sg & Ng).
        pose proof (Tr3 _ _ Hs) as S3. rewrite make_owned_unshared by apply S3.
        pose proof (remove_child_t a3 child_pos fidx gf idx
                      (negb match an_val (node_at a3 fidx) with Some _ => true | None => false end)
                      T3 Hne3 S3 (Tr3 _ _ Sg) Ng) as X. cbn [unslot] in X.
        destruct (_ && _); exact X.
      * change (TInv (unslot a3 None)). apply (unslot_t a3 None idx); try assumption. apply (Tr3 None). exact Hs.
    + apply (collapse_t a3 idx father ck ci); try assumption; [lia|]. apply Tr3. exact Hs.
    + exact T3.
  - destruct (make_owned_ok a idx H Hi) as (O1 & Eown). destruct (make_owned_t a idx H T Hi) as (T1 & Rm).
    assert (Tr1 : forall up x, slot a up x -> slot (make_owned a idx) up x).
    { intros up x S. apply slot_make_owned; assumption. }
    set (a1 := make_owned a idx) in *. destruct (Ok_cp _ _ O1) as (F1 & _ & _ & F4).
    assert (Hne1 : a_gens a1 <> []) by (eapply Below_gens_ne; [apply O1 | exact Hne]).
    assert (Hlt1 : idx < length (a_nodes a1)) by (destruct O1 as (_ & _ & X); lia).
    destruct (find_child c (an_ch (node_at a1 idx)) 0) as [[pos i]|] eqn:F; [|exact T1].
    destruct (find_child_nth _ _ _ _ _ F) as (_ & Hn). rewrite Nat.sub_0_r in Hn.
    destruct (find_child_in _ _ _ _ _ F) as [kk Hin].
    pose proof (make_owned_children a idx (kk, i) H Hi Hin) as Hci. cbn [snd] in Hci.
    apply IH; try assumption; try lia; [apply O1 | | |].
    + cbn [slot]. repeat split; try assumption; lia.
    + intros p u E. inversion E. subst u. intros <-.
      refine (child_ne a1 father idx idx T1 (Tr1 _ _ Hs) Hup ltac:(lia) Hlt1 Eown _ eq_refl).
      unfold chi. apply in_map_iff. exists (kk, idx). split; [reflexivity | exact Hin].
    + intros p u E. inversion E. subst. split; [apply Tr1; exact Hs | exact Hup].
Qed.

Theorem ar_delete_t a key : AInv a -> TInv a -> a_gens a <> [] -> TInv (fst (ar_delete a key)).
Proof.
  intros H T Hne. unfold ar_delete. destruct (cur_root a) as [r|] eqn:Er; [|exact T].
  apply delete_loop_t; try assumption.
  - apply (AI_root a H r Er).
  - intros p u E. discriminate.
  - intros p u E. discriminate.
Qed.

Lemma invalidate_shape : forall fuel a stack,
  a_gens (invalidate fuel a stack) = a_gens a /\ a_nodes (invalidate fuel a stack) = a_nodes a.
Proof.
  induction fuel as [|fuel IH]; intros a stack; cbn [invalidate]; [auto|].
  destruct stack as [|i rest]; [auto|].
  destruct (IH (match an_val (node_at a i) with Some e => fst (kill_entry a e) | None => a end)
               ((if Nat.eqb (an_gen (node_at a i)) (an_cgen (node_at a i)) then rev (map snd (an_ch (node_at a i))) else []) ++ rest))
    as (E1 & E2).
  rewrite E1, E2. destruct (an_val (node_at a i)) as [e|]; [apply kill_entry_shape | auto].
Qed.

Lemma delete_prefix_loop_t : forall fuel a idx parent gp k,
  AInv a -> TInv a -> a_gens a <> [] -> cpn a <= idx -> slot a parent idx -> up_ne parent idx ->
  (forall pos f, parent = Some (pos, f) -> slot a gp f /\ up_ne gp f) ->
  TInv (fst (ar_delete_prefix_loop fuel a idx parent gp k)).
Proof.
  induction fuel as [|fuel IH]; intros a idx parent gp k H T Hne Hi Hs Hup Hgp; cbn [ar_delete_prefix_loop]; [exact T|].
  assert (Found : TInv (fst (
        let a1 := invalidate (S (length (a_nodes a))) a [idx] in
        match parent with
        | Some (child_pos, parent_idx) =>
            let a2 := make_owned a1 parent_idx in
            let pn := node_at a2 parent_idx in
            let has_value := match an_val pn with Some _ => true | None => false end in
            let ch' := remove_nth child_pos (an_ch pn) in
            let a3 := set_node a2 parent_idx (with_children pn ch') in
            if negb has_value && Nat.eqb (length ch') 1
            then (collapse_into_child a3 parent_idx gp, true)
            else (a3, true)
        | None => (set_root a1 None, true)
        end))).
  { cbv zeta. destruct (invalidate_shape (S (length (a_nodes a))) a [idx]) as (Eg & En).
    set (a1 := invalidate (S (length (a_nodes a))) a [idx]) in *.
    assert (T1 : TInv a1) by (eapply TInv_same_nodes; eassumption).
    assert (Tr1 : forall up x, slot a up x -> slot a1 up x) by (intros up x S; eapply slot_same_nodes; eassumption).
    assert (Hne1 : a_gens a1 <> []) by (rewrite Eg; exact Hne).
    destruct parent as [[child_pos pidx]|]; cbn [fst].
    - destruct (Hgp child_pos pidx eq_refl) as (Sg & Ng).
      pose proof (Tr1 _ _ Hs) as S1. rewrite make_owned_unshared by apply S1.
      pose proof (remove_child_t a1 child_pos pidx gp idx
                    (negb match an_val (node_at a1 pidx) with Some _ => true | None => false end)
                    T1 Hne1 S1 (Tr1 _ _ Sg) Ng) as X. cbn [unslot] in X.
      destruct (_ && _); exact X.
    - change (TInv (unslot a1 None)). apply (unslot_t a1 None idx); try assumption. apply (Tr1 None). exact Hs. }
  destruct (follow_stem k (an_path (node_at a idx))) as [|s ps|c k'|cm kc kr sc sr] eqn:EF;
    try exact Found; try exact T.
  destruct (make_owned_ok a idx H Hi) as (O1 & Eown). destruct (make_owned_t a idx H T Hi) as (T1 & Rm).
  assert (Tr1 : forall up x, slot a up x -> slot (make_owned a idx) up x).
  { intros up x S. apply slot_make_owned; assumption. }
  destruct (slot_lt a _ idx T Hs) as (Hlt & Hgi).
  set (a1 := make_owned a idx) in *. destruct (Ok_cp _ _ O1) as (F1 & _ & _ & F4).
  assert (Hne1 : a_gens a1 <> []) by (eapply Below_gens_ne; [apply O1 | exact Hne]).
  assert (Hlt1 : idx < length (a_nodes a1)) by (destruct O1 as (_ & _ & X); lia).
  destruct (find_child c (an_ch (node_at a1 idx)) 0) as [[pos i]|] eqn:F; [|exact T1].
  destruct (find_child_nth _ _ _ _ _ F) as (_ & Hn). rewrite Nat.sub_0_r in Hn.
  destruct (find_child_in _ _ _ _ _ F) as [kk Hin].
  pose proof (make_owned_children a idx (kk, i) H Hi Hin) as Hci. cbn [snd] in Hci.
  apply IH; try assumption; try lia; [apply O1 | | |].
  - cbn [slot]. repeat split; try assumption; lia.
  - intros p u E. inversion E. subst u. intros <-.
    refine (child_ne a1 parent idx idx T1 (Tr1 _ _ Hs) Hup ltac:(lia) Hlt1 Eown _ eq_refl).
    unfold chi. apply in_map_iff. exists (kk, idx). split; [reflexivity | exact Hin].
  - intros p u E. inversion E. subst. split; [apply Tr1; exact Hs | exact Hup].
Qed.

Theorem ar_delete_prefix_t a key : AInv a -> TInv a -> a_gens a <> [] -> TInv (fst (ar_delete_prefix a key)).
Proof.
  intros H T Hne. unfold ar_delete_prefix. destruct (cur_root a) as [r|] eqn:Er; [|exact T].
  apply delete_prefix_loop_t; try assumption.
  - apply (AI_root a H r Er).
  - intros p u E. discriminate.
  - intros p u E. discriminate.
Qed.

(** * Lookup, and the machine step *)

Lemma get_entry_t : forall fuel a idx k,
  AInv a -> TInv a -> cpn a <= idx -> TInv (fst (a_get_entry fuel a idx k)).
Proof.
  induction fuel as [|fuel IH]; intros a idx k H T Hi; cbn [a_get_entry]; [exact T|].
  destruct (follow_stem k (an_path (node_at a idx))) as [|s ps|c k'|cm kc kr sc sr]; cbn [fst]; try exact T.
  destruct (make_owned_ok a idx H Hi) as (O1 & Eown). destruct (make_owned_t a idx H T Hi) as (T1 & _).
  destruct (find_child c (an_ch (node_at (make_owned a idx) idx)) 0) as [[pos i]|] eqn:F; [|exact T1].
  destruct (find_child_in _ _ _ _ _ F) as [kk Hin].
  pose proof (make_owned_children a idx (kk, i) H Hi Hin) as Hci. cbn [snd] in Hci.
  destruct (Ok_cp _ _ O1) as (F1 & _).
  apply IH; [apply O1 | exact T1 | rewrite F1; exact Hci].
Qed.

Lemma lookup_key_t a key : AInv a -> TInv a -> TInv (fst (a_lookup_key a key)).
Proof.
  intros H T. unfold a_lookup_key. destruct (cur_root a) as [r|] eqn:Er; [|exact T].
  apply get_entry_t; [exact H | exact T | apply (AI_root a H r Er)].
Qed.

Theorem as_step_t o s :
  SInv s -> TInv (as_arena s) -> gen_op o = false -> TInv (as_arena (fst (as_step o s))).
Proof.
  intros (H & Hh & Hne & Hl) T Hg.
  destruct o; try discriminate Hg; cbn [as_step]; try exact T.
  - pose proof (ar_insert_t (as_arena s) k v H T Hne) as X.
    destruct (ar_insert (as_arena s) k v) as [[a1 e] existed]. cbn [fst] in *. rewrite arena_push_handle. exact X.
  - pose proof (lookup_key_t (as_arena s) k H T) as X.
    destruct (a_lookup_key (as_arena s) k) as [a1 [e|]]; cbn [fst] in *; [rewrite arena_push_handle|]; exact X.
  - destruct (nth_error (cur_handles s) h); exact T.
  - destruct (nth_error (cur_handles s) h) as [e|]; [|exact T].
    destruct (a_set_shape (as_arena s) e v) as (E1 & E2).
    destruct (a_set (as_arena s) e v) as [a1 b]. cbn [fst] in *. eapply TInv_same_nodes; eassumption.
  - destruct (nth_error (cur_handles s) h) as [e|]; [|exact T].
    destruct (a_mut_shape (as_arena s) e v) as (E1 & E2).
    destruct (a_mut (as_arena s) e v) as [a1 b]. cbn [fst] in *. eapply TInv_same_nodes; eassumption.
  - pose proof (ar_delete_t (as_arena s) k H T Hne) as X.
    destruct (ar_delete (as_arena s) k) as [a1 b]. exact X.
  - pose proof (ar_delete_prefix_t (as_arena s) k H T Hne) as X.
    destruct (ar_delete_prefix (as_arena s) k) as [a1 b]. exact X.
Qed.

(** * The generation tag of the root: a consequence of the tree invariant *)

Theorem tinv_tag_ok a : TInv a -> tag_ok a = true.
Proof.
  intros T. unfold tag_ok. destruct (cur_root a) as [r|] eqn:Er; [|reflexivity].
  apply Nat.eqb_eq. apply (T_g a T r). unfold rc, rroot. rewrite Er, Nat.eqb_refl. lia.
Qed.

(** * [new_generation] establishes the tree invariant of the new generation *)

Lemma sum_zero (f : nat -> nat) n : (forall j, j < n -> f j = 0) -> list_sum (map f (seq 0 n)) = 0.
Proof.
  intros Hz. induction n as [|n IH]; [reflexivity|]. rewrite seq_S, map_app, list_sum_app. cbn [map Nat.add].
  replace (list_sum [f n]) with (f n) by (cbn; lia). rewrite IH by (intros j Hj; apply Hz; lia). apply Hz. lia.
Qed.

(** Every child index stored anywhere in the arena is in range. *)
Lemma children_in_range a i c :
  AInv a -> TInv a -> i < length (a_nodes a) -> In c (chi (node_at a i)) -> c < length (a_nodes a).
Proof.
  intros H T Hi Hin. pose proof (AI_len a H) as (L1 & _).
  destruct (Nat.lt_ge_cases i (cpn a)) as [Hlo|Hhi].
  - pose proof (T_old a T i c Hlo Hin). lia.
  - destruct (Nat.eq_dec (an_cgen (node_at a i)) (an_gen (node_at a i))) as [E|E].
    + apply (T_g a T c). pose proof (owned_le_rc a i c Hi) as X. rewrite owned_unshared in X by assumption.
      apply cnt_pos in Hin. lia.
    + pose proof (T_sh a T i c Hhi E Hin). lia.
Qed.

Lemma TInv_newgen a g e v extra :
  AInv a -> TInv a -> a_gens a <> [] -> ag_nodes g = length (a_nodes a) ->
  (extra = [] /\ ag_root g = None
   \/ exists n', extra = [n'] /\ ag_root g = Some (length (a_nodes a)) /\ an_gen n' = S (gnum a)
                 /\ an_cgen n' <= gnum a /\ forall c, In c (chi n') -> c < length (a_nodes a)) ->
  TInv (mkA (a_gens a ++ [g]) e v (a_nodes a ++ extra)).
Proof.
  intros H T Hne Hg Hx. set (L := length (a_nodes a)) in *. set (a' := mkA (a_gens a ++ [g]) e v (a_nodes a ++ extra)).
  assert (C : cpn a' = L) by (unfold cpn, a'; rewrite cur_checkpoint_app; exact Hg).
  assert (G : gnum a' = S (gnum a)).
  { unfold gnum, a'. cbn [a_gens]. rewrite app_length. cbn. destruct (a_gens a); [congruence | cbn; lia]. }
  assert (Rt : cur_root a' = ag_root g) by apply cur_root_app.
  assert (Nlo : forall j, j < L -> node_at a' j = node_at a j).
  { intros j Hj. unfold node_at, a'. cbn [a_nodes]. apply app_nth1. exact Hj. }
  assert (Own : forall j, owned a' j = []).
  { intros j. unfold owned, owned_of. rewrite C. destruct (Nat.leb_spec L j) as [Hj|Hj]; [|reflexivity]. cbn [andb].
    destruct Hx as [(-> & _)|(n' & -> & _ & Gn & Cn & _)].
    - unfold node_at, a'. cbn [a_nodes]. rewrite app_nil_r, nth_overflow by (fold L; lia). reflexivity.
    - unfold node_at, a'. cbn [a_nodes]. rewrite nth_app_single. fold L.
      destruct (Nat.eqb_spec j L).
      + unfold unsh. destruct (Nat.eqb_spec (an_cgen n') (an_gen n')); [lia | reflexivity].
      + rewrite nth_overflow by (fold L; lia). reflexivity. }
  assert (Rn : forall x, rcn a' x = 0).
  { intros x. unfold rcn. apply sum_zero. intros j _. rewrite Own. reflexivity. }
  assert (Chi : forall j c, In c (chi (node_at a' j)) -> c < L).
  { intros j c Hin. destruct (Nat.lt_ge_cases j L) as [Hj|Hj].
    - rewrite Nlo in Hin by exact Hj. apply (children_in_range a j c H T Hj Hin).
    - destruct Hx as [(-> & _)|(n' & -> & _ & _ & _ & Hc)].
      + unfold node_at, a' in Hin. cbn [a_nodes] in Hin. rewrite app_nil_r, nth_overflow in Hin by (fold L; lia). destruct Hin.
      + unfold node_at, a' in Hin. cbn [a_nodes] in Hin. rewrite nth_app_single in Hin. fold L in Hin.
        destruct (Nat.eqb_spec j L); [apply Hc; exact Hin|].
        rewrite nth_overflow in Hin by (fold L; lia). destruct Hin. }
  constructor.
  - intros x. unfold rc. rewrite Rn. unfold rroot. destruct (cur_root a'); [destruct (Nat.eqb _ _)|]; lia.
  - intros x Hx1. unfold rc in Hx1. rewrite Rn in Hx1. unfold rroot in Hx1. rewrite Rt in Hx1.
    destruct Hx as [(_ & Er)|(n' & -> & Er & Gn & _)]; rewrite Er in Hx1; [lia|].
    destruct (Nat.eqb_spec L x) as [E|]; [|lia]. rewrite <- E. split.
    + unfold a'. cbn [a_nodes]. rewrite app_length. cbn. fold L. lia.
    + rewrite G. unfold node_at, a'. cbn [a_nodes]. rewrite nth_app_single. fold L. rewrite Nat.eqb_refl. exact Gn.
  - intros i c _ _ Hin. rewrite C. eapply Chi. exact Hin.
  - intros i c _ Hin. rewrite C. eapply Chi. exact Hin.
Qed.

Theorem new_generation_t a : AInv a -> TInv a -> a_gens a <> [] -> TInv (a_new_generation a).
Proof.
  intros H T Hne. pose proof (tinv_tag_ok a T) as Htag. unfold tag_ok in Htag.
  unfold a_new_generation. destruct (cur_root a) as [r|] eqn:Er.
  - apply Nat.eqb_eq in Htag. pose proof (migrate_shape a (node_at a r) (S (an_gen (node_at a r)))) as M.
    destruct (migrate a (node_at a r) (S (an_gen (node_at a r)))) as [a1 n'].
    destruct M as (M1 & _ & M3 & _ & M5 & _ & M7 & M8).
    cbn [push_node a_gens a_entries a_values a_nodes]. rewrite M1, M3.
    apply TInv_newgen; try assumption; [reflexivity|]. right. exists n'.
    split; [reflexivity|]. split; [reflexivity|]. split; [congruence|]. split.
    + rewrite M8. apply (AI_le a H r).
    + intros c Hin. unfold chi in Hin. rewrite M7 in Hin.
      assert (Hr : r < length (a_nodes a)) by (apply (T_g a T r); unfold rc, rroot; rewrite Er, Nat.eqb_refl; lia).
      apply (children_in_range a r c H T Hr Hin).
  - destruct (a_gens a) as [|g0 gs0] eqn:Eg; [congruence|]. rewrite <- Eg.
    replace (a_nodes a) with (a_nodes a ++ []) at 2 by apply app_nil_r.
    apply TInv_newgen; try assumption; [congruence | reflexivity | left; auto].
Qed.

Lemma TInv_empty : TInv a_empty.
Proof.
  constructor.
  - intros x. cbn. lia.
  - intros x Hx. cbn in Hx. lia.
  - intros i c _ _ Hin. unfold node_at in Hin. cbn in Hin. destruct i; destruct Hin.
  - intros i c _ Hin. unfold node_at in Hin. cbn in Hin. destruct i; destruct Hin.
Qed.

(** * Reachable states: the run-time check of [as_exec] never fails *)

Definition as_run (ops : list op) (s : astate) : astate :=
  fold_left (fun s o => fst (as_step o s)) ops s.

Lemma as_run_app a b s : as_run (a ++ b) s = as_run b (as_run a s).
Proof. apply fold_left_app. Qed.

(** The full invariant of the arena machine: ownership ([SInv]), tree shape ([TInv]), and a
    stack of saved states (one per older generation), each with the same invariants. *)
Definition Reach (s : astate) : Prop :=
  SInv s /\ TInv (as_arena s)
  /\ exists saved, Hist s saved /\ Forall (fun b => TInv (as_arena b)) saved.

Lemma Reach_init : Reach as_init.
Proof.
  split; [exact SInv_init|]. split; [exact TInv_empty|]. exists []. split; [exact Hist_init | constructor].
Qed.

Lemma Forall_skipn {A} (P : A -> Prop) n l : Forall P l -> Forall P (skipn n l).
Proof.
  revert l. induction n as [|n IH]; intros l H; [exact H|]. destruct l; [constructor|].
  inversion H; subst. cbn [skipn]. apply IH. assumption.
Qed.

Theorem Reach_step o s : Reach s -> Reach (fst (as_step o s)).
Proof.
  intros (HS & T & saved & HH & FT).
  destruct (gen_op o) eqn:Hg.
  - destruct o; try discriminate Hg.
    + (* new_generation *)
      pose proof (tinv_tag_ok _ T) as Et. destruct (newgen_step s saved HH HS Et) as (H1 & S1).
      split; [exact S1|]. split.
      * cbn [as_step fst as_arena]. destruct HS as (H & _ & Hne & _). apply new_generation_t; assumption.
      * exists (s :: saved). split; [exact H1 | constructor; assumption].
    + (* normalize *)
      pose proof HS as (_ & _ & _ & Hlc).
      destruct (Nat.le_gt_cases (length (a_gens (as_arena s))) (S r)) as [Hle|Hgt].
      * rewrite (normalize_noop s r Hlc Hle). split; [exact HS|]. split; [exact T|]. exists saved. auto.
      * destruct (normalize_hist _ s r HH HS Hgt) as (b & Hn & Hs & Hh & Sb). rewrite Hs.
        split; [exact Sb|]. split.
        -- rewrite Forall_forall in FT. apply FT. eapply nth_error_In. exact Hn.
        -- eexists. split; [exact Hh | apply Forall_skipn; exact FT].
  - split; [apply (proj1 (proj2 (as_step_cow o s HS Hg)))|]. split; [apply as_step_t; assumption|].
    exists saved. split; [apply Hist_step; assumption | exact FT].
Qed.

Lemma Reach_run : forall ops s, Reach s -> Reach (as_run ops s).
Proof.
  induction ops as [|o ops IH]; intros s R; [exact R|]. cbn [as_run fold_left]. apply IH. apply Reach_step. exact R.
Qed.

(** In a reachable state the generation tag of the root is the number of the current
    generation (the fact the extracted runner reports as [!TAG] if violated). *)
Theorem reach_tag_ok s : Reach s -> root_tag_ok (as_arena s) = true.
Proof. intros (_ & T & _). rewrite <- tag_ok_eq. apply tinv_tag_ok. exact T. Qed.

(** The checked run [as_exec] never stops: it is the plain run. *)
Theorem as_exec_run : forall ops s, Reach s -> as_exec ops s = Some (as_run ops s).
Proof.
  induction ops as [|o ops IH]; intros s R; cbn [as_exec as_run fold_left]; [reflexivity|].
  assert (E : (match o with ONewGen => tag_ok (as_arena s) | _ => true end) = true).
  { destruct o; try reflexivity. apply tinv_tag_ok. apply R. }
  rewrite E. apply IH. apply Reach_step. exact R.
Qed.

Theorem reachable_tag_ok ops : root_tag_ok (as_arena (as_run ops as_init)) = true.
Proof. apply reach_tag_ok, Reach_run, Reach_init. Qed.

(** * No leak and rollback for plain runs (no side condition) *)

Theorem arena_no_leak_run pre ops :
  let s := as_run pre as_init in
  let c := as_run (ONewGen :: ops) s in
  Forall (keeps (length (a_gens (as_arena s)))) ops ->
  firstn (length (a_nodes (as_arena s))) (a_nodes (as_arena c)) = a_nodes (as_arena s)
  /\ firstn (length (a_values (as_arena s))) (a_values (as_arena c)) = a_values (as_arena s)
  /\ firstn (length (a_entries (as_arena s))) (a_entries (as_arena c)) = a_entries (as_arena s)
  /\ firstn (length (a_gens (as_arena s))) (a_gens (as_arena c)) = a_gens (as_arena s).
Proof.
  intros s c Hk. pose proof (Reach_run pre as_init Reach_init) as R. fold s in R.
  destruct R as (HS & T & saved & HH & FT).
  apply (arena_no_leak_hist s saved ops c HH HS Hk).
  apply as_exec_run. split; [exact HS|]. split; [exact T|]. exists saved. auto.
Qed.

Theorem arena_rollback_run pre ops :
  let s := as_run pre as_init in
  Forall (keeps (length (a_gens (as_arena s)))) ops ->
  as_run (ONewGen :: ops ++ [ONormalize (length (a_gens (as_arena s)) - 1)]) s = s.
Proof.
  intros s Hk. pose proof (Reach_run pre as_init Reach_init) as R. fold s in R.
  pose proof R as (HS & T & saved & HH & FT).
  apply (arena_rollback_hist s saved ops _ HH HS Hk).
  apply as_exec_run. exact R.
Qed.
