(** Level C, first model: the arena of [MutableTrie] (low_level.rs:1132-1279, 1788-1868,
    2058-2200, 2352-2405, 2528-3143) for tries that own all their nodes (no borrowed
    persistent nodes, no iterators / locks):

    - [a_nodes]: the vector of [MutableNode]s with their [generation], the entry index of
      the value, the path (as a list of nibbles; the stored form is [Nibbles.v]) and the
      children [ChildrenCow::Owned { generation, value }] as (nibble, node index) pairs;
    - [a_entries]: [Entry::{ReadOnly, Mutable, Deleted}] pointing into [a_values];
    - [a_gens]: the generations (oldest first, as in the [Vec]) with root and
      [Checkpoint];
    - [make_owned] (copy the children of a node into the node's generation),
      [MutableNode::migrate], [new_generation], [normalize], [get_entry] (which copies on
      the way down), [with_entry] / [set] / [get_mut], [insert], [delete] (with the
      collapse of the node, its father and grandfather pointers) and [delete_prefix]
      (with the invalidation walk that stops at children of an older generation).

    Nothing is ever removed from the vectors except by [normalize]; a node that is
    "taken" ([std::mem::take]) stays in the vector as a default node.
    Definitions only; lemmas in [ArenaProofs.v]. *)
From Coq Require Import NArith PeanoNat List Bool.
From CB Require Import Trie.Radix.
From CB Require Import Trie.Locks.
Import ListNotations.
Local Open Scope N_scope.

Inductive aentry := EReadOnly (i : nat) | EMutable (i : nat) | EDeleted.

Record anode := mkAN {
  an_gen : nat;
  an_val : option nat;
  an_path : list N;
  an_cgen : nat;                 (* generation of the children vector *)
  an_ch : list (N * nat)         (* sorted by nibble *)
}.

(** [MutableNode::default()]. *)
Definition anode_default : anode := mkAN 0 None [] 0 [].

Record agen := mkAG { ag_root : option nat; ag_nodes : nat; ag_values : nat; ag_entries : nat }.

Record arena := mkA {
  a_gens : list agen;            (* oldest first *)
  a_entries : list aentry;
  a_values : list value;
  a_nodes : list anode
}.

Definition a_empty : arena := mkA [mkAG None 0 0 0] [] [] [].

Definition node_at (a : arena) (i : nat) : anode := nth i (a_nodes a) anode_default.
Definition set_node (a : arena) (i : nat) (n : anode) : arena :=
  mkA (a_gens a) (a_entries a) (a_values a) (set_nth i n (a_nodes a)).
Definition push_node (a : arena) (n : anode) : arena :=
  mkA (a_gens a) (a_entries a) (a_values a) (a_nodes a ++ [n]).
Definition push_entry (a : arena) (e : aentry) : arena :=
  mkA (a_gens a) (a_entries a ++ [e]) (a_values a) (a_nodes a).
Definition set_entry (a : arena) (i : nat) (e : aentry) : arena :=
  mkA (a_gens a) (set_nth i e (a_entries a)) (a_values a) (a_nodes a).
Definition push_value (a : arena) (v : value) : arena :=
  mkA (a_gens a) (a_entries a) (a_values a ++ [v]) (a_nodes a).
Definition set_value (a : arena) (i : nat) (v : value) : arena :=
  mkA (a_gens a) (a_entries a) (set_nth i v (a_values a)) (a_nodes a).

Definition cur_root (a : arena) : option nat :=
  match rev (a_gens a) with [] => None | g :: _ => ag_root g end.

Definition set_root (a : arena) (r : option nat) : arena :=
  match rev (a_gens a) with
  | [] => a
  | g :: older =>
      mkA (rev (mkAG r (ag_nodes g) (ag_values g) (ag_entries g) :: older))
          (a_entries a) (a_values a) (a_nodes a)
  end.

(** [MutableNode::migrate]: a copy of the node in [generation] with a fresh read-only
    entry; the children vector is shared (same generation tag and indices). *)
Definition migrate (a : arena) (n : anode) (generation : nat) : arena * anode :=
  match an_val n with
  | Some idx =>
      let e := match nth idx (a_entries a) EDeleted with
               | EMutable i => EReadOnly i
               | x => x
               end in
      (push_entry a e, mkAN generation (Some (length (a_entries a))) (an_path n) (an_cgen n) (an_ch n))
  | None => (a, mkAN generation None (an_path n) (an_cgen n) (an_ch n))
  end.

(** The copying loop of [make_owned]: the migrated children in order (their entries are
    pushed as we go, the nodes are appended afterwards). *)
Fixpoint migrate_children (a : arena) (generation : nat) (next_idx : nat) (ch : list (N * nat))
  : arena * list anode * list (N * nat) :=
  match ch with
  | [] => (a, [], [])
  | (k, i) :: r =>
      let (a1, n') := migrate a (node_at a i) generation in
      let '(a2, ns, cs) := migrate_children a1 generation (S next_idx) r in
      (a2, n' :: ns, (k, next_idx) :: cs)
  end.

(** [make_owned(idx)]: afterwards the children of node [idx] belong to its generation. *)
Definition make_owned (a : arena) (idx : nat) : arena :=
  let n := node_at a idx in
  if Nat.eqb (an_cgen n) (an_gen n) then a
  else
    let '(a1, ns, cs) := migrate_children a (an_gen n) (length (a_nodes a)) (an_ch n) in
    let a2 := mkA (a_gens a1) (a_entries a1) (a_values a1) (a_nodes a1 ++ ns) in
    set_node a2 idx (mkAN (an_gen n) (an_val n) (an_path n) (an_gen n) cs).

Fixpoint find_child (c : N) (ch : list (N * nat)) (pos : nat) : option (nat * nat) :=
  match ch with
  | [] => None
  | (k, i) :: r => if c =? k then Some (pos, i) else find_child c r (S pos)
  end.

(** Position at which a new child with nibble [c] is inserted ([Err(place)] of the binary
    search). *)
Fixpoint insert_child (c : N) (i : nat) (ch : list (N * nat)) : list (N * nat) :=
  match ch with
  | [] => [(c, i)]
  | (k, j) :: r => if c <? k then (c, i) :: ch else (k, j) :: insert_child c i r
  end.

Fixpoint set_child_index (pos : nat) (i : nat) (ch : list (N * nat)) : list (N * nat) :=
  match ch, pos with
  | [], _ => []
  | (k, _) :: r, O => (k, i) :: r
  | x :: r, S p => x :: set_child_index p i r
  end.

Fixpoint remove_nth {A} (pos : nat) (l : list A) : list A :=
  match l, pos with
  | [], _ => []
  | _ :: r, O => r
  | x :: r, S p => x :: remove_nth p r
  end.

Definition with_children (n : anode) (ch : list (N * nat)) : anode :=
  mkAN (an_gen n) (an_val n) (an_path n) (an_cgen n) ch.
Definition with_path (n : anode) (p : list N) : anode :=
  mkAN (an_gen n) (an_val n) p (an_cgen n) (an_ch n).
Definition with_val (n : anode) (v : option nat) : anode :=
  mkAN (an_gen n) v (an_path n) (an_cgen n) (an_ch n).

(** * Generations *)

(** [new_generation]. *)
Definition a_new_generation (a : arena) : arena :=
  let cpn := length (a_nodes a) in
  let cpv := length (a_values a) in
  let cpe := length (a_entries a) in
  match cur_root a with
  | Some r =>
      let root := node_at a r in
      let (a1, n') := migrate a root (S (an_gen root)) in
      let a2 := push_node a1 n' in
      mkA (a_gens a2 ++ [mkAG (Some cpn) cpn cpv cpe]) (a_entries a2) (a_values a2) (a_nodes a2)
  | None =>
      match a_gens a with
      | [] => a
      | _ => mkA (a_gens a ++ [mkAG None cpn cpv cpe]) (a_entries a) (a_values a) (a_nodes a)
      end
  end.

(** [normalize(root)]. *)
Definition a_normalize (r : nat) (a : arena) : arena :=
  match nth_error (a_gens a) (S r) with
  | Some g =>
      mkA (firstn (S r) (a_gens a)) (firstn (ag_entries g) (a_entries a))
          (firstn (ag_values g) (a_values a)) (firstn (ag_nodes g) (a_nodes a))
  | None => mkA (firstn (S r) (a_gens a)) (a_entries a) (a_values a) (a_nodes a)
  end.

(** The checkpoint of the current generation (nodes, values, entries): everything below it
    belongs to older generations.  The extracted runner checks after every operation that
    the vectors below it are unchanged. *)
Definition cur_checkpoint (a : arena) : nat * nat * nat :=
  match rev (a_gens a) with
  | [] => (0, 0, 0)%nat
  | g :: _ => (ag_nodes g, ag_values g, ag_entries g)
  end.

(** The generation tag of the root is the number of the current generation (checked by the
    extracted runner before every [new_generation]; assumed by [ArenaCow.as_exec]). *)
Definition root_tag_ok (a : arena) : bool :=
  match cur_root a with
  | Some r => Nat.eqb (an_gen (node_at a r)) (length (a_gens a) - 1)
  | None => true
  end.

(** * Entries *)

Definition a_with_entry (a : arena) (e : nat) : option value :=
  match nth_error (a_entries a) e with
  | Some (EReadOnly i) | Some (EMutable i) => nth_error (a_values a) i
  | _ => None
  end.

(** [set]: [Some] = the entry is alive. *)
Definition a_set (a : arena) (e : nat) (v : value) : arena * bool :=
  match nth_error (a_entries a) e with
  | Some (EReadOnly _) => (set_entry (push_value a v) e (EMutable (length (a_values a))), true)
  | Some (EMutable i) => (set_value a i v, true)
  | _ => (a, false)
  end.

(** [get_mut] followed by overwriting the value: returns the old value. *)
Definition a_mut (a : arena) (e : nat) (v : value) : arena * option value :=
  match nth_error (a_entries a) e with
  | Some (EReadOnly i) =>
      let old := nth i (a_values a) [] in
      (* the copy is pushed, then overwritten by the caller *)
      (set_entry (push_value a v) e (EMutable (length (a_values a))), Some old)
  | Some (EMutable i) => (set_value a i v, Some (nth i (a_values a) []))
  | _ => (a, None)
  end.

(** [set_entry_value] (used by [insert] on an existing key). *)
Definition a_set_entry_value (a : arena) (e : nat) (v : value) : arena :=
  match nth e (a_entries a) EDeleted with
  | EMutable i => set_value a i v
  | _ => set_entry (push_value a v) e (EMutable (length (a_values a)))
  end.

(** * Lookup *)

Fixpoint a_get_entry (fuel : nat) (a : arena) (node_idx : nat) (k : list N) : arena * option nat :=
  match fuel with
  | O => (a, None)
  | S f =>
      let n := node_at a node_idx in
      match follow_stem k (an_path n) with
      | FEqual => (a, an_val n)
      | FStemIsPrefix c k' =>
          let a1 := make_owned a node_idx in
          match find_child c (an_ch (node_at a1 node_idx)) 0 with
          | Some (_, i) => a_get_entry f a1 i k'
          | None => (a1, None)
          end
      | _ => (a, None)
      end
  end.

Definition a_lookup_key (a : arena) (key : list N) : arena * option nat :=
  match cur_root a with
  | None => (a, None)
  | Some r => a_get_entry (S (length (nib key))) a r (nib key)
  end.

(** * Insert *)

(** Point the parent's child slot (or the root) at node [i]. *)
Definition relink (a : arena) (parent : option (nat * nat)) (i : nat) : arena :=
  match parent with
  | Some (pidx, pos) =>
      let p := node_at a pidx in
      set_node a pidx (with_children p (set_child_index pos i (an_ch p)))
  | None => set_root a (Some i)
  end.

(** Push the new value and its [Mutable] entry; returns the entry index. *)
Definition new_entry (a : arena) (v : value) : arena * nat :=
  let vi := length (a_values a) in
  let ei := length (a_entries a) in
  (push_entry (push_value a v) (EMutable vi), ei).

Fixpoint ar_insert_loop (fuel : nat) (a : arena) (generation : nat) (node_idx : nat)
         (parent : option (nat * nat)) (k : list N) (v : value) : arena * nat * bool :=
  match fuel with
  | O => (a, 0%nat, false)
  | S f =>
      let n := node_at a node_idx in
      match follow_stem k (an_path n) with
      | FEqual =>
          match an_val n with
          | Some idx => (a_set_entry_value a idx v, idx, true)
          | None =>
              let (a1, e) := new_entry a v in
              (set_node a1 node_idx (with_val n (Some e)), e, false)
          end
      | FKeyIsPrefix s ps =>
          let (a1, e) := new_entry a v in
          let a2 := set_node a1 node_idx (with_path n ps) in
          let new_idx := length (a_nodes a2) in
          let a3 := relink a2 parent new_idx in
          (push_node a3 (mkAN generation (Some e) k generation [(s, node_idx)]), e, false)
      | FStemIsPrefix c k' =>
          let a1 := make_owned a node_idx in
          let n1 := node_at a1 node_idx in
          match find_child c (an_ch n1) 0 with
          | Some (pos, i) => ar_insert_loop f a1 generation i (Some (node_idx, pos)) k' v
          | None =>
              let new_idx := length (a_nodes a1) in
              let a2 := set_node a1 node_idx (with_children n1 (insert_child c new_idx (an_ch n1))) in
              let (a3, e) := new_entry a2 v in
              (push_node a3 (mkAN generation (Some e) k' generation []), e, false)
          end
      | FDiff cm kc kr sc sr =>
          let key_node_idx := length (a_nodes a) in
          let new_idx := S key_node_idx in
          let a1 := set_node a node_idx (with_path n sr) in
          let (a2, e) := new_entry a1 v in
          let a3 := push_node a2 (mkAN generation (Some e) kr generation []) in
          let ch := if kc <? sc then [(kc, key_node_idx); (sc, node_idx)]
                    else [(sc, node_idx); (kc, key_node_idx)] in
          let a4 := push_node a3 (mkAN generation None cm generation ch) in
          (relink a4 parent new_idx, e, false)
      end
  end.

Definition ar_insert (a : arena) (key : list N) (v : value) : arena * nat * bool :=
  match cur_root a with
  | None =>
      let generation := (length (a_gens a) - 1)%nat in
      let root_idx := length (a_nodes a) in
      let (a1, e) := new_entry a v in
      let a2 := push_node a1 (mkAN generation (Some e) (nib key) generation []) in
      (set_root a2 (Some root_idx), e, false)
  | Some r =>
      ar_insert_loop (S (length (nib key))) a (an_gen (node_at a r)) r None (nib key) v
  end.

(** * Delete *)

(** Mark an entry deleted and drop an owned value; returns whether it was alive. *)
Definition kill_entry (a : arena) (e : nat) : arena * bool :=
  match nth e (a_entries a) EDeleted with
  | EMutable i => (set_value (set_entry a e EDeleted) i [], true)
  | EReadOnly _ => (set_entry a e EDeleted, true)
  | EDeleted => (set_entry a e EDeleted, false)
  end.

(** Merge the taken node [idx] into its only child and hang the child where the node was. *)
Definition collapse_into_child (a : arena) (idx : nat) (up : option (nat * nat)) : arena :=
  let n := node_at a idx in
  match an_ch n with
  | [(ck, ci)] =>
      let a1 := set_node a idx anode_default in
      let c := node_at a1 ci in
      let a2 := set_node a1 ci (with_path c (an_path n ++ ck :: an_path c)) in
      match up with
      | Some (pos, uidx) =>
          let u := node_at a2 uidx in
          set_node a2 uidx (with_children u (set_child_index pos ci (an_ch u)))
      | None => set_root a2 (Some ci)
      end
  | _ => a
  end.

Fixpoint ar_delete_loop (fuel : nat) (a : arena) (node_idx : nat)
         (father grandfather : option (nat * nat)) (k : list N) : arena * bool :=
  match fuel with
  | O => (a, false)
  | S f =>
      let n := node_at a node_idx in
      match follow_stem k (an_path n) with
      | FEqual =>
          match an_val n with
          | None => (a, false)
          | Some e =>
              let (a1, rv) := kill_entry a e in
              let a2 := set_node a1 node_idx (with_val (node_at a1 node_idx) None) in
              let a3 := make_owned a2 node_idx in
              let n3 := node_at a3 node_idx in
              match an_ch n3 with
              | [_] => (collapse_into_child a3 node_idx father, rv)
              | [] =>
                  match father with
                  | Some (child_pos, father_idx) =>
                      let a4 := make_owned a3 father_idx in
                      let fn := node_at a4 father_idx in
                      let has_value := match an_val fn with Some _ => true | None => false end in
                      let ch' := remove_nth child_pos (an_ch fn) in
                      let a5 := set_node a4 father_idx (with_children fn ch') in
                      if negb has_value && Nat.eqb (length ch') 1
                      then (collapse_into_child a5 father_idx grandfather, rv)
                      else (a5, rv)
                  | None => (set_root a3 None, rv)
                  end
              | _ => (a3, rv)
              end
          end
      | FStemIsPrefix c k' =>
          let a1 := make_owned a node_idx in
          match find_child c (an_ch (node_at a1 node_idx)) 0 with
          | Some (pos, i) => ar_delete_loop f a1 i (Some (pos, node_idx)) father k'
          | None => (a1, false)
          end
      | _ => (a, false)
      end
  end.

Definition ar_delete (a : arena) (key : list N) : arena * bool :=
  match cur_root a with
  | None => (a, false)
  | Some r => ar_delete_loop (S (length (nib key))) a r None None (nib key)
  end.

(** * Delete prefix *)

(** The invalidation walk: a stack of node indices; the children are only visited when
    they belong to the node's own generation. *)
Fixpoint invalidate (fuel : nat) (a : arena) (stack : list nat) : arena :=
  match fuel, stack with
  | O, _ => a
  | _, [] => a
  | S f, i :: rest =>
      let n := node_at a i in
      let a1 := match an_val n with Some e => fst (kill_entry a e) | None => a end in
      let more := if Nat.eqb (an_gen n) (an_cgen n) then rev (map snd (an_ch n)) else [] in
      (* [nodes_to_invalidate.push] for each child, then [pop]: the last child first *)
      invalidate f a1 (more ++ rest)
  end.

Fixpoint ar_delete_prefix_loop (fuel : nat) (a : arena) (node_idx : nat)
         (parent grandparent : option (nat * nat)) (k : list N) : arena * bool :=
  match fuel with
  | O => (a, false)
  | S f =>
      let n := node_at a node_idx in
      match follow_stem k (an_path n) with
      | FStemIsPrefix c k' =>
          let a1 := make_owned a node_idx in
          match find_child c (an_ch (node_at a1 node_idx)) 0 with
          | Some (pos, i) => ar_delete_prefix_loop f a1 i (Some (pos, node_idx)) parent k'
          | None => (a1, false)
          end
      | FDiff _ _ _ _ _ => (a, false)
      | _ =>
          let a1 := invalidate (S (length (a_nodes a))) a [node_idx] in
          match parent with
          | Some (child_pos, parent_idx) =>
              let a2 := make_owned a1 parent_idx in
              let pn := node_at a2 parent_idx in
              let has_value := match an_val pn with Some _ => true | None => false end in
              let ch' := remove_nth child_pos (an_ch pn) in
              let a3 := set_node a2 parent_idx (with_children pn ch') in
              if negb has_value && Nat.eqb (length ch') 1
              then (collapse_into_child a3 parent_idx grandparent, true)
              else (a3, true)
          | None => (set_root a1 None, true)
          end
      end
  end.

Definition ar_delete_prefix (a : arena) (key : list N) : arena * bool :=
  match cur_root a with
  | None => (a, false)
  | Some r => ar_delete_prefix_loop (S (length (nib key))) a r None None (nib key)
  end.

(** * The arena machine on the operations of [Locks.v] that do not involve locks or
    persistence (iterators, freeze and thaw are skipped) *)

Record astate := mkAS { as_arena : arena; as_handles : list (list nat) (* newest first *) }.

Definition as_init : astate := mkAS a_empty [[]].

Definition cur_handles (s : astate) : list nat := match as_handles s with [] => [] | h :: _ => h end.
Definition push_handle (s : astate) (a : arena) (e : nat) : astate :=
  match as_handles s with
  | [] => mkAS a [[e]]
  | h :: r => mkAS a ((h ++ [e]) :: r)
  end.
Definition with_arena (s : astate) (a : arena) : astate := mkAS a (as_handles s).

Definition sizes (a : arena) : list nat :=
  [length (a_nodes a); length (a_entries a); length (a_values a); length (a_gens a)].

Definition as_step (o : op) (s : astate) : astate * out :=
  let a := as_arena s in
  match o with
  | OInsert k v =>
      let '(a1, e, existed) := ar_insert a k v in
      (push_handle s a1 e, RHandle (length (cur_handles s)) existed)
  | OGet k =>
      match a_lookup_key a k with
      | (a1, Some e) => (push_handle s a1 e, RFound (length (cur_handles s)) (a_with_entry a1 e))
      | (a1, None) => (with_arena s a1, RNone)
      end
  | ORead h =>
      match nth_error (cur_handles s) h with
      | None => (s, RSkip)
      | Some e => (s, RVal (a_with_entry a e))
      end
  | OSet h v =>
      match nth_error (cur_handles s) h with
      | None => (s, RSkip)
      | Some e => let (a1, b) := a_set a e v in (with_arena s a1, RBool b)
      end
  | OMut h v =>
      match nth_error (cur_handles s) h with
      | None => (s, RSkip)
      | Some e => let (a1, old) := a_mut a e v in (with_arena s a1, RVal old)
      end
  | ODelete k => let (a1, b) := ar_delete a k in (with_arena s a1, RBool b)
  | ODeletePrefix k => let (a1, b) := ar_delete_prefix a k in (with_arena s a1, RBool b)
  | ONewGen =>
      let a1 := a_new_generation a in
      (mkAS a1 ([] :: as_handles s), RGens (length (a_gens a1)))
  | ONormalize r =>
      let a1 := a_normalize r a in
      (mkAS a1 (normalize r (as_handles s)), RGens (length (a_gens a1)))
  | _ => (s, RSkip)
  end.
