(** * Trie/ArenaSep.v — the arena as a separated tree: abstraction RELATION with footprints

    [ArenaView.v] unfolds the arena to a fixed depth ([abs_t d]).  For the mutating
    operations a depth-indexed function is not enough: one needs (1) a height bound (so
    that the depth can be chosen) and (2) a frame argument (updating a node on the path
    does not change the view of the siblings), i.e. the sub-arenas of distinct children are
    disjoint.  Both are packaged here in one relation:

      [Tr a idx t fp]  -  node [idx] of arena [a] unfolds to the (finite!) radix tree [t] of
                          entry indices, and [fp] lists the node indices visited, each
                          visit once.

    [NoDup fp] is then exactly "the reachable sets of distinct children are disjoint and do
    not contain the node itself", and the existence of [t] is the height bound:
    [Tr_abs : Tr a idx t fp -> theight t <= d -> abs_t d a idx = t].

    This file: the relation, the frame lemma, the link to [abs_t] / [vview], and the
    effect of [make_owned] (which copies the children of a node and renumbers their
    entries) on the relation - nodes, values AND the entry renaming.
    No assumption about generations is needed for any of this. *)
From Coq Require Import NArith PeanoNat List Bool Lia Permutation.
From CB Require Import Trie.Radix.
From CB Require Import Trie.RadixProofs.
From CB Require Import Trie.Locks.
From CB Require Import Trie.LocksProofs.
From CB Require Import Trie.Arena.
From CB Require Import Trie.ArenaProofs.
From CB Require Import Trie.ArenaCow.
From CB Require Import Trie.ArenaTree.
From CB Require Import Trie.ArenaView.
Import ListNotations.
Local Open Scope nat_scope.

(** * The relation *)

Fixpoint Tr (a : arena) (idx : nat) (t : tree nat) (fp : list nat) {struct t} : Prop :=
  match t with
  | Node p ov cs =>
      p = an_path (node_at a idx) /\ ov = an_val (node_at a idx) /\
      exists fp', fp = idx :: fp' /\ TrF a (an_ch (node_at a idx)) cs fp'
  end
with TrF (a : arena) (ch : list (N * nat)) (f : forest nat) (fp : list nat) {struct f} : Prop :=
  match f with
  | FNil => ch = [] /\ fp = []
  | FCons c t r => exists i ch' fp1 fp2,
      ch = (c, i) :: ch' /\ fp = fp1 ++ fp2 /\ Tr a i t fp1 /\ TrF a ch' r fp2
  end.

Fixpoint tentries (t : tree nat) : list nat :=
  match t with
  | Node _ ov cs => (match ov with Some e => [e] | None => [] end) ++ fentries cs
  end
with fentries (f : forest nat) : list nat :=
  match f with
  | FNil => []
  | FCons _ t r => tentries t ++ fentries r
  end.

Fixpoint theight (t : tree nat) : nat :=
  match t with Node _ _ cs => S (fheight cs) end
with fheight (f : forest nat) : nat :=
  match f with FNil => 0 | FCons _ t r => Nat.max (theight t) (fheight r) end.

Lemma Tr_frame_mut a a' :
  (forall t idx fp, Tr a idx t fp -> (forall j, In j fp -> node_at a' j = node_at a j) -> Tr a' idx t fp)
  /\ (forall f ch fp, TrF a ch f fp -> (forall j, In j fp -> node_at a' j = node_at a j) -> TrF a' ch f fp).
Proof.
  apply tree_forest_ind.
  - intros p ov f IH idx fp (E1 & E2 & fp' & E3 & HF) Hfr. cbn [Tr]. subst fp.
    rewrite (Hfr idx (or_introl eq_refl)). split; [exact E1|]. split; [exact E2|]. exists fp'. split; [reflexivity|].
    apply IH; [exact HF|]. intros j Hj. apply Hfr. right. exact Hj.
  - intros ch fp H _. exact H.
  - intros c t IHt f IHf ch fp (i & ch' & fp1 & fp2 & E1 & E2 & H1 & H2) Hfr. cbn [TrF]. subst fp.
    exists i, ch', fp1, fp2. split; [exact E1|]. split; [reflexivity|]. split.
    + apply IHt; [exact H1|]. intros j Hj. apply Hfr. apply in_or_app. left. exact Hj.
    + apply IHf; [exact H2|]. intros j Hj. apply Hfr. apply in_or_app. right. exact Hj.
Qed.

Lemma Tr_frame a a' t idx fp :
  Tr a idx t fp -> (forall j, In j fp -> node_at a' j = node_at a j) -> Tr a' idx t fp.
Proof. apply (proj1 (Tr_frame_mut a a')). Qed.
Lemma TrF_frame a a' f ch fp :
  TrF a ch f fp -> (forall j, In j fp -> node_at a' j = node_at a j) -> TrF a' ch f fp.
Proof. apply (proj2 (Tr_frame_mut a a')). Qed.

Lemma Tr_head a idx t fp : Tr a idx t fp -> exists fp', fp = idx :: fp'.
Proof. destruct t as [p ov cs]. intros (_ & _ & fp' & E & _). eauto. Qed.

(** The relation determines the depth-indexed abstraction function for every depth at
    least the height of the tree. *)
Lemma Tr_abs_mut a :
  (forall t idx fp, Tr a idx t fp -> forall d, theight t <= d -> abs_t d a idx = t)
  /\ (forall f ch fp, TrF a ch f fp -> forall d, fheight f <= d -> mk_forest (abs_t d a) ch = f).
Proof.
  apply tree_forest_ind.
  - intros p ov f IH idx fp (E1 & E2 & fp' & E3 & HF) d Hd. cbn [theight] in Hd.
    destruct d as [|d]; [lia|]. cbn [abs_t]. rewrite <- E1, <- E2. f_equal. apply (IH _ _ HF). lia.
  - intros ch fp (E & _) d _. subst ch. reflexivity.
  - intros c t IHt f IHf ch fp (i & ch' & fp1 & fp2 & E1 & E2 & H1 & H2) d Hd. cbn [fheight] in Hd. subst ch.
    cbn [mk_forest]. f_equal; [apply (IHt _ _ H1); lia | apply (IHf _ _ H2); lia].
Qed.

Lemma Tr_abs a t idx fp d : Tr a idx t fp -> theight t <= d -> abs_t d a idx = t.
Proof. intros H. apply (proj1 (Tr_abs_mut a) t idx fp H). Qed.

Lemma Tr_vview a t idx fp d : Tr a idx t fp -> theight t <= d -> vview d a idx = tmap (a_with_entry a) t.
Proof. intros H Hd. unfold vview. rewrite (Tr_abs a t idx fp d H Hd). reflexivity. Qed.

Lemma Tr_entries_mut a :
  EInv a ->
  (forall t idx fp, Tr a idx t fp -> Forall (fun e => e < length (a_entries a)) (tentries t))
  /\ (forall f ch fp, TrF a ch f fp -> Forall (fun e => e < length (a_entries a)) (fentries f)).
Proof.
  intros HE. apply tree_forest_ind.
  - intros p ov f IH idx fp (E1 & E2 & fp' & E3 & HF). cbn [tentries]. apply Forall_app. split; [|apply (IH _ _ HF)].
    destruct ov as [e|]; [|constructor]. constructor; [|constructor]. apply (HE idx e). symmetry. exact E2.
  - intros. constructor.
  - intros c t IHt f IHf ch fp (i & ch' & fp1 & fp2 & E1 & E2 & H1 & H2). cbn [fentries]. apply Forall_app. eauto.
Qed.

Lemma tmap_ext_mut {B} (g h : nat -> B) :
  (forall t, (forall e, In e (tentries t) -> g e = h e) -> tmap g t = tmap h t)
  /\ (forall f, (forall e, In e (fentries f) -> g e = h e) -> tmap_f g f = tmap_f h f).
Proof.
  apply tree_forest_ind.
  - intros p ov f IH H. cbn [tmap]. f_equal.
    + destruct ov as [e|]; [|reflexivity]. cbn [option_map]. f_equal. apply H. cbn [tentries]. left. reflexivity.
    + apply IH. intros e He. apply H. cbn [tentries]. apply in_or_app. right. exact He.
  - reflexivity.
  - intros c t IHt f IHf H. cbn [tmap_f]. f_equal.
    + apply IHt. intros e He. apply H. cbn [fentries]. apply in_or_app. left. exact He.
    + apply IHf. intros e He. apply H. cbn [fentries]. apply in_or_app. right. exact He.
Qed.

(** * Entries as data *)

Definition edat (a : arena) (e : nat) : aentry := nth e (a_entries a) EDeleted.
Definition ro (x : aentry) : aentry := match x with EMutable i => EReadOnly i | y => y end.
Definition eptr (x : aentry) : option nat :=
  match x with EReadOnly i | EMutable i => Some i | EDeleted => None end.

Lemma with_entry_edat a e :
  a_with_entry a e = match eptr (edat a e) with Some i => nth_error (a_values a) i | None => None end.
Proof.
  unfold a_with_entry, edat. destruct (nth_error (a_entries a) e) as [x|] eqn:E.
  - rewrite (nth_error_nth _ _ EDeleted E). destruct x; reflexivity.
  - apply nth_error_None in E. rewrite nth_overflow by exact E. reflexivity.
Qed.

Lemma eptr_ro x : eptr (ro x) = eptr x.
Proof. destruct x; reflexivity. Qed.

Lemma ro_not_mut x i : ro x <> EMutable i.
Proof. destruct x; discriminate. Qed.

Lemma mig_spec a n g :
  let '(a', n') := migrate a n g in
  a_gens a' = a_gens a /\ a_values a' = a_values a /\ a_nodes a' = a_nodes a
  /\ an_path n' = an_path n /\ an_ch n' = an_ch n
  /\ match an_val n with
     | None => a_entries a' = a_entries a /\ an_val n' = None
     | Some e => a_entries a' = a_entries a ++ [ro (edat a e)] /\ an_val n' = Some (length (a_entries a))
     end.
Proof.
  unfold migrate. destruct (an_val n) as [e|]; cbn; repeat split; try reflexivity.
  unfold edat, ro. destruct (nth e (a_entries a) EDeleted); reflexivity.
Qed.

(** What [migrate_children] produces, relative to the arena [a] it started from and any
    later arena [A] that still has the entries it pushed. *)
Fixpoint mcrel (a A : arena) (lo next : nat) (ch : list (N * nat)) (ns : list anode) (cs : list (N * nat)) : Prop :=
  match ch, ns, cs with
  | [], [], [] => True
  | (k, i) :: ch', n :: ns', (k', j) :: cs' =>
      k' = k /\ j = next /\ an_path n = an_path (node_at a i) /\ an_ch n = an_ch (node_at a i)
      /\ match an_val (node_at a i) with
         | None => an_val n = None /\ mcrel a A lo (S next) ch' ns' cs'
         | Some e => an_val n = Some lo /\ edat A lo = ro (edat a e) /\ lo < length (a_entries A)
                     /\ mcrel a A (S lo) (S next) ch' ns' cs'
         end
  | _, _, _ => False
  end.

Lemma mcrel_ext a1 a A : forall ch lo next ns cs,
  a_nodes a1 = a_nodes a ->
  (forall k i e, In (k, i) ch -> an_val (node_at a i) = Some e -> edat a1 e = edat a e) ->
  mcrel a1 A lo next ch ns cs -> mcrel a A lo next ch ns cs.
Proof.
  induction ch as [|[k i] ch IH]; intros lo next [|n ns] [|[k' j] cs] En Hd; cbn [mcrel]; auto.
  assert (Nd : node_at a1 i = node_at a i) by (unfold node_at; rewrite En; reflexivity). rewrite Nd.
  intros (H1 & H2 & H3 & H4 & H5). split; [exact H1|]. split; [exact H2|]. split; [exact H3|]. split; [exact H4|].
  assert (Hd' : forall k0 i0 e, In (k0, i0) ch -> an_val (node_at a i0) = Some e -> edat a1 e = edat a e).
  { intros k0 i0 e Hin. apply (Hd k0 i0 e). right. exact Hin. }
  destruct (an_val (node_at a i)) as [e|] eqn:Ev.
  - destruct H5 as (G1 & G2 & G3 & G4). split; [exact G1|]. split; [|split; [exact G3 | apply IH; assumption]].
    rewrite G2. f_equal. apply (Hd k i e); [left; reflexivity | exact Ev].
  - destruct H5 as (G1 & G2). split; [exact G1 | apply IH; assumption].
Qed.

Lemma edat_app1 a a' es e : a_entries a' = a_entries a ++ es -> e < length (a_entries a) -> edat a' e = edat a e.
Proof. intros E H. unfold edat. rewrite E, app_nth1 by exact H. reflexivity. Qed.

Lemma mc_spec : forall ch a g next,
  (forall k i e, In (k, i) ch -> an_val (node_at a i) = Some e -> e < length (a_entries a)) ->
  let '(a', ns, cs) := migrate_children a g next ch in
  a_gens a' = a_gens a /\ a_values a' = a_values a /\ a_nodes a' = a_nodes a
  /\ (exists es, a_entries a' = a_entries a ++ es) /\ length ns = length ch
  /\ forall A, (forall e, e < length (a_entries a') -> edat A e = edat a' e) ->
               length (a_entries a') <= length (a_entries A) ->
               mcrel a A (length (a_entries a)) next ch ns cs.
Proof.
  induction ch as [|[k i] ch IH]; intros a g next HE; cbn [migrate_children].
  - repeat split; auto. exists []. rewrite app_nil_r. reflexivity.
  - pose proof (mig_spec a (node_at a i) g) as M. destruct (migrate a (node_at a i) g) as [a1 n'].
    destruct M as (G1 & V1 & N1 & P1 & C1 & M).
    assert (E1 : exists es1, a_entries a1 = a_entries a ++ es1).
    { destruct (an_val (node_at a i)); destruct M as (M & _); [eexists; exact M | exists []; rewrite app_nil_r; exact M]. }
    destruct E1 as (es1 & E1).
    assert (Nd : forall j, node_at a1 j = node_at a j) by (intros j; unfold node_at; rewrite N1; reflexivity).
    assert (HE1 : forall k0 i0 e, In (k0, i0) ch -> an_val (node_at a1 i0) = Some e -> e < length (a_entries a1)).
    { intros k0 i0 e Hin Hv. rewrite Nd in Hv. pose proof (HE k0 i0 e (or_intror Hin) Hv). rewrite E1, app_length. lia. }
    specialize (IH a1 g (S next) HE1). destruct (migrate_children a1 g (S next) ch) as [[a2 ns] cs].
    destruct IH as (G2 & V2 & N2 & (es2 & E2) & Ln & R).
    split; [congruence|]. split; [congruence|]. split; [congruence|].
    split; [exists (es1 ++ es2); rewrite E2, E1, app_assoc; reflexivity|]. split; [cbn; congruence|].
    intros A HA HL. cbn [mcrel]. split; [reflexivity|]. split; [reflexivity|]. split; [exact P1|]. split; [exact C1|].
    assert (R' : mcrel a A (length (a_entries a1)) (S next) ch ns cs).
    { apply (mcrel_ext a1 a A); [exact N1| |apply R; assumption].
      intros k0 i0 e Hin Hv. apply (edat_app1 a a1 es1 e E1). apply (HE k0 i0 e (or_intror Hin) Hv). }
    destruct (an_val (node_at a i)) as [e|] eqn:Ev; destruct M as (M1 & M2).
    + assert (L1 : length (a_entries a1) = S (length (a_entries a))) by (rewrite M1, app_length; cbn; lia).
      split; [exact M2|]. split; [|split; [rewrite E2, app_length in HL; lia | rewrite <- L1; exact R']].
      rewrite HA by (rewrite E2, app_length; lia). rewrite (edat_app1 a1 a2 es2 _ E2) by lia.
      unfold edat at 1. rewrite M1, app_nth2, Nat.sub_diag by lia. reflexivity.
    + split; [exact M2|]. rewrite M1 in R'. exact R'.
Qed.

(** * List helper *)

Lemma nd_app {A} (l l' : list A) :
  NoDup (l ++ l') <-> NoDup l /\ NoDup l' /\ (forall x, In x l -> In x l' -> False).
Proof.
  induction l as [|x l IH]; cbn [app].
  - split; [intros H; split; [constructor | split; [exact H | intros x []]] | intros (_ & H & _); exact H].
  - split.
    + intros H. inversion H as [|? ? Hn Hd]; subst. apply IH in Hd. destruct Hd as (D1 & D2 & D3).
      split; [constructor; [intros X; apply Hn; apply in_or_app; left; exact X | exact D1]|].
      split; [exact D2|]. intros y [->|Hy] Hy'; [apply Hn; apply in_or_app; right; exact Hy' | eapply D3; eauto].
    + intros (H1 & H2 & H3). inversion H1 as [|? ? Hn Hd]; subst. constructor.
      * intros X. apply in_app_or in X. destruct X as [X|X]; [exact (Hn X) | apply (H3 x (or_introl eq_refl) X)].
      * apply IH. split; [exact Hd|]. split; [exact H2|]. intros y Hy. apply H3. right. exact Hy.
Qed.

(** * [make_owned] on the relation *)

Section Copies.
Variables a A : arena.
Let Le := length (a_entries a).

(** An entry of the new tree is the old one, or a fresh read-only copy of it. *)
Definition eren (e e1 : nat) : Prop :=
  e1 = e \/ (Le <= e1 < length (a_entries A) /\ edat A e1 = ro (edat a e)).

Lemma eren_refl_list l : Forall2 eren l l.
Proof. induction l; constructor; [left; reflexivity | assumption]. Qed.

Lemma mk_tr : forall f ch ns cs fp lo next,
  TrF a ch f fp -> mcrel a A lo next ch ns cs ->
  (forall p n', nth_error ns p = Some n' -> node_at A (next + p) = n') ->
  (forall j, In j fp -> node_at A j = node_at a j) ->
  (forall e, e < Le -> edat A e = edat a e) -> a_values A = a_values a ->
  Le <= lo ->
  NoDup fp -> Forall (fun j => j < next) fp ->
  Forall (fun e => e < Le) (fentries f) ->
  exists f1 fp1, TrF A cs f1 fp1 /\ NoDup fp1
    /\ (forall j, In j fp1 -> In j fp \/ (next <= j < next + length ch))
    /\ tmap_f (a_with_entry A) f1 = tmap_f (a_with_entry a) f
    /\ Forall2 eren (fentries f) (fentries f1)
    /\ (forall e, In e (fentries f1) -> In e (fentries f) \/ lo <= e)
    /\ (NoDup (fentries f) -> NoDup (fentries f1)).
Proof.
  induction f as [|c t r IH]; intros ch ns cs fp lo next HT HM Hns Hfr Hed Hv Hlo Hnd Hb Heb.
  - destruct HT as (-> & ->). destruct ns, cs; cbn [mcrel] in HM; try contradiction.
    exists FNil, []. split; [split; reflexivity|]. split; [constructor|]. split; [intros j []|].
    split; [reflexivity|]. split; [constructor|]. split; [intros e []|]. auto.
  - destruct HT as (i & ch' & fpt & fp2 & -> & -> & Ht & Hr).
    destruct ns as [|n ns]; [contradiction|]. destruct cs as [|[k' j] cs]; [contradiction|].
    cbn [mcrel] in HM. destruct HM as (-> & -> & Pn & Cn & HM).
    destruct t as [p ov gcs]. destruct Ht as (Ep & Ev & fpt' & -> & Hg).
    cbn [fentries tentries] in Heb. apply Forall_app in Heb. destruct Heb as (Heb1 & Heb2).
    apply Forall_app in Heb1. destruct Heb1 as (Hov & Hgcs).
    apply Forall_app in Hb. destruct Hb as (Hb1 & Hb2). pose proof (Forall_inv Hb1) as Hi. pose proof (Forall_inv_tail Hb1) as Hb1'.
    apply nd_app in Hnd. destruct Hnd as (Nd1 & Nd2 & Nd3). apply NoDup_cons_iff in Nd1. destruct Nd1 as (Ni & Nd1').
    assert (WE : forall e, e < Le -> a_with_entry A e = a_with_entry a e).
    { intros e He. rewrite !with_entry_edat. rewrite (Hed e He), Hv. reflexivity. }
    assert (Hn0 : node_at A next = n) by (rewrite <- (Nat.add_0_r next); apply Hns; reflexivity).
    (* the copy of the child *)
    assert (Tn : Tr A next (Node p (an_val n) gcs) (next :: fpt')).
    { cbn [Tr]. rewrite Hn0. split; [congruence|]. split; [reflexivity|]. exists fpt'. split; [reflexivity|].
      rewrite Cn. apply (TrF_frame a A); [exact Hg|]. intros x Hx. apply Hfr. apply in_or_app. left. right. exact Hx. }
    assert (Vg : tmap_f (a_with_entry A) gcs = tmap_f (a_with_entry a) gcs).
    { apply (proj2 (tmap_ext_mut _ _)). intros e He. apply WE. rewrite Forall_forall in Hgcs. apply Hgcs. exact He. }
    (* the rest *)
    set (lo' := match ov with Some _ => S lo | None => lo end).
    assert (HM' : mcrel a A lo' (S next) ch' ns cs).
    { unfold lo'. rewrite Ev. destruct (an_val (node_at a i)); [apply HM | apply HM]. }
    destruct (IH ch' ns cs fp2 lo' (S next) Hr HM') as (r1 & fpr & T1 & N1 & D1 & V1 & F1 & G1 & U1).
    { intros q n' Hq. replace (S next + q) with (next + S q) by lia. apply Hns. exact Hq. }
    { intros x Hx. apply Hfr. apply in_or_app. right. exact Hx. }
    { exact Hed. } { exact Hv. } { unfold lo'. destruct ov; lia. } { exact Nd2. }
    { eapply Forall_impl; [|exact Hb2]. cbn. intros; lia. } { exact Heb2. }
    exists (FCons c (Node p (an_val n) gcs) r1), ((next :: fpt') ++ fpr).
    split; [cbn [TrF]; exists next, cs, (next :: fpt'), fpr; auto|].
    split.
    { apply nd_app. split; [constructor; [|exact Nd1']|split; [exact N1|]].
      - intros X. rewrite Forall_forall in Hb1'. specialize (Hb1' _ X). lia.
      - intros x [<-|Hx] Hx'.
        + destruct (D1 _ Hx') as [Y|Y]; [|lia]. rewrite Forall_forall in Hb2. specialize (Hb2 _ Y). lia.
        + destruct (D1 _ Hx') as [Y|Y]; [apply (Nd3 x (or_intror Hx) Y)|].
          rewrite Forall_forall in Hb1'. specialize (Hb1' _ Hx). lia. }
    split.
    { intros x Hx. apply in_app_or in Hx. cbn [length]. destruct Hx as [[<-|Hx]|Hx].
      - right. lia.
      - left. apply in_or_app. left. right. exact Hx.
      - destruct (D1 _ Hx) as [Y|Y]; [left; apply in_or_app; right; exact Y | right; lia]. }
    split.
    { cbn [tmap_f tmap]. f_equal; [|exact V1]. f_equal; [|exact Vg].
      rewrite Ev. destruct (an_val (node_at a i)) as [e|] eqn:Evi.
      - destruct HM as (G1' & G2' & G3' & _). rewrite G1'. cbn [option_map]. f_equal.
        rewrite !with_entry_edat. rewrite G2', eptr_ro, Hv. reflexivity.
      - destruct HM as (G1' & _). rewrite G1'. reflexivity. }
    assert (Hval : match ov with
                   | Some e => an_val n = Some lo /\ edat A lo = ro (edat a e) /\ lo < length (a_entries A)
                   | None => an_val n = None end).
    { rewrite Ev. destruct (an_val (node_at a i)); [destruct HM as (X1 & X2 & X3 & _); auto | apply HM]. }
    split.
    { cbn [fentries tentries]. apply Forall2_app; [|exact F1]. apply Forall2_app; [|apply eren_refl_list].
      destruct ov as [e|].
      - destruct Hval as (X1 & X2 & X3). rewrite X1. constructor; [|constructor]. right. split; [lia | exact X2].
      - rewrite Hval. constructor. }
    split.
    { intros e He. cbn [fentries tentries] in He |- *. apply in_app_or in He. destruct He as [He|He].
      - apply in_app_or in He. destruct He as [He|He].
        + destruct ov as [e0|]; [destruct Hval as (X1 & _)|]; [rewrite X1 in He|rewrite Hval in He]; cbn in He.
          * destruct He as [<-|[]]. right. lia.
          * contradiction.
        + left. apply in_or_app. left. apply in_or_app. right. exact He.
      - destruct (G1 _ He) as [Y|Y]; [left; apply in_or_app; right; exact Y | right; unfold lo' in Y; destruct ov; lia]. }
    intros ND. cbn [fentries tentries] in ND |- *. apply nd_app in ND. destruct ND as (ND1 & ND2 & ND3).
    apply nd_app in ND1. destruct ND1 as (ND1a & ND1b & ND1c).
    apply nd_app. split; [|split; [apply U1; exact ND2|]].
    + apply nd_app. split; [|split; [exact ND1b|]].
      * destruct (an_val n); constructor; [intros [] | constructor].
      * intros e He He'. destruct ov as [e0|]; [destruct Hval as (X1 & _)|]; [rewrite X1 in He|rewrite Hval in He]; cbn in He; [|contradiction].
        destruct He as [<-|[]]. rewrite Forall_forall in Hgcs. specialize (Hgcs _ He'). lia.
    + intros e He He'. apply in_app_or in He. destruct He as [He|He].
      * destruct ov as [e0|]; [destruct Hval as (X1 & _)|]; [rewrite X1 in He|rewrite Hval in He]; cbn in He; [|contradiction].
        destruct He as [<-|[]]. destruct (G1 _ He') as [Y|Y]; [|unfold lo' in Y; lia].
        rewrite Forall_forall in Heb2. specialize (Heb2 _ Y). lia.
      * destruct (G1 _ He') as [Y|Y].
        -- apply (ND3 e); [apply in_or_app; right; exact He | exact Y].
        -- rewrite Forall_forall in Hgcs. specialize (Hgcs _ He). unfold lo' in Y. destruct ov; lia.
Qed.

End Copies.

Lemma TrF_child_entry a : forall f ch fp k i e,
  TrF a ch f fp -> In (k, i) ch -> an_val (node_at a i) = Some e -> In e (fentries f).
Proof.
  induction f as [|c t r IH]; intros ch fp k i e HT Hin Hv.
  - destruct HT as (-> & _). contradiction.
  - destruct HT as (i0 & ch' & fp1 & fp2 & -> & -> & Ht & Hr). cbn [fentries]. apply in_or_app.
    destruct Hin as [X|X].
    + inversion X; subst. left. destruct t as [p ov gcs]. destruct Ht as (_ & Ev & _). cbn [tentries].
      rewrite Ev, Hv. left. reflexivity.
    + right. eapply IH; eauto.
Qed.

Lemma eren_bound a A l l1 :
  length (a_entries a) <= length (a_entries A) ->
  Forall (fun e => e < length (a_entries a)) l -> Forall2 (eren a A) l l1 ->
  Forall (fun e => e < length (a_entries A)) l1.
Proof.
  intros Hle Hl F. induction F as [|e e1 l l1 [->|((_ & X) & _)] _ IH]; [constructor| |].
  - constructor; [pose proof (Forall_inv Hl); cbn in *; lia | apply IH; exact (Forall_inv_tail Hl)].
  - constructor; [exact X | apply IH; exact (Forall_inv_tail Hl)].
Qed.

(** [make_owned] keeps the separated-tree relation (new tree, new footprint, same values),
    renames entries of the children to fresh read-only copies, and touches no other node
    that existed. *)
Theorem mo_tr a idx t fp :
  Tr a idx t fp -> NoDup fp -> Forall (fun j => j < length (a_nodes a)) fp ->
  Forall (fun e => e < length (a_entries a)) (tentries t) ->
  let a1 := make_owned a idx in
  exists t1 fp1, Tr a1 idx t1 fp1 /\ NoDup fp1
    /\ Forall (fun j => j < length (a_nodes a1)) fp1
    /\ (forall j, In j fp1 -> In j fp \/ length (a_nodes a) <= j)
    /\ tmap (a_with_entry a1) t1 = tmap (a_with_entry a) t
    /\ Forall2 (eren a a1) (tentries t) (tentries t1)
    /\ (NoDup (tentries t) -> NoDup (tentries t1))
    /\ (forall j, j < length (a_nodes a) -> j <> idx -> node_at a1 j = node_at a j)
    /\ length (a_nodes a) <= length (a_nodes a1)
    /\ (forall e, e < length (a_entries a) -> edat a1 e = edat a e)
    /\ length (a_entries a) <= length (a_entries a1)
    /\ a_values a1 = a_values a /\ a_gens a1 = a_gens a
    /\ an_path (node_at a1 idx) = an_path (node_at a idx) /\ an_val (node_at a1 idx) = an_val (node_at a idx).
Proof.
  intros HT Hnd Hb Heb a1. unfold a1, make_owned.
  destruct (Nat.eqb (an_cgen (node_at a idx)) (an_gen (node_at a idx))).
  { exists t, fp. split; [exact HT|]. split; [exact Hnd|]. split; [exact Hb|]. split; [auto|]. split; [reflexivity|].
    split; [apply eren_refl_list|]. auto 15. }
  destruct t as [p ov cs]. destruct HT as (Ep & Ev & fp' & -> & HF).
  set (n := node_at a idx) in *. set (L := length (a_nodes a)) in *. set (Le := length (a_entries a)) in *.
  apply NoDup_cons_iff in Hnd. destruct Hnd as (Ni & Nd'). pose proof (Forall_inv Hb) as Hlt. cbn beta in Hlt.
  pose proof (Forall_inv_tail Hb) as Hb'.
  cbn [tentries] in Heb. apply Forall_app in Heb. destruct Heb as (Hov & Hcs).
  assert (HE : forall k i e, In (k, i) (an_ch n) -> an_val (node_at a i) = Some e -> e < Le).
  { intros k i e Hin Hv. rewrite Forall_forall in Hcs. apply Hcs. eapply TrF_child_entry; eauto. }
  pose proof (mc_spec (an_ch n) a (an_gen n) L HE) as M.
  destruct (migrate_children a (an_gen n) L (an_ch n)) as [[a' ns] cs'].
  destruct M as (G1 & V1 & N1 & (es & E1) & Ln & MR).
  set (a2 := mkA (a_gens a') (a_entries a') (a_values a') (a_nodes a' ++ ns)).
  set (newn := mkAN (an_gen n) (an_val n) (an_path n) (an_gen n) cs').
  set (A := set_node a2 idx newn).
  assert (Len2 : length (a_nodes a2) = L + length ns) by (unfold a2; cbn [a_nodes]; rewrite app_length, N1; reflexivity).
  assert (Nidx : node_at A idx = newn).
  { unfold A. rewrite node_at_set_node, Nat.eqb_refl. destruct (Nat.ltb_spec idx (length (a_nodes a2))); [reflexivity | lia]. }
  assert (Nold : forall j, j < L -> j <> idx -> node_at A j = node_at a j).
  { intros j Hj Hne. unfold A. rewrite node_at_set_node. destruct (Nat.eqb_spec idx j); [congruence|].
    unfold node_at, a2. cbn [a_nodes]. rewrite app_nth1 by (rewrite N1; exact Hj). rewrite N1. reflexivity. }
  assert (Nnew : forall q n', nth_error ns q = Some n' -> node_at A (L + q) = n').
  { intros q n' Hq. unfold A. rewrite node_at_set_node. destruct (Nat.eqb_spec idx (L + q)); [lia|].
    unfold node_at, a2. cbn [a_nodes]. rewrite app_nth2 by (rewrite N1; fold L; lia). rewrite N1. fold L.
    replace (L + q - L) with q by lia. apply nth_error_nth. exact Hq. }
  assert (EA : a_entries A = a_entries a ++ es) by exact E1.
  assert (LA : length (a_nodes A) = L + length ns).
  { unfold A, set_node. cbn [a_nodes]. rewrite set_nth_length. exact Len2. }
  assert (Hed : forall e, e < Le -> edat A e = edat a e) by (intros e He; apply (edat_app1 a A es e EA He)).
  assert (MRA : mcrel a A Le L (an_ch n) ns cs').
  { apply MR; [intros e _; reflexivity | apply Nat.le_refl]. }
  destruct (mk_tr a A cs (an_ch n) ns cs' fp' Le L HF MRA Nnew) as (f1 & fp1 & T1 & N1' & D1 & W1 & F1 & _ & U1).
  { intros j Hj. apply Nold; [rewrite Forall_forall in Hb'; apply Hb'; exact Hj | intros ->; exact (Ni Hj)]. }
  { exact Hed. } { exact V1. } { apply Nat.le_refl. } { exact Nd'. } { exact Hb'. } { exact Hcs. }
  exists (Node p ov f1), (idx :: fp1).
  split. { cbn [Tr]. rewrite Nidx. cbn [an_path an_val an_ch newn]. split; [exact Ep|]. split; [exact Ev|]. exists fp1. auto. }
  split. { constructor; [|exact N1']. intros X. destruct (D1 _ X) as [Y|Y]; [exact (Ni Y) | lia]. }
  split. { rewrite LA. constructor; [lia|]. rewrite Forall_forall. intros j Hj. destruct (D1 _ Hj) as [Y|Y].
           - rewrite Forall_forall in Hb'. specialize (Hb' _ Y). lia.
           - rewrite Ln. lia. }
  split. { intros j [<-|Hj]; [left; left; reflexivity|]. destruct (D1 _ Hj) as [Y|Y]; [left; right; exact Y | right; lia]. }
  split. { cbn [tmap]. f_equal; [|exact W1]. destruct ov as [e|]; [|reflexivity]. cbn [option_map]. f_equal.
           rewrite !with_entry_edat. rewrite Hed by (exact (Forall_inv Hov)). change (a_values A) with (a_values a'). rewrite V1. reflexivity. }
  split. { cbn [tentries]. apply Forall2_app; [apply eren_refl_list | exact F1]. }
  split. { cbn [tentries]. intros ND. apply nd_app in ND. destruct ND as (X1 & X2 & X3). apply nd_app.
           split; [exact X1|]. split; [apply U1; exact X2|]. intros e He He'.
           destruct ov as [e0|]; [|contradiction]. destruct He as [<-|[]].
           destruct (In_nth_error _ _ He') as (q & Hq).
           pose proof (Forall2_nth_error _ _ _ q F1) as Z. rewrite Hq in Z.
           destruct (nth_error (fentries cs) q) as [e1|] eqn:Hq1; [|contradiction].
           destruct Z as [->|((Z & _) & _)].
           - apply (X3 e1); [left; reflexivity | eapply nth_error_In; exact Hq1].
           - pose proof (Forall_inv Hov). cbn in *. fold Le in Z. lia. }
  split. { exact Nold. }
  split. { rewrite LA. lia. }
  split. { exact Hed. }
  split. { rewrite EA, app_length. lia. }
  split. { exact V1. }
  split. { exact G1. }
  rewrite Nidx. split; reflexivity.
Qed.
